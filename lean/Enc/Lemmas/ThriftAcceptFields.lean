import Enc.Lemmas.ThriftAcceptStruct
import Enc.Lemmas.ThriftRoundTripAux
/-!
C13, second half (compact protocol), level 4: from the per-field acceptance to the struct.

  * `Accepts strict d t x` the acceptance statement for one type / value at decoder depth `d` (what the main induction
                           proves, for every `d` with `d + nest t ≤ maxDepth`)
  * `plain_ok`             a plain default value is in the universe and reads back as the zero value
  * `conf_declared`, `conf_cover`, `conf_required`, `conf_ids_sublist`   the records of `ConfFields fs vs rs` against the
                           field table `fieldDescs fs`
  * `struct_accept`        the struct decoder over any permutation of `rs`, any header forms
-/
namespace Enc.Lemmas.ThriftAccept
open Enc Enc.Model.Thrift Enc.Lemmas.ThriftPrim Enc.Lemmas.ThriftSkip Enc.Lemmas.ThriftSpec
open Enc.Lemmas.ThriftRoundTrip

/-- acceptance of every conformant encoding of `x : t` (decoder started on the zero value, at nesting depth `d`) -/
def Accepts (strict : Bool) (d : Nat) (t : Ty) (x : Val) : Prop :=
  tyOK t = true → valOK t x = true → RTS t x = true → ∀ body, Conf t x body →
    ∀ (fuel : Nat) (rest : Bytes), body.length + depth t ≤ fuel →
      decode .compact strict d fuel t (body ++ rest) (zeroOf t) = .ok (norm t x, rest)

def AllAccept (strict : Bool) (d : Nat) : Fields → Vals → Prop
  | .cons _ _ _ t rest, .cons x vs => Accepts strict d t x ∧ AllAccept strict d rest vs
  | _, _ => True

theorem isReal_ofSpec (t : Spec.Thrift.TT) : isReal (ofSpec t) = true := by cases t <;> rfl
theorem ofSpec_ne_true (t : Spec.Thrift.TT) : ofSpec t ≠ TType.true_ := by cases t <;> simp [ofSpec]

theorem enumOK_i32 (tag : String) (t : Ty) (id : Int) (req : Bool)
    (hp : Spec.Thrift.tagOf tag = some (id, req, true)) (h : enumOK tag t = true) : t = .int .i32 := by
  unfold enumOK at h
  rw [hp] at h
  simp only at h
  split at h
  · rfl
  · cases h

/-- ids of the field table = ids as the specification parses the tags -/
theorem fieldDescs_ids : ∀ (fs : Fields) (k : Nat), (fieldDescs.go fs k).map (·.id) = fieldIds fs
  | .nil, k => by simp [go_nil, fieldIds]
  | .cons n tag e t rest, k => by
    rw [go_cons, parseTag_eq_tagOf]
    unfold fieldIds
    cases Spec.Thrift.tagOf tag with
    | none => exact fieldDescs_ids rest (k + 1)
    | some y => obtain ⟨id, req, en⟩ := y; simp only [List.map_cons, fieldDescs_ids rest (k + 1)]

/-- positive distinct ids (universe `ok`) that fit an i16 are decodable ids (universe `RTS`) -/
theorem idsOK_of (fs : Fields) (hpos : (fieldIds fs).all (fun i => decide (0 < i)) = true)
    (hnd : (fieldIds fs).Nodup) (hsmall : (fieldIds fs).all (fun i => decide (i ≤ 32767)) = true) :
    idsOK fs = true := by
  unfold idsOK
  have hids : (fieldDescs fs).map (·.id) = fieldIds fs := fieldDescs_ids fs 0
  simp only [Bool.and_eq_true, decide_eq_true_eq, List.all_eq_true] at hpos hsmall ⊢
  refine ⟨fun d hd => ?_, hids ▸ hnd⟩
  have hm : d.id ∈ fieldIds fs := hids ▸ List.mem_map_of_mem hd
  have h1 := hpos _ hm
  have h2 := hsmall _ hm
  constructor <;> omega

theorem plain_not_nilptr (t : Ty) (x : Val) (h : plainDefault t x = true) : isNilPtr t x = false := by
  cases t <;> first | rfl | simp [plainDefault] at h

mutual
/-- a plain default value: in the round-trip universe, and its normal form is the zero value -/
theorem plain_ok : (t : Ty) → (x : Val) → tyOK t = true → plainDefault t x = true →
    RTS t x = true ∧ norm t x = zeroOf t
  | .bool, x, _, h => by
    cases x <;> simp [plainDefault] at h
    subst h; exact ⟨rfl, rfl⟩
  | .int k, x, ht, h => by
    cases x <;> simp [plainDefault] at h
    subst h
    simp only [tyOK] at ht
    refine ⟨?_, rfl⟩
    simp only [RTS, intOK, ht, Bool.true_and]
    cases k <;> simp [IntKind.signed] at ht <;> decide
  | .str, x, _, h => by
    cases x <;> simp [plainDefault] at h
    subst h; exact ⟨by simp [RTS, strOK], rfl⟩
  | .named _ t, x, ht, h => by
    simp only [tyOK] at ht
    simp only [plainDefault] at h
    simpa only [RTS, norm, zeroOf] using plain_ok t x ht h
  | .struct fs, x, ht, h => by
    cases x with
    | struct vs =>
      simp only [plainDefault, Bool.and_eq_true] at h
      simp only [tyOK, Bool.and_eq_true, decide_eq_true_eq] at ht
      obtain ⟨hR, hn⟩ := plains_ok fs vs ht.1.1 h.2
      refine ⟨?_, by simp only [norm, zeroOf, hn]⟩
      simp only [RTS, structOK, Bool.and_eq_true]
      exact ⟨idsOK_of fs ht.1.2 ht.2 h.1, hR⟩
    | _ => simp [plainDefault] at h
  | .f32, _, _, h | .f64, _, _, h | .bytes, _, _, h | .any, _, _, h | .arr _ _, _, _, h | .ptr _, _, _, h
  | .slice _, _, _, h | .map _ _, _, _, h => by simp [plainDefault] at h
theorem plains_ok : (fs : Fields) → (vs : Vals) → fieldsOK fs = true → plainDefaults fs vs = true →
    RTSFields fs vs = true ∧ normFields fs vs = zeroFields fs
  | .nil, vs, _, h => by
    cases vs <;> simp [plainDefaults] at h
    exact ⟨rfl, rfl⟩
  | .cons _ _ _ _ _, .nil, _, h => by simp [plainDefaults] at h
  | .cons nm tag e t rest, .cons x vr, hok, h => by
    simp only [plainDefaults, Bool.and_eq_true, Bool.or_eq_true] at h
    simp only [fieldsOK, Bool.and_eq_true] at hok
    obtain ⟨hRr, hnr⟩ := plains_ok rest vr hok.2 h.2
    rw [RTSFields_cons, normFields_cons]
    simp only [zeroFields, hnr, hRr, Bool.true_and, Bool.and_eq_true]
    cases hp : parseTag tag with
    | none =>
      rw [emitted_none_of_parseTag tag t x hp]
      simp [requiredSet, hp]
    | some y =>
      obtain ⟨id, req, en⟩ := y
      have hpl : plainDefault t x = true := by
        rcases h.1 with h1 | h1
        · rw [← parseTag_eq_tagOf, hp] at h1; cases h1
        · exact h1
      obtain ⟨hRx, hnx⟩ := plain_ok t x hok.1.1 hpl
      have hnil := plain_not_nilptr t x hpl
      have hreqs : requiredSet tag t x = true := by
        simp only [requiredSet, hp]
        cases req <;> simp [hnil]
      cases hem : emitted tag t x with
      | none => exact ⟨⟨hreqs, rfl⟩, rfl⟩
      | some z =>
        obtain ⟨id', en'⟩ := z
        obtain ⟨req', hp'⟩ := emitted_parseTag tag t x id' en' hem
        rw [hp] at hp'
        simp only [Option.some.injEq, Prod.mk.injEq] at hp'
        obtain ⟨rfl, rfl, rfl⟩ := hp'
        refine ⟨⟨hreqs, ?_⟩, by simp only [hnx]⟩
        simp only [Bool.and_eq_true]
        refine ⟨⟨by rw [typeOf_eq t hok.1.1]; exact isReal_ofSpec _, ?_⟩, hRx⟩
        cases en with
        | false => rfl
        | true =>
          have := enumOK_i32 tag t id req (by rw [← parseTag_eq_tagOf]; exact hp) hok.1.2
          subst this; rfl
end

theorem emitted_of (tag : String) (t : Ty) (x : Val) (id : Int) (req en : Bool)
    (hp : parseTag tag = some (id, req, en)) :
    emitted tag t x = if isNilPtr t x then none else if !req && isZeroAt t x then none else some (id, en) := by
  unfold emitted; rw [hp]

theorem emitted_none_of_omit (tag : String) (t : Ty) (x : Val) (id : Int) (req en : Bool)
    (hp : parseTag tag = some (id, req, en)) (ht : tyOK t = true) (hx : valOK t x = true)
    (ho : mayOmit req t x = true) : emitted tag t x = none := by
  rw [emitted_of tag t x id req en hp, isZeroAt_eq t ht x hx]
  simp only [mayOmit, Bool.or_eq_true] at ho
  rcases ho with ho | ho
  · simp [ho]
  · simp [ho]

/-- a field that may be written is in the round-trip universe, and the value the canonical round trip leaves at its
position is its normal form -/
theorem field_target (tag : String) (t : Ty) (x : Val) (id : Int) (req en : Bool)
    (hp : parseTag tag = some (id, req, en)) (ht : tyOK t = true) (hx : valOK t x = true)
    (hw : mayWrite req t x = true)
    (hR : (match emitted tag t x with
           | none => true
           | some (_, en) => isReal (typeOf t) && enumTyOK en t && RTS t x) = true) :
    RTS t x = true ∧ ∀ (n : String) (e : Bool) (rest : Fields) (vs : Vals),
      normFields (.cons n tag e t rest) (.cons x vs) = .cons (norm t x) (normFields rest vs) := by
  have hem := emitted_of tag t x id req en hp
  rw [isZeroAt_eq t ht x hx] at hem
  simp only [mayWrite, Bool.and_eq_true, Bool.or_eq_true, Bool.not_eq_true'] at hw
  obtain ⟨hn, hw⟩ := hw
  simp only [hn, Bool.false_eq_true, if_false] at hem
  by_cases hz : (!req && Spec.Thrift.isDefaultAt t x) = true
  · simp only [hz, if_true] at hem
    simp only [Bool.and_eq_true, Bool.not_eq_true'] at hz
    have hpl : plainDefault t x = true := by
      rcases hw with (hw | hw) | hw
      · rw [hw] at hz; cases hz.1
      · rw [hw] at hz; cases hz.2
      · exact hw
    obtain ⟨h1, h2⟩ := plain_ok t x ht hpl
    refine ⟨h1, fun n e rest vs => ?_⟩
    rw [normFields_cons, hem, h2]
  · simp only [hz, Bool.false_eq_true, if_false] at hem
    rw [hem] at hR
    simp only [Bool.and_eq_true] at hR
    refine ⟨hR.2, fun n e rest vs => ?_⟩
    rw [normFields_cons, hem]

/-- the value step of one written field: enum-tagged int32 fields through `rI32`, every other field through `decode` -/
theorem field_valstep (strict : Bool) (d : Nat) (k : Nat) (tag : String) (t : Ty) (x : Val) (id : Int) (req en : Bool)
    (body : Bytes) (hp : Spec.Thrift.tagOf tag = some (id, req, en)) (ht : tyOK t = true) (hx : valOK t x = true)
    (hen : enumOK tag t = true) (hR : RTS t x = true) (hacc : Accepts strict d t x) (hbody : FieldBodyC en t x body)
    (D : Nat) (hD : depth t ≤ D) :
    ValStep .compact strict d { pos := k, id := id, required := req, enum := en, ty := t } body D (zeroOf t)
      (norm t x) := by
  cases en with
  | true =>
    have := enumOK_i32 tag t id req hp hen
    subst this
    cases x <;> simp [valOK] at hx
    rename_i i
    simp only [RTS, intOK, Bool.and_eq_true] at hR
    obtain ⟨_, h1, h2⟩ := inRange_signed .i32 i (by simpa using hR)
    simp only [IntKind.bits, Nat.reduceSub, Int.reducePow] at h1 h2
    simp only [FieldBodyC, if_true, Spec.Thrift.derefV] at hbody
    refine ⟨fun k' _ hb => ?_, fun hn => ?_⟩
    · simp only [baseOf, Ty.int.injEq] at hb
      subst hb
      exact ⟨i, fun rest => rI32_UV i ⟨by omega, by omega⟩ hbody rest, by
        rw [wrapTo32_id i ⟨by omega, by omega⟩]; rfl⟩
    · exact absurd ⟨rfl, .i32, rfl⟩ hn
  | false =>
    simp only [FieldBodyC, Bool.false_eq_true, if_false] at hbody
    refine ⟨fun k' he _ => (by simp at he), fun _ fuel rest hf => hacc ht hx hR body hbody fuel rest (by omega)⟩

/-- every record of a conformant record list is declared: descriptor, position (relative to the offset `k`), wire type,
bool value, value step towards `normFields` -/
theorem conf_declared (strict : Bool) (d : Nat) : ∀ (fs : Fields) (vs : Vals) (k : Nat) (rs : List Spec.Thrift.FRec),
    fieldsOK fs = true → valsOK fs vs = true → RTSFields fs vs = true → AllAccept strict d fs vs →
    ConfFields fs vs rs →
    ∀ f ∈ rs, ∃ fd ∈ fieldDescs.go fs k, ∃ n, fd.pos = k + n ∧ fd.id = f.id ∧ typeOf fd.ty = ofSpec f.t ∧
        n < (normFields fs vs).length ∧
        (f.t = .bool → wrapPtr fd.ty (.bool f.isTrue) = Vals.get (normFields fs vs) n) ∧
        ValStep .compact strict d fd f.body (depthFields fs) (Vals.get (zeroFields fs) n)
          (Vals.get (normFields fs vs) n)
  | .nil, vs, _, rs, _, _, _, _, hc => by
    simp only [ConfFields] at hc
    intro f hf; rw [hc.2] at hf; cases hf
  | .cons _ _ _ _ _, .nil, _, _, _, hv, _, _, _ => by simp [valsOK] at hv
  | .cons nm tag e t rest, .cons x vr, k, rs, hok, hv, hR, hall, hc => by
    simp only [fieldsOK, Bool.and_eq_true] at hok
    simp only [valsOK, Bool.and_eq_true] at hv
    rw [RTSFields_cons] at hR
    simp only [Bool.and_eq_true] at hR
    obtain ⟨⟨hRrest, _⟩, hRfield⟩ := hR
    obtain ⟨hacc, hallrest⟩ := hall
    have ih := fun rs' hc' => conf_declared strict d rest vr (k + 1) rs' hok.2 hv.2 hRrest hallrest hc'
    -- a record of the tail
    have tail : ∀ rs', ConfFields rest vr rs' → ∀ f ∈ rs',
        ∃ fd ∈ fieldDescs.go (.cons nm tag e t rest) k, ∃ n, fd.pos = k + n ∧ fd.id = f.id ∧
          typeOf fd.ty = ofSpec f.t ∧ n < (normFields (.cons nm tag e t rest) (.cons x vr)).length ∧
          (f.t = .bool → wrapPtr fd.ty (.bool f.isTrue) =
            Vals.get (normFields (.cons nm tag e t rest) (.cons x vr)) n) ∧
          ValStep .compact strict d fd f.body (depthFields (.cons nm tag e t rest))
            (Vals.get (zeroFields (.cons nm tag e t rest)) n)
            (Vals.get (normFields (.cons nm tag e t rest) (.cons x vr)) n) := by
      intro rs' hc' f hf
      obtain ⟨fd, hd, n, h1, h2, h3, h4, h5, h6⟩ := ih rs' hc' f hf
      refine ⟨fd, ?_, n + 1, by omega, h2, h3, ?_, ?_, ?_⟩
      · rw [go_cons]
        cases parseTag tag with
        | none => exact hd
        | some y => exact List.mem_cons_of_mem _ hd
      · rw [normFields_cons]; simp only [Vals.length]; omega
      · rw [normFields_cons]; simpa only [Vals.get] using h5
      · rw [normFields_cons, depthFields_cons]
        simp only [zeroFields, Vals.get]
        exact ValStep_mono _ _ _ _ _ _ _ _ _ h6 (Nat.le_max_right ..)
    rcases confFields_cases hc with ⟨_, hc'⟩ | ⟨id, req, en, _, _, hc'⟩ | ⟨id, req, en, body, rs', hp, hw, hb, hrs, hc'⟩
    · exact tail rs hc'
    · exact tail rs hc'
    · intro f hf
      rw [hrs] at hf
      rcases List.mem_cons.mp hf with rfl | hf
      · have hp' : parseTag tag = some (id, req, en) := by rw [parseTag_eq_tagOf]; exact hp
        obtain ⟨hRx, htv⟩ := field_target tag t x id req en hp' hok.1.1 hv.1 hw hRfield
        have htyp : typeOf t = ofSpec (if en = true then Spec.Thrift.TT.i32 else Spec.Thrift.ttOf t) := by
          cases en with
          | true => rw [enumOK_i32 tag t id req hp hok.1.2]; rfl
          | false => exact typeOf_eq t hok.1.1
        refine ⟨⟨k, id, req, en, t⟩, ?_, 0, rfl, rfl, htyp, ?_, ?_, ?_⟩
        · rw [go_cons, hp']; exact List.mem_cons_self ..
        · rw [htv]; simp [Vals.length]
        · intro hbt
          simp only at hbt
          rw [htv]; simp only [Vals.get]
          rw [← fieldIsTrue_eq]
          refine wrapPtr_bool t x ?_ hRx
          rw [htyp, hbt]; rfl
        · rw [htv, depthFields_cons]
          simp only [zeroFields, Vals.get]
          exact field_valstep strict d k tag t x id req en body hp hok.1.1 hv.1 hok.1.2 hRx hacc hb _
            (Nat.le_max_left ..)
      · exact tail rs' hc' f hf

/-- a position either keeps its zero value or belongs to a written record -/
theorem conf_cover : ∀ (fs : Fields) (vs : Vals) (k n : Nat) (rs : List Spec.Thrift.FRec),
    fieldsOK fs = true → valsOK fs vs = true → ConfFields fs vs rs →
    Vals.get (normFields fs vs) n = Vals.get (zeroFields fs) n ∨
      ∃ f ∈ rs, ∃ d ∈ fieldDescs.go fs k, d.id = f.id ∧ d.pos = k + n
  | .nil, vs, _, _, _, _, _, _ => by cases vs <;> exact Or.inl rfl
  | .cons _ _ _ _ _, .nil, _, _, _, _, hv, _ => by simp [valsOK] at hv
  | .cons nm tag e t rest, .cons x vr, k, n, rs, hok, hv, hc => by
    simp only [fieldsOK, Bool.and_eq_true] at hok
    simp only [valsOK, Bool.and_eq_true] at hv
    rw [normFields_cons, go_cons]
    simp only [zeroFields]
    -- positions of the tail
    have tail : ∀ rs', ConfFields rest vr rs' → (∀ f ∈ rs', f ∈ rs) → ∀ m, n = m + 1 →
        Vals.get (Vals.cons (match emitted tag t x with | none => zeroOf t | some _ => norm t x)
            (normFields rest vr)) n = Vals.get (Vals.cons (zeroOf t) (zeroFields rest)) n ∨
          ∃ f ∈ rs, ∃ d ∈ (match parseTag tag with
              | none => fieldDescs.go rest (k + 1)
              | some (id, req, en) =>
                { pos := k, id := id, required := req, enum := en, ty := t } :: fieldDescs.go rest (k + 1)),
            d.id = f.id ∧ d.pos = k + n := by
      intro rs' hc' hsub m hm
      subst hm
      simp only [Vals.get]
      rcases conf_cover rest vr (k + 1) m rs' hok.2 hv.2 hc' with hz | ⟨f, hf, d, hd, hid, hpos⟩
      · exact Or.inl hz
      · refine Or.inr ⟨f, hsub f hf, d, ?_, hid, by omega⟩
        cases parseTag tag with
        | none => exact hd
        | some y => exact List.mem_cons_of_mem _ hd
    rcases confFields_cases hc with ⟨hp, hc'⟩ | ⟨id, req, en, hp, ho, hc'⟩ | ⟨id, req, en, body, rs', hp, hw, hb, hrs, hc'⟩
    · cases n with
      | zero =>
        left
        have : parseTag tag = none := by rw [parseTag_eq_tagOf]; exact hp
        rw [emitted_none_of_parseTag tag t x this]; rfl
      | succ m => exact tail rs hc' (fun _ h => h) m rfl
    · cases n with
      | zero =>
        left
        have hp' : parseTag tag = some (id, req, en) := by rw [parseTag_eq_tagOf]; exact hp
        rw [emitted_none_of_omit tag t x id req en hp' hok.1.1 hv.1 ho]; rfl
      | succ m => exact tail rs hc' (fun _ h => h) m rfl
    · cases n with
      | zero =>
        right
        have hp' : parseTag tag = some (id, req, en) := by rw [parseTag_eq_tagOf]; exact hp
        rw [hrs, hp']
        exact ⟨_, List.mem_cons_self .., _, List.mem_cons_self .., rfl, rfl⟩
      | succ m => exact tail rs' hc' (fun f h => by rw [hrs]; exact List.mem_cons_of_mem _ h) m rfl

/-- a required declared field is always written -/
theorem conf_required : ∀ (fs : Fields) (vs : Vals) (k : Nat) (rs : List Spec.Thrift.FRec),
    RTSFields fs vs = true → ConfFields fs vs rs →
    ∀ d ∈ fieldDescs.go fs k, d.required = true → d.id ∈ rs.map (·.id)
  | .nil, _, k, _, _, _ => by simp [go_nil]
  | .cons _ _ _ _ _, .nil, _, _, h, _ => by simp [RTSFields] at h
  | .cons nm tag e t rest, .cons x vr, k, rs, hR, hc => by
    rw [RTSFields_cons] at hR
    simp only [Bool.and_eq_true] at hR
    have hreq := hR.1.2
    have ih := fun rs' hc' => conf_required rest vr (k + 1) rs' hR.1.1 hc'
    intro d hd hr
    rw [go_cons] at hd
    rcases confFields_cases hc with ⟨hp, hc'⟩ | ⟨id, req, en, hp, ho, hc'⟩ | ⟨id, req, en, body, rs', hp, hw, hb, hrs, hc'⟩
    · have : parseTag tag = none := by rw [parseTag_eq_tagOf]; exact hp
      rw [this] at hd
      exact ih rs hc' d hd hr
    · have hp' : parseTag tag = some (id, req, en) := by rw [parseTag_eq_tagOf]; exact hp
      rw [hp'] at hd
      rcases List.mem_cons.mp hd with rfl | hd
      · simp only at hr
        subst hr
        exfalso
        have hnil : isNilPtr t x = false := by simpa [requiredSet, hp'] using hreq
        simp [mayOmit, hnil] at ho
      · exact ih rs hc' d hd hr
    · have hp' : parseTag tag = some (id, req, en) := by rw [parseTag_eq_tagOf]; exact hp
      rw [hp'] at hd
      rw [hrs, List.map_cons]
      rcases List.mem_cons.mp hd with rfl | hd
      · exact List.mem_cons_self ..
      · exact List.mem_cons_of_mem _ (ih rs' hc' d hd hr)

/-- the written ids are a sublist of the declared ids -/
theorem conf_ids_sublist : ∀ (fs : Fields) (vs : Vals) (k : Nat) (rs : List Spec.Thrift.FRec),
    ConfFields fs vs rs → (rs.map (·.id)).Sublist ((fieldDescs.go fs k).map (·.id))
  | .nil, _, _, rs, hc => by
    simp only [ConfFields] at hc
    rw [hc.2]; exact List.nil_sublist _
  | .cons _ _ _ _ _, .nil, _, _, hc => by simp [ConfFields] at hc
  | .cons nm tag e t rest, .cons x vr, k, rs, hc => by
    have ih := fun rs' hc' => conf_ids_sublist rest vr (k + 1) rs' hc'
    rw [go_cons]
    rcases confFields_cases hc with ⟨hp, hc'⟩ | ⟨id, req, en, hp, ho, hc'⟩ | ⟨id, req, en, body, rs', hp, hw, hb, hrs, hc'⟩
    · have : parseTag tag = none := by rw [parseTag_eq_tagOf]; exact hp
      rw [this]; exact ih rs hc'
    · have hp' : parseTag tag = some (id, req, en) := by rw [parseTag_eq_tagOf]; exact hp
      rw [hp']; simp only [List.map_cons]; exact List.Sublist.cons _ (ih rs hc')
    · have hp' : parseTag tag = some (id, req, en) := by rw [parseTag_eq_tagOf]; exact hp
      rw [hp', hrs]; simp only [List.map_cons]; exact List.Sublist.cons_cons _ (ih rs' hc')

/-- **struct level.** Started on the zero value, the struct decoder consumes ANY permutation `order` of a conformant
record list, with any header forms, and yields `normFields fs vs` — the same value as for the canonical encoding —
having seen every required id. -/
theorem struct_accept (strict : Bool) (d : Nat) (fs : Fields) (vs : Vals) (hok : fieldsOK fs = true)
    (hv : valsOK fs vs = true) (hids : idsOK fs = true) (hR : RTSFields fs vs = true)
    (hall : AllAccept strict d fs vs) (rs order : List Spec.Thrift.FRec) (bs : Bytes)
    (hc : ConfFields fs vs rs) (hperm : order.Perm rs) (hs : Stream order 0 bs) (fuel : Nat) (rest : Bytes)
    (hf : bs.length + depthFields fs ≤ fuel) :
    ∃ seen, decodeStruct .compact strict d fuel (fieldDescs fs) (bs ++ rest) (zeroFields fs) 0 0 []
          = .ok ((normFields fs vs, seen), rest) ∧
      (fieldDescs fs).any (fun fd => fd.required && !seen.contains fd.id) = false := by
  have hdescs : fieldDescs fs = fieldDescs.go fs 0 := rfl
  unfold idsOK at hids
  simp only [Bool.and_eq_true, decide_eq_true_eq, List.all_eq_true] at hids
  obtain ⟨hrange, hnd⟩ := hids
  have hfind : ∀ fd ∈ fieldDescs fs, findById (fieldDescs fs) fd.id = some fd := findById_of_mem _ hnd
  have hposinj := eq_of_pos_eq _ (hdescs ▸ (go_pos fs 0).1)
  have hdecl := conf_declared strict d fs vs 0 rs hok hv hR hall hc
  have hmem : ∀ g, g ∈ order ↔ g ∈ rs := fun g => hperm.mem_iff
  have hdec : ∀ f ∈ order, DecRec .compact strict d (fieldDescs fs) (zeroFields fs) (normFields fs vs)
      (depthFields fs) (conv f) := by
    intro f hfm
    obtain ⟨fd, hd, n, h1, h2, h3, h4, h5, h6⟩ := hdecl f ((hmem f).mp hfm)
    rw [← hdescs] at hd
    have hr := hrange fd hd
    have hpn : fd.pos = n := by omega
    rw [h2] at hr
    refine ⟨hr.1, hr.2, isReal_ofSpec f.t, ofSpec_ne_true f.t, fd, ?_, h3, hpn ▸ h4, ?_, ?_⟩
    · show findById (fieldDescs fs) f.id = some fd
      rw [← h2]; exact hfind fd hd
    · intro hb
      rw [hpn]; exact h5 ((ofSpec_eq_bool f.t).mp hb)
    · rw [hpn]; exact h6
  have hnodup : (order.map (·.id)).Nodup := by
    rw [(hperm.map (·.id)).nodup_iff]
    exact (conf_ids_sublist fs vs 0 rs hc).nodup (hdescs ▸ hnd)
  have hposOf : ∀ f ∈ order, ∃ fd ∈ fieldDescs fs, fd.id = f.id ∧ posOf (fieldDescs fs) f.id = fd.pos := by
    intro f hfm
    obtain ⟨fd, hd, n, _, h2, _⟩ := hdecl f ((hmem f).mp hfm)
    rw [← hdescs] at hd
    refine ⟨fd, hd, h2, ?_⟩
    rw [← h2]; simp [posOf, hfind fd hd]
  have hpp : order.Pairwise (fun a b => posOf (fieldDescs fs) a.id ≠ posOf (fieldDescs fs) b.id) := by
    have hne : order.Pairwise (fun a b => a.id ≠ b.id) := by
      simpa [List.Nodup, List.pairwise_map] using hnodup
    apply List.Pairwise.imp_of_mem _ hne
    intro a b ha hb hne heq
    obtain ⟨da, hda, hia, hpa⟩ := hposOf a ha
    obtain ⟨db, hdb, hib, hpb⟩ := hposOf b hb
    have : da = db := hposinj da hda db hdb (by omega)
    rw [this] at hia
    exact hne (by rw [← hia, ← hib])
  have hloop := decodeStruct_stream strict d (fieldDescs fs) (zeroFields fs) (normFields fs vs) (depthFields fs) hs
    0 fuel (zeroFields fs) [] rest hdec hpp (normFields_length fs vs hR).symm (fun _ _ => rfl)
    (fun n hn => by
      rcases conf_cover fs vs 0 n rs hok hv hc with hz | ⟨f, hfm, fd, hd, hid, hpos⟩
      · exact hz.symm
      · exfalso
        rw [← hdescs] at hd
        apply hn f ((hmem f).mpr hfm)
        rw [← hid]; simp [posOf, hfind fd hd]; omega)
    hf
  refine ⟨_, hloop, ?_⟩
  rw [List.any_eq_false]
  intro fd hd
  simp only [Bool.and_eq_true, Bool.not_eq_true', not_and, Bool.not_eq_false]
  intro hreq
  have := conf_required fs vs 0 rs hR hc fd (hdescs ▸ hd) hreq
  rw [List.mem_map] at this
  obtain ⟨f, hfm, hfid⟩ := this
  simp only [List.append_nil, List.contains_eq_mem, List.mem_reverse, List.mem_map, decide_eq_true_eq]
  exact ⟨f, (hmem f).mpr hfm, hfid⟩

end Enc.Lemmas.ThriftAccept
