import Enc.Lemmas.ThriftRoundTripDefs
/-!
C04, collection loops: `decodeList`, `decodeSet`, `decodeMap` over the concatenated element encodings, with the
length-based fuel bound, and `mapPut` on keys that are pairwise distinct under `Val.show`.
-/
namespace Enc.Lemmas.ThriftRoundTrip
open Enc Enc.Model.Thrift Enc.Lemmas.ThriftPrim Enc.Lemmas.ThriftSkip

theorem flat_nil : flat [] = .nil := rfl
theorem flat_cons (q : Val × Val) (qs : List (Val × Val)) : flat (q :: qs) = .cons q.1 (.cons q.2 (flat qs)) := by
  simp [flat, Vals.ofList]

/-- `mapPut` with a key that is new (as `mapPut` compares keys: by `Val.show`) appends the pair -/
theorem mapPut_flat (k v : Val) : ∀ (qs : List (Val × Val)), (∀ q ∈ qs, q.1.show ≠ k.show) →
    mapPut (flat qs) k v = flat (qs ++ [(k, v)]) := by
  intro qs
  induction qs with
  | nil => intro _; rfl
  | cons q qs ih =>
    intro h
    have hq : (q.1.show == k.show) = false := by simpa using h q (List.mem_cons_self ..)
    rw [List.cons_append, flat_cons, flat_cons, mapPut]
    simp only [hq, Bool.false_eq_true, if_false]
    rw [ih (fun q' hq' => h q' (List.mem_cons_of_mem _ hq'))]

/-- `mapPut` with a key already present overwrites the FIRST pair having that key (Go map assignment) -/
theorem mapPut_dup (k0 v0 k v : Val) (rest : Vals) (h : k0.show = k.show) :
    mapPut (.cons k0 (.cons v0 rest)) k v = .cons k0 (.cons v rest) := by
  simp [mapPut, h]

theorem decodeList_norm (p : Proto) (strict : Bool) (d : Nat) (et : Ty) (nrm : Val → Val) (D : Nat) :
    ∀ (l : List Val),
      (∀ a ∈ l, 1 ≤ (encode p et a).length) →
      (∀ a ∈ l, ∀ fuel rest, (encode p et a).length + D ≤ fuel →
        decode p strict d fuel et (encode p et a ++ rest) (zeroOf et) = .ok (nrm a, rest)) →
      ∀ fuel rest acc, (l.map (encode p et)).flatten.length + 1 + D ≤ fuel →
        decodeList p strict d fuel et l.length ((l.map (encode p et)).flatten ++ rest) acc
          = .ok (.list (Vals.ofList (acc.reverse ++ l.map nrm)), rest) := by
  intro l
  induction l with
  | nil =>
    intro _ _ fuel rest acc hf
    obtain ⟨f, rfl⟩ : ∃ f, fuel = f + 1 := ⟨fuel - 1, by omega⟩
    simp [decodeList]
  | cons a l ih =>
    intro hpos h fuel rest acc hf
    simp only [List.map_cons, List.flatten_cons, List.length_append] at hf
    have ha := hpos a (List.mem_cons_self ..)
    obtain ⟨f, rfl⟩ : ∃ f, fuel = f + 1 := ⟨fuel - 1, by omega⟩
    simp only [List.length_cons, List.map_cons, List.flatten_cons, List.append_assoc, decodeList]
    rw [h a (List.mem_cons_self ..) f _ (by omega)]
    simp only [dontExpectEOF_ok, Res.bind]
    rw [ih (fun b hb => hpos b (List.mem_cons_of_mem _ hb)) (fun b hb => h b (List.mem_cons_of_mem _ hb))
      f rest (nrm a :: acc) (by omega)]
    simp

theorem decodeMap_norm (p : Proto) (strict : Bool) (d : Nat) (kt vt : Ty) (nk nv : Val → Val) (D : Nat) :
    ∀ (l qs : List (Val × Val)),
      (∀ a ∈ l, 1 ≤ (encode p kt a.1).length) →
      (∀ a ∈ l, ∀ fuel rest, (encode p kt a.1).length + D ≤ fuel →
        decode p strict d fuel kt (encode p kt a.1 ++ rest) (zeroOf kt) = .ok (nk a.1, rest)) →
      (∀ a ∈ l, ∀ fuel rest, (encode p vt a.2).length + D ≤ fuel →
        decode p strict d fuel vt (encode p vt a.2 ++ rest) (zeroOf vt) = .ok (nv a.2, rest)) →
      (qs.map (·.1.show) ++ l.map fun a => (nk a.1).show).Nodup →
      ∀ fuel rest, (l.map fun a => encode p kt a.1 ++ encode p vt a.2).flatten.length + 1 + D ≤ fuel →
        decodeMap p strict d fuel kt vt l.length ((l.map fun a => encode p kt a.1 ++ encode p vt a.2).flatten ++ rest)
            (flat qs)
          = .ok (.map (flat (qs ++ l.map fun a => (nk a.1, nv a.2))), rest) := by
  intro l
  induction l with
  | nil =>
    intro qs _ _ _ _ fuel rest hf
    obtain ⟨f, rfl⟩ : ∃ f, fuel = f + 1 := ⟨fuel - 1, by omega⟩
    simp [decodeMap]
  | cons a l ih =>
    intro qs hpos hk hv hnd fuel rest hf
    simp only [List.map_cons, List.flatten_cons, List.length_append] at hf
    have ha := hpos a (List.mem_cons_self ..)
    obtain ⟨f, rfl⟩ : ∃ f, fuel = f + 1 := ⟨fuel - 1, by omega⟩
    simp only [List.length_cons, List.map_cons, List.flatten_cons, List.append_assoc, decodeMap]
    rw [hk a (List.mem_cons_self ..) f _ (by omega)]
    simp only [dontExpectEOF_ok, Res.bind]
    rw [hv a (List.mem_cons_self ..) f _ (by omega)]
    simp only [dontExpectEOF_ok]
    have hnew : ∀ q ∈ qs, q.1.show ≠ (nk a.1).show := by
      intro q hq heq
      rw [List.map_cons, List.nodup_append] at hnd
      exact hnd.2.2 _ (List.mem_map_of_mem hq) _ (List.mem_cons_self ..) heq
    rw [mapPut_flat _ _ qs hnew]
    rw [ih (qs ++ [(nk a.1, nv a.2)]) (fun b hb => hpos b (List.mem_cons_of_mem _ hb))
      (fun b hb => hk b (List.mem_cons_of_mem _ hb)) (fun b hb => hv b (List.mem_cons_of_mem _ hb))
      (by simpa [List.map_append, List.append_assoc] using hnd) f rest (by omega)]
    simp [List.append_assoc]

theorem decodeSet_norm (p : Proto) (strict : Bool) (d : Nat) (kt : Ty) (nk : Val → Val) (D : Nat) :
    ∀ (l qs : List (Val × Val)),
      (∀ a ∈ l, 1 ≤ (encode p kt a.1).length) →
      (∀ a ∈ l, ∀ fuel rest, (encode p kt a.1).length + D ≤ fuel →
        decode p strict d fuel kt (encode p kt a.1 ++ rest) (zeroOf kt) = .ok (nk a.1, rest)) →
      (qs.map (·.1.show) ++ l.map fun a => (nk a.1).show).Nodup →
      ∀ fuel rest, (l.map fun a => encode p kt a.1).flatten.length + 1 + D ≤ fuel →
        decodeSet p strict d fuel kt l.length ((l.map fun a => encode p kt a.1).flatten ++ rest) (flat qs)
          = .ok (.map (flat (qs ++ l.map fun a => (nk a.1, .struct .nil))), rest) := by
  intro l
  induction l with
  | nil =>
    intro qs _ _ _ fuel rest hf
    obtain ⟨f, rfl⟩ : ∃ f, fuel = f + 1 := ⟨fuel - 1, by omega⟩
    simp [decodeSet]
  | cons a l ih =>
    intro qs hpos hk hnd fuel rest hf
    simp only [List.map_cons, List.flatten_cons, List.length_append] at hf
    have ha := hpos a (List.mem_cons_self ..)
    obtain ⟨f, rfl⟩ : ∃ f, fuel = f + 1 := ⟨fuel - 1, by omega⟩
    simp only [List.length_cons, List.map_cons, List.flatten_cons, List.append_assoc, decodeSet]
    rw [hk a (List.mem_cons_self ..) f _ (by omega)]
    simp only [dontExpectEOF_ok, Res.bind]
    have hnew : ∀ q ∈ qs, q.1.show ≠ (nk a.1).show := by
      intro q hq heq
      rw [List.map_cons, List.nodup_append] at hnd
      exact hnd.2.2 _ (List.mem_map_of_mem hq) _ (List.mem_cons_self ..) heq
    rw [mapPut_flat _ _ qs hnew]
    rw [ih (qs ++ [(nk a.1, Val.struct Vals.nil)]) (fun b hb => hpos b (List.mem_cons_of_mem _ hb))
      (fun b hb => hk b (List.mem_cons_of_mem _ hb))
      (by simpa [List.map_append, List.append_assoc] using hnd) f rest (by omega)]
    simp [List.append_assoc]

end Enc.Lemmas.ThriftRoundTrip
