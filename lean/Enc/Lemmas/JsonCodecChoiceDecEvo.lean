import Enc.Lemmas.JsonCodecChoiceDecStd
/-!
# How `seen` evolves during a construction, decode side (Lemmas/JsonCodecChoiceEvo.lean for `codecDecF`)

A call of `constructCodec` / `constructStructType` (1) never changes or removes a finished struct type, and (2) leaves
exactly the entries "under construction" it found: whatever it registers itself it finishes (struct types) or deletes
(named slice/map/pointer/array types) before it returns.
-/
set_option linter.unusedSimpArgs false
set_option linter.unusedVariables false
namespace Enc.Lemmas.JsonCodecChoiceDecEvo
open Enc.Model.Json.CodecChoice Enc.Lemmas.JsonCodecChoiceDecSeen Enc.Lemmas.JsonCodecChoiceDecStd

def EvoC (codec : DCodecFn) : Prop := ∀ t a s c s', codec t a s = some (c, s') → Evo s s'
def EvoS (strct : DStructFn) : Prop := ∀ t a root s e s', strct t a root s = some (e, s') →
  Evo s s' ∧ ∀ r, e = .building r → s' = s ∧ s.find (t, a) = some (.building r)
def EvoL (list : DListFn) : Prop := ∀ t a R s fs s', list t a R s = some (fs, s') → Evo s s'

theorem embedded_evo (strct : DStructFn) (list : DListFn) (hs : EvoS strct) (hl : EvoL list) (typ : TD) (b : Bool)
    (R : Key) (s s' : DSeen) (fs : DL) (h : embeddedDecF strct list typ b R s = some (fs, s')) : Evo s s' := by
  unfold embeddedDecF at h
  cases h1 : strct typ b (some R) s with
  | none => simp [h1] at h
  | some r1 =>
    obtain ⟨e, s1⟩ := r1
    obtain ⟨m1, hb⟩ := hs _ _ _ _ _ _ h1
    simp only [h1] at h
    cases e with
    | done fs' => simp at h; rw [← h.2]; exact m1
    | building r =>
      obtain ⟨rfl, hfind⟩ := hb r rfl
      simp only at h
      split at h
      · simp at h; rw [← h.2]; exact Evo.refl _
      · cases h2 : list typ b R (s1.set (typ, b) (.building R)) with
        | none => simp [h2] at h
        | some r2 =>
          obtain ⟨fs2, s2⟩ := r2
          simp [h2] at h
          rw [← h.2]
          exact evo_relist s1 s2 (typ, b) r R hfind (hl _ _ _ _ _ _ h2)

theorem stringify_evo (codec : DCodecFn) (hc : EvoC codec) (env : Env) (a : Bool) (ft : TD) (c c' : DChoice) (s s' : DSeen)
    (h : stringifyDecF codec env a ft c s = some (c', s')) : Evo s s' := by
  unfold stringifyDecF at h
  simp only at h
  split at h
  · cases hcd : codec ft a s with
    | none => simp [hcd] at h
    | some r =>
      obtain ⟨p, s1⟩ := r
      simp [hcd] at h
      rw [← h.2]; exact hc _ _ _ _ _ hcd
  · simp at h; rw [← h.2]; exact Evo.refl s

theorem fields_evo (codec : DCodecFn) (strct : DStructFn) (list : DListFn) (hc : EvoC codec) (hs : EvoS strct)
    (hl : EvoL list) (env : Env) (a : Bool) (R : Key) :
    ∀ (fl : FL) (s : DSeen) (cl : DL) (s' : DSeen), fieldsDecF codec strct list env a R fl s = some (cl, s') → Evo s s'
  | .nil, s, cl, s', h => by simp [fieldsDecF] at h; rw [← h.2]; exact Evo.refl s
  | .cons name emb str ft rest, s, cl, s', h => by
    unfold fieldsDecF at h
    simp only at h
    split at h
    · cases h1 : embeddedDecF strct list (peel ft) (a || isPtrKind ft) R s with
      | none => simp [h1] at h
      | some r =>
        obtain ⟨e, s1⟩ := r
        simp only [h1] at h
        cases h2 : fieldsDecF codec strct list env a R rest s1 with
        | none => simp [h2] at h
        | some r2 =>
          obtain ⟨rr, s2⟩ := r2
          simp [h2] at h
          rw [← h.2]
          exact (embedded_evo strct list hs hl _ _ R s s1 e h1).trans
            (fields_evo codec strct list hc hs hl env a R rest s1 rr s2 h2)
    · cases h1 : codec ft a s with
      | none => simp [h1] at h
      | some r =>
        obtain ⟨c, s1⟩ := r
        simp only [h1] at h
        cases h2 : (if str = true then stringifyDecF codec env a ft c s1 else some (c, s1)) with
        | none => simp [h2] at h
        | some r2 =>
          obtain ⟨c2, s2⟩ := r2
          simp only [h2] at h
          have e2 : Evo s1 s2 := by
            split at h2
            · exact stringify_evo codec hc env a ft c c2 s1 s2 h2
            · simp at h2; rw [← h2.2]; exact Evo.refl s1
          cases h3 : fieldsDecF codec strct list env a R rest s2 with
          | none => simp [h3] at h
          | some r3 =>
            obtain ⟨rr, s3⟩ := r3
            simp [h3] at h
            rw [← h.2]
            exact ((hc _ _ _ _ _ h1).trans e2).trans (fields_evo codec strct list hc hs hl env a R rest s2 rr s3 h3)

theorem kind_evo (env : Env) (f : Nat) (hc : EvoC (codecDecF f env)) (hs : EvoS (structDecF f env)) (t u : TD) (a : Bool)
    (s s' : DSeen) (c : DChoice) (h : kindDecF (codecDecF f env) (structDecF f env) env t u a s = some (c, s')) : Evo s s' := by
  unfold kindDecF at h
  split at h
  · simp at h; rw [← h.2]; exact Evo.refl s
  · simp at h; rw [← h.2]; exact Evo.refl s
  · simp at h; rw [← h.2]; exact Evo.refl s
  · simp at h; rw [← h.2]; exact Evo.refl s
  · simp at h; rw [← h.2]; exact Evo.refl s
  · rename_i n e
    cases h1 : codecDecF f env e a s with
    | none => simp [h1] at h
    | some r => obtain ⟨c1, s1⟩ := r; simp [h1] at h; rw [← h.2]; exact hc _ _ _ _ _ h1
  · rename_i e
    split at h
    · simp at h; rw [← h.2]; exact Evo.refl s
    · cases h1 : codecDecF f env e true s with
      | none => simp [h1] at h
      | some r => obtain ⟨c1, s1⟩ := r; simp [h1] at h; rw [← h.2]; exact hc _ _ _ _ _ h1
  · rename_i k v
    split at h
    · simp at h; rw [← h.2]; exact Evo.refl s
    · cases h1 : codecDecF f env v false s with
      | none => simp [h1] at h
      | some r =>
        obtain ⟨vc, s1⟩ := r
        simp only [h1] at h
        cases h2 : mapKeyDec env k with
        | none => simp [h2] at h; rw [← h.2]; exact hc _ _ _ _ _ h1
        | some kc => simp [h2] at h; rw [← h.2]; exact hc _ _ _ _ _ h1
  · cases h1 : structDecF f env t a none s with
    | none => simp [h1] at h
    | some r => obtain ⟨e, s1⟩ := r; simp [h1] at h; rw [← h.2]; exact (hs _ _ _ _ _ _ h1).1
  · rename_i e
    cases h1 : codecDecF f env e true s with
    | none => simp [h1] at h
    | some r => obtain ⟨c1, s1⟩ := r; simp [h1] at h; rw [← h.2]; exact hc _ _ _ _ _ h1
  · simp at h; rw [← h.2]; exact Evo.refl s

theorem main (env : Env) : ∀ f, EvoC (codecDecF f env) ∧ EvoS (structDecF f env) ∧ EvoL (listDecF f env)
  | 0 => ⟨fun t a s c s' h => by simp [codecDecF] at h, fun t a root s e s' h => by simp [structDecF] at h,
      fun t a R s fs s' h => by simp [listDecF] at h⟩
  | f + 1 => by
    obtain ⟨ihc, ihs, ihl⟩ := main env f
    refine ⟨?_, ?_, ?_⟩
    · intro t a s c s' h
      rw [codecDecF] at h
      cases hfs : firstSwitchD t with
      | some c0 => simp [hfs] at h; rw [← h.2]; exact Evo.refl s
      | none =>
        simp only [hfs] at h
        by_cases hn : (isRef t && isComposite (under env t)) = true
        · simp only [hn, Bool.true_and, if_true] at h
          cases hf : s.find (t, false) with
          | some e0 => simp [hf] at h; rw [← h.2]; exact Evo.refl s
          | none =>
            simp only [hf, Option.isSome_none, Bool.false_eq_true, if_false] at h
            cases hk : kindDecF (codecDecF f env) (structDecF f env) env t (under env t) a
                (s.set (t, false) (.building (t, false))) with
            | none => simp [hk] at h
            | some r =>
              obtain ⟨c1, s1⟩ := r
              simp [hk] at h
              rw [← h.2]
              exact evo_named s s1 (t, false) (t, false) hf (kind_evo env f ihc ihs t _ a _ s1 c1 hk)
        · have hn' : (isRef t && isComposite (under env t)) = false := by simpa using hn
          simp only [hn', Bool.false_and, Bool.false_eq_true, if_false] at h
          cases hk : kindDecF (codecDecF f env) (structDecF f env) env t (under env t) a s with
          | none => simp [hk] at h
          | some r =>
            obtain ⟨c1, s1⟩ := r
            simp [hk] at h
            rw [← h.2]
            exact kind_evo env f ihc ihs t _ a _ s1 c1 hk
    · intro t a root s e s' h
      rw [structDecF] at h
      cases hf : s.find (t, a) with
      | some e0 =>
        simp [hf] at h
        obtain ⟨rfl, rfl⟩ := h
        exact ⟨Evo.refl s, fun r he => ⟨rfl, by rw [he]⟩⟩
      | none =>
        simp only [hf] at h
        cases hfl : fieldsDecF (codecDecF f env) (structDecF f env) (listDecF f env) env a (root.getD (t, a)) (fieldsOf env t)
            (s.set (t, a) (.building (root.getD (t, a)))) with
        | none => simp [hfl] at h
        | some r =>
          obtain ⟨fs, s2⟩ := r
          simp [hfl] at h
          rw [← h.2, ← h.1]
          exact ⟨evo_struct s s2 (t, a) _ fs hf (fields_evo _ _ _ ihc ihs ihl env a _ _ _ fs s2 hfl), fun r he => by cases he⟩
    · intro t a R s fs s' h
      rw [listDecF] at h
      exact fields_evo _ _ _ ihc ihs ihl env a R _ s fs s' h

theorem codec_evo (env : Env) (f : Nat) (t : TD) (a : Bool) (s s' : DSeen) (c : DChoice)
    (h : codecDecF f env t a s = some (c, s')) : Evo s s' := (main env f).1 t a s c s' h

theorem struct_evo (env : Env) (f : Nat) (t : TD) (a : Bool) (root : Option Key) (s s' : DSeen) (e : DEntry)
    (h : structDecF f env t a root s = some (e, s')) : Evo s s' := ((main env f).2.1 t a root s e s' h).1

theorem struct_building (env : Env) (f : Nat) (t : TD) (a : Bool) (root : Option Key) (s s' : DSeen) (r : Key)
    (h : structDecF f env t a root s = some (.building r, s')) : s' = s ∧ s.find (t, a) = some (.building r) :=
  ((main env f).2.1 t a root s _ s' h).2 r rfl

end Enc.Lemmas.JsonCodecChoiceDecEvo
