import Enc.Lemmas.ProtoTemplateNestedDefs
import Enc.Lemmas.ProtoTemplateFlat
import Enc.Lemmas.ProtoTemplateRepA
import Enc.Lemmas.ProtoTemplateRepB
import Enc.Lemmas.ProtoTemplateMapN
import Enc.Lemmas.ProtoTemplateRepPtr
/-!
# `template_rewrite_value` for NESTED messages (induction on the nesting depth)
-/
namespace Enc.Lemmas.ProtoTemplate
open Enc Enc.Spec.Protobuf Enc.Lemmas.ProtoRewriteSpec Enc.Lemmas.ProtoSpecFuel
open Enc.Model.Proto (PKind RwT Rw TFields TType parseLeaf parseTemplate parseStruct parseMembers
  lookupFieldByName rewriteT rewrite multiOfT gvString gvObj gvList insertEnt tableLen PF getRwT fieldVarlen encodeVarint)
open Enc.Model.Json (GV GMs)

/-! ### the canonical choice of `A` (what entry `n` returns) and `E` (the value it writes) -/

def outOf (G0 : Nat) (ents : List (Nat × RwT)) (b : Bytes) (n : Nat) : Bytes :=
  match getRwT ents n with
  | some r => (match rewriteT G0 r (payloadOf b.length r n b) with | .ok x => x | _ => [])
  | none => []

def effG (fs : Fields) (A : Nat → Bytes) (n : Nat) : Option Val :=
  match findField fs n, parse ((A n).length + 1) (A n) with
  | some (i, _, _), some (r :: rs) => (foldG fieldD fs (r :: rs) (zeroFields fs)).map fun vs => valsGet vs i
  | _, _ => none

theorem effG_of_sem (fs : Fields) (A : Nat → Bytes) (n i : Nat) (o : FieldOpt) (t : Ty) (a : List (Nat × WireVal))
    (eff : Option Val) (hfind : findField fs n = some (i, o, t)) (hv : Valid (A n) a)
    (hsem : ∀ vs, vs.length = fs.length → valsGet vs i = valsGet (zeroFields fs) i →
      foldG fieldD fs a vs = some (match eff with | some x => valsSet vs i x | none => vs))
    (h1 : a = [] → eff = none) (h2 : a ≠ [] → eff.isSome = true) : effG fs A n = eff := by
  obtain ⟨hi, _, _⟩ := findField_spec fs n i o t hfind
  unfold effG
  rw [hfind]
  have hv' : parse ((A n).length + 1) (A n) = some a := hv
  rw [hv']
  cases a with
  | nil => simp [h1 rfl]
  | cons r rs =>
    have := h2 (by simp)
    cases eff with
    | none => simp at this
    | some x =>
      simp only [hsem (zeroFields fs) (zeroFields_length fs) rfl, Option.map_some]
      rw [valsGet_set_eq _ _ _ (by rw [zeroFields_length]; exact hi)]

theorem sumLen_le (A : Nat → Bytes) (M : Nat) : ∀ (ents : List (Nat × RwT)), (∀ n r, (n, r) ∈ ents → (A n).length ≤ M) →
    sumLen A ents ≤ ents.length * M
  | [], _ => by simp [sumLen]
  | (n, r) :: rest, h => by
    have h1 := h n r (by simp)
    have h2 := sumLen_le A M rest (fun n' r' hm => h n' r' (by simp [hm]))
    simp only [sumLen, List.length_cons, Nat.add_mul, Nat.one_mul]
    omega

theorem laterPieces_length_le (n : Nat) : ∀ recs : List (Nat × WireVal), (laterPieces n recs).length ≤ recsWeight recs
  | [] => by simp [laterPieces, recsWeight]
  | (m, w) :: rest => by
    have ih := laterPieces_length_le n rest
    cases w with
    | len v =>
      simp only [laterPieces, recsWeight, wvLen]
      split
      · simp only [List.length_append]; omega
      · omega
    | varint v => simp only [laterPieces, recsWeight, wvLen]; omega
    | i64 v => simp only [laterPieces, recsWeight, wvLen]; omega
    | i32 v => simp only [laterPieces, recsWeight, wvLen]; omega

theorem decode_nil (gs : Fields) : decode (.struct gs) [] = some (.struct (zeroFields gs)) := by
  rw [decode_struct_eq]; simp [parse, foldD]

theorem valid_of_decode (fs : Fields) (b : Bytes) (res : Vals) (h : decode (.struct fs) b = some (.struct res)) :
    ∃ recs0, Valid b recs0 ∧ foldG fieldD fs recs0 (zeroFields fs) = some res := by
  rw [hD_fieldD] at h
  cases hp : parse (b.length + 1) b with
  | none => simp [hp] at h
  | some recs =>
    simp only [hp, Option.bind_some, Option.map_eq_some_iff, Val.struct.injEq] at h
    obtain ⟨r0, h1, rfl⟩ := h
    exact ⟨recs, hp, h1⟩

/-! ### one entry: a scalar leaf -/

theorem ent_leaf (pf : PF) (hpf : PFok pf) (fs : Fields) (n : Nat) (r : RwT) (kind : PKind) (jv : GV) (i : Nat) (o : FieldOpt)
    (t : Ty) (hrel : LeafRel pf kind n jv r) (hfind : findField fs n = some (i, o, t)) (hkind : kindOf t o = some kind)
    (h0 : 0 < n) (h1 : n < 2 ^ 61) (hstr : ∀ s, gvString jv = some s → s.length < 2 ^ 64) :
    ∃ (An : Bytes) (a : List (Nat × WireVal)) (eff : Option Val) (x : Val),
      (∀ G p, 2 ≤ G → rewriteT G r p = .ok An) ∧ Valid An a ∧ (a = [] → eff = none) ∧ (a ≠ [] → eff.isSome = true) ∧
      (∀ vs, foldG fieldD fs a vs = some (match eff with | some x => valsSet vs i x | none => vs)) ∧
      An.length ≤ 30 + strLen jv ∧ leafVal pf kind jv = some x ∧ eff.getD (valsGet (zeroFields fs) i) = x := by
  have hleaf := leaf_sem pf hpf t o kind hkind n h0 h1 jv hstr
  obtain ⟨_, _, tg, hat, _⟩ := findField_spec fs n i o t hfind
  have hz : valsGet (zeroFields fs) i = zeroOf t := valsGet_zeroFields fs i tg t hat
  cases hv : leafVal pf kind jv with
  | none =>
    rw [hv] at hleaf
    rcases hrel with ⟨hp, _⟩ | ⟨rb, hp, _⟩ <;> simp [hp] at hleaf
  | some x =>
    rw [hv] at hleaf
    simp only at hleaf
    rcases hrel with ⟨hp, rfl⟩ | ⟨rb, hp, rfl⟩
    · have hx : x = zeroOf t := by
        rcases hleaf with ⟨_, hz'⟩ | ⟨b, w, hp', _⟩
        · exact hz'
        · rw [hp] at hp'; simp at hp'
      refine ⟨[], [], none, x, ?_, valid_nil, fun _ => rfl, fun h => absurd rfl h, fun vs => by simp [foldG], by simp, rfl, ?_⟩
      · intro G p hG
        obtain ⟨g, rfl⟩ : ∃ g, G = g + 2 := ⟨G - 2, by omega⟩
        simp [rewriteT, Enc.Model.Proto.rewriteMultiT]
      · simp [hz, hx]
    · rcases hleaf with ⟨hp', _⟩ | ⟨b, w, hp', hlen, hvalid, hs⟩
      · rw [hp] at hp'; simp at hp'
      · rw [hp] at hp'
        simp only [Res.ok.injEq, Option.some.injEq, RwT.raw.injEq] at hp'
        subst hp'
        refine ⟨rb, [(n, w)], some x, x, ?_, hvalid, fun h => by simp at h, fun _ => rfl, fun vs => ?_, hlen, rfl, rfl⟩
        · intro G p hG
          obtain ⟨g, rfl⟩ : ∃ g, G = g + 1 := ⟨G - 1, by omega⟩
          simp [rewriteT]
        · exact foldG_leaf fs n i o t w x hfind (kindOf_scalar t o kind hkind) hs vs

/-! ### the induction -/

/-- the statement proved by induction on the depth `d` -/
def NestedStmt (pf : PF) (d : Nat) : Prop :=
  ∀ (fs : Fields) (tfs : TFields), PresN d fs tfs →
  ∀ (ms : GMs), KeysNodup ms → KeysNodupMs ms → ∀ (f : Nat) (ents : List (Nat × RwT)), parseMembers pf f tfs ms [] = .ok ents →
  ∀ (b : Bytes) (res : Vals) (L : Nat), b.length + 1 ≤ L → gmsSz L ms < 2 ^ 64 →
    decode (.struct fs) b = some (.struct res) →
    ∃ out res', (∀ F, b.length + gmsFuel L ms ≤ F → rewriteT F (.message (tableLen ents) ents) b = .ok out) ∧
      decode (.struct fs) out = some (.struct res') ∧ TRes pf d fs tfs ms res res' ∧ out.length ≤ gmsSz L ms

/-- one entry: a singular sub-message, given the statement one level down -/
theorem ent_msg (pf : PF) (d : Nat) (ih : NestedStmt pf d) (fs gs : Fields) (tgs : TFields) (hpres : PresN d gs tgs)
    (n i : Nat) (o : FieldOpt) (t : Ty) (hfind : findField fs n = some (i, o, t)) (hd : deref t = .struct gs)
    (hrp : isRepeated t = none) (hmp : ∀ k v, unname t ≠ .map k v) (h0 : 0 < n) (h1 : n < 2 ^ 61)
    (jv : GV) (ms' : GMs) (_hobj : gvObj jv = some ms') (hnd : KeysNodup ms') (hndd : KeysNodupMs ms')
    (f' : Nat) (es : List (Nat × RwT)) (hparse : parseMembers pf f' tgs ms' [] = .ok es)
    (b : Bytes) (recs0 : List (Nat × WireVal)) (hv : Valid b recs0) (res : Vals)
    (hfold : foldG fieldD fs recs0 (zeroFields fs) = some res) (L : Nat) (hL : b.length + 1 ≤ L)
    (hsz : gmsSz L ms' < 2 ^ 64) :
    ∃ (An : Bytes) (a : List (Nat × WireVal)) (eff : Option Val) (sub sub' : Vals),
      (∀ G, L + gmsFuel L ms' + 1 ≤ G →
        rewriteT G (.embeddedMerge n (tableLen es) es) (payloadOf b.length (.embeddedMerge n (tableLen es) es) n b) = .ok An) ∧
      Valid An a ∧ (a = [] → eff = none) ∧ (a ≠ [] → eff.isSome = true) ∧
      (∀ vs, vs.length = fs.length → valsGet vs i = valsGet (zeroFields fs) i →
        foldG fieldD fs a vs = some (match eff with | some x => valsSet vs i x | none => vs)) ∧
      An.length ≤ 20 + gmsSz L ms' ∧ unwrapPtr t (valsGet res i) = .struct sub ∧
      unwrapPtr t (eff.getD (valsGet (zeroFields fs) i)) = .struct sub' ∧ TRes pf d gs tgs ms' sub sub' := by
  obtain ⟨hall, sub, hsub, hdecp⟩ := pieces_value_ptr fs gs n i o t hfind hd hrp hmp recs0 res hfold
  have hpay := payloadOf_merge n n (tableLen es) es b recs0 hv hall
  have hplen : (laterPieces n recs0).length ≤ b.length :=
    Nat.le_trans (laterPieces_length_le n recs0) (parse_weight _ b recs0 hv)
  obtain ⟨body, sub', hrun, hdecb, htres, hblen⟩ := ih gs tgs hpres ms' hnd hndd f' es hparse (laterPieces n recs0) sub L
    (by omega) hsz hdecp
  have hz : valsGet (zeroFields fs) i = zeroOf t := zero_at fs n i o t hfind
  by_cases hbe : body = []
  · subst hbe
    have hsub' : sub' = zeroFields gs := by
      rw [decode_nil] at hdecb
      simp only [Option.some.injEq, Val.struct.injEq] at hdecb
      exact hdecb.symm
    refine ⟨[], [], none, sub, sub', ?_, valid_nil, fun _ => rfl, fun h => absurd rfl h, fun vs _ _ => by simp [foldG], by simp,
      hsub, by simp [hz, hsub', unwrapPtr_zeroOf t gs hd], htres⟩
    intro G hG
    obtain ⟨g, rfl⟩ : ∃ g, G = g + 1 := ⟨G - 1, by omega⟩
    rw [hpay]
    simp only [rewriteT, hrun g (by omega), Res.bind, List.isEmpty_nil, if_true]
  · have hne : body.isEmpty = false := by cases body <;> simp_all
    refine ⟨fieldVarlen n body, [(n, .len body)], some (wrapPtr t (.struct sub')), sub, sub', ?_,
      valid_fieldVarlen n body h0 h1 (by omega), fun h => by simp at h, fun _ => rfl, fun vs hl hinit => ?_, ?_, hsub,
      unwrapPtr_wrapPtr_struct t gs hd sub', htres⟩
    · intro G hG
      obtain ⟨g, rfl⟩ : ∃ g, G = g + 1 := ⟨G - 1, by omega⟩
      rw [hpay]
      simp only [rewriteT, hrun g (by omega), Res.bind, hne, Bool.false_eq_true, if_false, fieldVarlen,
        Enc.Model.Proto.appendField, beq_self_eq_true, if_true]
    · exact foldG_struct_entry_ptr fs gs n i o t body sub' hfind hd hrp hmp hdecb vs hinit
    · have := appendField_length_le n 2 body
      simp only [fieldVarlen]; omega

/-! ### bookkeeping of sizes and fuel -/

theorem gmLen_pos : ∀ (ms : GMs) (k : Bytes) (jv : GV), GMem k jv ms → 1 ≤ gmLen ms
  | .nil, _, _, h => absurd h (by simp [GMem])
  | .cons _ _ rest, _, _, _ => by simp [gmLen]

theorem gvObj_sz (L : Nat) (jv : GV) (ms' : GMs) (h : gvObj jv = some ms') :
    20 + gmsSz L ms' ≤ gvSz L jv ∧ L + gmsFuel L ms' + 1 ≤ gvFuel L jv := by
  cases jv with
  | null =>
    simp only [gvObj, Option.some.injEq] at h; subst h
    simp [gmsSz, gvSz, gmLen, gmsMax, gmsFuel, gvFuel, gmsFuelMax]
  | obj ms =>
    simp only [gvObj, Option.some.injEq] at h; subst h
    simp only [gmsSz, gvSz, gmsFuel, gvFuel]
    have h1 : gmLen ms * gmsMax L ms ≤ gmLen ms * (30 + 2 * gmsMax L ms) := Nat.mul_le_mul_left _ (by omega)
    have h2 : (20 + gmLen ms * gmsMax L ms) * L ≤ (20 + gmLen ms * (30 + 2 * gmsMax L ms)) * L :=
      Nat.mul_le_mul_right _ (by omega)
    omega
  | bool | num | str | arr => simp [gvObj] at h

/-- sizes and fuel of a member read as a MAP template -/
theorem gvObj_map_sz (L : Nat) (jv : GV) (ms' : GMs) (h : gvObj jv = some ms') :
    ∃ B, (ms' ≠ .nil → L + gmsFuelMax L ms' + 68 ≤ B) ∧ gmLen ms' + B + 3 ≤ gvFuel L jv ∧
      gmLen ms' * (20 + (30 + 2 * gmsMax L ms') * L) ≤ gvSz L jv := by
  cases jv with
  | null =>
    simp only [gvObj, Option.some.injEq] at h; subst h
    exact ⟨0, fun h => absurd rfl h, by simp only [gmLen, gvFuel]; omega, by simp [gmLen]⟩
  | obj ms =>
    simp only [gvObj, Option.some.injEq] at h; subst h
    refine ⟨L + gmsFuelMax L ms + 68, fun _ => Nat.le_refl _, by simp only [gvFuel]; omega, ?_⟩
    simp only [gvSz]
    rw [Nat.mul_add, ← Nat.mul_assoc, Nat.add_mul 20]
    omega
  | bool | num | str | arr => simp [gvObj] at h

theorem nodup_of_gvObj (jv : GV) (ms' : GMs) (hk : KeysNodupV jv) (h : gvObj jv = some ms') :
    KeysNodup ms' ∧ KeysNodupMs ms' := by
  cases jv with
  | null => simp only [gvObj, Option.some.injEq] at h; subst h; simp [KeysNodup, KeysNodupMs]
  | obj ms => simp only [gvObj, Option.some.injEq] at h; subst h; simpa [KeysNodupV] using hk
  | bool | num | str | arr => simp [gvObj] at h

theorem member_le_total (L : Nat) (hL : 1 ≤ L) (ms : GMs) (k : Bytes) (jv : GV) (hm : GMem k jv ms) :
    gvSz L jv ≤ gmsSz L ms := by
  have h1 := gmsMax_ge L ms k jv hm
  have h2 := gmLen_pos ms k jv hm
  have h3 : 1 * gmsMax L ms ≤ gmLen ms * gmsMax L ms := Nat.mul_le_mul_right _ h2
  have h4 : (20 + gmLen ms * gmsMax L ms) * 1 ≤ (20 + gmLen ms * gmsMax L ms) * L := Nat.mul_le_mul_left _ hL
  simp only [gmsSz]; omega

/-! ### one entry: a repeated message field, given the statement one level down -/

theorem msgList_sem (pf : PF) (d : Nat) (ih : NestedStmt pf d) (gs : Fields) (tgs : TFields) (hpres : PresN d gs tgs)
    (t et : Ty) (o : FieldOpt) (hrep : isRepeated t = some et) (hd : deref et = .struct gs) (n : Nat) (h0 : 0 < n)
    (h1 : n < 2 ^ 61)
    (L : Nat) (hL : 1 ≤ L) (js : List GV) (rws : List RwT) (hl : MsgList pf tgs n js rws)
    (hk : ∀ j, j ∈ js → KeysNodupV j) (hsz : gvlSum L js < 2 ^ 64) :
    ∃ (An : Bytes) (ws : List WireVal) (subs : List Vals), RunAll [] (gvlFuelMax L js) rws An ∧ rws.length ≤ js.length ∧
      Valid An (ws.map fun w => (n, w)) ∧
      Forall₂ (fun w x => ∀ cur, fieldD t o w cur = some (.list (Vals.ofList (listOf cur ++ [x])))) ws
        (subs.map fun s => wrapPtr et (.struct s)) ∧
      ElemMsgs (fun ms' sub' => TRes pf d gs tgs ms' (zeroFields gs) sub') (zeroFields gs) js subs ∧
      An.length ≤ gvlSum L js := by
  induction hl with
  | nil => exact ⟨[], [], [], .nil, by simp, valid_nil, .nil, .nil, by simp⟩
  | cons j js rws ms es f hobj hparse _ ih' =>
    simp only [gvlSum] at hsz
    obtain ⟨An, ws, subs, hrun, hlen, hva, hfa, hem, hb⟩ := ih' (fun j' hj' => hk j' (by simp [hj'])) (by omega)
    obtain ⟨hnd, hndd⟩ := nodup_of_gvObj j ms (hk j (by simp)) hobj
    obtain ⟨hs1, hs2⟩ := gvObj_sz L j ms hobj
    obtain ⟨body, sub', hrb, hdecb, htres, hblen⟩ := ih gs tgs hpres ms hnd hndd f es hparse [] (zeroFields gs) L
      (by simpa using hL) (by omega) (decode_nil gs)
    have hrun' := runAll_mono [] _ (gvlFuelMax L (j :: js)) (by simp only [gvlFuelMax]; omega) rws An hrun
    by_cases hbe : body = []
    · subst hbe
      have hsub' : sub' = zeroFields gs := by
        rw [decode_nil] at hdecb
        simp only [Option.some.injEq, Val.struct.injEq] at hdecb
        exact hdecb.symm
      subst hsub'
      refine ⟨[] ++ An, ws, subs, .cons _ _ [] An (fun F hF => ?_) hrun', by simp only [List.length_cons]; omega,
        by simpa using hva, hfa, .skip j js subs ms hobj htres hem, by simp only [gvlSum, List.nil_append]; omega⟩
      simp only [gvlFuelMax] at hF
      obtain ⟨g, rfl⟩ : ∃ g, F = g + 1 := ⟨F - 1, by omega⟩
      simp only [rewriteT, hrb g (by simp only [List.length_nil]; omega), Res.bind, List.isEmpty_nil, if_true]
    · have hne : body.isEmpty = false := by cases body <;> simp_all
      refine ⟨fieldVarlen n body ++ An, .len body :: ws, sub' :: subs, .cons _ _ _ An (fun F hF => ?_) hrun',
        by simp only [List.length_cons]; omega, ?_, .cons (fun cur => ?_) hfa, .keep j js subs ms sub' hobj htres hem, ?_⟩
      · simp only [gvlFuelMax] at hF
        obtain ⟨g, rfl⟩ : ∃ g, F = g + 1 := ⟨F - 1, by omega⟩
        simp only [rewriteT, hrb g (by simp only [List.length_nil]; omega), Res.bind, hne, Bool.false_eq_true, if_false,
          fieldVarlen, Enc.Model.Proto.appendField, beq_self_eq_true, if_true]
      · exact valid_append (a := fieldVarlen n body) (b := An) (valid_fieldVarlen n body h0 h1 (by omega)) hva
      · rw [fieldD_repeated_msg t et gs o body cur hrep hd, hdecb]; rfl
      · have := appendField_length_le n 2 body
        simp only [gvlSum, List.length_append, fieldVarlen]; omega

theorem ent_rep_msg (pf : PF) (d : Nat) (ih : NestedStmt pf d) (fs gs : Fields) (tgs : TFields) (hpres : PresN d gs tgs)
    (n i : Nat) (o : FieldOpt) (t et : Ty) (hfind : findField fs n = some (i, o, t)) (hrep : isRepeated t = some et)
    (hd : deref et = .struct gs)
    (h0 : 0 < n) (h1 : n < 2 ^ 61) (L : Nat) (hL : 1 ≤ L) (js : List GV) (rws : List RwT) (hl : MsgList pf tgs n js rws)
    (hk : ∀ j, j ∈ js → KeysNodupV j) (hsz : gvlSum L js < 2 ^ 64) :
    ∃ (An : Bytes) (a : List (Nat × WireVal)) (eff : Option Val) (subs : List Vals),
      (∀ G p, js.length + 4 + gvlFuelMax L js ≤ G → rewriteT G (.replacement (multiOfT rws)) p = .ok An) ∧ Valid An a ∧
      (a = [] → eff = none) ∧ (a ≠ [] → eff.isSome = true) ∧
      (∀ vs, vs.length = fs.length → valsGet vs i = valsGet (zeroFields fs) i →
        foldG fieldD fs a vs = some (match eff with | some x => valsSet vs i x | none => vs)) ∧
      An.length ≤ gvlSum L js ∧
      ElemMsgs (fun ms' sub' => TRes pf d gs tgs ms' (zeroFields gs) sub') (zeroFields gs) js subs ∧
      eff.getD (valsGet (zeroFields fs) i) = listVal (subs.map fun s => wrapPtr et (.struct s)) := by
  obtain ⟨An, ws, subs, hrun, hlen, hva, hfa, hem, hb⟩ := msgList_sem pf d ih gs tgs hpres t et o hrep hd n h0 h1 L hL js rws hl
    hk hsz
  obtain ⟨eff, e1, e2, hsem, hx⟩ := ent_list_core fs n i o t _ hfind hrep ws _ hfa
  exact ⟨An, _, eff, subs, fun G p hG => rewriteT_replacement _ rws An hrun G p (by omega), hva, e1, e2, hsem, hb, hem, hx⟩

/-! ### one entry: a map field, given the statement one level down (every entry is the entry template applied to the zero
entry message) -/

theorem mapList_sem (pf : PF) (d : Nat) (ih : NestedStmt pf d) (kt vt : Ty) (kk : PKind) (hnb : kk ≠ .bytes) (vtt : TType)
    (hpres : PresN d (entryFs kt vt) (entryT (.prim kk) vtt)) (n : Nat) (h0 : 0 < n) (h1 : n < 2 ^ 61)
    (L : Nat) (hL : 1 ≤ L) (M FM B : Nat) (ms' : GMs) (rws : List RwT) (hl : MapList pf (.prim kk) vtt n ms' rws)
    (hk : KeysNodupMs ms') (hM : gmsMax L ms' ≤ M) (hFM : gmsFuelMax L ms' ≤ FM) (hB : ms' ≠ .nil → L + FM + 68 ≤ B)
    (hsz : gmLen ms' * (20 + (30 + 2 * M) * L) < 2 ^ 64) :
    ∃ (An : Bytes) (bodies : List Bytes) (evss : List Vals), RunAll [] B rws An ∧
      Valid An (bodies.map fun eb => (n, WireVal.len eb)) ∧
      Forall₂ (fun eb evs => decode (.struct (entryFs kt vt)) eb = some (.struct evs)) bodies evss ∧
      MapVals (keyGV (.prim kk)) (fun kgv value evs => TRes pf d (entryFs kt vt) (entryT (.prim kk) vtt) (entryObj kgv value)
        (zeroFields (entryFs kt vt)) evs) (zeroFields (entryFs kt vt)) ms' evss ∧
      An.length ≤ gmLen ms' * (20 + (30 + 2 * M) * L) := by
  induction hl with
  | nil => exact ⟨[], [], [], .nil, valid_nil, .nil, .nil, by simp⟩
  | cons key value rest rws kgv es f' hkg hparse _ ih' =>
    simp only [KeysNodupMs] at hk
    simp only [gmsMax] at hM
    simp only [gmsFuelMax] at hFM
    simp only [gmLen] at hsz ⊢
    have hY : (gmLen rest + 1) * (20 + (30 + 2 * M) * L) = gmLen rest * (20 + (30 + 2 * M) * L) + (20 + (30 + 2 * M) * L) := by
      rw [Nat.add_mul, Nat.one_mul]
    rw [hY] at hsz ⊢
    have hB' := hB (by simp)
    obtain ⟨An, bodies, evss, hrun, hva, hfa, hmv, hb⟩ := ih' hk.2 (by omega) (by omega) (fun _ => hB') (by omega)
    obtain ⟨hkv, hks, hkf⟩ := entry_key_facts pf kk hnb vtt key kgv value f' es hkg hparse L
    have hMe := gmsMax_entryObj_le L key kgv value hks
    have hFe := gmsFuelMax_entryObj_le L kgv value hkf
    have hsz_e : gmsSz L (entryObj kgv value) ≤ (30 + 2 * M) * L := by
      simp only [gmsSz, gmLen_entryObj]
      exact Nat.mul_le_mul_right L (by omega)
    have hndd : KeysNodupMs (entryObj kgv value) := by
      simp only [entryObj, KeysNodupMs]; exact ⟨hkv, hk.1, trivial⟩
    obtain ⟨body, evs, hrb, hdecb, htres, hblen⟩ := ih (entryFs kt vt) (entryT (.prim kk) vtt) hpres (entryObj kgv value)
      (keysNodup_entryObj kgv value) hndd f' es hparse [] (zeroFields (entryFs kt vt)) L (by simpa using hL) (by omega)
      (decode_nil _)
    have hfu : gmsFuel L (entryObj kgv value) + 1 ≤ B := by
      simp only [gmsFuel, gmLen_entryObj]; omega
    by_cases hbe : body = []
    · subst hbe
      have hevs : evs = zeroFields (entryFs kt vt) := by
        rw [decode_nil] at hdecb
        simp only [Option.some.injEq, Val.struct.injEq] at hdecb
        exact hdecb.symm
      subst hevs
      refine ⟨[] ++ An, bodies, evss, .cons _ _ [] An (fun F hF => ?_) hrun, by simpa using hva, hfa,
        .skip key value rest evss kgv hkg htres hmv, by simp only [List.nil_append]; omega⟩
      obtain ⟨g, rfl⟩ : ∃ g, F = g + 1 := ⟨F - 1, by omega⟩
      simp only [rewriteT, hrb g (by simp only [List.length_nil]; omega), Res.bind, List.isEmpty_nil, if_true]
    · have hne : body.isEmpty = false := by cases body <;> simp_all
      refine ⟨fieldVarlen n body ++ An, body :: bodies, evs :: evss, .cons _ _ _ An (fun F hF => ?_) hrun, ?_,
        .cons hdecb hfa, .keep key value rest evss kgv evs hkg htres hmv, ?_⟩
      · obtain ⟨g, rfl⟩ : ∃ g, F = g + 1 := ⟨F - 1, by omega⟩
        simp only [rewriteT, hrb g (by simp only [List.length_nil]; omega), Res.bind, hne, Bool.false_eq_true, if_false,
          fieldVarlen, Enc.Model.Proto.appendField, beq_self_eq_true, if_true]
      · exact valid_append (a := fieldVarlen n body) (b := An) (valid_fieldVarlen n body h0 h1 (by omega)) hva
      · have := appendField_length_le n 2 body
        simp only [List.length_append, fieldVarlen]; omega

theorem ent_map (pf : PF) (d : Nat) (ih : NestedStmt pf d) (fs : Fields) (kt vt : Ty) (kk : PKind) (hnb : kk ≠ .bytes)
    (vtt : TType) (hpres : PresN d (entryFs kt vt) (entryT (.prim kk) vtt)) (n i : Nat) (o : FieldOpt) (t : Ty)
    (hfind : findField fs n = some (i, o, t)) (hrep : isRepeated t = none) (hm : unname t = .map kt vt)
    (h0 : 0 < n) (h1 : n < 2 ^ 61) (L : Nat) (hL : 1 ≤ L) (B : Nat) (ms' : GMs) (rws : List RwT)
    (hl : MapList pf (.prim kk) vtt n ms' rws) (hk : KeysNodupMs ms') (hB : ms' ≠ .nil → L + gmsFuelMax L ms' + 68 ≤ B)
    (hsz : gmLen ms' * (20 + (30 + 2 * gmsMax L ms') * L) < 2 ^ 64) :
    ∃ (An : Bytes) (a : List (Nat × WireVal)) (eff : Option Val) (evss : List Vals),
      (∀ G p, gmLen ms' + B + 3 ≤ G → rewriteT G (.replacement (mergeOne (multiOfT rws))) p = .ok An) ∧ Valid An a ∧
      (a = [] → eff = none) ∧ (a ≠ [] → eff.isSome = true) ∧
      (∀ vs, vs.length = fs.length → valsGet vs i = valsGet (zeroFields fs) i →
        foldG fieldD fs a vs = some (match eff with | some x => valsSet vs i x | none => vs)) ∧
      An.length ≤ gmLen ms' * (20 + (30 + 2 * gmsMax L ms') * L) ∧
      MapVals (keyGV (.prim kk)) (fun kgv value evs => TRes pf d (entryFs kt vt) (entryT (.prim kk) vtt) (entryObj kgv value)
        (zeroFields (entryFs kt vt)) evs) (zeroFields (entryFs kt vt)) ms' evss ∧
      eff.getD (valsGet (zeroFields fs) i) = mapVal evss := by
  obtain ⟨An, bodies, evss, hrun, hva, hfa, hmv, hb⟩ := mapList_sem pf d ih kt vt kk hnb vtt hpres n h0 h1 L hL _ _ B ms' rws hl hk
    (Nat.le_refl _) (Nat.le_refl _) hB hsz
  obtain ⟨eff, e1, e2, hsem, hx⟩ := ent_map_core fs n i o t kt vt hfind hrep hm bodies evss hfa
  refine ⟨An, _, eff, evss, fun G p hG => ?_, hva, e1, e2, hsem, hb, hmv, hx⟩
  have hlen := hl.length_eq
  exact rewriteT_replacement_merge B rws (fun r hr => by
    obtain ⟨es, rfl⟩ := hl.all_embedded r hr
    exact ⟨_, _, _, rfl⟩) An hrun G p (by omega)

theorem outOf_eq (G0 : Nat) (ents : List (Nat × RwT)) (b : Bytes) (n : Nat) (r : RwT) (x : Bytes)
    (hget : getRwT ents n = some r) (hrun : rewriteT G0 r (payloadOf b.length r n b) = .ok x) : outOf G0 ents b n = x := by
  simp [outOf, hget, hrun]

/-- what the main induction knows about one table entry -/
structure EntFacts (pf : PF) (d : Nat) (fs : Fields) (tfs : TFields) (ms : GMs) (b : Bytes) (res : Vals) (G0 M : Nat)
    (A : Nat → Bytes) (n : Nat) (r : RwT) : Prop where
  ex : ∃ k jv rep tt i o t, GMem k jv ms ∧ lookupFieldByName tfs k = some (n, rep, tt) ∧ findField fs n = some (i, o, t) ∧
    (∀ G, G0 ≤ G → rewriteT G r (payloadOf b.length r n b) = .ok (A n)) ∧ (A n).length ≤ M ∧
    (∃ a, Valid (A n) a ∧ ∀ vs, vs.length = fs.length → valsGet vs i = valsGet (zeroFields fs) i →
      foldG fieldD fs a vs = some (match effG fs A n with | some x => valsSet vs i x | none => vs)) ∧
    (∀ kind, rep = false → tt = .prim kind →
      ∃ x, leafVal pf kind jv = some x ∧ (effG fs A n).getD (valsGet (zeroFields fs) i) = x) ∧
    (∀ tgs gs, rep = false → tt = .msg tgs → deref t = .struct gs → ∃ ms' sub sub', gvObj jv = some ms' ∧
      unwrapPtr t (valsGet res i) = .struct sub ∧
      unwrapPtr t ((effG fs A n).getD (valsGet (zeroFields fs) i)) = .struct sub' ∧ TRes pf d gs tgs ms' sub sub') ∧
    (∀ kind et, rep = true → tt = .prim kind → isRepeated t = some et → ∃ js xs, gvList jv = some js ∧
      ElemVals pf kind et js xs ∧ (effG fs A n).getD (valsGet (zeroFields fs) i) = listVal xs) ∧
    (∀ tgs gs, rep = true → tt = .msg tgs → isRepeated t = some (.struct gs) → ∃ js subs, gvList jv = some js ∧
      ElemMsgs (fun ms' sub' => TRes pf d gs tgs ms' (zeroFields gs) sub') (zeroFields gs) js subs ∧
      (effG fs A n).getD (valsGet (zeroFields fs) i) = listVal (subs.map Val.struct)) ∧
    (∀ ktt vtt kt vt, rep = false → tt = .map ktt vtt → unname t = .map kt vt → ∃ ms' evss, gvObj jv = some ms' ∧
      MapVals (keyGV ktt) (fun kgv value evs => TRes pf d (entryFs kt vt) (entryT ktt vtt) (entryObj kgv value)
        (zeroFields (entryFs kt vt)) evs) (zeroFields (entryFs kt vt)) ms' evss ∧
      (effG fs A n).getD (valsGet (zeroFields fs) i) = mapVal evss) ∧
    (∀ tgs gs et, rep = true → tt = .msg tgs → isRepeated t = some et → deref et = .struct gs → ∃ js subs,
      gvList jv = some js ∧
      ElemMsgs (fun ms' sub' => TRes pf d gs tgs ms' (zeroFields gs) sub') (zeroFields gs) js subs ∧
      (effG fs A n).getD (valsGet (zeroFields fs) i) = listVal (subs.map fun s => wrapPtr et (.struct s)))

/-- **nested templates, all depths** -/
theorem nested_all (pf : PF) (hpf : PFok pf) : ∀ d, NestedStmt pf d
  | 0 => fun fs tfs h => absurd h (by simp [PresN])
  | d + 1 => by
    intro fs tfs hpres ms hnd hndd f ents hparse b res L hL hsz hdec
    have ih := nested_all pf hpf d
    simp only [PresN] at hpres
    obtain ⟨hP, hinj⟩ := hpres
    have hinv := parseMembers_invG pf tfs hinj ms f ents hnd hparse
    obtain ⟨recs0, hv, hfold⟩ := valid_of_decode fs b res hdec
    have hL1 : 1 ≤ L := by omega
    -- the canonical choice of A, E, I
    have hent : ∀ n r, (n, r) ∈ ents →
        EntFacts pf d fs tfs ms b res (gmsFuelMax L ms + 1) (gmsMax L ms) (outOf (gmsFuelMax L ms + 1) ents b) n r := by
      intro n r hr
      have hget := getRwT_of_mem ents n r hinv.sorted hr
      obtain ⟨k, jv, rep, tt, fe, hmem, hl, hpe⟩ := hinv.sound n r hr
      obtain ⟨h0, h1, i, o, t, hfind, hcase⟩ := hP k n rep tt hl
      have hszm := gmsMax_ge L ms k jv hmem
      have hfum := gmsFuelMax_ge L ms k jv hmem
      have htot := member_le_total L hL1 ms k jv hmem
      -- repeated message field (elements `Sub`, `*Sub`, …)
      have key : ∀ tgs gs et, isRepeated t = some et → deref et = .struct gs → PresN d gs tgs →
          parseEntry pf fe (.msg tgs) n true jv = .ok r → lookupFieldByName tfs k = some (n, true, .msg tgs) →
          EntFacts pf d fs tfs ms b res (gmsFuelMax L ms + 1) (gmsMax L ms) (outOf (gmsFuelMax L ms + 1) ents b) n r := by
        intro tgs gs et hrep hd hpg hpe hl
        obtain ⟨js, rws, hjs, hll, rfl⟩ := parseEntry_rep_msg pf fe tgs n jv r (by omega) hpe
        obtain ⟨hs1, hs2⟩ := gvList_sz L jv js hjs
        have hkj := nodup_of_gvList jv js (keysNodupMs_mem ms k jv hndd hmem) hjs
        obtain ⟨An, a, eff, subs, hrun, hva, e1, e2, hsem, hlen, hem, hx⟩ := ent_rep_msg pf d ih fs gs tgs hpg n i o t et hfind
          hrep hd h0 h1 L hL1 js rws hll hkj (by omega)
        have hA : outOf (gmsFuelMax L ms + 1) ents b n = An := outOf_eq _ ents b n _ An hget (hrun _ _ (by omega))
        have heff : effG fs (outOf (gmsFuelMax L ms + 1) ents b) n = eff :=
          effG_of_sem fs _ n i o _ a eff hfind (by rw [hA]; exact hva) hsem e1 e2
        refine ⟨k, jv, _, _, i, o, _, hmem, hl, hfind, fun G hG => by rw [hA]; exact hrun G _ (by omega), by rw [hA]; omega,
          ⟨a, by rw [hA]; exact hva, fun vs h1 h2 => by rw [heff]; exact hsem vs h1 h2⟩, ?_, ?_, ?_, ?_, ?_, ?_⟩
        · intro kind' hr; cases hr
        · intro tgs' gs' hr; cases hr
        · intro kind' et' _ hk'; cases hk'
        · intro tgs' gs' _ hk1 hk2
          simp only [TType.msg.injEq] at hk1; subst hk1
          rw [hrep] at hk2
          simp only [Option.some.injEq] at hk2; subst hk2
          simp only [deref, Ty.struct.injEq] at hd; subst hd
          have hw : (fun s => wrapPtr (.struct gs') (.struct s)) = Val.struct := by funext s; simp [wrapPtr]
          rw [hw] at hx
          exact ⟨js, subs, hjs, hem, by rw [heff]; exact hx⟩
        · intro ktt vtt kt vt hr; cases hr
        · intro tgs' gs' et' _ hk1 hk2 hk3
          simp only [TType.msg.injEq] at hk1; subst hk1
          rw [hrep] at hk2
          simp only [Option.some.injEq] at hk2; subst hk2
          rw [hd] at hk3
          simp only [Ty.struct.injEq] at hk3; subst hk3
          exact ⟨js, subs, hjs, hem, by rw [heff]; exact hx⟩
      rcases hcase with ⟨rfl, kind, rfl, hkind⟩ | ⟨rfl, tgs, gs, rfl, hd, hrp, hmp, hpg⟩ | ⟨rfl, kind, et, rfl, hrep, hkind⟩ |
        ⟨rfl, tgs, gs, rfl, hrep, hpg⟩ | ⟨rfl, ktt, vtt, kt, vt, rfl, hrep, hmap, ⟨kk, rfl, hnb⟩, hpg⟩ |
        ⟨rfl, tgs, gs, et, rfl, hrep, hd, hpg⟩
      · -- scalar leaf
        have hrel := parseEntry_prim pf fe kind n jv r hpe
        have hs1 := strLen_le_gvSz L hL1 jv
        obtain ⟨An, a, eff, x, hrun, hva, e1, e2, hsem, hlen, hval, hx⟩ := ent_leaf pf hpf fs n r kind jv i o t hrel hfind hkind h0 h1
          (fun s hs => by have : strLen jv = s.length := by simp [strLen, hs]
                          omega)
        have hf2 := gvFuel_ge_two L hL1 jv
        have hA : outOf (gmsFuelMax L ms + 1) ents b n = An := outOf_eq _ ents b n r An hget (hrun _ _ (by omega))
        have heff : effG fs (outOf (gmsFuelMax L ms + 1) ents b) n = eff :=
          effG_of_sem fs _ n i o t a eff hfind (by rw [hA]; exact hva) (fun vs _ _ => hsem vs) e1 e2
        refine ⟨k, jv, _, _, i, o, t, hmem, hl, hfind, fun G hG => by rw [hA]; exact hrun G _ (by omega), by rw [hA]; omega,
          ⟨a, by rw [hA]; exact hva, fun vs _ _ => by rw [heff]; exact hsem vs⟩, ?_, ?_, ?_, ?_, ?_, ?_⟩
        · intro kind' _ hk'
          simp only [TType.prim.injEq] at hk'; subst hk'
          exact ⟨x, hval, by rw [heff]; exact hx⟩
        · intro tgs gs _ hk'; cases hk'
        · intro kind' et hr; cases hr
        · intro tgs gs hr; cases hr
        · intro ktt vtt kt vt _ hk'; cases hk'
        · intro tgs gs et hr; cases hr
      · -- sub-message
        obtain ⟨ms', es, f', hobj, hparse', rfl⟩ := parseEntry_msg pf fe tgs n jv r (by omega) hpe
        obtain ⟨hnd', hndd'⟩ := nodup_of_gvObj jv ms' (keysNodupMs_mem ms k jv hndd hmem) hobj
        obtain ⟨hs1, hs2⟩ := gvObj_sz L jv ms' hobj
        obtain ⟨An, a, eff, sub, sub', hrun, hva, e1, e2, hsem, hlen, hsub, hx, htres⟩ := ent_msg pf d ih fs gs tgs hpg n i o t
          hfind hd hrp hmp h0 h1 jv ms' hobj hnd' hndd' f' es hparse' b recs0 hv res hfold L hL (by omega)
        have hA : outOf (gmsFuelMax L ms + 1) ents b n = An := outOf_eq _ ents b n _ An hget (hrun _ (by omega))
        have heff : effG fs (outOf (gmsFuelMax L ms + 1) ents b) n = eff :=
          effG_of_sem fs _ n i o _ a eff hfind (by rw [hA]; exact hva) hsem e1 e2
        refine ⟨k, jv, _, _, i, o, _, hmem, hl, hfind, fun G hG => by rw [hA]; exact hrun G (by omega), by rw [hA]; omega,
          ⟨a, by rw [hA]; exact hva, fun vs h1 h2 => by rw [heff]; exact hsem vs h1 h2⟩, ?_, ?_, ?_, ?_, ?_, ?_⟩
        · intro kind _ hk'; cases hk'
        · intro tgs' gs' _ hk1 hk2
          simp only [TType.msg.injEq] at hk1; subst hk1
          rw [hd] at hk2
          simp only [Ty.struct.injEq] at hk2; subst hk2
          exact ⟨ms', sub, sub', hobj, hsub, by rw [heff]; exact hx, htres⟩
        · intro kind et hr; cases hr
        · intro tgs' gs' hr; cases hr
        · intro ktt vtt kt vt _ hk'; cases hk'
        · intro tgs' gs' et hr; cases hr
      · -- repeated scalar field
        obtain ⟨js, rws, hjs, hll, rfl⟩ := parseEntry_rep_prim pf fe kind n jv r hpe
        obtain ⟨hs1, hs2⟩ := gvList_sz L jv js hjs
        obtain ⟨An, a, eff, xs, hrun, hva, e1, e2, hsem, hlen, hev, hx⟩ := ent_rep pf hpf fs n kind i o t et hfind hrep hkind
          h0 h1 L hL1 js rws hll (by omega)
        have hA : outOf (gmsFuelMax L ms + 1) ents b n = An := outOf_eq _ ents b n _ An hget (hrun _ _ (by omega))
        have heff : effG fs (outOf (gmsFuelMax L ms + 1) ents b) n = eff :=
          effG_of_sem fs _ n i o _ a eff hfind (by rw [hA]; exact hva) hsem e1 e2
        refine ⟨k, jv, _, _, i, o, _, hmem, hl, hfind, fun G hG => by rw [hA]; exact hrun G _ (by omega), by rw [hA]; omega,
          ⟨a, by rw [hA]; exact hva, fun vs h1 h2 => by rw [heff]; exact hsem vs h1 h2⟩, ?_, ?_, ?_, ?_, ?_, ?_⟩
        · intro kind' hr; cases hr
        · intro tgs gs hr; cases hr
        · intro kind' et' _ hk1 hk2
          simp only [TType.prim.injEq] at hk1; subst hk1
          rw [hrep] at hk2
          simp only [Option.some.injEq] at hk2; subst hk2
          exact ⟨js, xs, hjs, hev, by rw [heff]; exact hx⟩
        · intro tgs gs _ hk'; cases hk'
        · intro ktt vtt kt vt hr; cases hr
        · intro tgs gs et' _ hk'; cases hk'
      · exact key tgs gs _ hrep (by simp [deref]) hpg hpe hl
      · -- map field
        obtain ⟨ms', rws, hobj, hll, rfl⟩ := parseEntry_map pf fe (.prim kk) vtt n jv r (by omega) hpe
        obtain ⟨_, hndd'⟩ := nodup_of_gvObj jv ms' (keysNodupMs_mem ms k jv hndd hmem) hobj
        obtain ⟨B, hB, hs2, hs1⟩ := gvObj_map_sz L jv ms' hobj
        obtain ⟨An, a, eff, evss, hrun, hva, e1, e2, hsem, hlen, hmv, hx⟩ := ent_map pf d ih fs kt vt kk hnb vtt hpg n i o t
          hfind hrep hmap h0 h1 L hL1 B ms' rws hll hndd' hB (by omega)
        have hA : outOf (gmsFuelMax L ms + 1) ents b n = An := outOf_eq _ ents b n _ An hget (hrun _ _ (by omega))
        have heff : effG fs (outOf (gmsFuelMax L ms + 1) ents b) n = eff :=
          effG_of_sem fs _ n i o _ a eff hfind (by rw [hA]; exact hva) hsem e1 e2
        refine ⟨k, jv, _, _, i, o, _, hmem, hl, hfind, fun G hG => by rw [hA]; exact hrun G _ (by omega), by rw [hA]; omega,
          ⟨a, by rw [hA]; exact hva, fun vs h1 h2 => by rw [heff]; exact hsem vs h1 h2⟩, ?_, ?_, ?_, ?_, ?_, ?_⟩
        · intro kind' _ hk'; cases hk'
        · intro tgs' gs' _ hk'; cases hk'
        · intro kind' et' hr; cases hr
        · intro tgs' gs' hr; cases hr
        · intro ktt' vtt' kt' vt' _ hk1 hk2
          simp only [TType.map.injEq] at hk1
          obtain ⟨rfl, rfl⟩ := hk1
          rw [hmap] at hk2
          simp only [Ty.map.injEq] at hk2
          obtain ⟨rfl, rfl⟩ := hk2
          exact ⟨ms', evss, hobj, hmv, by rw [heff]; exact hx⟩
        · intro tgs' gs' et' hr; cases hr
      · exact key tgs gs et hrep hd hpg hpe hl
    -- the general table theorem
    have hpos : ∀ n i o t, findField fs n = some (i, o, t) → posOf fs n = i := by
      intro n i o t h; simp [posOf, h]
    have hsum : sumLen (outOf (gmsFuelMax L ms + 1) ents b) ents ≤ gmLen ms * gmsMax L ms := by
      have h1 := sumLen_le (outOf (gmsFuelMax L ms + 1) ents b) (gmsMax L ms) ents (fun n r hr => by
        obtain ⟨_, _, _, _, _, _, _, _, _, _, _, hlen, _⟩ := (hent n r hr).ex; exact hlen)
      have h2 : ents.length * gmsMax L ms ≤ gmLen ms * gmsMax L ms := Nat.mul_le_mul_right _ hinv.len
      omega
    have hbound : (20 + sumLen (outOf (gmsFuelMax L ms + 1) ents b) ents) * (b.length + 1) ≤ gmsSz L ms := by
      simp only [gmsSz]
      exact Nat.mul_le_mul (by omega) hL
    obtain ⟨out, res', hrw, hd, hl', hsame, htempl, hlen⟩ := tableT_rewrite_value fieldD fs (hD_fieldD fs) (tableLen ents) ents b res
      hdec (outOf (gmsFuelMax L ms + 1) ents b) (gmsFuelMax L ms + 1) (fun p hp => lt_tableLen ents p hp)
      (sorted_nodup ents hinv.sorted)
      (fun n r hr => by obtain ⟨_, _, _, _, _, _, _, _, _, _, hrun, _⟩ := (hent n r hr).ex; exact hrun)
      (posOf fs) (effG fs (outOf (gmsFuelMax L ms + 1) ents b))
      (fun n r hr => by
        obtain ⟨_, _, _, _, i, o, t, _, _, hfind, _, _, ⟨a, hva, hsem⟩, _⟩ := (hent n r hr).ex
        exact ⟨a, o, t, hva, by rw [hpos n i o t hfind]; exact hfind, by rw [hpos n i o t hfind]; exact hsem⟩)
      (by omega)
    refine ⟨out, res', fun F hF => hrw F (by have := hinv.len; simp only [gmsFuel] at hF; omega), hd, ?_, by omega⟩
    simp only [TRes]
    -- the entry of a member
    have hmember : ∀ k jv n rep tt i o t, GMem k jv ms → lookupFieldByName tfs k = some (n, rep, tt) →
        findField fs n = some (i, o, t) → ∃ r, (n, r) ∈ ents ∧
          valsGet res' i = (effG fs (outOf (gmsFuelMax L ms + 1) ents b) n).getD (valsGet (zeroFields fs) i) ∧
          (∀ kind, rep = false → tt = .prim kind → ∃ x, leafVal pf kind jv = some x ∧
            (effG fs (outOf (gmsFuelMax L ms + 1) ents b) n).getD (valsGet (zeroFields fs) i) = x) ∧
          (∀ tgs gs, rep = false → tt = .msg tgs → deref t = .struct gs →
            ∃ ms' sub sub', gvObj jv = some ms' ∧ unwrapPtr t (valsGet res i) = .struct sub ∧
            unwrapPtr t ((effG fs (outOf (gmsFuelMax L ms + 1) ents b) n).getD (valsGet (zeroFields fs) i)) = .struct sub' ∧
            TRes pf d gs tgs ms' sub sub') ∧
          (∀ kind et, rep = true → tt = .prim kind → isRepeated t = some et → ∃ js xs, gvList jv = some js ∧
            ElemVals pf kind et js xs ∧
            (effG fs (outOf (gmsFuelMax L ms + 1) ents b) n).getD (valsGet (zeroFields fs) i) = listVal xs) ∧
          (∀ tgs gs, rep = true → tt = .msg tgs → isRepeated t = some (.struct gs) → ∃ js subs, gvList jv = some js ∧
            ElemMsgs (fun ms' sub' => TRes pf d gs tgs ms' (zeroFields gs) sub') (zeroFields gs) js subs ∧
            (effG fs (outOf (gmsFuelMax L ms + 1) ents b) n).getD (valsGet (zeroFields fs) i)
              = listVal (subs.map Val.struct)) ∧
          (∀ ktt vtt kt vt, rep = false → tt = .map ktt vtt → unname t = .map kt vt → ∃ ms' evss, gvObj jv = some ms' ∧
            MapVals (keyGV ktt) (fun kgv value evs => TRes pf d (entryFs kt vt) (entryT ktt vtt) (entryObj kgv value)
              (zeroFields (entryFs kt vt)) evs) (zeroFields (entryFs kt vt)) ms' evss ∧
            (effG fs (outOf (gmsFuelMax L ms + 1) ents b) n).getD (valsGet (zeroFields fs) i) = mapVal evss) ∧
          (∀ tgs gs et, rep = true → tt = .msg tgs → isRepeated t = some et → deref et = .struct gs → ∃ js subs,
            gvList jv = some js ∧
            ElemMsgs (fun ms' sub' => TRes pf d gs tgs ms' (zeroFields gs) sub') (zeroFields gs) js subs ∧
            (effG fs (outOf (gmsFuelMax L ms + 1) ents b) n).getD (valsGet (zeroFields fs) i)
              = listVal (subs.map fun s => wrapPtr et (.struct s))) := by
      intro k jv n rep tt i o t hmem hl hfind
      obtain ⟨r, _, hr, _⟩ := hinv.complete k jv n rep tt hmem hl
      obtain ⟨k', jv', rep', tt', i', o', t', hmem', hl', hfind', _, _, _, hv1, hv2, hv3, hv4, hv5, hv6⟩ := (hent n r hr).ex
      have hk : k' = k := hinj k' k n _ _ _ _ hl' hl
      subst hk
      rw [hl] at hl'
      simp only [Option.some.injEq, Prod.mk.injEq, true_and] at hl'
      obtain ⟨rfl, rfl⟩ := hl'
      have hjv : jv' = jv := gmem_unique _ jv jv' ms hnd hmem hmem'
      subst hjv
      rw [hfind] at hfind'
      simp only [Option.some.injEq, Prod.mk.injEq] at hfind'
      obtain ⟨rfl, rfl, rfl⟩ := hfind'
      have := htempl n r hr
      rw [hpos n i o t hfind] at this
      exact ⟨r, hr, this, hv1, hv2, hv3, hv4, hv5, hv6⟩
    refine ⟨hl', ?_, ?_, ?_, ?_, ?_, ?_, ?_⟩
    · intro j hj
      apply hsame j
      intro n r hr heq
      obtain ⟨k, jv, rep, tt, i, o, t, hmem, hl, hfind, _⟩ := (hent n r hr).ex
      rw [hpos n i o t hfind] at heq
      exact hj k jv n rep tt i o t hmem hl hfind heq
    · intro k jv n kind i o t hmem hl hfind
      obtain ⟨r, _, hval, hv1, _⟩ := hmember k jv n _ _ i o t hmem hl hfind
      obtain ⟨x, hx1, hx2⟩ := hv1 kind rfl rfl
      exact ⟨x, hx1, by rw [hval, hx2]⟩
    · intro k jv n tgs i o t gs hmem hl hfind hd
      obtain ⟨r, _, hval, _, hv2, _⟩ := hmember k jv n _ _ i o _ hmem hl hfind
      obtain ⟨ms', sub, sub', h1, h2, h3, h4⟩ := hv2 tgs gs rfl rfl hd
      exact ⟨ms', sub, sub', h1, h2, by rw [hval]; exact h3, h4⟩
    · intro k jv n kind i o t et hmem hl hfind hrep
      obtain ⟨r, _, hval, _, _, hv3, _⟩ := hmember k jv n _ _ i o t hmem hl hfind
      obtain ⟨js, xs, h1, h2, h3⟩ := hv3 kind et rfl rfl hrep
      exact ⟨js, xs, h1, h2, by rw [hval, h3]⟩
    · intro k jv n tgs i o t gs hmem hl hfind hrep
      obtain ⟨r, _, hval, _, _, _, hv4, _⟩ := hmember k jv n _ _ i o t hmem hl hfind
      obtain ⟨js, subs, h1, h2, h3⟩ := hv4 tgs gs rfl rfl hrep
      exact ⟨js, subs, h1, h2, by rw [hval, h3]⟩
    · intro k jv n ktt vtt i o t kt vt hmem hl hfind hmap
      obtain ⟨r, _, hval, _, _, _, _, hv5, _⟩ := hmember k jv n _ _ i o t hmem hl hfind
      obtain ⟨ms', evss, h1, h2, h3⟩ := hv5 ktt vtt kt vt rfl rfl hmap
      exact ⟨ms', evss, h1, h2, by rw [hval, h3]⟩
    · intro k jv n tgs i o t gs et hmem hl hfind hrep hd
      obtain ⟨r, _, hval, _, _, _, _, _, hv6⟩ := hmember k jv n _ _ i o t hmem hl hfind
      obtain ⟨js, subs, h1, h2, h3⟩ := hv6 tgs gs et rfl rfl hrep hd
      exact ⟨js, subs, h1, h2, by rw [hval, h3]⟩

/-- **`template_rewrite_value` for nested messages**: the complete chain `ParseRewriteTemplate` → `Rewrite` → reference decoder -/
theorem template_rewrite_value_nested (pf : PF) (hpf : PFok pf) (d : Nat) (fs : Fields) (tfs : TFields) (hP : PresN d fs tfs)
    (ms : GMs) (hnd : KeysNodup ms) (hndd : KeysNodupMs ms) (fuel : Nat) (tree : RwT)
    (hparse : parseTemplate pf fuel (.msg tfs) (.obj ms) [] = .ok tree)
    (b : Bytes) (res : Vals) (hsz : gmsSz (b.length + 1) ms < 2 ^ 64)
    (hdec : decode (.struct fs) b = some (.struct res)) :
    ∃ out res', (∀ F, b.length + gmsFuel (b.length + 1) ms ≤ F → rewriteT F tree b = .ok out) ∧
      decode (.struct fs) out = some (.struct res') ∧ TRes pf d fs tfs ms res res' ∧ out.length ≤ gmsSz (b.length + 1) ms := by
  cases fuel with
  | zero => simp [parseTemplate, parseStruct] at hparse
  | succ f =>
    simp only [parseTemplate, parseStruct, gvObj] at hparse
    cases hm : parseMembers pf f tfs ms [] with
    | err e => simp [hm, Res.bind] at hparse
    | panic e => simp [hm, Res.bind] at hparse
    | ok ents =>
      simp only [hm, Res.bind, bne_self_eq_false, Bool.false_eq_true, if_false, Res.ok.injEq] at hparse
      subst hparse
      exact nested_all pf hpf d fs tfs hP ms hnd hndd f ents hm b res (b.length + 1) (Nat.le_refl _) hsz hdec

#print axioms template_rewrite_value_nested

/-! ### non-vacuity: `struct { R []int32 (1) }` presented with the repeated field `R`, template `{"R": [5, 0, 7]}` -/

def exRepT : TFields := .cons [0x52] 1 true (.prim .int32) .nil

theorem exRep_pres : PresN 1 exRep exRepT := by
  simp only [PresN]
  refine ⟨?_, ?_⟩
  · intro k n rep tt h
    simp only [exRepT, lookupFieldByName] at h
    split at h
    · simp only [Option.some.injEq, Prod.mk.injEq] at h
      obtain ⟨rfl, rfl, rfl⟩ := h
      exact ⟨by omega, by omega, 0, _, _, exRep_find1, Or.inr (Or.inr (Or.inl ⟨rfl, .int32, .int .i32, rfl, rfl, by simp [kindOf]⟩))⟩
    · simp at h
  · intro k k' n a b a' b' h h'
    simp only [exRepT, lookupFieldByName] at h h'
    split at h <;> split at h' <;> simp_all

def exRepMs : GMs := .cons [0x52] (.arr (.cons (.num [0x35] .f64) (.cons (.num [0x30] .f64) (.cons (.num [0x37] .f64) .nil)))) .nil

example : ∃ tree, parseTemplate (fun _ _ => none) 6 (.msg exRepT) (.obj exRepMs) [] = .ok tree := by
  have h5 : Enc.Model.Json.unmarshalInt .i32 [0x35] = some 5 := by decide +kernel
  have h0 : Enc.Model.Json.unmarshalInt .i32 [0x30] = some 0 := by decide +kernel
  have h7 : Enc.Model.Json.unmarshalInt .i32 [0x37] = some 7 := by decide +kernel
  simp [parseTemplate, parseStruct, parseMembers, exRepT, exRepMs, gvObj, gvList, Enc.Model.Proto.GVs.toList, lookupFieldByName,
    Enc.Model.Proto.findRule, Enc.Model.Proto.parseElems, Enc.Model.Proto.parseOne, parseLeaf, Enc.Model.Proto.gvInt,
    h5, h0, h7, Res.bind]

example : KeysNodup exRepMs ∧ KeysNodupMs exRepMs := by
  simp [exRepMs, KeysNodup, KeysNodupMs, KeysNodupV, KeysNodupVs, GMem]

/-! ### non-vacuity: `struct { S []struct{ B string (1) } (1) }`, template `{"S": [{"B": "hi"}, {}]}` -/

def exInnerT : TFields := .cons [0x42] 1 false (.prim .string) .nil
def exRepM : Fields := .cons "S" "" false (.slice (.struct exInner)) .nil
def exRepMT : TFields := .cons [0x53] 1 true (.msg exInnerT) .nil

theorem exRepM_find1 : findField exRepM 1 = some (0, { number := 1 }, .slice (.struct exInner)) := by
  simp [findField, findField.go, exRepM, fieldOpt_empty']

theorem exInner_pres : PresN 1 exInner exInnerT := by
  simp only [PresN]
  refine ⟨?_, ?_⟩
  · intro k n rep tt h
    simp only [exInnerT, lookupFieldByName] at h
    split at h
    · simp only [Option.some.injEq, Prod.mk.injEq] at h
      obtain ⟨rfl, rfl, rfl⟩ := h
      exact ⟨by omega, by omega, 0, _, _, exInner_find1, Or.inl ⟨rfl, .string, rfl, by simp [kindOf]⟩⟩
    · simp at h
  · intro k k' n a b a' b' h h'
    simp only [exInnerT, lookupFieldByName] at h h'
    split at h <;> split at h' <;> simp_all

theorem exRepM_pres : PresN 2 exRepM exRepMT := by
  simp only [PresN]
  refine ⟨?_, ?_⟩
  · intro k n rep tt h
    simp only [exRepMT, lookupFieldByName] at h
    split at h
    · simp only [Option.some.injEq, Prod.mk.injEq] at h
      obtain ⟨rfl, rfl, rfl⟩ := h
      exact ⟨by omega, by omega, 0, _, _, exRepM_find1,
        Or.inr (Or.inr (Or.inr (Or.inl ⟨rfl, exInnerT, exInner, rfl, by simp [isRepeated, unname], exInner_pres⟩)))⟩
    · simp at h
  · intro k k' n a b a' b' h h'
    simp only [exRepMT, lookupFieldByName] at h h'
    split at h <;> split at h' <;> simp_all

def exRepMMs : GMs := .cons [0x53] (.arr (.cons (.obj (.cons [0x42] (.str [0x68, 0x69]) .nil)) (.cons (.obj .nil) .nil))) .nil

theorem exRepM_parse : ∃ tree, parseTemplate (fun _ _ => none) 8 (.msg exRepMT) (.obj exRepMMs) [] = .ok tree := by
  simp [parseTemplate, parseStruct, parseMembers, exRepMT, exInnerT, exRepMMs, gvObj, gvList, gvString, Enc.Model.Proto.GVs.toList,
    lookupFieldByName, Enc.Model.Proto.findRule, Enc.Model.Proto.parseElems, Enc.Model.Proto.parseOne, parseLeaf, Res.bind]

theorem exRepM_nodup : KeysNodup exRepMMs ∧ KeysNodupMs exRepMMs := by
  simp [exRepMMs, KeysNodup, KeysNodupMs, KeysNodupV, KeysNodupVs, GMem]

/-- the theorem applies to that template on the empty input: the result has `S` = the list of the non-zero elements -/
example : ∃ out res' js subs, decode (.struct exRepM) out = some (.struct res') ∧
    gvList (.arr (.cons (.obj (.cons [0x42] (.str [0x68, 0x69]) .nil)) (.cons (.obj .nil) .nil))) = some js ∧
    ElemMsgs (fun ms' sub' => TRes (fun _ _ => none) 1 exInner exInnerT ms' (zeroFields exInner) sub') (zeroFields exInner) js subs ∧
    valsGet res' 0 = listVal (subs.map Val.struct) := by
  obtain ⟨tree, htree⟩ := exRepM_parse
  obtain ⟨out, res', _, hd, htres, _⟩ := template_rewrite_value_nested (fun _ _ => none) (fun lit b => by simp) 2 exRepM exRepMT
    exRepM_pres exRepMMs exRepM_nodup.1 exRepM_nodup.2 8 tree htree [] (zeroFields exRepM)
    (by simp [gmsSz, exRepMMs, gmLen, gmsMax, gvSz, gvsSum]) (decode_nil exRepM)
  simp only [TRes] at htres
  obtain ⟨js, subs, h1, h2, h3⟩ := htres.2.2.2.2.2.1 [0x53] _ 1 exInnerT 0 _ _ exInner (Or.inl ⟨rfl, rfl⟩)
    (by simp [exRepMT, lookupFieldByName]) exRepM_find1 (by simp [isRepeated, unname])
  exact ⟨out, res', js, subs, hd, h1, h2, h3⟩

/-! ### non-vacuity: `struct { M map[string]int32 (1) }`, template `{"M": {"hi": 5, "": 0}}` -/

def exMapT : TFields := .cons [0x4d] 1 false (.map (.prim .string) (.prim .int32)) .nil

theorem exEntry_pres : PresN 1 (entryFs .str (.int .i32)) (entryT (.prim .string) (.prim .int32)) := by
  simp only [PresN]
  refine ⟨?_, namesInj_entryT _ _⟩
  intro k n rep tt h
  rcases lookup_entryT _ _ k n rep tt h with ⟨_, rfl, rfl, rfl⟩ | ⟨_, rfl, rfl, rfl⟩
  · exact ⟨by omega, by omega, 0, _, _, entryFs_find1 _ _, Or.inl ⟨rfl, .string, rfl, by simp [kindOf]⟩⟩
  · exact ⟨by omega, by omega, 1, _, _, entryFs_find2 _ _, Or.inl ⟨rfl, .int32, rfl, by simp [kindOf]⟩⟩

theorem exMap_pres : PresN 2 exMap exMapT := by
  simp only [PresN]
  refine ⟨?_, ?_⟩
  · intro k n rep tt h
    simp only [exMapT, lookupFieldByName] at h
    split at h
    · simp only [Option.some.injEq, Prod.mk.injEq] at h
      obtain ⟨rfl, rfl, rfl⟩ := h
      exact ⟨by omega, by omega, 0, _, _, exMap_find1,
        Or.inr (Or.inr (Or.inr (Or.inr (Or.inl ⟨rfl, _, _, .str, .int .i32, rfl, by simp [isRepeated, unname], by simp [unname],
          ⟨.string, rfl, by decide⟩, exEntry_pres⟩))))⟩
    · simp at h
  · intro k k' n a b a' b' h h'
    simp only [exMapT, lookupFieldByName] at h h'
    split at h <;> split at h' <;> simp_all

def exMapMs : GMs := .cons [0x4d] (.obj (.cons [0x68, 0x69] (.num [0x35] .f64) (.cons [] (.num [0x30] .f64) .nil))) .nil

theorem exMap_parse : ∃ tree, parseTemplate (fun _ _ => none) 20 (.msg exMapT) (.obj exMapMs) [] = .ok tree := by
  have h5 : Enc.Model.Json.unmarshalInt .i32 [0x35] = some 5 := by decide +kernel
  have h0 : Enc.Model.Json.unmarshalInt .i32 [0x30] = some 0 := by decide +kernel
  simp [parseTemplate, parseStruct, parseMembers, exMapT, exMapMs, gvObj, gvString, lookupFieldByName,
    Enc.Model.Proto.findRule, Enc.Model.Proto.parseElems, Enc.Model.Proto.parseOne, Enc.Model.Proto.parseMap,
    Enc.Model.Proto.parseEntries, parseLeaf, Enc.Model.Proto.gvInt, h5, h0, Res.bind, Enc.Model.Proto.keyName,
    Enc.Model.Proto.valueName, multiOfT, insertEnt]

theorem exMap_nodup : KeysNodup exMapMs ∧ KeysNodupMs exMapMs := by
  simp [exMapMs, KeysNodup, KeysNodupMs, KeysNodupV, GMem]

/-- the theorem applies to that template on the empty input: the result has `M` = the map rebuilt from the entries -/
example : ∃ out res' ms' evss, decode (.struct exMap) out = some (.struct res') ∧
    gvObj (.obj (.cons [0x68, 0x69] (.num [0x35] .f64) (.cons [] (.num [0x30] .f64) .nil))) = some ms' ∧
    MapVals (keyGV (.prim .string)) (fun kgv value evs => TRes (fun _ _ => none) 1 (entryFs .str (.int .i32))
      (entryT (.prim .string) (.prim .int32)) (entryObj kgv value) (zeroFields (entryFs .str (.int .i32))) evs)
      (zeroFields (entryFs .str (.int .i32))) ms' evss ∧
    valsGet res' 0 = mapVal evss := by
  obtain ⟨tree, htree⟩ := exMap_parse
  obtain ⟨out, res', _, hd, htres, _⟩ := template_rewrite_value_nested (fun _ _ => none) (fun lit b => by simp) 2 exMap exMapT
    exMap_pres exMapMs exMap_nodup.1 exMap_nodup.2 20 tree htree [] (zeroFields exMap)
    (by simp [gmsSz, exMapMs, gmLen, gmsMax, gvSz]) (decode_nil exMap)
  simp only [TRes] at htres
  obtain ⟨ms', evss, h1, h2, h3⟩ := htres.2.2.2.2.2.2.1 [0x4d] _ 1 (.prim .string) (.prim .int32) 0 _ _ .str (.int .i32) (Or.inl ⟨rfl, rfl⟩)
    (by simp [exMapT, lookupFieldByName]) exMap_find1 (by simp [unname])
  exact ⟨out, res', ms', evss, hd, h1, h2, h3⟩

/-! ### non-vacuity: `struct { A int32 (1); M *struct { B string (1) } (2) }` (a message behind a pointer), template
`{"M": {"B": "hi"}}` -/

def exPtrT : TFields := .cons [0x41] 1 false (.prim .int32) (.cons [0x4d] 2 false (.msg exInnerT) .nil)

theorem exPtr_pres : PresN 2 Enc.Lemmas.ProtoSpecFuel.exFs exPtrT := by
  simp only [PresN]
  refine ⟨?_, ?_⟩
  · intro k n rep tt h
    simp only [exPtrT, lookupFieldByName] at h
    by_cases h2 : ([0x4d] : Bytes) = k
    · subst h2
      simp at h
      obtain ⟨rfl, rfl, rfl⟩ := h
      exact ⟨by omega, by omega, 1, _, _, ex_find2, Or.inr (Or.inl ⟨rfl, exInnerT, exInner, rfl, by simp [deref],
        by simp [isRepeated, unname], by simp [unname], exInner_pres⟩)⟩
    · by_cases h1 : ([0x41] : Bytes) = k
      · subst h1
        simp at h
        obtain ⟨rfl, rfl, rfl⟩ := h
        exact ⟨by omega, by omega, 0, _, _, ex_find1, Or.inl ⟨rfl, .int32, rfl, by simp [kindOf]⟩⟩
      · simp [h1, h2] at h
  · intro k k' n a b a' b' h h'
    simp only [exPtrT, lookupFieldByName] at h h'
    by_cases h1 : ([0x4d] : Bytes) = k <;> by_cases h2 : ([0x41] : Bytes) = k <;>
      by_cases h3 : ([0x4d] : Bytes) = k' <;> by_cases h4 : ([0x41] : Bytes) = k' <;> simp_all <;> omega

def exPtrMs : GMs := .cons [0x4d] (.obj (.cons [0x42] (.str [0x68, 0x69]) .nil)) .nil

theorem exPtr_parse : ∃ tree, parseTemplate (fun _ _ => none) 10 (.msg exPtrT) (.obj exPtrMs) [] = .ok tree := by
  simp [parseTemplate, parseStruct, parseMembers, exPtrT, exInnerT, exPtrMs, gvObj, gvString, lookupFieldByName,
    Enc.Model.Proto.findRule, Enc.Model.Proto.parseElems, Enc.Model.Proto.parseOne, parseLeaf, Res.bind, multiOfT, insertEnt]

/-- on the empty input (`M` absent, a nil pointer) the pointee of the new `M` is the sub-template applied to the zero
sub-message -/
example : ∃ out res' ms' sub', decode (.struct Enc.Lemmas.ProtoSpecFuel.exFs) out = some (.struct res') ∧
    gvObj (.obj (.cons [0x42] (.str [0x68, 0x69]) .nil)) = some ms' ∧
    unwrapPtr (.ptr (.struct exInner)) (valsGet res' 1) = .struct sub' ∧
    TRes (fun _ _ => none) 1 exInner exInnerT ms' (zeroFields exInner) sub' := by
  obtain ⟨tree, htree⟩ := exPtr_parse
  obtain ⟨out, res', _, hd, htres, _⟩ := template_rewrite_value_nested (fun _ _ => none) (fun lit b => by simp) 2
    Enc.Lemmas.ProtoSpecFuel.exFs exPtrT exPtr_pres exPtrMs (by simp [exPtrMs, KeysNodup, GMem])
    (by simp [exPtrMs, KeysNodup, KeysNodupMs, KeysNodupV, GMem]) 10 tree htree [] (zeroFields Enc.Lemmas.ProtoSpecFuel.exFs)
    (by simp [gmsSz, exPtrMs, gmLen, gmsMax, gvSz]) (decode_nil _)
  simp only [TRes] at htres
  obtain ⟨ms', sub, sub', h1, h2, h3, h4⟩ := htres.2.2.2.1 [0x4d] _ 2 exInnerT 1 _ _ exInner (Or.inl ⟨rfl, rfl⟩)
    (by simp [exPtrT, lookupFieldByName]) ex_find2 (by simp [deref])
  have hs : sub = zeroFields exInner := by
    simp [Enc.Lemmas.ProtoSpecFuel.exFs, zeroFields, zeroOf, valsGet, unwrapPtr, deref] at h2
    exact h2.symm
  subst hs
  exact ⟨out, res', ms', sub', hd, h1, h3, h4⟩

/-! ### non-vacuity: `struct { S []*struct{ B string (1) } (1) }` (repeated messages behind pointers, what protoc-gen-go
generates), template `{"S": [{"B": "hi"}, {}]}` -/

def exRepP : Fields := .cons "S" "" false (.slice (.ptr (.struct exInner))) .nil

theorem exRepP_find1 : findField exRepP 1 = some (0, { number := 1 }, .slice (.ptr (.struct exInner))) := by
  simp [findField, findField.go, exRepP, fieldOpt_empty']

theorem exRepP_pres : PresN 2 exRepP exRepMT := by
  simp only [PresN]
  refine ⟨?_, ?_⟩
  · intro k n rep tt h
    simp only [exRepMT, lookupFieldByName] at h
    split at h
    · simp only [Option.some.injEq, Prod.mk.injEq] at h
      obtain ⟨rfl, rfl, rfl⟩ := h
      exact ⟨by omega, by omega, 0, _, _, exRepP_find1,
        Or.inr (Or.inr (Or.inr (Or.inr (Or.inr ⟨rfl, exInnerT, exInner, .ptr (.struct exInner), rfl,
          by simp [isRepeated, unname], by simp [deref], exInner_pres⟩))))⟩
    · simp at h
  · intro k k' n a b a' b' h h'
    simp only [exRepMT, lookupFieldByName] at h h'
    split at h <;> split at h' <;> simp_all

/-- the elements of the new list are pointers to the sub-messages the element templates denote -/
example : ∃ out res' js subs, decode (.struct exRepP) out = some (.struct res') ∧
    gvList (.arr (.cons (.obj (.cons [0x42] (.str [0x68, 0x69]) .nil)) (.cons (.obj .nil) .nil))) = some js ∧
    ElemMsgs (fun ms' sub' => TRes (fun _ _ => none) 1 exInner exInnerT ms' (zeroFields exInner) sub') (zeroFields exInner) js subs ∧
    valsGet res' 0 = listVal (subs.map fun s => Val.ptr (.struct s)) := by
  obtain ⟨tree, htree⟩ := exRepM_parse
  obtain ⟨out, res', _, hd, htres, _⟩ := template_rewrite_value_nested (fun _ _ => none) (fun lit b => by simp) 2 exRepP exRepMT
    exRepP_pres exRepMMs exRepM_nodup.1 exRepM_nodup.2 8 tree htree [] (zeroFields exRepP)
    (by simp [gmsSz, exRepMMs, gmLen, gmsMax, gvSz, gvsSum]) (decode_nil exRepP)
  simp only [TRes] at htres
  obtain ⟨js, subs, h1, h2, h3⟩ := htres.2.2.2.2.2.2.2 [0x53] _ 1 exInnerT 0 _ _ exInner (.ptr (.struct exInner))
    (Or.inl ⟨rfl, rfl⟩) (by simp [exRepMT, lookupFieldByName]) exRepP_find1 (by simp [isRepeated, unname]) (by simp [deref])
  exact ⟨out, res', js, subs, hd, h1, h2, by simpa [wrapPtr] using h3⟩

end Enc.Lemmas.ProtoTemplate
