import Enc.Lemmas.ProtoNamedSpec
import Enc.Lemmas.ProtoMap
import Enc.Lemmas.ProtoLiberal
import Enc.Lemmas.ProtoLiberalMap
import Enc.Lemmas.ProtoDepth
/-!
# proto: the round-trip / wire-format theorems on message types that use defined ("named") Go types

Universe `tyOK2` (⊇ `tyOK`) and `tyOKM2` (⊇ `tyOKM`): a type is in it when it is `nameSafe` and its `erase`d form (all
`.named n _` wrappers removed) is in `tyOK` resp. `tyOKM`.  So `type Celsius float64`, `type Hash [32]byte`,
`type Inner struct{…}`, `type Ints []int32`, `type Labels map[string]string`, `type Opt *int32` may be used wherever their
underlying types may: as fields, pointees, elements, map values, nested to any depth, also defined types of defined types.
Value predicates and record lists are those of the erased type (`hasType2 t v = hasType (erase t) v`, …): values carry no
type names.

Every theorem of C03/C12 stated on `tyOK` / `tyOKM` is lifted (`*_named`), by `ProtoNamed.codecOf_erase` (same codec tree,
hence the same `marshal`, `Size`, `unmarshal`), `decode_erase` (the reference decoder reads the same value) and
`canonical_erase`.
-/
set_option linter.unusedSimpArgs false
set_option linter.unusedVariables false
namespace Enc.Lemmas.ProtoNamed
open Enc Enc.Model.Proto Enc.Lemmas.ProtoWire Enc.Lemmas.ProtoMap Enc.Lemmas.ProtoLiberal Enc.Lemmas.ProtoLiberalMap
open Enc.Spec.Protobuf (canonical)

/-! ## the universe -/

def tyOK2 (t : Ty) : Bool := nameSafe t && tyOK (erase t)
def tyOKM2 (t : Ty) : Bool := nameSafe t && tyOKM (erase t)
def plainTy2 (t : Ty) : Bool := plainTy (erase t)
def hasType2 (t : Ty) (v : Val) : Bool := hasType (erase t) v
def hasTypes2 (fs : Fields) (vs : Vals) : Bool := hasTypes (eraseFields fs) vs
def hasTypeM2 (t : Ty) (v : Val) : Bool := hasTypeM (erase t) v
def hasTypesM2 (fs : Fields) (vs : Vals) : Bool := hasTypesM (eraseFields fs) vs
def noEmptyPtr2 (t : Ty) (v : Val) : Bool := noEmptyPtr (erase t) v
def valOKM2 (t : Ty) (v : Val) : Bool := valOKM (erase t) v
def allRecords2 (wz : Bool) (fs : Fields) (vs : Vals) := allRecords wz (eraseFields fs) vs
def allRecordsM2 (wz : Bool) (fs : Fields) (vs : Vals) := allRecordsM wz (eraseFields fs) vs
def noEmptyEntry2 (t : Ty) (b : Bytes) : Bool := noEmptyEntry (erase t) b
def noArr2 (t : Ty) : Bool := noArr (erase t)

theorem erase_struct (fs : Fields) : erase (.struct fs) = .struct (eraseFields fs) := by simp only [erase]

mutual
/-- types without defined types are their own erasure -/
theorem erase_id_of_tyOKM : ∀ t : Ty, tyOKM t = true → erase t = t ∧ nameSafe t = true
  | .named n t, h => by simp [tyOKM] at h
  | .ptr t, h => by
    simp only [tyOKM, Bool.and_eq_true] at h
    obtain ⟨e, s⟩ := erase_id_of_tyOKM t h.2
    exact ⟨by simp only [erase, e], by simpa only [nameSafe] using s⟩
  | .slice t, h => by
    simp only [tyOKM, Bool.and_eq_true] at h
    obtain ⟨e, s⟩ := erase_id_of_tyOKM t h.2
    refine ⟨by simp only [erase, e], ?_⟩
    simp only [nameSafe, e, s, Bool.and_true]
    cases isU8 t <;> rfl
  | .map k v, h => by
    simp only [tyOKM, Bool.and_eq_true] at h
    obtain ⟨e, s⟩ := erase_id_of_tyOKM v h.2
    have hk : erase k = k ∧ nameSafe k = true := by
      have := h.1.1.1
      cases k <;> simp_all [keyTy, erase, nameSafe]
    exact ⟨by simp only [erase, e, hk.1], by simp only [nameSafe, s, hk.2, Bool.and_self]⟩
  | .struct fs, h => by
    simp only [tyOKM, Bool.and_eq_true] at h
    obtain ⟨e, s⟩ := erase_id_of_fieldsOKM 1 fs h.1
    exact ⟨by simp only [erase, e], by simpa only [nameSafe] using s⟩
  | .bool, _ => ⟨rfl, rfl⟩ | .int k, _ => ⟨rfl, rfl⟩ | .f32, _ => ⟨rfl, rfl⟩ | .f64, _ => ⟨rfl, rfl⟩
  | .str, _ => ⟨rfl, rfl⟩ | .bytes, _ => ⟨rfl, rfl⟩ | .any, _ => ⟨rfl, rfl⟩
  | .arr n t, _ => ⟨rfl, rfl⟩
theorem erase_id_of_fieldsOKM (pos : Nat) : ∀ fs : Fields, fieldsOKM pos fs = true →
    eraseFields fs = fs ∧ nameSafeFields fs = true
  | .nil, _ => ⟨rfl, rfl⟩
  | .cons name tag emb t rest, h => by
    simp only [fieldsOKM, Bool.and_eq_true] at h
    obtain ⟨e, s⟩ := erase_id_of_tyOKM t h.1.2
    obtain ⟨e', s'⟩ := erase_id_of_fieldsOKM (pos + 1) rest h.2
    exact ⟨by simp only [eraseFields, e, e'], by simp only [nameSafeFields, s, s', Bool.and_self]⟩
end

/-- the new universes contain the old ones -/
theorem tyOKM2_of_tyOKM (t : Ty) (h : tyOKM t = true) : tyOKM2 t = true := by
  obtain ⟨e, s⟩ := erase_id_of_tyOKM t h
  simp only [tyOKM2, s, e, h, Bool.and_self]

theorem notMap_of_tyOK (t : Ty) (h : tyOK t = true) : isMap t = false := by
  cases t <;> simp_all [tyOK, isMap]

mutual
/-- `tyOKM` really is `tyOK` plus map fields -/
theorem tyOKM_of_tyOK : ∀ t : Ty, tyOK t = true → tyOKM t = true
  | .ptr t, h => by
    simp only [tyOK, Bool.and_eq_true] at h
    simp only [tyOKM, h.1, tyOKM_of_tyOK t h.2, Bool.and_self]
  | .slice t, h => by
    simp only [tyOK, Bool.and_eq_true] at h
    simp only [tyOKM, h.1, tyOKM_of_tyOK t h.2, notMap_of_tyOK t h.2, Bool.not_false, Bool.and_self]
  | .struct fs, h => by
    simp only [tyOK, Bool.and_eq_true] at h
    simp only [tyOKM, fieldsOKM_of_fieldsOK 1 fs h.1, h.2, Bool.and_self]
  | .named n t, h => by simp [tyOK] at h
  | .map k v, h => by simp [tyOK] at h
  | .any, h => by simp [tyOK] at h
  | .arr n t, h => by simpa only [tyOK, tyOKM] using h
  | .bool, _ => rfl | .f32, _ => rfl | .f64, _ => rfl | .str, _ => rfl | .bytes, _ => rfl
  | .int k, h => by simpa only [tyOK, tyOKM] using h
theorem fieldsOKM_of_fieldsOK (pos : Nat) : ∀ fs : Fields, fieldsOK pos fs = true → fieldsOKM pos fs = true
  | .nil, _ => rfl
  | .cons name tag emb t rest, h => by
    simp only [fieldsOK, Bool.and_eq_true] at h
    simp only [fieldsOKM, tagAgreeM_notMap pos tag t (notMap_of_tyOK t h.1.2), h.1.1, tyOKM_of_tyOK t h.1.2,
      fieldsOKM_of_fieldsOK (pos + 1) rest h.2, Bool.and_self]
end

theorem tyOK2_of_tyOK (t : Ty) (h : tyOK t = true) : tyOK2 t = true := by
  obtain ⟨e, s⟩ := erase_id_of_tyOKM t (tyOKM_of_tyOK t h)
  simp only [tyOK2, s, e, h, Bool.and_self]
theorem tyOKM2_of_tyOK2 (t : Ty) (h : tyOK2 t = true) : tyOKM2 t = true := by
  simp only [tyOK2, Bool.and_eq_true] at h
  simp only [tyOKM2, h.1, tyOKM_of_tyOK _ h.2, Bool.and_self]

/-! ## unpacking the universe hypothesis -/

theorem tyOK2_struct {fs : Fields} (h : tyOK2 (.struct fs) = true) :
    nameSafe (.struct fs) = true ∧ tyOK (.struct (eraseFields fs)) = true := by
  simpa only [tyOK2, Bool.and_eq_true, erase] using h
theorem tyOKM2_struct {fs : Fields} (h : tyOKM2 (.struct fs) = true) :
    nameSafe (.struct fs) = true ∧ tyOKM (.struct (eraseFields fs)) = true := by
  simpa only [tyOKM2, Bool.and_eq_true, erase] using h

theorem fieldsOf_struct_erase {fs : Fields} (hs : nameSafe (.struct fs) = true) :
    fieldsOf 1 (eraseFields fs) = fieldsOf 1 fs := fieldsOf_erase 1 fs (by simpa only [nameSafe] using hs)

theorem nesting_erase {t : Ty} (hs : nameSafe t = true) : Codec.nesting (codecOf (erase t)) = Codec.nesting (codecOf t) := by
  rw [codecOf_erase t hs]

/-! ## C12 bytes -/

/-- **bytes, with defined types**: what `Marshal` writes is the reference encoding of the records of the value -/
theorem struct_bytes_named (fs : Fields) (vs : Vals) (fl : Flags)
    (hty : tyOK2 (.struct fs) = true) (hv : hasTypes2 fs vs = true) (hz : fl.zigzag = false)
    (hlen : (encode (.struct (fieldsOf 1 fs)) (.struct vs) fl).length < 2 ^ 64) :
    encode (.struct (fieldsOf 1 fs)) (.struct vs) fl = encRecs (allRecords2 fl.wantzero fs vs) := by
  obtain ⟨hs, ht⟩ := tyOK2_struct hty
  rw [← fieldsOf_struct_erase hs] at hlen ⊢
  exact struct_bytes (eraseFields fs) vs fl ht hv hz hlen

theorem struct_bytes_maps_named (fs : Fields) (vs : Vals) (fl : Flags)
    (hty : tyOKM2 (.struct fs) = true) (hv : hasTypesM2 fs vs = true) (hz : fl.zigzag = false)
    (hlen : (encode (.struct (fieldsOf 1 fs)) (.struct vs) fl).length < 2 ^ 64) :
    encode (.struct (fieldsOf 1 fs)) (.struct vs) fl = encRecs (allRecordsM2 fl.wantzero fs vs) := by
  obtain ⟨hs, ht⟩ := tyOKM2_struct hty
  rw [← fieldsOf_struct_erase hs] at hlen ⊢
  exact struct_bytesM (eraseFields fs) vs fl ht hv hz hlen

/-! ## C12 the reference decoder reads what Marshal writes -/

theorem reference_decodes_marshal_named (fs : Fields) (v : Val)
    (hty : tyOK2 (.struct fs) = true) (hpl : plainTy2 (.struct fs) = true)
    (hv : hasType2 (.struct fs) v = true) (hlen : (marshal (.struct fs) v).length < 2 ^ 64) :
    Spec.Protobuf.decode (.struct fs) (marshal (.struct fs) v) = some v := by
  obtain ⟨hs, ht⟩ := tyOK2_struct hty
  rw [← decode_erase _ hs, ← marshal_erase _ hs] at *
  simp only [plainTy2, hasType2, erase] at *
  exact decode_marshal_scalar (eraseFields fs) v ht hpl hv hlen

theorem reference_decodes_marshal_partial_named (fs : Fields) (v : Val)
    (hty : tyOK2 (.struct fs) = true) (hv : hasType2 (.struct fs) v = true)
    (hne : noEmptyPtr2 (.struct fs) v = true) (hlen : (marshal (.struct fs) v).length < 2 ^ 64) :
    (Spec.Protobuf.decode (.struct fs) (marshal (.struct fs) v)).map (canonical (.struct fs))
      = some (canonical (.struct fs) v) := by
  obtain ⟨hs, ht⟩ := tyOK2_struct hty
  have hc : canonical (.struct fs) = canonical (erase (.struct fs)) := funext fun x => (canonical_erase _ hs x).symm
  rw [hc, ← decode_erase _ hs, ← marshal_erase _ hs] at *
  simp only [noEmptyPtr2, hasType2, erase] at *
  exact decode_marshal_partial (eraseFields fs) v ht hv hne hlen

theorem reference_decodes_marshal_maps_partial_named (fs : Fields) (v : Val)
    (hty : tyOKM2 (.struct fs) = true) (hv : hasTypeM2 (.struct fs) v = true) (hne : valOKM2 (.struct fs) v = true)
    (hlen : (marshal (.struct fs) v).length < 2 ^ 64) :
    (Spec.Protobuf.decode (.struct fs) (marshal (.struct fs) v)).map (canonical (.struct fs))
      = some (canonical (.struct fs) v) := by
  obtain ⟨hs, ht⟩ := tyOKM2_struct hty
  have hc : canonical (.struct fs) = canonical (erase (.struct fs)) := funext fun x => (canonical_erase _ hs x).symm
  rw [hc, ← decode_erase _ hs, ← marshal_erase _ hs] at *
  simp only [valOKM2, hasTypeM2, erase] at *
  exact decode_marshal_map_partial (eraseFields fs) v ht hv hne hlen

/-! ## C03 Unmarshal ∘ Marshal -/

theorem unmarshal_marshal_named (fs : Fields) (v : Val)
    (hty : tyOK2 (.struct fs) = true) (hpl : plainTy2 (.struct fs) = true) (hv : hasType2 (.struct fs) v = true)
    (hlen : (marshal (.struct fs) v).length < 2 ^ 64) (hdep : Codec.nesting (codecOf (.struct fs)) ≤ Gen.c_proto_maxDepth) :
    unmarshal (.struct fs) (marshal (.struct fs) v) = .ok v := by
  obtain ⟨hs, ht⟩ := tyOK2_struct hty
  rw [← nesting_erase hs] at hdep
  rw [← unmarshal_erase _ hs, ← marshal_erase _ hs] at *
  simp only [plainTy2, hasType2, erase] at *
  rw [Lemmas.ProtoDepth.unmarshal_eq_unmarshalU _ _ hdep]
  exact Lemmas.ProtoRoundTrip.unmarshal_marshal_scalar (eraseFields fs) v ht hpl hv hlen

theorem unmarshal_marshal_partial_named (fs : Fields) (v : Val)
    (hty : tyOK2 (.struct fs) = true) (hv : hasType2 (.struct fs) v = true) (hne : noEmptyPtr2 (.struct fs) v = true)
    (hlen : (marshal (.struct fs) v).length < 2 ^ 64) (hdep : Codec.nesting (codecOf (.struct fs)) ≤ Gen.c_proto_maxDepth) :
    ∃ v', unmarshal (.struct fs) (marshal (.struct fs) v) = .ok v'
      ∧ canonical (.struct fs) v' = canonical (.struct fs) v := by
  obtain ⟨hs, ht⟩ := tyOK2_struct hty
  rw [← nesting_erase hs] at hdep
  have hc : canonical (.struct fs) = canonical (erase (.struct fs)) := funext fun x => (canonical_erase _ hs x).symm
  rw [hc, ← unmarshal_erase _ hs, ← marshal_erase _ hs] at *
  simp only [noEmptyPtr2, hasType2, erase] at *
  rw [Lemmas.ProtoDepth.unmarshal_eq_unmarshalU _ _ hdep]
  exact Lemmas.ProtoRoundTrip.unmarshal_marshal_partial (eraseFields fs) v ht hv hne hlen

theorem unmarshal_marshal_map_partial_named (fs : Fields) (v : Val)
    (hty : tyOKM2 (.struct fs) = true) (hv : hasTypeM2 (.struct fs) v = true) (hne : valOKM2 (.struct fs) v = true)
    (hlen : (marshal (.struct fs) v).length < 2 ^ 64) (hdep : Codec.nesting (codecOf (.struct fs)) ≤ Gen.c_proto_maxDepth) :
    ∃ v', unmarshal (.struct fs) (marshal (.struct fs) v) = .ok v'
      ∧ canonical (.struct fs) v' = canonical (.struct fs) v := by
  obtain ⟨hs, ht⟩ := tyOKM2_struct hty
  rw [← nesting_erase hs] at hdep
  have hc : canonical (.struct fs) = canonical (erase (.struct fs)) := funext fun x => (canonical_erase _ hs x).symm
  rw [hc, ← unmarshal_erase _ hs, ← marshal_erase _ hs] at *
  simp only [valOKM2, hasTypeM2, erase] at *
  rw [Lemmas.ProtoDepth.unmarshal_eq_unmarshalU _ _ hdep]
  exact Lemmas.ProtoMap.unmarshal_marshal_map_partial (eraseFields fs) v ht hv hne hlen

/-! ## C12 both ways, second half -/

theorem unmarshal_of_reference_decode_named (fs : Fields) (hty : tyOK2 (.struct fs) = true) (b : Bytes) (v : Val)
    (hdep : Codec.nesting (codecOf (.struct fs)) ≤ Gen.c_proto_maxDepth)
    (h : Spec.Protobuf.decode (.struct fs) b = some v) : unmarshal (.struct fs) b = .ok v := by
  obtain ⟨hs, ht⟩ := tyOK2_struct hty
  rw [← nesting_erase hs] at hdep
  rw [← decode_erase _ hs] at h
  rw [← unmarshal_erase _ hs]
  simp only [erase] at *
  rw [Lemmas.ProtoDepth.unmarshal_eq_unmarshalU _ _ hdep]
  exact Lemmas.ProtoLiberal.unmarshal_of_decode (eraseFields fs) ht b v h

theorem unmarshal_iff_reference_decode_named (fs : Fields) (hty : tyOK2 (.struct fs) = true)
    (hna : noArr2 (.struct fs) = true) (b : Bytes) (v : Val)
    (hdep : Codec.nesting (codecOf (.struct fs)) ≤ Gen.c_proto_maxDepth)
    (hz : ¬ ZeroNum (eraseFields fs) b) :
    unmarshal (.struct fs) b = .ok v ↔ Spec.Protobuf.decode (.struct fs) b = some v := by
  obtain ⟨hs, ht⟩ := tyOK2_struct hty
  rw [← nesting_erase hs] at hdep
  rw [← decode_erase _ hs, ← unmarshal_erase _ hs]
  simp only [erase] at *
  rw [Lemmas.ProtoDepth.unmarshal_eq_unmarshalU _ _ hdep]
  exact Lemmas.ProtoLiberal.unmarshal_iff_decode (eraseFields fs) ht (by simpa only [noArr2, erase] using hna) b v hz

theorem unmarshal_of_reference_decode_maps_partial_named (fs : Fields) (hty : tyOKM2 (.struct fs) = true) (b : Bytes)
    (v : Val) (hne : noEmptyEntry2 (.struct fs) b = true)
    (hdep : Codec.nesting (codecOf (.struct fs)) ≤ Gen.c_proto_maxDepth)
    (h : Spec.Protobuf.decode (.struct fs) b = some v) : unmarshal (.struct fs) b = .ok v := by
  obtain ⟨hs, ht⟩ := tyOKM2_struct hty
  rw [← nesting_erase hs] at hdep
  rw [← decode_erase _ hs] at h
  rw [← unmarshal_erase _ hs]
  simp only [noEmptyEntry2, erase] at *
  rw [Lemmas.ProtoDepth.unmarshal_eq_unmarshalU _ _ hdep]
  exact Lemmas.ProtoLiberalMap.unmarshal_of_decode_map_partial (eraseFields fs) ht b v hne h

theorem unmarshal_accepts_reference_decode_maps_named (fs : Fields) (hty : tyOKM2 (.struct fs) = true) (b : Bytes)
    (v : Val) (hdep : Codec.nesting (codecOf (.struct fs)) ≤ Gen.c_proto_maxDepth)
    (h : Spec.Protobuf.decode (.struct fs) b = some v) :
    ∃ v', unmarshal (.struct fs) b = .ok v' ∧ sh v v' = true := by
  obtain ⟨hs, ht⟩ := tyOKM2_struct hty
  rw [← nesting_erase hs] at hdep
  rw [← decode_erase _ hs] at h
  rw [← unmarshal_erase _ hs]
  simp only [erase] at *
  rw [Lemmas.ProtoDepth.unmarshal_eq_unmarshalU _ _ hdep]
  exact Lemmas.ProtoLiberalMap.unmarshal_accepts_of_decode_map (eraseFields fs) ht b v h

/-! ## non-vacuity: a message type built from defined types -/

open Enc.Lemmas.ProtoMap.Findings in
/-- `struct{ A Labels; B ID; C map[int64]Inner; D map[bool]*Inner; E Strs; F MI }` with `type Labels map[string]Count`,
`type Count int32`, `type ID I64`, `type I64 int64`, `type Inner struct{X int32; S string}`, `type Strs []S`,
`type S string`, `type MI struct{M map[uint32][]byte}` -/
def exNFields : Fields :=
  .cons "A" "" false (.named "Labels" (.map .str (.named "Count" (.int .i32))))
    (.cons "B" "" false (.named "ID" (.named "I64" (.int .i64)))
      (.cons "C" "" false (.map (.int .i64) (.named "Inner" (.struct exInner)))
        (.cons "D" "" false (.map .bool (.ptr (.named "Inner" (.struct exInner))))
          (.cons "E" "" false (.named "Strs" (.slice (.named "S" .str)))
            (.cons "F" "" false (.named "MI" (.struct exMInner)) .nil)))))

open Enc.Lemmas.ProtoMap.Findings in
theorem exN_erase : eraseFields exNFields = exMFields := by
  simp [exNFields, exMFields, exMInner, exInner, eraseFields, erase]

open Enc.Lemmas.ProtoMap.Findings in
theorem exN_safe : nameSafe (.struct exNFields) = true := by
  simp [exNFields, exMInner, exInner, nameSafe, nameSafeFields, isU8, erase]

open Enc.Lemmas.ProtoMap.Findings in
/-- the hypotheses of the `*_named` theorems are satisfiable: type in `tyOKM2`, a well-typed admissible value, depth -/
theorem exN_hyps : tyOKM2 (.struct exNFields) = true
    ∧ hasTypeM2 (.struct exNFields) (.struct exMVals) = true
    ∧ valOKM2 (.struct exNFields) (.struct exMVals) = true
    ∧ (marshal (.struct exNFields) (.struct exMVals)).length < 2 ^ 64
    ∧ Codec.nesting (codecOf (.struct exNFields)) ≤ Gen.c_proto_maxDepth := by
  have he : erase (.struct exNFields) = .struct exMFields := by rw [erase_struct, exN_erase]
  refine ⟨?_, ?_, ?_, ?_, ?_⟩
  · simp only [tyOKM2, exN_safe, he, exM_ty, Bool.and_self]
  · simp only [hasTypeM2, he, exM_val]
  · simp only [valOKM2, he, exM_ok]
  · rw [← marshal_erase _ exN_safe, he]; exact exM_len
  · rw [← nesting_erase exN_safe, he]
    have : codecOf (.struct exMFields) = .struct (fieldsOf 1 exMFields) := by simp [codecOf]
    rw [this, exM_codec]; decide

/-- … so the round trip holds for it -/
example : ∃ v', unmarshal (.struct exNFields) (marshal (.struct exNFields) (.struct Lemmas.ProtoMap.Findings.exMVals)) = .ok v'
    ∧ canonical (.struct exNFields) v' = canonical (.struct exNFields) (.struct Lemmas.ProtoMap.Findings.exMVals) :=
  unmarshal_marshal_map_partial_named exNFields _ exN_hyps.1 exN_hyps.2.1 exN_hyps.2.2.1 exN_hyps.2.2.2.1 exN_hyps.2.2.2.2

/-- the model sees the defined types of the example nowhere: same bytes as for the plain type -/
example : marshal (.struct exNFields) (.struct Lemmas.ProtoMap.Findings.exMVals)
    = marshal (.struct Lemmas.ProtoMap.Findings.exMFields) (.struct Lemmas.ProtoMap.Findings.exMVals) := by
  rw [← marshal_erase _ exN_safe, erase_struct, exN_erase]

#print axioms struct_bytes_maps_named
#print axioms reference_decodes_marshal_maps_partial_named
#print axioms unmarshal_marshal_map_partial_named
#print axioms unmarshal_of_reference_decode_maps_partial_named
#print axioms unmarshal_iff_reference_decode_named
#print axioms decode_erase
#print axioms canonical_erase
#print axioms codecOf_erase

end Enc.Lemmas.ProtoNamed
