import Enc.Lemmas.ProtoTemplateNested
/-!
# Templates WITH rewriter rules: the table `parseMembers` builds, and the `BitOr` entry

`parseEntryR` = what `parseMembers` does with one member under the rule `findRule rules k`; `InvGR` = the table invariant
(`InvG` with rules); `parseEntryR_bitor`: under `BitOr[T]` the entry is `.bitOr T mask kind n`.
-/
namespace Enc.Lemmas.ProtoTemplate
open Enc Enc.Spec.Protobuf Enc.Lemmas.ProtoRewriteSpec
open Enc.Model.Proto (PKind RwT Rw TFields TType parseLeaf parseTemplate parseStruct parseMembers parseElems parseOne
  lookupFieldByName rewriteT rewrite gvString gvObj gvList gvInt findRule multiOfT insertEnt tableLen PF getRwT Rule Rules
  isIntKind)
open Enc.Model.Json (GV GMs ITy)

/-- what `parseMembers` does with ONE member under the rule found for its name -/
def parseEntryR (pf : PF) (fuel : Nat) (tt : TType) (n : Nat) (rep : Bool) (jv : GV) (rule : Option Rule) : Res RwT :=
  match (if rep then gvList jv else some [jv]) with
  | none => .err "json"
  | some fields => (parseElems pf fuel tt n rep fields rule).bind fun rws =>
      .ok (if rule.isNone && (rep || isMapT tt) then RwT.replacement (multiOfT rws) else multiOfT rws)

theorem parseEntryR_none (pf : PF) (fuel : Nat) (tt : TType) (n : Nat) (rep : Bool) (jv : GV) :
    parseEntryR pf fuel tt n rep jv none = parseEntry pf fuel tt n rep jv := by
  simp only [parseEntryR, parseEntry, Option.isNone_none, Bool.true_and]
  cases (if rep = true then gvList jv else some [jv]) <;> rfl

theorem parseMembers_consR (pf) (tfs : TFields) (k : Bytes) (v : GV) (rest : GMs) (fuel : Nat) (rules : List Rules) :
    parseMembers pf (fuel + 1) tfs (.cons k v rest) rules =
      match lookupFieldByName tfs k with
      | none => .err "invalidFieldName"
      | some (n, rep, tt) => (parseEntryR pf fuel tt n rep v (findRule rules k)).bind fun m =>
          (parseMembers pf fuel tfs rest rules).bind fun ents => .ok (insertEnt n m ents) := by
  simp only [parseMembers, parseEntryR]
  cases lookupFieldByName tfs k with
  | none => rfl
  | some p =>
    obtain ⟨n, rep, tt⟩ := p
    simp only
    cases (if rep = true then gvList v else some [v]) with
    | none => simp [Res.bind]
    | some fields =>
      simp only
      cases parseElems pf fuel tt n rep fields (findRule rules k) with
      | err e => simp [Res.bind]
      | panic e => simp [Res.bind]
      | ok rws =>
        cases tt <;> simp [Res.bind, isMapT]

structure InvGR (pf : PF) (tfs : TFields) (rules : List Rules) (ms : GMs) (ents : List (Nat × RwT)) : Prop where
  sorted : SortedE ents
  sound : ∀ n r, (n, r) ∈ ents → ∃ k jv rep tt f, GMem k jv ms ∧ lookupFieldByName tfs k = some (n, rep, tt) ∧
    parseEntryR pf f tt n rep jv (findRule rules k) = .ok r
  complete : ∀ k jv n rep tt, GMem k jv ms → lookupFieldByName tfs k = some (n, rep, tt) →
    ∃ r f, (n, r) ∈ ents ∧ parseEntryR pf f tt n rep jv (findRule rules k) = .ok r
  len : ents.length ≤ gmLen ms

theorem parseMembers_invGR (pf : PF) (tfs : TFields) (hinj : NamesInj tfs) (rules : List Rules) :
    ∀ (ms : GMs) (fuel : Nat) (ents : List (Nat × RwT)), KeysNodup ms → parseMembers pf fuel tfs ms rules = .ok ents →
      InvGR pf tfs rules ms ents
  | ms, 0, ents, _, h => by simp [parseMembers] at h
  | .nil, f + 1, ents, _, h => by
    simp only [parseMembers, Res.ok.injEq] at h
    subst h
    exact ⟨by simp [SortedE], fun n r hm => by simp at hm, fun k jv n rep tt hm => by simp [GMem] at hm, by simp⟩
  | .cons k jv rest, f + 1, ents, hnd, h => by
    rw [parseMembers_consR] at h
    cases hl : lookupFieldByName tfs k with
    | none => simp [hl] at h
    | some p =>
      obtain ⟨n, rep, tt⟩ := p
      simp only [hl] at h
      cases he : parseEntryR pf f tt n rep jv (findRule rules k) with
      | err e => simp [he, Res.bind] at h
      | panic e => simp [he, Res.bind] at h
      | ok m =>
        simp only [he, Res.bind] at h
        cases hr : parseMembers pf f tfs rest rules with
        | err e => simp [hr] at h
        | panic e => simp [hr] at h
        | ok ents' =>
          simp only [hr, Res.ok.injEq] at h
          subst h
          simp only [KeysNodup] at hnd
          have ih := parseMembers_invGR pf tfs hinj rules rest f ents' hnd.2 hr
          have hfresh : ∀ q, q ∈ ents' → q.1 ≠ n := by
            intro q hq hqn
            obtain ⟨k', jv', rep', tt', f', hm', hl', _⟩ := ih.sound q.1 q.2 hq
            rw [hqn] at hl'
            have := hinj k' k n _ _ _ _ hl' hl
            subst this
            exact hnd.1 jv' hm'
          refine ⟨sorted_insertEnt n m ents' ih.sorted, ?_, ?_, by
            have := length_insertEnt_le n m ents'; have := ih.len; simp only [gmLen]; omega⟩
          · intro n' r hm'
            rcases mem_insertEnt n m ents' (n', r) hm' with he' | he'
            · simp only [Prod.mk.injEq] at he'
              obtain ⟨rfl, rfl⟩ := he'
              exact ⟨k, jv, rep, tt, f, Or.inl ⟨rfl, rfl⟩, hl, he⟩
            · obtain ⟨k', jv', rep', tt', f', a, b, c⟩ := ih.sound n' r he'
              exact ⟨k', jv', rep', tt', f', Or.inr a, b, c⟩
          · intro k' jv' n' rep' tt' hm' hl'
            rcases hm' with ⟨rfl, rfl⟩ | hm'
            · rw [hl] at hl'
              simp only [Option.some.injEq, Prod.mk.injEq] at hl'
              obtain ⟨rfl, rfl, rfl⟩ := hl'
              exact ⟨m, f, mem_insertEnt_self n m ents' hfresh, he⟩
            · obtain ⟨r, f', a, b⟩ := ih.complete k' jv' n' rep' tt' hm' hl'
              exact ⟨r, f', mem_insertEnt_of_mem n m ents' _ a, b⟩

/-- **a `BitOr[T]` rule on a singular scalar field**: the member must be an integer of type `T`, the field an integer
kind; the entry is the `bitOrRW` with the member as mask -/
theorem parseEntryR_bitor (pf : PF) (f : Nat) (kind : PKind) (n : Nat) (jv : GV) (T : ITy) (r : RwT)
    (h : parseEntryR pf f (.prim kind) n false jv (some (.bitOr T)) = .ok r) :
    ∃ v, gvInt T jv = some v ∧ isIntKind kind = true ∧ r = .bitOr T (BitVec.ofInt 64 v) kind n := by
  simp only [parseEntryR, Bool.false_eq_true, if_false, Option.isNone_some, Bool.false_and] at h
  match f, h with
  | 0, h => simp [parseElems, Res.bind] at h
  | 1, h => simp [parseElems, parseOne, Res.bind] at h
  | f + 2, h =>
    simp only [parseElems, parseOne] at h
    cases hg : gvInt T jv with
    | none => simp [hg, Res.bind] at h
    | some v =>
      simp only [hg] at h
      by_cases hk : isIntKind kind = true
      · simp [hk, Res.bind, multiOfT] at h
        exact ⟨v, rfl, hk, h.symm⟩
      · simp [hk, Res.bind] at h

#print axioms parseMembers_invGR
#print axioms parseEntryR_bitor

end Enc.Lemmas.ProtoTemplate
