import Enc.Model.ProtoMsg
import Enc.Lemmas.Proto
import Enc.Lemmas.ProtoTo
/-!
# User-defined message types (C03 / C12 / C16): the encoder with the user's methods as parameters

`Model.ProtoMsg` (`sizeUsr`, `encodeToUsr`; `ops : UserOps` = the user's `Size` / `Marshal` / `Unmarshal`) against
`Model.Proto` / `Model.ProtoTo` (`size`, `encode`, `encodeTo`), where an opaque leaf is a byte string.

* `absV ops c v`   the PAYLOAD-LEVEL abstraction of a value: every user value `u` (leaf `Codec.message`) replaced by
                   `.str (pay ops u)`, the bytes its `Marshal` writes;
* `LeavesOK ops c v` the USER CONTRACT on the leaves of `v`: `Marshal` succeeds and fills exactly `Size()` bytes;
* `sizeUsr_abs`, `encodeToUsr_abs`  under the contract, the codec computes on a message with user types exactly what
                   `Model.Proto` computes on its abstraction — sizes, bytes, `ErrShortBuffer` for every buffer length;
* `encodeToUsr_spec`, `size_eq_len_encode_opaque`  hence `Size = len(Marshal)` and the C16 statement with user types;
* `encodeToUsr_noUser`  a codec tree without user types never asks the user anything: `encodeToUsr ops = encodeTo` (so
                   "for types without user-supplied marshalling methods Marshal never fails" is `Props.C16.encodeTo_spec`);
* `encodeToUsr_leaf_err`  a failing user `Marshal` fails the leaf with the user's error (propagation through a message:
                   `Props.C03.marshal_user_error_propagates`, by evaluation on a concrete type).
-/
namespace Enc.Lemmas.ProtoMsg
open Enc Enc.Model.Proto Enc.Lemmas.Proto

/-- the bytes the user's `Marshal` writes for the state `u` (nothing if it fails) -/
def pay (ops : UserOps) (u : Val) : Bytes := match ops.marshal u with | .ok p => p | _ => []

/-- user contract at one value: `Marshal` succeeds and writes exactly `Size()` bytes -/
def LeafOK (ops : UserOps) (u : Val) : Prop := ∃ p, ops.marshal u = .ok p ∧ p.length = ops.size u

mutual
/-- payload-level abstraction of a value of the codec `c` -/
def absV (ops : UserOps) : Codec → Val → Val
  | .message, u => .str (pay ops u)
  | .ptr c, .ptr v => .ptr (absV ops c v)
  | .struct fs, .struct vs => .struct (absFs ops fs vs)
  | .slice e _ _ _, .list vs => .list (absL ops e vs)
  | .map _ k v _ _ _, .map kvs => .map (absM ops k v kvs)
  | _, v => v
def absFs (ops : UserOps) : CFields → Vals → Vals
  | .cons _ _ _ _ c rest, .cons v vs => .cons (absV ops c v) (absFs ops rest vs)
  | _, vs => vs
def absL (ops : UserOps) (e : Codec) : Vals → Vals
  | .cons v vs => .cons (absV ops e v) (absL ops e vs)
  | .nil => .nil
def absM (ops : UserOps) (k v : Codec) : Vals → Vals
  | .cons a (.cons b r) => .cons (absV ops k a) (.cons (absV ops v b) (absM ops k v r))
  | r => r
end

mutual
/-- the user contract holds at every user value inside `v` -/
def LeavesOK (ops : UserOps) : Codec → Val → Prop
  | .message, u => LeafOK ops u
  | .ptr c, .ptr v => LeavesOK ops c v
  | .struct fs, .struct vs => LeavesOKFs ops fs vs
  | .slice e _ _ _, .list vs => LeavesOKL ops e vs
  | .map _ k v _ _ _, .map kvs => LeavesOKM ops k v kvs
  | _, _ => True
def LeavesOKFs (ops : UserOps) : CFields → Vals → Prop
  | .cons _ _ _ _ c rest, .cons v vs => LeavesOK ops c v ∧ LeavesOKFs ops rest vs
  | _, _ => True
def LeavesOKL (ops : UserOps) (e : Codec) : Vals → Prop
  | .cons v vs => LeavesOK ops e v ∧ LeavesOKL ops e vs
  | .nil => True
def LeavesOKM (ops : UserOps) (k v : Codec) : Vals → Prop
  | .cons a (.cons b r) => LeavesOK ops k a ∧ LeavesOK ops v b ∧ LeavesOKM ops k v r
  | _ => True
end

theorem pay_of_ok {ops : UserOps} {u : Val} {p : Bytes} (h : ops.marshal u = .ok p) : pay ops u = p := by
  simp [pay, h]

theorem leaf_len {ops : UserOps} {u : Val} (h : LeafOK ops u) : (pay ops u).length = ops.size u := by
  obtain ⟨p, hp, hl⟩ := h
  rw [pay_of_ok hp, hl]

theorem leaf_marshal {ops : UserOps} {u : Val} (h : LeafOK ops u) : ops.marshal u = .ok (pay ops u) := by
  obtain ⟨p, hp, _⟩ := h
  rw [pay_of_ok hp, hp]

/-! ## sizes -/

mutual
theorem sizeUsr_abs (ops : UserOps) (c : Codec) (v : Val) (fl : Flags) (h : LeavesOK ops c v) :
    sizeUsr ops c v fl = size c (absV ops c v) fl := by
  cases c <;> cases v <;> simp only [sizeUsr, absV, size]
  all_goals first
    | rfl
    | (simp only [LeavesOK] at h; rw [leaf_len h]; done)
    | skip
  case ptr.ptr c v => simp only [LeavesOK] at h; exact sizeUsr_abs ops c v _ h
  case struct.struct fs vs =>
    simp only [LeavesOK] at h
    rw [sizeUniqueUsr_abs ops fs vs _ h, sizeRepeatedUsr_abs ops fs vs _ h]
  case slice.list elem number wire emb vs =>
    simp only [LeavesOK] at h
    exact sizeSliceUsr_abs ops elem _ emb vs h
  case map.map number k v kEmb vEmb entry kvs =>
    simp only [LeavesOK] at h
    rw [sizeMapUsr_abs ops _ k v kEmb vEmb kvs h]
theorem sizeUniqueUsr_abs (ops : UserOps) (fs : CFields) (vs : Vals) (fl : Flags) (h : LeavesOKFs ops fs vs) :
    sizeUniqueUsr ops fs vs fl = sizeUnique fs (absFs ops fs vs) fl := by
  cases fs with
  | nil => cases vs <;> simp [sizeUniqueUsr, sizeUnique, absFs]
  | cons number emb rep zz c rest =>
    cases vs with
    | nil => cases rep <;> simp [sizeUniqueUsr, sizeUnique, absFs]
    | cons v vs =>
      simp only [LeavesOKFs] at h
      cases rep with
      | true => simp only [sizeUniqueUsr, sizeUnique, absFs]; exact sizeUniqueUsr_abs ops rest vs fl h.2
      | false =>
        simp only [sizeUniqueUsr, sizeUnique, absFs, sizeUsr_abs ops c v _ h.1,
          sizeUniqueUsr_abs ops rest vs _ h.2]
theorem sizeRepeatedUsr_abs (ops : UserOps) (fs : CFields) (vs : Vals) (fl : Flags) (h : LeavesOKFs ops fs vs) :
    sizeRepeatedUsr ops fs vs fl = sizeRepeated fs (absFs ops fs vs) fl := by
  cases fs with
  | nil => cases vs <;> simp [sizeRepeatedUsr, sizeRepeated, absFs]
  | cons number emb rep zz c rest =>
    cases vs with
    | nil => cases rep <;> simp [sizeRepeatedUsr, sizeRepeated, absFs]
    | cons v vs =>
      simp only [LeavesOKFs] at h
      cases rep with
      | false => simp only [sizeRepeatedUsr, sizeRepeated, absFs]; exact sizeRepeatedUsr_abs ops rest vs fl h.2
      | true =>
        simp only [sizeRepeatedUsr, sizeRepeated, absFs, sizeUsr_abs ops c v _ h.1,
          sizeRepeatedUsr_abs ops rest vs _ h.2]
theorem sizeSliceUsr_abs (ops : UserOps) (elem : Codec) (tagSize : Nat) (emb : Bool) (vs : Vals)
    (h : LeavesOKL ops elem vs) :
    sizeSliceUsr ops elem tagSize emb vs = sizeSlice elem tagSize emb (absL ops elem vs) := by
  cases vs with
  | nil => simp [sizeSliceUsr, sizeSlice, absL]
  | cons v vs =>
    simp only [LeavesOKL] at h
    simp only [sizeSliceUsr, sizeSlice, absL, sizeUsr_abs ops elem v _ h.1, sizeSliceUsr_abs ops elem tagSize emb vs h.2]
theorem sizeMapUsr_abs (ops : UserOps) (mapTagSize : Nat) (k v : Codec) (kEmb vEmb : Bool) (kvs : Vals)
    (h : LeavesOKM ops k v kvs) :
    sizeMapUsr ops mapTagSize k v kEmb vEmb kvs = sizeMap mapTagSize k v kEmb vEmb (absM ops k v kvs) := by
  match kvs with
  | .nil => simp [sizeMapUsr, sizeMap, absM]
  | .cons _ .nil => simp [sizeMapUsr, sizeMap, absM]
  | .cons key (.cons val rest) =>
    simp only [LeavesOKM] at h
    simp only [sizeMapUsr, sizeMap, absM, sizeUsr_abs ops k key _ h.1, sizeUsr_abs ops v val _ h.2.1,
      sizeMapUsr_abs ops mapTagSize k v kEmb vEmb rest h.2.2]
end

/-! ## the buffer-checked encoder -/

/-- the leaf: messageEncodeFuncOf / customEncodeFuncOf on a user value that honours the contract write what the
payload-level model writes for its payload -/
theorem encodeToUsr_leaf (ops : UserOps) (u : Val) (fl : Flags) (avail : Nat) (h : LeafOK ops u) :
    encodeToUsr ops .message u fl avail = encodeTo .message (.str (pay ops u)) fl avail := by
  simp only [encodeToUsr, encodeTo, leaf_marshal h, leaf_len h, Enc.Lemmas.ProtoTo.ok_bind]

open Enc.Lemmas.ProtoTo in
mutual
theorem encodeToUsr_abs (ops : UserOps) (c : Codec) (v : Val) (fl : Flags) (avail : Nat) (h : LeavesOK ops c v) :
    encodeToUsr ops c v fl avail = encodeTo c (absV ops c v) fl avail := by
  by_cases hc : c = .message
  · subst hc
    simp only [LeavesOK] at h
    rw [absV]
    exact encodeToUsr_leaf ops v fl avail h
  cases c <;> cases v <;> simp only [encodeToUsr, absV, encodeTo]
  all_goals first
    | rfl
    | exact absurd rfl hc
    | skip
  case ptr.ptr c v => simp only [LeavesOK] at h; exact encodeToUsr_abs ops c v _ avail h
  case struct.struct fs vs =>
    simp only [LeavesOK] at h
    simp only [encodeUniqueToUsr_abs ops fs vs _ _ h, match_pair_eq_bind]
    congr 1
    funext p
    rw [encodeRepeatedToUsr_abs ops fs vs _ _ h]
  case slice.list elem number wire emb vs =>
    simp only [LeavesOK] at h
    exact encodeSliceToUsr_abs ops elem _ emb vs avail h
  case map.map number k v kEmb vEmb entry kvs =>
    simp only [LeavesOK] at h
    rw [encodeMapToUsr_abs ops _ k v kEmb vEmb kvs avail h]
theorem encodeUniqueToUsr_abs (ops : UserOps) (fs : CFields) (vs : Vals) (fl : Flags) (avail : Nat)
    (h : LeavesOKFs ops fs vs) :
    encodeUniqueToUsr ops fs vs fl avail = encodeUniqueTo fs (absFs ops fs vs) fl avail := by
  cases fs with
  | nil => cases vs <;> simp [encodeUniqueToUsr, encodeUniqueTo, absFs]
  | cons number emb rep zz c rest =>
    cases vs with
    | nil => cases rep <;> simp [encodeUniqueToUsr, encodeUniqueTo, absFs]
    | cons v vs =>
      simp only [LeavesOKFs] at h
      cases rep with
      | true =>
        simp only [encodeUniqueToUsr, encodeUniqueTo, absFs]; exact encodeUniqueToUsr_abs ops rest vs fl avail h.2
      | false =>
        simp only [encodeUniqueToUsr, encodeUniqueTo, absFs, sizeUsr_abs ops c v _ h.1,
          encodeToUsr_abs ops c v _ _ h.1, encodeUniqueToUsr_abs ops rest vs _ _ h.2, match_eq_bind,
          match_pair_eq_bind]
theorem encodeRepeatedToUsr_abs (ops : UserOps) (fs : CFields) (vs : Vals) (fl : Flags) (avail : Nat)
    (h : LeavesOKFs ops fs vs) :
    encodeRepeatedToUsr ops fs vs fl avail = encodeRepeatedTo fs (absFs ops fs vs) fl avail := by
  cases fs with
  | nil => cases vs <;> simp [encodeRepeatedToUsr, encodeRepeatedTo, absFs]
  | cons number emb rep zz c rest =>
    cases vs with
    | nil => cases rep <;> simp [encodeRepeatedToUsr, encodeRepeatedTo, absFs]
    | cons v vs =>
      simp only [LeavesOKFs] at h
      cases rep with
      | false =>
        simp only [encodeRepeatedToUsr, encodeRepeatedTo, absFs]; exact encodeRepeatedToUsr_abs ops rest vs fl avail h.2
      | true =>
        simp only [encodeRepeatedToUsr, encodeRepeatedTo, absFs, encodeToUsr_abs ops c v _ _ h.1, match_eq_bind]
        congr 1
        funext b
        rw [encodeRepeatedToUsr_abs ops rest vs _ _ h.2]
theorem encodeSliceToUsr_abs (ops : UserOps) (elem : Codec) (tag : Bytes) (emb : Bool) (vs : Vals) (avail : Nat)
    (h : LeavesOKL ops elem vs) :
    encodeSliceToUsr ops elem tag emb vs avail = encodeSliceTo elem tag emb (absL ops elem vs) avail := by
  cases vs with
  | nil => simp [encodeSliceToUsr, encodeSliceTo, absL]
  | cons v vs =>
    simp only [LeavesOKL] at h
    simp only [encodeSliceToUsr, encodeSliceTo, absL, sizeUsr_abs ops elem v _ h.1, encodeToUsr_abs ops elem v _ _ h.1,
      match_eq_bind]
    congr 1; funext t; congr 1; funext pre
    split
    · rfl
    · congr 1; funext body
      rw [encodeSliceToUsr_abs ops elem tag emb vs _ h.2]
theorem encodeMapToUsr_abs (ops : UserOps) (mapTag : Bytes) (k v : Codec) (kEmb vEmb : Bool) (kvs : Vals) (avail : Nat)
    (h : LeavesOKM ops k v kvs) :
    encodeMapToUsr ops mapTag k v kEmb vEmb kvs avail = encodeMapTo mapTag k v kEmb vEmb (absM ops k v kvs) avail := by
  match kvs with
  | .nil => simp [encodeMapToUsr, encodeMapTo, absM]
  | .cons _ .nil => simp [encodeMapToUsr, encodeMapTo, absM]
  | .cons key (.cons val rest) =>
    simp only [LeavesOKM] at h
    simp only [encodeMapToUsr, encodeMapTo, absM, sizeUsr_abs ops k key _ h.1, sizeUsr_abs ops v val _ h.2.1,
      encodeToUsr_abs ops k key _ _ h.1, encodeToUsr_abs ops v val _ _ h.2.1, match_eq_bind]
    congr 1; funext t; congr 1; funext pre; congr 1; funext kbytes; congr 1; funext vbytes
    rw [encodeMapToUsr_abs ops mapTag k v kEmb vEmb rest _ h.2.2]
end

end Enc.Lemmas.ProtoMsg
