import Enc.Lemmas.ProtoRoundTrip
import Enc.Spec.Known
/-!
# C03: inputs OUTSIDE the hypotheses of `unmarshal_marshal_*` on which `unmarshalU ty (marshal ty v)` is NOT `v`

None of these is in a listed known class (`Known.protoClasses` is empty on all of them); each is excluded by
`tagAgree` / `tyOK` (so the theorems do not cover them).  Output format of `rt`:
`marshal bytes | unmarshalU result | original | canonical forms equal? | known classes`.

  R1  `rep` in the struct tag of a NON-slice field (`protobuf:"varint,1,rep"` on `int64`, `"bytes,1,rep"` on `string`,
      `[]byte`, a message, `*T`): `structCodecOf` sets the `repeated` flag, so the second encoder loop writes the bare
      payload WITHOUT tag (and without length for a message).  `Unmarshal(Marshal(v))` fails (`wireTypeUnknown`,
      `unexpectedEof`, `wireType`) or — when the payload happens to parse as records — silently stores the bytes of
      the string into other fields (last `#eval` of the R1 group: `N` becomes 7, `S` is lost).
      Go: structCodecOf `if t.repeated { field.flags |= repeated }` + second loop of structEncodeFuncOf.
      (Same root cause as F3 of `ProtoWireFindings`.)
  R2  two fields with the same number — explicitly, or a tagged field numbered `k` next to an UNtagged field at
      declaration position `k`: both are written under the same number, `fieldIndex[number]` keeps the last one, so
      the first field comes back zero and the last one holds the last record.
  (not findings) `req` tags, field number 0, zigzag on a message field: written in a non-standard way (C12 findings
      F2 F4 F5) but read back by the model's own decoder: the C03 round trip holds.  (sfixed tags on `int32/int64`,
      formerly C12 finding F1, are repaired and now inside the universe of the theorems.)
  (model note) kinds without codec (`int8 int16 uint8 uint16`, `[]uint16`, `interface{}` …): Go panics in `codecOf`
      ("unsupported type"), the model's `marshal` is pure and returns bytes; no round-trip claim is made for them.
-/
namespace Enc.Lemmas.ProtoRoundTrip.Findings
open Enc Enc.Model.Proto

def rt (t : Ty) (v : Val) : String :=
  let b := marshal t v
  let r := unmarshalU t b
  let okc := match r with
    | .ok v' => (Spec.Protobuf.canonical t v').show == (Spec.Protobuf.canonical t v).show
    | _ => false
  s!"{toHex b} | {r.show Val.show} | orig {v.show} | canonEq {okc} | known {Known.protoClasses t v}"
def st (l : List (String × Ty)) : Ty :=
  .struct (l.foldr (fun (p : String × Ty) acc => Fields.cons "F" p.1 false p.2 acc) .nil)
def sv (l : List Val) : Val := .struct (Vals.ofList l)

-- R1  "03 | err:wireTypeUnknown | orig t 1 i 3 | canonEq false | known []"
#eval rt (st [("protobuf:\"varint,1,rep\"", .int .i64)]) (sv [.int 3])
--     "020801 | err:unexpectedEof | …"
#eval rt (st [("protobuf:\"bytes,1,rep\"", .bytes)]) (sv [.str [8, 1]])
--     "05 | err:unexpectedEof | …"
#eval rt (st [("protobuf:\"varint,1,rep\"", .ptr (.int .i64))]) (sv [.ptr (.int 5)])
--     "0805 | err:wireType | …"        (message body without tag and length)
#eval rt (st [("protobuf:\"bytes,1,rep\"", .struct (.cons "X" "" false (.int .i64) .nil))]) (sv [sv [.int 5]])
--     silent corruption: "… | ok:t 2 s - i 7 | orig t 2 s 071a0100… i 0 | canonEq false | known []"
#eval rt (st [("protobuf:\"bytes,1,rep\"", .str), ("", .int .i32)])
  (sv [.str [7, 0x1a, 1, 0, 0x18, 0, 0x18, 0, 0x18, 0, 0x18, 0, 0x18, 0, 0x18, 0], .int 0])
-- R2  "08010802 | ok:t 2 i 0 i 2 | orig t 2 i 1 i 2 | canonEq false | known []"
#eval rt (st [("protobuf:\"varint,1,opt\"", .int .i64), ("protobuf:\"varint,1,opt\"", .int .i64)]) (sv [.int 1, .int 2])
--     "10011002 | ok:t 2 i 0 i 2 | …"   (tagged 2 + untagged at position 2)
#eval rt (st [("protobuf:\"varint,2,opt\"", .int .i64), ("", .int .i64)]) (sv [.int 1, .int 2])
-- not findings for C03 (all `canonEq true`)
#eval rt (st [("protobuf:\"fixed32,1,opt\"", .int .i32)]) (sv [.int 5])
#eval rt (st [("protobuf:\"varint,7,req\"", .int .i64)]) (sv [.int 5])
#eval rt (st [("protobuf:\"varint,0,opt\"", .int .i64), ("", .str)]) (sv [.int 5, .str [1]])
#eval rt (st [("protobuf:\"zigzag64,1,opt\"", .struct (.cons "X" "" false (.int .i64) .nil))]) (sv [sv [.int (-1)]])
-- shapes outside `tyOK` that were probed and round-trip (up to `canonical`): byte arrays, `*[]byte`, `**T`, named
-- types, RawMessage, non-empty maps, `[][]byte`
#eval rt (st [("", .arr 3 (.int .u8)), ("", .bool)]) (sv [.str [0, 0, 0], .bool true])
#eval rt (st [("", .ptr .bytes)]) (sv [.ptr .nil])
#eval rt (st [("", .ptr (.ptr (.int .i32)))]) (sv [.ptr (.ptr (.int 0))])
#eval rt (st [("", .named "MyInt" (.int .i64))]) (sv [.int (-7)])
#eval rt (st [("", .named "RawMessage" .bytes)]) (sv [.str [8, 1]])
#eval rt (st [("", .map .str (.int .i32))]) (sv [.map (Vals.ofList [.str [97], .int 0, .str [], .int 5])])
#eval rt (st [("", .slice .bytes)]) (sv [.list (Vals.ofList [.str [], .nil, .str [1]])])

-- the hypotheses exclude R1 / R2:  (false, false)
#eval (Lemmas.ProtoWire.tyOK (st [("protobuf:\"varint,1,rep\"", .int .i64)]),
       Lemmas.ProtoWire.tyOK (st [("protobuf:\"varint,2,opt\"", .int .i64), ("", .int .i64)]))

end Enc.Lemmas.ProtoRoundTrip.Findings
