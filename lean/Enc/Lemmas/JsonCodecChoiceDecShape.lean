import Enc.Lemmas.JsonCodecChoiceDecEvo
import Enc.Lemmas.JsonCodecChoiceDecEmb
import Enc.Spec.Json.DecDeviation
/-!
# `chooseDec_eq_std` for every type: struct types, embedding, the `string` option, recursion through `seen`

Part 1 (this file): the local facts — shapes of construction results, the unmarshaler switch at a position, the `string`
option (decode side: `quoted` / `quotedInt` around the complete decoder of the field type, a leaf of the tree).
-/
set_option linter.unusedSimpArgs false
set_option linter.unusedVariables false
namespace Enc.Lemmas.JsonCodecChoiceDecShape
open Enc.Model.Json.CodecChoice Enc.Spec.Json.StdCodecChoiceDec Enc.Spec.Json.EmbedCycle Enc.Spec.Json.DecDeviation
open Enc.Lemmas.JsonCodecChoiceDecSeen Enc.Lemmas.JsonCodecChoiceDecStd Enc.Lemmas.JsonCodecChoiceDecEvo
open Enc.Lemmas.JsonCodecChoiceDecEmb
open Enc.Lemmas.JsonCodecChoiceTerm (under_ref_not_special under_ref_ne under_cases)

theorem normDL_append : ∀ (a b : DL), normDL (a.append b) = (normDL a).append (normDL b)
  | .nil, b => by simp [DL.append, normDL]
  | .cons n t c r, b => by simp [DL.append, normDL, normDL_append r b]

theorem mapChoice_append (g : DChoice → DChoice) : ∀ (a b : DL), (a.append b).mapChoice g = (a.mapChoice g).append (b.mapChoice g)
  | .nil, b => by simp [DL.append, DL.mapChoice]
  | .cons n t c r, b => by simp [DL.append, DL.mapChoice, mapChoice_append g r b]

theorem normDL_embed : ∀ (a : DL), normDL (a.mapChoice .embedPtr) = (normDL a).mapChoice .embedPtr
  | .nil => by simp [DL.mapChoice, normDL]
  | .cons n t c r => by simp [DL.mapChoice, normDL, normD, normDL_embed r]

theorem mapChoice_underEmbed_embed (g : DChoice → DChoice) : ∀ (a : DL),
    (a.mapChoice .embedPtr).mapChoice (underEmbedD g) = (a.mapChoice (underEmbedD g)).mapChoice .embedPtr
  | .nil => by simp [DL.mapChoice]
  | .cons n t c r => by simp [DL.mapChoice, underEmbedD, mapChoice_underEmbed_embed g r]

def plainD : DChoice → Bool
  | .embedPtr _ | .quoted _ | .quotedInt _ | .special _ | .cut | .keyInt => false
  | _ => true

theorem normD_plain (c : DChoice) (h : plainD c = true) : plainD (normD c) = true := by
  cases c <;> simp [plainD] at h <;> simp [normD, plainD]

theorem underEmbedD_ne (g : DChoice → DChoice) (c : DChoice) (h : ∀ x, c ≠ .embedPtr x) : underEmbedD g c = g c := by
  cases c <;> first | rfl | exact absurd rfl (h _)

theorem kind_plain (codec : DCodecFn) (strct : DStructFn) (env : Env) (t u : TD) (a : Bool) (s s1 : DSeen) (c1 : DChoice)
    (h : kindDecF codec strct env t u a s = some (c1, s1)) : plainD c1 = true := by
  unfold kindDecF at h
  split at h
  · simp at h; rw [← h.1]; rfl
  · simp at h; rw [← h.1]; rfl
  · simp at h; rw [← h.1]; rfl
  · simp at h; rw [← h.1]; rfl
  · simp at h; rw [← h.1]; rfl
  · rename_i n e
    cases h1 : codec e a s with
    | none => simp [h1] at h
    | some r => obtain ⟨x, y⟩ := r; simp [h1] at h; rw [← h.1]; rfl
  · rename_i e
    split at h
    · simp at h; rw [← h.1]; unfold byteSliceDec; (repeat' split) <;> rfl
    · cases h1 : codec e true s with
      | none => simp [h1] at h
      | some r => obtain ⟨x, y⟩ := r; simp [h1] at h; rw [← h.1]; rfl
  · rename_i k v
    split at h
    · simp at h; rw [← h.1]; rfl
    · cases h1 : codec v false s with
      | none => simp [h1] at h
      | some r =>
        obtain ⟨x, y⟩ := r; simp only [h1] at h
        cases h2 : mapKeyDec env k with
        | none => simp [h2] at h; rw [← h.1]; rfl
        | some kc => simp [h2] at h; rw [← h.1]; rfl
  · cases h1 : strct t a none s with
    | none => simp [h1] at h
    | some r => obtain ⟨x, y⟩ := r; simp [h1] at h; rw [← h.1]; cases x <;> rfl
  · rename_i e
    cases h1 : codec e true s with
    | none => simp [h1] at h
    | some r => obtain ⟨x, y⟩ := r; simp [h1] at h; rw [← h.1]; rfl
  · simp at h; rw [← h.1]; rfl

theorem override_plain (env : Env) (t : TD) (c : DChoice) (h : plainD c = true) :
    plainD (unmarshalerOverride env t c) = true := by
  unfold unmarshalerOverride; (repeat' split) <;> first | rfl | exact h

theorem codec_plain (env : Env) (f : Nat) (t : TD) (a : Bool) (s s' : DSeen) (c : DChoice)
    (h : codecDecF f env t a s = some (c, s')) :
    (plainD c = true ∧ ∀ sp, t ≠ .special sp) ∨ ∃ sp, t = .special sp ∧ c = .special sp := by
  cases f with
  | zero => simp [codecDecF] at h
  | succ f =>
    rw [codecDecF] at h
    cases hfs : firstSwitchD t with
    | some c0 =>
      simp [hfs] at h
      rw [← h.1]
      unfold firstSwitchD at hfs
      split at hfs <;> simp at hfs <;> subst hfs <;>
        first | (left; exact ⟨rfl, by intro sp hsp; cases hsp⟩) | (right; exact ⟨_, rfl, rfl⟩)
    | none =>
      left
      refine ⟨?_, by intro sp hsp; subst hsp; simp [firstSwitchD] at hfs⟩
      simp only [hfs] at h
      split at h
      · simp at h; rw [← h.1]; rfl
      · rename_i hcond
        generalize hsin : (if (isRef t && isComposite (under env t)) = true then s.set (t, false) (DEntry.building (t, false)) else s) = sin at h
        cases hk : kindDecF (codecDecF f env) (structDecF f env) env t (under env t) a sin with
        | none => simp [hk] at h
        | some r =>
          obtain ⟨c1, s1⟩ := r
          simp [hk] at h
          rw [← h.1]
          exact override_plain env t c1 (kind_plain _ _ env t _ a _ s1 c1 hk)

theorem codec_not_embed (env : Env) (f : Nat) (t : TD) (a : Bool) (s s' : DSeen) (c : DChoice)
    (h : codecDecF f env t a s = some (c, s')) : ∀ x, normD c ≠ .embedPtr x := by
  rcases codec_plain env f t a s s' c h with ⟨hp, _⟩ | ⟨sp, _, rfl⟩
  · have := normD_plain c hp
    intro x hx; rw [hx] at this; simp [plainD] at this
  · intro x hx; simp [normD] at hx

/-! ## the unmarshaler switch at a position -/

theorem promotedUnm_false (env : Env) (t : TD) (h : promotedUnm env t = false) (fs : FL) (ht : t = .struct fs) :
    implPtrU env .uj t = false ∧ implPtrU env .ut t = false := by
  subst ht
  simpa [promotedUnm] using h

/-- `unmarshaler_order_eq_std` at a position that is not one of the recorded differences -/
theorem override_eq_std_pos (env : Env) (t : TD) (v : Bool) (c : DChoice) (ho : isOpaqueD t = false)
    (hp : posOK env t v = true) : unmarshalerOverride env t c = (stdUnm env t v).getD c := by
  by_cases hs : ∃ fs, t = .struct fs
  · obtain ⟨fs, rfl⟩ := hs
    cases v with
    | true => exact unmarshaler_order_eq_std env _ true c ho (Or.inl rfl)
    | false =>
      have hpf : promotedUnm env (.struct fs) = false := by simpa [posOK] using hp
      obtain ⟨h1, h2⟩ := promotedUnm_false env _ hpf fs rfl
      simp [unmarshalerOverride, stdUnm, h1, h2, isRef, isOpaqueD]
  · exact unmarshaler_order_eq_std env t v c ho (Or.inr fun fs hfs => hs ⟨fs, hfs⟩)

theorem posOK_not_struct (env : Env) (t : TD) (v : Bool) (h : ∀ fs, t ≠ .struct fs) : posOK env t v = true := by
  cases t <;> simp [posOK, promotedUnm]
  exact absurd rfl (h _)

/-! ## the `string` option -/

theorem under_scalar_cases (env : Env) (t : TD) (h : isScalarKind (under env t) = true) :
    t = .special .duration ∨ t = .special .number ∨
      ∃ k, under env t = .prim k ∧ k ≠ .chan ∧ k ≠ .complex ∧ firstSwitchD t = none := by
  cases t with
  | special s => cases s <;> simp [under, isScalarKind, isIntKind, isStringKind] at h <;> simp
  | prim k =>
    right; right
    refine ⟨k, by simp [under], ?_, ?_, by simp [firstSwitchD]⟩ <;>
      (intro e; subst e; simp [under, isScalarKind, isIntKind, isStringKind] at h)
  | ref id =>
    right; right
    cases hu : under env (.ref id) <;> simp [hu, isScalarKind, isIntKind, isStringKind] at h
    · rename_i k
      refine ⟨k, rfl, ?_, ?_, by simp [firstSwitchD]⟩ <;> (intro e; subst e; simp at h)
    · exact absurd hu (under_ref_not_special env id _)
  | _ => simp [under, isScalarKind, isIntKind, isStringKind] at h

theorem not_struct_of_under_prim (env : Env) (t : TD) (k : Kind) (hu : under env t = .prim k) : ∀ fs, t ≠ .struct fs := by
  intro fs h; subst h; simp [under] at hu

/-- the construction for a type of a scalar kind: no `seen`; the decoder is the complete decoder of the scalar, whichever
way the value is reached -/
theorem scalarCodec (env : Env) (f : Nat) (t : TD) (a : Bool) (s s' : DSeen) (c : DChoice)
    (hsc : isScalarKind (under env t) = true) (h : codecDecF f env t a s = some (c, s')) (v : Bool) :
    s' = s ∧ normD c = stdScalarLeaf env t v := by
  cases f with
  | zero => simp [codecDecF] at h
  | succ f =>
    rw [codecDecF] at h
    rcases under_scalar_cases env t hsc with rfl | rfl | ⟨k, hu, hc1, hc2, hfs⟩
    · simp [firstSwitchD] at h
      refine ⟨h.2.symm, ?_⟩
      rw [← h.1]; simp [normD, stdScalarLeaf, isOpaqueD, opaqueD]
    · simp [firstSwitchD] at h
      refine ⟨h.2.symm, ?_⟩
      rw [← h.1]; simp [normD, stdScalarLeaf, isOpaqueD, opaqueD]
    · simp only [hfs, hu] at h
      have hn : (isRef t && isComposite (TD.prim k)) = false := by simp [isComposite]
      simp only [hn, Bool.false_and, Bool.false_eq_true, if_false] at h
      have hk : kindDecF (codecDecF f env) (structDecF f env) env t (.prim k) a s = some (.prim k, s) := by
        unfold kindDecF
        cases k <;> simp at hc1 hc2 <;> rfl
      simp only [hk] at h
      simp at h
      have ho := prim_not_opaque env t k hu
      refine ⟨h.2.symm, ?_⟩
      · rw [← h.1, unmarshaler_order_eq_std env t v _ ho (Or.inr (not_struct_of_under_prim env t k hu))]
        unfold stdScalarLeaf
        simp only [ho, Bool.false_eq_true, if_false, hu]
        cases hm : stdUnm env t v with
        | none => simp [normD]
        | some m => rcases stdUnm_leaf env t v m hm with rfl | rfl <;> simp [normD]

theorem implPtrU_ptr (env : Env) (m : Meth) (e : TD) : implPtrU env m (.ptr e) = false := by
  simp [implPtrU, implPtr, under, isPtrKind]

/-- the construction for an unnamed pointer type -/
theorem ptrCodec_shape (env : Env) (f : Nat) (e : TD) (a : Bool) (s s' : DSeen) (c : DChoice)
    (h : codecDecF f env (.ptr e) a s = some (c, s')) :
    (∃ sp, e = .special sp ∧ c = .ptr (.special sp) ∧ s' = s) ∨
    (∃ f' ce, f = f' + 1 ∧ (∀ sp, e ≠ .special sp) ∧ codecDecF f' env e true s = some (ce, s') ∧ c = .ptr ce) := by
  cases f with
  | zero => simp [codecDecF] at h
  | succ f =>
    rw [codecDecF] at h
    cases hfs : firstSwitchD (.ptr e) with
    | some c0 =>
      left
      simp [hfs] at h
      unfold firstSwitchD at hfs
      split at hfs <;> simp at hfs
      all_goals (rename_i heq; cases heq)
      exact ⟨_, rfl, by rw [← h.1, ← hfs], h.2.symm⟩
    | none =>
      right
      have hne : ∀ sp, e ≠ .special sp := not_special_of_firstSwitchD_ptr e hfs
      simp only [hfs] at h
      have hn : (isRef (.ptr e) && isComposite (under env (.ptr e))) = false := by simp [isRef]
      simp only [hn, Bool.false_and, Bool.false_eq_true, if_false] at h
      have hu : under env (.ptr e) = .ptr e := by simp [under]
      rw [hu] at h
      simp only [kindDecF] at h
      cases hc : codecDecF f env e true s with
      | none => simp [hc] at h
      | some r =>
        obtain ⟨ce, s1⟩ := r
        simp [hc] at h
        refine ⟨f, ce, rfl, hne, by rw [hc, h.2], ?_⟩
        rw [← h.1]
        simp [unmarshalerOverride, implPtrU_ptr]

theorem peel_ne (ft : TD) (h : (peel ft != ft) = true) : ∃ e, ft = .ptr e := by
  cases ft <;> simp [peel] at h
  exact ⟨_, rfl⟩

theorem isInt_isScalar (u : TD) (h : isIntKind u = true) : isScalarKind u = true := by
  simp [isScalarKind, h]

/-- the complete decoder of a field with the `string` option whose type (one unnamed pointer removed) is of a scalar kind -/
theorem quotedInner_sem (env : Env) (f : Nat) (a : Bool) (ft : TD) (c : DChoice) (s0 s1 : DSeen)
    (hc : codecDecF f env ft a s0 = some (c, s1)) (hq : isScalarKind (under env (peel ft)) = true) :
    normD c = stdQuotedInner env ft := by
  by_cases hpe : (peel ft != ft) = true
  · obtain ⟨typ, rfl⟩ := peel_ne ft hpe
    have hpeel : peel (.ptr typ) = typ := rfl
    rw [hpeel] at hq
    rcases ptrCodec_shape env f typ a s0 s1 c hc with ⟨sp, rfl, rfl, _⟩ | ⟨f1, ce, _, hne, hce, rfl⟩
    · simp [normD, stdQuotedInner]
    · obtain ⟨_, hn⟩ := scalarCodec env f1 typ true s0 s1 ce hq hce true
      simp only [normD, hn]
      cases typ <;> first | rfl | exact absurd rfl (hne _)
  · have hpeel : peel ft = ft := by simpa using hpe
    rw [hpeel] at hq
    obtain ⟨_, hn⟩ := scalarCodec env f ft a s0 s1 c hq hc false
    rw [hn]
    cases ft with
    | ptr e => simp [under, isScalarKind, isIntKind, isStringKind] at hq
    | _ => rfl

theorem expandDN_quoted (env : Env) (T : DSeen) (d : Nat) (x : DChoice) :
    expandDN d env T (.quoted x) = qAt d x := by
  cases d <;> simp [expandDN, resolveD, qAt]

/-- the `stringify` block: what the field's decoder means -/
theorem stringify_sem (env : Env) (f : Nat) (a : Bool) (ft : TD) (c c' : DChoice) (s0 s1 s2 : DSeen) (d : Nat) (T : DSeen)
    (hc : codecDecF f env ft a s0 = some (c, s1))
    (h : stringifyDecF (codecDecF f env) env a ft c s1 = some (c', s2))
    (E : expandDN d env T (normD c) = stdDecD d env ft false) :
    underEmbedD (expandDN d env T) (normD c') =
      if isScalarKind (under env (peel ft)) then qAt d (stdQuotedInner env ft)
      else stdDecD d env ft false := by
  have hplain := codec_not_embed env f ft a s0 s1 c hc
  have hc' : c' = (if isIntKind (under env (peel ft)) = true then DChoice.quotedInt c
      else if isScalarKind (under env (peel ft)) = true then .quoted c else c) := by
    unfold stringifyDecF at h
    simp only at h
    split at h
    · cases hcd : codecDecF f env ft a s1 with
      | none => simp [hcd] at h
      | some r => obtain ⟨p, s3⟩ := r; simp [hcd] at h; exact h.1.symm
    · simp at h; exact h.1.symm
  by_cases hq : isScalarKind (under env (peel ft)) = true
  · simp only [hq, if_true]
    have hn : normD c' = .quoted (normD c) := by
      rw [hc']
      by_cases hi : isIntKind (under env (peel ft)) = true
      · simp [hi, normD]
      · simp [hi, hq, normD]
    rw [hn, underEmbedD_ne _ _ (by intro x hx; cases hx), expandDN_quoted, quotedInner_sem env f a ft c s0 s1 hc hq]
  · have hq' : isScalarKind (under env (peel ft)) = false := by simpa using hq
    have hi : isIntKind (under env (peel ft)) = false := by
      cases hi : isIntKind (under env (peel ft))
      · rfl
      · rw [isInt_isScalar _ hi] at hq'; cases hq'
    simp only [hq', hi, Bool.false_eq_true, if_false] at hc' ⊢
    rw [hc', underEmbedD_ne _ _ hplain, E]

theorem stringify_state (codec : DCodecFn) (env : Env) (a : Bool) (ft : TD) (c c' : DChoice) (s s' : DSeen)
    (h : stringifyDecF codec env a ft c s = some (c', s')) : s' = s ∨ ∃ p, codec ft a s = some (p, s') := by
  unfold stringifyDecF at h
  simp only at h
  split at h
  · cases hcd : codec ft a s with
    | none => simp [hcd] at h
    | some r =>
      obtain ⟨p, s1⟩ := r
      simp [hcd] at h
      exact .inr ⟨p, by rw [h.2]⟩
  · simp at h; exact .inl h.2.symm

end Enc.Lemmas.JsonCodecChoiceDecShape
