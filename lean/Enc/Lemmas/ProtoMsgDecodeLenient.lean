import Enc.Lemmas.ProtoMsgDecodeConc
/-!
# D2: with lenient user types the decoder is the payload-level decoder followed by the user's `Unmarshal` on each leaf
-/
namespace Enc.Lemmas.ProtoMsgDecode
open Enc Enc.Model.Proto
open Enc.Lemmas.ProtoAlloc (nth lookupField_nth)

mutual
theorem decodeUsr_lenient {ops : UserOps} (L : Lenient ops) : ∀ (fuel d : Nat) (c : Codec) (b : Bytes) (cur : Val) (fl : Flags), keysPlain c = true →
    decodeUsr ops fuel d c b (concV ops c cur) fl
      = (decode fuel d c b cur fl).bind fun r => .ok (concV ops c r.1, r.2)
  | 0, _, _, _, _, _, _ => by simp only [decodeUsr, decode, err_bind]
  | fuel + 1, d, c, b, cur, fl, hk => by
    cases c with
    | message =>
      simp only [decodeUsr, decode, L.unmarshal_eq, ok_bind]
      split
      · simp only [ok_bind, concV]
      · rw [bind_assoc]; apply bind_congr; intro a _; simp only [ok_bind, concV]
    | ptr c' =>
      have hk' : keysPlain c' = true := by simpa only [keysPlain] using hk
      have hz := decodeUsr_lenient L fuel d c' b (zeroOfCodec c') fl hk'
      rw [concV_zero] at hz
      cases cur with
      | ptr v =>
        simp only [concV, decodeUsr, decode, decodeUsr_lenient L fuel d c' b v fl hk', bind_assoc, ok_bind]
      | _ =>
        simp only [concV, decodeUsr, decode, hz, bind_assoc, ok_bind]
    | struct fs =>
      have hk' : keysPlainF fs = true := by simpa only [keysPlain] using hk
      cases cur with
      | struct vs =>
        simp only [concV, decodeUsr, decode]
        split
        · rfl
        · simp only [decodeStructUsr_lenient L fuel (d + 1) fs b b.length vs _ 0 hk', bind_assoc, ok_bind]
          simp only [concV]
      | _ =>
        simp only [concV, decodeUsr, decode]
        split <;> rfl
    | slice elem number wire emb =>
      have hk' : keysPlain elem = true := by simpa only [keysPlain] using hk
      have hz := decodeUsr_lenient L fuel d elem b (zeroOfCodec elem) {} hk'
      rw [concV_zero] at hz
      cases cur with
      | list vs =>
        simp only [concV, decodeUsr, decode, hz, bind_assoc, ok_bind]
        cases decode fuel d elem b (zeroOfCodec elem) {} with
        | ok r => simp only [ok_bind, concV, concL_snoc]
        | err e => rfl
        | panic e => rfl
      | _ =>
        simp only [concV, decodeUsr, decode, hz, bind_assoc, ok_bind]
        cases decode fuel d elem b (zeroOfCodec elem) {} with
        | ok r => simp only [ok_bind, concV, concL, Vals.toList, List.nil_append, Vals.ofList]
        | err e => rfl
        | panic e => rfl
    | map number k v kEmb vEmb entry =>
      simp only [keysPlain, Bool.and_eq_true] at hk
      obtain ⟨⟨hs, hkn⟩, hke⟩ := hk
      cases entry with
      | struct efs =>
        have hz := decodeUsr_lenient L fuel d (.struct efs) b (zeroOfCodec (.struct efs)) {} hke
        rw [concV_zero] at hz
        have hcm : curMap (concV ops (.map number k v kEmb vEmb (.struct efs)) cur)
            = concM ops (entryKey (.struct efs)) (entryVal (.struct efs)) (curMap cur) := by
          cases cur <;> simp only [concV, curMap, concM]
        rw [decodeUsr_map, decode_map, hcm, hz]
        split
        · cases cur <;> simp only [ok_bind, concV, curMap, concM]
        · rw [bind_assoc, bind_assoc]
          apply bind_congr; intro r _
          rw [ok_bind]
          exact entryAssign_conc ops number k v kEmb vEmb efs hkn (curMap cur) r.1 r.2
      | _ => simp [isStructC] at hs
    | _ => simp only [decodeUsr, concV, bind_ok_pair]
theorem decodeStructUsr_lenient {ops : UserOps} (L : Lenient ops) : ∀ (fuel d : Nat) (fs : CFields) (b : Bytes) (lenB : Nat) (vs : Vals) (fl : Flags) (off : Nat),
    keysPlainF fs = true →
    decodeStructUsr ops fuel d fs b lenB (concF ops fs vs) fl off
      = (decodeStruct fuel d fs b lenB vs fl off).bind fun r => .ok (concF ops fs r.1, r.2)
  | 0, _, _, _, _, _, _, _, _ => by simp only [decodeStructUsr, decodeStruct, err_bind]
  | fuel + 1, d, fs, b, lenB, vs, fl, off, hk => by
    simp only [decodeStructUsr, decodeStruct]
    split
    · rfl
    · cases hdv : decodeVarint b with
      | err e => rfl
      | panic e => rfl
      | ok r =>
        obtain ⟨tag, n⟩ := r
        simp only [ok_bind]
        cases hl : lookupField fs (tag >>> 3).toNat with
        | none =>
          simp only []
          rw [bind_assoc]; apply bind_congr; intro skip _
          exact decodeStructUsr_lenient L fuel d fs _ lenB vs fl _ hk
        | some r =>
          obtain ⟨i, emb, zz, c⟩ := r
          have hn := lookupField_nth fs _ i emb zz c hl
          have hkc := keysPlain_nth fs i c hk hn
          simp only []
          split
          · rfl
          · rw [bind_assoc]; apply bind_congr; intro dp _
            obtain ⟨data, pre⟩ := dp
            simp only []
            rw [get_concF ops fs vs i c hn, decodeUsr_lenient L fuel d c data _ _ hkc, bind_assoc, bind_assoc]
            apply bind_congr; intro vm _
            obtain ⟨v, m⟩ := vm
            simp only [ok_bind]
            rw [set_concF ops fs vs i c v hn]
            exact decodeStructUsr_lenient L fuel d fs _ lenB _ fl _ hk
end

/-! ## the zero value of a type holds no payload -/
section Zero
variable (ops : UserOps)

def isPlainLeaf : Codec → Bool
  | .message | .ptr _ | .struct _ | .slice .. | .map .. => false
  | _ => true

theorem concV_leaf (c : Codec) (h : isPlainLeaf c = true) (v : Val) : concV ops c v = v :=
  concV_noMsg ops v c (by cases c <;> first | rfl | simp [isPlainLeaf] at h)

theorem concV_wrapPtrs : ∀ (t : Ty) (c : Codec), isPlainLeaf c = true → concV ops (wrapPtrs t c) (zeroOf t) = zeroOf t
  | .ptr t, c, _ => by simp only [zeroOf, concV_nil]
  | .named s t, c, h => by
    by_cases hs : s = "RawMessage"
    · subst hs; simp only [zeroOf, concV_nil]
    · have := concV_wrapPtrs t c h
      simp only [wrapPtrs]
      rw [show zeroOf (.named s t) = zeroOf t by simp only [zeroOf]]
      exact this
  | .bool, c, h | .int _, c, h | .f32, c, h | .f64, c, h | .str, c, h | .bytes, c, h | .any, c, h
  | .arr _ _, c, h | .slice _, c, h | .map _ _, c, h | .struct _, c, h => by
    simp only [wrapPtrs]; exact concV_leaf ops c h _

theorem leaf_arr (n : Nat) (t : Ty) : isPlainLeaf (codecOf (.arr n t)) = true := by
  cases t <;> try (simp only [codecOf, isPlainLeaf]; done)
  case int k => cases k <;> simp only [codecOf, isPlainLeaf]

theorem leaf_slice (t : Ty) : isPlainLeaf (codecOf (.slice t)) = true := by
  cases t <;> try (simp only [codecOf, isPlainLeaf]; done)
  case int k => cases k <;> simp only [codecOf, isPlainLeaf]

mutual
theorem concV_zeroOf : ∀ t : Ty, concV ops (codecOf t) (zeroOf t) = zeroOf t
  | .bool | .f32 | .f64 | .str | .bytes | .any => by simp only [codecOf, zeroOf, concV]
  | .int k => by cases k <;> simp only [codecOf, zeroOf, concV]
  | .arr n t => concV_leaf ops _ (leaf_arr n t) _
  | .slice t => concV_leaf ops _ (leaf_slice t) _
  | .map _ _ => by simp only [codecOf, zeroOf, concV]
  | .ptr t => by simp only [zeroOf, concV_nil]
  | .struct fs => by simp only [codecOf, zeroOf, concV, concF_zeroFields fs 1]
  | .named s t => by
    by_cases hs : s = "RawMessage"
    · subst hs; simp only [zeroOf, concV_nil]
    · have := concV_zeroOf t
      rw [show zeroOf (.named s t) = zeroOf t by simp only [zeroOf],
          show codecOf (.named s t) = codecOf t by simp only [codecOf]]
      exact this
theorem concV_fieldZero : ∀ (t : Ty) (num : Nat), concV ops (fieldCodecOf num t).2.2 (zeroOf t) = zeroOf t
  | .slice t, num => by simp only [zeroOf, concV_nil]
  | .map k v, num => by simp only [zeroOf, concV_nil]
  | .bool, num => by simp only [fieldCodecOf]; exact concV_zeroOf _
  | .int k, num => by simp only [fieldCodecOf]; exact concV_zeroOf _
  | .f32, num => by simp only [fieldCodecOf]; exact concV_zeroOf _
  | .f64, num => by simp only [fieldCodecOf]; exact concV_zeroOf _
  | .str, num => by simp only [fieldCodecOf]; exact concV_zeroOf _
  | .bytes, num => by simp only [fieldCodecOf]; exact concV_zeroOf _
  | .any, num => by simp only [fieldCodecOf]; exact concV_zeroOf _
  | .arr n t, num => by simp only [fieldCodecOf]; exact concV_zeroOf _
  | .ptr t, num => by simp only [fieldCodecOf]; exact concV_zeroOf _
  | .struct fs, num => by simp only [fieldCodecOf]; exact concV_zeroOf _
  | .named s t, num => by
    by_cases hs : s = "RawMessage"
    · subst hs; simp only [zeroOf, concV_nil]
    · have hz : zeroOf (.named s t) = zeroOf t := by simp only [zeroOf]
      simp only [fieldCodecOf]
      rw [hz]; exact concV_fieldZero t num
theorem concF_zeroFields : ∀ (fs : Fields) (number : Nat), concF ops (fieldsOf number fs) (zeroFields fs) = zeroFields fs
  | .nil, _ => by simp only [fieldsOf, zeroFields, concF]
  | .cons name tag emb t rest, number => by
    have ihr := concF_zeroFields rest (number + 1)
    have ihf := fun num => concV_fieldZero t num
    simp only [fieldsOf, zeroFields]
    split
    · rename_i c heq
      have hleaf : isPlainLeaf c = true := by
        split at heq
        · split at heq <;> first | (simp only [Option.some.injEq] at heq; subst heq; rfl) | (simp at heq)
        · simp at heq
      simp only [concF, ihr, concV_wrapPtrs ops t c hleaf]
    · simp only [concF, ihr, ihf]
end
end Zero

/-- **D2.** With user types whose `Unmarshal` overwrites its receiver and accepts every input, `proto.Unmarshal` is the
payload-level `Unmarshal` followed by the user's `Unmarshal` on every surviving leaf. -/
theorem unmarshalUsr_lenient {ops : UserOps} (L : Lenient ops) (t : Ty) (b : Bytes) (hk : keysPlain (codecOf t) = true) :
    unmarshalUsr ops t b = (unmarshal t b).bind fun w => .ok (concV ops (codecOf t) w) := by
  simp only [unmarshalUsr, unmarshal]
  split
  · simp only [ok_bind, concV_zeroOf]
  · have h := decodeUsr_lenient L (2 * b.length + 8 + Codec.height (codecOf t)) 0 (codecOf t) b (zeroOf t)
      { toplevel := true } hk
    rw [concV_zeroOf] at h
    rw [h]
    cases decode (2 * b.length + 8 + Codec.height (codecOf t)) 0 (codecOf t) b (zeroOf t) { toplevel := true } with
    | err e => rfl
    | panic e => rfl
    | ok r =>
      obtain ⟨w, n⟩ := r
      simp only [ok_bind]
      split <;> rfl

end Enc.Lemmas.ProtoMsgDecode
