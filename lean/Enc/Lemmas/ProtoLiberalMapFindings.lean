import Enc.Lemmas.ProtoLiberalMapMain
/-!
# liberal decoding with map fields: non-vacuity, necessity of the exclusion, probed inputs

## finding LM1 — a zero-length map entry is dropped by the Go decoder  (candidate defect of the LIBRARY)

Input `<map field tag> 00` (e.g. `0a 00` for `M map[string]int32 = 1`).
  * protobuf encoding specification (protobuf.dev/programming-guides/encoding, "Maps"): `map<K,V> m = N` is wire-identical to
    `repeated MapEntry m = N` with `message MapEntry { K key = 1; V value = 2 }`; a field absent from a message takes
    its default.  So the empty entry denotes the pair `{default key : default value}` (`{"": 0}`), and a later entry
    overrides an earlier one with the same key.  The reference does exactly that.  Encoders that elide default-valued
    entry parts (legal: proto3 zero elision applied to the entry message; to my knowledge Rust's prost does this) emit
    `<tag> 00` for such a pair, so this is an interoperability issue, not only a theoretical one.
  * Go decoder (`mapDecodeFuncOf`, proto/map.go:226): `if len(b) == 0 { return 0, nil }` after allocating the map — `<tag> 00` is the marker
    its OWN encoder writes for an empty non-nil map (known class `protoEmptyMapMarker` on the encoder side, finding M1 of
    `ProtoMapFindings`).  Effect on third-party input: the pair `{default : default}` is LOST (`empty_entry_differs`), and
    an earlier entry with the default key is NOT overridden (`empty_entry_no_override`).  No error is reported.
  * I believe the reference is right and the library deviates: the marker convention is private to this library and
    collides with a legal encoding.  (The model mirrors the Go code; `decode_map_empty` is the model's arm.)
  * every other probed entry shape agrees literally (table at the end), and that is a theorem:
    `unmarshal_of_decode_map_partial`.

Nothing else differs on inputs the reference accepts.  (Converse direction, inherited from `ProtoLiberalFindings` L1:
a record with field number 0 INSIDE an entry is skipped by the Go decoder and rejected by the reference.)
-/
set_option linter.unusedSimpArgs false
set_option linter.unusedVariables false
namespace Enc.Lemmas.ProtoLiberalMap.Findings
open Enc Enc.Model.Proto Enc.Lemmas.ProtoWire Enc.Lemmas.ProtoMap Enc.Lemmas.ProtoLiberalMap
open Enc.Lemmas.ProtoLiberal.Findings (st agree bothReject modelOnly both showM showS)
open Enc.Spec.Protobuf (FieldOpt fieldOpt WireVal decodeOne decodeMsg decodeRecs parse findField valsGet valsSet deref
  unwrapPtr wrapPtr mapPut readVarint isRepeated unname canonical canon canonTy canonVals canonTyFields canonTyMap)

/-! ## key comparison on concrete keys (both decoders compare `Val.show`) -/

theorem show_str_iff (s t : Bytes) : ((Val.str s).show = (Val.str t).show) = (s = t) := by
  apply propext; constructor
  · intro e; simp only [Val.show, String.append_right_inj] at e; exact toHex_inj s t e
  · intro e; rw [e]
theorem show_int_iff (i j : Int) : ((Val.int i).show = (Val.int j).show) = (i = j) := by
  apply propext; constructor
  · intro e; simp only [Val.show, String.append_right_inj, Int.toString_eq_repr] at e; exact Int.repr_injective e
  · intro e; rw [e]

/-! ## non-vacuity: a non-canonical input with two map fields -/

def exInnerF : Fields := .cons "X" "" false (.int .i32) (.cons "S" "" false .str .nil)
/-- `M map[string]int32 = 1; N int64 = 2; P map[int32]Inner = 3` -/
def exF : Fields :=
  .cons "M" "" false (.map .str (.int .i32)) (.cons "N" "" false (.int .i64)
    (.cons "P" "" false (.map (.int .i32) (.struct exInnerF)) .nil))
/-- fields out of order, `N` twice (last wins); entries of `M`: value BEFORE key · key MISSING with a NON-MINIMAL
length token `82 00` · key `"a"` AGAIN with the value given twice and an UNKNOWN field 3 in between (overrides the
first entry, keeps its position); entry of `P`: message value SPLIT into two occurrences (merged) -/
def exB : Bytes :=
  [0x10, 0x07,
   0x0a, 0x05, 0x10, 0x05, 0x0a, 0x01, 0x61,
   0x0a, 0x82, 0x00, 0x10, 0x06,
   0x0a, 0x09, 0x0a, 0x01, 0x61, 0x10, 0x01, 0x18, 0x09, 0x10, 0x02,
   0x1a, 0x0b, 0x08, 0x01, 0x12, 0x02, 0x08, 0x07, 0x12, 0x03, 0x12, 0x01, 0x78,
   0x10, 0x08]
/-- `{M: {"a": 2, "": 6}, N: 8, P: {1: {X: 7, S: "x"}}}` -/
def exV : Val :=
  .struct (.cons (.map (.cons (.str [0x61]) (.cons (.int 2) (.cons (.str []) (.cons (.int 6) .nil)))))
    (.cons (.int 8)
      (.cons (.map (.cons (.int 1) (.cons (.struct (.cons (.int 7) (.cons (.str [0x78]) .nil))) .nil))) .nil)))

theorem ex_ty : tyOKM (.struct exF) = true := by
  simp [tyOKM, fieldsOKM, exF, exInnerF, tagAgreeM, tagAgreeMap, isMap, tagAgree_empty, fieldNums,
    fieldOpt_empty, modelTag_empty, supportedKind, ptrTarget, elemTy, isPtr, isSlice, keyTy]

/-- the reference accepts `exB` as `exV` -/
theorem ex_ref : Spec.Protobuf.decode (.struct exF) exB = some exV := by
  simp [Spec.Protobuf.decode, exF, exInnerF, exB, exV, deref, decodeMsg, parse, readVarint, readVarint.go, decodeRecs,
    findField, findField.go, fieldOpt_empty, isRepeated, unname, decodeOne, Spec.Protobuf.zeroFields,
    Spec.Protobuf.zeroOf, valsGet, valsSet, mapPut, wrapPtr, unwrapPtr, show_str_iff, show_int_iff, IntKind.signed,
    IntKind.inRange, IntKind.bits, Spec.Protobuf.toInt64]

/-- `exB` has no zero-length entry -/
theorem ex_ne : noEmptyEntry (.struct exF) exB = true := by
  simp [noEmptyEntry, neMsg, neRecs, neOne, entryF, exF, exInnerF, exB, deref, parse, readVarint, readVarint.go,
    findField, findField.go, fieldOpt_empty, isRepeated, unname]

/-- the main theorem applied -/
theorem ex_by_theorem : unmarshalU (.struct exF) exB = .ok exV :=
  unmarshal_of_decode_map_partial exF ex_ty exB exV ex_ne ex_ref

def exInnerC : CFields := .cons 1 false false false .int32 (.cons 2 false false false .string .nil)
/-- the codec tree `structCodecOf` builds for `exF` -/
def exC : CFields :=
  .cons 1 true true false (.map 1 .string .int32 false false
      (.struct (.cons 1 false false false .string (.cons 2 false false false .int32 .nil))))
    (.cons 2 false false false .int64
      (.cons 3 true true false (.map 3 .int32 (.struct exInnerC) false true
          (.struct (.cons 1 false false false .int32 (.cons 2 true false false (.struct exInnerC) .nil)))) .nil))

theorem ex_codec : codecOf (.struct exF) = .struct exC := by
  have hm : (lookupProtobuf "").bind parseStructTag = none := modelTag_empty
  simp [exF, exInnerF, exC, exInnerC, codecOf, fieldsOf, hm, fieldCodecOf, isStructBase, embBase, baseTy, Codec.wire]

/-- **the conclusion of the theorem, checked independently by evaluation** (`rfl`; the struct tags are the only thing
the kernel cannot evaluate — `String.splitOn` — hence `ex_codec` first) -/
theorem ex_by_evaluation : unmarshalU (.struct exF) exB = .ok exV := by
  unfold unmarshalU
  rw [ex_codec]
  rfl

/-! ## necessity of the exclusion: LM1 -/

/-- `M map[string]int32 = 1` -/
def mF : Fields := .cons "M" "" false (.map .str (.int .i32)) .nil
def mC : CFields :=
  .cons 1 true true false (.map 1 .string .int32 false false
      (.struct (.cons 1 false false false .string (.cons 2 false false false .int32 .nil)))) .nil

theorem m_ty : tyOKM (.struct mF) = true := by
  simp [tyOKM, fieldsOKM, mF, tagAgreeM, tagAgreeMap, isMap, fieldNums, fieldOpt_empty, modelTag_empty, supportedKind,
    keyTy, isSlice]
theorem m_codec : codecOf (.struct mF) = .struct mC := by
  have hm : (lookupProtobuf "").bind parseStructTag = none := modelTag_empty
  simp [mF, mC, codecOf, fieldsOf, hm, fieldCodecOf, isStructBase, embBase, baseTy, Codec.wire]

/-- the model's map arm on an empty entry chunk, every map codec: nothing is assigned (the slot becomes a non-nil map) -/
theorem decode_map_empty (f num : Nat) (kc vc : Codec) (kEmb vEmb : Bool) (entry : Codec) (cur : Val) (fl : Flags) :
    decodeU (f + 1) (.map num kc vc kEmb vEmb entry) [] cur fl = .ok (.map (mapCur cur), 0) := by
  simp only [decodeU, List.isEmpty_nil, if_true]
  cases cur <;> rfl

/-- `0a 00`: one zero-length entry -/
def e1 : Bytes := [0x0a, 0x00]
/-- `0a 02 10 05  0a 00`: `{"": 5}`, then a zero-length entry -/
def e2 : Bytes := [0x0a, 0x02, 0x10, 0x05, 0x0a, 0x00]

theorem e1_ref : Spec.Protobuf.decode (.struct mF) e1
    = some (.struct (.cons (.map (.cons (.str []) (.cons (.int 0) .nil))) .nil)) := by
  simp [Spec.Protobuf.decode, mF, e1, deref, decodeMsg, parse, readVarint, readVarint.go, decodeRecs,
    findField, findField.go, fieldOpt_empty, isRepeated, unname, Spec.Protobuf.zeroFields,
    Spec.Protobuf.zeroOf, valsGet, valsSet, mapPut, wrapPtr]
theorem e1_model : unmarshalU (.struct mF) e1 = .ok (.struct (.cons (.map .nil) .nil)) := by
  unfold unmarshalU; rw [m_codec]; rfl
theorem e1_excluded : noEmptyEntry (.struct mF) e1 = false := by
  simp [noEmptyEntry, neMsg, neRecs, mF, e1, deref, parse, readVarint, readVarint.go, findField, findField.go,
    fieldOpt_empty, isRepeated, unname]

/-- **the exclusion is necessary** (witness `0a 00` on `map[string]int32`): the type is in the universe, the
reference accepts the input as `{"": 0}`, `Unmarshal` accepts it as the EMPTY map, and the two values differ also in
the harness's normal form.  (`noEmptyEntry = false` on it.) -/
theorem empty_entry_differs :
    tyOKM (.struct mF) = true ∧ noEmptyEntry (.struct mF) e1 = false ∧
    ∃ v v', Spec.Protobuf.decode (.struct mF) e1 = some v ∧ unmarshalU (.struct mF) e1 = .ok v' ∧
      canonical (.struct mF) v' ≠ canonical (.struct mF) v := by
  refine ⟨m_ty, e1_excluded, _, _, e1_ref, e1_model, ?_⟩
  simp [canonical, canonTy, canonTyFields, canonTyMap, canon, canonVals, mF, Spec.Protobuf.pairsOf,
    Spec.Protobuf.insertSorted, Vals.toList, Vals.ofList]

theorem e2_ref : Spec.Protobuf.decode (.struct mF) e2
    = some (.struct (.cons (.map (.cons (.str []) (.cons (.int 0) .nil))) .nil)) := by
  simp [Spec.Protobuf.decode, mF, e2, deref, decodeMsg, parse, readVarint, readVarint.go, decodeRecs,
    findField, findField.go, fieldOpt_empty, isRepeated, unname, decodeOne, Spec.Protobuf.zeroFields,
    Spec.Protobuf.zeroOf, valsGet, valsSet, mapPut, wrapPtr, unwrapPtr, show_str_iff, IntKind.signed,
    IntKind.inRange, IntKind.bits, Spec.Protobuf.toInt64]
theorem e2_model : unmarshalU (.struct mF) e2
    = .ok (.struct (.cons (.map (.cons (.str []) (.cons (.int 5) .nil))) .nil)) := by
  unfold unmarshalU; rw [m_codec]; rfl

/-- LM1, second effect (witness `0a 02 10 05 0a 00`): the zero-length entry does not override the earlier entry for
the default key — the reference yields `{"": 0}`, `Unmarshal` `{"": 5}` -/
theorem empty_entry_no_override :
    ∃ v v', Spec.Protobuf.decode (.struct mF) e2 = some v ∧ unmarshalU (.struct mF) e2 = .ok v' ∧
      canonical (.struct mF) v' ≠ canonical (.struct mF) v := by
  refine ⟨_, _, e2_ref, e2_model, ?_⟩
  simp [canonical, canonTy, canonTyFields, canonTyMap, canon, canonVals, mF, Spec.Protobuf.pairsOf,
    Spec.Protobuf.insertSorted, Vals.toList, Vals.ofList]

/-! ## probed inputs (both sides evaluated) -/

/-- both accept, different values even in normal form -/
def differ (ty : Ty) (h : String) : Bool :=
  match fromHex h with
  | none => false
  | some b => match unmarshalU ty b, Spec.Protobuf.decode ty b with
    | .ok v, some v' => (canonical ty v).show != (canonical ty v').show
    | _, _ => false
def ne (ty : Ty) (h : String) : Bool :=
  match fromHex h with
  | none => false
  | some b => noEmptyEntry ty b

def inner : Ty := st [("", .int .i32), ("", .str)]
def T1 : Ty := st [("", .map .str (.int .i32))]
def T2 : Ty := st [("", .map (.int .i32) inner)]
def T3 : Ty := st [("", .map .str (.ptr (.int .i32)))]
def T4 : Ty := st [("", .map .bool .bytes), ("", .int .i64)]
def T5 : Ty := st [("", .map .str (.ptr inner))]
def T6 : Ty := st [("", .map (.int .i64) (st [("", .map .str .str)]))]
def T7 : Ty := st [("protobuf:\"zigzag64,3,rep\"", .map (.int .i64) (.int .i64))]
#guard tyOKM T1 && tyOKM T2 && tyOKM T3 && tyOKM T4 && tyOKM T5 && tyOKM T6 && tyOKM T7

-- AGREE literally (instances of the theorem; `ne` = the hypothesis holds)
#guard agree T1 "0a050a01611005" && ne T1 "0a050a01611005"             -- canonical entry
#guard agree T1 "0a0510050a0161" && ne T1 "0a0510050a0161"             -- value before key
#guard agree T1 "0a021005" && agree T1 "0a030a0161"                   -- missing key / missing value
#guard agree T1 "0a080a01610a01621005" && agree T1 "0a070a016110051006"  -- key twice / value twice in one entry: last wins
#guard agree T1 "0a070a016118071005" && agree T1 "0a0b0a01611a04010203041005"  -- unknown fields (varint, LEN) inside the entry
#guard agree T1 "0a050a016110010a050a016210020a050a01611003"           -- a:1 b:2 a:3 → [a:3, b:2] on both sides
#guard agree T1 "8a0087000a810061108500"                               -- non-minimal tag, length, key length, value
#guard agree T2 "0a0b0801120208071203120161"                           -- message value split inside the entry: merged
#guard agree T2 "0a060801120208070a0708011203120161"                   -- same key in two entries: NOT merged, replaced
#guard agree T3 "0a030a0161" && agree T3 "0a050a01611000"             -- `*int32` value: missing → nil, present 0 → &0
#guard agree T4 "0a040802120010090a020800"                             -- bool key 2 = true, interleaved with field 2
#guard agree T5 "0a09120208010a01611200" && agree T5 "0a030a0161"     -- `*Msg` value split with an empty part / missing
#guard agree T6 "0a0a080112060a040a001200" && agree T6 "0a0408011200"  -- map inside a map value; empty message value
#guard agree T7 "1a04087f107f"                                         -- zigzag tag on a map field: ignored by both
#guard agree T1 "" && agree T1 "0a0210000a00"                          -- empty input; (`0a 00` after {"":0}: same by luck)
-- DIFFER: zero-length entries only (LM1); `ne` is false on each
#guard differ T1 "0a00" && !ne T1 "0a00"
#guard differ T1 "0a050a016110050a00" && !ne T1 "0a050a016110050a00"
#guard differ T1 "0a0210050a00" && !ne T1 "0a0210050a00"
#guard differ T6 "0a06080112020a00" && !ne T6 "0a06080112020a00"      -- nested: zero-length entry inside a map value
#guard !ne T1 "0a0210000a00"                                           -- excluded although the values happen to agree
-- both reject
#guard bothReject T1 "0a020805" && bothReject T1 "0801" && bothReject T1 "0a040a016110" && bothReject T1 "0a090a0161"
#guard bothReject T2 "0a0608ffffffff1f" && bothReject T5 "0a071202080112010a"
-- converse direction (not the theorem): field number 0 inside an entry — Go skips it, reference rejects (L1)
#guard modelOnly T1 "0a0500000a0161"
-- "0a00  model ok:t 1 m 0 | reference some:t 1 m 1 s - i 0"
#eval both T1 "0a00"
-- "0a0210050a00  model ok:t 1 m 1 s - i 5 | reference some:t 1 m 1 s - i 0"
#eval both T1 "0a0210050a00"

end Enc.Lemmas.ProtoLiberalMap.Findings
