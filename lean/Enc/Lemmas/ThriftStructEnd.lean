import Enc.Lemmas.ThriftTotalSkip
import Enc.Lemmas.ThriftDeltaStop
/-!
C08 / C13, thrift compact protocol: "only the byte 0 ends a struct", for EVERY input (fix 7d9da57).

  * `rField_stop_iff`            `ReadField` returns the stop field (type STOP, no delta) only for the header byte 0
  * `skipStruct_ends_with_zero`  whenever the struct skipper accepts a struct body — any bytes, any nesting, any fuel —
                                 the body it consumed ends with the byte 0: `b = x ++ 0 :: r`
Before the fix the statement was false: the bodies `[0x10]`, …, `[0xF0]` were accepted.
-/
namespace Enc.Lemmas.ThriftDeltaStop
open Enc Enc.Model.Thrift Enc.Lemmas.ThriftPrim Enc.Lemmas.ThriftSkip Enc.Lemmas.ThriftTotal

theorem ofCode_ne_stop (n : Nat) (h0 : n ≠ 0) : TType.ofCode n ≠ .stop := by
  by_cases h13 : n ≤ 12
  · have key : ∀ m : Fin 13, m.val ≠ 0 → TType.ofCode m.val ≠ .stop := by decide
    exact key ⟨n, by omega⟩ h0
  · have hk : ∀ k, k ≤ 12 → (n == k) = false := by intro k hk; simp; omega
    unfold TType.ofCode
    simp only [Gen.c_thrift_STOP, Gen.c_thrift_TRUE, Gen.c_thrift_BOOL, Gen.c_thrift_I8, Gen.c_thrift_I16,
      Gen.c_thrift_I32, Gen.c_thrift_I64, Gen.c_thrift_DOUBLE, Gen.c_thrift_BINARY, Gen.c_thrift_LIST,
      Gen.c_thrift_SET, Gen.c_thrift_MAP, Gen.c_thrift_STRUCT,
      hk 0 (by omega), hk 1 (by omega), hk 2 (by omega), hk 3 (by omega), hk 4 (by omega), hk 5 (by omega),
      hk 6 (by omega), hk 7 (by omega), hk 8 (by omega), hk 9 (by omega), hk 10 (by omega), hk 11 (by omega),
      hk 12 (by omega), Bool.false_eq_true, if_false]
    simp

theorem ofCode_stop_iff (n : Nat) : TType.ofCode n = .stop ↔ n = 0 := by
  constructor
  · intro h
    by_cases h0 : n = 0
    · exact h0
    · exact absurd h (ofCode_ne_stop n h0)
  · rintro rfl; rfl

/-- compact `ReadField`: a header that is the stop field without a delta comes from the byte 0 and nothing else -/
theorem rField_stop_iff (b : Bytes) (h : FieldHdr) (r : Bytes) (hr : rField .compact b = .ok (h, r))
    (ht : h.t = .stop) (hd : h.delta = false) : b = 0 :: r := by
  cases b with
  | nil => simp [rField, rByte, Res.bind] at hr
  | cons c rest =>
    simp only [rField, rByte, Res.bind] at hr
    by_cases h0 : (c.toNat == Gen.c_thrift_STOP) = true
    · simp only [h0, if_true, Res.ok.injEq, Prod.mk.injEq] at hr
      have : c.toNat = 0 := by simpa [Gen.c_thrift_STOP] using h0
      have hc : c = 0 := UInt8.toNat_inj.mp (by simpa using this)
      rw [hc, hr.2]
    · simp only [h0, Bool.false_eq_true, if_false] at hr
      by_cases h1 : (c.toNat / 16 != 0) = true
      · simp only [h1, if_true, Res.ok.injEq, Prod.mk.injEq] at hr
        rw [← hr.1] at hd; cases hd
      · simp only [h1, Bool.false_eq_true, if_false] at hr
        cases hi : dontExpectEOF (rI16 .compact rest) with
        | err e => simp [hi] at hr
        | panic e => simp [hi] at hr
        | ok ir =>
          simp only [hi, Res.ok.injEq, Prod.mk.injEq] at hr
          rw [← hr.1] at ht
          have := (ofCode_stop_iff c.toNat).mp ht
          simp [Gen.c_thrift_STOP, this] at h0

/-- **every struct body the compact skipper accepts ends with the byte 0** -/
theorem skipStruct_ends_with_zero : ∀ (fuel d : Nat) (b : Bytes) (last : Int) (num : Nat) (r : Bytes),
    skipStruct .compact d fuel b last num = .ok ((), r) → ∃ x, b = x ++ 0 :: r := by
  intro fuel
  induction fuel with
  | zero => intro d b last num r h; simp [skipStruct] at h
  | succ fuel ih =>
    intro d b last num r h
    rw [skipStruct_succ] at h
    cases hf : wrapE (decide (0 < num)) (rField .compact b) with
    | err e => simp [hf, Res.bind] at h
    | panic e => simp [hf, Res.bind] at h
    | ok hr =>
      obtain ⟨hd, r1⟩ := hr
      have hf' : rField .compact b = .ok (hd, r1) := by
        unfold wrapE at hf
        split at hf
        · exact dontExpectEOF_ok' _ _ hf
        · exact hf
      simp only [hf, Res.bind] at h
      by_cases hs : (hd.t == TType.stop) = true
      · simp only [hs, if_true] at h
        by_cases hdl : hd.delta = true
        · simp [hdl] at h
        · simp only [hdl, Bool.false_eq_true, if_false, Res.ok.injEq, Prod.mk.injEq, true_and] at h
          subst h
          exact ⟨[], by simpa using rField_stop_iff b hd r1 hf' (by simpa using hs) (by simpa using hdl)⟩
      · rw [if_neg hs] at h
        obtain ⟨x1, hb, _, _, _⟩ := pre_rField .compact b hd r1 hf'
        -- the field value
        cases hsk : dontExpectEOF (if ((hd.t == TType.true_ || hd.t == TType.bool) && Proto.coalesce .compact) = true
            then (.ok ((), r1) : R Unit) else skip .compact d fuel hd.t r1) with
        | err e => rw [hsk] at h; simp at h
        | panic e => rw [hsk] at h; simp at h
        | ok ur =>
          obtain ⟨u, r2⟩ := ur
          rw [hsk] at h
          simp only at h
          obtain ⟨x3, h3⟩ := ih d r2 _ _ r h
          have hsk' := dontExpectEOF_ok' _ _ hsk
          have h2 : ∃ x2, r1 = x2 ++ r2 := by
            split at hsk'
            · simp only [Res.ok.injEq, Prod.mk.injEq] at hsk'
              exact ⟨[], by simp [hsk'.2]⟩
            · obtain ⟨x2, hx2, _⟩ := pre_skip .compact d fuel hd.t r1 u r2 hsk'
              exact ⟨x2, hx2⟩
          obtain ⟨x2, h2⟩ := h2
          exact ⟨x1 ++ x2 ++ x3, by rw [hb, h2, h3]; simp⟩

/-- non-vacuity: a struct with one i8 field (id 1, value 5) -/
example : skipStruct .compact 1 3 [0x13, 5, 0, 0xAA] 0 0 = .ok ((), [0xAA]) := by decide +kernel

#print axioms skipStruct_ends_with_zero

end Enc.Lemmas.ThriftDeltaStop
