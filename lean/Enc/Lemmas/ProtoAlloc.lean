import Enc.Model.ProtoAlloc
/-!
The allocation-accounting decoders of `Enc/Model/ProtoAlloc.lean` ARE the decoders of `Enc/Model/Proto.lean` with one
more component: every theorem about `decode` / `decodeStruct` / `unmarshal` transfers to the first component.
-/
namespace Enc.Lemmas.ProtoAlloc
open Enc Enc.Model.Proto

theorem decodeA_proj_aux (fuel : Nat) :
    (∀ d c b cur fl, (decodeA fuel d c b cur fl).1 = decode fuel d c b cur fl) ∧
    (∀ d fs b lenB vs fl off, (decodeStructA fuel d fs b lenB vs fl off).1 = decodeStruct fuel d fs b lenB vs fl off) := by
  induction fuel with
  | zero => constructor <;> intros <;> simp [decodeA, decodeStructA, decode, decodeStruct]
  | succ fuel ih =>
    obtain ⟨ihd, ihs⟩ := ih
    constructor
    · intro d c b cur fl
      cases c <;> simp only [decodeA]
      case int32 =>
        simp only [decode]
        cases decodeVarint b with
        | ok a => obtain ⟨u, n⟩ := a; simp only; split <;> rfl
        | err e => rfl
        | panic e => rfl
      case uint32 =>
        simp only [decode, Res.bind]
        cases decodeVarint b with
        | ok a => obtain ⟨u, n⟩ := a; simp only; split <;> rfl
        | err e => rfl
        | panic e => rfl
      case string => simp only [decode]
      case bytes => simp only [decode]
      case byteArray k => simp only [decode]
      case message => simp only [decode]; split <;> rfl
      case ptr c' => simp only [decode, ihd]; cases cur <;> rfl
      case struct fs =>
        simp only [decode]
        split
        · rfl
        · cases cur <;> first | rfl | simp only [ihs]
      case slice elem num w emb =>
        simp only [decode, ihd]; cases cur <;> rfl
      case map num k v ke ve entry =>
        simp only [decode]
        split
        · cases cur <;> rfl
        · simp only [ihd]
          cases decode fuel d entry b (zeroOfCodec entry) {} with
          | err e => cases cur <;> rfl
          | panic e => cases cur <;> rfl
          | ok vn =>
            obtain ⟨v, n⟩ := vn
            cases cur <;> (simp only; split <;> first | rfl | (simp_all; done))
    · intro d fs b lenB vs fl off
      simp only [decodeStructA, decodeStruct]
      split
      · rfl
      · cases decodeVarint b with
        | err e => rfl
        | panic e => rfl
        | ok a =>
          obtain ⟨tag, n⟩ := a
          simp only
          cases lookupField fs (tag >>> 3).toNat with
          | none =>
            simp only
            cases skipUnknown (tag &&& 7#64).toNat (List.drop n b) lenB with
            | ok skip => simp only [Res.bind, ihs]
            | err e => rfl
            | panic e => rfl
          | some r =>
            obtain ⟨i, emb, zz, c⟩ := r
            simp only
            split
            · rfl
            · have hc : carve (tag &&& 7#64).toNat (List.drop n b) lenB (off + n) emb =
                  (if ((tag &&& 7#64).toNat == 0) = true then
                    (decodeVarint (List.drop n b)).bind fun x => Res.ok (List.take x.2 (List.drop n b), 0)
                  else if ((tag &&& 7#64).toNat == 2) = true then
                    (decodeVarint (List.drop n b)).bind fun x =>
                      if x.1.toNat > lenB - (off + n + x.2) then Res.err "unexpectedEof"
                      else if emb = true then Res.ok (List.take x.1.toNat (List.drop x.2 (List.drop n b)), x.2)
                      else Res.ok (List.take (x.2 + x.1.toNat) (List.drop n b), 0)
                  else if ((tag &&& 7#64).toNat == 5) = true then
                    (if (List.drop n b).length < 4 then Res.err "unexpectedEof" else Res.ok (List.take 4 (List.drop n b), 0))
                  else if ((tag &&& 7#64).toNat == 1) = true then
                    (if (List.drop n b).length < 8 then Res.err "unexpectedEof" else Res.ok (List.take 8 (List.drop n b), 0))
                  else Res.err "wireTypeUnknown") := rfl
              rw [← hc]
              cases carve (tag &&& 7#64).toNat (List.drop n b) lenB (off + n) emb with
              | err e => rfl
              | panic e => rfl
              | ok dp =>
                obtain ⟨data, pre⟩ := dp
                simp only [Res.bind, ihd]
                cases decode fuel d c data (Vals.get vs i) { fl with zigzag := fl.zigzag || zz } with
                | err e => rfl
                | panic e => rfl
                | ok vm => obtain ⟨v, m⟩ := vm; simp only [ihs]

/-- **projection.** The accounting decoder is the decoder: dropping the allocation count gives `decode` -/
theorem decodeA_proj (fuel d : Nat) (c : Codec) (b : Bytes) (cur : Val) (fl : Flags) :
    (decodeA fuel d c b cur fl).1 = decode fuel d c b cur fl := (decodeA_proj_aux fuel).1 d c b cur fl

theorem decodeStructA_proj (fuel d : Nat) (fs : CFields) (b : Bytes) (lenB : Nat) (vs : Vals) (fl : Flags) (off : Nat) :
    (decodeStructA fuel d fs b lenB vs fl off).1 = decodeStruct fuel d fs b lenB vs fl off :=
  (decodeA_proj_aux fuel).2 d fs b lenB vs fl off

theorem unmarshalA_proj (t : Ty) (b : Bytes) : (unmarshalA t b).1 = unmarshal t b := by
  simp only [unmarshalA, unmarshal]
  split
  · rfl
  · simp only [decodeA_proj]
    cases decode (2 * b.length + 8 + Codec.height (codecOf t)) 0 (codecOf t) b (zeroOf t) { toplevel := true } with
    | err e => rfl
    | panic e => rfl
    | ok vn => obtain ⟨v, n⟩ := vn; simp only; split <;> rfl

end Enc.Lemmas.ProtoAlloc
