import Enc.Model.ProtoMsg
import Enc.Lemmas.ProtoDecode
import Enc.Lemmas.ProtoVarint
import Enc.Lemmas.ProtoRoundTripScalar
/-!
# The decoder with user-defined message types (`Model.ProtoMsg`) against the payload-level decoder (`Model.Proto`)

D1: with `rawOps` (RawMessage) the two models coincide.
-/
namespace Enc.Lemmas.ProtoMsgDecode
open Enc Enc.Model.Proto

theorem bind_eq_match {α β : Type} (r : Res α) (f : α → Res β) :
    r.bind f = (match r with | .ok a => f a | .err e => .err e | .panic e => .panic e) := rfl

/-! ## D1 -/
mutual
theorem decodeUsr_rawOps : ∀ (fuel d : Nat) (c : Codec) (b : Bytes) (cur : Val) (fl : Flags),
    decodeUsr rawOps fuel d c b cur fl = decode fuel d c b cur fl
  | 0, _, _, _, _, _ => by simp only [decodeUsr, decode]
  | fuel + 1, d, c, b, cur, fl => by
    cases c with
    | message =>
      simp only [decodeUsr, decode, rawOps, Res.bind]
    | ptr c' =>
      simp only [decodeUsr, decode]
      rw [decodeUsr_rawOps fuel]
      rfl
    | struct fs =>
      simp only [decodeUsr, decode]
      split
      · rfl
      · cases cur <;> simp only []
        rw [decodeStructUsr_rawOps fuel]
    | slice elem number wire emb =>
      simp only [decodeUsr, decode]
      rw [decodeUsr_rawOps fuel]
      cases decode fuel d elem b (zeroOfCodec elem) {} <;> rfl
    | map number k v kEmb vEmb entry =>
      simp only [decodeUsr, decode]
      rw [decodeUsr_rawOps fuel]
      split
      · rfl
      · cases h : decode fuel d entry b (zeroOfCodec entry) {} with
        | ok r =>
          simp only [Res.bind]
          split <;> split <;> simp_all
        | err e => rfl
        | panic e => rfl
    | _ => simp only [decodeUsr]
theorem decodeStructUsr_rawOps : ∀ (fuel d : Nat) (fs : CFields) (b : Bytes) (lenB : Nat) (vs : Vals) (fl : Flags) (off : Nat),
    decodeStructUsr rawOps fuel d fs b lenB vs fl off = decodeStruct fuel d fs b lenB vs fl off
  | 0, _, _, _, _, _, _, _ => by simp only [decodeStructUsr, decodeStruct]
  | fuel + 1, d, fs, b, lenB, vs, fl, off => by
    simp only [decodeStructUsr, decodeStruct]
    split
    · rfl
    · cases h : decodeVarint b with
      | err e => rfl
      | panic e => rfl
      | ok r =>
        obtain ⟨tag, n⟩ := r
        simp only [Res.bind, decodeStructUsr_rawOps fuel, decodeUsr_rawOps fuel]
        cases lookupField fs (tag >>> 3).toNat with
        | none => rfl
        | some r => rfl
end

theorem unmarshalUsr_rawOps (t : Ty) (b : Bytes) : unmarshalUsr rawOps t b = unmarshal t b := by
  simp only [unmarshalUsr, unmarshal, decodeUsr_rawOps]
  rfl

/-! ## D4: the leaf under the user contract -/
section Leaf
variable (ops : UserOps)

theorem sizeUsr_message_top (u : Val) (fl : Flags) (h : fl.toplevel = true) : sizeUsr ops .message u fl = ops.size u := by
  simp only [sizeUsr, h, if_true]
theorem sizeUsr_message_field (u : Val) (fl : Flags) (h : fl.toplevel = false) :
    sizeUsr ops .message u fl = sizeOfVarlen (ops.size u) := by
  simp [sizeUsr, h]

/-- top level: `Marshal` into the `Size()`-byte buffer -/
theorem encodeToUsr_message_top (u : Val) (p : Bytes) (i w z : Bool)
    (hm : ops.marshal u = .ok p) (hs : p.length = ops.size u) :
    encodeToUsr ops .message u { toplevel := true, inline := i, wantzero := w, zigzag := z } p.length = .ok p := by
  simp only [encodeToUsr, if_true, hs, Nat.lt_irrefl, if_false, hm]

/-- top level: `Unmarshal` on the whole input -/
theorem decodeUsr_message_top (u cur : Val) (p : Bytes) (fuel d : Nat) (fl : Flags) (ht : fl.toplevel = true)
    (hrt : ops.unmarshal cur p = .ok u) :
    decodeUsr ops (fuel + 1) d .message p cur fl = .ok (u, p.length) := by
  simp only [decodeUsr, ht, if_true, hrt, Res.bind]

theorem decodeVarlen_prefixed (p rest : Bytes) (hl : p.length < 2 ^ 64) :
    decodeVarlen (encodeVarint (BitVec.ofNat 64 p.length) ++ p ++ rest) = .ok (p, sizeOfVarlen p.length) := by
  rw [Lemmas.ProtoRoundTrip.decodeVarlen_chunk p hl rest]
  simp only [List.length_append, Lemmas.Proto.encodeVarint_length, sizeOfVarlen]

/-- field / element / map-value position: the varint of `Size()`, then `Marshal` -/
theorem encodeToUsr_message_field (u : Val) (p : Bytes) (fl : Flags) (hf : fl.toplevel = false)
    (hm : ops.marshal u = .ok p) (hs : p.length = ops.size u) :
    encodeToUsr ops .message u fl (sizeOfVarlen p.length) = .ok (encodeVarint (BitVec.ofNat 64 p.length) ++ p) := by
  simp [encodeToUsr, hf, hs, hm, Res.bind]

/-- field / element / map-value position: `decodeVarlen`, then `Unmarshal` on the payload -/
theorem decodeUsr_message_field (u cur : Val) (p : Bytes) (fuel d : Nat) (fl : Flags) (hf : fl.toplevel = false)
    (hl : p.length < 2 ^ 64) (hrt : ops.unmarshal cur p = .ok u) :
    decodeUsr ops (fuel + 1) d .message (encodeVarint (BitVec.ofNat 64 p.length) ++ p) cur fl
      = .ok (u, sizeOfVarlen p.length) := by
  have h := decodeVarlen_prefixed p [] hl
  rw [List.append_nil] at h
  simp [decodeUsr, hf, h, hrt, Res.bind]

/-- behind a pointer (commit 109a14e): the pointer codec passes the flags on with `wantzero`, not `inline` -/
theorem encodeToUsr_ptr_message_top (u : Val) (p : Bytes) (i w z : Bool)
    (hm : ops.marshal u = .ok p) (hs : p.length = ops.size u) :
    encodeToUsr ops (.ptr .message) (.ptr u) { toplevel := true, inline := i, wantzero := w, zigzag := z } p.length = .ok p := by
  simp only [encodeToUsr, if_true, hs, Nat.lt_irrefl, if_false, hm]

theorem encodeToUsr_ptr_message_field (u : Val) (p : Bytes) (fl : Flags) (hf : fl.toplevel = false)
    (hm : ops.marshal u = .ok p) (hs : p.length = ops.size u) :
    encodeToUsr ops (.ptr .message) (.ptr u) fl (sizeOfVarlen p.length)
      = .ok (encodeVarint (BitVec.ofNat 64 p.length) ++ p) := by
  simp [encodeToUsr, hf, hs, hm, Res.bind]

/-- the decoder allocates `zeroOfCodec .message = .nil` behind a nil pointer and calls `Unmarshal` on it -/
theorem decodeUsr_ptr_message_top (u : Val) (p : Bytes) (fuel d : Nat) (fl : Flags) (ht : fl.toplevel = true)
    (hrt : ops.unmarshal .nil p = .ok u) :
    decodeUsr ops (fuel + 2) d (.ptr .message) p .nil fl = .ok (.ptr u, p.length) := by
  simp only [decodeUsr, zeroOfCodec, ht, if_true, hrt, Res.bind]

theorem decodeUsr_ptr_message_field (u : Val) (p : Bytes) (fuel d : Nat) (fl : Flags) (hf : fl.toplevel = false)
    (hl : p.length < 2 ^ 64) (hrt : ops.unmarshal .nil p = .ok u) :
    decodeUsr ops (fuel + 2) d (.ptr .message) (encodeVarint (BitVec.ofNat 64 p.length) ++ p) .nil fl
      = .ok (.ptr u, sizeOfVarlen p.length) := by
  have h := decodeUsr_message_field ops u .nil p fuel d fl hf hl hrt
  rw [decodeUsr]
  · simp only [zeroOfCodec, h, Res.bind]
  · intro v hv; cases hv

/-- a non-nil pointer: `Unmarshal` is called on the value it points to -/
theorem decodeUsr_ptr_message_field_cur (u cur : Val) (p : Bytes) (fuel d : Nat) (fl : Flags) (hf : fl.toplevel = false)
    (hl : p.length < 2 ^ 64) (hrt : ops.unmarshal cur p = .ok u) :
    decodeUsr ops (fuel + 2) d (.ptr .message) (encodeVarint (BitVec.ofNat 64 p.length) ++ p) (.ptr cur) fl
      = .ok (.ptr u, sizeOfVarlen p.length) := by
  have h := decodeUsr_message_field ops u cur p fuel d fl hf hl hrt
  rw [decodeUsr]
  simp only [h, Res.bind]

/-! ### the error paths: the user's error is returned as it is -/

theorem encodeToUsr_message_err (u : Val) (e : String) (fl : Flags) (avail : Nat)
    (hm : ops.marshal u = .err e) (ha : sizeOfVarlen (ops.size u) ≤ avail) :
    encodeToUsr ops .message u fl avail = .err e := by
  have h1 : ¬ avail < sizeOfVarlen (ops.size u) := by omega
  have h2 : ¬ avail < ops.size u := by unfold sizeOfVarlen at ha; omega
  cases ht : fl.toplevel <;> simp [encodeToUsr, ht, h1, h2, hm, Res.bind]

theorem decodeUsr_message_top_err (cur : Val) (q : Bytes) (e : String) (fuel d : Nat) (fl : Flags) (ht : fl.toplevel = true)
    (he : ops.unmarshal cur q = .err e) :
    decodeUsr ops (fuel + 1) d .message q cur fl = .err e := by
  simp only [decodeUsr, ht, if_true, he, Res.bind]

theorem decodeUsr_message_field_err (cur : Val) (q : Bytes) (e : String) (fuel d : Nat) (fl : Flags) (hf : fl.toplevel = false)
    (hl : q.length < 2 ^ 64) (he : ops.unmarshal cur q = .err e) :
    decodeUsr ops (fuel + 1) d .message (encodeVarint (BitVec.ofNat 64 q.length) ++ q) cur fl = .err e := by
  have h := decodeVarlen_prefixed q [] hl
  rw [List.append_nil] at h
  simp [decodeUsr, hf, h, he, Res.bind]

theorem decodeUsr_ptr_message_field_err (q : Bytes) (e : String) (fuel d : Nat) (fl : Flags) (hf : fl.toplevel = false)
    (hl : q.length < 2 ^ 64) (he : ops.unmarshal .nil q = .err e) :
    decodeUsr ops (fuel + 2) d (.ptr .message) (encodeVarint (BitVec.ofNat 64 q.length) ++ q) .nil fl = .err e := by
  have h := decodeUsr_message_field_err ops .nil q e fuel d fl hf hl he
  rw [decodeUsr]
  · simp only [zeroOfCodec, h, Res.bind]
  · intro v hv; cases hv

end Leaf

end Enc.Lemmas.ProtoMsgDecode
