import Enc.Lemmas.ProtoTemplateRepA
/-!
# Repeated MESSAGE fields of a template: what the parser builds, and the decoder on one element record

Go: every element `{…}` of the JSON array is compiled by `parseRewriteTemplateStruct` into an `embeddedRewriter` (NOT
merged: the field is repeated), all under `replacement`.
-/
namespace Enc.Lemmas.ProtoTemplate
open Enc Enc.Spec.Protobuf Enc.Lemmas.ProtoRewriteSpec Enc.Lemmas.ProtoSpecFuel
open Enc.Model.Proto (PKind RwT Rw TFields TType parseLeaf parseTemplate parseStruct parseMembers parseElems parseOne
  lookupFieldByName rewriteT rewriteMultiT multiOfT rewrite gvString gvObj gvList insertEnt tableLen PF getRwT fieldVarlen
  encodeVarint)
open Enc.Model.Json (GV GVs GMs)

/-- repeated message field: one `embedded` rewriter per element, in order -/
inductive MsgList (pf : PF) (tgs : TFields) (n : Nat) : List GV → List RwT → Prop
  | nil : MsgList pf tgs n [] []
  | cons (j js rws ms es f) : gvObj j = some ms → parseMembers pf f tgs ms [] = .ok es → MsgList pf tgs n js rws →
      MsgList pf tgs n (j :: js) (.embedded n (tableLen es) es :: rws)

theorem parseOne_msg (pf : PF) (tgs : TFields) (n : Nat) (hn : n ≠ 0) (j : GV) (f : Nat) (o : Option RwT)
    (h : parseOne pf f (.msg tgs) n j none = .ok o) :
    ∃ ms es f', gvObj j = some ms ∧ parseMembers pf f' tgs ms [] = .ok es ∧ o = some (.embedded n (tableLen es) es) := by
  match f, h with
  | 0, h => simp [parseOne] at h
  | 1, h => simp [parseOne, parseStruct, Res.bind] at h
  | f + 2, h =>
    simp only [parseOne, parseStruct] at h
    cases ho : gvObj j with
    | none => simp [ho, Res.bind] at h
    | some ms =>
      simp only [ho] at h
      cases hm : parseMembers pf f tgs ms [] with
      | err e => simp [hm, Res.bind] at h
      | panic e => simp [hm, Res.bind] at h
      | ok es =>
        simp [hm, Res.bind, hn] at h
        exact ⟨ms, es, f, rfl, hm, h.symm⟩

theorem parseElems_msg_list (pf : PF) (tgs : TFields) (n : Nat) (hn : n ≠ 0) :
    ∀ (js : List GV) (f : Nat) (rws : List RwT), parseElems pf f (.msg tgs) n true js none = .ok rws →
      MsgList pf tgs n js rws
  | js, 0, rws, h => by simp [parseElems] at h
  | [], f + 1, rws, h => by
    simp only [parseElems, Res.ok.injEq] at h
    subst h
    exact .nil
  | j :: js, f + 1, rws, h => by
    simp only [parseElems] at h
    cases hp : parseOne pf f (.msg tgs) n j none with
    | err e => simp [hp, Res.bind] at h
    | panic e => simp [hp, Res.bind] at h
    | ok o =>
      simp only [hp, Res.bind] at h
      cases hr : parseElems pf f (.msg tgs) n true js none with
      | err e => simp [hr] at h
      | panic e => simp [hr] at h
      | ok rest =>
        have ih := parseElems_msg_list pf tgs n hn js f rest hr
        obtain ⟨ms, es, f', hobj, hm, rfl⟩ := parseOne_msg pf tgs n hn j f o hp
        simp [hr] at h
        subst h
        exact .cons j js rest ms es f' hobj hm ih

theorem parseEntry_rep_msg (pf : PF) (f : Nat) (tgs : TFields) (n : Nat) (jv : GV) (r : RwT) (hn : n ≠ 0)
    (h : parseEntry pf f (.msg tgs) n true jv = .ok r) :
    ∃ js rws, gvList jv = some js ∧ MsgList pf tgs n js rws ∧ r = .replacement (multiOfT rws) := by
  simp only [parseEntry, if_true, Bool.true_or] at h
  cases hl : gvList jv with
  | none => simp [hl] at h
  | some js =>
    simp only [hl] at h
    cases hr : parseElems pf f (.msg tgs) n true js none with
    | err e => simp [hr, Res.bind] at h
    | panic e => simp [hr, Res.bind] at h
    | ok rws =>
      simp [hr, Res.bind] at h
      exact ⟨js, rws, rfl, parseElems_msg_list pf tgs n hn js f rws hr, h.symm⟩

/-- one LEN record of a repeated message field appends the decoded element -/
theorem fieldD_repeated_struct (t : Ty) (gs : Fields) (o : FieldOpt) (body : Bytes) (cur : Val)
    (hr : isRepeated t = some (.struct gs)) :
    fieldD t o (.len body) cur = (decode (.struct gs) body).map fun e => .list (Vals.ofList (listOf cur ++ [e])) := by
  unfold fieldD
  rw [hr]
  simp only [deref, zeroOf, wrapPtr]
  rw [show 2 * wvLen (.len body) + 4 = (2 * wvLen (.len body) + 3) + 1 from rfl, decodeOne_struct]
  simp only [wvLen]
  rw [decodeMsg_eq_foldD gs body _ _ (by omega), decode_struct_eq]
  cases parse (body.length + 1) body with
  | none => rfl
  | some recs =>
    simp only [Option.bind_some]

/-- the same for elements behind pointers / named types (`[]*Sub`): the decoded element is wrapped -/
theorem fieldD_repeated_msg (t et : Ty) (gs : Fields) (o : FieldOpt) (body : Bytes) (cur : Val)
    (hr : isRepeated t = some et) (hd : deref et = .struct gs) :
    fieldD t o (.len body) cur
      = (decode (.struct gs) body).map fun e => .list (Vals.ofList (listOf cur ++ [wrapPtr et e])) := by
  unfold fieldD
  rw [hr]
  simp only [hd, zeroOf]
  rw [show 2 * wvLen (.len body) + 4 = (2 * wvLen (.len body) + 3) + 1 from rfl, decodeOne_struct]
  simp only [wvLen]
  rw [decodeMsg_eq_foldD gs body _ _ (by omega), decode_struct_eq]
  cases parse (body.length + 1) body with
  | none => rfl
  | some recs =>
    simp only [Option.bind_some]

theorem nodup_of_gvList (jv : GV) (js : List GV) (hk : KeysNodupV jv) (h : gvList jv = some js) :
    ∀ j, j ∈ js → KeysNodupV j := by
  cases jv with
  | null => simp only [gvList, Option.some.injEq] at h; subst h; intro j hj; simp at hj
  | arr vs =>
    simp only [gvList, Option.some.injEq] at h; subst h
    simp only [KeysNodupV] at hk
    exact fun j hj => keysNodupVs_mem vs j hk hj
  | bool | num | str | obj => simp [gvList] at h

#print axioms parseEntry_rep_msg
#print axioms fieldD_repeated_struct

end Enc.Lemmas.ProtoTemplate
