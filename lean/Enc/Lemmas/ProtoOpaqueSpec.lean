import Enc.Lemmas.ProtoOpaqueDefs
import Enc.Lemmas.ProtoNamedSpec
/-!
# proto: opaque leaves — the reference side

  * `decode_ob`        `Spec.Protobuf.decode (ob t) b = Spec.Protobuf.decode t b`                       (every type)
  * `canonical_ov`     `canonical t (ov t v) = canonical t v` (also `ovF`; `canonTy_ov / canonTy_ovF / canonTyFields_ov`)  (every type)
  * `canonical_ob`     `opaqueCanon t → canonical (ob t) v = canonical t v`
  * `canonical_ob_ov`  `opaqueCanon t → canonical (ob t) (ov t v) = canonical t v`
    UPDATE: `Spec.Protobuf.canonTy` now has a catch-all case for the opaque leaf (`| .named "RawMessage" _, v => v`); the side
    condition holds for every type (`opaqueCanon_all`; `LeafId` is `True`), the unconditional forms are `canonical_ob_any` /
    `canonical_ob_ov_any`. `opaqueCanon` / `opaquePlain` are kept only so that the older `_plain` theorems still read as before.
    (Before the repair `canonTy` fell through to `| .named _ t, v => canonTy t v` for `v ≠ .str []` and compared the leaf like its
    underlying type; `canonical_ob_former_counterexample` is the old counterexample, now an instance of the theorem.)
-/
set_option linter.unusedSimpArgs false
set_option linter.unusedVariables false
namespace Enc.Lemmas.ProtoOpaque
open Enc Enc.Spec.Protobuf
open Enc.Lemmas.ProtoPtrs (mapVals mapVals2)
open Enc.Lemmas.ProtoNamed (deref_named unname_named wrapPtr_named unwrapPtr_named canonTy_named isU8 isU8_eq isU8_false
  canonTy_slice_str)

/-! ## the canonical form: basic facts -/

theorem canonTy_rm_empty (u : Ty) : canonTy (.named "RawMessage" u) (.str []) = .nil := by
  simp [canonTy]

/-- an opaque leaf is compared as the byte string it is (`Spec.Protobuf.canonTy`: the catch-all case for the opaque leaf) -/
theorem canonTy_rm (u : Ty) (v : Val) (h : v ≠ .str []) : canonTy (.named "RawMessage" u) v = v := by
  rw [canonTy]; intro e; exact absurd e h

theorem canonTy_bytes (v : Val) (h : v ≠ .str []) : canonTy .bytes v = v := by
  cases v with
  | str s => cases s <;> simp [canonTy] at h ⊢
  | _ => simp [canonTy]

theorem canonTy_nil : ∀ t : Ty, canonTy t .nil = .nil
  | .named n t => by
    by_cases h : n = "RawMessage"
    · subst h; exact canonTy_rm _ _ (by simp)
    · rw [canonTy_named n t _ h]; exact canonTy_nil t
  | .ptr t => by simp [canonTy]
  | .slice t => by simp [canonTy]
  | .map k v => by simp [canonTy]
  | .struct fs => by simp [canonTy]
  | .bool => by simp [canonTy] | .int k => by simp [canonTy] | .f32 => by simp [canonTy] | .f64 => by simp [canonTy]
  | .str => by simp [canonTy] | .bytes => by simp [canonTy] | .any => by simp [canonTy]
  | .arr n t => by simp [canonTy]

theorem canonTyList_congr (a b : Ty) (h : ∀ v, canonTy a v = canonTy b v) : ∀ vs, canonTyList a vs = canonTyList b vs
  | .nil => by simp [canonTyList]
  | .cons v r => by simp only [canonTyList, h v, canonTyList_congr a b h r]

theorem canonTyMap_congr (a b c d : Ty) (h1 : ∀ v, canonTy a v = canonTy b v) (h2 : ∀ v, canonTy c v = canonTy d v) :
    ∀ kvs, canonTyMap a c kvs = canonTyMap b d kvs
  | .nil => by simp [canonTyMap]
  | .cons k .nil => by simp [canonTyMap]
  | .cons k (.cons v r) => by simp only [canonTyMap, h1 k, h2 v, canonTyMap_congr a b c d h1 h2 r]

theorem canonTyList_mapVals (t : Ty) (f : Val → Val) (h : ∀ v, canonTy t (f v) = canonTy t v) :
    ∀ vs, canonTyList t (mapVals f vs) = canonTyList t vs
  | .nil => by simp [canonTyList, mapVals]
  | .cons v r => by simp only [mapVals, canonTyList, h v, canonTyList_mapVals t f h r]

theorem canonTyMap_mapVals2 (k w : Ty) (f : Val → Val) (h : ∀ v, canonTy w (f v) = canonTy w v) :
    ∀ kvs, canonTyMap k w (mapVals2 f kvs) = canonTyMap k w kvs
  | .nil => by simp [canonTyMap, mapVals2]
  | .cons a .nil => by simp [canonTyMap, mapVals2]
  | .cons a (.cons b r) => by simp only [mapVals2, canonTyMap, h b, canonTyMap_mapVals2 k w f h r]

theorem isU8_ob (t : Ty) : isU8 (ob t) = isU8 t := by
  cases t <;> simp [ob, isU8]
  rename_i n t; by_cases h : n = "RawMessage" <;> simp [h, isU8]

/-! ## 3. the value relabelling is invisible to the comparison form (every type) -/

mutual
theorem canonTy_ov : ∀ (t : Ty) (v : Val), canonTy t (ov t v) = canonTy t v
  | .named n t, v => by
    by_cases h : n = "RawMessage"
    · subst h
      cases v <;> simp only [ov, if_true, leafV]
      rw [canonTy_rm_empty, canonTy_nil]
    · simp only [ov, h, if_false]
      rw [canonTy_named n t _ h, canonTy_named n t _ h]; exact canonTy_ov t v
  | .ptr t, v => by
    cases v <;> simp only [ov]
    simp only [canonTy, canonTy_ov t]
  | .struct fs, v => by
    cases v <;> simp only [ov]
    simp only [canonTy, canonTyFields_ov fs]
  | .slice t, v => by cases v <;> simp only [ov]
  | .map k w, v => by cases v <;> simp only [ov]
  | .bool, v => by cases v <;> simp only [ov]
  | .int k, v => by cases v <;> simp only [ov]
  | .f32, v => by cases v <;> simp only [ov]
  | .f64, v => by cases v <;> simp only [ov]
  | .str, v => by cases v <;> simp only [ov]
  | .bytes, v => by cases v <;> simp only [ov]
  | .any, v => by cases v <;> simp only [ov]
  | .arr n t, v => by cases v <;> simp only [ov]
theorem canonTy_ovF : ∀ (t : Ty) (v : Val), canonTy t (ovF t v) = canonTy t v
  | .named n t, v => by
    by_cases h : n = "RawMessage"
    · subst h
      cases v <;> simp only [ovF, if_true, leafV]
      rw [canonTy_rm_empty, canonTy_nil]
    · simp only [ovF, h, if_false]
      rw [canonTy_named n t _ h, canonTy_named n t _ h]; exact canonTy_ovF t v
  | .ptr t, v => by
    cases v <;> simp only [ovF]
    simp only [canonTy, canonTy_ov t]
  | .struct fs, v => by
    cases v <;> simp only [ovF]
    simp only [canonTy, canonTyFields_ov fs]
  | .slice t, v => by
    cases v <;> simp only [ovF]
    simp only [canonTy, canonTyList_mapVals t (ov t) (canonTy_ov t)]
  | .map k w, v => by
    cases v <;> simp only [ovF]
    simp only [canonTy, canonTyMap_mapVals2 k w (ov w) (canonTy_ov w)]
  | .bool, v => by cases v <;> simp only [ovF]
  | .int k, v => by cases v <;> simp only [ovF]
  | .f32, v => by cases v <;> simp only [ovF]
  | .f64, v => by cases v <;> simp only [ovF]
  | .str, v => by cases v <;> simp only [ovF]
  | .bytes, v => by cases v <;> simp only [ovF]
  | .any, v => by cases v <;> simp only [ovF]
  | .arr n t, v => by cases v <;> simp only [ovF]
theorem canonTyFields_ov : ∀ (fs : Fields) (vs : Vals), canonTyFields fs (ovFields fs vs) = canonTyFields fs vs
  | .nil, vs => by cases vs <;> simp only [ovFields]
  | .cons n tag emb t rest, .nil => by simp only [ovFields]
  | .cons n tag emb t rest, .cons v vs => by
    simp only [ovFields, canonTyFields, canonTy_ovF t v, canonTyFields_ov rest vs]
end

theorem canonTyList_ov (t : Ty) (vs : Vals) : canonTyList t (mapVals (ov t) vs) = canonTyList t vs :=
  canonTyList_mapVals t (ov t) (canonTy_ov t) vs
theorem canonTyMap_ov (k w : Ty) (kvs : Vals) : canonTyMap k w (mapVals2 (ov w) kvs) = canonTyMap k w kvs :=
  canonTyMap_mapVals2 k w (ov w) (canonTy_ov w) kvs

/-- **the value relabelling is invisible to the comparison form** (every type) -/
theorem canonical_ov (t : Ty) (v : Val) : Spec.Protobuf.canonical t (ov t v) = Spec.Protobuf.canonical t v := by
  simp only [canonical, canonTy_ov t v]
theorem canonical_ovF (t : Ty) (v : Val) : Spec.Protobuf.canonical t (ovF t v) = Spec.Protobuf.canonical t v := by
  simp only [canonical, canonTy_ovF t v]

/-! ## 2. the type relabelling and the comparison form

HISTORICAL: before the repair of `Spec.Protobuf.canonTy` (catch-all case for the opaque leaf) `canonTy (ob t) v = canonTy t v` was
false for arbitrary `t` (an opaque leaf was compared like its UNDERLYING type on values other than `.str []`) and needed the side
condition `opaqueCanon` below. Now `LeafId` is `True` and `opaqueCanon_all` discharges it for every type. -/

/-- (formerly: away from the empty byte string the comparison form of `u` is the identity) — no condition is needed any more -/
def LeafId (_u : Ty) : Prop := True

mutual
/-- every opaque leaf (not below arrays) has an underlying type that is compared like a byte string -/
def opaqueCanon : Ty → Prop
  | .named n t => if n = "RawMessage" then LeafId t else opaqueCanon t
  | .ptr t => opaqueCanon t
  | .slice t => opaqueCanon t
  | .map k v => opaqueCanon k ∧ opaqueCanon v
  | .struct fs => opaqueCanonFields fs
  | _ => True
def opaqueCanonFields : Fields → Prop
  | .nil => True
  | .cons _ _ _ t rest => opaqueCanon t ∧ opaqueCanonFields rest
end

theorem canonTy_slice_ob_str (t : Ty) (s : Bytes) : canonTy (.slice (ob t)) (.str s) = canonTy (.slice t) (.str s) := by
  cases ht : isU8 t with
  | true => rw [isU8_eq t ht]; simp only [ob]
  | false =>
    have h1 : isU8 (ob t) = false := by rw [isU8_ob, ht]
    rw [canonTy_slice_str _ h1, canonTy_slice_str _ ht]

mutual
theorem canonTy_ob : ∀ (t : Ty), opaqueCanon t → ∀ v : Val, canonTy (ob t) v = canonTy t v
  | .named n t, h, v => by
    by_cases hn : n = "RawMessage"
    · subst hn
      simp only [opaqueCanon, if_true] at h
      simp only [ob, if_true]
      by_cases hv : v = .str []
      · subst hv; simp [canonTy]
      · rw [canonTy_bytes v hv, canonTy_rm t v hv]
    · simp only [opaqueCanon, hn, if_false] at h
      simp only [ob, hn, if_false]
      rw [canonTy_named n _ v hn, canonTy_named n _ v hn]; exact canonTy_ob t h v
  | .ptr t, h, v => by
    simp only [opaqueCanon] at h
    cases v <;> simp only [ob, canonTy, canonTy_ob t h]
  | .slice t, h, v => by
    simp only [opaqueCanon] at h
    cases v with
    | list vs => simp only [ob, canonTy, canonTyList_congr _ _ (canonTy_ob t h)]
    | str s => simp only [ob]; exact canonTy_slice_ob_str t s
    | _ => simp [ob, canonTy]
  | .map k w, h, v => by
    simp only [opaqueCanon] at h
    cases v <;> simp only [ob, canonTy, canonTyMap_congr _ _ _ _ (canonTy_ob k h.1) (canonTy_ob w h.2)]
  | .struct fs, h, v => by
    simp only [opaqueCanon] at h
    cases v <;> simp only [ob, canonTy, canonTyFields_ob fs h]
  | .bool, _, v => by simp only [ob]
  | .int k, _, v => by simp only [ob]
  | .f32, _, v => by simp only [ob]
  | .f64, _, v => by simp only [ob]
  | .str, _, v => by simp only [ob]
  | .bytes, _, v => by simp only [ob]
  | .any, _, v => by simp only [ob]
  | .arr n t, _, v => by simp only [ob]
theorem canonTyFields_ob : ∀ (fs : Fields), opaqueCanonFields fs → ∀ vs : Vals,
    canonTyFields (obFields fs) vs = canonTyFields fs vs
  | .nil, _, vs => by cases vs <;> simp [obFields, canonTyFields]
  | .cons n tag emb t rest, _, .nil => by simp [obFields, canonTyFields]
  | .cons n tag emb t rest, h, .cons v vs => by
    simp only [opaqueCanonFields] at h
    simp only [obFields, canonTyFields, canonTy_ob t h.1 v, canonTyFields_ob rest h.2 vs]
end

theorem canonTy_ob_all :
    (∀ (t : Ty) (v : Val), opaqueCanon t → canonTy (ob t) v = canonTy t v) ∧
    (∀ (fs : Fields) (vs : Vals), opaqueCanonFields fs → canonTyFields (obFields fs) vs = canonTyFields fs vs) ∧
    (∀ (k v : Ty) (kvs : Vals), opaqueCanon k → opaqueCanon v → canonTyMap (ob k) (ob v) kvs = canonTyMap k v kvs) ∧
    (∀ (t : Ty) (vs : Vals), opaqueCanon t → canonTyList (ob t) vs = canonTyList t vs) :=
  ⟨fun t v h => canonTy_ob t h v, fun fs vs h => canonTyFields_ob fs h vs,
   fun k v kvs hk hv => canonTyMap_congr _ _ _ _ (canonTy_ob k hk) (canonTy_ob v hv) kvs,
   fun t vs h => canonTyList_congr _ _ (canonTy_ob t h) vs⟩

/-- **the comparison form does not see the relabelling** (opaque leaves with a byte-like underlying type) -/
theorem canonical_ob (t : Ty) (h : opaqueCanon t) (v : Val) :
    Spec.Protobuf.canonical (ob t) v = Spec.Protobuf.canonical t v := by
  simp only [canonical, canonTy_ob t h v]

theorem canonical_ob_ov (t : Ty) (h : opaqueCanon t) (v : Val) :
    Spec.Protobuf.canonical (ob t) (ov t v) = Spec.Protobuf.canonical t v := by
  rw [canonical_ob t h, canonical_ov]

mutual
/-- since the repair of `Spec.Protobuf.canonTy` (catch-all case for the opaque leaf) the side condition holds for every type -/
theorem opaqueCanon_all : ∀ t : Ty, opaqueCanon t
  | .named n t => by
    by_cases hn : n = "RawMessage"
    · subst hn; simp only [opaqueCanon, if_true]; trivial
    · simp only [opaqueCanon, hn, if_false]; exact opaqueCanon_all t
  | .ptr t => by simp only [opaqueCanon]; exact opaqueCanon_all t
  | .slice t => by simp only [opaqueCanon]; exact opaqueCanon_all t
  | .map k w => by simp only [opaqueCanon]; exact ⟨opaqueCanon_all k, opaqueCanon_all w⟩
  | .struct fs => by simp only [opaqueCanon]; exact opaqueCanonFields_all fs
  | .bool | .int _ | .f32 | .f64 | .str | .bytes | .any | .arr _ _ => by simp only [opaqueCanon]
theorem opaqueCanonFields_all : ∀ fs : Fields, opaqueCanonFields fs
  | .nil => by simp only [opaqueCanonFields]
  | .cons _ _ _ t rest => by simp only [opaqueCanonFields]; exact ⟨opaqueCanon_all t, opaqueCanonFields_all rest⟩
end

/-- **the comparison form does not see the relabelling — every type** (the former counterexample, an opaque leaf of struct kind
holding a struct value, is now compared as the leaf it is) -/
theorem canonical_ob_any (t : Ty) (v : Val) : Spec.Protobuf.canonical (ob t) v = Spec.Protobuf.canonical t v :=
  canonical_ob t (opaqueCanon_all t) v
theorem canonical_ob_ov_any (t : Ty) (v : Val) : Spec.Protobuf.canonical (ob t) (ov t v) = Spec.Protobuf.canonical t v :=
  canonical_ob_ov t (opaqueCanon_all t) v

theorem canonical_ob_former_counterexample :
    let t : Ty := .named "RawMessage" (.struct .nil)
    let v : Val := .struct (.cons (.int 0) .nil)
    Spec.Protobuf.canonical (ob t) v = Spec.Protobuf.canonical t v := canonical_ob_any _ _

/-! ## 1. the reference decoder does not see the relabelling (every type) -/

theorem zeroOf_named (n : String) (t : Ty) (h : n ≠ "RawMessage") :
    Spec.Protobuf.zeroOf (.named n t) = Spec.Protobuf.zeroOf t := by
  rw [Spec.Protobuf.zeroOf]; intro e; exact absurd e h

mutual
theorem szeroOf_ob : ∀ t : Ty, Spec.Protobuf.zeroOf (ob t) = Spec.Protobuf.zeroOf t
  | .named n t => by
    by_cases h : n = "RawMessage"
    · subst h; simp [ob, Spec.Protobuf.zeroOf]
    · simp only [ob, h, if_false]; rw [zeroOf_named n _ h, zeroOf_named n _ h]; exact szeroOf_ob t
  | .ptr t => by simp [ob, Spec.Protobuf.zeroOf]
  | .slice t => by simp [ob, Spec.Protobuf.zeroOf]
  | .map k v => by simp [ob, Spec.Protobuf.zeroOf]
  | .struct fs => by simp only [ob, Spec.Protobuf.zeroOf, szeroFields_ob fs]
  | .bool => by simp only [ob] | .int k => by simp only [ob] | .f32 => by simp only [ob] | .f64 => by simp only [ob]
  | .str => by simp only [ob] | .bytes => by simp only [ob] | .any => by simp only [ob]
  | .arr n t => by simp only [ob]
theorem szeroFields_ob : ∀ fs : Fields, Spec.Protobuf.zeroFields (obFields fs) = Spec.Protobuf.zeroFields fs
  | .nil => by simp only [obFields]
  | .cons name tag emb t rest => by
    simp only [obFields, Spec.Protobuf.zeroFields, szeroOf_ob t, szeroFields_ob rest]
end

/-- what `deref` returns: not a pointer, and a defined type only if it is an opaque leaf -/
def headB : Ty → Bool
  | .ptr _ => false
  | .named n _ => n == "RawMessage"
  | _ => true

/-- what `unname` returns: a defined type only if it is an opaque leaf -/
def headU : Ty → Bool
  | .named n _ => n == "RawMessage"
  | _ => true

theorem deref_ob : ∀ t : Ty, deref (ob t) = ob (deref t) ∧ headB (deref t) = true
  | .named n t => by
    by_cases h : n = "RawMessage"
    · subst h; simp [ob, deref, headB]
    · simp only [ob, h, if_false]; rw [deref_named n _ h, deref_named n _ h]; exact deref_ob t
  | .ptr t => by simp only [ob, deref]; exact deref_ob t
  | .slice t => by simp [ob, deref, headB]
  | .map k v => by simp [ob, deref, headB]
  | .struct fs => by simp [ob, deref, headB]
  | .bool => by simp [ob, deref, headB] | .int k => by simp [ob, deref, headB] | .f32 => by simp [ob, deref, headB]
  | .f64 => by simp [ob, deref, headB] | .str => by simp [ob, deref, headB] | .bytes => by simp [ob, deref, headB]
  | .any => by simp [ob, deref, headB]
  | .arr n t => by simp [ob, deref, headB]

theorem unname_ob : ∀ t : Ty, unname (ob t) = ob (unname t) ∧ headU (unname t) = true
  | .named n t => by
    by_cases h : n = "RawMessage"
    · subst h; simp [ob, unname, headU]
    · simp only [ob, h, if_false]; rw [unname_named n _ h, unname_named n _ h]; exact unname_ob t
  | .ptr t => by simp [ob, unname, headU]
  | .slice t => by simp [ob, unname, headU]
  | .map k v => by simp [ob, unname, headU]
  | .struct fs => by simp [ob, unname, headU]
  | .bool => by simp [ob, unname, headU] | .int k => by simp [ob, unname, headU] | .f32 => by simp [ob, unname, headU]
  | .f64 => by simp [ob, unname, headU] | .str => by simp [ob, unname, headU] | .bytes => by simp [ob, unname, headU]
  | .any => by simp [ob, unname, headU]
  | .arr n t => by simp [ob, unname, headU]

theorem wrapPtr_ob (v : Val) : ∀ t : Ty, wrapPtr (ob t) v = wrapPtr t v
  | .named n t => by
    by_cases h : n = "RawMessage"
    · subst h; simp [ob, wrapPtr]
    · simp only [ob, h, if_false]; rw [wrapPtr_named n _ v h, wrapPtr_named n _ v h]; exact wrapPtr_ob v t
  | .ptr t => by simp only [ob, wrapPtr, wrapPtr_ob v t]
  | .slice t => by simp [ob, wrapPtr]
  | .map k w => by simp [ob, wrapPtr]
  | .struct fs => by simp [ob, wrapPtr]
  | .bool => by simp only [ob] | .int k => by simp only [ob] | .f32 => by simp only [ob] | .f64 => by simp only [ob]
  | .str => by simp only [ob] | .bytes => by simp only [ob] | .any => by simp only [ob]
  | .arr n t => by simp only [ob]

theorem unwrapPtr_ob : ∀ (t : Ty) (v : Val), unwrapPtr (ob t) v = unwrapPtr t v
  | .named n t, v => by
    by_cases h : n = "RawMessage"
    · subst h; simp [ob, unwrapPtr]
    · simp only [ob, h, if_false]; rw [unwrapPtr_named n _ v h, unwrapPtr_named n _ v h]; exact unwrapPtr_ob t v
  | .ptr t, v => by
    cases v <;> simp only [ob, unwrapPtr, (deref_ob t).1, szeroOf_ob]
    exact unwrapPtr_ob t _
  | .slice t, v => by cases v <;> simp [ob, unwrapPtr]
  | .map k w, v => by cases v <;> simp [ob, unwrapPtr]
  | .struct fs, v => by cases v <;> simp [ob, unwrapPtr]
  | .bool, v => by simp only [ob] | .int k, v => by simp only [ob] | .f32, v => by simp only [ob]
  | .f64, v => by simp only [ob] | .str, v => by simp only [ob] | .bytes, v => by simp only [ob]
  | .any, v => by simp only [ob]
  | .arr n t, v => by simp only [ob]

/-! ### repeated fields, field lookup -/

open Enc.Lemmas.ProtoNamed (isRepeated_unname isRepeated_slice decodeOne_slice_none) in
theorem isRepeated_ob (t : Ty) : isRepeated (ob t) = (isRepeated t).map ob := by
  obtain ⟨hu, hh⟩ := unname_ob t
  rw [← isRepeated_unname (ob t), ← isRepeated_unname t, hu]
  generalize unname t = u at hh
  cases u with
  | named n x =>
    have hn : n = "RawMessage" := by simpa [headU] using hh
    subst hn; simp [ob, isRepeated, unname]
  | slice e =>
    simp only [ob]
    cases he : isU8 e with
    | true => rw [isU8_eq e he]; simp [ob, isRepeated, unname]
    | false =>
      have h1 : isU8 (ob e) = false := by rw [isU8_ob, he]
      rw [isRepeated_slice _ h1, isRepeated_slice _ he]; rfl
  | _ => simp [ob, isRepeated, unname]

theorem findField_go_ob (num : Nat) : ∀ (fs : Fields) (i : Nat),
    findField.go num (obFields fs) i = (findField.go num fs i).map (fun p => (p.1, p.2.1, ob p.2.2))
  | .nil, i => by simp [obFields, findField.go]
  | .cons name tag emb t rest, i => by
    simp only [obFields, findField.go]
    by_cases hn : (fieldOpt (i + 1) tag).number = num
    · simp only [hn, if_true, Option.map_some]
    · simp only [hn, if_false]
      exact findField_go_ob num rest (i + 1)

theorem findField_ob (num : Nat) (fs : Fields) :
    findField (obFields fs) num = (findField fs num).map (fun p => (p.1, p.2.1, ob p.2.2)) :=
  findField_go_ob num fs 0

/-! ### the decoder -/

open Enc.Lemmas.ProtoNamed (decodeOne_slice_none) in
/-- one occurrence of a `deref`-ed type -/
theorem decodeOne_ob_step (f : Nat)
    (ihM : ∀ fs b vs, decodeMsg f (obFields fs) b vs = decodeMsg f fs b vs)
    (t : Ty) (o : FieldOpt) (w : WireVal) (cur : Val) (hh : headB t = true) :
    decodeOne (f + 1) (ob t) o w cur = decodeOne (f + 1) t o w cur := by
  cases t with
  | ptr x => simp [headB] at hh
  | named n x =>
    have hn : n = "RawMessage" := by simpa [headB] using hh
    subst hn
    cases w <;> simp [ob, decodeOne]
  | slice e =>
    simp only [ob]
    cases he : isU8 e with
    | true => rw [isU8_eq e he]; simp only [ob]
    | false =>
      have h1 : isU8 (ob e) = false := by rw [isU8_ob, he]
      rw [decodeOne_slice_none _ _ _ _ _ h1, decodeOne_slice_none _ _ _ _ _ he]
  | map k v => cases w <;> simp [ob, decodeOne]
  | struct fs =>
    cases w <;> simp only [ob, decodeOne]
    cases cur <;> simp only []
    rw [ihM fs _ _]
  | _ => simp only [ob]

theorem decodeRecs_ob_step (f : Nat)
    (ihO : ∀ t o w cur, headB t = true → decodeOne f (ob t) o w cur = decodeOne f t o w cur)
    (ihM : ∀ fs b vs, decodeMsg f (obFields fs) b vs = decodeMsg f fs b vs)
    (ihR : ∀ fs recs vs, decodeRecs f (obFields fs) recs vs = decodeRecs f fs recs vs)
    (fs : Fields) (recs : List (Nat × WireVal)) (vs : Vals) :
    decodeRecs (f + 1) (obFields fs) recs vs = decodeRecs (f + 1) fs recs vs := by
  cases recs with
  | nil => simp [decodeRecs]
  | cons r rest =>
    obtain ⟨num, w⟩ := r
    simp only [decodeRecs, findField_ob num fs]
    cases hf : findField fs num with
    | none => simp only [Option.map_none]; exact ihR fs rest vs
    | some p =>
      obtain ⟨i, o, t⟩ := p
      simp only [Option.map_some, isRepeated_ob t]
      cases hr : isRepeated t with
      | some et =>
        obtain ⟨hd, hdh⟩ := deref_ob et
        simp only [Option.map_some, hd, szeroOf_ob, ihO _ o w _ hdh, wrapPtr_ob _ et, ihR fs _ _]
      | none =>
        obtain ⟨hu, huh⟩ := unname_ob t
        obtain ⟨hd, hdh⟩ := deref_ob t
        simp only [Option.map_none, hu, hd, ihO _ o w _ hdh, wrapPtr_ob _ t, unwrapPtr_ob t _, ihR fs _ _]
        generalize unname t = u at huh
        cases u with
        | map kt vt =>
          have he : Fields.cons "Key" "" false (ob kt) (.cons "Elem" "" false (ob vt) .nil)
              = obFields (Fields.cons "Key" "" false kt (.cons "Elem" "" false vt .nil)) := by
            simp only [obFields]
          cases w <;> simp only [ob]
          rw [he, ihM _ _ _, szeroFields_ob]
        | named n x =>
          have hn : n = "RawMessage" := by simpa [headU] using huh
          subst hn
          cases w <;> simp only [ob, if_true]
        | _ => cases w <;> simp only [ob]

theorem decode_ob_aux (f : Nat) :
    (∀ t o w cur, headB t = true → decodeOne f (ob t) o w cur = decodeOne f t o w cur) ∧
    (∀ fs b vs, decodeMsg f (obFields fs) b vs = decodeMsg f fs b vs) ∧
    (∀ fs recs vs, decodeRecs f (obFields fs) recs vs = decodeRecs f fs recs vs) := by
  induction f with
  | zero =>
    refine ⟨fun t o w cur _ => by simp [decodeOne], fun fs b vs => by simp [decodeMsg], fun fs recs vs => by
      simp [decodeRecs]⟩
  | succ f ih =>
    obtain ⟨ihO, ihM, ihR⟩ := ih
    refine ⟨fun t o w cur hh => decodeOne_ob_step f ihM t o w cur hh, fun fs b vs => ?_,
      fun fs recs vs => decodeRecs_ob_step f ihO ihM ihR fs recs vs⟩
    simp only [decodeMsg, ihR fs _ _]

/-- **the reference decoder does not see the relabelling of opaque leaves** (every type) -/
theorem decode_ob (t : Ty) (b : Bytes) : Spec.Protobuf.decode (ob t) b = Spec.Protobuf.decode t b := by
  obtain ⟨hd, hdh⟩ := deref_ob t
  simp only [Spec.Protobuf.decode, hd]
  generalize deref t = u at hdh
  cases u with
  | struct fs => simp only [ob, (decode_ob_aux _).2.1 fs _ _, szeroFields_ob fs, wrapPtr_ob _ t]
  | named n x =>
    have hn : n = "RawMessage" := by simpa [headB] using hdh
    subst hn; simp only [ob, if_true]
  | _ => simp only [ob]

/-! ## the side condition of 2: exactness, and a decidable sufficient criterion -/

mutual
/-- the condition `opaqueCanon` is also NECESSARY for `canonTy (ob t) = canonTy t` -/
theorem opaqueCanon_of_canonTy_ob : ∀ (t : Ty), (∀ v : Val, canonTy (ob t) v = canonTy t v) → opaqueCanon t
  | .named n t, h => by
    by_cases hn : n = "RawMessage"
    · subst hn
      simp only [opaqueCanon, if_true]
      trivial
    · simp only [opaqueCanon, hn, if_false]
      refine opaqueCanon_of_canonTy_ob t fun v => ?_
      have := h v
      simp only [ob, hn, if_false] at this
      rwa [canonTy_named n _ v hn, canonTy_named n _ v hn] at this
  | .ptr t, h => by
    simp only [opaqueCanon]
    refine opaqueCanon_of_canonTy_ob t fun v => ?_
    have := h (.ptr v)
    simpa only [ob, canonTy, Val.ptr.injEq] using this
  | .slice t, h => by
    simp only [opaqueCanon]
    refine opaqueCanon_of_canonTy_ob t fun v => ?_
    have := h (.list (.cons v .nil))
    simp only [ob, canonTy, canonTyList, Val.list.injEq, Vals.cons.injEq, and_true] at this
    exact this
  | .map k w, h => by
    simp only [opaqueCanon]
    refine ⟨opaqueCanon_of_canonTy_ob k fun v => ?_, opaqueCanon_of_canonTy_ob w fun v => ?_⟩
    · have := h (.map (.cons v (.cons .nil .nil)))
      simp only [ob, canonTy, canonTyMap, Val.map.injEq, Vals.cons.injEq, and_true] at this
      exact this.1
    · have := h (.map (.cons .nil (.cons v .nil)))
      simp only [ob, canonTy, canonTyMap, Val.map.injEq, Vals.cons.injEq, and_true] at this
      exact this.2
  | .struct fs, h => by
    simp only [opaqueCanon]
    refine opaqueCanonFields_of_canonTyFields_ob fs fun vs => ?_
    have := h (.struct vs)
    simpa only [ob, canonTy, Val.struct.injEq] using this
  | .bool, _ => by simp only [opaqueCanon]
  | .int k, _ => by simp only [opaqueCanon]
  | .f32, _ => by simp only [opaqueCanon]
  | .f64, _ => by simp only [opaqueCanon]
  | .str, _ => by simp only [opaqueCanon]
  | .bytes, _ => by simp only [opaqueCanon]
  | .any, _ => by simp only [opaqueCanon]
  | .arr n t, _ => by simp only [opaqueCanon]
theorem opaqueCanonFields_of_canonTyFields_ob : ∀ (fs : Fields),
    (∀ vs : Vals, canonTyFields (obFields fs) vs = canonTyFields fs vs) → opaqueCanonFields fs
  | .nil, _ => by simp only [opaqueCanonFields]
  | .cons n tag emb t rest, h => by
    simp only [opaqueCanonFields]
    refine ⟨opaqueCanon_of_canonTy_ob t fun v => ?_, opaqueCanonFields_of_canonTyFields_ob rest fun vs => ?_⟩
    · have := h (.cons v .nil)
      simp only [obFields, canonTyFields, Vals.cons.injEq] at this
      exact this.1
    · have := h (.cons .nil vs)
      simp only [obFields, canonTyFields, Vals.cons.injEq] at this
      exact this.2
end

/-- `opaqueCanon` is exactly the condition under which the type-directed part of the comparison form ignores `ob` -/
theorem canonTy_ob_iff (t : Ty) : (∀ v : Val, canonTy (ob t) v = canonTy t v) ↔ opaqueCanon t :=
  ⟨opaqueCanon_of_canonTy_ob t, canonTy_ob t⟩

/-- decidable sufficient criterion for `LeafId`: scalars, strings, byte strings, arrays (behind defined types) -/
def plainLeaf : Ty → Bool
  | .bool | .int _ | .f32 | .f64 | .str | .bytes | .any | .arr _ _ => true
  | .slice t => isU8 t
  | .named _ t => plainLeaf t
  | _ => false

theorem canonTyList_u8 : ∀ vs : Vals, canonTyList (.int .u8) vs = vs
  | .nil => by simp [canonTyList]
  | .cons v r => by simp [canonTyList, canonTy, canonTyList_u8 r]

theorem LeafId_of_plainLeaf (u : Ty) (_h : plainLeaf u = true) : LeafId u := trivial

mutual
/-- decidable version of `opaqueCanon`: the underlying type of every opaque leaf is `plainLeaf` (e.g. `[]byte`) -/
def opaquePlain : Ty → Bool
  | .named n t => if n = "RawMessage" then plainLeaf t else opaquePlain t
  | .ptr t => opaquePlain t
  | .slice t => opaquePlain t
  | .map k v => opaquePlain k && opaquePlain v
  | .struct fs => opaquePlainFields fs
  | _ => true
def opaquePlainFields : Fields → Bool
  | .nil => true
  | .cons _ _ _ t rest => opaquePlain t && opaquePlainFields rest
end

mutual
theorem opaqueCanon_of_plain : ∀ t : Ty, opaquePlain t = true → opaqueCanon t
  | .named n t, h => by
    by_cases hn : n = "RawMessage"
    · subst hn
      simp only [opaquePlain, if_true] at h
      simp only [opaqueCanon, if_true]; exact LeafId_of_plainLeaf t h
    · simp only [opaquePlain, hn, if_false] at h
      simp only [opaqueCanon, hn, if_false]; exact opaqueCanon_of_plain t h
  | .ptr t, h => by simp only [opaquePlain] at h; simp only [opaqueCanon]; exact opaqueCanon_of_plain t h
  | .slice t, h => by simp only [opaquePlain] at h; simp only [opaqueCanon]; exact opaqueCanon_of_plain t h
  | .map k w, h => by
    simp only [opaquePlain, Bool.and_eq_true] at h
    simp only [opaqueCanon]; exact ⟨opaqueCanon_of_plain k h.1, opaqueCanon_of_plain w h.2⟩
  | .struct fs, h => by
    simp only [opaquePlain] at h; simp only [opaqueCanon]; exact opaqueCanonFields_of_plain fs h
  | .bool, _ => by simp only [opaqueCanon]
  | .int k, _ => by simp only [opaqueCanon]
  | .f32, _ => by simp only [opaqueCanon]
  | .f64, _ => by simp only [opaqueCanon]
  | .str, _ => by simp only [opaqueCanon]
  | .bytes, _ => by simp only [opaqueCanon]
  | .any, _ => by simp only [opaqueCanon]
  | .arr n t, _ => by simp only [opaqueCanon]
theorem opaqueCanonFields_of_plain : ∀ fs : Fields, opaquePlainFields fs = true → opaqueCanonFields fs
  | .nil, _ => by simp only [opaqueCanonFields]
  | .cons n tag emb t rest, h => by
    simp only [opaquePlainFields, Bool.and_eq_true] at h
    simp only [opaqueCanonFields]; exact ⟨opaqueCanon_of_plain t h.1, opaqueCanonFields_of_plain rest h.2⟩
end

/-- decidable form of `canonical_ob` -/
theorem canonical_ob_plain (t : Ty) (h : opaquePlain t = true) (v : Val) :
    Spec.Protobuf.canonical (ob t) v = Spec.Protobuf.canonical t v :=
  canonical_ob t (opaqueCanon_of_plain t h) v
/-- decidable form of `canonical_ob_ov` -/
theorem canonical_ob_ov_plain (t : Ty) (h : opaquePlain t = true) (v : Val) :
    Spec.Protobuf.canonical (ob t) (ov t v) = Spec.Protobuf.canonical t v :=
  canonical_ob_ov t (opaqueCanon_of_plain t h) v

/-! ## non-vacuity -/

/-- a message with an opaque leaf (`RawMessage` = `[]byte`), a pointer to one, a slice of them, a map with opaque values -/
def exTy : Ty := .ptr (.struct
  (.cons "A" "" false (.named "RawMessage" .bytes)
  (.cons "B" "" false (.ptr (.named "RawMessage" (.slice (.int .u8))))
  (.cons "C" "" false (.slice (.named "RawMessage" .bytes))
  (.cons "D" "" false (.map .str (.named "RawMessage" .bytes)) .nil)))))

example : opaquePlain exTy = true := by decide
example : ob exTy ≠ exTy := by simp [exTy, ob, obFields]
-- field 1 = "ab", field 3 = "" : the two decoders return the same (non-trivial) value
#guard (Spec.Protobuf.decode (ob exTy) [0x0a, 2, 0x61, 0x62, 0x1a, 0]).map Val.show = some "p t 4 s 6162 nil l 1 s - nil"
example : Spec.Protobuf.decode (ob exTy) [0x0a, 2, 0x61, 0x62, 0x1a, 0] = Spec.Protobuf.decode exTy [0x0a, 2, 0x61, 0x62, 0x1a, 0] :=
  decode_ob exTy _
-- `ov` really changes the value (nil leaf ↦ empty byte string), the comparison form does not see it
example : ov exTy (.ptr (.struct (.cons .nil (.cons .nil (.cons .nil (.cons .nil .nil))))))
    = .ptr (.struct (.cons (.str []) (.cons .nil (.cons .nil (.cons .nil .nil))))) := by
  simp [exTy, ov, ovFields, ovF, leafV]

#print axioms decode_ob
#print axioms canonTy_ob_all
#print axioms canonTy_ob_iff
#print axioms canonical_ob
#print axioms canonical_ov
#print axioms canonical_ob_ov
#print axioms canonical_ob_plain
#print axioms canonical_ob_ov_plain
#print axioms canonical_ob_any
#print axioms canonTy_ov
#print axioms canonTy_ovF
#print axioms canonTyFields_ov

end Enc.Lemmas.ProtoOpaque
