import Enc.Lemmas.ProtoTemplateBitOr
/-!
# Which templates `parseTemplate` rejects

* a member whose key names no field of the message type: never accepted (`parseMembers_ok_known`,
  `parseStruct_unknown_rejected`) — Go: "rewrite template contained an invalid field named %q";
* a template that is not a JSON object (or `null`): rejected (`parseStruct_nonobject_rejected`);
* a non-message type: rejected (`parseTemplate_nonstruct`);
* a member that denotes no value of its leaf kind (wrong JSON kind, fraction/exponent or out-of-range integer literal):
  `parseLeaf` returns the json error (`leaf_sem`, case `leafVal = none`);
* no `BitOr` rule ⇒ no `bitOr` leaf is ever built by `parseLeaf`.
-/
namespace Enc.Lemmas.ProtoTemplate
open Enc Enc.Model.Proto
open Enc.Model.Json (GV GMs)

def keysKnown (fs : TFields) : GMs → Bool
  | .nil => true
  | .cons k _ rest => (lookupFieldByName fs k).isSome && keysKnown fs rest

theorem parseMembers_ok_known (pf : PF) (fs : TFields) (rules : List Rules) :
    ∀ (ms : GMs) (fuel : Nat) (ents : List (Nat × RwT)), parseMembers pf fuel fs ms rules = .ok ents → keysKnown fs ms = true
  | .nil, _, _, _ => rfl
  | .cons k v rest, 0, ents, h => by simp [parseMembers] at h
  | .cons k v rest, fuel + 1, ents, h => by
    simp only [parseMembers] at h
    cases hl : lookupFieldByName fs k with
    | none => simp [hl] at h
    | some p =>
      obtain ⟨number, rep, t⟩ := p
      simp only [hl] at h
      cases hfl : (if rep = true then gvList v else some [v]) with
      | none => simp [hfl] at h
      | some fields =>
        simp only [hfl] at h
        cases he : parseElems pf fuel t number rep fields (findRule rules k) with
        | err e => simp [he, Res.bind] at h
        | panic e => simp [he, Res.bind] at h
        | ok rws =>
          simp only [he, Res.bind] at h
          cases hr : parseMembers pf fuel fs rest rules with
          | err e => simp [hr] at h
          | panic e => simp [hr] at h
          | ok ents' =>
            simp only [keysKnown, hl, Option.isSome_some, Bool.true_and]
            exact parseMembers_ok_known pf fs rules rest fuel ents' hr

/-- a template naming an unknown field is never accepted, whatever the fuel, the rules and the other members -/
theorem parseStruct_unknown_rejected (pf : PF) (fs : TFields) (f : Nat) (ms : GMs) (rules : List Rules) (fuel : Nat)
    (r : RwT) (hk : keysKnown fs ms = false) : parseStruct pf fuel fs f (.obj ms) rules ≠ .ok r := by
  intro h
  cases fuel with
  | zero => simp [parseStruct] at h
  | succ n =>
    simp only [parseStruct, gvObj] at h
    cases hm : parseMembers pf n fs ms rules with
    | err e => simp [hm, Res.bind] at h
    | panic e => simp [hm, Res.bind] at h
    | ok ents => rw [parseMembers_ok_known pf fs rules ms n ents hm] at hk; cases hk

theorem parseStruct_nonobject_rejected (pf : PF) (fs : TFields) (f : Nat) (j : GV) (rules : List Rules) (fuel : Nat)
    (r : RwT) (hj : gvObj j = none) : parseStruct pf fuel fs f j rules ≠ .ok r := by
  intro h
  cases fuel with
  | zero => simp [parseStruct] at h
  | succ n => simp [parseStruct, hj] at h

theorem parseTemplate_nonstruct (pf : PF) (fuel : Nat) (t : TType) (j : GV) (rules : List Rules)
    (ht : ∀ fs, t ≠ .msg fs) : parseTemplate pf fuel t j rules = .err "nonStruct" := by
  cases t with
  | msg fs => exact absurd rfl (ht fs)
  | prim k => rfl
  | map k v => rfl

end Enc.Lemmas.ProtoTemplate
