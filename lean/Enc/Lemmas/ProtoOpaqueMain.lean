import Enc.Lemmas.ProtoOpaqueEntry
import Enc.Lemmas.ProtoOpaqueSpec
/-!
# proto: the round-trip / wire-format theorems on message types with OPAQUE LEAVES (types encoded through their methods)

Universe `tyOK4 ⊇ tyOK3`, `tyOKM4 ⊇ tyOKM3` (ProtoOpaqueEntry): `opaqueSafe t`, and the relabelled type `ob t` (every opaque leaf
`.named "RawMessage" u` replaced by `[]byte`) in `tyOK3` resp. `tyOKM3`. So a user-defined message type (implementer of
`proto.Message` / of the gogo custom interface; `proto.RawMessage` is one) may be used wherever `[]byte` may: as a field, as an
element (`[]U`, `[]*U`), as a map value, inside nested messages, behind defined types — whatever its underlying Go type `u` is
(struct kind included: `embeddedStruct` stops at such a type, `isStructBase` uses `embBase`).
NOT in the universe: `*U` as a field or as a map value, because `*[]byte` is not in `tyOK` (`ptrTarget`): `ptr_leaf_excluded`.

The proof is a TRANSLATION (nothing in the proofs on `tyOK … tyOK3` is touched):
  * `ProtoOpaqueModel`   `encode (obC c) (ovC c v) fl = encode c v fl`, `decode fuel d (obC c) b cur fl = decode fuel d c b cur fl`
  * `ProtoOpaqueBridge`  `codecOf (ob t) = obC (codecOf t)`, `ovC (codecOf t) = ov t`, zero values
  * `ProtoOpaqueSpec`    `Spec.decode (ob t) b = Spec.decode t b` (every `t`, every `b`), `canonical t (ov t v) = canonical t v`,
                         and `canonical (ob t) v = canonical t v` under `opaquePlain t`
  * `ProtoOpaqueEntry`   `marshal_ob`, `unmarshal_ob`, the universes, `struct_bytes_opaque`
  * here                 the theorems of C03 / C12.

Comparison form. UPDATE: `Spec.Protobuf.canonTy` now HAS a catch-all case for an opaque leaf, so the `…_canon` theorems below state
the full results with `canonical t` and no `opaquePlain`. HISTORICAL (the two older versions): it used to FALL THROUGH
to `| .named _ t, v => canonTy t v`, i.e. it compared the leaf like its underlying type `u`.
For the values a leaf really has (`.str _`, `.nil`) that makes no difference, for arbitrary values it does when `u` is a struct,
pointer, slice or map. Therefore each canonical-form theorem comes in two versions:
  * `…_opaque_ob`  on all of `tyOK4` / `tyOKM4` (struct-kind leaves included), compared with `canonical (ob t)`, the comparison form
                   that treats a leaf as the byte string it is;
  * `…_opaque`     compared with `canonical t` as in C03 / C12, under the extra hypothesis `opaquePlain t` (the underlying type of
                   every leaf is a scalar / string / byte string / array, possibly behind defined types — `proto.RawMessage` is).
FULL STATEMENT not proved here: `…_opaque` without `opaquePlain` (needs: the leaves of a decoder output are `.str _`; or the
one-line repair `| .named "RawMessage" _, v => v` in `canonTy`, after which `canonical_ob` holds for every type).
The theorems that do not mention `canonical` (`struct_bytes_*_opaque`, `unmarshal_of_reference_decode_*_opaque`,
`unmarshal_iff_reference_decode_opaque`, `marshal_ob`, `unmarshal_ob`, `decode_ob`) hold on all of `tyOK4` / `tyOKM4`.
-/
set_option linter.unusedSimpArgs false
set_option linter.unusedVariables false
namespace Enc.Lemmas.ProtoOpaque
open Enc Enc.Model.Proto
open Enc.Lemmas.ProtoWire Enc.Lemmas.ProtoMap Enc.Lemmas.ProtoLiberal Enc.Lemmas.ProtoLiberalMap
open Enc.Lemmas.ProtoNamed (nameSafe nameSafeFields erase eraseFields)
open Enc.Lemmas.ProtoPtrs
open Enc.Spec.Protobuf (canonical)

/-! ## C03 Unmarshal ∘ Marshal -/

theorem unmarshal_marshal_partial_opaque_ob (fs : Fields) (v : Val)
    (hty : tyOK4 (.struct fs) = true) (hp : ptrsOK4 (.struct fs) v = true) (hv : hasType4 (.struct fs) v = true)
    (hne : noEmptyPtr4 (.struct fs) v = true) (hlen : (marshal (.struct fs) v).length < 2 ^ 64)
    (hdep : Codec.nesting (codecOf (.struct fs)) ≤ Gen.c_proto_maxDepth) :
    ∃ v', unmarshal (.struct fs) (marshal (.struct fs) v) = .ok v'
      ∧ canonical (ob (.struct fs)) v' = canonical (ob (.struct fs)) (ov (.struct fs) v) := by
  obtain ⟨ht, hs⟩ := tyOK4_struct hty
  rw [← nesting_ob fs hs] at hdep
  rw [← marshal_ob fs hs] at hlen ⊢
  rw [← unmarshal_ob fs hs]
  simp only [ptrsOK4, hasType4, noEmptyPtr4, ob] at *
  exact unmarshal_marshal_partial_ptrs (obFields fs) _ ht hp hv hne hlen hdep

theorem unmarshal_marshal_map_partial_opaque_ob (fs : Fields) (v : Val)
    (hty : tyOKM4 (.struct fs) = true) (hp : ptrsOK4 (.struct fs) v = true) (hv : hasTypeM4 (.struct fs) v = true)
    (hne : valOKM4 (.struct fs) v = true) (hlen : (marshal (.struct fs) v).length < 2 ^ 64)
    (hdep : Codec.nesting (codecOf (.struct fs)) ≤ Gen.c_proto_maxDepth) :
    ∃ v', unmarshal (.struct fs) (marshal (.struct fs) v) = .ok v'
      ∧ canonical (ob (.struct fs)) v' = canonical (ob (.struct fs)) (ov (.struct fs) v) := by
  obtain ⟨ht, hs⟩ := tyOKM4_struct hty
  rw [← nesting_ob fs hs] at hdep
  rw [← marshal_ob fs hs] at hlen ⊢
  rw [← unmarshal_ob fs hs]
  simp only [ptrsOK4, hasTypeM4, valOKM4, ob] at *
  exact unmarshal_marshal_map_partial_ptrs (obFields fs) _ ht hp hv hne hlen hdep

/- FULL STATEMENT (not proved): the next two theorems without `hpl`. -/
theorem unmarshal_marshal_partial_opaque (fs : Fields) (v : Val)
    (hty : tyOK4 (.struct fs) = true) (hpl : opaquePlain (.struct fs) = true)
    (hp : ptrsOK4 (.struct fs) v = true) (hv : hasType4 (.struct fs) v = true)
    (hne : noEmptyPtr4 (.struct fs) v = true) (hlen : (marshal (.struct fs) v).length < 2 ^ 64)
    (hdep : Codec.nesting (codecOf (.struct fs)) ≤ Gen.c_proto_maxDepth) :
    ∃ v', unmarshal (.struct fs) (marshal (.struct fs) v) = .ok v'
      ∧ canonical (.struct fs) v' = canonical (.struct fs) v := by
  obtain ⟨v', h1, h2⟩ := unmarshal_marshal_partial_opaque_ob fs v hty hp hv hne hlen hdep
  exact ⟨v', h1, by rw [← canonical_ob_plain _ hpl, h2, canonical_ob_ov_plain _ hpl]⟩

theorem unmarshal_marshal_map_partial_opaque (fs : Fields) (v : Val)
    (hty : tyOKM4 (.struct fs) = true) (hpl : opaquePlain (.struct fs) = true)
    (hp : ptrsOK4 (.struct fs) v = true) (hv : hasTypeM4 (.struct fs) v = true)
    (hne : valOKM4 (.struct fs) v = true) (hlen : (marshal (.struct fs) v).length < 2 ^ 64)
    (hdep : Codec.nesting (codecOf (.struct fs)) ≤ Gen.c_proto_maxDepth) :
    ∃ v', unmarshal (.struct fs) (marshal (.struct fs) v) = .ok v'
      ∧ canonical (.struct fs) v' = canonical (.struct fs) v := by
  obtain ⟨v', h1, h2⟩ := unmarshal_marshal_map_partial_opaque_ob fs v hty hp hv hne hlen hdep
  exact ⟨v', h1, by rw [← canonical_ob_plain _ hpl, h2, canonical_ob_ov_plain _ hpl]⟩

/-- the FULL statements (no `hpl`), since the repair of `Spec.Protobuf.canonTy` (catch-all case for the opaque leaf) -/
theorem unmarshal_marshal_partial_opaque_canon (fs : Fields) (v : Val)
    (hty : tyOK4 (.struct fs) = true)
    (hp : ptrsOK4 (.struct fs) v = true) (hv : hasType4 (.struct fs) v = true)
    (hne : noEmptyPtr4 (.struct fs) v = true) (hlen : (marshal (.struct fs) v).length < 2 ^ 64)
    (hdep : Codec.nesting (codecOf (.struct fs)) ≤ Gen.c_proto_maxDepth) :
    ∃ v', unmarshal (.struct fs) (marshal (.struct fs) v) = .ok v'
      ∧ canonical (.struct fs) v' = canonical (.struct fs) v := by
  obtain ⟨v', h1, h2⟩ := unmarshal_marshal_partial_opaque_ob fs v hty hp hv hne hlen hdep
  exact ⟨v', h1, by rw [← canonical_ob_any, h2, canonical_ob_ov_any]⟩

theorem unmarshal_marshal_map_partial_opaque_canon (fs : Fields) (v : Val)
    (hty : tyOKM4 (.struct fs) = true)
    (hp : ptrsOK4 (.struct fs) v = true) (hv : hasTypeM4 (.struct fs) v = true)
    (hne : valOKM4 (.struct fs) v = true) (hlen : (marshal (.struct fs) v).length < 2 ^ 64)
    (hdep : Codec.nesting (codecOf (.struct fs)) ≤ Gen.c_proto_maxDepth) :
    ∃ v', unmarshal (.struct fs) (marshal (.struct fs) v) = .ok v'
      ∧ canonical (.struct fs) v' = canonical (.struct fs) v := by
  obtain ⟨v', h1, h2⟩ := unmarshal_marshal_map_partial_opaque_ob fs v hty hp hv hne hlen hdep
  exact ⟨v', h1, by rw [← canonical_ob_any, h2, canonical_ob_ov_any]⟩

/-! ## C12 the reference decoder reads what Marshal writes -/

theorem reference_decodes_marshal_partial_opaque_ob (fs : Fields) (v : Val)
    (hty : tyOK4 (.struct fs) = true) (hp : ptrsOK4 (.struct fs) v = true) (hv : hasType4 (.struct fs) v = true)
    (hne : noEmptyPtr4 (.struct fs) v = true) (hlen : (marshal (.struct fs) v).length < 2 ^ 64) :
    (Spec.Protobuf.decode (.struct fs) (marshal (.struct fs) v)).map (canonical (ob (.struct fs)))
      = some (canonical (ob (.struct fs)) (ov (.struct fs) v)) := by
  obtain ⟨ht, hs⟩ := tyOK4_struct hty
  rw [← decode_ob (.struct fs)]
  rw [← marshal_ob fs hs] at hlen ⊢
  simp only [ptrsOK4, hasType4, noEmptyPtr4, ob] at *
  exact reference_decodes_marshal_partial_ptrs (obFields fs) _ ht hp hv hne hlen

theorem reference_decodes_marshal_maps_partial_opaque_ob (fs : Fields) (v : Val)
    (hty : tyOKM4 (.struct fs) = true) (hp : ptrsOK4 (.struct fs) v = true) (hv : hasTypeM4 (.struct fs) v = true)
    (hne : valOKM4 (.struct fs) v = true) (hlen : (marshal (.struct fs) v).length < 2 ^ 64) :
    (Spec.Protobuf.decode (.struct fs) (marshal (.struct fs) v)).map (canonical (ob (.struct fs)))
      = some (canonical (ob (.struct fs)) (ov (.struct fs) v)) := by
  obtain ⟨ht, hs⟩ := tyOKM4_struct hty
  rw [← decode_ob (.struct fs)]
  rw [← marshal_ob fs hs] at hlen ⊢
  simp only [ptrsOK4, hasTypeM4, valOKM4, ob] at *
  exact reference_decodes_marshal_maps_partial_ptrs (obFields fs) _ ht hp hv hne hlen

/- FULL STATEMENT (not proved): the next two theorems without `hpl`. -/
theorem reference_decodes_marshal_partial_opaque (fs : Fields) (v : Val)
    (hty : tyOK4 (.struct fs) = true) (hpl : opaquePlain (.struct fs) = true)
    (hp : ptrsOK4 (.struct fs) v = true) (hv : hasType4 (.struct fs) v = true)
    (hne : noEmptyPtr4 (.struct fs) v = true) (hlen : (marshal (.struct fs) v).length < 2 ^ 64) :
    (Spec.Protobuf.decode (.struct fs) (marshal (.struct fs) v)).map (canonical (.struct fs))
      = some (canonical (.struct fs) v) := by
  have hc : canonical (.struct fs) = canonical (ob (.struct fs)) := funext fun x => (canonical_ob_plain _ hpl x).symm
  rw [← canonical_ob_ov_plain _ hpl v, hc]
  exact reference_decodes_marshal_partial_opaque_ob fs v hty hp hv hne hlen

theorem reference_decodes_marshal_maps_partial_opaque (fs : Fields) (v : Val)
    (hty : tyOKM4 (.struct fs) = true) (hpl : opaquePlain (.struct fs) = true)
    (hp : ptrsOK4 (.struct fs) v = true) (hv : hasTypeM4 (.struct fs) v = true)
    (hne : valOKM4 (.struct fs) v = true) (hlen : (marshal (.struct fs) v).length < 2 ^ 64) :
    (Spec.Protobuf.decode (.struct fs) (marshal (.struct fs) v)).map (canonical (.struct fs))
      = some (canonical (.struct fs) v) := by
  have hc : canonical (.struct fs) = canonical (ob (.struct fs)) := funext fun x => (canonical_ob_plain _ hpl x).symm
  rw [← canonical_ob_ov_plain _ hpl v, hc]
  exact reference_decodes_marshal_maps_partial_opaque_ob fs v hty hp hv hne hlen

/-! ## C12 both ways, second half: what the reference decoder accepts, `Unmarshal` reads alike (no comparison form involved) -/

theorem reference_decodes_marshal_maps_partial_opaque_canon (fs : Fields) (v : Val)
    (hty : tyOKM4 (.struct fs) = true)
    (hp : ptrsOK4 (.struct fs) v = true) (hv : hasTypeM4 (.struct fs) v = true)
    (hne : valOKM4 (.struct fs) v = true) (hlen : (marshal (.struct fs) v).length < 2 ^ 64) :
    (Spec.Protobuf.decode (.struct fs) (marshal (.struct fs) v)).map (canonical (.struct fs))
      = some (canonical (.struct fs) v) := by
  have hc : canonical (.struct fs) = canonical (ob (.struct fs)) := funext fun x => (canonical_ob_any _ x).symm
  rw [← canonical_ob_ov_any _ v, hc]
  exact reference_decodes_marshal_maps_partial_opaque_ob fs v hty hp hv hne hlen

theorem unmarshal_of_reference_decode_opaque (fs : Fields) (hty : tyOK4 (.struct fs) = true) (b : Bytes) (v : Val)
    (hdep : Codec.nesting (codecOf (.struct fs)) ≤ Gen.c_proto_maxDepth)
    (h : Spec.Protobuf.decode (.struct fs) b = some v) : unmarshal (.struct fs) b = .ok v := by
  obtain ⟨ht, hs⟩ := tyOK4_struct hty
  rw [← nesting_ob fs hs] at hdep
  rw [← decode_ob (.struct fs)] at h
  rw [← unmarshal_ob fs hs]
  simp only [ob] at h
  exact unmarshal_of_reference_decode_ptrs (obFields fs) ht b v hdep h

theorem unmarshal_iff_reference_decode_opaque (fs : Fields) (hty : tyOK4 (.struct fs) = true)
    (hna : noArr4 (.struct fs) = true) (b : Bytes) (v : Val)
    (hdep : Codec.nesting (codecOf (.struct fs)) ≤ Gen.c_proto_maxDepth)
    (hz : ¬ ZeroNum (rfields (obFields fs)) b) :
    unmarshal (.struct fs) b = .ok v ↔ Spec.Protobuf.decode (.struct fs) b = some v := by
  obtain ⟨ht, hs⟩ := tyOK4_struct hty
  rw [← nesting_ob fs hs] at hdep
  rw [← decode_ob (.struct fs), ← unmarshal_ob fs hs]
  simp only [noArr4, ob] at *
  exact unmarshal_iff_reference_decode_ptrs (obFields fs) ht hna b v hdep hz

theorem unmarshal_of_reference_decode_maps_partial_opaque (fs : Fields) (hty : tyOKM4 (.struct fs) = true) (b : Bytes)
    (v : Val) (hne : noEmptyEntry4 (.struct fs) b = true)
    (hdep : Codec.nesting (codecOf (.struct fs)) ≤ Gen.c_proto_maxDepth)
    (h : Spec.Protobuf.decode (.struct fs) b = some v) : unmarshal (.struct fs) b = .ok v := by
  obtain ⟨ht, hs⟩ := tyOKM4_struct hty
  rw [← nesting_ob fs hs] at hdep
  rw [← decode_ob (.struct fs)] at h
  rw [← unmarshal_ob fs hs]
  simp only [noEmptyEntry4, ob] at *
  exact unmarshal_of_reference_decode_maps_partial_ptrs (obFields fs) ht b v hne hdep h

theorem unmarshal_accepts_reference_decode_maps_opaque (fs : Fields) (hty : tyOKM4 (.struct fs) = true) (b : Bytes)
    (v : Val) (hdep : Codec.nesting (codecOf (.struct fs)) ≤ Gen.c_proto_maxDepth)
    (h : Spec.Protobuf.decode (.struct fs) b = some v) :
    ∃ v', unmarshal (.struct fs) b = .ok v' ∧ sh v v' = true := by
  obtain ⟨ht, hs⟩ := tyOKM4_struct hty
  rw [← nesting_ob fs hs] at hdep
  rw [← decode_ob (.struct fs)] at h
  rw [← unmarshal_ob fs hs]
  simp only [ob] at h
  exact unmarshal_accepts_reference_decode_maps_ptrs (obFields fs) ht b v hdep h

/-! ## non-vacuity -/

/-- `proto.RawMessage` (`type RawMessage []byte` with Message methods) -/
def exRaw : Ty := .named "RawMessage" .bytes
/-- a struct-KIND user type with Message methods: `type ZRec struct{X int32; S string}`, encoded through its methods -/
def exZ : Ty := .named "RawMessage" (.named "ZRec" (.struct exInner))
/-- `type Nested struct{ X int32; Q ZRec }` -/
def exONested : Fields := .cons "X" "" false (.int .i32) (.cons "Q" "" false exZ .nil)
/-- `struct{ A int32; R RawMessage; S string; L []RawMessage; LP []*RawMessage; M map[string]RawMessage; Z ZRec; LZ []ZRec;
N Nested; MZ map[int32]ZRec }` -/
def exOFields : Fields :=
  .cons "A" "" false (.int .i32)
    (.cons "R" "" false exRaw
      (.cons "S" "" false .str
        (.cons "L" "" false (.slice exRaw)
          (.cons "LP" "" false (.slice (.ptr exRaw))
            (.cons "M" "" false (.map .str exRaw)
              (.cons "Z" "" false exZ
                (.cons "LZ" "" false (.slice exZ)
                  (.cons "N" "" false (.named "Nested" (.struct exONested))
                    (.cons "MZ" "" false (.map (.int .i32) exZ) .nil)))))))))
/-- `{A: 5, R: 0102, S: "x", L: {"", nil, 09}, LP: {&07, &nil}, M: {"k": 03, "": nil}, Z: nil, LZ: {0802}, N: {0, 08}, MZ: {1: 04}}` -/
def exOVals : Vals := Vals.ofList [
  .int 5, .str [1, 2], .str [120],
  .list (Vals.ofList [.str [], .nil, .str [9]]),
  .list (Vals.ofList [.ptr (.str [7]), .ptr .nil]),
  .map (Vals.ofList [.str [107], .str [3], .str [], .nil]),
  .nil,
  .list (Vals.ofList [.str [8, 2]]),
  .struct (Vals.ofList [.int 0, .str [8]]),
  .map (Vals.ofList [.int 1, .str [4]])]

/-- the relabelled type: every leaf a `[]byte` -/
def exOBNested : Fields := .cons "X" "" false (.int .i32) (.cons "Q" "" false .bytes .nil)
def exOBFields : Fields :=
  .cons "A" "" false (.int .i32)
    (.cons "R" "" false .bytes
      (.cons "S" "" false .str
        (.cons "L" "" false (.slice .bytes)
          (.cons "LP" "" false (.slice (.ptr .bytes))
            (.cons "M" "" false (.map .str .bytes)
              (.cons "Z" "" false .bytes
                (.cons "LZ" "" false (.slice .bytes)
                  (.cons "N" "" false (.named "Nested" (.struct exOBNested))
                    (.cons "MZ" "" false (.map (.int .i32) .bytes) .nil)))))))))
/-- the relabelled value: nil leaves are empty byte strings -/
def exOBVals : Vals := Vals.ofList [
  .int 5, .str [1, 2], .str [120],
  .list (Vals.ofList [.str [], .str [], .str [9]]),
  .list (Vals.ofList [.ptr (.str [7]), .ptr (.str [])]),
  .map (Vals.ofList [.str [107], .str [3], .str [], .str []]),
  .str [],
  .list (Vals.ofList [.str [8, 2]]),
  .struct (Vals.ofList [.int 0, .str [8]]),
  .map (Vals.ofList [.int 1, .str [4]])]
/-- … reduced (`[]*[]byte ↦ [][]byte`, defined types unfolded) -/
def exORFields : Fields :=
  .cons "A" "" false (.int .i32)
    (.cons "R" "" false .bytes
      (.cons "S" "" false .str
        (.cons "L" "" false (.slice .bytes)
          (.cons "LP" "" false (.slice .bytes)
            (.cons "M" "" false (.map .str .bytes)
              (.cons "Z" "" false .bytes
                (.cons "LZ" "" false (.slice .bytes)
                  (.cons "N" "" false (.struct exOBNested)
                    (.cons "MZ" "" false (.map (.int .i32) .bytes) .nil)))))))))
def exORVals : Vals := Vals.ofList [
  .int 5, .str [1, 2], .str [120],
  .list (Vals.ofList [.str [], .str [], .str [9]]),
  .list (Vals.ofList [.str [7], .str []]),
  .map (Vals.ofList [.str [107], .str [3], .str [], .str []]),
  .str [],
  .list (Vals.ofList [.str [8, 2]]),
  .struct (Vals.ofList [.int 0, .str [8]]),
  .map (Vals.ofList [.int 1, .str [4]])]

theorem exO_ob : obFields exOFields = exOBFields := by
  simp [exOFields, exOBFields, exONested, exOBNested, exRaw, exZ, obFields, ob]
theorem exO_ov : ovFields exOFields exOVals = exOBVals := by
  simp [exOFields, exOVals, exOBVals, exONested, exRaw, exZ, ovFields, ovF, ov, leafV, mapVals, mapVals2, Vals.ofList]
theorem exOB_rfields : rfields exOBFields = exORFields := by
  simp [rfields, exOBFields, exORFields, exOBNested, eraseFields, erase, reduceFields, reduce, reduceS]
theorem exOB_rvals : rvals exOBFields exOBVals = exORVals := by
  simp [rvals, exOBFields, exOBVals, exORVals, exOBNested, eraseFields, erase, reduceVFields, reduceV, reduceVS, mapVals,
    mapVals2, Vals.ofList]
theorem exOB_safe : nameSafe (.struct exOBFields) = true := by
  simp [exOBFields, exOBNested, nameSafe, nameSafeFields, Lemmas.ProtoNamed.isU8, erase]
theorem exOR_ty : tyOKM (.struct exORFields) = true := by
  simp [tyOKM, fieldsOKM, exORFields, exOBNested, tagAgreeM, tagAgreeMap, isMap, tagAgree_empty, fieldNums,
    fieldOpt_empty, modelTag_empty, supportedKind, ptrTarget, elemTy, Lemmas.ProtoWire.isPtr, isSlice, keyTy]
theorem exO_opaqueSafe : opaqueSafeFields exOFields = true := by
  have hm : Lemmas.ProtoPtrs.Bridge.tagOf "" = none := modelTag_empty
  simp [exOFields, exONested, exRaw, exZ, opaqueSafeFields, opaqueSafe, hm, Lemmas.ProtoPtrs.Bridge.ovr, nameSafe]
theorem exO_ty : tyOKM4 (.struct exOFields) = true := by
  have h3 : tyOKM3 (.struct exOBFields) = true := by
    have := exOR_ty
    rw [← exOB_rfields, ← rty_struct] at this
    simp only [tyOKM3, exOB_safe, Bool.true_and]; exact this
  simp only [tyOKM4, ob, exO_ob, h3, opaqueSafe, exO_opaqueSafe, Bool.and_self]
theorem exO_ptrs : ptrsOK4 (.struct exOFields) (.struct exOVals) = true := by
  rw [ptrsOK4, ob_struct, ov_struct, exO_ob, exO_ov]
  simp [ptrsOK3, exOBFields, exOBVals, exOBNested, eraseFields, erase, ptrsOK, ptrsOKS, ptrsOKFields, allVals, allVals2,
    Vals.ofList]
theorem exO_val : hasTypeM4 (.struct exOFields) (.struct exOVals) = true := by
  rw [hasTypeM4, ob_struct, ov_struct, exO_ob, exO_ov, hasTypeM3, rty_struct, rval_struct, exOB_rfields, exOB_rvals]; decide
theorem exO_ok : valOKM4 (.struct exOFields) (.struct exOVals) = true := by
  rw [valOKM4, ob_struct, ov_struct, exO_ob, exO_ov, valOKM3, rty_struct, rval_struct, exOB_rfields, exOB_rvals]
  simp [valOKM, valsOKM, valOKMapM, valOKListM, exORFields, exORVals, exOBNested, Vals.ofList, nonEmptyVals,
    payloadM, recordsOfM, recordsRM, fieldOpt_empty, intWire, Spec.Protobuf.encRec, IntKind.signed, leb128_ne_nil]
  decide

/-- the codec tree `structCodecOf` builds for `exOFields`: message codecs at the leaves, NOT embedded (`LZ []ZRec`: the element
is a struct-kind type, but one that writes its own length prefix — `isStructBase` through `embBase`) -/
def exOCodec : CFields :=
  .cons 1 false false false .int32
    (.cons 2 false false false .message
      (.cons 3 false false false .string
        (.cons 4 false true false (.slice .message 4 .varlen false)
          (.cons 5 false true false (.slice (.ptr .message) 5 .varlen false)
            (.cons 6 true true false (.map 6 .string .message false false
                (.struct (.cons 1 false false false .string (.cons 2 false false false .message .nil))))
              (.cons 7 false false false .message
                (.cons 8 false true false (.slice .message 8 .varlen false)
                  (.cons 9 true false false (.struct (.cons 1 false false false .int32 (.cons 2 false false false .message .nil)))
                    (.cons 10 true true false (.map 10 .int32 .message false false
                      (.struct (.cons 1 false false false .int32 (.cons 2 false false false .message .nil)))) .nil)))))))))
theorem exO_codec : fieldsOf 1 exOFields = exOCodec := by
  have hm : (lookupProtobuf "").bind parseStructTag = none := modelTag_empty
  simp [exOFields, exONested, exRaw, exZ, exInner, exOCodec, codecOf, fieldsOf, hm, fieldCodecOf, isStructBase, embBase, baseTy,
    Codec.wire]
theorem exO_len : (marshal (.struct exOFields) (.struct exOVals)).length < 2 ^ 64 := by
  rw [marshal_struct, exO_codec]; decide
theorem exO_depth : Codec.nesting (codecOf (.struct exOFields)) ≤ Gen.c_proto_maxDepth := by
  have : codecOf (.struct exOFields) = .struct (fieldsOf 1 exOFields) := by simp [codecOf]
  rw [this, exO_codec]; decide

/-- the hypotheses of the `*_opaque_ob` theorems are satisfiable, with opaque leaves in every admissible position and of struct kind -/
theorem exO_hyps : tyOKM4 (.struct exOFields) = true
    ∧ ptrsOK4 (.struct exOFields) (.struct exOVals) = true
    ∧ hasTypeM4 (.struct exOFields) (.struct exOVals) = true
    ∧ valOKM4 (.struct exOFields) (.struct exOVals) = true
    ∧ (marshal (.struct exOFields) (.struct exOVals)).length < 2 ^ 64
    ∧ Codec.nesting (codecOf (.struct exOFields)) ≤ Gen.c_proto_maxDepth :=
  ⟨exO_ty, exO_ptrs, exO_val, exO_ok, exO_len, exO_depth⟩

/-- … so the round trip holds for it -/
example : ∃ v', unmarshal (.struct exOFields) (marshal (.struct exOFields) (.struct exOVals)) = .ok v'
    ∧ canonical (ob (.struct exOFields)) v' = canonical (ob (.struct exOFields)) (ov (.struct exOFields) (.struct exOVals)) :=
  unmarshal_marshal_map_partial_opaque_ob exOFields _ exO_ty exO_ptrs exO_val exO_ok exO_len exO_depth
/-- … the reference decoder reads the same value -/
example : (Spec.Protobuf.decode (.struct exOFields) (marshal (.struct exOFields) (.struct exOVals))).map
      (canonical (ob (.struct exOFields))) = some (canonical (ob (.struct exOFields)) (ov (.struct exOFields) (.struct exOVals))) :=
  reference_decodes_marshal_maps_partial_opaque_ob exOFields _ exO_ty exO_ptrs exO_val exO_ok exO_len
/-- … and the bytes are the reference encoding of its records -/
example : encode (.struct (fieldsOf 1 exOFields)) (.struct exOVals) { toplevel := true, inline := true }
    = encRecs (allRecordsM4 false exOFields exOVals) :=
  struct_bytes_maps_opaque exOFields exOVals _ exO_ty
    (by have := exO_ptrs; simpa only [ptrsOK4, ptrsOKs4, ptrsOK3, ptrsOKs3, ob, ov, erase, ptrsOK] using this)
    (by have := exO_val; simpa only [hasTypeM4, hasTypesM4, hasTypeM3, hasTypesM3, ob, ov, rty_struct, rval_struct,
          hasTypeM] using this)
    rfl (by rw [← marshal_struct]; exact exO_len)
/-- the bytes are those of the relabelled value at the relabelled type -/
example : marshal (.struct exOFields) (.struct exOVals) = marshal (.struct exOBFields) (.struct exOBVals) := by
  rw [← marshal_ob exOFields exO_opaqueSafe, ov_struct, exO_ob, exO_ov]

/-! ### … and for the `canonical t` theorems (`opaquePlain`), map-free (`tyOK4`), with an input for the liberal direction -/

/-- `struct{ R RawMessage; L []RawMessage; LP []*RawMessage; A int32 }` -/
def exQOFields : Fields :=
  .cons "R" "" false exRaw (.cons "L" "" false (.slice exRaw) (.cons "LP" "" false (.slice (.ptr exRaw))
    (.cons "A" "" false (.int .i32) .nil)))
def exQOR : Fields :=
  .cons "R" "" false .bytes (.cons "L" "" false (.slice .bytes) (.cons "LP" "" false (.slice .bytes)
    (.cons "A" "" false (.int .i32) .nil)))
/-- `{R: nil, L: {01, nil}, LP: {&02}, A: 7}` -/
def exQOVals : Vals := Vals.ofList [.nil, .list (Vals.ofList [.str [1], .nil]), .list (Vals.ofList [.ptr (.str [2])]), .int 7]
def exQORVals : Vals :=
  Vals.ofList [.str [], .list (Vals.ofList [.str [1], .str []]), .list (Vals.ofList [.str [2]]), .int 7]

theorem exQO_rfields : rfields (obFields exQOFields) = exQOR := by
  simp [rfields, exQOFields, exQOR, exRaw, obFields, ob, eraseFields, erase, reduceFields, reduce, reduceS]
theorem exQO_rvals : rvals (obFields exQOFields) (ovFields exQOFields exQOVals) = exQORVals := by
  simp [rvals, exQOFields, exQOVals, exQORVals, exRaw, obFields, ob, ovFields, ovF, ov, leafV, eraseFields, erase,
    reduceVFields, reduceV, reduceVS, mapVals, Vals.ofList]
theorem exQOR_ty : tyOK (.struct exQOR) = true := by
  simp [tyOK, fieldsOK, exQOR, tagAgree_empty, fieldNums, fieldOpt_empty, supportedKind, ptrTarget, elemTy,
    Lemmas.ProtoWire.isPtr, isSlice]
theorem exQO_opaqueSafe : opaqueSafeFields exQOFields = true := by
  have hm : Lemmas.ProtoPtrs.Bridge.tagOf "" = none := modelTag_empty
  simp [exQOFields, exRaw, opaqueSafeFields, opaqueSafe, hm, Lemmas.ProtoPtrs.Bridge.ovr]
theorem exQO_ty : tyOK4 (.struct exQOFields) = true := by
  have h3 : tyOK3 (.struct (obFields exQOFields)) = true := by
    have := exQOR_ty
    rw [← exQO_rfields, ← rty_struct] at this
    simp only [tyOK3, Bool.and_eq_true]
    exact ⟨by simp [exQOFields, exRaw, obFields, ob, nameSafe, nameSafeFields, Lemmas.ProtoNamed.isU8, erase], this⟩
  simp only [tyOK4, ob, h3, opaqueSafe, exQO_opaqueSafe, Bool.and_self]
theorem exQO_codec : fieldsOf 1 exQOFields
    = .cons 1 false false false .message (.cons 2 false true false (.slice .message 2 .varlen false)
        (.cons 3 false true false (.slice (.ptr .message) 3 .varlen false) (.cons 4 false false false .int32 .nil))) := by
  have hm : (lookupProtobuf "").bind parseStructTag = none := modelTag_empty
  simp [exQOFields, exRaw, codecOf, fieldsOf, hm, fieldCodecOf, isStructBase, embBase, baseTy, Codec.wire]
theorem exQO_depth : Codec.nesting (codecOf (.struct exQOFields)) ≤ Gen.c_proto_maxDepth := by
  have : codecOf (.struct exQOFields) = .struct (fieldsOf 1 exQOFields) := by simp [codecOf]
  rw [this, exQO_codec]; decide
theorem exQO_plain : opaquePlain (.struct exQOFields) = true := by decide

theorem exQO_hyps : tyOK4 (.struct exQOFields) = true
    ∧ opaquePlain (.struct exQOFields) = true
    ∧ ptrsOK4 (.struct exQOFields) (.struct exQOVals) = true
    ∧ hasType4 (.struct exQOFields) (.struct exQOVals) = true
    ∧ noEmptyPtr4 (.struct exQOFields) (.struct exQOVals) = true
    ∧ (marshal (.struct exQOFields) (.struct exQOVals)).length < 2 ^ 64
    ∧ Codec.nesting (codecOf (.struct exQOFields)) ≤ Gen.c_proto_maxDepth := by
  refine ⟨exQO_ty, exQO_plain, ?_, ?_, ?_, ?_, exQO_depth⟩
  · simp [ptrsOK4, ptrsOK3, exQOFields, exQOVals, exRaw, ob, obFields, ov, ovFields, ovF, leafV, mapVals, eraseFields, erase,
      ptrsOK, ptrsOKS, ptrsOKFields, allVals, Vals.ofList]
  · rw [hasType4, ob_struct, ov_struct, hasType3, rty_struct, rval_struct, exQO_rfields, exQO_rvals]; decide
  · rw [noEmptyPtr4, ob_struct, ov_struct, noEmptyPtr3, rty_struct, rval_struct, exQO_rfields, exQO_rvals]
    simp [noEmptyPtr, noEmptyPtrs, noEmptyPtrList, exQOR, exQORVals, Vals.ofList, payload]
  · rw [marshal_struct, exQO_codec]; decide

/-- the round trip in the comparison form of C03 -/
example : ∃ v', unmarshal (.struct exQOFields) (marshal (.struct exQOFields) (.struct exQOVals)) = .ok v'
    ∧ canonical (.struct exQOFields) v' = canonical (.struct exQOFields) (.struct exQOVals) :=
  unmarshal_marshal_partial_opaque exQOFields _ exQO_hyps.1 exQO_hyps.2.1 exQO_hyps.2.2.1 exQO_hyps.2.2.2.1
    exQO_hyps.2.2.2.2.1 exQO_hyps.2.2.2.2.2.1 exQO_hyps.2.2.2.2.2.2
example : (Spec.Protobuf.decode (.struct exQOFields) (marshal (.struct exQOFields) (.struct exQOVals))).map
      (canonical (.struct exQOFields)) = some (canonical (.struct exQOFields) (.struct exQOVals)) :=
  reference_decodes_marshal_partial_opaque exQOFields _ exQO_hyps.1 exQO_hyps.2.1 exQO_hyps.2.2.1 exQO_hyps.2.2.2.1
    exQO_hyps.2.2.2.2.1 exQO_hyps.2.2.2.2.2.1

/-- the bytes: the nil leaf `R` as `0a 00`, the elements of `L` `12 01 01`, `12 00` (nil element: empty record), `LP` `1a 01 02`,
`A` `20 07` (optional fields first, then the repeated ones) -/
example : marshal (.struct exQOFields) (.struct exQOVals)
    = [0x0a, 0x00, 0x20, 0x07, 0x12, 0x01, 0x01, 0x12, 0x00, 0x1a, 0x01, 0x02] := by
  rw [marshal_struct, exQO_codec]; decide

/-! ### the boundary: a POINTER to an opaque leaf (field `P *RawMessage`, map value `map[K]*RawMessage`) is outside `tyOKM4`,
because `*[]byte` is outside `tyOKM` (`ptrTarget`); `[]*RawMessage` is inside (the reduction strips the element pointers) -/
theorem ptr_leaf_excluded : tyOKM4 (.struct (.cons "P" "" false (.ptr exRaw) .nil)) = false := by
  simp [tyOKM4, tyOKM3, exRaw, ob, obFields, erase, eraseFields, reduce, reduceS, reduceFields, tyOKM, fieldsOKM, ptrTarget]
theorem ptr_leaf_value_excluded :
    tyOKM4 (.struct (.cons "MP" "" false (.map (.int .i32) (.ptr exRaw)) .nil)) = false := by
  simp [tyOKM4, tyOKM3, exRaw, ob, obFields, erase, eraseFields, reduce, reduceS, reduceFields, tyOKM, fieldsOKM, ptrTarget]

#print axioms unmarshal_marshal_partial_opaque_ob
#print axioms unmarshal_marshal_map_partial_opaque_ob
#print axioms unmarshal_marshal_partial_opaque
#print axioms unmarshal_marshal_map_partial_opaque
#print axioms reference_decodes_marshal_partial_opaque_ob
#print axioms reference_decodes_marshal_maps_partial_opaque_ob
#print axioms reference_decodes_marshal_partial_opaque
#print axioms reference_decodes_marshal_maps_partial_opaque
#print axioms struct_bytes_opaque
#print axioms struct_bytes_maps_opaque
#print axioms unmarshal_of_reference_decode_opaque
#print axioms unmarshal_iff_reference_decode_opaque
#print axioms unmarshal_of_reference_decode_maps_partial_opaque
#print axioms unmarshal_accepts_reference_decode_maps_opaque
#print axioms marshal_ob
#print axioms unmarshal_ob
#print axioms decode_ob
#print axioms canonical_ob_ov_plain
#print axioms tyOK4_of_tyOK3
#print axioms tyOKM4_of_tyOKM3
#print axioms exO_hyps
#print axioms exQO_hyps

end Enc.Lemmas.ProtoOpaque
