import Enc.Lemmas.ProtoScanSpec
/-!
# Lemmas for C07 — truncated input under `Scan`
-/
namespace Enc.Lemmas.ProtoScan
open Enc Enc.Model.Proto Enc.Model.ProtoScan Enc.Lemmas.ProtoDecode
open Enc.Spec.Protobuf (records RawRec)

/-- the fields enumerated from a prefix are a prefix of the fields enumerated from the whole (cut anywhere) -/
theorem fields_prefix (n : Nat) : ∀ (p q : Bytes), p.length ≤ n → GoLen (p ++ q) →
    (fields p).1 <+: (fields (p ++ q)).1 := by
  induction n with
  | zero =>
    intro p q h _
    have : p = [] := List.eq_nil_of_length_eq_zero (by omega)
    subst this; rw [fields_nil]; exact List.nil_prefix
  | succ n ih =>
    intro p q h hpq
    by_cases hne : p = []
    · subst hne; rw [fields_nil]; exact List.nil_prefix
    · have hp : GoLen p := hpq.of_append_left
      rw [fields_unfold p hp hne]
      cases hpp : parse p with
      | panic e => exact List.nil_prefix
      | err e => exact List.nil_prefix
      | ok r =>
        obtain ⟨f, t, v, m⟩ := r
        obtain ⟨fld, rfl, hf⟩ := (parse_ok_iff p hp f t v m).mp hpp
        have hl : m.length ≤ n := by
          have := hf.pos; simp only [List.length_append] at h; omega
        rw [List.append_assoc] at hpq ⊢
        rw [fields_ok_cons f t v fld (m ++ q) hpq hf]
        simp only [List.cons_prefix_cons, true_and]
        exact ih m q hl hpq.of_append_right

/-- a concatenation of complete fields scans to exactly those fields -/
theorem fields_of_chunks : ∀ (rs : List RawRec), (∀ r ∈ rs, IsField r.num r.wire r.payload r.raw) →
    GoLen (rs.map (·.raw)).flatten → fields (rs.map (·.raw)).flatten = (rs.map strip, .ok ())
  | [], _, _ => by simp [fields_nil]
  | r :: rs, h, hg => by
    simp only [List.map_cons, List.flatten_cons] at hg ⊢
    rw [fields_ok_cons r.num r.wire r.payload r.raw _ hg (h r (by simp)),
      fields_of_chunks rs (fun x hx => h x (by simp [hx])) hg.of_append_right]
    simp [strip]

/-- two decompositions of the same bytes into complete fields agree as far as the shorter one goes -/
theorem chunks_prefix : ∀ (cs1 cs2 : List RawRec) (x : Bytes),
    (∀ r ∈ cs1, IsField r.num r.wire r.payload r.raw) → (∀ r ∈ cs2, IsField r.num r.wire r.payload r.raw) →
    (cs1.map (·.raw)).flatten ++ x = (cs2.map (·.raw)).flatten →
    ∃ k, cs1.map (·.raw) = (cs2.map (·.raw)).take k
  | [], _, _, _, _, _ => ⟨0, by simp⟩
  | c :: cs1, [], x, h1, _, e => by
    have := (h1 c (by simp)).pos
    have e' := congrArg List.length e
    simp only [List.map_cons, List.flatten_cons, List.length_append, List.map_nil, List.flatten_nil,
      List.length_nil] at e'
    omega
  | c :: cs1, d :: cs2, x, h1, h2, e => by
    simp only [List.map_cons, List.flatten_cons, List.append_assoc] at e
    have hc := h1 c (by simp)
    have hd := h2 d (by simp)
    have p1 := (parseN_ok_iff (c.raw ++ ((cs1.map (·.raw)).flatten ++ x)) _ _ _ _).mpr ⟨c.raw, rfl, hc⟩
    have p2 := (parseN_ok_iff (d.raw ++ (cs2.map (·.raw)).flatten) _ _ _ _).mpr ⟨d.raw, rfl, hd⟩
    rw [e, p2] at p1
    simp only [Res.ok.injEq, Prod.mk.injEq] at p1
    have erest : (cs1.map (·.raw)).flatten ++ x = (cs2.map (·.raw)).flatten := p1.2.2.2.symm
    rw [erest] at e
    have ecd : c.raw = d.raw := List.append_cancel_right e
    obtain ⟨k, hk⟩ := chunks_prefix cs1 cs2 x (fun r hr => h1 r (by simp [hr])) (fun r hr => h2 r (by simp [hr])) erest
    exact ⟨k + 1, by simp [ecd, hk]⟩

/-- `Scan` succeeded ⇒ the reference flag is true -/
theorem records_ok_of_scan (b : Bytes) (hb : GoLen b) (h : (scanList b).2 = .ok ()) : (records b).2 = true := by
  obtain ⟨e, he⟩ := scanList_records b hb
  rw [he] at h
  by_cases hf : (records b).2 = true
  · exact hf
  · simp [hf] at h

/-- **truncation.** For a well-formed message `p ++ q`: `Scan` succeeds on the prefix `p` exactly when `p` ends at a
record boundary of the whole (after the first `k` records, for some `k`). -/
theorem scan_cut (p q : Bytes) (hb : GoLen (p ++ q)) (hw : (scanList (p ++ q)).2 = .ok ()) :
    (scanList p).2 = .ok () ↔ ∃ k, p = (((records (p ++ q)).1.map (·.raw)).take k).flatten := by
  have hp : GoLen p := hb.of_append_left
  obtain ⟨hall, tail, hcov, htail⟩ := records_frame (p ++ q)
  have ht : tail = [] := htail (records_ok_of_scan _ hb hw)
  subst ht
  rw [List.append_nil] at hcov
  constructor
  · intro hok
    obtain ⟨hallp, tailp, hcovp, htailp⟩ := records_frame p
    have ht : tailp = [] := htailp (records_ok_of_scan _ hp hok)
    subst ht
    rw [List.append_nil] at hcovp
    have e : ((records p).1.map (·.raw)).flatten ++ q = ((records (p ++ q)).1.map (·.raw)).flatten := by
      rw [← hcovp, ← hcov]
    obtain ⟨k, hk⟩ := chunks_prefix _ _ q hallp hall e
    exact ⟨k, by rw [← hk]; exact hcovp⟩
  · rintro ⟨k, hk⟩
    rw [← List.map_take] at hk
    have hallk : ∀ r ∈ (records (p ++ q)).1.take k, IsField r.num r.wire r.payload r.raw :=
      fun r hr => hall r (List.mem_of_mem_take hr)
    rw [scanList_eq_fields, hk, fields_of_chunks _ hallk (by rw [← hk]; exact hp)]

end Enc.Lemmas.ProtoScan
