import Enc.Lemmas.ProtoPtrsDefs
import Enc.Lemmas.Proto
import Enc.Lemmas.ProtoDecode
/-!
# proto: `[]*T` and `**T` are transparent to the model — codec level

For ARBITRARY codec trees (`WFC` only for the decoder, because of the entry struct of map nodes):

  * `encode_lift`, `size_lift`       `encode c (liftC c y) fl = encode (reduceC c) y fl` — non-nil pointer elements and complete
                                     pointer chains are written exactly like their pointees
  * `decodeU_lift`                   `decodeU F c b (liftC c y) fl = liftR (liftC c) (decodeU f (reduceC c) b y fl)` whenever the
                                     reduced run does not run out of fuel and `F ≥ f + extra c`
  * `height_le`, `nesting_reduceC`   bookkeeping for the fuel of `unmarshal` and for the nesting hypothesis
-/
set_option linter.unusedSimpArgs false
set_option linter.unusedVariables false
namespace Enc.Lemmas.ProtoPtrs
open Enc Enc.Model.Proto Enc.Lemmas.ProtoDecode

/-! ## small facts -/

theorem liftC_nil (c : Codec) : liftC c .nil = .nil := by cases c <;> simp only [liftC]

theorem liftC_scalar (c : Codec) (h : scalarC c = true) (v : Val) : liftC c v = v := by
  cases c <;> simp only [scalarC] at h <;> first | (exact absurd h (by decide)) | simp only [liftC]

theorem reduceC_scalar (c : Codec) (h : scalarC c = true) : reduceC c = c := by
  cases c <;> simp only [scalarC] at h <;> first | (exact absurd h (by decide)) | simp only [reduceC]

/-- not a pointer codec -/
def notPtrC : Codec → Bool
  | .ptr _ => false
  | _ => true

theorem liftSC_notPtr (c : Codec) (h : notPtrC c = true) (v : Val) : liftSC c v = liftC c v := by
  cases c <;> simp only [notPtrC] at h <;> first | (exact absurd h (by decide)) | (cases v <;> simp only [liftC, liftSC])
theorem reduceSC_notPtr (c : Codec) (h : notPtrC c = true) : reduceSC c = reduceC c := by
  cases c <;> simp only [notPtrC] at h <;> first | (exact absurd h (by decide)) | simp only [reduceC, reduceSC]
theorem extraS_notPtr (c : Codec) (h : notPtrC c = true) : extraS c = extra c := by
  cases c <;> simp only [notPtrC] at h <;> first | (exact absurd h (by decide)) | simp only [extra, extraS]

mutual
theorem wire_reduceC : ∀ c : Codec, (reduceC c).wire = c.wire
  | .ptr c => by simp only [reduceC, Codec.wire, wire_reduceSC c]
  | .slice e n w emb => by simp only [reduceC, Codec.wire]
  | .map n k v ke ve entry => by simp only [reduceC, Codec.wire]
  | .struct fs => by simp only [reduceC, Codec.wire]
  | .bool | .int | .int32 | .int64 | .uint | .uint32 | .uint64 | .fixed32 | .fixed64 | .sfixed32 | .sfixed64
  | .float32 | .float64 | .string | .bytes | .byteArray _ | .message | .unsupported => by simp only [reduceC]
theorem wire_reduceSC : ∀ c : Codec, (reduceSC c).wire = c.wire
  | .ptr c => by simp only [reduceSC, Codec.wire, wire_reduceSC c]
  | .slice e n w emb => by simp only [reduceSC, Codec.wire]
  | .map n k v ke ve entry => by simp only [reduceSC, Codec.wire]
  | .struct fs => by simp only [reduceSC, Codec.wire]
  | .bool | .int | .int32 | .int64 | .uint | .uint32 | .uint64 | .fixed32 | .fixed64 | .sfixed32 | .sfixed64
  | .float32 | .float64 | .string | .bytes | .byteArray _ | .message | .unsupported => by simp only [reduceSC]
end

mutual
theorem inlinedC_reduceC : ∀ c : Codec, inlinedC (reduceC c) = inlinedC c
  | .ptr c => by simp only [reduceC, inlinedC]
  | .slice e n w emb => by simp only [reduceC, inlinedC]
  | .map n k v ke ve entry => by simp only [reduceC, inlinedC]
  | .struct fs => by simp only [reduceC, inlinedC, inlinedFields_reduceCF fs]
  | .bool | .int | .int32 | .int64 | .uint | .uint32 | .uint64 | .fixed32 | .fixed64 | .sfixed32 | .sfixed64
  | .float32 | .float64 | .string | .bytes | .byteArray _ | .message | .unsupported => by simp only [reduceC]
theorem inlinedFields_reduceCF : ∀ fs : CFields, inlinedFields (reduceCF fs) = inlinedFields fs
  | .nil => by simp only [reduceCF]
  | .cons n emb rep zz c .nil => by simp only [reduceCF, inlinedFields, inlinedC_reduceC c]
  | .cons n emb rep zz c (.cons n' emb' rep' zz' c' rest) => by simp only [reduceCF, inlinedFields]
end

/-! ## the encoder -/

theorem encodeSlice_lift (e e' : Codec) (f : Val → Val) (tag : Bytes) (emb : Bool)
    (h : ∀ v, encode e (f v) wz = encode e' v wz) :
    ∀ vs : Vals, encodeSlice e tag emb (mapVals f vs) = encodeSlice e' tag emb vs
  | .nil => by simp only [mapVals, encodeSlice]
  | .cons v r => by
    simp only [mapVals, encodeSlice, ← Lemmas.Proto.size_eq, h v, encodeSlice_lift e e' f tag emb h r]

theorem encodeMap_lift (k v v' : Codec) (f : Val → Val) (tag : Bytes) (ke ve : Bool)
    (h : ∀ x, encode v (f x) wz = encode v' x wz) (hw : v'.wire = v.wire) :
    ∀ kvs : Vals, encodeMap tag k v ke ve (mapVals2 f kvs) = encodeMap tag k v' ke ve kvs
  | .nil => by simp only [mapVals2, encodeMap]
  | .cons a .nil => by simp only [mapVals2, encodeMap]
  | .cons a (.cons b r) => by
    simp only [mapVals2, encodeMap, ← Lemmas.Proto.size_eq, h b, hw, encodeMap_lift k v v' f tag ke ve h hw r]

mutual
/-- **the encoder does not see the reduction** -/
theorem encode_lift : ∀ (c : Codec) (y : Val) (fl : Flags), encode c (liftC c y) fl = encode (reduceC c) y fl
  | .ptr c, y, fl => by
    cases y <;> simp only [liftC, reduceC, encode]
    exact encode_liftS c _ _ rfl rfl
  | .slice e n w emb, y, fl => by
    cases y <;> simp only [liftC, reduceC, encode]
    exact encodeSlice_lift e (reduceSC e) _ _ _ (fun v => encode_liftS e v wz rfl rfl) _
  | .map n k v ke ve entry, y, fl => by
    cases y <;> simp only [liftC, reduceC, encode]
    rw [encodeMap_lift k v (reduceC v) _ _ ke ve (fun x => encode_lift v x wz) (wire_reduceC v)]
  | .struct fs, y, fl => by
    cases y <;> simp only [liftC, reduceC, encode]
    rw [inlinedFields_reduceCF, encodeUnique_lift fs, encodeRepeated_lift fs]
  | .bool, y, fl | .int, y, fl | .int32, y, fl | .int64, y, fl | .uint, y, fl | .uint32, y, fl | .uint64, y, fl
  | .fixed32, y, fl | .fixed64, y, fl | .sfixed32, y, fl | .sfixed64, y, fl | .float32, y, fl | .float64, y, fl
  | .string, y, fl | .bytes, y, fl | .byteArray _, y, fl | .message, y, fl | .unsupported, y, fl => by
    simp only [liftC, reduceC]
theorem encode_liftS : ∀ (c : Codec) (y : Val) (fl : Flags), fl.wantzero = true → fl.inline = false →
    encode c (liftSC c y) fl = encode (reduceSC c) y fl
  | .ptr c, y, fl, hw, hi => by
    simp only [liftSC, reduceSC, encode]
    have e : ({ fl with wantzero := true, inline := false } : Flags) = fl := by
      cases fl; simp only at hw hi; subst hw hi; rfl
    rw [e]
    exact encode_liftS c y fl hw hi
  | .slice e n w emb, y, fl, _, _ => by
    cases y <;> simp only [liftSC, reduceSC, encode]
    exact encodeSlice_lift e (reduceSC e) _ _ _ (fun v => encode_liftS e v wz rfl rfl) _
  | .map n k v ke ve entry, y, fl, _, _ => by
    cases y <;> simp only [liftSC, reduceSC, encode]
    rw [encodeMap_lift k v (reduceC v) _ _ ke ve (fun x => encode_lift v x wz) (wire_reduceC v)]
  | .struct fs, y, fl, _, _ => by
    cases y <;> simp only [liftSC, reduceSC, encode]
    rw [inlinedFields_reduceCF, encodeUnique_lift fs, encodeRepeated_lift fs]
  | .bool, y, fl, _, _ | .int, y, fl, _, _ | .int32, y, fl, _, _ | .int64, y, fl, _, _ | .uint, y, fl, _, _
  | .uint32, y, fl, _, _ | .uint64, y, fl, _, _ | .fixed32, y, fl, _, _ | .fixed64, y, fl, _, _
  | .sfixed32, y, fl, _, _ | .sfixed64, y, fl, _, _ | .float32, y, fl, _, _ | .float64, y, fl, _, _
  | .string, y, fl, _, _ | .bytes, y, fl, _, _ | .byteArray _, y, fl, _, _ | .message, y, fl, _, _
  | .unsupported, y, fl, _, _ => by
    simp only [liftSC, reduceSC]
theorem encodeUnique_lift : ∀ (fs : CFields) (vs : Vals) (fl : Flags),
    encodeUnique fs (liftCF fs vs) fl = encodeUnique (reduceCF fs) vs fl
  | .nil, vs, fl => by simp only [liftCF, reduceCF]
  | .cons n emb rep zz c rest, .nil, fl => by cases rep <;> simp only [liftCF, reduceCF, encodeUnique]
  | .cons n emb true zz c rest, .cons v vs, fl => by
    simp only [liftCF, reduceCF, encodeUnique]; exact encodeUnique_lift rest vs fl
  | .cons n emb false zz c rest, .cons v vs, fl => by
    simp only [liftCF, reduceCF, encodeUnique, ← Lemmas.Proto.size_eq, encode_lift c v, wire_reduceC,
      encodeUnique_lift rest vs]
theorem encodeRepeated_lift : ∀ (fs : CFields) (vs : Vals) (fl : Flags),
    encodeRepeated fs (liftCF fs vs) fl = encodeRepeated (reduceCF fs) vs fl
  | .nil, vs, fl => by simp only [liftCF, reduceCF]
  | .cons n emb rep zz c rest, .nil, fl => by cases rep <;> simp only [liftCF, reduceCF, encodeRepeated]
  | .cons n emb false zz c rest, .cons v vs, fl => by
    simp only [liftCF, reduceCF, encodeRepeated]; exact encodeRepeated_lift rest vs fl
  | .cons n emb true zz c rest, .cons v vs, fl => by
    simp only [liftCF, reduceCF, encodeRepeated, encode_lift c v, encodeRepeated_lift rest vs]
end

/-- … nor does `Size` -/
theorem size_lift (c : Codec) (y : Val) (fl : Flags) : size c (liftC c y) fl = size (reduceC c) y fl := by
  rw [← Lemmas.Proto.size_eq, ← Lemmas.Proto.size_eq, encode_lift]


/-! ## zero values, field lookup -/

mutual
theorem zeroC_lift : ∀ c : Codec, zeroOfCodec c = liftC c (zeroOfCodec (reduceC c))
  | .ptr c => by simp only [reduceC, zeroOfCodec, liftC]
  | .slice e n w emb => by simp only [reduceC, zeroOfCodec, liftC]
  | .map n k v ke ve entry => by simp only [reduceC, zeroOfCodec, liftC]
  | .struct fs => by simp only [reduceC, zeroOfCodec, liftC, zeroCF_lift fs]
  | .bool | .int | .int32 | .int64 | .uint | .uint32 | .uint64 | .fixed32 | .fixed64 | .sfixed32 | .sfixed64
  | .float32 | .float64 | .string | .bytes | .byteArray _ | .message | .unsupported => by
    simp only [reduceC, zeroOfCodec, liftC]
theorem zeroCF_lift : ∀ fs : CFields,
    zeroOfCodec.zeroCFields fs = liftCF fs (zeroOfCodec.zeroCFields (reduceCF fs))
  | .nil => by simp only [reduceCF, zeroOfCodec.zeroCFields, liftCF]
  | .cons n emb rep zz c rest => by
    simp only [reduceCF, zeroOfCodec.zeroCFields, liftCF, ← zeroC_lift c, ← zeroCF_lift rest]
end

/-- the lookup result with its codec reduced -/
def R4 (r : Nat × Bool × Bool × Codec) : Nat × Bool × Bool × Codec := (r.1, r.2.1, r.2.2.1, reduceC r.2.2.2)

theorem lookup_go_reduce (num : Nat) : ∀ (fs : CFields) (i : Nat) (acc : Option (Nat × Bool × Bool × Codec)),
    lookupField.go num (reduceCF fs) i (acc.map R4) = (lookupField.go num fs i acc).map R4
  | .nil, i, acc => by simp only [reduceCF, lookupField.go]
  | .cons n emb rep zz c rest, i, acc => by
    simp only [reduceCF, lookupField.go]
    rw [← lookup_go_reduce num rest (i + 1)]
    congr 1
    split <;> simp [R4]

theorem lookup_reduce (fs : CFields) (num : Nat) :
    lookupField (reduceCF fs) num = (lookupField fs num).map R4 := by
  have := lookup_go_reduce num fs 0 none
  simpa only [lookupField, Option.map_none] using this

/-- codec of the field at position `i` -/
def codecAt : CFields → Nat → Option Codec
  | .nil, _ => none
  | .cons _ _ _ _ c _, 0 => some c
  | .cons _ _ _ _ _ rest, i + 1 => codecAt rest i

theorem lookup_go_at (num : Nat) : ∀ (fs : CFields) (i0 : Nat) (acc : Option (Nat × Bool × Bool × Codec))
    (r : Nat × Bool × Bool × Codec), lookupField.go num fs i0 acc = some r →
    acc = some r ∨ (i0 ≤ r.1 ∧ codecAt fs (r.1 - i0) = some r.2.2.2)
  | .nil, i0, acc, r, h => by simp only [lookupField.go] at h; exact .inl h
  | .cons n emb rep zz c rest, i0, acc, r, h => by
    simp only [lookupField.go] at h
    rcases lookup_go_at num rest (i0 + 1) _ r h with h1 | ⟨h1, h2⟩
    · split at h1
      · simp only [Option.some.injEq] at h1; subst h1
        right; exact ⟨Nat.le_refl _, by simp only [Nat.sub_self, codecAt]⟩
      · exact .inl h1
    · right
      refine ⟨by omega, ?_⟩
      have e : r.1 - i0 = (r.1 - (i0 + 1)) + 1 := by omega
      rw [e]; simp only [codecAt]; exact h2

theorem lookup_at (fs : CFields) (num i : Nat) (emb zz : Bool) (c : Codec)
    (h : lookupField fs num = some (i, emb, zz, c)) : codecAt fs i = some c := by
  rcases lookup_go_at num fs 0 none _ h with h1 | ⟨_, h2⟩
  · cases h1
  · simpa using h2

theorem get_liftCF : ∀ (fs : CFields) (vs : Vals) (i : Nat) (c : Codec), codecAt fs i = some c →
    Vals.get (liftCF fs vs) i = liftC c (Vals.get vs i)
  | .nil, vs, i, c, h => by simp only [codecAt] at h; cases h
  | .cons n emb rep zz c0 rest, .nil, i, c, h => by simp only [liftCF, Vals.get, liftC_nil]
  | .cons n emb rep zz c0 rest, .cons v vs, 0, c, h => by
    simp only [codecAt, Option.some.injEq] at h; subst h
    simp only [liftCF, Vals.get]
  | .cons n emb rep zz c0 rest, .cons v vs, i + 1, c, h => by
    simp only [codecAt] at h
    simp only [liftCF, Vals.get]; exact get_liftCF rest vs i c h

theorem set_liftCF : ∀ (fs : CFields) (vs : Vals) (i : Nat) (c : Codec) (x : Val), codecAt fs i = some c →
    Vals.set (liftCF fs vs) i (liftC c x) = liftCF fs (Vals.set vs i x)
  | .nil, vs, i, c, x, h => by simp only [codecAt] at h; cases h
  | .cons n emb rep zz c0 rest, .nil, i, c, x, h => by simp only [liftCF, Vals.set]
  | .cons n emb rep zz c0 rest, .cons v vs, 0, c, x, h => by
    simp only [codecAt, Option.some.injEq] at h; subst h
    simp only [liftCF, Vals.set]
  | .cons n emb rep zz c0 rest, .cons v vs, i + 1, c, x, h => by
    simp only [codecAt] at h
    simp only [liftCF, Vals.set, set_liftCF rest vs i c x h]

theorem at_extra : ∀ (fs : CFields) (i : Nat) (c : Codec), codecAt fs i = some c → extra c ≤ extraF fs
  | .nil, i, c, h => by simp only [codecAt] at h; cases h
  | .cons n emb rep zz c0 rest, 0, c, h => by
    simp only [codecAt, Option.some.injEq] at h; subst h; simp only [extraF]; omega
  | .cons n emb rep zz c0 rest, i + 1, c, h => by
    simp only [codecAt] at h
    have := at_extra rest i c h
    simp only [extraF]; omega

theorem at_WFC : ∀ (fs : CFields) (i : Nat) (c : Codec), WFCF fs → codecAt fs i = some c → WFC c
  | .nil, i, c, _, h => by simp only [codecAt] at h; cases h
  | .cons n emb rep zz c0 rest, 0, c, hw, h => by
    simp only [codecAt, Option.some.injEq] at h; subst h; simp only [WFCF] at hw; exact hw.1
  | .cons n emb rep zz c0 rest, i + 1, c, hw, h => by
    simp only [codecAt] at h; simp only [WFCF] at hw
    exact at_WFC rest i c hw.2 h

/-! ## `Res` plumbing -/

theorem mapRes_id {α : Type} (g : α → α) (h : ∀ a, g a = a) (r : Res α) : mapRes g r = r := by
  cases r <;> simp only [mapRes, h]

theorem liftR_id (g : Val → Val) (h : ∀ v, g v = v) (r : Res (Val × Nat)) : liftR g r = r := by
  apply mapRes_id; intro a; simp only [h]

theorem bind_lift {α β α' β' : Type} (r : Res α) (r' : Res α') (g : α' → α) (h : β' → β) (k : α → Res β)
    (k' : α' → Res β')
    (hr : r' ≠ .err "fuel" → r = mapRes g r')
    (hk : ∀ a, r' = .ok a → k' a ≠ .err "fuel" → k (g a) = mapRes h (k' a))
    (hne : r'.bind k' ≠ .err "fuel") : r.bind k = mapRes h (r'.bind k') := by
  cases r' with
  | ok a => rw [hr (by simp)]; exact hk a rfl hne
  | err e => rw [hr (by simpa [Res.bind] using hne)]; rfl
  | panic e => rw [hr (by simp)]; rfl

theorem ofList_snoc_map (f : Val → Val) : ∀ (l : Vals) (x : Val),
    Vals.ofList ((mapVals f l).toList ++ [f x]) = mapVals f (Vals.ofList (l.toList ++ [x]))
  | .nil, x => by simp [mapVals, Vals.toList, Vals.ofList]
  | .cons v r, x => by
    simp only [mapVals, Vals.toList, List.cons_append, Vals.ofList, ofList_snoc_map f r x]

theorem mapAssign_map2 (f : Val → Val) (k v : Val) : ∀ (n : Nat) (kvs : Vals), kvs.length ≤ n →
    mapAssign (mapVals2 f kvs) k (f v) valEqShow = mapVals2 f (mapAssign kvs k v valEqShow)
  | n, .nil, _ => by simp only [mapVals2, mapAssign]
  | n, .cons a .nil, _ => by simp only [mapVals2, mapAssign]
  | 0, .cons a (.cons b r), h => by simp only [Vals.length] at h; omega
  | n + 1, .cons a (.cons b r), h => by
    simp only [Vals.length] at h
    simp only [mapVals2, mapAssign]
    split
    · simp only [mapVals2]
    · simp only [mapVals2, mapAssign_map2 f k v n r (by omega)]

theorem mapAssign_map2' (f : Val → Val) (k v : Val) (kvs : Vals) :
    mapAssign (mapVals2 f kvs) k (f v) valEqShow = mapVals2 f (mapAssign kvs k v valEqShow) :=
  mapAssign_map2 f k v kvs.length kvs (Nat.le_refl _)

theorem WFC_scalar (c : Codec) (h : scalarC c = true) : WFC c := by
  cases c <;> simp only [scalarC] at h <;> first | (exact absurd h (by decide)) | simp only [WFC]

/-! ## the decoder -/

/-- the statement at fuel `f` of the reduced run -/
def NonS (f : Nat) : Prop :=
  ∀ (c : Codec) (b : Bytes) (y : Val) (fl : Flags) (F : Nat), WFC c →
    decodeU f (reduceC c) b y fl ≠ .err "fuel" → f + extra c ≤ F →
    decodeU F c b (liftC c y) fl = liftR (liftC c) (decodeU f (reduceC c) b y fl)

def StructS (f : Nat) : Prop :=
  ∀ (fs : CFields) (b : Bytes) (lenB : Nat) (vs : Vals) (fl : Flags) (off F : Nat), WFCF fs →
    decodeStructU f (reduceCF fs) b lenB vs fl off ≠ .err "fuel" → f + extraF fs ≤ F →
    decodeStructU F fs b lenB (liftCF fs vs) fl off
      = liftRs (liftCF fs) (decodeStructU f (reduceCF fs) b lenB vs fl off)

theorem WFC_ptr {c : Codec} (h : WFC (.ptr c)) : WFC c := by simpa only [WFC] using h

theorem chain_notPtr (f : Nat) (ih : NonS f) (c : Codec) (hp : notPtrC c = true) (b : Bytes) (y : Val) (fl : Flags)
    (F : Nat) (hw : WFC c) (hne : decodeU f (reduceSC c) b y fl ≠ .err "fuel") (hF : f + extraS c ≤ F) :
    decodeU F c b (liftSC c y) fl = liftR (liftSC c) (decodeU f (reduceSC c) b y fl) := by
  have e : liftSC c = liftC c := funext (liftSC_notPtr c hp)
  rw [reduceSC_notPtr c hp] at hne ⊢
  rw [extraS_notPtr c hp] at hF
  rw [e]
  exact ih c b y fl F hw hne hF

/-- through the head pointers, starting from a lifted target -/
theorem chainL (f : Nat) (ih : NonS f) : ∀ (c : Codec) (b : Bytes) (y : Val) (fl : Flags) (F : Nat), WFC c →
    decodeU f (reduceSC c) b y fl ≠ .err "fuel" → f + extraS c ≤ F →
    decodeU F c b (liftSC c y) fl = liftR (liftSC c) (decodeU f (reduceSC c) b y fl)
  | .ptr c, b, y, fl, F, hw, hne, hF => by
    simp only [extraS] at hF
    obtain ⟨F1, rfl⟩ : ∃ F1, F = F1 + 1 := ⟨F - 1, by omega⟩
    simp only [reduceSC] at hne ⊢
    simp only [liftSC, decodeU]
    rw [chainL f ih c b y fl F1 (WFC_ptr hw) hne (by omega)]
    cases decodeU f (reduceSC c) b y fl <;> rfl
  | .slice e n w emb, b, y, fl, F, hw, hne, hF => chain_notPtr f ih _ rfl b y fl F hw hne hF
  | .map n k v ke ve entry, b, y, fl, F, hw, hne, hF => chain_notPtr f ih _ rfl b y fl F hw hne hF
  | .struct fs, b, y, fl, F, hw, hne, hF => chain_notPtr f ih _ rfl b y fl F hw hne hF
  | .bool, b, y, fl, F, hw, hne, hF | .int, b, y, fl, F, hw, hne, hF | .int32, b, y, fl, F, hw, hne, hF
  | .int64, b, y, fl, F, hw, hne, hF | .uint, b, y, fl, F, hw, hne, hF | .uint32, b, y, fl, F, hw, hne, hF
  | .uint64, b, y, fl, F, hw, hne, hF | .fixed32, b, y, fl, F, hw, hne, hF | .fixed64, b, y, fl, F, hw, hne, hF
  | .sfixed32, b, y, fl, F, hw, hne, hF | .sfixed64, b, y, fl, F, hw, hne, hF | .float32, b, y, fl, F, hw, hne, hF
  | .float64, b, y, fl, F, hw, hne, hF | .string, b, y, fl, F, hw, hne, hF | .bytes, b, y, fl, F, hw, hne, hF
  | .byteArray _, b, y, fl, F, hw, hne, hF | .message, b, y, fl, F, hw, hne, hF
  | .unsupported, b, y, fl, F, hw, hne, hF => chain_notPtr f ih _ rfl b y fl F hw hne hF

theorem chainZ_notPtr (f : Nat) (ih : NonS f) (c : Codec) (hp : notPtrC c = true) (b : Bytes) (fl : Flags)
    (F : Nat) (hw : WFC c) (hne : decodeU f (reduceSC c) b (zeroOfCodec (reduceSC c)) fl ≠ .err "fuel")
    (hF : f + extraS c ≤ F) :
    decodeU F c b (zeroOfCodec c) fl = liftR (liftSC c) (decodeU f (reduceSC c) b (zeroOfCodec (reduceSC c)) fl) := by
  have e : liftSC c = liftC c := funext (liftSC_notPtr c hp)
  rw [reduceSC_notPtr c hp] at hne ⊢
  rw [extraS_notPtr c hp] at hF
  rw [e, zeroC_lift c]
  exact ih c b _ fl F hw hne hF

/-- through the head pointers, starting from the zero value (a fresh element of a `[]*T`, a nil `**T`) -/
theorem chainZ (f : Nat) (ih : NonS f) : ∀ (c : Codec) (b : Bytes) (fl : Flags) (F : Nat), WFC c →
    decodeU f (reduceSC c) b (zeroOfCodec (reduceSC c)) fl ≠ .err "fuel" → f + extraS c ≤ F →
    decodeU F c b (zeroOfCodec c) fl = liftR (liftSC c) (decodeU f (reduceSC c) b (zeroOfCodec (reduceSC c)) fl)
  | .ptr c, b, fl, F, hw, hne, hF => by
    simp only [extraS] at hF
    obtain ⟨F1, rfl⟩ : ∃ F1, F = F1 + 1 := ⟨F - 1, by omega⟩
    simp only [reduceSC] at hne ⊢
    simp only [zeroOfCodec, decodeU]
    rw [chainZ f ih c b fl F1 (WFC_ptr hw) hne (by omega)]
    cases decodeU f (reduceSC c) b (zeroOfCodec (reduceSC c)) fl <;> rfl
  | .slice e n w emb, b, fl, F, hw, hne, hF => chainZ_notPtr f ih _ rfl b fl F hw hne hF
  | .map n k v ke ve entry, b, fl, F, hw, hne, hF => chainZ_notPtr f ih _ rfl b fl F hw hne hF
  | .struct fs, b, fl, F, hw, hne, hF => chainZ_notPtr f ih _ rfl b fl F hw hne hF
  | .bool, b, fl, F, hw, hne, hF | .int, b, fl, F, hw, hne, hF | .int32, b, fl, F, hw, hne, hF
  | .int64, b, fl, F, hw, hne, hF | .uint, b, fl, F, hw, hne, hF | .uint32, b, fl, F, hw, hne, hF
  | .uint64, b, fl, F, hw, hne, hF | .fixed32, b, fl, F, hw, hne, hF | .fixed64, b, fl, F, hw, hne, hF
  | .sfixed32, b, fl, F, hw, hne, hF | .sfixed64, b, fl, F, hw, hne, hF | .float32, b, fl, F, hw, hne, hF
  | .float64, b, fl, F, hw, hne, hF | .string, b, fl, F, hw, hne, hF | .bytes, b, fl, F, hw, hne, hF
  | .byteArray _, b, fl, F, hw, hne, hF | .message, b, fl, F, hw, hne, hF
  | .unsupported, b, fl, F, hw, hne, hF => chainZ_notPtr f ih _ rfl b fl F hw hne hF

/-- scalar codecs: nothing to lift, fuel irrelevant -/
theorem nonS_scalar (f : Nat) (c : Codec) (hs : scalarC c = true) (b : Bytes) (y : Val) (fl : Flags) (F : Nat)
    (hne : decodeU f (reduceC c) b y fl ≠ .err "fuel") (hF : f + extra c ≤ F) :
    decodeU F c b (liftC c y) fl = liftR (liftC c) (decodeU f (reduceC c) b y fl) := by
  rw [reduceC_scalar c hs] at hne ⊢
  rw [liftC_scalar c hs, liftR_id _ (liftC_scalar c hs)]
  exact decode_mono f F c b y fl (by omega) hne

theorem nonS_succ (f : Nat) (ihd : NonS f) (ihs : StructS f) : NonS (f + 1) := by
  intro c b y fl F hw hne hF
  obtain ⟨F1, rfl⟩ : ∃ F1, F = F1 + 1 := ⟨F - 1, by omega⟩
  cases c
  case ptr c1 =>
    simp only [extra] at hF
    cases y
    case ptr v =>
      simp only [reduceC, decodeU] at hne ⊢
      simp only [liftC, decodeU, liftR]
      refine bind_lift _ _ (fun x : Val × Nat => (liftSC c1 x.1, x.2)) _ _ _
        (fun h => chainL f ihd c1 b v fl F1 (WFC_ptr hw) h (by omega)) ?_ hne
      intro a _ _; simp [mapRes, liftC]
    all_goals
      simp only [reduceC, decodeU] at hne ⊢
      simp only [liftC, decodeU, liftR]
      refine bind_lift _ _ (fun x : Val × Nat => (liftSC c1 x.1, x.2)) _ _ _
        (fun h => chainZ f ihd c1 b fl F1 (WFC_ptr hw) h (by omega)) ?_ hne
      intro a _ _; simp [mapRes, liftC]
  case slice e n w emb =>
    simp only [extra] at hF
    have hwe : WFC e := by simpa only [WFC] using hw
    simp only [reduceC, decodeU] at hne ⊢
    have hne' : decodeU f (reduceSC e) b (zeroOfCodec (reduceSC e)) {} ≠ .err "fuel" := by
      intro hc; rw [hc] at hne; exact hne rfl
    rw [chainZ f ihd e b {} F1 hwe hne' (by omega)]
    cases y <;> simp only [liftC] <;> cases decodeU f (reduceSC e) b (zeroOfCodec (reduceSC e)) {} <;>
      simp [liftR, mapRes, liftC, ofList_snoc_map, mapVals, Vals.toList, Vals.ofList]
  case struct fs =>
    simp only [extra] at hF
    have hwf : WFCF fs := by simpa only [WFC] using hw
    cases y
    case struct vs =>
      simp only [reduceC, decodeU] at hne ⊢
      simp only [liftC, decodeU, liftR]
      refine bind_lift _ _ (fun x : Vals × Nat => (liftCF fs x.1, x.2)) _ _ _
        (fun h => ihs fs b _ vs _ 0 F1 hwf h (by omega)) ?_ hne
      intro a _ _; simp [mapRes, liftC]
    all_goals simp only [reduceC, liftC, decodeU, liftR, mapRes]
  case map n k v ke ve entry =>
    simp only [WFC] at hw
    obtain ⟨hk, hv, he⟩ := hw
    subst he
    simp only [extra, extraF] at hF
    simp only [reduceC, reduceCF, reduceC_scalar k hk, decodeU] at hne ⊢
    by_cases hb : b.isEmpty = true
    · cases y <;> simp [liftC, hb, liftR, mapRes, mapVals2]
    · simp only [hb, Bool.false_eq_true, ↓reduceIte] at hne ⊢
      have hwE : WFC (.struct (.cons 1 ke false false k (.cons 2 ve false false v .nil))) := by
        simp only [WFC, WFCF]; exact ⟨WFC_scalar k hk, hv, trivial⟩
      have hne' : decodeU f (.struct (.cons 1 ke false false k (.cons 2 ve false false (reduceC v) .nil))) b
          (zeroOfCodec (.struct (.cons 1 ke false false k (.cons 2 ve false false (reduceC v) .nil)))) {}
            ≠ .err "fuel" := by
        intro hc; rw [hc] at hne; exact hne rfl
      have key := ihd (.struct (.cons 1 ke false false k (.cons 2 ve false false v .nil))) b
        (zeroOfCodec (reduceC (.struct (.cons 1 ke false false k (.cons 2 ve false false v .nil))))) {} F1 hwE
        (by simpa only [reduceC, reduceCF, reduceC_scalar k hk] using hne')
        (by simp only [extra, extraF]; omega)
      rw [← zeroC_lift] at key
      simp only [reduceC, reduceCF, reduceC_scalar k hk] at key
      rw [key]
      generalize decodeU f (.struct (.cons 1 ke false false k (.cons 2 ve false false (reduceC v) .nil))) b
          (zeroOfCodec (.struct (.cons 1 ke false false k (.cons 2 ve false false (reduceC v) .nil)))) {} = R
      rcases R with ⟨x, m⟩ | e | e
      · cases x
        case struct xs =>
          rcases xs with _ | ⟨a, _ | ⟨b', _ | ⟨c', r⟩⟩⟩ <;>
            cases y <;>
            simp [liftR, mapRes, liftC, liftCF, liftC_scalar k hk, mapVals2, mapAssign_map2', mapAssign]
        all_goals cases y <;> simp [liftR, mapRes, liftC]
      · cases y <;> simp [liftR, mapRes, liftC]
      · cases y <;> simp [liftR, mapRes, liftC]
  all_goals exact nonS_scalar (f + 1) _ rfl b y fl (F1 + 1) hne hF

theorem structS_succ (f : Nat) (ihd : NonS f) (ihs : StructS f) : StructS (f + 1) := by
  intro fs b lenB vs fl off F hw hne hF
  obtain ⟨F1, rfl⟩ : ∃ F1, F = F1 + 1 := ⟨F - 1, by omega⟩
  rw [decodeStruct_succ] at hne ⊢
  rw [decodeStruct_succ]
  by_cases hb : b.isEmpty = true
  · simp only [hb, if_true, liftRs, mapRes]
  · simp only [hb, Bool.false_eq_true, ↓reduceIte] at hne ⊢
    cases hd : decodeVarint b with
    | err e => simp only [liftRs, mapRes]
    | panic e => simp only [liftRs, mapRes]
    | ok a =>
      obtain ⟨tag, n⟩ := a
      rw [hd] at hne
      simp only [] at hne ⊢
      rw [lookup_reduce] at hne ⊢
      cases hlk : lookupField fs (tag >>> 3).toNat with
      | none =>
        simp only [hlk, Option.map_none] at hne ⊢
        simp only [liftRs]
        refine bind_lift _ _ id _ _ _ (fun _ => (mapRes_id id (fun _ => rfl) _).symm) ?_ hne
        intro skip _ h2
        exact ihs fs _ lenB vs fl _ F1 hw h2 (by omega)
      | some r =>
        obtain ⟨i, emb, zz, c⟩ := r
        simp only [hlk, Option.map_some, R4, wire_reduceC] at hne ⊢
        have hat := lookup_at fs _ i emb zz c hlk
        by_cases hwire : ((tag &&& 7#64).toNat != c.wire.num) = true
        · simp only [hwire, ↓reduceIte, liftRs, mapRes]
        · simp only [hwire, Bool.false_eq_true, ↓reduceIte] at hne ⊢
          simp only [liftRs]
          refine bind_lift _ _ id _ _ _ (fun _ => (mapRes_id id (fun _ => rfl) _).symm) ?_ hne
          intro ⟨data, pre⟩ _ h2
          simp only [id]
          rw [get_liftCF fs vs i c hat]
          refine bind_lift _ _ (fun x : Val × Nat => (liftC c x.1, x.2)) _ _ _
            (fun h => ihd c data _ _ F1 (at_WFC fs i c hw hat) h (by have := at_extra fs i c hat; omega)) ?_ h2
          intro ⟨v, m⟩ _ h3
          simp only []
          rw [set_liftCF fs vs i c v hat]
          exact ihs fs _ lenB _ fl _ F1 hw h3 (by omega)

theorem decode_lift_aux : ∀ f : Nat, NonS f ∧ StructS f
  | 0 => ⟨fun c b y fl F _ hne _ => absurd (by simp only [decodeU]) hne,
          fun fs b lenB vs fl off F _ hne _ => absurd (by simp only [decodeStructU]) hne⟩
  | f + 1 => ⟨nonS_succ f (decode_lift_aux f).1 (decode_lift_aux f).2,
              structS_succ f (decode_lift_aux f).1 (decode_lift_aux f).2⟩

/-- **the decoder does not see the reduction**: decoding into a lifted target gives the lifted result (value, byte count,
error or panic), whenever the reduced run has enough fuel and the original run `extra c` more -/
theorem decodeU_lift (f F : Nat) (c : Codec) (b : Bytes) (y : Val) (fl : Flags) (hw : WFC c)
    (hne : decodeU f (reduceC c) b y fl ≠ .err "fuel") (hF : f + extra c ≤ F) :
    decodeU F c b (liftC c y) fl = liftR (liftC c) (decodeU f (reduceC c) b y fl) :=
  (decode_lift_aux f).1 c b y fl F hw hne hF

/-! ## fuel and nesting bookkeeping -/

mutual
theorem height_le : ∀ c : Codec, Codec.height c ≤ Codec.height (reduceC c) + extra c
  | .ptr c => by have := heightS_le c; simp only [reduceC, Codec.height, extra]; omega
  | .slice e n w emb => by have := heightS_le e; simp only [reduceC, Codec.height, extra]; omega
  | .map n k v ke ve entry => by have := height_le entry; simp only [reduceC, Codec.height, extra]; omega
  | .struct fs => by have := heightF_le fs; simp only [reduceC, Codec.height, extra]; omega
  | .bool | .int | .int32 | .int64 | .uint | .uint32 | .uint64 | .fixed32 | .fixed64 | .sfixed32 | .sfixed64
  | .float32 | .float64 | .string | .bytes | .byteArray _ | .message | .unsupported => by
    simp only [reduceC, Codec.height, extra]; omega
theorem heightS_le : ∀ c : Codec, Codec.height c ≤ Codec.height (reduceSC c) + extraS c
  | .ptr c => by have := heightS_le c; simp only [reduceSC, Codec.height, extraS]; omega
  | .slice e n w emb => by have := heightS_le e; simp only [reduceSC, Codec.height, extraS]; omega
  | .map n k v ke ve entry => by have := height_le entry; simp only [reduceSC, Codec.height, extraS]; omega
  | .struct fs => by have := heightF_le fs; simp only [reduceSC, Codec.height, extraS]; omega
  | .bool | .int | .int32 | .int64 | .uint | .uint32 | .uint64 | .fixed32 | .fixed64 | .sfixed32 | .sfixed64
  | .float32 | .float64 | .string | .bytes | .byteArray _ | .message | .unsupported => by
    simp only [reduceSC, Codec.height, extraS]; omega
theorem heightF_le : ∀ fs : CFields, CFields.height fs ≤ CFields.height (reduceCF fs) + extraF fs
  | .nil => by simp only [reduceCF, CFields.height, extraF]; omega
  | .cons n emb rep zz c rest => by
    have := height_le c; have := heightF_le rest
    simp only [reduceCF, CFields.height, extraF]; omega
end

mutual
/-- pointers are not message levels: the reduction keeps `Codec.nesting` -/
theorem nesting_reduceC : ∀ c : Codec, Codec.nesting (reduceC c) = Codec.nesting c
  | .ptr c => by simp only [reduceC, Codec.nesting, nesting_reduceSC c]
  | .slice e n w emb => by simp only [reduceC, Codec.nesting, nesting_reduceSC e]
  | .map n k v ke ve entry => by simp only [reduceC, Codec.nesting, nesting_reduceC entry]
  | .struct fs => by simp only [reduceC, Codec.nesting, nestingF_reduceCF fs]
  | .bool | .int | .int32 | .int64 | .uint | .uint32 | .uint64 | .fixed32 | .fixed64 | .sfixed32 | .sfixed64
  | .float32 | .float64 | .string | .bytes | .byteArray _ | .message | .unsupported => by simp only [reduceC]
theorem nesting_reduceSC : ∀ c : Codec, Codec.nesting (reduceSC c) = Codec.nesting c
  | .ptr c => by simp only [reduceSC, Codec.nesting, nesting_reduceSC c]
  | .slice e n w emb => by simp only [reduceSC, Codec.nesting, nesting_reduceSC e]
  | .map n k v ke ve entry => by simp only [reduceSC, Codec.nesting, nesting_reduceC entry]
  | .struct fs => by simp only [reduceSC, Codec.nesting, nestingF_reduceCF fs]
  | .bool | .int | .int32 | .int64 | .uint | .uint32 | .uint64 | .fixed32 | .fixed64 | .sfixed32 | .sfixed64
  | .float32 | .float64 | .string | .bytes | .byteArray _ | .message | .unsupported => by simp only [reduceSC]
theorem nestingF_reduceCF : ∀ fs : CFields, CFields.nesting (reduceCF fs) = CFields.nesting fs
  | .nil => by simp only [reduceCF]
  | .cons n emb rep zz c rest => by simp only [reduceCF, CFields.nesting, nesting_reduceC c, nestingF_reduceCF rest]
end

/-- with the fuel `unmarshalU` uses on each side -/
theorem decodeU_lift_unmarshal (c : Codec) (hw : WFC c) (b : Bytes) (y : Val) (fl : Flags) :
    decodeU (2 * b.length + 8 + Codec.height c) c b (liftC c y) fl
      = liftR (liftC c) (decodeU (2 * b.length + 8 + Codec.height (reduceC c)) (reduceC c) b y fl) := by
  have hh := height_le c
  rw [decode_fuel_irrelevant _ ((2 * b.length + 8 + Codec.height (reduceC c)) + extra c) c b _ fl (by omega) (by omega)]
  exact decodeU_lift _ _ c b y fl hw (unmarshal_fuel_ok _ b y fl) (Nat.le_refl _)

#print axioms encode_lift
#print axioms decodeU_lift
#print axioms decodeU_lift_unmarshal

end Enc.Lemmas.ProtoPtrs
