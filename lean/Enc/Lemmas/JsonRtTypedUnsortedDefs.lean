import Enc.Lemmas.JsonEncTypedEq
/-!
# The typed encoder WITHOUT SortMapKeys: the specification encoder with a rearrangement in place of the sort

`encSpecU sc html so` is `Spec.Json.encSpec` (EncTypedSpec.lean) with ONE change: at every map node (typed maps and
`map[string]any` inside interfaces) the members are written in the order `so members` instead of `stdSort members`.
`SoPerm so` — `so` only rearranges. With `so = stdSort` it is `encSpec` itself (`encSpecU_stdSort`).
`soOf sortKeys ord` — the rearrangement the encoder as coded applies (the runtime's iteration order `ord`, then the sort when
SortMapKeys is set), on all-ok entries.
-/
namespace Enc.Lemmas.JsonRtTypedU
open Enc Enc.Model.Json Enc.Model.Json.Typed
open Enc.Model.Json.MapKeyOrder (strLT sortBy joinMembers)
open Enc.Spec.Json (encSpec encSpecs encSpecMs encSpecFs genericText genericTexts genericMembers floatText numberText
  arrText objText mapText joinWith appendString intString intRange nullT boolText bytesOf consOpt)
open Enc.Lemmas.JsonEncTyped (okE okEntries OrdPerm)

/-- a rearrangement of the members of a map -/
abbrev MemOrd := List (Bytes × Bytes) → List (Bytes × Bytes)

def SoPerm (so : MemOrd) : Prop := ∀ l, (so l).Perm l

/-- the members in the order `so`, keys written by appendString -/
def mapTextU (html : Bool) (so : MemOrd) (ms : List (Bytes × Bytes)) : Bytes :=
  objText ((so ms).map fun p => (appendString p.1 html, p.2))

mutual
def genericTextU (sc : Strconv) (html : Bool) (so : MemOrd) : GV → Option Bytes
  | .null => some nullT
  | .bool b => some (boolText b)
  | .num lit .f64 => floatText sc lit
  | .num lit .num => numberText lit
  | .num _ _ => none
  | .str s => some (appendString s html)
  | .arr vs => (genericTextsU sc html so vs).map arrText
  | .obj ms => (genericMembersU sc html so ms).map (mapTextU html so)
def genericTextsU (sc : Strconv) (html : Bool) (so : MemOrd) : GVs → Option (List Bytes)
  | .nil => some []
  | .cons v rest => consOpt (genericTextU sc html so v) (genericTextsU sc html so rest)
def genericMembersU (sc : Strconv) (html : Bool) (so : MemOrd) : GMs → Option (List (Bytes × Bytes))
  | .nil => some []
  | .cons k v rest => consOpt ((genericTextU sc html so v).map fun x => (k, x)) (genericMembersU sc html so rest)
end

mutual
def encSpecU (sc : Strconv) (html : Bool) (so : MemOrd) : JT → JV → Option Bytes
  | .bool, .bool b => some (boolText b)
  | .int _, .int i => some (intString i)
  | .float, .float lit => floatText sc lit
  | .str, .str s => some (appendString s html)
  | .slice e, .slice isNil vs _ =>
    if isNil then some nullT
    else if e == .int .u8 then some ([0x22] ++ Buf.b64 (bytesOf vs) ++ [0x22])
    else (encSpecsU sc html so e vs).map arrText
  | .array _ e, .array vs => (encSpecsU sc html so e vs).map arrText
  | .mapS e, .map isNil ms => if isNil then some nullT else (encSpecMsU sc html so e ms).map (mapTextU html so)
  | .ptr _, .nilptr => some nullT
  | .ptr e, .ptr _ v => encSpecU sc html so e v
  | .strct fs, .strct vs => (encSpecFsU sc html so fs vs).map objText
  | .any, .anyv g => genericTextU sc html so g
  | .any, .anyp t _ v => encSpecU sc html so t v
  | _, _ => none
def encSpecsU (sc : Strconv) (html : Bool) (so : MemOrd) (e : JT) : JVs → Option (List Bytes)
  | .nil => some []
  | .cons v rest => consOpt (encSpecU sc html so e v) (encSpecsU sc html so e rest)
def encSpecMsU (sc : Strconv) (html : Bool) (so : MemOrd) (e : JT) : JMs → Option (List (Bytes × Bytes))
  | .nil => some []
  | .cons k v rest => consOpt ((encSpecU sc html so e v).map fun x => (k, x)) (encSpecMsU sc html so e rest)
def encSpecFsU (sc : Strconv) (html : Bool) (so : MemOrd) : JFs → JVs → Option (List (Bytes × Bytes))
  | .nil, .nil => some []
  | .cons name t frest, .cons v vrest =>
    consOpt ((encSpecU sc html so t v).map fun x => (appendString name html, x)) (encSpecFsU sc html so frest vrest)
  | _, _ => none
end

/-- the ok part of entries -/
def unOk (es : MEntries) : List (Bytes × Bytes) :=
  es.filterMap fun p => match p.2 with | .ok v => some (p.1, v) | _ => none

/-- the order in which the encoder as coded writes all-ok entries -/
def soOf (sortKeys : Bool) (ord : MapOrd) : MemOrd := fun l =>
  unOk (if sortKeys then sortBy (fun p q => strLT p.1 q.1) (ord (okEntries l)) else ord (okEntries l))

end Enc.Lemmas.JsonRtTypedU
