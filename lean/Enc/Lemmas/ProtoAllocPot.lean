import Enc.Lemmas.ProtoAlloc
/-!
Amortisation of `growSlice` (cap 0 → 10 → 20 → 40 …): the potential of a repeated field, and the potential `Phi` of a
whole target value (sum over the slices reachable through pointers, message fields and slice elements).

`pot n` is the credit a slice of `n` elements holds; an append costs `growAlloc n` elements and is paid by 14 elements of
credit: `growAlloc n + pot (n + 1) ≤ pot n + 14` (`grow_pot`).
-/
namespace Enc.Lemmas.ProtoAlloc
open Enc Enc.Model.Proto

theorem capOf_ge (n : Nat) : n ≤ capOf n := by
  induction n with
  | zero => simp [capOf]
  | succ n ih =>
    simp only [capOf, sliceCap0, sliceGrow]
    split
    · rename_i h
      have h : n = capOf n := by simpa using h
      split
      · rename_i h0
        have h0 : capOf n = 0 := by simpa using h0
        omega
      · rename_i h0
        have h0 : ¬ capOf n = 0 := by simpa using h0
        omega
    · rename_i h
      have h : ¬ n = capOf n := by simpa using h
      omega

theorem capOf_le (n : Nat) : capOf n ≤ 2 * n + 10 := by
  induction n with
  | zero => simp [capOf]
  | succ n ih =>
    simp only [capOf, sliceCap0, sliceGrow]
    split
    · rename_i h
      have h : n = capOf n := by simpa using h
      split <;> omega
    · omega

/-- the credit held by a slice of `n` elements (in elements) -/
def pot (n : Nat) : Nat := if n = 0 then 0 else 4 * n + 20 - 2 * capOf n

theorem pot_zero : pot 0 = 0 := rfl

theorem capOf_succ (n : Nat) :
    capOf (n + 1) = if n = capOf n then (if capOf n = 0 then 10 else 2 * capOf n) else capOf n := by
  simp only [capOf, sliceCap0, sliceGrow, beq_iff_eq]

theorem growAlloc_eq (n : Nat) : growAlloc n = if n = capOf n then capOf (n + 1) else 0 := by
  simp only [growAlloc, beq_iff_eq]

theorem pot_succ (n : Nat) : pot (n + 1) = 4 * (n + 1) + 20 - 2 * capOf (n + 1) := by
  simp [pot]

theorem pot_pos (n : Nat) (h : n ≠ 0) : pot n = 4 * n + 20 - 2 * capOf n := by
  simp [pot, h]

/-- **amortised cost of one append** — the three cases of `sliceDecodeFuncOf`: first element (10 allocated), `len == cap`
(2·len allocated), spare capacity (nothing) -/
theorem grow_pot (n : Nat) : growAlloc n + pot (n + 1) ≤ pot n + 14 := by
  have hge := capOf_ge n
  have hle := capOf_le n
  have hs := capOf_succ n
  have hg := growAlloc_eq n
  have hp := pot_succ n
  by_cases h : n = capOf n
  · rw [if_pos h] at hs hg
    by_cases h0 : capOf n = 0
    · rw [if_pos h0] at hs
      have hn : n = 0 := by omega
      subst hn
      rw [pot_zero]; omega
    · rw [if_neg h0] at hs
      have hn : n ≠ 0 := by omega
      rw [pot_pos n hn]; omega
  · rw [if_neg h] at hs hg
    have hn : n ≠ 0 := by
      intro h0; subst h0; simp [capOf] at h
    rw [pot_pos n hn]; omega

/-- the same in bytes, for an element of `esz` bytes -/
theorem grow_pot_bytes (n esz : Nat) : growAlloc n * esz + pot (n + 1) * esz ≤ pot n * esz + 14 * esz := by
  have := Nat.mul_le_mul_right esz (grow_pot n)
  simpa only [Nat.add_mul] using this

/-! ## potential of a value -/
mutual
/-- credit held by the slices of a target value of codec `c` -/
def Phi : Codec → Val → Nat
  | .ptr c, .ptr v => Phi c v
  | .struct fs, .struct vs => PhiF fs vs
  | .slice e _ _ _, .list vs => pot vs.length * Codec.sz e + PhiE e vs
  | _, _ => 0
def PhiF : CFields → Vals → Nat
  | .cons _ _ _ _ c rest, .cons v vs => Phi c v + PhiF rest vs
  | _, _ => 0
def PhiE : Codec → Vals → Nat
  | e, .cons v vs => Phi e v + PhiE e vs
  | _, .nil => 0
end

theorem PhiE_append (e : Codec) : ∀ (vs : Vals) (v : Val),
    PhiE e (Vals.ofList (vs.toList ++ [v])) = PhiE e vs + Phi e v
  | .nil, v => by simp [Vals.toList, Vals.ofList, PhiE]
  | .cons w ws, v => by
    have ih := PhiE_append e ws v
    simp only [Vals.toList, List.cons_append, Vals.ofList, PhiE, ih]; omega

theorem length_append : ∀ (vs : Vals) (v : Val), (Vals.ofList (vs.toList ++ [v])).length = vs.length + 1
  | .nil, v => by simp [Vals.toList, Vals.ofList, Vals.length]
  | .cons w ws, v => by
    have ih := length_append ws v
    simp only [Vals.toList, List.cons_append, Vals.ofList, Vals.length, ih]

end Enc.Lemmas.ProtoAlloc
