import Enc.Lemmas.ProtoLiberalConvTok
import Enc.Lemmas.ProtoLiberalLoop
/-!
# C12, second half, converse direction: what `Unmarshal` accepts, the reference accepts — except field number 0

  * `conv_all`            the loop: if the Go struct loop works through `b` (from values `vs` to `vs'`), then either `b`
                          is in `ZeroNum` (a record with field number 0 is reached), or the reference parser accepts `b`
                          and the reference decoder maps the records to literally the same `vs'` (with any fuel
                          ≥ 2·len+1; the entry point supplies 4·len+15)
  * `zeroNum_rejected`    every `ZeroNum` input is rejected by the reference (any fuel, any start values)

Top-level statements are in `ProtoLiberalIff`.
-/
set_option linter.unusedSimpArgs false
set_option linter.unusedVariables false
namespace Enc.Lemmas.ProtoLiberal
open Enc Enc.Model.Proto Enc.Lemmas.ProtoWire Enc.Lemmas.ProtoDecode Enc.Lemmas.ProtoRoundTrip
open Enc.Lemmas.ProtoRewriteSpec (VTok wireNum tag_num tag_type Valid parse_fuel parse_length_le)
open Enc.Spec.Protobuf (FieldOpt WireVal decodeOne decodeMsg decodeRecs parse findField valsGet valsSet deref
  unwrapPtr wrapPtr isRepeated unname)

/-- statement proved by induction on the MODEL's fuel -/
def ConvOK (f : Nat) : Prop :=
  ∀ (fs : Fields) (fl : Flags) (b : Bytes) (lenB off : Nat) (vs : Vals) (R : Vals × Nat),
    tyOK (.struct fs) = true → noArr (.struct fs) = true → fl.zigzag = false → lenB = off + b.length →
    decodeStructU f (fieldsOf 1 fs) b lenB vs fl off = .ok R →
    ZeroNum fs b ∨ ∃ recs, parse (b.length + 1) b = some recs ∧
      ∀ F, 2 * b.length + 1 ≤ F → decodeRecs F fs recs vs = some R.1

/-- the record value is the chunk of a message-typed field whose body is in `ZeroNum` -/
def ZeroIn (t : Ty) (w : WireVal) : Prop := ∃ fs' body, msgOf t = some fs' ∧ w = .len body ∧ ZeroNum fs' body

/-! ## one occurrence -/

theorem base_conv (f : Nat) (ih : ∀ f', f' < f → ConvOK f') (tb : Ty) (o : FieldOpt) (wv : WireVal) (p data : Bytes)
    (pre : Nat) (cur v : Val) (fl : Flags) (m' : Nat) (ht : tyOK tb = true)
    (hnp : isPtr tb = false)
    (hns : isSlice tb = false) (ho : optOK tb o = true) (hfl : fl.zigzag = o.zigzag)
    (hc : Carved (isStructTy tb) wv p data pre) (hw : wireNum wv = (codecFor tb o).wire.num)
    (h : decodeU f (codecFor tb o) data cur fl = .ok (v, m')) :
    m' = data.length ∧ (noArr tb = true →
      (ZeroIn tb wv ∨ ∀ F, 2 * p.length + 2 ≤ F → decodeOne F tb o wv cur = some v)) := by
  by_cases hs : isStructTy tb = true
  · cases tb <;> simp only [isStructTy] at hs <;> try (exact absurd hs (by decide))
    rename_i fs'
    have hoz : o.zigzag = false := by simpa [optOK] using ho
    have hcodec : codecFor (.struct fs') o = .struct (fieldsOf 1 fs') := by simp only [codecFor, codecOf]
    rw [hcodec] at h
    rcases hc with ⟨he, _⟩ | ⟨_, pl, rfl, hl, rfl, _⟩
    · simp [isStructTy] at he
    cases f with
    | zero => simp [decodeU] at h
    | succ f1 =>
    cases cur <;> try (simp [decodeU] at h; done)
    rename_i vs0
    rw [decode_struct_succ] at h
    obtain ⟨⟨vs1, n⟩, hds, heq⟩ := bind_ok _ _ _ h
    simp only [Res.ok.injEq, Prod.mk.injEq] at heq
    obtain ⟨rfl, rfl⟩ := heq
    have hn := decodeStruct_consumes_all _ _ _ _ _ _ _ _ _ hds
    refine ⟨by omega, fun hna => ?_⟩
    rcases ih f1 (by omega) fs' { fl with toplevel := false } data data.length 0 vs0 (vs1, n) ht hna
      (by simp only [hfl, hoz]) (by omega) hds with hz | ⟨recs, hpr, hrecs⟩
    · exact Or.inl ⟨fs', data, rfl, rfl, hz⟩
    · refine Or.inr fun F hF => ?_
      simp only [List.length_append] at hF
      have := hl.length_pos
      obtain ⟨F2, rfl⟩ : ∃ F2, F = F2 + 2 := ⟨F - 2, by omega⟩
      simp only [decodeOne, decodeMsg, hpr, Option.bind_eq_bind, Option.bind_some, hrecs F2 (by omega),
        Option.pure_def]
  · have hs' : isStructTy tb = false := by simpa using hs
    rcases hc with ⟨_, rfl, _, hp⟩ | ⟨he, _⟩
    · by_cases hna : noArr tb = true
      case neg =>
        -- a byte array: the codec consumes the whole chunk (and takes its first N bytes)
        have : ∃ n e, tb = .arr n e := by
          cases tb <;> first | exact ⟨_, _, rfl⟩ | (exfalso; simp_all [noArr, isPtr, isSlice, isStructTy])
        obtain ⟨n, e, rfl⟩ := this
        simp only [tyOK] at ht
        have := isByte_eq e ht; subst this
        refine ⟨?_, fun hna' => absurd hna' hna⟩
        cases wv <;> simp only [codecFor, codecOf, Codec.wire, wireNum, num_varlen] at hw <;>
          try (exact absurd hw (by decide))
        rename_i body
        obtain ⟨pl, hl, rfl⟩ := hp
        cases f with
        | zero => simp [decodeU] at h
        | succ f1 =>
          simp only [codecFor, codecOf, decodeU, decodeVarlen_tok pl body hl, Res.bind] at h
          split at h
          · simp at h
          · simp only [Res.ok.injEq, Prod.mk.injEq] at h
            exact h.2.symm
      have key : ∀ F', decodeOne (F' + 1) tb o wv cur = some v ∧ m' = data.length := by
        intro F'
        obtain ⟨v0, h0⟩ := scalar_conv tb o wv data cur cur v F' f fl m' ht hna hs' hnp hns ho hfl hp hw h
        cases f with
        | zero => simp [decodeU] at h
        | succ f1 =>
          obtain ⟨_, hd⟩ := scalar_agree tb o wv data cur cur v0 (F' + 1) f1 fl ht hs' hnp hns ho hfl hp h0
          rw [h] at hd
          simp only [Res.ok.injEq, Prod.mk.injEq] at hd
          exact ⟨by rw [h0, hd.1], hd.2⟩
      refine ⟨(key 0).2, fun _ => Or.inr fun F hF => ?_⟩
      obtain ⟨F', rfl⟩ : ∃ F', F = F' + 1 := ⟨F - 1, by omega⟩
      exact (key F').1
    · rw [hs'] at he; cases he

theorem emb_wire (t : Ty) (o : FieldOpt) (h : isEmb t = true) : (codecFor t o).wire = .varlen := by
  cases t <;> simp only [isEmb] at h <;> try (exact absurd h (by decide))
  case struct => simp only [codecFor, codecOf, Codec.wire]
  case ptr t' =>
    cases t' <;> simp only [isEmb] at h <;> try (exact absurd h (by decide))
    simp only [codecFor, codecOf, Codec.wire]

theorem struct_wire (e : Ty) (h : isStructTy e = true) : (codecOf e).wire = .varlen := by
  cases e <;> simp only [isStructTy] at h <;> try (exact absurd h (by decide))
  simp only [codecOf, Codec.wire]

theorem msgOf_base_ptr (t' : Ty) (fs' : Fields) (hp : ptrTarget t' = true) (h : msgOf t' = some fs') :
    msgOf (.ptr t') = some fs' := by
  cases t' <;> simp_all [msgOf, ptrTarget]

theorem msgOf_base_slice (e : Ty) (fs' : Fields) (hp : isPtr e = false) (hs : isSlice e = false)
    (h : msgOf e = some fs') : msgOf (.slice e) = some fs' := by
  cases e <;> simp_all [msgOf, isPtr, isSlice]

/-- a non-repeated field -/
theorem field_conv (f : Nat) (ih : ∀ f', f' < f → ConvOK f') (t : Ty) (o : FieldOpt) (wv : WireVal) (p data : Bytes)
    (pre : Nat) (cur v : Val) (fl : Flags) (m' : Nat) (ht : tyOK t = true)
    (hns : isSlice t = false)
    (ho : optOK t o = true) (hfl : fl.zigzag = o.zigzag)
    (hc : Carved (isEmb t) wv p data pre) (hw : wireNum wv = (codecFor t o).wire.num)
    (h : decodeU f (codecFor t o) data cur fl = .ok (v, m')) :
    m' = data.length ∧ (noArr t = true → (ZeroIn t wv ∨ ∃ v0, v = wrapPtr t v0 ∧
      ∀ F, 2 * p.length + 2 ≤ F → decodeOne F (deref t) o wv (unwrapPtr t cur) = some v0)) := by
  by_cases hptr : isPtr t = true
  · cases t <;> simp only [isPtr] at hptr <;> try (exact absurd hptr (by decide))
    rename_i t'
    simp only [tyOK, Bool.and_eq_true] at ht
    have ho' : optOK t' o = true := by
      cases t' <;> simp_all [optOK, ptrTarget]
    have hnp' := ptrTarget_notPtr t' ht.1
    obtain ⟨hd, hu, hwr⟩ := base_plumbing t' ht.2 hnp'
    have hderef : deref (.ptr t') = t' := by simp only [deref, hd]
    have hz : zeroOfCodec (codecFor t' o) = Spec.Protobuf.zeroOf t' := by
      rw [zeroOfCodec_codecFor t' o ht.2, zeroOf_eq t' ht.2]
    have htgt : unwrapPtr (.ptr t') cur = ptrTgt (codecFor t' o) cur := by
      cases cur <;> simp only [unwrapPtr, ptrTgt, hu, hd, hz]
    rw [codecFor_ptr t' o ht.1] at h hw
    rw [isEmb_ptr t' ht.1] at hc
    simp only [Codec.wire] at hw
    cases f with
    | zero => simp [decodeU] at h
    | succ f1 =>
    rw [decode_ptr] at h
    obtain ⟨⟨x, n⟩, hdx, heq⟩ := bind_ok _ _ _ h
    simp only [Res.ok.injEq, Prod.mk.injEq] at heq
    obtain ⟨rfl, rfl⟩ := heq
    obtain ⟨hm, hres⟩ := base_conv f1 (fun f' hf' => ih f' (by omega)) t' o wv p data pre _ x fl n ht.2 hnp'
      (ptrTarget_notSlice t' ht.1) ho' hfl hc hw hdx
    refine ⟨hm, fun hna => ?_⟩
    rcases hres (by simpa only [noArr] using hna) with ⟨fs', body, hmsg, rfl, hzn⟩ | hres
    · exact Or.inl ⟨fs', body, msgOf_base_ptr t' fs' ht.1 hmsg, rfl, hzn⟩
    · refine Or.inr ⟨x, by simp only [wrapPtr, hwr], fun F hF => ?_⟩
      rw [hderef, htgt]
      exact hres F hF
  · have hnp : isPtr t = false := by simpa using hptr
    obtain ⟨hd, hu, hwr⟩ := base_plumbing t ht hnp
    rw [isEmb_notPtr t hnp] at hc
    obtain ⟨hm, hres⟩ := base_conv f ih t o wv p data pre cur v fl m' ht hnp hns ho hfl hc hw h
    refine ⟨hm, fun hna => ?_⟩
    rcases hres hna with hz | hres
    · exact Or.inl hz
    · exact Or.inr ⟨v, by rw [hwr], fun F hF => by rw [hd, hu]; exact hres F hF⟩

/-- current elements of a repeated field -/
def sliceCur (cur : Val) : List Val :=
  match cur with
  | .list l => l.toList
  | _ => []

theorem decode_slice' (f : Nat) (ec : Codec) (num : Nat) (w : Wire) (emb : Bool) (b : Bytes) (cur : Val) (fl : Flags) :
    decodeU (f + 1) (.slice ec num w emb) b cur fl
      = (decodeU f ec b (zeroOfCodec ec) {}).bind fun (x : Val × Nat) =>
          .ok (.list (Vals.ofList (sliceCur cur ++ [x.1])), x.2) := by
  simp only [decodeU, sliceCur]
  cases decodeU f ec b (zeroOfCodec ec) {} with
  | ok a => cases cur <;> simp [Res.bind, Vals.toList]
  | err e => rfl
  | panic e => rfl

/-- one more element of a repeated field -/
theorem slice_conv (f : Nat) (ih : ∀ f', f' < f → ConvOK f') (e : Ty) (o : FieldOpt) (wv : WireVal) (p data : Bytes)
    (pre : Nat) (cur v : Val) (fl : Flags) (m' num : Nat) (ht : tyOK (.slice e) = true)
    (ho : optOK (.slice e) o = true)
    (hc : Carved (isStructTy e) wv p data pre) (hw : wireNum wv = (codecOf e).wire.num)
    (h : decodeU f (.slice (codecOf e) num (codecOf e).wire (isStructTy e)) data cur fl = .ok (v, m')) :
    m' = data.length ∧ (noArr (.slice e) = true →
      (ZeroIn (.slice e) wv ∨ ∃ x, v = .list (Vals.ofList (sliceCur cur ++ [x])) ∧
      ∀ F, 2 * p.length + 2 ≤ F → decodeOne F e o wv (Spec.Protobuf.zeroOf e) = some x)) := by
  simp only [tyOK, elemTy, Bool.and_eq_true, Bool.not_eq_true'] at ht
  simp only [optOK, Bool.and_eq_true, Bool.not_eq_true'] at ho
  have hoe : optOK e o = true := optOK_plain e o ho.1 ho.2 ht.1.1
  have hcf : codecFor e o = codecOf e := codecFor_nofixed e o ho.2
  have hz : Spec.Protobuf.zeroOf e = zeroOfCodec (codecOf e) := by
    rw [← hcf, zeroOfCodec_codecFor e o ht.2, zeroOf_eq e ht.2]
  cases f with
  | zero => simp [decodeU] at h
  | succ f1 =>
  rw [decode_slice'] at h
  obtain ⟨⟨x, n⟩, hdx, heq⟩ := bind_ok _ _ _ h
  simp only [Res.ok.injEq, Prod.mk.injEq] at heq
  obtain ⟨rfl, rfl⟩ := heq
  rw [← hcf] at hdx hw
  obtain ⟨hm, hres⟩ := base_conv f1 (fun f' hf' => ih f' (by omega)) e o wv p data pre _ x {} n ht.2 ht.1.1 ht.1.2
    hoe (by simp only [ho.1]) hc hw hdx
  refine ⟨hm, fun hna => ?_⟩
  rcases hres (by simpa only [noArr] using hna) with ⟨fs', body, hmsg, rfl, hzn⟩ | hres
  · exact Or.inl ⟨fs', body, msgOf_base_slice e fs' ht.1.1 ht.1.2 hmsg, rfl, hzn⟩
  · exact Or.inr ⟨x, rfl, fun F hF => by rw [hz, ← hcf]; exact hres F hF⟩

/-! ## the loop -/

/-- putting one processed record in front of the result for the remaining bytes -/
theorem assemble (fs : Fields) (ptag p m : Bytes) (tag : Nat) (wv : WireVal) (vs vs1 R1 : Vals)
    (htok : VTok ptag tag) (hn0 : tag / 8 ≠ 0) (h8 : tag % 8 = wireNum wv) (hpay : Pay wv p)
    (hm : ZeroNum fs m ∨ ∃ tl, parse (m.length + 1) m = some tl ∧
      ∀ F, 2 * m.length + 1 ≤ F → decodeRecs F fs tl vs1 = some R1)
    (hstep : ∀ F tl, 2 * (ptag ++ p ++ m).length ≤ F →
      decodeRecs (F + 1) fs ((tag / 8, wv) :: tl) vs = decodeRecs F fs tl vs1) :
    ZeroNum fs (ptag ++ p ++ m) ∨ ∃ recs, parse ((ptag ++ p ++ m).length + 1) (ptag ++ p ++ m) = some recs ∧
      ∀ F, 2 * (ptag ++ p ++ m).length + 1 ≤ F → decodeRecs F fs recs vs = some R1 := by
  rcases hm with hz | ⟨tl, hp, hr⟩
  · exact Or.inl (ZeroNum.skip fs ptag p m tag wv htok hn0 h8 hpay hz)
  · have l1 := htok.length_pos
    have l2 := pay_length_pos hpay
    have hlen : (ptag ++ p ++ m).length = ptag.length + p.length + m.length := by simp only [List.length_append]
    have htl := parse_length_le _ m tl hp
    have hp' : parse (ptag ++ p ++ m).length m = some tl := parse_fuel _ m tl hp _ (by omega)
    refine Or.inr ⟨(tag / 8, wv) :: tl, by rw [tok_parse ptag p tag wv htok hn0 h8 hpay, hp']; rfl, fun F hF => ?_⟩
    obtain ⟨F1, rfl⟩ : ∃ F1, F = F1 + 1 := ⟨F - 1, by omega⟩
    rw [hstep F1 tl (by omega)]
    exact hr F1 (by omega)

theorem conv_step (f : Nat) (ih : ∀ f', f' < f → ConvOK f') : ConvOK f := by
  intro fs fl b lenB off vs R hty hna hfl hL h
  cases f with
  | zero => simp [decodeStructU] at h
  | succ f1 =>
  rw [decodeStruct_succ] at h
  by_cases hb : b = []
  · subst hb
    simp only [List.isEmpty_nil, if_true, Res.ok.injEq] at h
    subst h
    refine Or.inr ⟨[], by simp [parse], fun F hF => ?_⟩
    obtain ⟨F', rfl⟩ : ∃ F', F = F' + 1 := ⟨F - 1, by omega⟩
    simp [decodeRecs]
  · have hbe : b.isEmpty = false := by cases b <;> simp_all
    simp only [hbe, Bool.false_eq_true, if_false] at h
    cases hd : decodeVarint b with
    | err e => simp [hd] at h
    | panic e => simp [hd] at h
    | ok a =>
      obtain ⟨tag, n⟩ := a
      simp only [hd] at h
      obtain ⟨ptag, b1, tagN, eb, htok, hn, htag⟩ := vtok_of_decodeVarint b tag n hd
      subst eb hn htag
      rw [tag_num tagN htok.lt, tag_type tagN htok.lt, List.drop_left] at h
      have hty' := hty
      simp only [tyOK, Bool.and_eq_true, decide_eq_true_eq] at hty'
      have l1 := htok.length_pos
      simp only [List.length_append] at hL
      by_cases hn0 : tagN / 8 = 0
      · exact Or.inl (ZeroNum.here fs ptag b1 tagN htok hn0)
      · have hlook := lookupField_fieldsOf fs (tagN / 8) hty
        cases hff : findField fs (tagN / 8) with
        | none =>
          simp only [hff] at hlook
          simp only [hlook] at h
          obtain ⟨skip, hsk, hrest⟩ := bind_ok _ _ _ h
          obtain ⟨wv, p, m, e1, hskl, hpay, hwn⟩ := skip_pay _ _ _ _ hsk
          subst e1 hskl
          rw [List.drop_left] at hrest
          simp only [List.length_append] at hL
          have hm := ih f1 (by omega) fs fl m lenB _ vs R hty hna hfl (by omega) hrest
          rw [← List.append_assoc]
          exact assemble fs ptag p m tagN wv vs vs R.1 htok hn0 hwn.symm hpay hm
            (fun F tl _ => decodeRecs_unknown F fs _ wv tl vs hff)
        | some r =>
          obtain ⟨i, o, t⟩ := r
          simp only [hff] at hlook
          obtain ⟨htt, hot, hnum, _, _⟩ := find_ok (tagN / 8) fs 0 i o t hty'.1 hff
          have hnat : noArr t = true := find_noArr (tagN / 8) fs 0 i o t (by simpa only [noArr] using hna) hff
          have hflz : ({ fl with zigzag := fl.zigzag || o.zigzag } : Flags).zigzag = o.zigzag := by
            simp only [hfl, Bool.false_or]
          by_cases hsl : isSlice t = true
          · cases t <;> simp only [isSlice] at hsl <;> try (exact absurd hsl (by decide))
            rename_i e
            simp only [descr] at hlook
            simp only [hlook] at h
            split at h
            · simp at h
            · rename_i hwire
              have hwire' : tagN % 8 = (codecOf e).wire.num := by simpa [Codec.wire] using hwire
              obtain ⟨⟨data, pre⟩, hcv, h2⟩ := bind_ok _ _ _ h
              obtain ⟨⟨v, m'⟩, hdv, hrest⟩ := bind_ok _ _ _ h2
              obtain ⟨wv, p, m, e1, hwn, hcarved⟩ := carve_pay _ _ _ _ _ _ _ (by omega)
                (fun he => by rw [hwire', struct_wire e he]; rfl) hcv
              subst e1
              simp only [List.length_append] at hL
              obtain ⟨hm', hres⟩ := slice_conv f1 (fun f' hf' => ih f' (by omega)) e o wv p data pre (Vals.get vs i) v
                { fl with zigzag := fl.zigzag || false } m' o.number htt hot hcarved (by rw [hwn, hwire']) hdv
              have hcl := hcarved.len
              have hdrop : List.drop (pre + m') (p ++ m) = m := by rw [hm', hcl, List.drop_left]
              rw [hdrop] at hrest
              rw [← List.append_assoc]
              rcases hres hnat with ⟨fs', body, hmsg, rfl, hzn⟩ | ⟨x, rfl, hone⟩
              · obtain ⟨pl, hl, rfl⟩ := hcarved.pay
                exact Or.inl (ZeroNum.inside fs fs' ptag pl body m tagN i o (.slice e) htok hn0 hwn.symm hl hff hmsg hzn)
              · have hm := ih f1 (by omega) fs fl m lenB _ _ R hty hna hfl (by omega) hrest
                refine assemble fs ptag p m tagN wv vs _ R.1 htok hn0 hwn.symm hcarved.pay hm (fun F tl hF => ?_)
                simp only [List.length_append] at hF
                rw [decodeRecs_step_rep F fs _ wv tl vs i o e hff htt, hone F (by omega)]
                simp only [Option.bind_some, set_eq, get_eq, sliceCur]
                cases valsGet vs i <;> rfl
          · have hns : isSlice t = false := by simpa using hsl
            rw [descr_notslice t o hns] at hlook
            simp only [hlook] at h
            split at h
            · simp at h
            · rename_i hwire
              have hwire' : tagN % 8 = (codecFor t o).wire.num := by simpa using hwire
              obtain ⟨⟨data, pre⟩, hcv, h2⟩ := bind_ok _ _ _ h
              obtain ⟨⟨v, m'⟩, hdv, hrest⟩ := bind_ok _ _ _ h2
              obtain ⟨wv, p, m, e1, hwn, hcarved⟩ := carve_pay _ _ _ _ _ _ _ (by omega)
                (fun he => by rw [hwire', emb_wire t o he]; rfl) hcv
              subst e1
              simp only [List.length_append] at hL
              obtain ⟨hm', hres⟩ := field_conv f1 (fun f' hf' => ih f' (by omega)) t o wv p data pre (Vals.get vs i) v
                { fl with zigzag := fl.zigzag || o.zigzag } m' htt hns hot hflz hcarved (by rw [hwn, hwire']) hdv
              have hcl := hcarved.len
              have hdrop : List.drop (pre + m') (p ++ m) = m := by rw [hm', hcl, List.drop_left]
              rw [hdrop] at hrest
              rw [← List.append_assoc]
              rcases hres hnat with ⟨fs', body, hmsg, rfl, hzn⟩ | ⟨v0, rfl, hone⟩
              · obtain ⟨pl, hl, rfl⟩ := hcarved.pay
                exact Or.inl (ZeroNum.inside fs fs' ptag pl body m tagN i o t htok hn0 hwn.symm hl hff hmsg hzn)
              · have hm := ih f1 (by omega) fs fl m lenB _ _ R hty hna hfl (by omega) hrest
                refine assemble fs ptag p m tagN wv vs _ R.1 htok hn0 hwn.symm hcarved.pay hm (fun F tl hF => ?_)
                simp only [List.length_append] at hF
                rw [decodeRecs_step F fs _ wv tl vs i o t hff htt hns, ← get_eq, hone F (by omega)]
                simp only [Option.bind_some, set_eq]

/-- **the loop, converse** -/
theorem conv_all (f : Nat) : ConvOK f := by
  induction f using Nat.strongRecOn with
  | _ f ih => exact conv_step f ih

/-! ## every `ZeroNum` input is rejected by the reference -/

theorem msgOf_cases (t : Ty) (fs' : Fields) (h : msgOf t = some fs') :
    t = .struct fs' ∨ t = .ptr (.struct fs') ∨ t = .slice (.struct fs') := by
  unfold msgOf at h
  split at h <;> simp_all

theorem decodeOne_struct_none (fs' : Fields) (body : Bytes) (hrej : ∀ F vs, decodeMsg F fs' body vs = none)
    (F : Nat) (o : FieldOpt) (cur : Val) : decodeOne F (.struct fs') o (.len body) cur = none := by
  cases F with
  | zero => simp [decodeOne]
  | succ F => cases cur <;> simp [decodeOne, hrej]

theorem zeroNum_rej {fs : Fields} {b : Bytes} (h : ZeroNum fs b) : ∀ F vs, decodeMsg F fs b vs = none := by
  induction h with
  | here fs ptag rest tag ht h0 =>
    intro F vs
    cases F with
    | zero => simp [decodeMsg]
    | succ F =>
      have hp : parse ((ptag ++ rest).length + 1) (ptag ++ rest) = none := by
        cases ptag with
        | nil => exact absurd rfl ht.ne
        | cons c cs =>
          have := ht.rd rest
          simp only [List.cons_append] at this ⊢
          simp only [parse, this, Option.bind_eq_bind, Option.bind_some, h0, if_true]
          rfl
      simp only [decodeMsg, Option.bind_eq_bind, hp]
      rfl
  | skip fs ptag p m tag w ht hn h8 hp hz ih =>
    intro F vs
    cases F with
    | zero => simp [decodeMsg]
    | succ F =>
      simp only [decodeMsg, Option.bind_eq_bind]
      rw [tok_parse ptag p tag w ht hn h8 hp]
      cases hpm : parse (ptag ++ p ++ m).length m with
      | none => simp
      | some tl =>
        simp only [Option.map_some, Option.bind_some]
        have hall : ∀ F' vs', decodeRecs F' fs tl vs' = none := by
          intro F' vs'
          have := ih (F' + 1) vs'
          have hv : parse (m.length + 1) m = some tl := Valid.of_parse hpm
          simpa only [decodeMsg, Option.bind_eq_bind, hv, Option.bind_some] using this
        cases F with
        | zero => simp [decodeRecs]
        | succ F' =>
          obtain ⟨G, hG⟩ := decodeRecs_factor F' fs (tag / 8) w vs
          rw [hG]
          cases G <;> simp [hall]
  | inside fs fs' ptag pl body m tag i o t ht hn h8 hl hff hmsg hz ih =>
    intro F vs
    cases F with
    | zero => simp [decodeMsg]
    | succ F =>
      simp only [decodeMsg, Option.bind_eq_bind]
      rw [tok_parse ptag (pl ++ body) tag (.len body) ht hn h8 ⟨pl, hl, rfl⟩]
      cases hpm : parse (ptag ++ (pl ++ body) ++ m).length m with
      | none => simp
      | some tl =>
        simp only [Option.map_some, Option.bind_some]
        have hone := decodeOne_struct_none fs' body ih
        cases F with
        | zero => simp [decodeRecs]
        | succ F' =>
          rcases msgOf_cases t fs' hmsg with rfl | rfl | rfl
          · simp [decodeRecs, hff, isRepeated, unname, deref, hone]
          · simp [decodeRecs, hff, isRepeated, unname, deref, hone]
          · simp [decodeRecs, hff, isRepeated, unname, deref, hone]

end Enc.Lemmas.ProtoLiberal
