import Enc.Model.Json.Scan
import Std.Tactic.BVDecide
/-!
# JSON (C05), part 1: the three-stage closing-quote search is a plain first-occurrence search

`findQuote_spec`: the two SWAR stages (`quoteMask`/`ctz8` on bytes 1..8 and 9..16) followed by the byte loop return
exactly `indexByte (b.drop 1) '"' + 2`. Word facts by `bv_decide`, lifted with `indexByte8`.
-/
namespace Enc.Lemmas.JsonScan
open Enc Enc.Model.Json

/-- "is the quotation mark" kept as an opaque-to-simp name -/
def isQ (c : UInt8) : Bool := c == 0x22

theorem quoteMask_ne_zero (a b c d e f g h : UInt8) :
    (quoteMask (le64 a b c d e f g h) != 0#64) =
      (isQ a || (isQ b || (isQ c || (isQ d || (isQ e || (isQ f || (isQ g || isQ h))))))) := by
  unfold quoteMask le64 isQ
  bv_decide

/-- index of the first quote among eight bytes, as a word -/
def first8 (a b c d e f g _h : UInt8) : BitVec 64 :=
  if isQ a then 0#64 else if isQ b then 1#64 else if isQ c then 2#64 else if isQ d then 3#64
  else if isQ e then 4#64 else if isQ f then 5#64 else if isQ g then 6#64 else 7#64

theorem ctz_quoteMask (a b c d e f g h : UInt8)
    (hq : (isQ a || (isQ b || (isQ c || (isQ d || (isQ e || (isQ f || (isQ g || isQ h))))))) = true) :
    (quoteMask (le64 a b c d e f g h)).ctz / 8#64 = first8 a b c d e f g h := by
  unfold quoteMask le64 first8 isQ at *
  bv_decide

theorem ctz8_eq (m : BitVec 64) : ctz8 m = (m.ctz / 8#64).toNat := by
  simp [ctz8, BitVec.toNat_udiv]

theorem indexByte_go_add (b : Bytes) (c : UInt8) (i : Nat) :
    indexByte.go c b i = (indexByte.go c b 0).map (· + i) := by
  induction b generalizing i with
  | nil => simp [indexByte.go]
  | cons x r ih =>
    simp only [indexByte.go]
    split
    · simp
    · rw [ih (i + 1), ih (0 + 1)]
      cases indexByte.go c r 0 with
      | none => rfl
      | some j => simp only [Option.map_some]; congr 1; omega

theorem indexByte_nil (c : UInt8) : indexByte [] c = none := rfl
theorem indexByte_cons (x : UInt8) (r : Bytes) (c : UInt8) :
    indexByte (x :: r) c = if x == c then some 0 else (indexByte r c).map (· + 1) := by
  simp only [indexByte, indexByte.go]
  split
  · rfl
  · rw [indexByte_go_add]


theorem indexByte8 (a b c d e f g h : UInt8) (rest : Bytes) :
    indexByte (a :: b :: c :: d :: e :: f :: g :: h :: rest) 0x22 =
      if (isQ a || (isQ b || (isQ c || (isQ d || (isQ e || (isQ f || (isQ g || isQ h))))))) then
        some (first8 a b c d e f g h).toNat
      else (indexByte rest 0x22).map (· + 8) := by
  simp only [indexByte_cons, first8]
  change (if isQ a then _ else Option.map _ (if isQ b then _ else Option.map _ (if isQ c then _ else Option.map _
    (if isQ d then _ else Option.map _ (if isQ e then _ else Option.map _ (if isQ f then _ else Option.map _
    (if isQ g then _ else Option.map _ (if isQ h then _ else _)))))))) = _
  cases isQ a <;> cases isQ b <;> cases isQ c <;> cases isQ d <;> cases isQ e <;> cases isQ f <;> cases isQ g <;>
    cases isQ h <;> simp [Option.map_map, Function.comp_def]

theorem findQuote_spec (b : Bytes) : findQuote b = (indexByte (b.drop 1) 0x22).map (· + 2) := by
  unfold findQuote
  split
  · rename_i q b1 b2 b3 b4 b5 b6 b7 b8 rest
    simp only [List.drop_succ_cons, List.drop_zero, indexByte8]
    rw [quoteMask_ne_zero]
    split
    · rename_i hq
      rw [ctz8_eq, ctz_quoteMask _ _ _ _ _ _ _ _ hq]; simp
    · split
      · rename_i c1 c2 c3 c4 c5 c6 c7 c8 rest2
        simp only [indexByte8]
        rw [quoteMask_ne_zero]
        split
        · rename_i hq
          rw [ctz8_eq, ctz_quoteMask _ _ _ _ _ _ _ _ hq]; simp
        · simp only [*]
      · rfl
  · rfl

end Enc.Lemmas.JsonScan
