import Enc.Lemmas.JsonGrammar
import Enc.Lemmas.JsonWs
/-!
# JSON (C05), part 4b: `parseValue` / `parseArray` / `parseObject` against `value` / `elements` / `members`

`parseValue_toOpt`: with flags sound before every quotation mark, model fuel `≥ 3·|b|`, grammar fuel `≥ 2·|b|` and
`depth ≤ maxNestingDepth`, `toOpt (parseValue fl depth f b) = value f' (maxNestingDepth - depth) b`: the model's
nesting counter (counting up from 0, refusing to enter an array or object at depth 10000) is exactly the grammar's
nesting budget (counting down from 10000, refusing at 0). Five statements (`VOk`, `AOk`, `ALOk`, `OOk`, `OLOk`) go
through one induction on the model's fuel; the depth and the grammar's fuel are universally quantified inside.
-/
namespace Enc.Lemmas.JsonValue
open Enc Enc.Model.Json Enc.Lemmas.JsonString Enc.Lemmas.JsonGrammar
open Enc.Spec.Json (ws value elements members lit)

theorem parseValue_nil (fl : PFlags) (dp f : Nat) : parseValue fl dp f [] = .err true := by
  cases f <;> simp [parseValue]
theorem parseValue_succ_cons (fl : PFlags) (dp f : Nat) (c : UInt8) (r : Bytes) :
    parseValue fl dp (f + 1) (c :: r) =
      if c == 0x7b then parseObject fl dp f (c :: r)
      else if c == 0x5b then parseArray fl dp f (c :: r)
      else if c == 0x22 then parseString fl (c :: r)
      else if c == 0x6e then parseLit (c :: r) [0x6e, 0x75, 0x6c, 0x6c] .null
      else if c == 0x74 then parseLit (c :: r) [0x74, 0x72, 0x75, 0x65] .true_
      else if c == 0x66 then parseLit (c :: r) [0x66, 0x61, 0x6c, 0x73, 0x65] .false_
      else if c == 0x2d || isDigit c then parseNumber (c :: r)
      else .err false := by
  rw [parseValue]

/-- `parseArray` on `[` followed by `rest`: too short, nesting refused (a syntax error), or the element loop one level
deeper -/
theorem parseArray_succ_cons (fl : PFlags) (dp f : Nat) (c : UInt8) (rest : Bytes) :
    parseArray fl dp (f + 1) (c :: rest) =
      if rest = [] then .err true else if nestOK dp then arrayLoop fl (dp + 1) f rest 0 else .err false := by
  rw [parseArray]
  cases rest with
  | nil => simp
  | cons x t =>
    have h : ¬ (c :: x :: t).length < 2 := by simp
    simp only [h, if_false, reduceCtorEq]
    cases nestOK dp <;> rfl

theorem parseObject_succ_cons (fl : PFlags) (dp f : Nat) (c : UInt8) (rest : Bytes) :
    parseObject fl dp (f + 1) (c :: rest) =
      if rest = [] then .err true else if nestOK dp then objectLoop fl (dp + 1) f rest 0 else .err false := by
  rw [parseObject]
  cases rest with
  | nil => simp
  | cons x t =>
    have h : ¬ (c :: x :: t).length < 2 := by simp
    simp only [h, if_false, reduceCtorEq]
    cases nestOK dp <;> rfl

/-- what follows the separator check in both loops: parse one item, then loop -/
def afterSep (close : UInt8) (i : Nat) (sb : Bytes) (c : UInt8) (rest : Bytes) : Option Bytes :=
  if i != 0 then
    if c != 0x2c then none
    else
      let b2 := skipSpaces rest
      match b2 with
      | [] => some []
      | x :: _ => if x == close then none else some b2
  else some sb

/-- dispatch on the separator check -/
def sepK (o : Option Bytes) (M : Bytes → PR) : PR :=
  match o with
  | none => .err false
  | some [] => .err true
  | some b3 => M b3

theorem arrayLoop_succ (fl : PFlags) (dp f : Nat) (b : Bytes) (i : Nat) :
    arrayLoop fl dp (f + 1) b i =
      match skipSpaces b with
      | [] => .err true
      | c :: rest =>
        if c == 0x5d then .ok .array rest
        else
          sepK (afterSep 0x5d i (skipSpaces b) c rest) fun b3 =>
            match parseValue fl dp f b3 with
            | .ok _ r => arrayLoop fl dp f r (i + 1)
            | .err e => .err e := by
  rw [arrayLoop]
  rfl

theorem objectLoop_succ (fl : PFlags) (dp f : Nat) (b : Bytes) (i : Nat) :
    objectLoop fl dp (f + 1) b i =
      match skipSpaces b with
      | [] => .err true
      | c :: rest =>
        if c == 0x7d then .ok .object rest
        else
          sepK (afterSep 0x7d i (skipSpaces b) c rest) fun b3 =>
            match parseString fl b3 with
            | .err e => .err e
            | .ok _ r =>
              match skipSpaces r with
              | [] => .err true
              | x :: r2 =>
                if x != 0x3a then .err false
                else
                  match parseValue fl dp f (skipSpaces r2) with
                  | .ok _ r3 => objectLoop fl dp f r3 (i + 1)
                  | .err e => .err e := by
  rw [objectLoop]
  rfl

open Enc.Lemmas.JsonWs (skipSpaces_eq_ws)

/-- the separator step of both loops against the grammar's `first` / `","` logic -/
theorem sep_step (close c : UInt8) (rest : Bytes) (i : Nat) (M : Bytes → PR) (K : Bytes → Option Bytes)
    (hc : c ≠ close) (hnil : K [] = none) (hclose : ∀ t, K (close :: t) = none)
    (hMK : ∀ b3, b3 ≠ [] → (∀ t, b3 ≠ close :: t) → b3 <:+ c :: rest → toOpt (M b3) = K b3) :
    toOpt (sepK (afterSep close i (c :: rest) c rest) M) =
      (if (i == 0) = true then some (c :: rest) else (if c == 0x2c then some (ws rest) else none)).bind K := by
  cases i with
  | zero =>
    exact hMK _ (by simp) (by intro t e; cases e; exact hc rfl) (List.suffix_refl _)
  | succ j =>
    have h1 : (j + 1 != 0) = true := by simp
    have h2 : (j + 1 == 0) = false := by simp
    simp only [afterSep, h1, h2, if_true, Bool.false_eq_true, if_false, skipSpaces_eq_ws]
    cases hc : (c == 0x2c)
    · simp only [bne, hc, Bool.not_false, if_true, Bool.false_eq_true, if_false]; rfl
    · simp only [bne, hc, Bool.not_true, Bool.false_eq_true, if_false, if_true, Option.bind_some]
      have hsuf : ws rest <:+ c :: rest := (ws_suffix rest).trans (List.suffix_cons _ _)
      cases hw : ws rest with
      | nil => simp only [sepK, toOpt_err, hnil]
      | cons x t =>
        rw [hw] at hsuf
        simp only
        cases hx : (x == close)
        · simp only [Bool.false_eq_true, if_false, sepK]
          have hne : ¬ x = close := by simpa using hx
          exact hMK _ (by simp) (by intro t' e; cases e; exact hne rfl) hsuf
        · have : x = close := by simpa using hx
          subst this
          simp only [if_true, sepK, toOpt_err, hclose]

/-! ### the five statements proved together by induction on the model's fuel

Fuel-sufficiency hypotheses, for an input `b` of length `n`: the model needs `3n` (value) / `3n+1` (loops) / `3n+2`
(parseArray/parseObject, `n` = length after the bracket), the grammar `2n` (value) / `2n+1` (elements, members).
Nesting: the model at depth `dp ≤ maxNestingDepth` corresponds to the grammar with budget `maxNestingDepth - dp`. -/

/-- the grammar's nesting budget that corresponds to the model's nesting depth `dp` -/
abbrev budget (dp : Nat) : Nat := Gen.c_json_maxNestingDepth - dp

theorem maxDepth_eq : Gen.c_json_maxNestingDepth = 10000 := rfl

def VOk (fl : PFlags) (f : Nat) : Prop :=
  ∀ dp f' b, dp ≤ Gen.c_json_maxNestingDepth → 3 * b.length ≤ f → 2 * b.length ≤ f' → QSound fl b →
    toOpt (parseValue fl dp f b) = value f' (budget dp) b
def ALOk (fl : PFlags) (f : Nat) : Prop :=
  ∀ dp f' b i, dp ≤ Gen.c_json_maxNestingDepth → 3 * b.length + 1 ≤ f → 2 * b.length + 1 ≤ f' → QSound fl b →
    toOpt (arrayLoop fl dp f b i) = elements f' (budget dp) (ws b) (i == 0)
def OLOk (fl : PFlags) (f : Nat) : Prop :=
  ∀ dp f' b i, dp ≤ Gen.c_json_maxNestingDepth → 3 * b.length + 1 ≤ f → 2 * b.length + 1 ≤ f' → QSound fl b →
    toOpt (objectLoop fl dp f b i) = members f' (budget dp) (ws b) (i == 0)
def AOk (fl : PFlags) (f : Nat) : Prop :=
  ∀ dp f' c rest, dp ≤ Gen.c_json_maxNestingDepth → 3 * rest.length + 2 ≤ f → 2 * rest.length + 1 ≤ f' →
    QSound fl rest →
    toOpt (parseArray fl dp f (c :: rest)) =
      if budget dp == 0 then none else elements f' (budget dp - 1) (ws rest) true
def OOk (fl : PFlags) (f : Nat) : Prop :=
  ∀ dp f' c rest, dp ≤ Gen.c_json_maxNestingDepth → 3 * rest.length + 2 ≤ f → 2 * rest.length + 1 ≤ f' →
    QSound fl rest →
    toOpt (parseObject fl dp f (c :: rest)) =
      if budget dp == 0 then none else members f' (budget dp - 1) (ws rest) true

theorem isClose_false {b3 : Bytes} (h : ∀ t, b3 ≠ 0x5d :: t) : isClose b3 = false := by
  cases b3 with
  | nil => rfl
  | cons x t =>
    cases hx : (x == 0x5d)
    · simpa [isClose] using hx
    · have : x = 0x5d := by simpa using hx
      subst this; exact absurd rfl (h t)

theorem arrayLoop_step {fl : PFlags} {g : Nat} (hV : VOk fl g) (hL : ALOk fl g) : ALOk fl (g + 1) := by
  intro dp f' b i hdp h1 h2 hq
  obtain ⟨g', rfl⟩ : ∃ g', f' = g' + 1 := ⟨f' - 1, by omega⟩
  rw [arrayLoop_succ, skipSpaces_eq_ws]
  have hwl := ws_length_le b
  have hqw : QSound fl (ws b) := hq.suffix (ws_suffix b)
  cases hw : ws b with
  | nil => rw [elements_nil]; rfl
  | cons c rest =>
    rw [hw] at hwl hqw
    simp only [elements_succ_cons]
    cases hc : (c == 0x5d)
    · simp only [Bool.false_eq_true, if_false]
      have hc' : c ≠ 0x5d := by simpa using hc
      apply sep_step (K := fun b2 => if isClose b2 then none
        else (value g' (budget dp) b2).bind fun r2 => elements g' (budget dp) (ws r2) false) (hc := hc')
      · simp [isClose, value_nil]
      · intro t; simp [isClose]
      · intro b3 _ hcl hb3
        simp only [isClose_false hcl, Bool.false_eq_true, if_false]
        have hl3 : b3.length ≤ b.length := Nat.le_trans hb3.length_le hwl
        have hv := hV dp g' b3 hdp (by omega) (by omega) (hqw.suffix hb3)
        cases hp : parseValue fl dp g b3 with
        | err e => rw [hp] at hv; simp only [toOpt_err] at hv ⊢; rw [← hv]; rfl
        | ok k r =>
          rw [hp] at hv; simp only [toOpt_ok] at hv ⊢
          rw [← hv, Option.bind_some]
          have hs := value_sfx hv.symm
          have := hs.2
          have h := hL dp g' r (i + 1) hdp (by omega) (by omega) ((hqw.suffix hb3).suffix hs.1)
          simpa using h
    · simp only [if_true, toOpt_ok]

/-- the nesting check of the model against the budget check of the grammar -/
theorem nestOK_iff (dp : Nat) : nestOK dp = !(budget dp == 0) := by
  simp only [nestOK, budget]
  rw [Bool.eq_iff_iff]
  simp
  omega

theorem budget_succ (dp : Nat) : budget dp - 1 = budget (dp + 1) := by
  simp only [budget]; omega

theorem parseArray_step {fl : PFlags} {g : Nat} (hL : ALOk fl g) : AOk fl (g + 1) := by
  intro dp f' c rest hdp h1 h2 hq
  rw [parseArray_succ_cons]
  split
  · rename_i h; subst h
    obtain ⟨g', rfl⟩ : ∃ g', f' = g' + 1 := ⟨f' - 1, by omega⟩
    simp [ws, elements_nil]
  · rw [nestOK_iff, budget_succ]
    cases hb : (budget dp == 0)
    · simp only [Bool.not_false, if_true, Bool.false_eq_true, if_false]
      have : dp + 1 ≤ Gen.c_json_maxNestingDepth := by
        have : budget dp ≠ 0 := by simpa using hb
        simp only [budget] at this; omega
      exact hL (dp + 1) f' rest 0 this (by omega) h2 hq
    · simp only [Bool.not_true, Bool.false_eq_true, if_false, if_true]; rfl

theorem objectLoop_step {fl : PFlags} {g : Nat} (hV : VOk fl g) (hL : OLOk fl g) : OLOk fl (g + 1) := by
  intro dp f' b i hdp h1 h2 hq
  obtain ⟨g', rfl⟩ : ∃ g', f' = g' + 1 := ⟨f' - 1, by omega⟩
  rw [objectLoop_succ, skipSpaces_eq_ws]
  have hwl := ws_length_le b
  have hqw : QSound fl (ws b) := hq.suffix (ws_suffix b)
  cases hw : ws b with
  | nil => rw [members_nil]; rfl
  | cons c rest =>
    rw [hw] at hwl hqw
    simp only [members_succ_cons]
    cases hc : (c == 0x7d)
    · simp only [Bool.false_eq_true, if_false]
      have hc' : c ≠ 0x7d := by simpa using hc
      apply sep_step (K := fun b2 => (Spec.Json.string b2).bind fun r2 =>
        colonThen (fun r3 => (value g' (budget dp) (ws r3)).bind fun r4 => members g' (budget dp) (ws r4) false) (ws r2))
        (hc := hc')
      · rfl
      · intro t; rw [string_cons]; rfl
      · intro b3 _ _ hb3
        have hl3 : b3.length ≤ b.length := Nat.le_trans hb3.length_le hwl
        have hq3 : QSound fl b3 := hqw.suffix hb3
        have hs := parseString_toOpt fl b3 hq3
        cases hp : parseString fl b3 with
        | err e => rw [hp] at hs; simp only [toOpt_err] at hs ⊢; rw [← hs]; rfl
        | ok k r =>
          rw [hp] at hs; simp only [toOpt_ok] at hs
          rw [← hs, Option.bind_some]
          have hsr := string_sfx hs.symm
          have := hsr.2
          simp only [skipSpaces_eq_ws]
          have hwr := ws_length_le r
          have hqr : QSound fl (ws r) := (hq3.suffix hsr.1).suffix (ws_suffix r)
          cases hwr' : ws r with
          | nil => rfl
          | cons x r2 =>
            rw [hwr'] at hwr hqr
            simp only [colonThen]
            cases hx : (x == 0x3a)
            · simp only [bne, hx, Bool.not_false, if_true, Bool.false_eq_true, if_false, toOpt_err]
            · simp only [bne, hx, Bool.not_true, Bool.false_eq_true, if_false, if_true]
              have hw2 := ws_length_le r2
              simp only [List.length_cons] at hwr
              have hq2 : QSound fl (ws r2) := hqr.tail.suffix (ws_suffix r2)
              have hv := hV dp g' (ws r2) hdp (by omega) (by omega) hq2
              cases hp2 : parseValue fl dp g (ws r2) with
              | err e => rw [hp2] at hv; simp only [toOpt_err] at hv ⊢; rw [← hv]; rfl
              | ok k2 r3 =>
                rw [hp2] at hv; simp only [toOpt_ok] at hv ⊢
                rw [← hv, Option.bind_some]
                have hs3 := value_sfx hv.symm
                have := hs3.2
                have h := hL dp g' r3 (i + 1) hdp (by omega) (by omega) (hq2.suffix hs3.1)
                simpa using h
    · simp only [if_true, toOpt_ok]

theorem parseObject_step {fl : PFlags} {g : Nat} (hL : OLOk fl g) : OOk fl (g + 1) := by
  intro dp f' c rest hdp h1 h2 hq
  rw [parseObject_succ_cons]
  split
  · rename_i h; subst h
    obtain ⟨g', rfl⟩ : ∃ g', f' = g' + 1 := ⟨f' - 1, by omega⟩
    simp [ws, members_nil]
  · rw [nestOK_iff, budget_succ]
    cases hb : (budget dp == 0)
    · simp only [Bool.not_false, if_true, Bool.false_eq_true, if_false]
      have : dp + 1 ≤ Gen.c_json_maxNestingDepth := by
        have : budget dp ≠ 0 := by simpa using hb
        simp only [budget] at this; omega
      exact hL (dp + 1) f' rest 0 this (by omega) h2 hq
    · simp only [Bool.not_true, Bool.false_eq_true, if_false, if_true]; rfl

theorem parseLit_toOpt (b l : Bytes) (k : Kind) : toOpt (parseLit b l k) = lit l b := by
  have e : l.isPrefixOf b = hasPrefix b l := rfl
  simp only [parseLit, lit, e]
  cases hasPrefix b l
  · simp only [Bool.false_eq_true, if_false]; split <;> rfl
  · rfl

theorem parseNumber_bad (c : UInt8) (r : Bytes) (h : (c == 0x2d || isDigit c) = false) :
    Spec.Json.number (c :: r) = none := by
  rw [← JsonNumber.parseNumber_toOpt, JsonNumber.parseNumber_cons]
  simp only [Bool.or_eq_false_iff] at h
  simp [h.1, JsonNumber.numBody, h.2]

theorem value_step {fl : PFlags} {g : Nat} (hA : AOk fl g) (hO : OOk fl g) : VOk fl (g + 1) := by
  intro dp f' b hdp h1 h2 hq
  cases b with
  | nil => rw [parseValue_nil, value_nil]; rfl
  | cons c r =>
    simp only [List.length_cons] at h1 h2
    obtain ⟨g', rfl⟩ : ∃ g', f' = g' + 1 := ⟨f' - 1, by omega⟩
    rw [parseValue_succ_cons, value_succ_cons]
    split
    · exact hO dp g' c r hdp (by omega) (by omega) hq.tail
    split
    · exact hA dp g' c r hdp (by omega) (by omega) hq.tail
    split
    · exact parseString_toOpt fl _ hq
    split
    · exact parseLit_toOpt _ _ _
    split
    · exact parseLit_toOpt _ _ _
    split
    · exact parseLit_toOpt _ _ _
    split
    · exact JsonNumber.parseNumber_toOpt _
    · rename_i hn
      rw [parseNumber_bad c r (by simpa using hn)]; rfl

theorem all_ok (fl : PFlags) (f : Nat) : VOk fl f ∧ AOk fl f ∧ ALOk fl f ∧ OOk fl f ∧ OLOk fl f := by
  induction f with
  | zero =>
    refine ⟨?_, ?_, ?_, ?_, ?_⟩
    · intro dp f' b _ h1 _ _
      have : b = [] := by cases b with
        | nil => rfl
        | cons => simp at h1
      subst this; rw [parseValue_nil, value_nil]; rfl
    all_goals (intro dp f'; intros; omega)
  | succ g ih =>
    obtain ⟨hV, hA, hAL, hO, hOL⟩ := ih
    exact ⟨value_step hA hO, parseArray_step hAL, arrayLoop_step hV hAL, parseObject_step hOL, objectLoop_step hV hOL⟩

/-- **fuel sufficiency + agreement, with the nesting limit.** For flags that are sound before every quotation mark of
`b`, model fuel `≥ 3·|b|`, grammar fuel `≥ 2·|b|` and a nesting depth `depth ≤ maxNestingDepth` (= 10000) already
entered: `parseValue` succeeds exactly when the RFC 8259 `value` production matches within the remaining nesting budget
`maxNestingDepth - depth`, with the same remainder. -/
theorem parseValue_toOpt (fl : PFlags) (depth f f' : Nat) (b : Bytes)
    (hd : depth ≤ Gen.c_json_maxNestingDepth) (hf : 3 * b.length ≤ f) (hf' : 2 * b.length ≤ f') (hq : QSound fl b) :
    toOpt (parseValue fl depth f b) = value f' (Gen.c_json_maxNestingDepth - depth) b :=
  (all_ok fl f).1 depth f' b hd hf hf' hq

end Enc.Lemmas.JsonValue
