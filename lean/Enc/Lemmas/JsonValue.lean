import Enc.Lemmas.JsonGrammar
import Enc.Lemmas.JsonWs
/-!
# JSON (C05), part 4b: `parseValue` / `parseArray` / `parseObject` against `value` / `elements` / `members`

`parseValue_toOpt`: with flags sound before every quotation mark, model fuel `≥ 3·|b|`, grammar fuel `≥ 2·|b|` and
nesting budget `≥ |b|`, `toOpt (parseValue fl f b) = value f' d b`. Five statements (`VOk`, `AOk`, `ALOk`, `OOk`,
`OLOk`) go through one induction on the model's fuel; the grammar's fuel and depth are universally quantified inside.
-/
namespace Enc.Lemmas.JsonValue
open Enc Enc.Model.Json Enc.Lemmas.JsonString Enc.Lemmas.JsonGrammar
open Enc.Spec.Json (ws value elements members lit)

theorem parseValue_nil (fl : PFlags) (f : Nat) : parseValue fl f [] = .err true := by cases f <;> simp [parseValue]
theorem parseValue_succ_cons (fl : PFlags) (f : Nat) (c : UInt8) (r : Bytes) :
    parseValue fl (f + 1) (c :: r) =
      if c == 0x7b then parseObject fl f (c :: r)
      else if c == 0x5b then parseArray fl f (c :: r)
      else if c == 0x22 then parseString fl (c :: r)
      else if c == 0x6e then parseLit (c :: r) [0x6e, 0x75, 0x6c, 0x6c] .null
      else if c == 0x74 then parseLit (c :: r) [0x74, 0x72, 0x75, 0x65] .true_
      else if c == 0x66 then parseLit (c :: r) [0x66, 0x61, 0x6c, 0x73, 0x65] .false_
      else if c == 0x2d || isDigit c then parseNumber (c :: r)
      else .err false := by
  rw [parseValue]

theorem parseArray_succ_cons (fl : PFlags) (f : Nat) (c : UInt8) (rest : Bytes) :
    parseArray fl (f + 1) (c :: rest) = if rest = [] then .err true else arrayLoop fl f rest 0 := by
  rw [parseArray]
  cases rest with
  | nil => simp
  | cons x t => simp; intro h; omega

theorem parseObject_succ_cons (fl : PFlags) (f : Nat) (c : UInt8) (rest : Bytes) :
    parseObject fl (f + 1) (c :: rest) = if rest = [] then .err true else objectLoop fl f rest 0 := by
  rw [parseObject]
  cases rest with
  | nil => simp
  | cons x t => simp; intro h; omega

/-- what follows the separator check in both loops: parse one item, then loop -/
def afterSep (close : UInt8) (i : Nat) (sb : Bytes) (c : UInt8) (rest : Bytes) : Option Bytes :=
  if i != 0 then
    if c != 0x2c then none
    else
      let b2 := skipSpaces rest
      match b2 with
      | [] => some []
      | x :: _ => if x == close then none else some b2
  else some sb

/-- dispatch on the separator check -/
def sepK (o : Option Bytes) (M : Bytes → PR) : PR :=
  match o with
  | none => .err false
  | some [] => .err true
  | some b3 => M b3

theorem arrayLoop_succ (fl : PFlags) (f : Nat) (b : Bytes) (i : Nat) :
    arrayLoop fl (f + 1) b i =
      match skipSpaces b with
      | [] => .err true
      | c :: rest =>
        if c == 0x5d then .ok .array rest
        else
          sepK (afterSep 0x5d i (skipSpaces b) c rest) fun b3 =>
            match parseValue fl f b3 with
            | .ok _ r => arrayLoop fl f r (i + 1)
            | .err e => .err e := by
  rw [arrayLoop]
  rfl

theorem objectLoop_succ (fl : PFlags) (f : Nat) (b : Bytes) (i : Nat) :
    objectLoop fl (f + 1) b i =
      match skipSpaces b with
      | [] => .err true
      | c :: rest =>
        if c == 0x7d then .ok .object rest
        else
          sepK (afterSep 0x7d i (skipSpaces b) c rest) fun b3 =>
            match parseString fl b3 with
            | .err e => .err e
            | .ok _ r =>
              match skipSpaces r with
              | [] => .err true
              | x :: r2 =>
                if x != 0x3a then .err false
                else
                  match parseValue fl f (skipSpaces r2) with
                  | .ok _ r3 => objectLoop fl f r3 (i + 1)
                  | .err e => .err e := by
  rw [objectLoop]
  rfl

open Enc.Lemmas.JsonWs (skipSpaces_eq_ws)

/-- the separator step of both loops against the grammar's `first` / `","` logic -/
theorem sep_step (close c : UInt8) (rest : Bytes) (i : Nat) (M : Bytes → PR) (K : Bytes → Option Bytes)
    (hc : c ≠ close) (hnil : K [] = none) (hclose : ∀ t, K (close :: t) = none)
    (hMK : ∀ b3, b3 ≠ [] → (∀ t, b3 ≠ close :: t) → b3 <:+ c :: rest → toOpt (M b3) = K b3) :
    toOpt (sepK (afterSep close i (c :: rest) c rest) M) =
      (if (i == 0) = true then some (c :: rest) else (if c == 0x2c then some (ws rest) else none)).bind K := by
  cases i with
  | zero =>
    exact hMK _ (by simp) (by intro t e; cases e; exact hc rfl) (List.suffix_refl _)
  | succ j =>
    have h1 : (j + 1 != 0) = true := by simp
    have h2 : (j + 1 == 0) = false := by simp
    simp only [afterSep, h1, h2, if_true, Bool.false_eq_true, if_false, skipSpaces_eq_ws]
    cases hc : (c == 0x2c)
    · simp only [bne, hc, Bool.not_false, if_true, Bool.false_eq_true, if_false]; rfl
    · simp only [bne, hc, Bool.not_true, Bool.false_eq_true, if_false, if_true, Option.bind_some]
      have hsuf : ws rest <:+ c :: rest := (ws_suffix rest).trans (List.suffix_cons _ _)
      cases hw : ws rest with
      | nil => simp only [sepK, toOpt_err, hnil]
      | cons x t =>
        rw [hw] at hsuf
        simp only
        cases hx : (x == close)
        · simp only [Bool.false_eq_true, if_false, sepK]
          have hne : ¬ x = close := by simpa using hx
          exact hMK _ (by simp) (by intro t' e; cases e; exact hne rfl) hsuf
        · have : x = close := by simpa using hx
          subst this
          simp only [if_true, sepK, toOpt_err, hclose]

/-! ### the five statements proved together by induction on the model's fuel

Fuel-sufficiency hypotheses, for an input `b` of length `n`: the model needs `3n` (value) / `3n+1` (loops) / `3n+2`
(parseArray/parseObject, `n` = length after the bracket), the grammar `2n` (value) / `2n+1` (elements, members) and a
nesting budget `n`. -/

def VOk (fl : PFlags) (f : Nat) : Prop :=
  ∀ f' d b, 3 * b.length ≤ f → 2 * b.length ≤ f' → b.length ≤ d → QSound fl b →
    toOpt (parseValue fl f b) = value f' d b
def ALOk (fl : PFlags) (f : Nat) : Prop :=
  ∀ f' d b i, 3 * b.length + 1 ≤ f → 2 * b.length + 1 ≤ f' → b.length ≤ d → QSound fl b →
    toOpt (arrayLoop fl f b i) = elements f' d (ws b) (i == 0)
def OLOk (fl : PFlags) (f : Nat) : Prop :=
  ∀ f' d b i, 3 * b.length + 1 ≤ f → 2 * b.length + 1 ≤ f' → b.length ≤ d → QSound fl b →
    toOpt (objectLoop fl f b i) = members f' d (ws b) (i == 0)
def AOk (fl : PFlags) (f : Nat) : Prop :=
  ∀ f' d c rest, 3 * rest.length + 2 ≤ f → 2 * rest.length + 1 ≤ f' → rest.length ≤ d → QSound fl rest →
    toOpt (parseArray fl f (c :: rest)) = elements f' d (ws rest) true
def OOk (fl : PFlags) (f : Nat) : Prop :=
  ∀ f' d c rest, 3 * rest.length + 2 ≤ f → 2 * rest.length + 1 ≤ f' → rest.length ≤ d → QSound fl rest →
    toOpt (parseObject fl f (c :: rest)) = members f' d (ws rest) true

theorem isClose_false {b3 : Bytes} (h : ∀ t, b3 ≠ 0x5d :: t) : isClose b3 = false := by
  cases b3 with
  | nil => rfl
  | cons x t =>
    cases hx : (x == 0x5d)
    · simpa [isClose] using hx
    · have : x = 0x5d := by simpa using hx
      subst this; exact absurd rfl (h t)

theorem arrayLoop_step {fl : PFlags} {g : Nat} (hV : VOk fl g) (hL : ALOk fl g) : ALOk fl (g + 1) := by
  intro f' d b i h1 h2 h3 hq
  obtain ⟨g', rfl⟩ : ∃ g', f' = g' + 1 := ⟨f' - 1, by omega⟩
  rw [arrayLoop_succ, skipSpaces_eq_ws]
  have hwl := ws_length_le b
  have hqw : QSound fl (ws b) := hq.suffix (ws_suffix b)
  cases hw : ws b with
  | nil => rw [elements_nil]; rfl
  | cons c rest =>
    rw [hw] at hwl hqw
    simp only [elements_succ_cons]
    cases hc : (c == 0x5d)
    · simp only [Bool.false_eq_true, if_false]
      have hc' : c ≠ 0x5d := by simpa using hc
      apply sep_step (K := fun b2 => if isClose b2 then none
        else (value g' d b2).bind fun r2 => elements g' d (ws r2) false) (hc := hc')
      · simp [isClose, value_nil]
      · intro t; simp [isClose]
      · intro b3 _ hcl hb3
        simp only [isClose_false hcl, Bool.false_eq_true, if_false]
        have hl3 : b3.length ≤ b.length := Nat.le_trans hb3.length_le hwl
        have hv := hV g' d b3 (by omega) (by omega) (by omega) (hqw.suffix hb3)
        cases hp : parseValue fl g b3 with
        | err e => rw [hp] at hv; simp only [toOpt_err] at hv ⊢; rw [← hv]; rfl
        | ok k r =>
          rw [hp] at hv; simp only [toOpt_ok] at hv ⊢
          rw [← hv, Option.bind_some]
          have hs := value_sfx hv.symm
          have := hs.2
          have h := hL g' d r (i + 1) (by omega) (by omega) (by omega) ((hqw.suffix hb3).suffix hs.1)
          simpa using h
    · simp only [if_true, toOpt_ok]

theorem parseArray_step {fl : PFlags} {g : Nat} (hL : ALOk fl g) : AOk fl (g + 1) := by
  intro f' d c rest h1 h2 h3 hq
  rw [parseArray_succ_cons]
  split
  · rename_i h; subst h
    obtain ⟨g', rfl⟩ : ∃ g', f' = g' + 1 := ⟨f' - 1, by omega⟩
    simp [ws, elements_nil]
  · exact hL f' d rest 0 (by omega) h2 h3 hq

theorem objectLoop_step {fl : PFlags} {g : Nat} (hV : VOk fl g) (hL : OLOk fl g) : OLOk fl (g + 1) := by
  intro f' d b i h1 h2 h3 hq
  obtain ⟨g', rfl⟩ : ∃ g', f' = g' + 1 := ⟨f' - 1, by omega⟩
  rw [objectLoop_succ, skipSpaces_eq_ws]
  have hwl := ws_length_le b
  have hqw : QSound fl (ws b) := hq.suffix (ws_suffix b)
  cases hw : ws b with
  | nil => rw [members_nil]; rfl
  | cons c rest =>
    rw [hw] at hwl hqw
    simp only [members_succ_cons]
    cases hc : (c == 0x7d)
    · simp only [Bool.false_eq_true, if_false]
      have hc' : c ≠ 0x7d := by simpa using hc
      apply sep_step (K := fun b2 => (Spec.Json.string b2).bind fun r2 =>
        colonThen (fun r3 => (value g' d (ws r3)).bind fun r4 => members g' d (ws r4) false) (ws r2)) (hc := hc')
      · rfl
      · intro t; rw [string_cons]; rfl
      · intro b3 _ _ hb3
        have hl3 : b3.length ≤ b.length := Nat.le_trans hb3.length_le hwl
        have hq3 : QSound fl b3 := hqw.suffix hb3
        have hs := parseString_toOpt fl b3 hq3
        cases hp : parseString fl b3 with
        | err e => rw [hp] at hs; simp only [toOpt_err] at hs ⊢; rw [← hs]; rfl
        | ok k r =>
          rw [hp] at hs; simp only [toOpt_ok] at hs
          rw [← hs, Option.bind_some]
          have hsr := string_sfx hs.symm
          have := hsr.2
          simp only [skipSpaces_eq_ws]
          have hwr := ws_length_le r
          have hqr : QSound fl (ws r) := (hq3.suffix hsr.1).suffix (ws_suffix r)
          cases hwr' : ws r with
          | nil => rfl
          | cons x r2 =>
            rw [hwr'] at hwr hqr
            simp only [colonThen]
            cases hx : (x == 0x3a)
            · simp only [bne, hx, Bool.not_false, if_true, Bool.false_eq_true, if_false, toOpt_err]
            · simp only [bne, hx, Bool.not_true, Bool.false_eq_true, if_false, if_true]
              have hw2 := ws_length_le r2
              simp only [List.length_cons] at hwr
              have hq2 : QSound fl (ws r2) := hqr.tail.suffix (ws_suffix r2)
              have hv := hV g' d (ws r2) (by omega) (by omega) (by omega) hq2
              cases hp2 : parseValue fl g (ws r2) with
              | err e => rw [hp2] at hv; simp only [toOpt_err] at hv ⊢; rw [← hv]; rfl
              | ok k2 r3 =>
                rw [hp2] at hv; simp only [toOpt_ok] at hv ⊢
                rw [← hv, Option.bind_some]
                have hs3 := value_sfx hv.symm
                have := hs3.2
                have h := hL g' d r3 (i + 1) (by omega) (by omega) (by omega) (hq2.suffix hs3.1)
                simpa using h
    · simp only [if_true, toOpt_ok]

theorem parseObject_step {fl : PFlags} {g : Nat} (hL : OLOk fl g) : OOk fl (g + 1) := by
  intro f' d c rest h1 h2 h3 hq
  rw [parseObject_succ_cons]
  split
  · rename_i h; subst h
    obtain ⟨g', rfl⟩ : ∃ g', f' = g' + 1 := ⟨f' - 1, by omega⟩
    simp [ws, members_nil]
  · exact hL f' d rest 0 (by omega) h2 h3 hq

theorem parseLit_toOpt (b l : Bytes) (k : Kind) : toOpt (parseLit b l k) = lit l b := by
  have e : l.isPrefixOf b = hasPrefix b l := rfl
  simp only [parseLit, lit, e]
  cases hasPrefix b l
  · simp only [Bool.false_eq_true, if_false]; split <;> rfl
  · rfl

theorem parseNumber_bad (c : UInt8) (r : Bytes) (h : (c == 0x2d || isDigit c) = false) :
    Spec.Json.number (c :: r) = none := by
  rw [← JsonNumber.parseNumber_toOpt, JsonNumber.parseNumber_cons]
  simp only [Bool.or_eq_false_iff] at h
  simp [h.1, JsonNumber.numBody, h.2]

theorem value_step {fl : PFlags} {g : Nat} (hA : AOk fl g) (hO : OOk fl g) : VOk fl (g + 1) := by
  intro f' d b h1 h2 h3 hq
  cases b with
  | nil => rw [parseValue_nil, value_nil]; rfl
  | cons c r =>
    simp only [List.length_cons] at h1 h2 h3
    obtain ⟨g', rfl⟩ : ∃ g', f' = g' + 1 := ⟨f' - 1, by omega⟩
    have hd : (d == 0) = false := by simp; omega
    rw [parseValue_succ_cons, value_succ_cons]
    simp only [hd, Bool.false_eq_true, if_false]
    split
    · exact hO g' (d - 1) c r (by omega) (by omega) (by omega) hq.tail
    split
    · exact hA g' (d - 1) c r (by omega) (by omega) (by omega) hq.tail
    split
    · exact parseString_toOpt fl _ hq
    split
    · exact parseLit_toOpt _ _ _
    split
    · exact parseLit_toOpt _ _ _
    split
    · exact parseLit_toOpt _ _ _
    split
    · exact JsonNumber.parseNumber_toOpt _
    · rename_i hn
      rw [parseNumber_bad c r (by simpa using hn)]; rfl

theorem all_ok (fl : PFlags) (f : Nat) : VOk fl f ∧ AOk fl f ∧ ALOk fl f ∧ OOk fl f ∧ OLOk fl f := by
  induction f with
  | zero =>
    refine ⟨?_, ?_, ?_, ?_, ?_⟩
    · intro f' d b h1 _ _ _
      have : b = [] := by cases b with
        | nil => rfl
        | cons => simp at h1
      subst this; rw [parseValue_nil, value_nil]; rfl
    all_goals (intro f' d; intros; omega)
  | succ g ih =>
    obtain ⟨hV, hA, hAL, hO, hOL⟩ := ih
    exact ⟨value_step hA hO, parseArray_step hAL, arrayLoop_step hV hAL, parseObject_step hOL, objectLoop_step hV hOL⟩

/-- **fuel sufficiency + agreement.** For flags that are sound before every quotation mark of `b`, model fuel
`≥ 3·|b|`, grammar fuel `≥ 2·|b|` and nesting budget `≥ |b|`: `parseValue` succeeds exactly when the RFC 8259 `value`
production matches, with the same remainder. -/
theorem parseValue_toOpt (fl : PFlags) (f f' d : Nat) (b : Bytes)
    (hf : 3 * b.length ≤ f) (hf' : 2 * b.length ≤ f') (hd : b.length ≤ d) (hq : QSound fl b) :
    toOpt (parseValue fl f b) = value f' d b :=
  (all_ok fl f).1 f' d b hf hf' hd hq

end Enc.Lemmas.JsonValue
