import Enc.Lemmas.ThriftSpecVal
/-!
C13, binary protocols (strict and non-strict; they differ in the message header only), step 4.

The model's binary writer is NOT the specification's modulo the type-code table alone: it also ends a struct with three
bytes (type STOP + i16 id 0) instead of one. Both deviations are the known finding `thrift-binary-type-codes`. This file
makes "equal modulo these two" precise:

  * `encB code stop`     the binary encoding of `Spec.Thrift` with the type-code table and the struct terminator as
                         parameters (a copy of the `.binary` branch of `Spec.Thrift.encode`)
  * `encB_spec`          `encB binCode [0] = Spec.Thrift.encode (.binary s)`, for EVERY type and value — `encB` is the
                         specification
  * `encode_binary_eq_spec_mod`   `Model.Thrift.encode (.binary s) = encB cmpCode [0, 0, 0]` on the universe `ok`:
                         the Go binary writer is the specified one with the compact code table and the 3-byte stop
-/
namespace Enc.Lemmas.ThriftSpec
open Enc
open Enc.Lemmas.ThriftSkip (isNilPtr parseTag emitted fieldBody fieldIsTrue pairsOfVal)
open Enc.Spec.Thrift (TT FRec insRec be twos)

def emitB (c : TT → Nat) (stop : Bytes) : List FRec → Bytes
  | [] => stop
  | f :: rest => [UInt8.ofNat (c f.t)] ++ be (twos f.id 16) 2 ++ f.body ++ emitB c stop rest

def listHdrB (c : TT → Nat) (t : TT) (n : Nat) : Bytes := [UInt8.ofNat (c t)] ++ be n 4
def mapHdrB (c : TT → Nat) (k v : TT) (n : Nat) : Bytes := [UInt8.ofNat (c k), UInt8.ofNat (c v)] ++ be n 4
def bytesB (s : Bytes) : Bytes := be s.length 4 ++ s

mutual
def encB (c : TT → Nat) (stop : Bytes) : Ty → Val → Bytes
  | .bool, v => (match v with | .bool true => [1] | _ => [0])
  | .int .i8, v | .int .u8, v => (match v with | .int i => [UInt8.ofNat (twos i 8)] | _ => [0])
  | .int .i16, v | .int .u16, v => (match v with | .int i => be (twos i 16) 2 | _ => [])
  | .int .i32, v | .int .u32, v => (match v with | .int i => be (twos i 32) 4 | _ => [])
  | .int _, v => (match v with | .int i => be (twos i 64) 8 | _ => [])
  | .f32, v | .f64, v => (match v with | .float b => be b 8 | _ => [])
  | .str, v | .bytes, v => (match v with | .str s => bytesB s | _ => bytesB [])
  | .slice (.int .u8), v => (match v with | .str s => bytesB s | _ => bytesB [])
  | .slice t, v =>
    (match v with
     | .list vs => listHdrB c (Spec.Thrift.ttOf t) vs.length ++ (vs.toList.map (encB c stop t)).flatten
     | _ => listHdrB c (Spec.Thrift.ttOf t) 0)
  | .map k v, x =>
    let ps := match x with | .map kvs => Spec.Thrift.pairsOf kvs.toList | _ => []
    if Spec.Thrift.isUnit v then listHdrB c (Spec.Thrift.ttOf k) ps.length ++ (ps.map fun kv => encB c stop k kv.1).flatten
    else mapHdrB c (Spec.Thrift.ttOf k) (Spec.Thrift.ttOf v) ps.length ++
      (ps.map fun kv => encB c stop k kv.1 ++ encB c stop v kv.2).flatten
  | .struct fs, v =>
    (match v with
     | .struct vs => emitB c stop ((recsB c stop fs vs).foldr insRec [])
     | _ => stop)
  | .ptr t, v => (match v with | .ptr x => encB c stop t x | _ => encB c stop t (Spec.Thrift.zeroOf t))
  | .named _ t, v => encB c stop t v
  | .arr _ _, _ | .any, _ => []
def recsB (c : TT → Nat) (stop : Bytes) : Fields → Vals → List FRec
  | .cons _ tag _ t rest, .cons x vs =>
    let tl := recsB c stop rest vs
    match Spec.Thrift.tagOf tag with
    | none => tl
    | some (id, required, enum) =>
      let isNilPtr := match t, x with | .ptr _, .nil => true | _, _ => false
      if isNilPtr then tl
      else if !required && Spec.Thrift.isDefaultAt t x then tl
      else
        let body := if enum then (match Spec.Thrift.derefV x with
                                  | .int i => be (twos i 32) 4
                                  | _ => encB c stop t x)
                    else encB c stop t x
        { id := id, t := if enum then .i32 else Spec.Thrift.ttOf t,
          isTrue := (match Spec.Thrift.derefV x with | .bool true => true | _ => false), body := body } :: tl
  | _, _ => []
end

/-! ## `encB binCode [0]` is the specification -/

theorem emitB_spec (s : Bool) : ∀ (l : List FRec) (last : Int),
    Spec.Thrift.emit (.binary s) l last = emitB Spec.Thrift.binCode [0] l := by
  intro l
  induction l with
  | nil => intro _; rfl
  | cons f l ih =>
    intro last
    simp only [Spec.Thrift.emit, emitB, ih]

theorem encB_slice (c : TT → Nat) (stop : Bytes) (t : Ty) (v : Val) :
    encB c stop (.slice t) v =
      if isU8 t then (match v with | .str s => bytesB s | _ => bytesB [])
      else (match v with
        | .list vs => listHdrB c (Spec.Thrift.ttOf t) vs.length ++ (vs.toList.map (encB c stop t)).flatten
        | _ => listHdrB c (Spec.Thrift.ttOf t) 0) := by
  cases t with
  | int k => cases k <;> cases v <;> rfl
  | _ => cases v <;> rfl

theorem encB_map (c : TT → Nat) (stop : Bytes) (k v : Ty) (x : Val) :
    encB c stop (.map k v) x =
      if Spec.Thrift.isUnit v then
        listHdrB c (Spec.Thrift.ttOf k) (sPairsOfVal x).length ++ ((sPairsOfVal x).map fun kv => encB c stop k kv.1).flatten
      else mapHdrB c (Spec.Thrift.ttOf k) (Spec.Thrift.ttOf v) (sPairsOfVal x).length ++
        ((sPairsOfVal x).map fun kv => encB c stop k kv.1 ++ encB c stop v kv.2).flatten := by
  cases x <;> rfl

theorem encB_struct (c : TT → Nat) (stop : Bytes) (fs : Fields) (v : Val) : encB c stop (.struct fs) v =
    (match v with
     | .struct vs => emitB c stop ((recsB c stop fs vs).foldr insRec [])
     | _ => stop) := by
  cases v <;> rfl

def bBody (c : TT → Nat) (stop : Bytes) (enum : Bool) (t : Ty) (x : Val) : Bytes :=
  if enum then (match Spec.Thrift.derefV x with | .int i => be (twos i 32) 4 | _ => encB c stop t x)
  else encB c stop t x

theorem recsB_cons (c : TT → Nat) (stop : Bytes) (n tag : String) (e : Bool) (t : Ty) (rest : Fields) (x : Val) (vs : Vals) :
    recsB c stop (.cons n tag e t rest) (.cons x vs) =
      match Spec.Thrift.tagOf tag with
      | none => recsB c stop rest vs
      | some (id, req, en) =>
        if isNilPtr t x then recsB c stop rest vs
        else if !req && Spec.Thrift.isDefaultAt t x then recsB c stop rest vs
        else { id := id, t := if en then .i32 else Spec.Thrift.ttOf t, isTrue := sIsTrue x, body := bBody c stop en t x }
               :: recsB c stop rest vs := by
  rw [recsB.eq_def]
  simp only
  cases Spec.Thrift.tagOf tag with
  | none => rfl
  | some tr =>
    obtain ⟨id, req, en⟩ := tr
    simp only
    cases t with
    | ptr t' => cases x <;> rfl
    | _ => rfl

theorem recsB_nil_left (c : TT → Nat) (stop : Bytes) (vs : Vals) : recsB c stop .nil vs = [] := by
  cases vs <;> rfl
theorem recsB_nil_right (c : TT → Nat) (stop : Bytes) (fs : Fields) : recsB c stop fs .nil = [] := by
  cases fs <;> rfl

mutual
/-- `encB` with the specification's table and terminator IS the specification's binary encoding (all inputs) -/
theorem encB_spec (s : Bool) : (ty : Ty) → (v : Val) →
    encB Spec.Thrift.binCode [0] ty v = Spec.Thrift.encode (.binary s) ty v
  | .bool, v => by cases v <;> rfl
  | .int k, v => by cases k <;> cases v <;> rfl
  | .f32, v | .f64, v | .str, v | .bytes, v => by cases v <;> rfl
  | .any, _ | .arr _ _, _ => rfl
  | .slice t, v => by
    rw [encB_slice, sencode_slice]
    split
    · cases v <;> rfl
    · cases v <;> try rfl
      rename_i vs
      simp only [listHdrB, Spec.Thrift.listHdr]
      congr 2
      exact List.map_congr_left fun a _ => encB_spec s t a
  | .map k v, x => by
    rw [encB_map, sencode_map]
    split
    · simp only [listHdrB, Spec.Thrift.listHdr]
      congr 2
      exact List.map_congr_left fun kv _ => encB_spec s k kv.1
    · simp only [mapHdrB, Spec.Thrift.mapHdr]
      congr 2
      exact List.map_congr_left fun kv _ => by rw [encB_spec s k kv.1, encB_spec s v kv.2]
  | .struct fs, v => by
    rw [encB_struct, sencode_struct]
    cases v <;> try rfl
    rename_i vs
    simp only [recsB_spec s fs vs, emitB_spec]
  | .ptr t, v => by
    cases v <;> simp only [encB, Spec.Thrift.encode, encB_spec s t]
  | .named _ t, v => by simp only [encB, Spec.Thrift.encode, encB_spec s t v]
theorem recsB_spec (s : Bool) : (fs : Fields) → (vs : Vals) →
    recsB Spec.Thrift.binCode [0] fs vs = Spec.Thrift.recs (.binary s) fs vs
  | .nil, vs => by rw [recsB_nil_left, recs_nil_left]
  | .cons _ _ _ _ _, .nil => by rw [recsB_nil_right, recs_nil_right]
  | .cons n tag e t r, .cons x vr => by
    rw [recsB_cons, recs_cons, recsB_spec s r vr]
    have hb : ∀ en, bBody Spec.Thrift.binCode [0] en t x = sBody (.binary s) en t x := by
      intro en
      unfold bBody sBody
      simp only [encB_spec s t x]
      cases en
      · rfl
      · cases Spec.Thrift.derefV x <;> rfl
    simp only [hb]
    cases Spec.Thrift.tagOf tag with
    | none => rfl
    | some tr => rfl
end

/-! ## the model is `encB cmpCode [0, 0, 0]` -/

theorem be_eq (n k : Nat) : Model.Thrift.be n k = be n k := rfl
theorem twos_eq (i : Int) (b : Nat) : Model.Thrift.twos i b = twos i b := rfl

theorem wBytes_binary (s : Bool) (b : Bytes) : Model.Thrift.wBytes (.binary s) b = bytesB b := rfl

theorem wList_binary (s : Bool) (t : TT) (n : Nat) :
    Model.Thrift.wList (.binary s) (ofSpec t) n = listHdrB Spec.Thrift.cmpCode t n := by
  simp only [Model.Thrift.wList, listHdrB, code_ofSpec, be_eq]

theorem wMap_binary (s : Bool) (k v : TT) (n : Nat) :
    Model.Thrift.wMap (.binary s) (ofSpec k) (ofSpec v) n = mapHdrB Spec.Thrift.cmpCode k v n := by
  simp only [Model.Thrift.wMap, mapHdrB, code_ofSpec, be_eq]

theorem emit_binary (s : Bool) : ∀ (l : List FRec) (last : Int),
    Model.Thrift.emitFields (.binary s) (l.map conv) last ++ Model.Thrift.wStopField (.binary s) =
      emitB Spec.Thrift.cmpCode [0, 0, 0] l := by
  intro l
  induction l with
  | nil => intro _; rfl
  | cons f l ih =>
    intro last
    have e : Model.Thrift.emitFields (.binary s) ((f :: l).map conv) last =
        Model.Thrift.wField (.binary s) (ofSpec f.t) f.id false ++ f.body ++
          Model.Thrift.emitFields (.binary s) (l.map conv) f.id := rfl
    rw [e, emitB, ← ih f.id]
    simp only [Model.Thrift.wField, code_ofSpec, be_eq, twos_eq, List.append_assoc]

theorem rec_eq_binary (s : Bool) (id : Int) (en : Bool) (t : Ty) (x : Val) (ht : tyOK t = true) (hx : valOK t x = true)
    (hen : en = true → t = .int .i32)
    (henc : Model.Thrift.encode (.binary s) t x = encB Spec.Thrift.cmpCode [0, 0, 0] t x) :
    ({ id := id, t := Model.Thrift.typeOf t, isTrue := fieldIsTrue x, body := fieldBody (.binary s) en t x }
        : Model.Thrift.FieldRec) =
      conv { id := id, t := if en then .i32 else Spec.Thrift.ttOf t, isTrue := sIsTrue x,
             body := bBody Spec.Thrift.cmpCode [0, 0, 0] en t x } := by
  unfold conv
  simp only [fieldIsTrue_eq]
  cases en with
  | false =>
    simp only [Bool.false_eq_true, if_false, typeOf_eq t ht, fieldBody, bBody, henc]
  | true =>
    have := hen rfl
    subst this
    cases x <;> simp [valOK] at hx
    rename_i i
    simp only [if_true, fieldBody, bBody, Model.Thrift.derefVal, Spec.Thrift.derefV, wrap32_id i hx]
    rfl

mutual
theorem encB_eq (s : Bool) : (ty : Ty) → tyOK ty = true → (v : Val) → valOK ty v = true →
    Model.Thrift.encode (.binary s) ty v = encB Spec.Thrift.cmpCode [0, 0, 0] ty v
  | .bool, _, v, hv => by
    cases v <;> simp [valOK] at hv
    rename_i b; cases b <;> rfl
  | .int k, h, v, hv => by
    cases v <;> simp [valOK] at hv
    cases k <;> simp [tyOK, IntKind.signed] at h <;> rfl
  | .str, _, v, hv => by
    cases v <;> simp [valOK] at hv
    rfl
  | .bytes, _, v, hv => by
    cases v <;> simp [valOK] at hv <;> rfl
  | .f32, h, _, _ | .f64, h, _, _ | .any, h, _, _ | .arr _ _, h, _, _ => by simp [tyOK] at h
  | .slice t, h, v, hv => by
    rw [ThriftSkip.encode_slice, encB_slice]
    by_cases hu : isU8 t = true
    · simp only [hu, if_true]
      cases v <;> rfl
    · simp only [hu, Bool.false_eq_true, if_false]
      have ht : tyOK t = true := by simpa [tyOK, hu] using h
      rw [typeOf_eq t ht]
      cases v <;> simp [valOK, hu] at hv <;> simp only [wList_binary]
      rename_i vs
      congr 2
      exact List.map_congr_left fun a ha => encB_eq s t ht a (hv a ha)
  | .map k v, h, x, hx => by
    simp only [tyOK, Bool.and_eq_true] at h
    rw [ThriftSkip.encode_map, encB_map, isEmptyStruct_eq, typeOf_eq k h.1, typeOf_eq v h.2, pairsOfVal_eq]
    have hall : ∀ kv ∈ sPairsOfVal x, valOK k kv.1 = true ∧ valOK v kv.2 = true := by
      cases x <;> simp [valOK] at hx <;> simp only [sPairsOfVal, List.not_mem_nil, false_imp_iff, implies_true]
      rename_i kvs
      intro kv hkv
      rw [← pairsOf_eq] at hkv
      exact hx kv.1 kv.2 hkv
    split
    · rw [wList_binary]
      congr 2
      exact List.map_congr_left fun kv hkv => encB_eq s k h.1 kv.1 (hall kv hkv).1
    · rw [wMap_binary]
      congr 2
      exact List.map_congr_left fun kv hkv => by
        rw [encB_eq s k h.1 kv.1 (hall kv hkv).1, encB_eq s v h.2 kv.2 (hall kv hkv).2]
  | .struct fs, h, v, hv => by
    simp only [tyOK, Bool.and_eq_true, decide_eq_true_eq] at h
    cases v <;> simp [valOK] at hv
    rename_i vs
    rw [ThriftSkip.encode_struct, encB_struct]
    simp only
    rw [recsB_eq s fs h.1.1 vs hv, sortRecs_conv]
    exact emit_binary s _ 0
  | .ptr t, h, v, hv => by
    simp only [tyOK] at h
    cases v <;> simp [valOK] at hv
    · have := encB_eq s t h (Model.Thrift.zeroOf t) (valOK_zeroOf t h)
      rw [zeroOf_eq] at this
      simp only [Model.Thrift.encode, encB, zeroOf_eq, this]
    · rename_i x
      simp only [Model.Thrift.encode, encB, encB_eq s t h x hv]
  | .named _ t, h, v, hv => by
    simp only [tyOK] at h
    simp only [valOK] at hv
    simp only [Model.Thrift.encode, encB, encB_eq s t h v hv]
theorem recsB_eq (s : Bool) : (fs : Fields) → fieldsOK fs = true → (vs : Vals) → valsOK fs vs = true →
    Model.Thrift.fieldRecs (.binary s) fs vs = (recsB Spec.Thrift.cmpCode [0, 0, 0] fs vs).map conv
  | .nil, _, vs, _ => by rw [fieldRecs_nil_left, recsB_nil_left]; rfl
  | .cons _ _ _ _ _, _, .nil, hv => by simp [valsOK] at hv
  | .cons n tag e t r, h, .cons x vr, hv => by
    simp only [fieldsOK, Bool.and_eq_true] at h
    simp only [valsOK, Bool.and_eq_true] at hv
    have ih := recsB_eq s r h.2 vr hv.2
    have henc := encB_eq s t h.1.1 x hv.1
    rw [ThriftSkip.fieldRecs_cons, recsB_cons]
    unfold emitted
    rw [parseTag_eq_tagOf, isZeroAt_eq t h.1.1 x hv.1]
    have hen := h.1.2
    unfold enumOK at hen
    cases htag : Spec.Thrift.tagOf tag with
    | none => simp only; exact ih
    | some tr =>
      obtain ⟨id, req, en⟩ := tr
      rw [htag] at hen
      simp only
      by_cases h1 : isNilPtr t x = true
      · simp only [h1, if_true]; exact ih
      · by_cases h2 : (!req && Spec.Thrift.isDefaultAt t x) = true
        · simp only [h1, h2, Bool.false_eq_true, if_false, if_true]; exact ih
        · simp only [h1, h2, Bool.false_eq_true, if_false, List.map_cons]
          rw [ih]
          congr 1
          apply rec_eq_binary s id en t x h.1.1 hv.1 _ henc
          intro he
          subst he
          simp only at hen
          split at hen
          · rfl
          · exact absurd hen (by simp)
end

/-- C13, binary protocols, modulo the known finding `thrift-binary-type-codes`: on the universe `ok` the Go binary writer
produces the specified binary encoding with the compact type-code table in place of the binary one and a 3-byte struct
terminator in place of the single zero byte (`encB_spec`: with `binCode` and `[0]`, `encB` is `Spec.Thrift.encode`). -/
theorem encode_binary_eq_spec_mod (s : Bool) (ty : Ty) (v : Val) (h : ok ty v = true) :
    Model.Thrift.encode (.binary s) ty v = encB Spec.Thrift.cmpCode [0, 0, 0] ty v := by
  unfold ok at h
  rw [Bool.and_eq_true] at h
  exact encB_eq s ty h.1 v h.2

end Enc.Lemmas.ThriftSpec
