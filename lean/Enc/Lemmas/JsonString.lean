import Enc.Lemmas.JsonScan
import Enc.Spec.Json.Grammar
/-!
# JSON (C05), part 2: `parseString` accepts exactly the RFC 8259 `string` production

* `stringLoop_eq_chars` — the slow loop is the grammar's `chars`.
* `FlagsSound`, `QSound` — what the two input-wide flags may claim; closure under sub-lists / suffixes.
* `parseString_toOpt` — with sound flags, `parseString` (SWAR search + early return + slow loop) = `Spec.Json.string`.
-/
namespace Enc.Lemmas.JsonString
open Enc Enc.Model.Json Enc.Lemmas.JsonScan
theorem chars_cons (c : UInt8) (r : Bytes) : Spec.Json.chars (c :: r) = 
    if c == 0x22 then some r
    else if c == 0x5c then
      match r with
      | e :: r2 =>
        if e == 0x22 || e == 0x5c || e == 0x2f || e == 0x62 || e == 0x66 || e == 0x6e || e == 0x72 || e == 0x74 then Spec.Json.chars r2
        else if e == 0x75 then
          match r2 with
          | a :: b :: c :: d :: r3 => if Spec.Json.hexdig a && Spec.Json.hexdig b && Spec.Json.hexdig c && Spec.Json.hexdig d then Spec.Json.chars r3 else none
          | _ => none
        else none
      | [] => none
    else if c < 0x20 then none
    else Spec.Json.chars r := by
  rw [Spec.Json.chars.eq_def]; rfl
theorem stringLoop_cons (c : UInt8) (rest : Bytes) : stringLoop (c :: rest) =
    if c == 0x5c then
      match rest with
      | [] => .err true
      | e :: rest2 =>
        if e == 0x22 || e == 0x5c || e == 0x2f || e == 0x6e || e == 0x72 || e == 0x74 || e == 0x66 || e == 0x62 then stringLoop rest2
        else if e == 0x75 then
          match rest2 with
          | h1 :: h2 :: h3 :: h4 :: rest3 =>
            if isHex h1 && isHex h2 && isHex h3 && isHex h4 then stringLoop rest3
            else .err (rest3.isEmpty)
          | _ => .err true
        else .err false
    else if c == 0x22 then .ok .string rest
    else if c < 0x20 then .err false
    else stringLoop rest := by
  rw [stringLoop.eq_def]; rfl
def toOpt : PR → Option Bytes
  | .ok _ r => some r
  | .err _ => none

@[simp] theorem toOpt_ok (k r) : toOpt (.ok k r) = some r := rfl
@[simp] theorem toOpt_err (e) : toOpt (.err e) = none := rfl
theorem isHex_eq (c : UInt8) : isHex c = Spec.Json.hexdig c := rfl

theorem esc_order (e : UInt8) :
    (e == 0x22 || e == 0x5c || e == 0x2f || e == 0x6e || e == 0x72 || e == 0x74 || e == 0x66 || e == 0x62) =
    (e == 0x22 || e == 0x5c || e == 0x2f || e == 0x62 || e == 0x66 || e == 0x6e || e == 0x72 || e == 0x74) := by
  generalize (e == 0x22) = a; generalize (e == 0x5c) = b; generalize (e == 0x2f) = c; generalize (e == 0x6e) = d
  generalize (e == 0x72) = f; generalize (e == 0x74) = g; generalize (e == 0x66) = h; generalize (e == 0x62) = i
  revert a b c d f g h i; decide

theorem chars_cons' (c : UInt8) (r : Bytes) : Spec.Json.chars (c :: r) = 
    if c == 0x22 then some r
    else if c == 0x5c then
      match r with
      | e :: r2 =>
        if e == 0x22 || e == 0x5c || e == 0x2f || e == 0x6e || e == 0x72 || e == 0x74 || e == 0x66 || e == 0x62 then Spec.Json.chars r2
        else if e == 0x75 then
          match r2 with
          | a :: b :: c :: d :: r3 => if isHex a && isHex b && isHex c && isHex d then Spec.Json.chars r3 else none
          | _ => none
        else none
      | [] => none
    else if c < 0x20 then none
    else Spec.Json.chars r := by
  rw [chars_cons]; simp only [esc_order, isHex_eq]; rfl


theorem stringLoop_eq_chars_aux : ∀ (n : Nat) (b : Bytes), b.length ≤ n → toOpt (stringLoop b) = Spec.Json.chars b := by
  intro n
  induction n with
  | zero => intro b hb; cases b with
    | nil => rfl
    | cons => simp at hb
  | succ n ih =>
    intro b hb
    match b, hb with
    | [], _ => rfl
    | c :: r, hb =>
      have hr : r.length ≤ n := by simpa using hb
      rw [stringLoop_cons, chars_cons']
      by_cases h5 : c = 0x5c
      · subst h5
        match r, hr with
        | [], _ => rfl
        | e :: r2, hr =>
          have hr2 : r2.length ≤ n := by simp at hr; omega
          simp only [beq_self_eq_true, if_true]
          have : ((0x5c : UInt8) == 0x22) = false := by decide
          simp only [this]
          split
          · exact ih r2 hr2
          · split
            · match r2, hr2 with
              | h1 :: h2 :: h3 :: h4 :: r3, hr2 =>
                have hr3 : r3.length ≤ n := by simp at hr2; omega
                simp only
                split
                · exact ih r3 hr3
                · rfl
              | [], _ => rfl
              | [_], _ => rfl
              | [_, _], _ => rfl
              | [_, _, _], _ => rfl
            · rfl
      · have h5' : (c == 0x5c) = false := by simpa using h5
        simp only [h5', Bool.false_eq_true, if_false]
        by_cases h2 : c = 0x22
        · subst h2; rfl
        · have h2' : (c == 0x22) = false := by simpa using h2
          simp only [h2', Bool.false_eq_true, if_false]
          split
          · rfl
          · exact ih r hr

theorem stringLoop_eq_chars (b : Bytes) : toOpt (stringLoop b) = Spec.Json.chars b :=
  stringLoop_eq_chars_aux b.length b (Nat.le_refl _)

/-! ### flags -/

/-- the two input-wide flags only claim true facts about `b` -/
def FlagsSound (fl : PFlags) (b : Bytes) : Prop :=
  (fl.noBackslash = true → 0x5c ∉ b) ∧ (fl.validAsciiPrint = true → ∀ c ∈ b, 0x20 ≤ c ∧ c ≤ 0x7e)

theorem FlagsSound.sublist {fl : PFlags} {a b : Bytes} (h : FlagsSound fl b) (hs : a.Sublist b) : FlagsSound fl a :=
  ⟨fun hf hm => h.1 hf (hs.subset hm), fun hf c hc => h.2 hf c (hs.subset hc)⟩

theorem FlagsSound.suffix {fl : PFlags} {a b : Bytes} (h : FlagsSound fl b) (hs : a <:+ b) : FlagsSound fl a :=
  h.sublist hs.sublist

theorem FlagsSound.nil (fl : PFlags) : FlagsSound fl [] := ⟨fun _ h => by simp at h, fun _ c h => by simp at h⟩

/-- the flags are sound for everything that precedes a quotation mark in `b` (suffix-closed; implied by `FlagsSound fl b`,
and by soundness for `b` minus trailing white space) -/
def QSound (fl : PFlags) (b : Bytes) : Prop := ∀ p q, b = p ++ 0x22 :: q → FlagsSound fl p

theorem FlagsSound.qsound {fl : PFlags} {b : Bytes} (h : FlagsSound fl b) : QSound fl b := by
  intro p q hb; subst hb; exact h.sublist (List.sublist_append_left _ _)

theorem QSound.suffix {fl : PFlags} {a b : Bytes} (h : QSound fl b) (hs : a <:+ b) : QSound fl a := by
  obtain ⟨u, rfl⟩ := hs
  intro p q hb; subst hb
  exact (h (u ++ p) q (by simp)).sublist (List.sublist_append_right _ _)

theorem QSound.tail {fl : PFlags} {c : UInt8} {r : Bytes} (h : QSound fl (c :: r)) : QSound fl r :=
  h.suffix (List.suffix_cons _ _)

/-! ### first occurrence -/

theorem indexByte_none {b : Bytes} {c : UInt8} (h : indexByte b c = none) : c ∉ b := by
  induction b with
  | nil => simp
  | cons x r ih =>
    rw [indexByte_cons] at h
    split at h
    · cases h
    · rename_i hx
      have hr : indexByte r c = none := by simpa using h
      have : ¬ x = c := by simpa using hx
      simp only [List.mem_cons, not_or]; exact ⟨fun e => this e.symm, ih hr⟩

theorem indexByte_some {b : Bytes} {c : UInt8} {i : Nat} (h : indexByte b c = some i) :
    ∃ p q, b = p ++ c :: q ∧ p.length = i ∧ c ∉ p := by
  induction b generalizing i with
  | nil => cases h
  | cons x r ih =>
    rw [indexByte_cons] at h
    split at h
    · rename_i hx
      have : x = c := by simpa using hx
      subst this
      cases h
      exact ⟨[], r, rfl, rfl, by simp⟩
    · rename_i hx
      have hne : ¬ x = c := by simpa using hx
      cases hi : indexByte r c with
      | none => rw [hi] at h; cases h
      | some j =>
        rw [hi] at h
        obtain ⟨p, q, rfl, hl, hp⟩ := ih hi
        refine ⟨x :: p, q, rfl, ?_, ?_⟩
        · simp at h; simp [hl, h]
        · simp only [List.mem_cons, not_or]; exact ⟨fun e => hne e.symm, hp⟩

/-! ### grammar side -/

theorem chars_no_quote {b : Bytes} (h : 0x22 ∉ b) : Spec.Json.chars b = none := by
  have : ∀ (n : Nat) (b : Bytes), b.length ≤ n → 0x22 ∉ b → Spec.Json.chars b = none := by
    intro n
    induction n with
    | zero => intro b hb _; cases b with
      | nil => rfl
      | cons => simp at hb
    | succ n ih =>
      intro b hb hq
      match b, hb, hq with
      | [], _, _ => rfl
      | c :: r, hb, hq =>
        have hr : r.length ≤ n := by simpa using hb
        simp only [List.mem_cons, not_or] at hq
        have hc : (c == 0x22) = false := by
          have : ¬ c = 0x22 := fun e => hq.1 e.symm
          simpa using this
        rw [chars_cons]
        simp only [hc, Bool.false_eq_true, if_false]
        split
        · match r, hr, hq.2 with
          | [], _, _ => rfl
          | e :: r2, hr, hq2 =>
            have hr2 : r2.length ≤ n := by simp at hr; omega
            simp only [List.mem_cons, not_or] at hq2
            simp only
            split
            · exact ih r2 hr2 hq2.2
            · split
              · match r2, hr2, hq2.2 with
                | h1 :: h2 :: h3 :: h4 :: r3, hr2, hq3 =>
                  have hr3 : r3.length ≤ n := by simp at hr2; omega
                  simp only [List.mem_cons, not_or] at hq3
                  simp only
                  split
                  · exact ih r3 hr3 hq3.2.2.2.2
                  · rfl
                | [], _, _ => rfl
                | [_], _, _ => rfl
                | [_, _], _, _ => rfl
                | [_, _, _], _, _ => rfl
              · rfl
        · split
          · rfl
          · exact ih r hr hq.2
  exact this b.length b (Nat.le_refl _) h

/-- a body without backslash and without control bytes ends at its first quotation mark -/
theorem chars_plain (p q : Bytes) (h : ∀ c ∈ p, c ≠ 0x22 ∧ c ≠ 0x5c ∧ 0x20 ≤ c) :
    Spec.Json.chars (p ++ 0x22 :: q) = some q := by
  induction p with
  | nil => rw [List.nil_append, chars_cons]; rfl
  | cons c r ih =>
    obtain ⟨h1, h2, h3⟩ := h c (by simp)
    have h1' : (c == 0x22) = false := by simpa using h1
    have h2' : (c == 0x5c) = false := by simpa using h2
    have h3' : ¬ c < 0x20 := UInt8.not_lt.mpr h3
    rw [List.cons_append, chars_cons]
    simp only [h1', h2', h3', Bool.false_eq_true, if_false]
    exact ih (fun c hc => h c (by simp [hc]))

theorem string_nil : Spec.Json.string [] = none := rfl
theorem string_cons (c : UInt8) (r : Bytes) :
    Spec.Json.string (c :: r) = if c == 0x22 then Spec.Json.chars r else none := by
  by_cases hc : c = 0x22
  · subst hc; rfl
  · have hc' : (c == 0x22) = false := by simpa using hc
    rw [Spec.Json.string.eq_2 _ (by intro r' e; cases e; exact hc rfl), hc']; rfl

theorem validPrint_iff (b : Bytes) : validPrint b = true ↔ ∀ c ∈ b, 0x20 ≤ c ∧ c ≤ 0x7e := by
  simp [validPrint]

theorem take_len_succ (p : Bytes) (x : UInt8) (q : Bytes) : List.take (p.length + 1) (p ++ x :: q) = p ++ [x] := by
  induction p with
  | nil => rfl
  | cons a p ih => simp only [List.length_cons, List.cons_append, List.take_succ_cons, ih]
theorem drop_len_succ (p : Bytes) (x : UInt8) (q : Bytes) : List.drop (p.length + 1) (p ++ x :: q) = q := by
  induction p with
  | nil => rfl
  | cons a p ih => simp only [List.length_cons, List.cons_append, List.drop_succ_cons, ih]

/-- the string recogniser: with flags that are sound for what precedes each quotation mark, `parseString` accepts
exactly the RFC 8259 strings and returns the same remainder -/
theorem parseString_toOpt (fl : PFlags) (b : Bytes) (hs : QSound fl b) :
    toOpt (parseString fl b) = Spec.Json.string b := by
  match b, hs with
  | [], _ => rfl
  | [q], _ =>
    rw [string_cons]
    have : Spec.Json.chars [] = none := rfl
    simp [parseString, this]
  | q :: c :: r, hs =>
    rw [string_cons]
    by_cases hq : q = 0x22
    · subst hq
      have hlen : ¬ ((0x22 : UInt8) :: c :: r).length < 2 := by simp
      simp only [parseString, hlen, if_false, findQuote_spec, List.drop_succ_cons, List.drop_zero]
      simp only [bne_self_eq_false, Bool.false_eq_true, if_false, beq_self_eq_true, if_true]
      cases hi : indexByte (c :: r) 0x22 with
      | none => simp only [Option.map_none, toOpt_err]; exact (chars_no_quote (indexByte_none hi)).symm
      | some i =>
        obtain ⟨p, q', hb, hl, hp⟩ := indexByte_some hi
        simp only [Option.map_some]
        split
        · rename_i hcond
          rw [hb] at hs ⊢
          have hinner : (List.take (i + 2) (0x22 :: (p ++ 0x22 :: q'))).drop 1 = p ++ [0x22] := by
            subst hl; simp only [List.take_succ_cons, List.drop_succ_cons, List.drop_zero, take_len_succ]
          have hrest : List.drop (i + 2) (0x22 :: (p ++ 0x22 :: q')) = q' := by
            subst hl; simp only [List.drop_succ_cons, drop_len_succ]
          rw [hrest, toOpt_ok]
          rw [hb, hinner] at hcond
          have hfs : FlagsSound fl p :=
            (hs (0x22 :: p) q' rfl).sublist (List.sublist_cons_self _ _)
          simp only [Bool.and_eq_true, Bool.or_eq_true, Bool.not_eq_true'] at hcond
          symm; apply chars_plain
          intro x hx
          refine ⟨fun e => hp (e ▸ hx), ?_, ?_⟩
          · intro e; subst e
            rcases hcond.1 with h1 | h1
            · exact hfs.1 h1 hx
            · have : ¬ (0x5c ∈ p ++ [0x22]) := by simpa using h1
              exact this (List.mem_append_left _ hx)
          · rcases hcond.2 with h2 | h2
            · exact (hfs.2 h2 x hx).1
            · exact ((validPrint_iff _).mp h2 x (List.mem_append_left _ hx)).1
        · exact stringLoop_eq_chars _
    · have hq' : (q == 0x22) = false := by simpa using hq
      have hlen : ¬ (q :: c :: r).length < 2 := by simp
      simp only [parseString, hlen, if_false, hq', bne, Bool.not_false, if_true, toOpt_err, Bool.false_eq_true]

/-- item (2) as stated: soundness of the flags for the whole input is enough -/
theorem parseString_spec (fl : PFlags) (b : Bytes) (hs : FlagsSound fl b) :
    (∀ rest, (∃ k, parseString fl b = .ok k rest) ↔ Spec.Json.string b = some rest) ∧
    ((∃ e, parseString fl b = .err e) ↔ Spec.Json.string b = none) := by
  have h := parseString_toOpt fl b hs.qsound
  cases hp : parseString fl b with
  | ok k r => rw [hp] at h; simp only [toOpt_ok] at h; simp [← h]
  | err e => rw [hp] at h; simp only [toOpt_err] at h; simp [← h]

end Enc.Lemmas.JsonString
