import Enc.Lemmas.ThriftTotalDecode
/-!
C08 (A), thrift: totality. In the model a `.panic` is produced in exactly one place: `decode` reaching a Go kind that
`decodeFuncOf` does not support (unsigned integers, arrays, interfaces). Everything else — the primitive readers, the
generic skipper for every wire type including unknown codes, lists/sets/maps/structs of any announced size, any bytes —
returns a value or an error.

  * `np_skip`, `np_skipN`, `np_skipPairs`, `np_skipStruct`   unconditional
  * `Supported ty`      decidable: no unsigned kind (other than `[]uint8` = binary), array or interface anywhere in `ty`
  * `np_decode` (+ `List/Set/Map/Struct`), `np_unmarshal`   under `Supported`
  * `decode_unsupported_panics`   the restriction is needed: at an unsupported kind the model does panic
-/
namespace Enc.Lemmas.ThriftTotal
open Enc Enc.Model.Thrift Enc.Lemmas.ThriftPrim Enc.Lemmas.ThriftSkip

/-- "does not panic" -/
def NP {α} (x : Res α) : Prop := ∀ e, x ≠ .panic e

theorem NP.ok {α} (a : α) : NP (.ok a : Res α) := fun _ h => by cases h
theorem NP.err {α} (e : String) : NP (.err e : Res α) := fun _ h => by cases h
theorem NP.bind {α β} {x : Res α} {g : α → Res β} (hx : NP x) (hg : ∀ a, NP (g a)) : NP (x.bind g) := by
  cases x with
  | ok a => exact hg a
  | err e => exact NP.err e
  | panic e => exact absurd rfl (hx e)
theorem NP.ite {α} {c : Prop} [Decidable c] {x y : Res α} (hx : NP x) (hy : NP y) : NP (if c then x else y) := by
  split <;> assumption
theorem NP.dont {α} {x : R α} (hx : NP x) : NP (dontExpectEOF x) := by
  cases x with
  | ok a => rw [dontExpectEOF_ok]; exact NP.ok a
  | err e => rw [dontExpectEOF_err]; split <;> exact NP.err _
  | panic e => exact absurd rfl (hx e)
theorem NP.wrapE {α} {x : R α} (c : Bool) (hx : NP x) : NP (wrapE c x) := by
  unfold ThriftTotal.wrapE; cases c
  · exact hx
  · exact hx.dont

theorem np_readN (b : Bytes) (n : Nat) : NP (readN b n) := by
  unfold readN; split
  · exact NP.ok _
  · split <;> exact NP.err _

theorem np_rByte (b : Bytes) : NP (rByte b) := by
  cases b <;> simp only [rByte]
  · exact NP.err _
  · exact NP.ok _

theorem np_go : ∀ (b : Bytes) (i x s : Nat), NP (readUvarintGo.go b i x s) := by
  intro b
  induction b with
  | nil =>
    intro i x s
    simp only [readUvarintGo.go]
    split
    · exact NP.err _
    · split <;> exact NP.err _
  | cons c rest ih =>
    intro i x s
    simp only [readUvarintGo.go]
    split
    · exact NP.err _
    · split
      · split
        · exact NP.err _
        · exact NP.ok _
      · exact ih _ _ _

theorem np_readUvarint (b : Bytes) : NP (readUvarintGo b) := np_go b 0 0 0

/-- one step of the "no panic" bookkeeping -/
macro "np_step" : tactic => `(tactic| first
  | exact NP.ok _ | exact NP.err _ | exact np_readN _ _ | exact np_rByte _ | exact np_readUvarint _
  | apply NP.bind | apply NP.dont | apply NP.wrapE | apply NP.ite | (intro _; try dsimp only))

theorem np_rFixed (b : Bytes) (n : Nat) : NP (rFixed b n) := by unfold rFixed; repeat np_step
theorem np_rVarint (b : Bytes) (bits : Nat) : NP (rVarint b bits) := by unfold rVarint; repeat np_step
theorem np_rBool (p : Proto) (b : Bytes) : NP (rBool p b) := by unfold rBool; repeat np_step
theorem np_rI8 (p : Proto) (b : Bytes) : NP (rI8 p b) := by unfold rI8; repeat np_step
theorem np_rI16 (p : Proto) (b : Bytes) : NP (rI16 p b) := by
  cases p <;> simp only [rI16] <;> repeat (first | exact np_rVarint _ _ | exact np_rFixed _ _ | np_step)
theorem np_rI32 (p : Proto) (b : Bytes) : NP (rI32 p b) := by
  cases p <;> simp only [rI32] <;> repeat (first | exact np_rVarint _ _ | exact np_rFixed _ _ | np_step)
theorem np_rI64 (p : Proto) (b : Bytes) : NP (rI64 p b) := by
  cases p <;> simp only [rI64] <;> repeat (first | exact np_rVarint _ _ | exact np_rFixed _ _ | np_step)
theorem np_rDouble (p : Proto) (b : Bytes) : NP (rDouble p b) := np_rFixed b 8
theorem np_rLength (p : Proto) (b : Bytes) : NP (rLength p b) := by
  cases p <;> simp only [rLength] <;> repeat (first | exact np_rFixed _ _ | np_step)
theorem np_rBytes (p : Proto) (b : Bytes) : NP (rBytes p b) := by
  unfold rBytes; repeat (first | exact np_rLength _ _ | np_step)
theorem np_rField (p : Proto) (b : Bytes) : NP (rField p b) := by
  cases p <;> simp only [rField] <;> repeat (first | exact np_rI8 _ _ | exact np_rI16 _ _ | np_step)
theorem np_rList (p : Proto) (b : Bytes) : NP (rList p b) := by
  cases p <;> simp only [rList] <;> repeat (first | exact np_rI8 _ _ | exact np_rI32 _ _ | np_step)
theorem np_rMap (p : Proto) (b : Bytes) : NP (rMap p b) := by
  cases p <;> simp only [rMap] <;> repeat (first | exact np_rI32 _ _ | np_step)

macro "np_prim" : tactic => `(tactic| first
  | exact np_rBool _ _ | exact np_rI8 _ _ | exact np_rI16 _ _ | exact np_rI32 _ _ | exact np_rI64 _ _
  | exact np_rDouble _ _ | exact np_rLength _ _ | exact np_rBytes _ _ | exact np_rField _ _ | exact np_rList _ _
  | exact np_rMap _ _ | np_step)

/-! ## the skippers never panic -/
theorem np_skip_all (p : Proto) : ∀ fuel,
    (∀ d t b, NP (skip p d fuel t b)) ∧ (∀ d t n b, NP (skipN p d fuel t n b)) ∧
    (∀ d kt vt n b, NP (skipPairs p d fuel kt vt n b)) ∧ (∀ d b last num, NP (skipStruct p d fuel b last num)) := by
  intro fuel
  induction fuel with
  | zero =>
    refine ⟨fun d t b => ?_, fun d t n b => ?_, fun d kt vt n b => ?_, fun d b last num => ?_⟩
    · simp only [skip]; exact NP.err _
    · simp only [skipN]; exact NP.err _
    · simp only [skipPairs]; exact NP.err _
    · simp only [skipStruct]; exact NP.err _
  | succ fuel ih =>
    obtain ⟨ih1, ih2, ih3, ih4⟩ := ih
    refine ⟨fun d t b => ?_, fun d t n b => ?_, fun d kt vt n b => ?_, fun d b last num => ?_⟩
    · cases t <;> simp only [skip] <;>
        repeat (first | exact ih2 _ _ _ _ | exact ih3 _ _ _ _ _ | exact ih4 _ _ _ _ | np_prim)
    · cases n <;> simp only [skipN] <;> repeat (first | exact ih1 _ _ _ | exact ih2 _ _ _ _ | np_prim)
    · cases n <;> simp only [skipPairs] <;> repeat (first | exact ih1 _ _ _ | exact ih3 _ _ _ _ _ | np_prim)
    · rw [skipStruct_succ]
      repeat (first | exact ih1 _ _ _ | exact ih4 _ _ _ _ | np_prim)

theorem np_skip (p : Proto) (d fuel : Nat) (t : TType) (b : Bytes) : NP (skip p d fuel t b) := (np_skip_all p fuel).1 d t b
theorem np_skipN (p : Proto) (d fuel : Nat) (t : TType) (n : Nat) (b : Bytes) : NP (skipN p d fuel t n b) :=
  (np_skip_all p fuel).2.1 d t n b
theorem np_skipPairs (p : Proto) (d fuel : Nat) (kt vt : TType) (n : Nat) (b : Bytes) :
    NP (skipPairs p d fuel kt vt n b) := (np_skip_all p fuel).2.2.1 d kt vt n b
theorem np_skipStruct (p : Proto) (d fuel : Nat) (b : Bytes) (last : Int) (num : Nat) :
    NP (skipStruct p d fuel b last num) := (np_skip_all p fuel).2.2.2 d b last num

/-! ## the decoder never panics on supported types -/
mutual
/-- the Go kinds `decodeFuncOf` accepts, everywhere inside the type -/
def Supported : Ty → Bool
  | .bool | .f32 | .f64 | .str | .bytes => true
  | .int k => k.signed
  | .any | .arr _ _ => false
  | .slice t => isU8 t || Supported t
  | .map k v => Supported k && Supported v
  | .struct fs => SupportedF fs
  | .ptr t => Supported t
  | .named _ t => Supported t
def SupportedF : Fields → Bool
  | .nil => true
  | .cons _ _ _ t r => Supported t && SupportedF r
end

theorem supported_go : (fs : Fields) → (pos : Nat) → SupportedF fs = true →
    ∀ d ∈ fieldDescs.go fs pos, Supported d.ty = true
  | .nil, pos, _ => by intro d hd; simp [fieldDescs.go] at hd
  | .cons n tag e t rest, pos, h => by
    intro d hd
    simp only [SupportedF, Bool.and_eq_true] at h
    simp only [fieldDescs.go] at hd
    split at hd
    · exact supported_go rest _ h.2 d hd
    · split at hd
      · exact supported_go rest _ h.2 d hd
      · split at hd
        · rcases List.mem_cons.mp hd with rfl | hd
          · exact h.1
          · exact supported_go rest _ h.2 d hd
        · exact supported_go rest _ h.2 d hd

theorem supported_descs (fs : Fields) (h : SupportedF fs = true) : ∀ d ∈ fieldDescs fs, Supported d.ty = true :=
  supported_go fs 0 h

theorem findById_mem (descs : List FieldDesc) (id : Int) (d : FieldDesc) (h : findById descs id = some d) :
    d ∈ descs := by
  unfold findById at h
  exact List.mem_of_find?_eq_some h

theorem np_decode_all (p : Proto) (strict : Bool) : ∀ fuel,
    (∀ d ty b cur, Supported ty = true → NP (decode p strict d fuel ty b cur)) ∧
    (∀ d et n b acc, Supported et = true → NP (decodeList p strict d fuel et n b acc)) ∧
    (∀ d kt n b acc, Supported kt = true → NP (decodeSet p strict d fuel kt n b acc)) ∧
    (∀ d kt vt n b acc, Supported kt = true → Supported vt = true → NP (decodeMap p strict d fuel kt vt n b acc)) ∧
    (∀ d descs b vs last num seen, (∀ fd ∈ descs, Supported fd.ty = true) →
      NP (decodeStruct p strict d fuel descs b vs last num seen)) := by
  intro fuel
  induction fuel with
  | zero =>
    refine ⟨fun d ty b cur _ => ?_, fun d et n b acc _ => ?_, fun d kt n b acc _ => ?_, fun d kt vt n b acc _ _ => ?_,
      fun d descs b vs last num seen _ => ?_⟩
    · simp only [decode]; exact NP.err _
    · simp only [decodeList]; exact NP.err _
    · simp only [decodeSet]; exact NP.err _
    · simp only [decodeMap]; exact NP.err _
    · simp only [decodeStruct]; exact NP.err _
  | succ fuel ih =>
    obtain ⟨ih1, ih2, ih3, ih4, ih5⟩ := ih
    refine ⟨fun d ty b cur hs => ?_, fun d et n b acc hs => ?_, fun d kt n b acc hs => ?_,
      fun d kt vt n b acc hk hv => ?_, fun d descs b vs last num seen hd => ?_⟩
    · cases ty with
      | bool => simp only [decode]; repeat np_prim
      | int k => cases k <;> simp [Supported, IntKind.signed] at hs <;> simp only [decode] <;> repeat np_prim
      | f32 | f64 | str | bytes => simp only [decode]; repeat np_prim
      | any | arr _ _ => simp [Supported] at hs
      | slice et =>
        rw [decode_slice]
        by_cases hu : isU8 et = true
        · simp only [hu, if_true]; repeat np_prim
        · simp only [hu, Bool.false_eq_true, if_false]
          have hs' : Supported et = true := by simpa [Supported, hu] using hs
          repeat (first | exact ih2 _ _ _ _ _ hs' | exact np_skipN _ _ _ _ _ _ | np_prim)
      | map kt vt =>
        simp only [Supported, Bool.and_eq_true] at hs
        simp only [decode]
        repeat (first
          | exact ih3 _ _ _ _ _ hs.1 | exact ih4 _ _ _ _ _ _ hs.1 hs.2 | exact np_skipN _ _ _ _ _ _
          | exact np_skipPairs _ _ _ _ _ _ _ | np_prim)
      | struct fs =>
        simp only [Supported] at hs
        cases cur <;> simp only [decode] <;>
          repeat (first | exact ih5 _ _ _ _ _ _ _ (supported_descs fs hs) | np_prim)
      | ptr et =>
        simp only [Supported] at hs
        cases cur <;> simp only [decode] <;> repeat (first | exact ih1 _ _ _ _ hs | np_prim)
      | named nm t' =>
        simp only [Supported] at hs
        simp only [decode]
        exact ih1 _ _ _ _ hs
    · cases n <;> simp only [decodeList] <;> repeat (first | exact ih1 _ _ _ _ hs | exact ih2 _ _ _ _ _ hs | np_prim)
    · cases n <;> simp only [decodeSet] <;> repeat (first | exact ih1 _ _ _ _ hs | exact ih3 _ _ _ _ _ hs | np_prim)
    · cases n <;> simp only [decodeMap] <;>
        repeat (first | exact ih1 _ _ _ _ hk | exact ih1 _ _ _ _ hv | exact ih4 _ _ _ _ _ _ hk hv | np_prim)
    · rw [decodeStruct_succ]
      apply NP.bind (NP.wrapE _ (np_rField p b))
      intro a
      dsimp only
      apply NP.ite (NP.ite (NP.err _) (NP.ok _))
      cases hfd : findById descs (wrap16 (if a.1.delta = true then a.1.id + last else a.1.id)) with
      | none =>
        dsimp only
        repeat (first | exact np_skip _ _ _ _ _ | exact np_skipN _ _ _ _ _ _ | exact np_skipPairs _ _ _ _ _ _ _ | exact ih5 _ _ _ _ _ _ _ hd | np_prim)
      | some fd =>
        have hds : Supported fd.ty = true := hd fd (findById_mem _ _ _ hfd)
        dsimp only
        apply NP.ite
        · repeat (first | exact np_skip _ _ _ _ _ | exact ih5 _ _ _ _ _ _ _ hd | np_prim)
        · apply NP.ite
          · exact ih5 _ _ _ _ _ _ _ hd
          · apply NP.bind
            · apply NP.dont
              apply NP.ite
              · cases baseOf fd.ty <;> dsimp only <;> repeat (first | exact ih1 _ _ _ _ hds | np_prim)
              · exact ih1 _ _ _ _ hds
            · intro _; exact ih5 _ _ _ _ _ _ _ hd

theorem np_decode (p : Proto) (strict : Bool) (d fuel : Nat) (ty : Ty) (b : Bytes) (cur : Val)
    (h : Supported ty = true) : NP (decode p strict d fuel ty b cur) := (np_decode_all p strict fuel).1 d ty b cur h
theorem np_decodeList (p : Proto) (strict : Bool) (d fuel : Nat) (et : Ty) (n : Nat) (b : Bytes) (acc : List Val)
    (h : Supported et = true) : NP (decodeList p strict d fuel et n b acc) :=
  (np_decode_all p strict fuel).2.1 d et n b acc h
theorem np_decodeSet (p : Proto) (strict : Bool) (d fuel : Nat) (kt : Ty) (n : Nat) (b : Bytes) (acc : Vals)
    (h : Supported kt = true) : NP (decodeSet p strict d fuel kt n b acc) :=
  (np_decode_all p strict fuel).2.2.1 d kt n b acc h
theorem np_decodeMap (p : Proto) (strict : Bool) (d fuel : Nat) (kt vt : Ty) (n : Nat) (b : Bytes) (acc : Vals)
    (hk : Supported kt = true) (hv : Supported vt = true) : NP (decodeMap p strict d fuel kt vt n b acc) :=
  (np_decode_all p strict fuel).2.2.2.1 d kt vt n b acc hk hv
theorem np_decodeStruct (p : Proto) (strict : Bool) (d fuel : Nat) (descs : List FieldDesc) (b : Bytes) (vs : Vals)
    (last : Int) (num : Nat) (seen : List Int) (h : ∀ fd ∈ descs, Supported fd.ty = true) :
    NP (decodeStruct p strict d fuel descs b vs last num seen) :=
  (np_decode_all p strict fuel).2.2.2.2 d descs b vs last num seen h

theorem np_unmarshal (p : Proto) (strict : Bool) (ty : Ty) (b : Bytes) (h : Supported ty = true) :
    NP (unmarshal p strict ty b) := by
  unfold unmarshal
  have := np_decode p strict 0 (4 * b.length + 64 + depth ty) ty b (zeroOf ty) h
  cases hd : decode p strict 0 (4 * b.length + 64 + depth ty) ty b (zeroOf ty) with
  | ok vr => dsimp only; split <;> first | exact NP.ok _ | exact NP.err _
  | err e => exact NP.err _
  | panic e => exact absurd hd (this e)

/-- the restriction is needed: at an unsupported Go kind the model (like `decodeFuncOf`) panics, whatever the input -/
theorem decode_unsupported_panics (p : Proto) (strict : Bool) (d fuel : Nat) (b : Bytes) (cur : Val) :
    decode p strict d (fuel + 1) (.int .u32) b cur = .panic "unsupportedType" ∧
    decode p strict d (fuel + 1) .any b cur = .panic "unsupportedType" ∧
    decode p strict d (fuel + 1) (.arr 2 .bool) b cur = .panic "unsupportedType" := by
  refine ⟨?_, ?_, ?_⟩ <;> simp only [decode]

end Enc.Lemmas.ThriftTotal
