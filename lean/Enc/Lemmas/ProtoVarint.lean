import Enc.Model.Proto
import Enc.Spec.Protobuf
import Enc.Lemmas.Proto
import Std.Tactic.BVDecide
/-!
Varint and zigzag primitives of the proto model (`Enc.Model.Proto`):

  * `sizeOfVarint_pos`, `sizeOfVarint_le`   1 ≤ size ≤ 10
  * `decode_encode_varint`                  `decodeVarint (encodeVarint v ++ rest) = ok (v, sizeOfVarint v)`
  * `encodeVarint_eq_leb128`                the encoder is the canonical LEB128 of the reference spec
  * `zigzag_spec`                           `encodeZigZag64` is the reference zigzag on int64

Method: `sizeOfVarint` is bridged to a pure bit-vector expression (`sizeBV`) so that `bv_decide` can prove the one
property everything else rests on (`lt_size_iff`: byte `i` has a successor iff `v >>> (7*i) ≥ 128`); the round trip and
the LEB128 equality are then plain inductions over the byte index.
-/
namespace Enc.Lemmas.ProtoVarint
open Enc Enc.Model.Proto

/-- the size as a bit-vector expression (so that `bv_decide` can reason about it) -/
def sizeBV (v : BitVec 64) : BitVec 64 := (64#64 - (v ||| 1#64).clz + 6#64) / 7#64

theorem clz_le (v : BitVec 64) : (v ||| 1#64).clz ≤ 63#64 := by bv_decide

theorem sizeOfVarint_eq_sizeBV (v : BitVec 64) : sizeOfVarint v = (sizeBV v).toNat := by
  have h := clz_le v
  rw [BitVec.le_def] at h
  simp only [BitVec.toNat_ofNat] at h
  unfold sizeOfVarint sizeBV
  rw [BitVec.toNat_udiv, BitVec.toNat_add, BitVec.toNat_sub]
  generalize (v ||| 1#64).clz.toNat = c at h ⊢
  simp only [BitVec.toNat_ofNat, Nat.reducePow, Nat.reduceMod]
  omega


theorem sizeBV_bounds (v : BitVec 64) : 1#64 ≤ sizeBV v ∧ sizeBV v ≤ 10#64 := by
  unfold sizeBV; bv_decide

theorem sizeOfVarint_pos (v : BitVec 64) : 1 ≤ sizeOfVarint v := by
  have h := (sizeBV_bounds v).1
  rw [BitVec.le_def] at h
  rw [sizeOfVarint_eq_sizeBV]
  simpa using h

theorem sizeOfVarint_le (v : BitVec 64) : sizeOfVarint v ≤ 10 := by
  have h := (sizeBV_bounds v).2
  rw [BitVec.le_def] at h
  rw [sizeOfVarint_eq_sizeBV]
  simpa using h

/-- the defining property of the size: byte `i` is followed by another one iff `v >>> (7*i)` does not fit in 7 bits -/
theorem lt_sizeBV_iff (v : BitVec 64) (i : Nat) (hi : i ≤ 9) :
    BitVec.ofNat 64 (i + 1) < sizeBV v ↔ ¬ (v >>> (7 * i) < 128#64) := by
  have : i = 0 ∨ i = 1 ∨ i = 2 ∨ i = 3 ∨ i = 4 ∨ i = 5 ∨ i = 6 ∨ i = 7 ∨ i = 8 ∨ i = 9 := by omega
  unfold sizeBV
  rcases this with h | h | h | h | h | h | h | h | h | h <;> subst h <;> bv_decide

theorem lt_size_iff (v : BitVec 64) (i : Nat) :
    i + 1 < sizeOfVarint v ↔ ¬ (v >>> (7 * i) < 128#64) := by
  by_cases hi : i ≤ 9
  · rw [← lt_sizeBV_iff v i hi, sizeOfVarint_eq_sizeBV, BitVec.lt_def, BitVec.toNat_ofNat]
    have : (i + 1) % 2 ^ 64 = i + 1 := Nat.mod_eq_of_lt (by omega)
    rw [this]
  · have h1 := sizeOfVarint_le v
    have h2 : v >>> (7 * i) = 0#64 := by
      apply BitVec.eq_of_toNat_eq
      rw [BitVec.toNat_ushiftRight, Nat.shiftRight_eq_div_pow]
      have : v.toNat < 2 ^ (7 * i) :=
        Nat.lt_of_lt_of_le v.isLt (Nat.pow_le_pow_right (by omega) (by omega))
      simp [Nat.div_eq_of_lt this]
    rw [h2]
    constructor
    · intro h; omega
    · intro h; exact absurd (by decide) h

/-! ### one decoder step -/

theorem step_small (w : BitVec 64) (h : w < 128#64) :
    ((w.truncate 8 : BitVec 8) < 0x80#8) ∧ ((w.truncate 8 : BitVec 8).zeroExtend 64 = w) := by
  bv_decide

theorem step_big (w : BitVec 64) :
    (¬ ((w.truncate 8 ||| 0x80#8 : BitVec 8) < 0x80#8)) ∧
    ((((w.truncate 8 ||| 0x80#8 : BitVec 8) &&& 0x7f#8).zeroExtend 64) = (w &&& 0x7f#64)) := by
  bv_decide

theorem last_ok (w : BitVec 64) (h : w < 2#64) : ¬ ((w.truncate 8 : BitVec 8) > 1#8) := by
  bv_decide

theorem loop_small (w : BitVec 64) (h : w < 128#64) (cs : Bytes) (x : BitVec 64) (s i : Nat) (hi : i ≤ 9)
    (h9 : i = 9 → w < 2#64) :
    decodeVarintLoop (⟨w.truncate 8⟩ :: cs) x s i = .ok (x ||| (w <<< s), i + 1) := by
  obtain ⟨h1, h2⟩ := step_small w h
  have hlt : (⟨w.truncate 8⟩ : UInt8) < 0x80 := by
    rw [UInt8.lt_iff_toBitVec_lt]; exact h1
  have hov : ¬ (i > 9 ∨ (i = 9 ∧ (⟨w.truncate 8⟩ : UInt8) > 1)) := by
    intro hh
    rcases hh with hh | ⟨e, hc⟩
    · omega
    · have := last_ok w (h9 e)
      apply this
      have hc' : (1 : UInt8) < ⟨w.truncate 8⟩ := hc
      rw [UInt8.lt_iff_toBitVec_lt] at hc'
      exact hc'
  simp only [decodeVarintLoop, hlt, if_true, hov, if_false, h2]

theorem loop_big (w : BitVec 64) (cs : Bytes) (x : BitVec 64) (s i : Nat) :
    decodeVarintLoop (⟨w.truncate 8 ||| 0x80#8⟩ :: cs) x s i
      = decodeVarintLoop cs (x ||| ((w &&& 0x7f#64) <<< s)) (s + 7) (i + 1) := by
  obtain ⟨h1, h2⟩ := step_big w
  have hlt : ¬ (⟨w.truncate 8 ||| 0x80#8⟩ : UInt8) < 0x80 := by
    rw [UInt8.lt_iff_toBitVec_lt]; exact h1
  simp only [decodeVarintLoop, hlt, if_false, h2]

/-- recombination at a fixed bit offset s = 7*i, i ≤ 9 -/
theorem recombine (x w : BitVec 64) (i : Nat) (hi : i ≤ 9) :
    (x ||| ((w &&& 0x7f#64) <<< (7 * i))) ||| ((w >>> 7) <<< (7 * i + 7)) = x ||| (w <<< (7 * i)) := by
  have : i = 0 ∨ i = 1 ∨ i = 2 ∨ i = 3 ∨ i = 4 ∨ i = 5 ∨ i = 6 ∨ i = 7 ∨ i = 8 ∨ i = 9 := by omega
  rcases this with h | h | h | h | h | h | h | h | h | h <;> subst h <;> bv_decide

theorem shr63_lt (v : BitVec 64) : v >>> 63 < 2#64 := by bv_decide

/-! ### the encoder as a suffix function -/

/-- bytes `i, i+1, …, n-1` of the encoding -/
def tailFrom (v : BitVec 64) (n i : Nat) : Bytes := (List.range' i (n - i)).map (varintByte v n)

theorem encodeVarint_eq_tail (v : BitVec 64) : encodeVarint v = tailFrom v (sizeOfVarint v) 0 := by
  simp [encodeVarint, tailFrom, List.range_eq_range']

theorem tail_unfold (v : BitVec 64) (n i : Nat) (h : i < n) :
    tailFrom v n i = varintByte v n i :: tailFrom v n (i + 1) := by
  unfold tailFrom
  have : n - i = (n - (i + 1)) + 1 := by omega
  rw [this, List.range'_succ, List.map_cons]

theorem tail_nil (v : BitVec 64) (n i : Nat) (h : n ≤ i) : tailFrom v n i = [] := by
  unfold tailFrom
  have : n - i = 0 := by omega
  rw [this]; rfl

theorem dec_tail (v : BitVec 64) (rest : Bytes) : ∀ (k i : Nat) (x : BitVec 64),
    i < sizeOfVarint v → sizeOfVarint v - i = k →
    decodeVarintLoop (tailFrom v (sizeOfVarint v) i ++ rest) x (7 * i) i
      = .ok (x ||| ((v >>> (7 * i)) <<< (7 * i)), sizeOfVarint v) := by
  intro k
  induction k with
  | zero => intro i x h1 h2; omega
  | succ k ih =>
    intro i x h1 h2
    have hle := sizeOfVarint_le v
    rw [tail_unfold v _ i h1, List.cons_append]
    by_cases hn : i + 1 < sizeOfVarint v
    · have hbig := (lt_size_iff v i).mp hn
      simp only [varintByte, hn, if_true]
      rw [loop_big]
      have e : 7 * i + 7 = 7 * (i + 1) := by omega
      rw [e, ih (i + 1) _ hn (by omega)]
      have e2 : v >>> (7 * (i + 1)) = (v >>> (7 * i)) >>> 7 := by
        rw [← e, BitVec.shiftRight_add]
      rw [e2, ← e, recombine x (v >>> (7 * i)) i (by omega)]
    · have hsmall : v >>> (7 * i) < 128#64 := by
        exact Classical.not_not.mp (fun h => hn ((lt_size_iff v i).mpr h))
      simp only [varintByte, hn, if_false]
      rw [tail_nil v _ (i + 1) (by omega), List.nil_append]
      rw [loop_small _ hsmall _ _ _ _ (by omega) (by intro e; subst e; exact shr63_lt v)]
      congr 2; omega

theorem decode_encode_varint (v : BitVec 64) (rest : Bytes) :
    decodeVarint (encodeVarint v ++ rest) = .ok (v, sizeOfVarint v) := by
  have := dec_tail v rest (sizeOfVarint v) 0 0#64 (sizeOfVarint_pos v) rfl
  rw [encodeVarint_eq_tail]
  unfold decodeVarint
  simpa using this

/-! ### agreement with the reference LEB128 -/

theorem byte_small (w : BitVec 64) : (⟨w.truncate 8⟩ : UInt8) = UInt8.ofNat w.toNat := by
  show (⟨w.truncate 8⟩ : UInt8) = ⟨BitVec.ofNat 8 w.toNat⟩
  congr 1

theorem byte_big_bv (w : BitVec 64) :
    w.truncate 8 ||| 0x80#8 = ((w % 128#64) + 128#64).truncate 8 := by bv_decide

theorem byte_big (w : BitVec 64) :
    (⟨w.truncate 8 ||| 0x80#8⟩ : UInt8) = UInt8.ofNat (w.toNat % 128 + 128) := by
  show (⟨w.truncate 8 ||| 0x80#8⟩ : UInt8) = ⟨BitVec.ofNat 8 (w.toNat % 128 + 128)⟩
  congr 1
  rw [byte_big_bv]
  apply BitVec.eq_of_toNat_eq
  simp [BitVec.toNat_umod, BitVec.toNat_add]

theorem tail_leb (v : BitVec 64) : ∀ (k i : Nat),
    i < sizeOfVarint v → sizeOfVarint v - i = k →
    tailFrom v (sizeOfVarint v) i = Spec.Protobuf.leb128 (v >>> (7 * i)).toNat := by
  intro k
  induction k with
  | zero => intro i h1 h2; omega
  | succ k ih =>
    intro i h1 h2
    rw [tail_unfold v _ i h1, Spec.Protobuf.leb128]
    by_cases hn : i + 1 < sizeOfVarint v
    · have hbig := (lt_size_iff v i).mp hn
      have hb : ¬ (v >>> (7 * i)).toNat < 128 := by
        intro h; apply hbig; rw [BitVec.lt_def]; simpa using h
      simp only [varintByte, hn, if_true, hb, dite_false]
      rw [ih (i + 1) hn (by omega), byte_big]
      have e2 : v >>> (7 * (i + 1)) = (v >>> (7 * i)) >>> 7 := by
        rw [← BitVec.shiftRight_add]; congr 1
      rw [e2, BitVec.toNat_ushiftRight _ 7, Nat.shiftRight_eq_div_pow]
    · have hsmall : v >>> (7 * i) < 128#64 :=
        Classical.not_not.mp (fun h => hn ((lt_size_iff v i).mpr h))
      have hb : (v >>> (7 * i)).toNat < 128 := by
        rw [BitVec.lt_def] at hsmall; simpa using hsmall
      simp only [varintByte, hn, if_false, hb, dite_true]
      rw [tail_nil v _ (i + 1) (by omega), byte_small]

theorem encodeVarint_eq_leb128 (v : BitVec 64) : encodeVarint v = Spec.Protobuf.leb128 v.toNat := by
  have := tail_leb v (sizeOfVarint v) 0 (sizeOfVarint_pos v) rfl
  rw [encodeVarint_eq_tail, this]
  simp

/-! ### zigzag -/

theorem zz_nonneg (v : BitVec 64) (h : v < 0x8000000000000000#64) : encodeZigZag64 v = v <<< 1 := by
  unfold encodeZigZag64; bv_decide

theorem zz_neg (v : BitVec 64) (h : ¬ v < 0x8000000000000000#64) : encodeZigZag64 v = ~~~ (v <<< 1) := by
  unfold encodeZigZag64; bv_decide

theorem zigzag_spec (i : Int) (h1 : -(2:Int)^63 ≤ i) (h2 : i < (2:Int)^63) :
    (encodeZigZag64 (BitVec.ofInt 64 i)).toNat = Spec.Protobuf.zigzag i := by
  have hv : (BitVec.ofInt 64 i).toNat = (i % 2 ^ 64).toNat := BitVec.toNat_ofInt ..
  generalize BitVec.ofInt 64 i = v at hv
  simp only [Int.reducePow] at h1 h2
  simp only [Int.reducePow] at hv
  unfold Spec.Protobuf.zigzag
  by_cases hi : i ≥ 0
  · have hlt : v < 0x8000000000000000#64 := by
      rw [BitVec.lt_def]; simp only [BitVec.toNat_ofNat, Nat.reducePow, Nat.reduceMod]; omega
    rw [zz_nonneg v hlt, BitVec.toNat_shiftLeft, Nat.shiftLeft_eq]
    simp only [hi, if_true, Nat.reducePow]
    omega
  · have hlt : ¬ v < 0x8000000000000000#64 := by
      rw [BitVec.lt_def]; simp only [BitVec.toNat_ofNat, Nat.reducePow, Nat.reduceMod]; omega
    rw [zz_neg v hlt, BitVec.toNat_not, BitVec.toNat_shiftLeft, Nat.shiftLeft_eq]
    simp only [hi, if_false, Nat.reducePow]
    omega

end Enc.Lemmas.ProtoVarint
