import Enc.Spec.Json.DecAnySpec
import Enc.Lemmas.JsonGrammar
/-!
# C02 (decode into `any`), part 0: unfolding lemmas for the value-level grammar `valueV / elementsV / membersV`
(literal-byte patterns turned into `if`s, same shapes as `value_succ_cons` … of JsonGrammar.lean)
-/
namespace Enc.Lemmas.JsonDecAnyBase
open Enc Enc.Spec.Json Enc.Lemmas.JsonGrammar
open Enc.Model.Json (GV GVs GMs DynKind DynFlags)

theorem valueV_zero (fl : DynFlags) (d : Nat) (b : Bytes) : valueV fl 0 d b = none := by simp [valueV]
theorem valueV_nil (fl : DynFlags) (f d : Nat) : valueV fl f d [] = none := by cases f <;> simp [valueV]

/-- the number leaf -/
def numLeaf (fl : DynFlags) (b r' : Bytes) : GV × Bool × Bytes :=
  (GV.num (consumed b r') (dynKindOf fl (consumed b r')),
    dynKindOf fl (consumed b r') == .f64 && floatOverflows (consumed b r'), r')

theorem valueV_succ_cons (fl : DynFlags) (f d : Nat) (c : UInt8) (r : Bytes) :
    valueV fl (f + 1) d (c :: r) =
      if c == 0x7b then
        (if d == 0 then none else (membersV fl f (d - 1) (ws r) true).map fun x => (GV.obj (mapOf x.1), x.2))
      else if c == 0x5b then
        (if d == 0 then none else (elementsV fl f (d - 1) (ws r) true).map fun x => (GV.arr x.1, x.2))
      else if c == 0x22 then (string (c :: r)).map fun r' => (GV.str (unquoteLit (consumed (c :: r) r')), false, r')
      else if c == 0x6e then (lit [0x6e, 0x75, 0x6c, 0x6c] (c :: r)).map fun r' => (GV.null, false, r')
      else if c == 0x74 then (lit [0x74, 0x72, 0x75, 0x65] (c :: r)).map fun r' => (GV.bool true, false, r')
      else if c == 0x66 then (lit [0x66, 0x61, 0x6c, 0x73, 0x65] (c :: r)).map fun r' => (GV.bool false, false, r')
      else (number (c :: r)).map (numLeaf fl (c :: r)) := by
  rw [valueV]; rfl

theorem elementsV_zero (fl : DynFlags) (d : Nat) (b : Bytes) (first : Bool) : elementsV fl 0 d b first = none := by
  simp [elementsV]
theorem elementsV_nil (fl : DynFlags) (f d : Nat) (first : Bool) : elementsV fl f d [] first = none := by
  cases f <;> simp [elementsV]

theorem elementsV_succ_cons (fl : DynFlags) (f d : Nat) (c : UInt8) (r : Bytes) (first : Bool) :
    elementsV fl (f + 1) d (c :: r) first =
      if c == 0x5d then some (.nil, false, r)
      else
        (if first then some (c :: r) else (if c == 0x2c then some (ws r) else none)).bind fun b2 =>
          if isClose b2 then none
          else (valueV fl f d b2).bind fun x =>
            (elementsV fl f d (ws x.2.2) false).map fun y => (GVs.cons x.1 y.1, x.2.1 || y.2.1, y.2.2) := by
  rw [elementsV]
  split
  · rfl
  · show Option.bind _ _ = Option.bind _ _
    congr 1
    funext b2
    match b2 with
    | [] => rfl
    | x :: t =>
      by_cases hx : x = 0x5d
      · subst hx; rfl
      · have hx' : (x == 0x5d) = false := by simpa using hx
        simp only [isClose, hx', Bool.false_eq_true, if_false]
        split
        · rename_i t' e; cases e; exact absurd rfl hx
        · rfl

theorem membersV_zero (fl : DynFlags) (d : Nat) (b : Bytes) (first : Bool) : membersV fl 0 d b first = none := by
  simp [membersV]
theorem membersV_nil (fl : DynFlags) (f d : Nat) (first : Bool) : membersV fl f d [] first = none := by
  cases f <;> simp [membersV]

/-- the `":" ws value …` part of a member, value-level -/
def colonThenV {α : Type} (k : Bytes → Option α) (b : Bytes) : Option α :=
  match b with
  | [] => none
  | x :: r3 => if x == 0x3a then k r3 else none

theorem colonThenV_some {α : Type} {k : Bytes → Option α} {b : Bytes} {y : α} (h : colonThenV k b = some y) :
    ∃ r3, b = 0x3a :: r3 ∧ k r3 = some y := by
  cases b with
  | nil => cases h
  | cons x t =>
    simp only [colonThenV] at h
    split at h
    · rename_i hx; have : x = 0x3a := by simpa using hx
      subst this; exact ⟨t, rfl, h⟩
    · cases h

theorem membersV_succ_cons (fl : DynFlags) (f d : Nat) (c : UInt8) (r : Bytes) (first : Bool) :
    membersV fl (f + 1) d (c :: r) first =
      if c == 0x7d then some ([], false, r)
      else
        (if first then some (c :: r) else (if c == 0x2c then some (ws r) else none)).bind fun b2 =>
          (string b2).bind fun r2 =>
            colonThenV (fun r3 => (valueV fl f d (ws r3)).bind fun x =>
              (membersV fl f d (ws x.2.2) false).map fun y =>
                ((unquoteLit (consumed b2 r2), x.1) :: y.1, x.2.1 || y.2.1, y.2.2)) (ws r2) := by
  rw [membersV]
  split
  · rfl
  · show Option.bind _ _ = Option.bind _ _
    congr 1
    funext b2
    congr 1
    funext r2
    match ws r2 with
    | [] => rfl
    | x :: t =>
      by_cases hx : x = 0x3a
      · subst hx; rfl
      · have hx' : (x == 0x3a) = false := by simpa using hx
        simp only [colonThenV, hx', Bool.false_eq_true, if_false]
        split
        · rename_i t' e; cases e; exact absurd rfl hx
        · rfl

end Enc.Lemmas.JsonDecAnyBase
