import Enc.Model.Json.Fields
import Enc.Spec.Json.Fields
/-!
# Field resolution, part 1: the tag parsing of appendStructFields against the one of encoding/json

`action` (model: strings.Split, `parts[0]`, `len(parts) == 1`, options searched in `parts[1:]`) and `role`
(specification: strings.Cut, tagOptions.Contains) treat a field the same way: same skip / embed / serialise decision,
same key, same "named by a tag" flag, same options (`action_eq_role`). The only proviso: the Go name is not `-`
(the code compares the NAME with `-`, encoding/json the whole tag; no Go identifier is `-`).
(Before the repair of finding jsonAnonymousTagMismatch the two differed on a non-empty invalid tag name.)
-/
namespace Enc.Lemmas.JsonFields
open Enc Enc.Model.Json.Fields Enc.Spec.Json.Fields

/-! ### strings.Split vs strings.Cut -/

theorem splitComma_ne_nil : ∀ t, splitComma t ≠ []
  | [] => by simp [splitComma]
  | c :: r => by
    unfold splitComma
    split
    · simp
    · split <;> simp

theorem splitComma_cons (c : UInt8) (r : Bytes) :
    splitComma (c :: r) = if c = 0x2c then [] :: splitComma r
      else (c :: (splitComma r).headD []) :: (splitComma r).tail := by
  rw [splitComma]
  by_cases h : c = 0x2c
  · simp [h]
  · have h' : (c == 0x2c) = false := by simpa using h
    simp only [h', if_neg h]
    cases hs : splitComma r with
    | nil => exact absurd hs (splitComma_ne_nil r)
    | cons a b => simp

theorem split_head_eq_cut : ∀ t, (splitComma t).headD [] = (cutComma t).1
  | [] => rfl
  | c :: r => by
    rw [splitComma_cons, cutComma]
    by_cases h : c = 0x2c
    · simp [h]
    · simp only [if_neg h, List.headD_cons]
      rw [split_head_eq_cut r]

theorem split_tail_eq_cut : ∀ t, (splitComma t).tail = match (cutComma t).2 with | none => [] | some s => splitComma s
  | [] => rfl
  | c :: r => by
    rw [splitComma_cons, cutComma]
    by_cases h : c = 0x2c
    · simp [h]
    · simp only [if_neg h, List.tail_cons]
      rw [split_tail_eq_cut r]

theorem cut_none_fst : ∀ t, (cutComma t).2 = none → (cutComma t).1 = t
  | [], _ => rfl
  | c :: r, h => by
    rw [cutComma] at h ⊢
    by_cases hc : c = 0x2c
    · simp [hc] at h
    · simp only [if_neg hc] at h ⊢
      rw [cut_none_fst r h]

theorem hasOptFrom_eq (o : Bytes) : ∀ (s cur : Bytes),
    hasOptFrom o cur s = (decide (cur.reverse ++ (splitComma s).headD [] = o) || (splitComma s).tail.contains o)
  | [], cur => by simp [hasOptFrom, splitComma]
  | c :: r, cur => by
    rw [hasOptFrom, splitComma_cons]
    by_cases h : c = 0x2c
    · simp only [if_pos h, List.headD_cons, List.tail_cons, List.append_nil]
      rw [hasOptFrom_eq o r []]
      cases hs : splitComma r with
      | nil => exact absurd hs (splitComma_ne_nil r)
      | cons a b =>
        simp only [List.reverse_nil, List.nil_append, List.headD_cons, List.tail_cons, List.contains_cons]
        congr 2
        by_cases hab : a = o
        · simp [hab]
        · have : ¬ o = a := fun e => hab e.symm
          simp [hab, this]
    · simp only [if_neg h, List.headD_cons, List.tail_cons]
      rw [hasOptFrom_eq o r (c :: cur)]
      simp [List.reverse_cons, List.append_assoc]

theorem tail_contains_eq_hasOpt (t o : Bytes) : (splitComma t).tail.contains o = hasOpt (cutComma t).2 o := by
  rw [split_tail_eq_cut]
  cases h : (cutComma t).2 with
  | none => simp [hasOpt]
  | some s =>
    simp only [hasOpt]
    rw [hasOptFrom_eq]
    cases hs : splitComma s with
    | nil => exact absurd hs (splitComma_ne_nil s)
    | cons a b =>
      simp only [List.reverse_nil, List.nil_append, List.headD_cons, List.tail_cons, List.contains_cons]
      congr 1
      by_cases hab : a = o
      · simp [hab]
      · have : ¬ o = a := fun e => hab e.symm
        simp [hab, this]

theorem split_length_one (t : Bytes) : ((splitComma t).length == 1) = (cutComma t).2.isNone := by
  have h := split_tail_eq_cut t
  cases hs : splitComma t with
  | nil => exact absurd hs (splitComma_ne_nil t)
  | cons a b =>
    rw [hs] at h
    simp only [List.tail_cons] at h
    cases hc : (cutComma t).2 with
    | none => rw [hc] at h; simp [h]
    | some s =>
      rw [hc] at h
      have : b ≠ [] := h ▸ splitComma_ne_nil s
      cases b with
      | nil => exact absurd rfl this
      | cons _ _ => simp

/-! ### the allowed tag-name characters -/

theorem validChar_eq (c : UInt8) : (tagPunct.contains c || isAsciiLetter c || isAsciiDigit c) = validTagChar c := by
  have key : ∀ n, n < 256 → (tagPunct.contains (UInt8.ofNat n) || isAsciiLetter (UInt8.ofNat n) || isAsciiDigit (UInt8.ofNat n))
      = validTagChar (UInt8.ofNat n) := by decide +kernel
  have := key c.toNat c.toNat_lt
  simpa using this

theorem isValidTag_eq (s : Bytes) : isValidTag s = validTagName s := by
  unfold isValidTag validTagName
  congr 1
  · cases s <;> rfl
  · congr 1
    funext c
    exact validChar_eq c

/-! ### the decision taken for one field -/

def toAction : Role → Action
  | .ignored => .skip
  | .embedded => .embed
  | .candidate n t o s => .direct n t o s

/-- `action` written with strings.Cut -/
theorem action_cut (g tag : Bytes) (an ex st : Bool) :
    action g tag an ex st =
      if !ex && !(an && st) then .skip
      else
        let n := (cutComma tag).1
        let name := if n ≠ [] then n else g
        if name == bDash && (cutComma tag).2.isNone then .skip
        else
          let valid := validTagName name
          let name' := if valid then name else g
          let tg := decide (n ≠ []) && valid
          let om := hasOpt (cutComma tag).2 bOmitempty
          let so := hasOpt (cutComma tag).2 bString
          if an && !tg then
            if st then .embed else .direct name' tg om so
          else .direct name' tg om so := by
  unfold action
  simp only [split_head_eq_cut, split_length_one, tail_contains_eq_hasOpt, isValidTag_eq]

theorem dash_iff (g tag : Bytes) (hg : g ≠ bDash) :
    ((if (cutComma tag).1 ≠ [] then (cutComma tag).1 else g) == bDash && (cutComma tag).2.isNone) = decide (tag = [0x2d]) := by
  by_cases ht : tag = [0x2d]
  · subst ht
    have h : cutComma [0x2d] = ([0x2d], none) := by decide
    rw [h]; simp [bDash]
  · simp only [ht, decide_false]
    by_cases hn : (cutComma tag).1 = []
    · simp only [hn, ne_eq, not_true_eq_false, if_false]
      have : (g == bDash) = false := by simpa using hg
      simp [this]
    · simp only [ne_eq, hn, not_false_eq_true, if_true]
      cases ho : (cutComma tag).2 with
      | some s => simp
      | none =>
        have := cut_none_fst tag ho
        rw [this]
        have : (tag == bDash) = false := by simpa [bDash] using ht
        simp [this]

/-- MAIN of this part: the model and the specification take the same decision for a field — skip, embed, or member
with this key, this "named by a tag" flag and these options — whenever the Go name is not `-` -/
theorem action_eq_role (g tag : Bytes) (an ex st : Bool) (hg : g ≠ bDash) :
    action g tag an ex st = toAction (role g tag an ex st) := by
  rw [action_cut]
  unfold role
  simp only [dash_iff g tag hg]
  by_cases ht : tag = [0x2d]
  · subst ht
    cases an <;> cases ex <;> cases st <;> simp [toAction]
  · simp only [ht, decide_false, if_false]
    by_cases hn : (cutComma tag).1 = []
    · have hv : validTagName [] = false := rfl
      simp only [hn, hv]
      cases an <;> cases ex <;> cases st <;> simp [toAction]
    · cases hv : validTagName (cutComma tag).1 <;>
        cases an <;> cases ex <;> cases st <;> simp_all [toAction]

end Enc.Lemmas.JsonFields
