import Enc.Lemmas.TokAccStr
import Enc.Lemmas.TokAccNum
import Enc.Lemmas.TokSpec
/-!
# C17 accessors: every token the tokenizer emits (on ANY input) is one of four shapes, and on each shape the accessors
report what the specification says
-/
set_option linter.unusedSimpArgs false
namespace Enc.Lemmas.TokAcc
open Enc Enc.Model.Json Enc.Model.Json.Token Enc.Lemmas.JsonString Enc.Lemmas.JsonDecString Enc.Lemmas.JsonDecInt
open Enc.Lemmas.TokSpec (scalarK delimK mkTok next_err next_nil next_cons skipSpacesN_suffix)
open Enc.Spec.Json (plainInner innerOf)

def nullB : Bytes := [0x6e, 0x75, 0x6c, 0x6c]
def trueB : Bytes := [0x74, 0x72, 0x75, 0x65]
def falseB : Bytes := [0x66, 0x61, 0x6c, 0x73, 0x65]

def isDelimByte (c : UInt8) : Bool := c == 0x7b || c == 0x7d || c == 0x5b || c == 0x5d || c == 0x3a || c == 0x2c

def delimKind (c : UInt8) : Option Kind := if c == 0x7b then some .object else if c == 0x5b then some .array else none

/-- the four shapes of an emitted token -/
inductive TokOK (fl : PFlags) (t : Tok) : Prop
  | delim : isDelimByte t.delim = true → t.value = [t.delim] → t.kind = delimKind t.delim → TokOK fl t
  | str (k : Kind) (s : Bytes) : t.delim = 0 → t.kind = some k → StrLit fl t.value s →
      ((k = .unescaped ∧ plainInner s = true) ∨ (k = .string ∧ plainInner s = false)) → TokOK fl t
  | num (k : Kind) : t.delim = 0 → t.kind = some k → NumLit k t.value → TokOK fl t
  | lit (k : Kind) : t.delim = 0 → t.kind = some k →
      ((t.value = nullB ∧ k = .null) ∨ (t.value = trueB ∧ k = .true_) ∨ (t.value = falseB ∧ k = .false_)) → TokOK fl t

theorem take_consumed (v rest : Bytes) : (v ++ rest).take ((v ++ rest).length - rest.length) = v := by
  simp

theorem qsound_prefix {fl : PFlags} {a b : Bytes} (h : QSound fl (a ++ b)) : QSound fl a := by
  intro p q e
  exact h p (q ++ b) (by rw [e]; simp)

theorem scalarK_some {s : St} {json : Bytes} {r : PR} {t : Tok} {s' : St} (h : scalarK s json r = (some t, s')) :
    ∃ k r', r = .ok k r' ∧ t.delim = 0 ∧ t.kind = some k ∧ t.value = json.take (json.length - r'.length) ∧
      s'.fl = s.fl ∧ s'.json = r' := by
  cases r with
  | err e => simp [scalarK] at h
  | ok k r' =>
    simp only [scalarK] at h
    split at h
    · simp at h
    · simp only [Prod.mk.injEq, Option.some.injEq] at h
      obtain ⟨rfl, rfl⟩ := h
      exact ⟨k, r', rfl, rfl, rfl, rfl, rfl, rfl⟩

theorem delimK_some {s : St} {c : UInt8} {rest : Bytes} {t : Tok} {s' : St} (h : delimK s c rest = (some t, s')) :
    t.delim = c ∧ t.value = [c] ∧ t.kind = delimKind c ∧ s'.fl = s.fl ∧ s'.json = rest := by
  simp only [delimK] at h
  by_cases h1 : (c == 0x7b) = true
  · simp only [h1, if_true, Prod.mk.injEq, Option.some.injEq] at h
    obtain ⟨rfl, rfl⟩ := h
    simp [mkTok, delimKind, h1]
  · simp only [h1, Bool.false_eq_true, if_false] at h
    by_cases h2 : (c == 0x5b) = true
    · simp only [h2, if_true, Prod.mk.injEq, Option.some.injEq] at h
      obtain ⟨rfl, rfl⟩ := h
      simp [mkTok, delimKind, h1, h2]
    · simp only [h2, Bool.false_eq_true, if_false] at h
      have hk : delimKind c = none := by simp [delimKind, h1, h2]
      repeat' split at h
      all_goals first
        | (simp only [Prod.mk.injEq, Option.some.injEq] at h
           obtain ⟨rfl, rfl⟩ := h
           simp [mkTok, hk])
        | simp at h

theorem hasPrefix_split (b l : Bytes) (h : hasPrefix b l = true) : b = l ++ b.drop l.length := by
  have : l <+: b := List.isPrefixOf_iff_prefix.mp h
  obtain ⟨t, rfl⟩ := this
  simp

theorem parseLit_some {b l : Bytes} {k k' : Kind} {r' : Bytes} (h : parseLit b l k = .ok k' r') :
    k' = k ∧ b = l ++ r' := by
  unfold parseLit at h
  split at h
  · rename_i hp
    cases h
    exact ⟨rfl, hasPrefix_split b l hp⟩
  · split at h <;> cases h

/-- one successful `Next` under sound flags: the token has one of the four shapes, and the flags stay sound -/
theorem next_ok (s : St) (t : Tok) (s' : St) (hq : QSound s.fl (skipSpacesN s.json)) (h : next s = (some t, s')) :
    TokOK s.fl t ∧ s'.fl = s.fl ∧ QSound s'.fl (skipSpacesN s'.json) := by
  cases he : s.err with
  | true => rw [next_err s he] at h; simp at h
  | false =>
    cases hj : skipSpacesN s.json with
    | nil => rw [next_nil s he hj] at h; simp at h
    | cons c rest =>
      rw [hj] at hq
      rw [next_cons s c rest he hj] at h
      have fin : ∀ (r' : Bytes), r' <:+ (c :: rest) → s'.fl = s.fl → s'.json = r' →
          s'.fl = s.fl ∧ QSound s'.fl (skipSpacesN s'.json) := by
        intro r' hsuf hfl hjs
        refine ⟨hfl, ?_⟩
        rw [hfl, hjs]
        exact (hq.suffix hsuf).suffix (skipSpacesN_suffix r')
      split at h
      · -- string
        obtain ⟨k, r', hp, hd, hk, hv, hfl, hjs⟩ := scalarK_some h
        obtain ⟨s0, hb, hI, hkind⟩ := parseString_ok' s.fl (c :: rest) k r' hq hp
        have hval : t.value = 0x22 :: (s0 ++ [0x22]) := by
          rw [hv, hb]
          have := take_consumed (0x22 :: (s0 ++ [0x22])) r'
          simpa using this
        have hsplit : c :: rest = (0x22 :: (s0 ++ [0x22])) ++ r' := by rw [hb]; simp
        refine ⟨.str k s0 hd hk ⟨hval, hI, ?_⟩ hkind, fin r' ⟨_, hsplit.symm⟩ hfl hjs⟩
        rw [hval]
        exact qsound_prefix (hsplit ▸ hq)
      · split at h
        · obtain ⟨k, r', hp, hd, hk, hv, hfl, hjs⟩ := scalarK_some h
          obtain ⟨rfl, hb⟩ := parseLit_some hp
          have hval : t.value = nullB := by rw [hv, hb]; exact take_consumed _ _
          exact ⟨.lit _ hd hk (Or.inl ⟨hval, rfl⟩), fin r' ⟨_, hb.symm⟩ hfl hjs⟩
        · split at h
          · obtain ⟨k, r', hp, hd, hk, hv, hfl, hjs⟩ := scalarK_some h
            obtain ⟨rfl, hb⟩ := parseLit_some hp
            have hval : t.value = trueB := by rw [hv, hb]; exact take_consumed _ _
            exact ⟨.lit _ hd hk (Or.inr (Or.inl ⟨hval, rfl⟩)), fin r' ⟨_, hb.symm⟩ hfl hjs⟩
          · split at h
            · obtain ⟨k, r', hp, hd, hk, hv, hfl, hjs⟩ := scalarK_some h
              obtain ⟨rfl, hb⟩ := parseLit_some hp
              have hval : t.value = falseB := by rw [hv, hb]; exact take_consumed _ _
              exact ⟨.lit _ hd hk (Or.inr (Or.inr ⟨hval, rfl⟩)), fin r' ⟨_, hb.symm⟩ hfl hjs⟩
            · split at h
              · obtain ⟨k, r', hp, hd, hk, hv, hfl, hjs⟩ := scalarK_some h
                obtain ⟨v, hb, hn⟩ := parseNumber_lit _ _ _ hp
                have hval : t.value = v := by rw [hv, hb]; exact take_consumed _ _
                exact ⟨.num k hd hk (hval ▸ hn), fin r' ⟨_, hb.symm⟩ hfl hjs⟩
              · split at h
                · rename_i hdel
                  obtain ⟨hd, hv, hk, hfl, hjs⟩ := delimK_some h
                  refine ⟨.delim ?_ (by rw [hv, hd]) (by rw [hk, hd]), fin rest (List.suffix_cons _ _) hfl hjs⟩
                  rw [hd]; exact hdel
                · simp at h

/-- every token emitted by the iteration, on every input, has one of the four shapes -/
theorem run_ok (fl : PFlags) : ∀ (n : Nat) (s : St) (acc : List Tok), s.fl = fl → QSound fl (skipSpacesN s.json) →
    (∀ t ∈ acc, TokOK fl t) → ∀ t ∈ (run n s acc).1, TokOK fl t := by
  intro n
  induction n with
  | zero => intro s acc _ _ ha t ht; simp only [run, List.mem_reverse] at ht; exact ha t ht
  | succ n ih =>
    intro s acc hfl hq ha t ht
    rw [run] at ht
    cases hn : next s with
    | mk o s' =>
      rw [hn] at ht
      cases o with
      | none => simp only [List.mem_reverse] at ht; exact ha t ht
      | some t0 =>
        simp only at ht
        obtain ⟨hok, hfl', hq'⟩ := next_ok s t0 s' (hfl ▸ hq) hn
        rw [hfl] at hok hfl'
        exact ih s' (t0 :: acc) hfl' (hfl' ▸ hq') (by
          intro x hx
          rcases List.mem_cons.mp hx with rfl | hx
          · exact hok
          · exact ha x hx) t ht

theorem tokens_ok (b : Bytes) : ∀ t ∈ (tokens b).1, TokOK (internalParseFlags b) t := by
  apply run_ok (internalParseFlags b) _ (newSt b) [] rfl
  · have := JsonValid.internalParseFlags_qsound b
    rw [JsonWs.skipSpaces_eq_ws] at this
    show QSound _ (skipSpacesN b)
    rw [JsonWs.skipSpacesN_eq_ws]; exact this
  · intro t ht; cases ht

end Enc.Lemmas.TokAcc

/-! ## what the accessors report on each shape -/
namespace Enc.Lemmas.TokAcc
open Enc Enc.Model.Json Enc.Model.Json.Token Enc.Lemmas.JsonString Enc.Lemmas.JsonDecString Enc.Lemmas.JsonDecInt
open Enc.Spec.Json (plainInner innerOf kindOf int64Of uint64Of isStrKind rawFlagsOf stringOf unquoteStd digit)

/-- everything the accessors report for a token, against the specification evaluated on (delim, value) -/
structure AccSpec (fl : PFlags) (t : Tok) : Prop where
  kind : tokKind t = kindOf t.delim t.value
  int : (tokInt t).toInt = int64Of t.delim t.value
  uint : (tokUint t).toNat = uint64Of t.delim t.value
  str : tokString fl t = stringOf t.delim t.value
  unq : ∀ p, rawAppendUnquote t.value p =
      if isStrKind (kindOf t.delim t.value) then .ok (p ++ stringOf t.delim t.value) else .panic "syntax"
  raw : [rawString t.value, rawNull t.value, rawTrue t.value, rawFalse t.value, rawNumber t.value]
      = rawFlagsOf (kindOf t.delim t.value)

theorem parseString_nonquote (fl : PFlags) (v : Bytes) (h : v.head? ≠ some 0x22) : ∃ e, parseString fl v = .err e := by
  match v, h with
  | [], _ => exact ⟨true, by simp [parseString]⟩
  | [q], _ => exact ⟨true, by simp [parseString]⟩
  | q :: c :: r, h =>
    have hq : q ≠ 0x22 := by simpa using h
    exact ⟨false, by simp [parseString, hq]⟩

theorem unquote_nonquote (fl : PFlags) (v : Bytes) (h : v.head? ≠ some 0x22) : parseStringUnquote fl v = none := by
  obtain ⟨e, he⟩ := parseString_nonquote fl v h
  simp [parseStringUnquote, he]

theorem tokString_nonstr (fl : PFlags) (t : Tok) (hk : tokKind t ≠ Gen.c_json_Unescaped) (h : t.value.head? ≠ some 0x22) :
    tokString fl t = [] := by
  have : (tokKind t == Gen.c_json_Unescaped) = false := by simpa using hk
  simp [tokString, this, unquote_nonquote fl t.value h]

theorem rawUnq_nonstr (v p : Bytes) (h : v.head? ≠ some 0x22) : rawAppendUnquote v p = .panic "syntax" := by
  simp [rawAppendUnquote, unquote_nonquote {} v h]

theorem tokKind_some (t : Tok) (k : Kind) (h : t.kind = some k) : tokKind t = k.code := by simp [tokKind, h]

theorem numlit_head {k : Kind} {v : Bytes} (h : NumLit k v) : ∃ x r, v = x :: r ∧ (digit x = true ∨ x = 0x2d) := by
  cases h with
  | uint _ hd =>
    match v, hd with
    | [], hd => exact absurd rfl hd.ne
    | x :: r, hd => exact ⟨x, r, rfl, Or.inl (hd.all x (by simp))⟩
  | int d _ => exact ⟨0x2d, d, rfl, Or.inr rfl⟩
  | floatPos d c tl hd _ =>
    match d, hd with
    | [], hd => exact absurd rfl hd.ne
    | x :: r, hd => exact ⟨x, r ++ c :: tl, rfl, Or.inl (hd.all x (by simp))⟩
  | floatNeg d c tl _ _ => exact ⟨0x2d, _, rfl, Or.inr rfl⟩

theorem numlit_code {k : Kind} {v : Bytes} (h : NumLit k v) : k.code = 5 ∨ k.code = 6 ∨ k.code = 7 := by
  cases h
  · exact Or.inl rfl
  · exact Or.inr (Or.inl rfl)
  · exact Or.inr (Or.inr rfl)
  · exact Or.inr (Or.inr rfl)

theorem acc_num (fl : PFlags) (t : Tok) (k : Kind) (hd : t.delim = 0) (hk : t.kind = some k) (hn : NumLit k t.value) :
    AccSpec fl t := by
  have hkind : tokKind t = kindOf t.delim t.value := by rw [tokKind_some t k hk, hd, kindOf_numlit hn]
  have hcode := numlit_code hn
  have hko : kindOf t.delim t.value = k.code := by rw [← hkind, tokKind_some t k hk]
  have hns : isStrKind (kindOf t.delim t.value) = false := by
    rw [hko]; rcases hcode with h | h | h <;> rw [h] <;> decide
  obtain ⟨x, r, hv, hx⟩ := numlit_head hn
  have hhead : t.value.head? ≠ some 0x22 := by
    rw [hv]; simp only [List.head?_cons, ne_eq, Option.some.injEq]
    rcases hx with hx | hx
    · intro e; subst e; exact absurd hx (by decide)
    · subst hx; decide
  obtain ⟨hi, hu⟩ := num_acc hn t rfl
  refine ⟨hkind, by rw [hd]; exact hi, by rw [hd]; exact hu, ?_, ?_, ?_⟩
  · rw [tokString_nonstr fl t (by rw [hkind, hko]; rcases hcode with h | h | h <;> rw [h] <;> decide) hhead]
    simp [stringOf, hns]
  · intro p; rw [rawUnq_nonstr _ _ hhead]; simp [hns]
  · rw [hko, hv]
    have hdig : (x == 0x2d || isDigit x) = true := by
      rcases hx with hx | hx
      · have : isDigit x = true := hx
        simp [this]
      · subst hx; rfl
    have hq : (x == 0x22) = false ∧ (x == 0x6e) = false ∧ (x == 0x74) = false ∧ (x == 0x66) = false := by
      rcases hx with hx | hx
      · obtain ⟨a, b, c, e, _⟩ := digit_head_codes hx; exact ⟨a, b, e, c⟩
      · subst hx; decide
    simp only [rawString, rawNull, rawTrue, rawFalse, rawNumber, firstIs, hq.1, hq.2.1, hq.2.2.1, hq.2.2.2, hdig]
    rcases hcode with h | h | h <;> rw [h] <;> decide

theorem acc_str (fl : PFlags) (t : Tok) (k : Kind) (s : Bytes) (hd : t.delim = 0) (hk : t.kind = some k)
    (hl : StrLit fl t.value s)
    (hkind : (k = .unescaped ∧ plainInner s = true) ∨ (k = .string ∧ plainInner s = false)) : AccSpec fl t := by
  have hv := hl.eq
  have hin : innerOf t.value = s := by rw [hv]; exact innerOf_lit s
  have hko : kindOf t.delim t.value = k.code := by
    rw [hd]
    have h0 : ((0 : UInt8) == 0x7b) = false := by decide
    have h1 : ((0 : UInt8) == 0x5b) = false := by decide
    have h2 : ((0 : UInt8) != 0) = false := by decide
    have : kindOf 0 t.value = if plainInner (innerOf t.value) then 9 else 8 := by
      rw [hv]; simp only [kindOf, h0, h1, h2, Bool.false_eq_true, if_false, beq_self_eq_true, if_true]
    rw [this, hin]
    rcases hkind with ⟨rfl, hp⟩ | ⟨rfl, hp⟩ <;> rw [hp] <;> rfl
  have hstr : isStrKind (kindOf t.delim t.value) = true := by
    rw [hko]; rcases hkind with ⟨rfl, _⟩ | ⟨rfl, _⟩ <;> decide
  have hspec : stringOf t.delim t.value = unquoteStd (s.length + 1) s := by
    simp only [stringOf, hstr, if_true, Spec.Json.unquote, hin]
  have hparse := parseStringUnquote_lit hl
  have hparse0 : parseStringUnquote {} t.value = some (unquoteStd (s.length + 1) s, []) :=
    parseStringUnquote_lit (fl := {}) ⟨hl.eq, hl.inner, qsound_empty _⟩
  have hI : parseInt t.value = .err := by
    rw [hv, parseInt_pos _ (by simp)]
    have : dpre (0x22 :: (s ++ [0x22])) = [] := by simp [dpre, show digit 0x22 = false by decide]
    have hz : lzb (0x22 :: (s ++ [0x22])) = false := by cases s <;> simp [lzb]
    simp [this, hz]
  have hU : parseUint t.value = .err := by
    rw [hv, parseUint_eq]
    have : dpre (0x22 :: (s ++ [0x22])) = [] := by simp [dpre, show digit 0x22 = false by decide]
    have hz : lzb (0x22 :: (s ++ [0x22])) = false := by cases s <;> simp [lzb]
    simp [this, hz]
  have hnot56 : ¬ (k.code = 5 ∨ k.code = 6) := by
    rcases hkind with ⟨rfl, _⟩ | ⟨rfl, _⟩ <;> decide
  refine ⟨by rw [tokKind_some t k hk, hko], ?_, ?_, ?_, ?_, ?_⟩
  · rw [tokInt_def, hI]
    simp only [int64Of, hko]
    rw [if_neg (fun h => hnot56 h.1)]; rfl
  · rw [tokUint_def, hU]
    simp only [uint64Of, hko]
    rw [if_neg (fun h => hnot56 (Or.inl h.1))]; rfl
  · rw [hspec]
    unfold tokString
    rw [tokKind_some t k hk]
    rcases hkind with ⟨rfl, hp⟩ | ⟨rfl, _⟩
    · have hlen : t.value.length > 1 := by rw [hv]; simp
      have hc : (Kind.unescaped.code == Gen.c_json_Unescaped) = true := by decide
      simp only [hc, hlen, decide_true, Bool.and_self, if_true]
      have : innerOf t.value = (t.value.drop 1).take (t.value.length - 2) := rfl
      rw [← this, hin, std_ascii_id s (plain_ascii hp) _ (Nat.le_succ _)]
    · have hc : (Kind.string.code == Gen.c_json_Unescaped) = false := by decide
      simp only [hc, Bool.false_and, Bool.false_eq_true, if_false, hparse]
  · intro p
    simp only [rawAppendUnquote, hparse0, hstr, if_true, hspec]
    rfl
  · rw [hko, hv]
    simp only [rawString, rawNull, rawTrue, rawFalse, rawNumber, firstIs]
    rcases hkind with ⟨rfl, _⟩ | ⟨rfl, _⟩ <;> decide

theorem acc_delim (fl : PFlags) (t : Tok) (h1 : isDelimByte t.delim = true) (h2 : t.value = [t.delim])
    (h3 : t.kind = delimKind t.delim) : AccSpec fl t := by
  have hc : t.delim = 0x7b ∨ t.delim = 0x7d ∨ t.delim = 0x5b ∨ t.delim = 0x5d ∨ t.delim = 0x3a ∨ t.delim = 0x2c := by
    simp only [isDelimByte, Bool.or_eq_true, beq_iff_eq] at h1
    rcases h1 with ((((h | h) | h) | h) | h) | h <;> simp [h]
  have hhead : t.value.head? ≠ some 0x22 := by
    rw [h2]; rcases hc with h | h | h | h | h | h <;> rw [h] <;> decide
  have hkind : tokKind t = kindOf t.delim t.value := by
    simp only [tokKind, h3, h2]
    rcases hc with h | h | h | h | h | h <;> rw [h] <;> rfl
  have hko : kindOf t.delim t.value = 32 ∨ kindOf t.delim t.value = 16 ∨ kindOf t.delim t.value = 0 := by
    rw [h2]; rcases hc with h | h | h | h | h | h <;> rw [h] <;> decide
  have hns : isStrKind (kindOf t.delim t.value) = false := by
    rcases hko with h | h | h <;> rw [h] <;> decide
  refine ⟨hkind, ?_, ?_, ?_, ?_, ?_⟩
  · rw [tokInt_def, h2]; rcases hc with h | h | h | h | h | h <;> rw [h] <;> decide
  · rw [tokUint_def, h2]; rcases hc with h | h | h | h | h | h <;> rw [h] <;> decide
  · rw [tokString_nonstr fl t (by rw [hkind]; rcases hko with h | h | h <;> rw [h] <;> decide) hhead]
    simp [stringOf, hns]
  · intro p; rw [rawUnq_nonstr _ _ hhead]; simp [hns]
  · rw [h2]; rcases hc with h | h | h | h | h | h <;> rw [h] <;> decide

theorem acc_lit (fl : PFlags) (t : Tok) (k : Kind) (hd : t.delim = 0) (hk : t.kind = some k)
    (hv : (t.value = nullB ∧ k = .null) ∨ (t.value = trueB ∧ k = .true_) ∨ (t.value = falseB ∧ k = .false_)) :
    AccSpec fl t := by
  have hhead : t.value.head? ≠ some 0x22 := by
    rcases hv with ⟨h, _⟩ | ⟨h, _⟩ | ⟨h, _⟩ <;> rw [h] <;> decide
  have hkind : tokKind t = kindOf t.delim t.value := by
    rw [tokKind_some t k hk, hd]
    rcases hv with ⟨h, rfl⟩ | ⟨h, rfl⟩ | ⟨h, rfl⟩ <;> rw [h] <;> rfl
  have hko : kindOf t.delim t.value = 1 ∨ kindOf t.delim t.value = 2 ∨ kindOf t.delim t.value = 3 := by
    rw [hd]; rcases hv with ⟨h, _⟩ | ⟨h, _⟩ | ⟨h, _⟩ <;> rw [h] <;> decide
  have hns : isStrKind (kindOf t.delim t.value) = false := by
    rcases hko with h | h | h <;> rw [h] <;> decide
  refine ⟨hkind, ?_, ?_, ?_, ?_, ?_⟩
  · rw [tokInt_def, hd]; rcases hv with ⟨h, _⟩ | ⟨h, _⟩ | ⟨h, _⟩ <;> rw [h] <;> decide
  · rw [tokUint_def, hd]; rcases hv with ⟨h, _⟩ | ⟨h, _⟩ | ⟨h, _⟩ <;> rw [h] <;> decide
  · rw [tokString_nonstr fl t (by rw [hkind]; rcases hko with h | h | h <;> rw [h] <;> decide) hhead]
    simp [stringOf, hns]
  · intro p; rw [rawUnq_nonstr _ _ hhead]; simp [hns]
  · rw [hd]; rcases hv with ⟨h, _⟩ | ⟨h, _⟩ | ⟨h, _⟩ <;> rw [h] <;> decide

theorem acc_of_ok (fl : PFlags) (t : Tok) (h : TokOK fl t) : AccSpec fl t := by
  cases h with
  | delim h1 h2 h3 => exact acc_delim fl t h1 h2 h3
  | str k s hd hk hl hkind => exact acc_str fl t k s hd hk hl hkind
  | num k hd hk hn => exact acc_num fl t k hd hk hn
  | lit k hd hk hv => exact acc_lit fl t k hd hk hv

/-- **every token the tokenizer emits, on every input**: the accessors report the specified values -/
theorem tokens_acc (b : Bytes) (t : Tok) (ht : t ∈ (tokens b).1) : AccSpec (internalParseFlags b) t :=
  acc_of_ok _ t (tokens_ok b t ht)

/-- the kind codes that occur, and `Kind.Class` on them -/
theorem kindOf_range (d : UInt8) (v : Bytes) : kindOf d v ∈ [0, 1, 2, 3, 5, 6, 7, 8, 9, 16, 32] := by
  unfold kindOf
  repeat' split
  all_goals decide

theorem class_eq (d : UInt8) (v : Bytes) : kindClass (kindOf d v) = Spec.Json.classOfKind (kindOf d v) := by
  have h := kindOf_range d v
  generalize kindOf d v = k at h
  simp only [List.mem_cons, List.mem_nil_iff, or_false] at h
  rcases h with h | h | h | h | h | h | h | h | h | h | h <;> subst h <;> decide

#print axioms tokens_acc
#print axioms class_eq
#print axioms parseString_ok'
#print axioms parseNumber_lit

/-- the observable of one token: everything the accessors report -/
def accView (a : Acc) : Nat × Nat × Bool × Int × Nat × Bytes × Nat × Bytes × List Bool × Option Bytes :=
  (a.kind, a.cls, a.bool, a.int, a.uint, a.floatLit, a.floatBits, a.str, a.rawFlags,
    match a.unquote with | .ok x => some x | _ => none)

/-- the same observable computed by the specification from the token text -/
def specView (d : UInt8) (v : Bytes) : Nat × Nat × Bool × Int × Nat × Bytes × Nat × Bytes × List Bool × Option Bytes :=
  let k := kindOf d v
  (k, Spec.Json.classOfKind k, k == 3, int64Of d v, uint64Of d v, v, 64, stringOf d v, rawFlagsOf k,
    if isStrKind k then some (accPfx ++ stringOf d v) else none)

theorem view_of_spec {fl : PFlags} {t : Tok} (h : AccSpec fl t) : accView (accOf fl t) = specView t.delim t.value := by
  simp only [accView, accOf, specView, tokBool, tokFloatArg, h.kind, h.int, h.uint, h.str, h.raw, h.unq accPfx, class_eq]
  have : (Gen.c_json_True : Nat) = 3 := rfl
  rw [this]
  cases isStrKind (kindOf t.delim t.value) <;> rfl

/-- **valid documents**: the stream of (token, accessor results) the tokenizer yields is the stream the specification
defines — grammar-directed tokens, each with its class and decoded value -/
theorem acc_eq_spec (b : Bytes) (ts : List Spec.Json.STok) (h : Spec.Json.tokensOf b = some ts) :
    (tokens b).1.map (fun t => (t.delim, t.value, accView (accOf (internalParseFlags b) t))) =
      ts.map (fun st => (st.delim, st.value, specView st.delim st.value)) := by
  have h1 : (tokens b).1.map (fun t => (t.delim, t.value, accView (accOf (internalParseFlags b) t))) =
      (tokens b).1.map (fun t => (t.delim, t.value, specView t.delim t.value)) := by
    apply List.map_congr_left
    intro t ht
    rw [view_of_spec (tokens_acc b t ht)]
  rw [h1]
  have h2 := (TokSpec.tokens_spec b ts h).2
  have h3 := congrArg (List.map (fun (p : UInt8 × Bytes × Int × Int × Bool) => (p.1, p.2.1, specView p.1 p.2.1))) h2
  simpa [List.map_map, Function.comp_def] using h3

theorem kind_is_class (b : Bytes) (t : Tok) (ht : t ∈ (tokens b).1) :
    tokKind t = kindOf t.delim t.value ∧ kindClass (tokKind t) = Spec.Json.classOfKind (kindOf t.delim t.value) := by
  have h := (tokens_acc b t ht).kind
  exact ⟨h, by rw [h]; exact class_eq _ _⟩

theorem bool_value (b : Bytes) (t : Tok) (ht : t ∈ (tokens b).1) : tokBool t = (kindOf t.delim t.value == 3) := by
  unfold tokBool; rw [(tokens_acc b t ht).kind]; rfl

#print axioms acc_eq_spec

end Enc.Lemmas.TokAcc
