import Enc.Lemmas.JsonValue
/-!
# JSON (C05), part 5: the flags are sound where it matters, and `Valid` is exactly RFC 8259

* `internalParseFlags_sound` — the flags are computed from the space-skipped input minus trailing white space and are
  sound for that part.
* `qsound_of_trim` — parsing runs on the untrimmed input, but a string body that closes ends with `"`, which is not
  white space, so it lies inside the trimmed part: soundness before every quotation mark (`QSound`) follows.
* `valid_eq_validRFC` — MAIN.
* `valid_eq_validStd` — agreement with encoding/json's depth-limited variant for inputs shorter than the limit.
-/
namespace Enc.Lemmas.JsonValid
open Enc Enc.Model.Json Enc.Lemmas.JsonString Enc.Lemmas.JsonGrammar Enc.Lemmas.JsonValue
open Enc.Lemmas.JsonWs (skipSpaces_eq_ws)

theorem skipRev_split (l : Bytes) :
    ∃ s, l = s ++ trimTrailingSpaces.skipSpacesNRev l ∧ ∀ c ∈ s, isSpace c = true := by
  induction l with
  | nil => exact ⟨[], rfl, by simp⟩
  | cons x r ih =>
    simp only [trimTrailingSpaces.skipSpacesNRev]
    split
    · rename_i hx
      obtain ⟨s, hs, hall⟩ := ih
      refine ⟨x :: s, by rw [List.cons_append, ← hs], ?_⟩
      intro c hc
      rcases List.mem_cons.mp hc with rfl | h
      · exact hx
      · exact hall c h
    · exact ⟨[], rfl, by simp⟩

/-- an input is its trimmed part followed by white space only -/
theorem trim_split (b : Bytes) : ∃ s, b = trimTrailingSpaces b ++ s ∧ ∀ c ∈ s, isSpace c = true := by
  obtain ⟨s, hs, hall⟩ := skipRev_split b.reverse
  refine ⟨s.reverse, ?_, by simpa using hall⟩
  have := congrArg List.reverse hs
  simpa [trimTrailingSpaces] using this

/-- item (5a): the flags computed by `internalParseFlags` are sound for the trimmed, space-skipped input -/
theorem internalParseFlags_sound (b : Bytes) :
    FlagsSound (internalParseFlags b) (trimTrailingSpaces (skipSpaces b)) := by
  refine ⟨?_, ?_⟩
  · intro h
    simpa [internalParseFlags] using h
  · intro h
    exact (validPrint_iff _).mp (by simpa [internalParseFlags] using h)

/-- soundness for the input minus trailing white space is enough: no quotation mark lies in the trailing region -/
theorem qsound_of_trim {fl : PFlags} {t s : Bytes} (ht : FlagsSound fl t) (hs : ∀ c ∈ s, isSpace c = true) :
    QSound fl (t ++ s) := by
  intro p q h
  rcases List.append_eq_append_iff.mp h with ⟨a', hp, hs'⟩ | ⟨c', ht', _⟩
  · have : isSpace 0x22 = true := hs 0x22 (by rw [hs']; simp)
    exact absurd this (by decide)
  · subst ht'; exact ht.sublist (List.sublist_append_left _ _)

theorem internalParseFlags_qsound (b : Bytes) : QSound (internalParseFlags b) (skipSpaces b) := by
  obtain ⟨s, hs, hall⟩ := trim_split (skipSpaces b)
  have := qsound_of_trim (internalParseFlags_sound b) hall
  rwa [← hs] at this

/-- **MAIN**: the hand-written checker accepts exactly the RFC 8259 language -/
theorem valid_eq_validRFC (b : Bytes) : Model.Json.valid b = Spec.Json.validRFC b := by
  unfold Model.Json.valid Spec.Json.validRFC
  simp only [skipSpaces_eq_ws]
  have hq : QSound (internalParseFlags (Spec.Json.ws b)) (Spec.Json.ws b) := by
    have := internalParseFlags_qsound (Spec.Json.ws b)
    rwa [skipSpaces_eq_ws, ws_ws] at this
  have hl := ws_length_le b
  have h := parseValue_toOpt (internalParseFlags (Spec.Json.ws b)) (fuelFor (Spec.Json.ws b))
    (3 * b.length + 8) (b.length + 1) (Spec.Json.ws b) (by simp [fuelFor]) (by omega) (by omega) hq
  rw [← h]
  cases parseValue (internalParseFlags (Spec.Json.ws b)) (fuelFor (Spec.Json.ws b)) (Spec.Json.ws b) <;> rfl

/-- below the nesting limit of encoding/json (10000) the limit cannot be hit -/
theorem valid_eq_validStd (b : Bytes) (hb : b.length ≤ 10000) : Model.Json.valid b = Spec.Json.validStd b := by
  unfold Model.Json.valid Spec.Json.validStd
  simp only [skipSpaces_eq_ws]
  have hq : QSound (internalParseFlags (Spec.Json.ws b)) (Spec.Json.ws b) := by
    have := internalParseFlags_qsound (Spec.Json.ws b)
    rwa [skipSpaces_eq_ws, ws_ws] at this
  have hl := ws_length_le b
  have h := parseValue_toOpt (internalParseFlags (Spec.Json.ws b)) (fuelFor (Spec.Json.ws b))
    (3 * b.length + 8) 10000 (Spec.Json.ws b) (by simp [fuelFor]) (by omega) (by omega) hq
  rw [← h]
  cases parseValue (internalParseFlags (Spec.Json.ws b)) (fuelFor (Spec.Json.ws b)) (Spec.Json.ws b) <;> rfl

end Enc.Lemmas.JsonValid
