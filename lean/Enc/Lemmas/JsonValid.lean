import Enc.Lemmas.JsonValue
/-!
# JSON (C05), part 5: the flags are sound where it matters, and `Valid` is exactly encoding/json's `Valid`

* `internalParseFlags_sound` — the flags are computed from the space-skipped input minus trailing white space and are
  sound for that part.
* `qsound_of_trim` — parsing runs on the untrimmed input, but a string body that closes ends with `"`, which is not
  white space, so it lies inside the trimmed part: soundness before every quotation mark (`QSound`) follows.
* `valid_eq_validStd` — MAIN: for every input, `Valid` = RFC 8259 with nesting depth at most 10000 (encoding/json).
* `budget_all` / `value_budget_irrelevant` — on the grammar alone: a nesting budget of at least the input length can
  never be exhausted, so all such budgets give the same result.
* `valid_eq_validRFC_of_short` — hence agreement with unlimited RFC 8259 for inputs of at most 10000 bytes.
* `valid_too_deep`, `valid_max_depth` — the limit is sharp: a document starting with 10001 `[` is rejected whatever
  follows, 10000 properly closed nested arrays are accepted.
-/
namespace Enc.Lemmas.JsonValid
open Enc Enc.Model.Json Enc.Lemmas.JsonString Enc.Lemmas.JsonGrammar Enc.Lemmas.JsonValue
open Enc.Lemmas.JsonWs (skipSpaces_eq_ws)

theorem skipRev_split (l : Bytes) :
    ∃ s, l = s ++ trimTrailingSpaces.skipSpacesNRev l ∧ ∀ c ∈ s, isSpace c = true := by
  induction l with
  | nil => exact ⟨[], rfl, by simp⟩
  | cons x r ih =>
    simp only [trimTrailingSpaces.skipSpacesNRev]
    split
    · rename_i hx
      obtain ⟨s, hs, hall⟩ := ih
      refine ⟨x :: s, by rw [List.cons_append, ← hs], ?_⟩
      intro c hc
      rcases List.mem_cons.mp hc with rfl | h
      · exact hx
      · exact hall c h
    · exact ⟨[], rfl, by simp⟩

/-- an input is its trimmed part followed by white space only -/
theorem trim_split (b : Bytes) : ∃ s, b = trimTrailingSpaces b ++ s ∧ ∀ c ∈ s, isSpace c = true := by
  obtain ⟨s, hs, hall⟩ := skipRev_split b.reverse
  refine ⟨s.reverse, ?_, by simpa using hall⟩
  have := congrArg List.reverse hs
  simpa [trimTrailingSpaces] using this

/-- item (5a): the flags computed by `internalParseFlags` are sound for the trimmed, space-skipped input -/
theorem internalParseFlags_sound (b : Bytes) :
    FlagsSound (internalParseFlags b) (trimTrailingSpaces (skipSpaces b)) := by
  refine ⟨?_, ?_⟩
  · intro h
    simpa [internalParseFlags] using h
  · intro h
    exact (validPrint_iff _).mp (by simpa [internalParseFlags] using h)

/-- soundness for the input minus trailing white space is enough: no quotation mark lies in the trailing region -/
theorem qsound_of_trim {fl : PFlags} {t s : Bytes} (ht : FlagsSound fl t) (hs : ∀ c ∈ s, isSpace c = true) :
    QSound fl (t ++ s) := by
  intro p q h
  rcases List.append_eq_append_iff.mp h with ⟨a', hp, hs'⟩ | ⟨c', ht', _⟩
  · have : isSpace 0x22 = true := hs 0x22 (by rw [hs']; simp)
    exact absurd this (by decide)
  · subst ht'; exact ht.sublist (List.sublist_append_left _ _)

theorem internalParseFlags_qsound (b : Bytes) : QSound (internalParseFlags b) (skipSpaces b) := by
  obtain ⟨s, hs, hall⟩ := trim_split (skipSpaces b)
  have := qsound_of_trim (internalParseFlags_sound b) hall
  rwa [← hs] at this

/-- **MAIN**: for every byte string the hand-written checker accepts exactly what `encoding/json.Valid` accepts:
the RFC 8259 language with nesting depth at most 10000 -/
theorem valid_eq_validStd (b : Bytes) : Model.Json.valid b = Spec.Json.validStd b := by
  unfold Model.Json.valid Spec.Json.validStd
  simp only [skipSpaces_eq_ws]
  have hq : QSound (internalParseFlags (Spec.Json.ws b)) (Spec.Json.ws b) := by
    have := internalParseFlags_qsound (Spec.Json.ws b)
    rwa [skipSpaces_eq_ws, ws_ws] at this
  have hl := ws_length_le b
  have h := parseValue_toOpt (internalParseFlags (Spec.Json.ws b)) 0 (fuelFor (Spec.Json.ws b))
    (3 * b.length + 8) (Spec.Json.ws b) (Nat.zero_le _) (by simp [fuelFor]) (by omega) hq
  have e : Gen.c_json_maxNestingDepth - 0 = 10000 := rfl
  rw [e] at h
  rw [← h]
  cases parseValue (internalParseFlags (Spec.Json.ws b)) 0 (fuelFor (Spec.Json.ws b)) (Spec.Json.ws b) <;> rfl

/-! ### the grammar alone: a nesting budget of at least the input length is never exhausted -/

open Enc.Spec.Json (ws value elements members) in
/-- the separator step of `elements` / `members` hands on a suffix of the input -/
theorem sep_suffix {first : Bool} {c : UInt8} {t b2 : Bytes}
    (h : (if first then some (c :: t) else (if c == 0x2c then some (ws t) else none)) = some b2) : b2 <:+ c :: t := by
  split at h
  · cases h; exact List.suffix_refl _
  · split at h
    · cases h; exact (ws_suffix t).trans (List.suffix_cons _ _)
    · cases h

open Enc.Spec.Json (ws value elements members) in
theorem budget_all (f : Nat) :
    (∀ d1 d2 b, b.length ≤ d1 → b.length ≤ d2 → value f d1 b = value f d2 b) ∧
    (∀ d1 d2 b first, b.length ≤ d1 → b.length ≤ d2 → elements f d1 b first = elements f d2 b first) ∧
    (∀ d1 d2 b first, b.length ≤ d1 → b.length ≤ d2 → members f d1 b first = members f d2 b first) := by
  induction f with
  | zero => refine ⟨?_, ?_, ?_⟩ <;> intros <;> simp [value, elements, members]
  | succ f ih =>
    obtain ⟨ihv, ihe, ihm⟩ := ih
    refine ⟨?_, ?_, ?_⟩
    · intro d1 d2 b h1 h2
      cases b with
      | nil => rw [value_nil, value_nil]
      | cons c t =>
        simp only [List.length_cons] at h1 h2
        have hw := ws_length_le t
        have e1 : (d1 == 0) = false := by simp; omega
        have e2 : (d2 == 0) = false := by simp; omega
        rw [value_succ_cons, value_succ_cons]
        simp only [e1, e2, Bool.false_eq_true, if_false]
        rw [ihm (d1 - 1) (d2 - 1) (ws t) true (by omega) (by omega),
          ihe (d1 - 1) (d2 - 1) (ws t) true (by omega) (by omega)]
    · intro d1 d2 b first h1 h2
      cases b with
      | nil => rw [elements_nil, elements_nil]
      | cons c t =>
        rw [elements_succ_cons, elements_succ_cons]
        split
        · rfl
        · cases hb' : (if first then some (c :: t) else (if c == 0x2c then some (ws t) else none)) with
          | none => rfl
          | some b2 =>
            have hs2 := (sep_suffix hb').length_le
            simp only [Option.bind_some]
            split
            · rfl
            · rw [ihv d1 d2 b2 (by omega) (by omega)]
              cases hv : value f d2 b2 with
              | none => rfl
              | some r2 =>
                have := (value_sfx hv).2
                have hw := ws_length_le r2
                simp only [Option.bind_some]
                exact ihe d1 d2 (ws r2) false (by omega) (by omega)
    · intro d1 d2 b first h1 h2
      cases b with
      | nil => rw [members_nil, members_nil]
      | cons c t =>
        rw [members_succ_cons, members_succ_cons]
        split
        · rfl
        · cases hb' : (if first then some (c :: t) else (if c == 0x2c then some (ws t) else none)) with
          | none => rfl
          | some b2 =>
            have hs2 := (sep_suffix hb').length_le
            simp only [Option.bind_some]
            cases hst : Spec.Json.string b2 with
            | none => rfl
            | some r2 =>
              have := (string_sfx hst).2
              have hw := ws_length_le r2
              simp only [Option.bind_some]
              cases hc : ws r2 with
              | nil => rfl
              | cons x r3 =>
                rw [hc] at hw
                simp only [List.length_cons] at hw
                simp only [colonThen]
                split
                · have hw3 := ws_length_le r3
                  rw [ihv d1 d2 (ws r3) (by omega) (by omega)]
                  cases hv : value f d2 (ws r3) with
                  | none => rfl
                  | some r4 =>
                    have := (value_sfx hv).2
                    have hw4 := ws_length_le r4
                    simp only [Option.bind_some]
                    exact ihm d1 d2 (ws r4) false (by omega) (by omega)
                · rfl

/-- any two nesting budgets that are at least the length of the input give the same result -/
theorem value_budget_irrelevant (f d1 d2 : Nat) (b : Bytes) (h1 : b.length ≤ d1) (h2 : b.length ≤ d2) :
    Spec.Json.value f d1 b = Spec.Json.value f d2 b := (budget_all f).1 d1 d2 b h1 h2

/-- on the grammar side: the depth-limited and the unlimited language agree on inputs of at most 10000 bytes -/
theorem validStd_eq_validRFC_of_short (b : Bytes) (hb : b.length ≤ 10000) :
    Spec.Json.validStd b = Spec.Json.validRFC b := by
  unfold Spec.Json.validStd Spec.Json.validRFC
  have hl := ws_length_le b
  rw [value_budget_irrelevant (3 * b.length + 8) 10000 (b.length + 1) (Spec.Json.ws b) (by omega) (by omega)]

/-- RFC 8259 without a nesting limit: `Valid` can differ from it only beyond 10000 nested arrays/objects, which needs
more than 10000 bytes -/
theorem valid_eq_validRFC_of_short (b : Bytes) (hb : b.length ≤ 10000) :
    Model.Json.valid b = Spec.Json.validRFC b := by
  rw [valid_eq_validStd, validStd_eq_validRFC_of_short b hb]

/-! ### the nesting limit is sharp: 10000 nested arrays are accepted, 10001 opening brackets never are

(stated for generic `b` first: the kernel must not be asked to evaluate anything on a 10001-element `List.replicate`) -/

section Sharp
open Enc.Spec.Json (ws value elements members)

theorem ws_open (t : Bytes) : ws (0x5b :: t) = 0x5b :: t := rfl
theorem ws_close (t : Bytes) : ws (0x5d :: t) = 0x5d :: t := rfl

theorem value_open (f d : Nat) (t : Bytes) :
    value (f + 1) d (0x5b :: t) = if d == 0 then none else elements f (d - 1) (ws t) true := by
  rw [value_succ_cons]; rfl

theorem elements_open (f d : Nat) (t : Bytes) :
    elements (f + 1) d (0x5b :: t) true = (value f d (0x5b :: t)).bind fun r2 => elements f d (ws r2) false := by
  rw [elements_succ_cons]; rfl

theorem elements_close (f d : Nat) (t : Bytes) (first : Bool) : elements (f + 1) d (0x5d :: t) first = some t := by
  rw [elements_succ_cons]; rfl

/-- with nesting budget `d`, nothing that starts with `d + 1` opening brackets is a value -/
theorem value_too_deep (d : Nat) : ∀ f t, value f d (List.replicate (d + 1) 0x5b ++ t) = none := by
  induction d with
  | zero =>
    intro f t
    cases f with
    | zero => simp [value]
    | succ f => exact value_open f 0 t
  | succ d ih =>
    intro f t
    cases f with
    | zero => simp [value]
    | succ f =>
      rw [List.replicate_succ, List.cons_append, value_open]
      simp only [Nat.add_one_ne_zero, beq_iff_eq, if_false, Nat.add_sub_cancel]
      cases f with
      | zero => simp [elements]
      | succ f =>
        rw [List.replicate_succ, List.cons_append, ws_open, elements_open, ← List.cons_append, ← List.replicate_succ, ih]
        rfl

/-- … and `n ≤ d` properly closed brackets are one -/
theorem value_nested (n : Nat) : ∀ f d m, n + 1 ≤ d → 2 * (n + 1) ≤ f →
    value f d (List.replicate (n + 1) 0x5b ++ List.replicate (n + 1 + m) 0x5d) = some (List.replicate m 0x5d) := by
  induction n with
  | zero =>
    intro f d m hd hf
    obtain ⟨f, rfl⟩ : ∃ g, f = g + 2 := ⟨f - 2, by omega⟩
    have hd0 : (d == 0) = false := by simp; omega
    rw [show List.replicate (0 + 1 + m) (0x5d : UInt8) = 0x5d :: List.replicate m 0x5d from by
      rw [Nat.add_comm (0 + 1) m, Nat.zero_add, List.replicate_succ]]
    rw [show List.replicate (0 + 1) (0x5b : UInt8) = [0x5b] from rfl, List.singleton_append, value_open, ws_close,
      elements_close]
    simp [hd0]
  | succ n ih =>
    intro f d m hd hf
    obtain ⟨f, rfl⟩ : ∃ g, f = g + 3 := ⟨f - 3, by omega⟩
    have hd0 : (d == 0) = false := by simp; omega
    rw [List.replicate_succ, List.cons_append, value_open]
    simp only [hd0, Bool.false_eq_true, if_false]
    rw [List.replicate_succ, List.cons_append, ws_open, elements_open, ← List.cons_append, ← List.replicate_succ]
    rw [show n + 1 + 1 + m = n + 1 + (m + 1) from by omega, ih (f + 1) (d - 1) (m + 1) (by omega) (by omega)]
    rw [Option.bind_some, List.replicate_succ, ws_close, elements_close]

theorem validStd_of_none (b : Bytes) (h : ∀ f, value f 10000 (ws b) = none) : Spec.Json.validStd b = false := by
  unfold Spec.Json.validStd
  rw [h]

theorem validStd_of_some (b : Bytes) (n : Nat) (hn : b.length = n)
    (h : ∀ f, 2 * n ≤ f → value f 10000 (ws b) = some []) : Spec.Json.validStd b = true := by
  unfold Spec.Json.validStd
  rw [h _ (by omega)]
  rfl

/-- whatever follows 10001 opening brackets, the document is rejected -/
theorem valid_too_deep (t : Bytes) : Model.Json.valid (List.replicate 10001 0x5b ++ t) = false := by
  rw [valid_eq_validStd]
  apply validStd_of_none
  intro f
  have e : List.replicate 10001 (0x5b : UInt8) = 0x5b :: List.replicate 10000 0x5b := List.replicate_succ (n := 10000)
  rw [e, List.cons_append, ws_open, ← List.cons_append, ← e]
  exact value_too_deep 10000 f t

/-- 10000 nested arrays are accepted: the limit is exactly `maxNestingDepth` -/
theorem valid_max_depth : Model.Json.valid (List.replicate 10000 0x5b ++ List.replicate 10000 0x5d) = true := by
  rw [valid_eq_validStd]
  apply validStd_of_some _ 20000 (by rw [List.length_append, List.length_replicate, List.length_replicate])
  intro f hf
  have e : List.replicate 10000 (0x5b : UInt8) = 0x5b :: List.replicate 9999 0x5b := List.replicate_succ (n := 9999)
  rw [e, List.cons_append, ws_open, ← List.cons_append, ← e]
  exact value_nested 9999 f 10000 0 (by omega) (by omega)

end Sharp

end Enc.Lemmas.JsonValid
