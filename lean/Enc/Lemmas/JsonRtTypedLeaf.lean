import Enc.Lemmas.JsonEncTypedEq
import Enc.Lemmas.JsonDecAnyRender
import Enc.Lemmas.JsonRawEmitLeaf
import Enc.Lemmas.JsonRTInt
import Enc.Lemmas.JsonRTUtf8
/-!
# Typed round trip, leaves: what the specification of the typed decoder (`valueS`) reads from the text that the
specification of the typed encoder (`encSpec`) writes for a scalar
-/
namespace Enc.Lemmas.JsonRtTyped
open Enc Enc.Model.Json Enc.Model.Json.Typed
open Enc.Spec.Json (valueS elementsSl elementsAr membersMp membersSt ws isWs lit number digit consumed unquoteLit
  appendString intString intRange intOfLit floatOverflows boolText nullT floatText canonFloat coerceUTF8)
open Enc.Lemmas.JsonDecAnyRtInt (noNumCont number_render intString_head)
open Enc.Lemmas.JsonDecAnyRender (num_head_ne appendString_head lit_self ws_of_head)
open Enc.Lemmas.JsonDecAnyRtStr (string_render unquote_render)
open Enc.Lemmas.JsonDecAnyAux (litOf_append)

/-- unfold one step of `valueS` at a concrete type (the equation lemmas carry "not a pointer, not an interface" side goals) -/
macro "rwS" : tactic =>
  `(tactic| (rw [valueS] <;> try (first | (intro _ _ h; cases h) | (intro _ h; cases h) | (intro h; cases h))))

theorem consumed_append (v rest : Bytes) : consumed (v ++ rest) rest = v := litOf_append v rest

/-- Go's `string([]rune(s))`, model fuel form = specification -/
theorem coerce_eq (s : Bytes) : Model.Json.coerceUTF8 (s.length + 1) s = coerceUTF8 s :=
  Lemmas.JsonRTUtf8.model_coerce_eq s (s.length + 1) (Nat.le_succ _)

/-! ### bool -/

theorem rt_bool (c : TFlags) (f d : Nat) (cur : JV) (b : Bool) (rest : Bytes) :
    valueS c (f + 1) d .bool cur (boolText b ++ rest) = some (.bool b, false, rest) := by
  cases b with
  | true =>
    show valueS c (f + 1) d .bool cur (0x74 :: ([0x72, 0x75, 0x65] ++ rest)) = _
    rwS
    simp only [show ((0x74 : UInt8) == 0x6e) = false by decide, show ((0x74 : UInt8) == 0x5b) = false by decide,
      show ((0x74 : UInt8) == 0x7b) = false by decide, show ((0x74 : UInt8) == 0x22) = false by decide,
      Bool.false_eq_true, if_false, beq_self_eq_true, if_true]
    rw [show (0x74 : UInt8) :: ([0x72, 0x75, 0x65] ++ rest) = [0x74, 0x72, 0x75, 0x65] ++ rest from rfl, lit_self]
    rfl
  | false =>
    show valueS c (f + 1) d .bool cur (0x66 :: ([0x61, 0x6c, 0x73, 0x65] ++ rest)) = _
    rwS
    simp only [show ((0x66 : UInt8) == 0x6e) = false by decide, show ((0x66 : UInt8) == 0x5b) = false by decide,
      show ((0x66 : UInt8) == 0x7b) = false by decide, show ((0x66 : UInt8) == 0x22) = false by decide,
      show ((0x66 : UInt8) == 0x74) = false by decide, Bool.false_eq_true, if_false, beq_self_eq_true, if_true]
    rw [show (0x66 : UInt8) :: ([0x61, 0x6c, 0x73, 0x65] ++ rest) = [0x66, 0x61, 0x6c, 0x73, 0x65] ++ rest from rfl,
      lit_self]
    rfl

/-! ### strings -/

theorem rt_str (c : TFlags) (f d : Nat) (cur : JV) (s : Bytes) (html : Bool) (rest : Bytes) :
    valueS c (f + 1) d .str cur (appendString s html ++ rest) = some (.str (coerceUTF8 s), false, rest) := by
  have hs := string_render s html rest
  have hu := unquote_render s html
  obtain ⟨body, hq⟩ := appendString_head s html
  rw [hq] at hs hu ⊢
  show valueS c (f + 1) d .str cur (0x22 :: (body ++ rest)) = _
  rwS
  simp only [show ((0x22 : UInt8) == 0x6e) = false by decide, show ((0x22 : UInt8) == 0x5b) = false by decide,
    show ((0x22 : UInt8) == 0x7b) = false by decide, Bool.false_eq_true, if_false, beq_self_eq_true, if_true]
  rw [show (0x22 : UInt8) :: (body ++ rest) = (0x22 :: body) ++ rest from rfl, hs]
  simp only [Option.map_some, consumed_append, hu, coerce_eq]

/-! ### numbers -/

/-- a number literal: the whole text is one `number` of the grammar -/
theorem numLit_head {l : Bytes} (h : number l = some []) : ∃ c t, l = c :: t ∧ (c = 0x2d ∨ digit c = true) := by
  cases l with
  | nil => simp [Lemmas.JsonNumber.number_nil] at h
  | cons c t =>
    refine ⟨c, t, rfl, ?_⟩
    by_cases hc : c = 0x2d
    · exact Or.inl hc
    · right
      rw [Lemmas.JsonNumber.number_cons] at h
      simp only [show (c == 0x2d) = false by simpa using hc, Bool.false_eq_true, if_false] at h
      cases hd : digit c with
      | true => rfl
      | false =>
        exfalso
        have hk : ∀ c : UInt8, digit c = false → (c == 0x30) = false ∧ Spec.Json.digit19 c = false := by
          intro c; obtain ⟨⟨n⟩⟩ := c; revert n; decide +kernel
        obtain ⟨h0, h19⟩ := hk c hd
        simp [Spec.Json.int, h0, h19] at h

theorem digit_not_fe : ∀ c : UInt8, digit c = true → (c == 0x2e || c == 0x65 || c == 0x45) = false ∧ c ≠ 0x2d := by
  intro c; obtain ⟨⟨n⟩⟩ := c; revert n; decide +kernel

theorem intValue_intString (i : Int) : Spec.Json.intValue (intString i) = i := by
  unfold intString
  split
  · rw [Lemmas.JsonDecInt.intValue_neg, Lemmas.JsonRTInt.acc_decimal]; omega
  · rw [Lemmas.JsonDecInt.intValue_digits _ (Lemmas.JsonDecAnyRtInt.decimal_all_digit _), Lemmas.JsonRTInt.acc_decimal]
    omega

theorem intString_no_fe (i : Int) : (intString i).any (fun c => c == 0x2e || c == 0x65 || c == 0x45) = false := by
  rw [List.any_eq_false]
  intro c hc
  have hd : ∀ c ∈ Spec.Json.decimal i.natAbs, ¬ (c == 0x2e || c == 0x65 || c == 0x45) = true := by
    intro c hc; rw [(digit_not_fe c (Lemmas.JsonDecAnyRtInt.decimal_all_digit _ c hc)).1]; simp
  unfold intString at hc
  split at hc
  · rcases List.mem_cons.mp hc with rfl | hc
    · decide
    · exact hd c hc
  · exact hd c hc

theorem intOfLit_intString (w : ITy) (i : Int) (h : (intRange w).1 ≤ i ∧ i ≤ (intRange w).2) :
    intOfLit w (intString i) = some i := by
  unfold intOfLit
  rw [intString_no_fe, intValue_intString]
  simp only [Bool.false_eq_true, if_false]
  have hneg : (!w.signed && (intString i).head? == some 0x2d) = false := by
    cases hs : w.signed with
    | true => rfl
    | false =>
      have h0 : 0 ≤ i := by
        have := h.1; simp only [intRange, hs, Bool.false_eq_true, if_false] at this; exact this
      simp only [Bool.not_false, Bool.true_and]
      unfold intString
      rw [if_neg (by omega)]
      obtain ⟨d, r, hr, hd⟩ := Lemmas.JsonRTValue.decimal_head_digit i.natAbs
      rw [hr]
      simp only [List.head?_cons, beq_eq_false_iff_ne, ne_eq, Option.some.injEq]
      exact (digit_not_fe d hd).2
  rw [hneg]
  simp only [Bool.false_eq_true, if_false]
  rw [if_pos h]

theorem rt_int (c : TFlags) (f d : Nat) (cur : JV) (w : ITy) (i : Int) (h : (intRange w).1 ≤ i ∧ i ≤ (intRange w).2)
    (rest : Bytes) (hn : noNumCont rest) :
    valueS c (f + 1) d (.int w) cur (intString i ++ rest) = some (.int i, false, rest) := by
  obtain ⟨c0, t, e, hc⟩ := intString_head i
  have hnum := number_render i rest hn
  have hlit := intOfLit_intString w i h
  rw [e] at hnum hlit ⊢
  show valueS c (f + 1) d (.int w) cur (c0 :: (t ++ rest)) = _
  rwS
  obtain ⟨e1, e2, e3, e4, e5, e6⟩ := num_head_ne hc
  simp only [e1, e2, e3, e4, e5, e6, Bool.false_eq_true, if_false]
  rw [show c0 :: (t ++ rest) = (c0 :: t) ++ rest from rfl, hnum]
  simp only [Option.map_some, consumed_append, hlit]

/-- canonical float literals come back as they are -/
theorem rt_float (c : TFlags) (f d : Nat) (cur : JV) (l : Bytes) (hnum : number l = some [])
    (hov : floatOverflows l = false) (rest : Bytes) (hn : noNumCont rest) :
    valueS c (f + 1) d .float cur (l ++ rest) = some (.float l, false, rest) := by
  obtain ⟨c0, t, e, hc⟩ := numLit_head hnum
  have hx := Lemmas.JsonRawEmitLeaf.number_ext rest hn hnum
  subst e
  show valueS c (f + 1) d .float cur (c0 :: (t ++ rest)) = _
  rwS
  obtain ⟨e1, e2, e3, e4, e5, e6⟩ := num_head_ne hc
  simp only [e1, e2, e3, e4, e5, e6, Bool.false_eq_true, if_false]
  rw [show c0 :: (t ++ rest) = (c0 :: t) ++ rest from rfl, hx]
  simp only [Option.map_some, List.nil_append, consumed_append, hov, Bool.false_eq_true, if_false]

/-! ### `null` -/

theorem lit_null (rest : Bytes) : lit Spec.Json.nullLit (nullT ++ rest) = some rest := lit_self _ rest

theorem rt_null_slice (c : TFlags) (f d : Nat) (e : JT) (cur : JV) (rest : Bytes) :
    valueS c (f + 1) d (.slice e) cur (nullT ++ rest) = some (.slice true .nil .nil, false, rest) := by
  show valueS c (f + 1) d (.slice e) cur (0x6e :: ([0x75, 0x6c, 0x6c] ++ rest)) = _
  rwS
  simp only [beq_self_eq_true, if_true]
  rw [show (0x6e : UInt8) :: ([0x75, 0x6c, 0x6c] ++ rest) = nullT ++ rest from rfl, lit_null]
  rfl

theorem rt_null_map (c : TFlags) (f d : Nat) (e : JT) (cur : JV) (rest : Bytes) :
    valueS c (f + 1) d (.mapS e) cur (nullT ++ rest) = some (.map true .nil, false, rest) := by
  show valueS c (f + 1) d (.mapS e) cur (0x6e :: ([0x75, 0x6c, 0x6c] ++ rest)) = _
  rwS
  simp only [beq_self_eq_true, if_true]
  rw [show (0x6e : UInt8) :: ([0x75, 0x6c, 0x6c] ++ rest) = nullT ++ rest from rfl, lit_null]
  rfl

theorem rt_null_ptr (c : TFlags) (f d : Nat) (e : JT) (cur : JV) (rest : Bytes) :
    valueS c (f + 1) d (.ptr e) cur (nullT ++ rest) = some (.nilptr, false, rest) := by
  cases cur <;> rw [valueS] <;>
    first
    | simp only [lit_null, Option.isSome_some, if_true, Option.map_some]
    | (intro _ _ h; cases h)

end Enc.Lemmas.JsonRtTyped
