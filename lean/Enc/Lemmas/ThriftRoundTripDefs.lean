import Enc.Lemmas.ThriftDecode
/-!
C04, definitions for the decoder round trip through structs, sets and maps.

  * `norm ty v` / `normFields fs vs`   the value `decode` really gives back for `encode ty v` when the target starts as
        the zero value: untagged and elided fields come back as `zeroOf` (a nil pointer field stays nil, an elided nil
        slice stays nil, an elided `-0.0` comes back `+0.0`), a nil `[]byte`/slice/map that IS written (required field,
        collection element) comes back empty and non-nil, a nil pointer that is written comes back as a pointer to the
        normal form of the zero value, set members get the value `struct{}{}`.
  * `RTS ty v` / `RTSFields fs vs`     executable (Bool) universe of the round trip theorem.
  * `depth ty` (now in the model)       nesting depth of a type: `|encode ty v| + depth ty` fuel always suffices.
  * `Exact ty v`                        values without nil/empty/zero ambiguity: `norm ty v = v`.
-/
namespace Enc.Lemmas.ThriftRoundTrip
open Enc Enc.Model.Thrift Enc.Lemmas.ThriftPrim Enc.Lemmas.ThriftSkip

/-- alternating key / value list of a list of pairs -/
def flat (ps : List (Val × Val)) : Vals := Vals.ofList (ps.flatMap fun kv => [kv.1, kv.2])

mutual
/-- what `decode` gives back for `encode ty v` (target = zero value) -/
def norm : Ty → Val → Val
  | .bytes, v => (match v with | .str s => .str s | _ => .str [])
  | .slice t, v =>
    if isU8 t then (match v with | .str s => .str s | _ => .str [])
    else (match v with
      | .list vs => .list (Vals.ofList (vs.toList.map (norm t)))
      | _ => .list .nil)
  | .map k v, x =>
    if isEmptyStruct v then .map (flat ((pairsOfVal x).map fun kv => (norm k kv.1, .struct .nil)))
    else .map (flat ((pairsOfVal x).map fun kv => (norm k kv.1, norm v kv.2)))
  | .struct fs, v => (match v with | .struct vs => .struct (normFields fs vs) | _ => v)
  | .ptr t, v => (match v with | .ptr x => .ptr (norm t x) | _ => .ptr (norm t (zeroOf t)))
  | .named _ t, v => norm t v
  | .bool, v | .int _, v | .f32, v | .f64, v | .str, v | .any, v | .arr _ _, v => v
def normFields : Fields → Vals → Vals
  | .cons _ tag _ t rest, .cons x vs =>
    .cons (match emitted tag t x with | none => zeroOf t | some _ => norm t x) (normFields rest vs)
  | _, _ => .nil
end

/-! `depth ty` / `depthFields fs` (nesting depth of a type) are the model's: `Enc.Model.Thrift.depth`, which `unmarshal`
adds to its budget. -/

/-- an enum-tagged field must be of Go type int32 exactly, up to pointers and named types
(`type Color int32`, `*Color`) -/
def enumTyOK (en : Bool) (t : Ty) : Bool :=
  !en || (match baseOf t with | .int .i32 => true | _ => false)

/-- field ids as `fieldDescs` reads them: 1 … 32767, pairwise distinct -/
def idsOK (fs : Fields) : Bool :=
  (fieldDescs fs).all (fun d => decide (1 ≤ d.id) && decide (d.id ≤ 32767)) &&
    decide ((fieldDescs fs).map (·.id)).Nodup

/-- a required field must be set: not a nil pointer -/
def requiredSet (tag : String) (t : Ty) (x : Val) : Bool :=
  match parseTag tag with
  | some (_, true, _) => !isNilPtr t x
  | _ => true

/-! value shapes (kept outside the recursive definition so that its equations stay simple) -/
def boolOK : Val → Bool | .bool _ => true | _ => false
def intOK (k : IntKind) : Val → Bool | .int i => k.signed && k.inRange i | _ => false
def floatOK : Val → Bool | .float b => decide (b < 2 ^ 64) | _ => false
def strOK : Val → Bool | .str s => decide (s.length ≤ maxLen) | _ => false
def bytesOK : Val → Bool | .str s => decide (s.length ≤ maxLen) | .nil => true | _ => false
def listOK (f : Val → Bool) : Val → Bool
  | .list vs => decide (vs.length ≤ maxLen) && vs.toList.all f
  | .nil => true
  | _ => false
def mapShape : Val → Bool | .map _ => true | .nil => true | _ => false
def ptrOK (f : Val → Bool) (z : Val) : Val → Bool
  | .ptr x => f x
  | .nil => f z
  | _ => false
def structOK (f : Vals → Bool) : Val → Bool | .struct vs => f vs | _ => false

mutual
/-- universe of the round trip: supported kinds, well-typed values (nil allowed for `[]byte`, slices, maps, pointers),
integers within their kind, sizes ≤ MaxInt32, field ids positive and distinct, required pointer fields non-nil,
enum tag on int32 only, map/set keys pairwise distinct (as `mapPut` compares them: by `Val.show` of the decoded key) -/
def RTS : Ty → Val → Bool
  | .bool, v => boolOK v
  | .int k, v => intOK k v
  | .f32, v | .f64, v => floatOK v
  | .str, v => strOK v
  | .bytes, v => bytesOK v
  | .slice t, v => if isU8 t then bytesOK v else isReal (typeOf t) && listOK (RTS t) v
  | .map k v, x =>
    isReal (typeOf k) && isReal (typeOf v) && mapShape x &&
      decide ((pairsOfVal x).length ≤ maxLen) &&
      ((pairsOfVal x).all fun kv => RTS k kv.1 && (isEmptyStruct v || RTS v kv.2)) &&
      decide (((pairsOfVal x).map fun kv => (norm k kv.1).show).Nodup)
  | .struct fs, v => idsOK fs && structOK (RTSFields fs) v
  | .ptr t, v => ptrOK (RTS t) (zeroOf t) v
  | .named _ t, v => RTS t v
  | .arr _ _, _ | .any, _ => false
def RTSFields : Fields → Vals → Bool
  | .nil, .nil => true
  | .cons _ tag _ t rest, .cons x vs =>
    RTSFields rest vs && requiredSet tag t x &&
      (match emitted tag t x with
       | none => true
       | some (_, en) => isReal (typeOf t) && enumTyOK en t && RTS t x)
  | _, _ => false
end

/-! ### shape lemmas -/
theorem norm_slice (t : Ty) (v : Val) : norm (.slice t) v =
    if isU8 t then (match v with | .str s => .str s | _ => .str [])
    else (match v with
      | .list vs => .list (Vals.ofList (vs.toList.map (norm t)))
      | _ => .list .nil) := by
  cases v <;> rfl

theorem norm_map (k v : Ty) (x : Val) : norm (.map k v) x =
    if isEmptyStruct v then .map (flat ((pairsOfVal x).map fun kv => (norm k kv.1, .struct .nil)))
    else .map (flat ((pairsOfVal x).map fun kv => (norm k kv.1, norm v kv.2))) := by
  cases x <;> rfl

theorem normFields_cons (n tag : String) (e : Bool) (t : Ty) (rest : Fields) (x : Val) (vs : Vals) :
    normFields (.cons n tag e t rest) (.cons x vs) =
      .cons (match emitted tag t x with | none => zeroOf t | some _ => norm t x) (normFields rest vs) := rfl

theorem RTS_slice (t : Ty) (v : Val) : RTS (.slice t) v =
    if isU8 t then bytesOK v else isReal (typeOf t) && listOK (RTS t) v := by
  cases t with
  | int k => cases k <;> rfl
  | _ => rfl

theorem RTS_map (k v : Ty) (x : Val) : RTS (.map k v) x =
    (isReal (typeOf k) && isReal (typeOf v) && mapShape x &&
      decide ((pairsOfVal x).length ≤ maxLen) &&
      ((pairsOfVal x).all fun kv => RTS k kv.1 && (isEmptyStruct v || RTS v kv.2)) &&
      decide (((pairsOfVal x).map fun kv => (norm k kv.1).show).Nodup)) := rfl

theorem RTS_struct (fs : Fields) (vs : Vals) : RTS (.struct fs) (.struct vs) = (idsOK fs && RTSFields fs vs) := rfl

theorem RTSFields_cons (n tag : String) (e : Bool) (t : Ty) (rest : Fields) (x : Val) (vs : Vals) :
    RTSFields (.cons n tag e t rest) (.cons x vs) =
    (RTSFields rest vs && requiredSet tag t x &&
      (match emitted tag t x with
       | none => true
       | some (_, en) => isReal (typeOf t) && enumTyOK en t && RTS t x)) := rfl

theorem depth_slice (t : Ty) : depth (.slice t) = 2 + depth t := by simp [depth]
theorem depth_struct (fs : Fields) : depth (.struct fs) = 2 + depthFields fs := by simp [depth]
theorem depthFields_cons (n tag : String) (e : Bool) (t : Ty) (rest : Fields) :
    depthFields (.cons n tag e t rest) = max (depth t) (depthFields rest) := by simp [depthFields]

end Enc.Lemmas.ThriftRoundTrip
