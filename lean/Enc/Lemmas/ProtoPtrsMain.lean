import Enc.Lemmas.ProtoPtrsModel
import Enc.Lemmas.ProtoPtrsBridge
import Enc.Lemmas.ProtoPtrsSpec
import Enc.Lemmas.ProtoNamedMain
import Enc.Lemmas.ProtoPtrChains
/-!
# proto: the round-trip / wire-format theorems on message types with repeated pointers `[]*T` and pointer chains `**T`

Universe `tyOK3` (⊇ `tyOK2` ⊇ `tyOK`) and `tyOKM3` (⊇ `tyOKM2` ⊇ `tyOKM`): `nameSafe t`, and `reduce (erase t)` in `tyOK` resp.
`tyOKM`, where `erase` unfolds the defined types and `reduce` (ProtoPtrsDefs) removes the head pointers of every slice
element and shortens every pointer chain to one pointer. So `[]*T`, `[]**T`, … are allowed wherever `[]T` is (`T` a scalar,
`[]byte`, `[N]byte`, a message: `[]*Msg`), and `**T`, `***T`, … wherever `*T` is (fields and map values), at every depth
(inside nested messages, map values, other `[]*Msg` elements), also through defined types (`type Items []*Item`).

The proof is a TRANSLATION: nothing in the 8 k lines that prove the theorems on `tyOK` / `tyOKM` is touched.
  * `ProtoPtrsModel`   `encode c (liftC c y) fl = encode (reduceC c) y fl`, `size` likewise, and
                       `decodeU F c b (liftC c y) fl = liftR (liftC c) (decodeU f (reduceC c) b y fl)` for arbitrary codec trees
  * `ProtoPtrsBridge`  `codecOf (reduce t) = reduceC (codecOf t)`, `liftC (codecOf t) = lift t`, zero values
  * `ProtoPtrsSpec`    `Spec.decode t b = (Spec.decode (reduce t) b).map (lift t)`, `canonical t (lift t x) = lift t (canonical (reduce t) x)`
  * here               `marshal_red`, `unmarshalU_red`, the theorems on reduced types (`*_red`) and, composed with the erasure
                       of `ProtoNamedMain`, on `tyOK3` / `tyOKM3` (`*_ptrs`)

Value hypotheses: those of the old theorems on the reduced value `rval t v` (= the pointees) at the reduced type `rty t`,
plus `ptrsOK3 t v`: no nil element in a `[]*T` (known finding proto-nil-ptr-in-collection: `nil_elem_not_wire`), no pointer
chain that ends in a nil pointer (known finding proto-ptr-to-empty-encoding: `ptr_to_nil_ptr_lost`). A chain whose last
pointee encodes to nothing (`&&struct{}{}`) is excluded by `noEmptyPtr3` / `valOKM3` exactly as for `*T`.
`Codec.nesting` is not changed by the reduction (`nesting_reduceC`: pointers are not message levels), so `hdep` is literally
the old hypothesis.
-/
set_option linter.unusedSimpArgs false
set_option linter.unusedVariables false
namespace Enc.Lemmas.ProtoPtrs
open Enc Enc.Model.Proto

open Enc.Lemmas.ProtoWire Enc.Lemmas.ProtoMap Enc.Lemmas.ProtoLiberal Enc.Lemmas.ProtoLiberalMap
open Enc.Lemmas.ProtoNamed (erase eraseFields nameSafe nameSafeFields marshal_erase unmarshal_erase decode_erase
  canonical_erase nesting_erase fieldsOf_struct_erase erase_struct)
open Enc.Spec.Protobuf (canonical)

/-! ## the reduction at the entry points (message types without defined types) -/

theorem ptrSafe_struct {fs : Fields} (h : ptrSafeFields fs = true) : ptrSafe (.struct fs) = true := by
  simpa only [ptrSafe] using h

theorem reduce_struct (fs : Fields) : reduce (.struct fs) = .struct (reduceFields fs) := by simp only [reduce]

/-- **`Marshal` does not see the reduction** -/
theorem marshal_red (fs : Fields) (h : ptrSafeFields fs = true) (y : Val) :
    marshal (.struct fs) (lift (.struct fs) y) = marshal (.struct (reduceFields fs)) y := by
  have hs := ptrSafe_struct h
  have hc := codecOf_reduce (.struct fs) hs
  simp only [reduce] at hc
  simp only [marshal, hc, ← liftC_codecOf (.struct fs) y hs rfl, encode_lift]

theorem encode_red (fs : Fields) (h : ptrSafeFields fs = true) (ys : Vals) (fl : Flags) :
    encode (.struct (fieldsOf 1 fs)) (.struct (liftFields fs ys)) fl
      = encode (.struct (fieldsOf 1 (reduceFields fs))) (.struct ys) fl := by
  rw [fieldsOf_reduce 1 fs h, ← liftCF_fieldsOf 1 fs ys h]
  have := encode_lift (.struct (fieldsOf 1 fs)) (.struct ys) fl
  simpa only [liftC, reduceC] using this

theorem nesting_red (fs : Fields) (h : ptrSafeFields fs = true) :
    Codec.nesting (codecOf (.struct (reduceFields fs))) = Codec.nesting (codecOf (.struct fs)) := by
  have hc := codecOf_reduce (.struct fs) (ptrSafe_struct h)
  simp only [reduce] at hc
  rw [hc, nesting_reduceC]

/-- **`Unmarshal` does not see the reduction**: same verdict, the value lifted -/
theorem unmarshalU_red (fs : Fields) (h : ptrSafeFields fs = true) (b : Bytes) :
    unmarshalU (.struct fs) b = mapRes (lift (.struct fs)) (unmarshalU (.struct (reduceFields fs)) b) := by
  have hs := ptrSafe_struct h
  have hc := codecOf_reduce (.struct fs) hs
  have hz := mzeroOf_lift (.struct fs) hs
  simp only [reduce] at hc hz
  have hl : liftC (codecOf (.struct fs)) = lift (.struct fs) := funext fun y => liftC_codecOf _ y hs rfl
  unfold unmarshalU
  by_cases hb : b.isEmpty = true
  · simp only [hb, if_true, mapRes]; rw [hz]
  · simp only [hb, Bool.false_eq_true, if_false]
    rw [hz, ← hl, decodeU_lift_unmarshal _ (WFC_codecOf _ hs), ← hc]
    cases decodeU (2 * b.length + 8 + Codec.height (codecOf (.struct (reduceFields fs))))
      (codecOf (.struct (reduceFields fs))) b (zeroOf (.struct (reduceFields fs))) { toplevel := true } with
    | ok a => simp only [liftR, mapRes]; split <;> rfl
    | err e => rfl
    | panic e => rfl

theorem mapRes_ok {α β : Type} (f : α → β) (r : Res α) (x : β) (h : mapRes f r = .ok x) : ∃ a, r = .ok a ∧ f a = x := by
  cases r with
  | ok a => exact ⟨a, rfl, by simpa only [mapRes, Res.ok.injEq] using h⟩
  | err e => simp only [mapRes] at h; cases h
  | panic e => simp only [mapRes] at h; cases h

/-! ## the theorems of C03 / C12 on reduced types (no defined types yet) -/

theorem struct_bytes_red (fs : Fields) (vs : Vals) (fl : Flags) (hs : ptrSafeFields fs = true)
    (hty : tyOK (.struct (reduceFields fs)) = true) (hp : ptrsOKFields fs vs = true)
    (hv : hasTypes (reduceFields fs) (reduceVFields fs vs) = true) (hz : fl.zigzag = false)
    (hlen : (encode (.struct (fieldsOf 1 fs)) (.struct vs) fl).length < 2 ^ 64) :
    encode (.struct (fieldsOf 1 fs)) (.struct vs) fl
      = encRecs (allRecords fl.wantzero (reduceFields fs) (reduceVFields fs vs)) := by
  have hv' := liftFields_reduceV fs vs hp
  generalize reduceVFields fs vs = ys at *
  subst hv'
  rw [encode_red fs hs] at hlen ⊢
  exact struct_bytes (reduceFields fs) ys fl hty hv hz hlen

theorem struct_bytesM_red (fs : Fields) (vs : Vals) (fl : Flags) (hs : ptrSafeFields fs = true)
    (hty : tyOKM (.struct (reduceFields fs)) = true) (hp : ptrsOKFields fs vs = true)
    (hv : hasTypesM (reduceFields fs) (reduceVFields fs vs) = true) (hz : fl.zigzag = false)
    (hlen : (encode (.struct (fieldsOf 1 fs)) (.struct vs) fl).length < 2 ^ 64) :
    encode (.struct (fieldsOf 1 fs)) (.struct vs) fl
      = encRecs (allRecordsM fl.wantzero (reduceFields fs) (reduceVFields fs vs)) := by
  have hv' := liftFields_reduceV fs vs hp
  generalize reduceVFields fs vs = ys at *
  subst hv'
  rw [encode_red fs hs] at hlen ⊢
  exact struct_bytesM (reduceFields fs) ys fl hty hv hz hlen

theorem canonical_lift_eq (fs : Fields) (hs : ptrSafeFields fs = true) (y y' : Val)
    (h : canonical (.struct (reduceFields fs)) y' = canonical (.struct (reduceFields fs)) y) :
    canonical (.struct fs) (lift (.struct fs) y') = canonical (.struct fs) (lift (.struct fs) y) := by
  have hps := ptrSafe_struct hs
  rw [canonical_lift _ hps, canonical_lift _ hps, reduce_struct, h]

theorem decode_marshal_partial_red (fs : Fields) (v : Val) (hs : ptrSafeFields fs = true)
    (hty : tyOK (.struct (reduceFields fs)) = true) (hp : ptrsOK (.struct fs) v = true)
    (hv : hasType (.struct (reduceFields fs)) (reduceV (.struct fs) v) = true)
    (hne : noEmptyPtr (.struct (reduceFields fs)) (reduceV (.struct fs) v) = true)
    (hlen : (marshal (.struct fs) v).length < 2 ^ 64) :
    (Spec.Protobuf.decode (.struct fs) (marshal (.struct fs) v)).map (canonical (.struct fs))
      = some (canonical (.struct fs) v) := by
  have hv' := lift_reduceV _ _ hp
  generalize reduceV (.struct fs) v = y at *
  subst hv'
  rw [marshal_red fs hs] at hlen ⊢
  rw [decode_reduce fs hs]
  have h0 := decode_marshal_partial (reduceFields fs) y hty hv hne hlen
  cases hd : Spec.Protobuf.decode (.struct (reduceFields fs)) (marshal (.struct (reduceFields fs)) y) with
  | none => rw [hd] at h0; simp at h0
  | some y' =>
    rw [hd] at h0
    simp only [Option.map_some, Option.some.injEq] at h0 ⊢
    exact canonical_lift_eq fs hs y y' h0

theorem decode_marshal_map_partial_red (fs : Fields) (v : Val) (hs : ptrSafeFields fs = true)
    (hty : tyOKM (.struct (reduceFields fs)) = true) (hp : ptrsOK (.struct fs) v = true)
    (hv : hasTypeM (.struct (reduceFields fs)) (reduceV (.struct fs) v) = true)
    (hne : valOKM (.struct (reduceFields fs)) (reduceV (.struct fs) v) = true)
    (hlen : (marshal (.struct fs) v).length < 2 ^ 64) :
    (Spec.Protobuf.decode (.struct fs) (marshal (.struct fs) v)).map (canonical (.struct fs))
      = some (canonical (.struct fs) v) := by
  have hv' := lift_reduceV _ _ hp
  generalize reduceV (.struct fs) v = y at *
  subst hv'
  rw [marshal_red fs hs] at hlen ⊢
  rw [decode_reduce fs hs]
  have h0 := decode_marshal_map_partial (reduceFields fs) y hty hv hne hlen
  cases hd : Spec.Protobuf.decode (.struct (reduceFields fs)) (marshal (.struct (reduceFields fs)) y) with
  | none => rw [hd] at h0; simp at h0
  | some y' =>
    rw [hd] at h0
    simp only [Option.map_some, Option.some.injEq] at h0 ⊢
    exact canonical_lift_eq fs hs y y' h0

theorem unmarshal_marshal_partial_red (fs : Fields) (v : Val) (hs : ptrSafeFields fs = true)
    (hty : tyOK (.struct (reduceFields fs)) = true) (hp : ptrsOK (.struct fs) v = true)
    (hv : hasType (.struct (reduceFields fs)) (reduceV (.struct fs) v) = true)
    (hne : noEmptyPtr (.struct (reduceFields fs)) (reduceV (.struct fs) v) = true)
    (hlen : (marshal (.struct fs) v).length < 2 ^ 64) :
    ∃ v', unmarshalU (.struct fs) (marshal (.struct fs) v) = .ok v'
      ∧ canonical (.struct fs) v' = canonical (.struct fs) v := by
  have hv' := lift_reduceV _ _ hp
  generalize reduceV (.struct fs) v = y at *
  subst hv'
  rw [marshal_red fs hs] at hlen ⊢
  rw [unmarshalU_red fs hs]
  obtain ⟨y', h1, h2⟩ := Lemmas.ProtoRoundTrip.unmarshal_marshal_partial (reduceFields fs) y hty hv hne hlen
  exact ⟨lift (.struct fs) y', by rw [h1]; rfl, canonical_lift_eq fs hs y y' h2⟩

theorem unmarshal_marshal_map_partial_red (fs : Fields) (v : Val) (hs : ptrSafeFields fs = true)
    (hty : tyOKM (.struct (reduceFields fs)) = true) (hp : ptrsOK (.struct fs) v = true)
    (hv : hasTypeM (.struct (reduceFields fs)) (reduceV (.struct fs) v) = true)
    (hne : valOKM (.struct (reduceFields fs)) (reduceV (.struct fs) v) = true)
    (hlen : (marshal (.struct fs) v).length < 2 ^ 64) :
    ∃ v', unmarshalU (.struct fs) (marshal (.struct fs) v) = .ok v'
      ∧ canonical (.struct fs) v' = canonical (.struct fs) v := by
  have hv' := lift_reduceV _ _ hp
  generalize reduceV (.struct fs) v = y at *
  subst hv'
  rw [marshal_red fs hs] at hlen ⊢
  rw [unmarshalU_red fs hs]
  obtain ⟨y', h1, h2⟩ := Lemmas.ProtoMap.unmarshal_marshal_map_partial (reduceFields fs) y hty hv hne hlen
  exact ⟨lift (.struct fs) y', by rw [h1]; rfl, canonical_lift_eq fs hs y y' h2⟩

theorem unmarshal_of_decode_red (fs : Fields) (hs : ptrSafeFields fs = true)
    (hty : tyOK (.struct (reduceFields fs)) = true) (b : Bytes) (v : Val)
    (h : Spec.Protobuf.decode (.struct fs) b = some v) : unmarshalU (.struct fs) b = .ok v := by
  rw [decode_reduce fs hs] at h
  cases hd : Spec.Protobuf.decode (.struct (reduceFields fs)) b with
  | none => rw [hd] at h; simp at h
  | some y =>
    rw [hd] at h
    simp only [Option.map_some, Option.some.injEq] at h
    subst h
    rw [unmarshalU_red fs hs, Lemmas.ProtoLiberal.unmarshal_of_decode (reduceFields fs) hty b y hd]; rfl

theorem unmarshal_iff_decode_red (fs : Fields) (hs : ptrSafeFields fs = true)
    (hty : tyOK (.struct (reduceFields fs)) = true) (hna : noArr (.struct (reduceFields fs)) = true) (b : Bytes)
    (v : Val) (hz : ¬ ZeroNum (reduceFields fs) b) :
    unmarshalU (.struct fs) b = .ok v ↔ Spec.Protobuf.decode (.struct fs) b = some v := by
  refine ⟨fun h => ?_, unmarshal_of_decode_red fs hs hty b v⟩
  rw [unmarshalU_red fs hs] at h
  obtain ⟨y, hy, rfl⟩ := mapRes_ok _ _ _ h
  rw [decode_reduce fs hs,
    (Lemmas.ProtoLiberal.unmarshal_iff_decode (reduceFields fs) hty hna b y hz).mp hy]; rfl

theorem unmarshal_of_decode_map_partial_red (fs : Fields) (hs : ptrSafeFields fs = true)
    (hty : tyOKM (.struct (reduceFields fs)) = true) (b : Bytes) (v : Val)
    (hne : noEmptyEntry (.struct (reduceFields fs)) b = true)
    (h : Spec.Protobuf.decode (.struct fs) b = some v) : unmarshalU (.struct fs) b = .ok v := by
  rw [decode_reduce fs hs] at h
  cases hd : Spec.Protobuf.decode (.struct (reduceFields fs)) b with
  | none => rw [hd] at h; simp at h
  | some y =>
    rw [hd] at h
    simp only [Option.map_some, Option.some.injEq] at h
    subst h
    rw [unmarshalU_red fs hs,
      Lemmas.ProtoLiberalMap.unmarshal_of_decode_map_partial (reduceFields fs) hty b y hne hd]; rfl

theorem unmarshal_accepts_of_decode_map_red (fs : Fields) (hs : ptrSafeFields fs = true)
    (hty : tyOKM (.struct (reduceFields fs)) = true) (b : Bytes) (v : Val)
    (h : Spec.Protobuf.decode (.struct fs) b = some v) :
    ∃ v', unmarshalU (.struct fs) b = .ok v' ∧ sh v v' = true := by
  rw [decode_reduce fs hs] at h
  cases hd : Spec.Protobuf.decode (.struct (reduceFields fs)) b with
  | none => rw [hd] at h; simp at h
  | some y =>
    rw [hd] at h
    simp only [Option.map_some, Option.some.injEq] at h
    subst h
    obtain ⟨y', h1, h2⟩ := Lemmas.ProtoLiberalMap.unmarshal_accepts_of_decode_map (reduceFields fs) hty b y hd
    exact ⟨lift (.struct fs) y', by rw [unmarshalU_red fs hs, h1]; rfl, by rw [sh_lift]; exact h2⟩

/-! ## the universe `tyOK3 ⊇ tyOK2`, `tyOKM3 ⊇ tyOKM2`

A type is in it when it is `nameSafe` and the REDUCED form of its erasure (`reduce (erase t)`: defined types unfolded, every
slice element without its head pointers, every pointer chain a single pointer) is in `tyOK` resp. `tyOKM`. So `[]*T`, `[]**T`
… may be used wherever `[]T` may (`T` a scalar, `[]byte`, `[N]byte` or a message — `[]*Msg`), and `**T`, `***T` … wherever
`*T` may (fields, map values). Value predicates and record lists are those of the reduced type on the reduced value
(`reduceV`: the pointees), plus `ptrsOK3`: no nil element in a `[]*T`, no pointer chain ending in a nil pointer. -/

def tyOK3 (t : Ty) : Bool := nameSafe t && tyOK (reduce (erase t))
def tyOKM3 (t : Ty) : Bool := nameSafe t && tyOKM (reduce (erase t))
/-- the reduced message type / value -/
def rfields (fs : Fields) : Fields := reduceFields (eraseFields fs)
def rvals (fs : Fields) (vs : Vals) : Vals := reduceVFields (eraseFields fs) vs
def rty (t : Ty) : Ty := reduce (erase t)
def rval (t : Ty) (v : Val) : Val := reduceV (erase t) v
def ptrsOK3 (t : Ty) (v : Val) : Bool := ptrsOK (erase t) v
def ptrsOKs3 (fs : Fields) (vs : Vals) : Bool := ptrsOKFields (eraseFields fs) vs
def hasType3 (t : Ty) (v : Val) : Bool := hasType (rty t) (rval t v)
def hasTypes3 (fs : Fields) (vs : Vals) : Bool := hasTypes (rfields fs) (rvals fs vs)
def hasTypeM3 (t : Ty) (v : Val) : Bool := hasTypeM (rty t) (rval t v)
def hasTypesM3 (fs : Fields) (vs : Vals) : Bool := hasTypesM (rfields fs) (rvals fs vs)
def noEmptyPtr3 (t : Ty) (v : Val) : Bool := noEmptyPtr (rty t) (rval t v)
def valOKM3 (t : Ty) (v : Val) : Bool := valOKM (rty t) (rval t v)
def allRecords3 (wz : Bool) (fs : Fields) (vs : Vals) := allRecords wz (rfields fs) (rvals fs vs)
def allRecordsM3 (wz : Bool) (fs : Fields) (vs : Vals) := allRecordsM wz (rfields fs) (rvals fs vs)
def noEmptyEntry3 (t : Ty) (b : Bytes) : Bool := noEmptyEntry (rty t) b
def noArr3 (t : Ty) : Bool := noArr (rty t)

theorem rty_struct (fs : Fields) : rty (.struct fs) = .struct (rfields fs) := by simp only [rty, rfields, erase, reduce]
theorem rval_struct (fs : Fields) (vs : Vals) : rval (.struct fs) (.struct vs) = .struct (rvals fs vs) := by
  simp only [rval, rvals, erase, reduceV]

theorem tyOKM3_struct {fs : Fields} (h : tyOKM3 (.struct fs) = true) :
    nameSafe (.struct fs) = true ∧ ptrSafeFields (eraseFields fs) = true ∧ tyOKM (.struct (rfields fs)) = true := by
  simp only [tyOKM3, Bool.and_eq_true, erase, reduce] at h
  have hp := ptrSafe_of_tyOKM (.struct (eraseFields fs)) (by simpa only [reduce] using h.2)
  exact ⟨h.1, by simpa only [ptrSafe] using hp, h.2⟩

theorem tyOKM3_of_tyOK3 (t : Ty) (h : tyOK3 t = true) : tyOKM3 t = true := by
  simp only [tyOK3, Bool.and_eq_true] at h
  simp only [tyOKM3, h.1, Lemmas.ProtoNamed.tyOKM_of_tyOK _ h.2, Bool.and_self]

theorem tyOK3_struct {fs : Fields} (h : tyOK3 (.struct fs) = true) :
    nameSafe (.struct fs) = true ∧ ptrSafeFields (eraseFields fs) = true ∧ tyOK (.struct (rfields fs)) = true := by
  obtain ⟨h1, h2, _⟩ := tyOKM3_struct (tyOKM3_of_tyOK3 _ h)
  simp only [tyOK3, Bool.and_eq_true, erase, reduce] at h
  exact ⟨h1, h2, h.2⟩

theorem nesting_ptrs {fs : Fields} (hs : nameSafe (.struct fs) = true) (hp : ptrSafeFields (eraseFields fs) = true) :
    Codec.nesting (codecOf (.struct (eraseFields fs))) = Codec.nesting (codecOf (.struct fs)) := by
  rw [← erase_struct, nesting_erase hs]

/-! ### the universes grow: a type without pointer elements / chains is its own reduction -/

theorem reduceS_notPtr (t : Ty) (h : Lemmas.ProtoWire.isPtr t = false) : reduceS t = reduce t := by
  cases t <;> simp only [Lemmas.ProtoWire.isPtr] at h <;> first | (exact absurd h (by decide)) | simp only [reduce, reduceS]

mutual
theorem reduce_id_of_tyOKM : ∀ t : Ty, tyOKM t = true → reduce t = t
  | .ptr t, h => by
    simp only [tyOKM, Bool.and_eq_true] at h
    have hp : Lemmas.ProtoWire.isPtr t = false := by cases t <;> simp_all [ptrTarget, Lemmas.ProtoWire.isPtr]
    simp only [reduce, reduceS_notPtr t hp, reduce_id_of_tyOKM t h.2]
  | .slice t, h => by
    simp only [tyOKM, elemTy, Bool.and_eq_true, Bool.not_eq_true'] at h
    simp only [reduce, reduceS_notPtr t h.1.1.1, reduce_id_of_tyOKM t h.2]
  | .map k v, h => by
    simp only [tyOKM, Bool.and_eq_true] at h
    simp only [reduce, reduce_id_of_tyOKM v h.2]
  | .struct fs, h => by
    simp only [tyOKM, Bool.and_eq_true] at h
    simp only [reduce, reduceFields_id_of_fieldsOKM 1 fs h.1]
  | .bool, _ => rfl | .int k, _ => rfl | .f32, _ => rfl | .f64, _ => rfl | .str, _ => rfl | .bytes, _ => rfl
  | .any, _ => rfl | .arr n t, _ => rfl | .named n t, _ => rfl
theorem reduceFields_id_of_fieldsOKM (pos : Nat) : ∀ fs : Fields, fieldsOKM pos fs = true → reduceFields fs = fs
  | .nil, _ => rfl
  | .cons name tag emb t rest, h => by
    simp only [fieldsOKM, Bool.and_eq_true] at h
    simp only [reduceFields, reduce_id_of_tyOKM t h.1.2, reduceFields_id_of_fieldsOKM (pos + 1) rest h.2]
end

theorem tyOKM3_of_tyOKM2 (t : Ty) (h : Lemmas.ProtoNamed.tyOKM2 t = true) : tyOKM3 t = true := by
  simp only [Lemmas.ProtoNamed.tyOKM2, Bool.and_eq_true] at h
  simp only [tyOKM3, h.1, reduce_id_of_tyOKM _ h.2, h.2, Bool.and_self]
theorem tyOK3_of_tyOK2 (t : Ty) (h : Lemmas.ProtoNamed.tyOK2 t = true) : tyOK3 t = true := by
  simp only [Lemmas.ProtoNamed.tyOK2, Bool.and_eq_true] at h
  simp only [tyOK3, h.1, reduce_id_of_tyOKM _ (Lemmas.ProtoNamed.tyOKM_of_tyOK _ h.2), h.2, Bool.and_self]

/-! ## C12 bytes -/

theorem struct_bytes_ptrs (fs : Fields) (vs : Vals) (fl : Flags)
    (hty : tyOK3 (.struct fs) = true) (hp : ptrsOKs3 fs vs = true) (hv : hasTypes3 fs vs = true)
    (hz : fl.zigzag = false) (hlen : (encode (.struct (fieldsOf 1 fs)) (.struct vs) fl).length < 2 ^ 64) :
    encode (.struct (fieldsOf 1 fs)) (.struct vs) fl = encRecs (allRecords3 fl.wantzero fs vs) := by
  obtain ⟨hs, hps, ht⟩ := tyOK3_struct hty
  rw [← fieldsOf_struct_erase hs] at hlen ⊢
  exact struct_bytes_red (eraseFields fs) vs fl hps ht hp hv hz hlen

theorem struct_bytes_maps_ptrs (fs : Fields) (vs : Vals) (fl : Flags)
    (hty : tyOKM3 (.struct fs) = true) (hp : ptrsOKs3 fs vs = true) (hv : hasTypesM3 fs vs = true)
    (hz : fl.zigzag = false) (hlen : (encode (.struct (fieldsOf 1 fs)) (.struct vs) fl).length < 2 ^ 64) :
    encode (.struct (fieldsOf 1 fs)) (.struct vs) fl = encRecs (allRecordsM3 fl.wantzero fs vs) := by
  obtain ⟨hs, hps, ht⟩ := tyOKM3_struct hty
  rw [← fieldsOf_struct_erase hs] at hlen ⊢
  exact struct_bytesM_red (eraseFields fs) vs fl hps ht hp hv hz hlen

/-! ## C12 the reference decoder reads what Marshal writes -/

theorem reference_decodes_marshal_partial_ptrs (fs : Fields) (v : Val)
    (hty : tyOK3 (.struct fs) = true) (hp : ptrsOK3 (.struct fs) v = true) (hv : hasType3 (.struct fs) v = true)
    (hne : noEmptyPtr3 (.struct fs) v = true) (hlen : (marshal (.struct fs) v).length < 2 ^ 64) :
    (Spec.Protobuf.decode (.struct fs) (marshal (.struct fs) v)).map (canonical (.struct fs))
      = some (canonical (.struct fs) v) := by
  obtain ⟨hs, hps, ht⟩ := tyOK3_struct hty
  have hc : canonical (.struct fs) = canonical (erase (.struct fs)) := funext fun x => (canonical_erase _ hs x).symm
  rw [hc, ← decode_erase _ hs, ← marshal_erase _ hs] at *
  simp only [ptrsOK3, noEmptyPtr3, hasType3, rty, rval, erase, reduce] at *
  exact decode_marshal_partial_red (eraseFields fs) v hps ht hp hv hne hlen

theorem reference_decodes_marshal_maps_partial_ptrs (fs : Fields) (v : Val)
    (hty : tyOKM3 (.struct fs) = true) (hp : ptrsOK3 (.struct fs) v = true) (hv : hasTypeM3 (.struct fs) v = true)
    (hne : valOKM3 (.struct fs) v = true) (hlen : (marshal (.struct fs) v).length < 2 ^ 64) :
    (Spec.Protobuf.decode (.struct fs) (marshal (.struct fs) v)).map (canonical (.struct fs))
      = some (canonical (.struct fs) v) := by
  obtain ⟨hs, hps, ht⟩ := tyOKM3_struct hty
  have hc : canonical (.struct fs) = canonical (erase (.struct fs)) := funext fun x => (canonical_erase _ hs x).symm
  rw [hc, ← decode_erase _ hs, ← marshal_erase _ hs] at *
  simp only [ptrsOK3, valOKM3, hasTypeM3, rty, rval, erase, reduce] at *
  exact decode_marshal_map_partial_red (eraseFields fs) v hps ht hp hv hne hlen

/-! ## C03 Unmarshal ∘ Marshal -/

theorem unmarshal_marshal_partial_ptrs (fs : Fields) (v : Val)
    (hty : tyOK3 (.struct fs) = true) (hp : ptrsOK3 (.struct fs) v = true) (hv : hasType3 (.struct fs) v = true)
    (hne : noEmptyPtr3 (.struct fs) v = true) (hlen : (marshal (.struct fs) v).length < 2 ^ 64)
    (hdep : Codec.nesting (codecOf (.struct fs)) ≤ Gen.c_proto_maxDepth) :
    ∃ v', unmarshal (.struct fs) (marshal (.struct fs) v) = .ok v'
      ∧ canonical (.struct fs) v' = canonical (.struct fs) v := by
  obtain ⟨hs, hps, ht⟩ := tyOK3_struct hty
  rw [← nesting_erase hs] at hdep
  have hc : canonical (.struct fs) = canonical (erase (.struct fs)) := funext fun x => (canonical_erase _ hs x).symm
  rw [hc, ← unmarshal_erase _ hs, ← marshal_erase _ hs] at *
  simp only [ptrsOK3, noEmptyPtr3, hasType3, rty, rval, erase, reduce] at *
  rw [Lemmas.ProtoDepth.unmarshal_eq_unmarshalU _ _ hdep]
  exact unmarshal_marshal_partial_red (eraseFields fs) v hps ht hp hv hne hlen

theorem unmarshal_marshal_map_partial_ptrs (fs : Fields) (v : Val)
    (hty : tyOKM3 (.struct fs) = true) (hp : ptrsOK3 (.struct fs) v = true) (hv : hasTypeM3 (.struct fs) v = true)
    (hne : valOKM3 (.struct fs) v = true) (hlen : (marshal (.struct fs) v).length < 2 ^ 64)
    (hdep : Codec.nesting (codecOf (.struct fs)) ≤ Gen.c_proto_maxDepth) :
    ∃ v', unmarshal (.struct fs) (marshal (.struct fs) v) = .ok v'
      ∧ canonical (.struct fs) v' = canonical (.struct fs) v := by
  obtain ⟨hs, hps, ht⟩ := tyOKM3_struct hty
  rw [← nesting_erase hs] at hdep
  have hc : canonical (.struct fs) = canonical (erase (.struct fs)) := funext fun x => (canonical_erase _ hs x).symm
  rw [hc, ← unmarshal_erase _ hs, ← marshal_erase _ hs] at *
  simp only [ptrsOK3, valOKM3, hasTypeM3, rty, rval, erase, reduce] at *
  rw [Lemmas.ProtoDepth.unmarshal_eq_unmarshalU _ _ hdep]
  exact unmarshal_marshal_map_partial_red (eraseFields fs) v hps ht hp hv hne hlen

/-! ## C12 both ways, second half -/

theorem unmarshal_of_reference_decode_ptrs (fs : Fields) (hty : tyOK3 (.struct fs) = true) (b : Bytes) (v : Val)
    (hdep : Codec.nesting (codecOf (.struct fs)) ≤ Gen.c_proto_maxDepth)
    (h : Spec.Protobuf.decode (.struct fs) b = some v) : unmarshal (.struct fs) b = .ok v := by
  obtain ⟨hs, hps, ht⟩ := tyOK3_struct hty
  rw [← nesting_erase hs] at hdep
  rw [← decode_erase _ hs] at h
  rw [← unmarshal_erase _ hs]
  simp only [erase] at *
  rw [Lemmas.ProtoDepth.unmarshal_eq_unmarshalU _ _ hdep]
  exact unmarshal_of_decode_red (eraseFields fs) hps ht b v h

theorem unmarshal_iff_reference_decode_ptrs (fs : Fields) (hty : tyOK3 (.struct fs) = true)
    (hna : noArr3 (.struct fs) = true) (b : Bytes) (v : Val)
    (hdep : Codec.nesting (codecOf (.struct fs)) ≤ Gen.c_proto_maxDepth)
    (hz : ¬ ZeroNum (rfields fs) b) :
    unmarshal (.struct fs) b = .ok v ↔ Spec.Protobuf.decode (.struct fs) b = some v := by
  obtain ⟨hs, hps, ht⟩ := tyOK3_struct hty
  rw [← nesting_erase hs] at hdep
  rw [← decode_erase _ hs, ← unmarshal_erase _ hs]
  simp only [erase] at *
  rw [Lemmas.ProtoDepth.unmarshal_eq_unmarshalU _ _ hdep]
  exact unmarshal_iff_decode_red (eraseFields fs) hps ht (by simpa only [noArr3, rty, erase, reduce] using hna) b v hz

theorem unmarshal_of_reference_decode_maps_partial_ptrs (fs : Fields) (hty : tyOKM3 (.struct fs) = true) (b : Bytes)
    (v : Val) (hne : noEmptyEntry3 (.struct fs) b = true)
    (hdep : Codec.nesting (codecOf (.struct fs)) ≤ Gen.c_proto_maxDepth)
    (h : Spec.Protobuf.decode (.struct fs) b = some v) : unmarshal (.struct fs) b = .ok v := by
  obtain ⟨hs, hps, ht⟩ := tyOKM3_struct hty
  rw [← nesting_erase hs] at hdep
  rw [← decode_erase _ hs] at h
  rw [← unmarshal_erase _ hs]
  simp only [noEmptyEntry3, rty, erase, reduce] at *
  rw [Lemmas.ProtoDepth.unmarshal_eq_unmarshalU _ _ hdep]
  exact unmarshal_of_decode_map_partial_red (eraseFields fs) hps ht b v hne h

theorem unmarshal_accepts_reference_decode_maps_ptrs (fs : Fields) (hty : tyOKM3 (.struct fs) = true) (b : Bytes)
    (v : Val) (hdep : Codec.nesting (codecOf (.struct fs)) ≤ Gen.c_proto_maxDepth)
    (h : Spec.Protobuf.decode (.struct fs) b = some v) :
    ∃ v', unmarshal (.struct fs) b = .ok v' ∧ sh v v' = true := by
  obtain ⟨hs, hps, ht⟩ := tyOKM3_struct hty
  rw [← nesting_erase hs] at hdep
  rw [← decode_erase _ hs] at h
  rw [← unmarshal_erase _ hs]
  simp only [erase] at *
  rw [Lemmas.ProtoDepth.unmarshal_eq_unmarshalU _ _ hdep]
  exact unmarshal_accepts_of_decode_map_red (eraseFields fs) hps ht b v h

/-! ### on the old universes nothing changes: the reduced value is the value, `ptrsOK` holds -/

theorem reduceVS_notPtr (t : Ty) (v : Val) (h : Lemmas.ProtoWire.isPtr t = false) :
    reduceVS t v = reduceV t v ∧ ptrsOKS t v = ptrsOK t v := by
  cases t <;> simp only [Lemmas.ProtoWire.isPtr] at h <;> first
    | (exact absurd h (by decide))
    | (cases v <;> simp only [reduceV, reduceVS, ptrsOK, ptrsOKS, and_self])

theorem mapVals_id (f : Val → Val) (p : Val → Bool) (h : ∀ v, f v = v ∧ p v = true) :
    ∀ vs : Vals, mapVals f vs = vs ∧ allVals p vs = true
  | .nil => ⟨rfl, rfl⟩
  | .cons v r => by simp only [mapVals, allVals, (h v).1, (h v).2, (mapVals_id f p h r).1, (mapVals_id f p h r).2, and_self,
      Bool.and_self]

theorem mapVals2_id (f : Val → Val) (p : Val → Bool) (h : ∀ v, f v = v ∧ p v = true) :
    ∀ vs : Vals, mapVals2 f vs = vs ∧ allVals2 p vs = true
  | .nil => ⟨rfl, rfl⟩
  | .cons k .nil => ⟨rfl, rfl⟩
  | .cons k (.cons v r) => by
    simp only [mapVals2, allVals2, (h v).1, (h v).2, (mapVals2_id f p h r).1, (mapVals2_id f p h r).2, and_self,
      Bool.and_self]

mutual
theorem reduceV_id_of_tyOKM : ∀ (t : Ty) (v : Val), tyOKM t = true → reduceV t v = v ∧ ptrsOK t v = true
  | .ptr t, v, h => by
    simp only [tyOKM, Bool.and_eq_true] at h
    have hp : Lemmas.ProtoWire.isPtr t = false := by cases t <;> simp_all [ptrTarget, Lemmas.ProtoWire.isPtr]
    cases v <;> simp only [reduceV, ptrsOK, and_self]
    rename_i w
    simp only [(reduceVS_notPtr t w hp).1, (reduceVS_notPtr t w hp).2, (reduceV_id_of_tyOKM t w h.2).1,
      (reduceV_id_of_tyOKM t w h.2).2, and_self]
  | .slice t, v, h => by
    simp only [tyOKM, elemTy, Bool.and_eq_true, Bool.not_eq_true'] at h
    cases v <;> simp only [reduceV, ptrsOK, and_self]
    rename_i vs
    have := mapVals_id (reduceVS t) (ptrsOKS t) (fun w => by
      rw [(reduceVS_notPtr t w h.1.1.1).1, (reduceVS_notPtr t w h.1.1.1).2]; exact reduceV_id_of_tyOKM t w h.2) vs
    simp only [this.1, this.2, and_self]
  | .map k w, v, h => by
    simp only [tyOKM, Bool.and_eq_true] at h
    cases v <;> simp only [reduceV, ptrsOK, and_self]
    rename_i kvs
    have := mapVals2_id (reduceV w) (ptrsOK w) (fun x => reduceV_id_of_tyOKM w x h.2) kvs
    simp only [this.1, this.2, and_self]
  | .struct fs, v, h => by
    simp only [tyOKM, Bool.and_eq_true] at h
    cases v <;> simp only [reduceV, ptrsOK, and_self]
    rename_i vs
    simp only [(reduceVFields_id_of_fieldsOKM 1 fs vs h.1).1, (reduceVFields_id_of_fieldsOKM 1 fs vs h.1).2, and_self]
  | .bool, v, _ => by simp only [reduceV, ptrsOK, and_self]
  | .int _, v, _ => by simp only [reduceV, ptrsOK, and_self]
  | .f32, v, _ => by simp only [reduceV, ptrsOK, and_self]
  | .f64, v, _ => by simp only [reduceV, ptrsOK, and_self]
  | .str, v, _ => by simp only [reduceV, ptrsOK, and_self]
  | .bytes, v, _ => by simp only [reduceV, ptrsOK, and_self]
  | .any, v, _ => by simp only [reduceV, ptrsOK, and_self]
  | .arr _ _, v, _ => by simp only [reduceV, ptrsOK, and_self]
  | .named _ _, v, _ => by simp only [reduceV, ptrsOK, and_self]
theorem reduceVFields_id_of_fieldsOKM (pos : Nat) : ∀ (fs : Fields) (vs : Vals), fieldsOKM pos fs = true →
    reduceVFields fs vs = vs ∧ ptrsOKFields fs vs = true
  | .nil, vs, _ => by simp only [reduceVFields, ptrsOKFields, and_self]
  | .cons name tag emb t rest, .nil, _ => by simp only [reduceVFields, ptrsOKFields, and_self]
  | .cons name tag emb t rest, .cons v vs, h => by
    simp only [fieldsOKM, Bool.and_eq_true] at h
    simp only [reduceVFields, ptrsOKFields, (reduceV_id_of_tyOKM t v h.1.2).1, (reduceV_id_of_tyOKM t v h.1.2).2,
      (reduceVFields_id_of_fieldsOKM (pos + 1) rest vs h.2).1, (reduceVFields_id_of_fieldsOKM (pos + 1) rest vs h.2).2,
      and_self, Bool.and_self]
end

/-- **the `*_ptrs` theorems contain the `*_named` ones**: on a type of the old universe the new hypotheses are the old ones -/
theorem old_universe (t : Ty) (v : Val) (h : Lemmas.ProtoNamed.tyOKM2 t = true) :
    tyOKM3 t = true ∧ ptrsOK3 t v = true ∧ rty t = erase t ∧ rval t v = v := by
  have h' := h
  simp only [Lemmas.ProtoNamed.tyOKM2, Bool.and_eq_true] at h'
  exact ⟨tyOKM3_of_tyOKM2 t h, (reduceV_id_of_tyOKM _ v h'.2).2, reduce_id_of_tyOKM _ h'.2, (reduceV_id_of_tyOKM _ v h'.2).1⟩


/-! ## non-vacuity -/

/-- `struct{ Items []*Item; Next **Item; M map[string]*Item; Ns []*int32; PP ***int64; MM map[int32]**Item; L []**Item }`
with `type Item struct{X int32; S string}` -/
def exPFields : Fields :=
  .cons "Items" "" false (.slice (.ptr (.named "Item" (.struct exInner))))
    (.cons "Next" "" false (.ptr (.ptr (.named "Item" (.struct exInner))))
      (.cons "M" "" false (.map .str (.ptr (.named "Item" (.struct exInner))))
        (.cons "Ns" "" false (.slice (.ptr (.int .i32)))
          (.cons "PP" "" false (.ptr (.ptr (.ptr (.int .i64))))
            (.cons "MM" "" false (.map (.int .i32) (.ptr (.ptr (.named "Item" (.struct exInner)))))
              (.cons "L" "" false (.slice (.ptr (.ptr (.named "Item" (.struct exInner))))) .nil))))))
/-- its reduced form `struct{ Items []Item; Next *Item; M map[string]*Item; Ns []int32; PP *int64; MM map[int32]*Item; L []Item }` -/
def exRFields : Fields :=
  .cons "Items" "" false (.slice (.struct exInner))
    (.cons "Next" "" false (.ptr (.struct exInner))
      (.cons "M" "" false (.map .str (.ptr (.struct exInner)))
        (.cons "Ns" "" false (.slice (.int .i32))
          (.cons "PP" "" false (.ptr (.int .i64))
            (.cons "MM" "" false (.map (.int .i32) (.ptr (.struct exInner)))
              (.cons "L" "" false (.slice (.struct exInner)) .nil))))))
def item (x : Int) (s : Bytes) : Val := .struct (.cons (.int x) (.cons (.str s) .nil))
/-- `{Items: {&{1,"a"}, &{0,""}}, Next: &&{5,"x"}, M: {"k": &{7,"y"}}, Ns: {&3, &0}, PP: &&&9, MM: {1: &&{2,"z"}}, L: {&&{4,""}}}` -/
def exPVals : Vals := Vals.ofList [
  .list (Vals.ofList [.ptr (item 1 [97]), .ptr (item 0 [])]),
  .ptr (.ptr (item 5 [120])),
  .map (Vals.ofList [.str [107], .ptr (item 7 [121])]),
  .list (Vals.ofList [.ptr (.int 3), .ptr (.int 0)]),
  .ptr (.ptr (.ptr (.int 9))),
  .map (Vals.ofList [.int 1, .ptr (.ptr (item 2 [122]))]),
  .list (Vals.ofList [.ptr (.ptr (item 4 []))])]
def exRVals : Vals := Vals.ofList [
  .list (Vals.ofList [item 1 [97], item 0 []]),
  .ptr (item 5 [120]),
  .map (Vals.ofList [.str [107], .ptr (item 7 [121])]),
  .list (Vals.ofList [.int 3, .int 0]),
  .ptr (.int 9),
  .map (Vals.ofList [.int 1, .ptr (item 2 [122])]),
  .list (Vals.ofList [item 4 []])]

theorem exP_rfields : rfields exPFields = exRFields := by
  simp [rfields, exPFields, exRFields, exInner, eraseFields, erase, reduceFields, reduce, reduceS]
theorem exP_rvals : rvals exPFields exPVals = exRVals := by
  simp [rvals, exPFields, exPVals, exRVals, item, exInner, eraseFields, erase, reduceVFields, reduceV, reduceVS, mapVals, mapVals2,
    Vals.ofList]
theorem exP_safe : nameSafe (.struct exPFields) = true := by
  simp [exPFields, exInner, nameSafe, nameSafeFields, Lemmas.ProtoNamed.isU8, erase]
theorem exR_ty : tyOKM (.struct exRFields) = true := by
  simp [tyOKM, fieldsOKM, exRFields, exInner, tagAgreeM, tagAgreeMap, isMap, tagAgree_empty, fieldNums,
    fieldOpt_empty, modelTag_empty, supportedKind, ptrTarget, elemTy, Lemmas.ProtoWire.isPtr, isSlice, keyTy]
theorem exP_ty : tyOKM3 (.struct exPFields) = true := by
  have := exR_ty
  rw [← exP_rfields, ← rty_struct] at this
  simp only [tyOKM3, exP_safe, Bool.true_and]; exact this
theorem exP_ptrs : ptrsOK3 (.struct exPFields) (.struct exPVals) = true := by
  simp [ptrsOK3, exPFields, exPVals, item, exInner, eraseFields, erase, ptrsOK, ptrsOKS, ptrsOKFields, allVals, allVals2,
    Vals.ofList]
theorem exP_val : hasTypeM3 (.struct exPFields) (.struct exPVals) = true := by
  rw [hasTypeM3, rty_struct, rval_struct, exP_rfields, exP_rvals]; decide
theorem exP_ok : valOKM3 (.struct exPFields) (.struct exPVals) = true := by
  rw [valOKM3, rty_struct, rval_struct, exP_rfields, exP_rvals]
  simp [valOKM, valsOKM, valOKMapM, valOKListM, exRFields, exRVals, item, exInner, Vals.ofList, nonEmptyVals,
    payloadM, recordsOfM, recordsRM, fieldOpt_empty, intWire, Spec.Protobuf.encRec, IntKind.signed, leb128_ne_nil]
  decide

/-- the codec tree `structCodecOf` builds for `exPFields` (pointer codecs inside the slice codecs, chains of pointer codecs) -/
def exPCodec : CFields :=
  .cons 1 true true false (.slice (.ptr (.struct Lemmas.ProtoMap.Findings.exInnerC)) 1 .varlen true)
    (.cons 2 true false false (.ptr (.ptr (.struct Lemmas.ProtoMap.Findings.exInnerC)))
      (.cons 3 true true false (.map 3 .string (.ptr (.struct Lemmas.ProtoMap.Findings.exInnerC)) false true
          (.struct (.cons 1 false false false .string (.cons 2 true false false (.ptr (.struct Lemmas.ProtoMap.Findings.exInnerC)) .nil))))
        (.cons 4 false true false (.slice (.ptr .int32) 4 .varint false)
          (.cons 5 false false false (.ptr (.ptr (.ptr .int64)))
            (.cons 6 true true false (.map 6 .int32 (.ptr (.ptr (.struct Lemmas.ProtoMap.Findings.exInnerC))) false true
                (.struct (.cons 1 false false false .int32
                  (.cons 2 true false false (.ptr (.ptr (.struct Lemmas.ProtoMap.Findings.exInnerC))) .nil))))
              (.cons 7 true true false (.slice (.ptr (.ptr (.struct Lemmas.ProtoMap.Findings.exInnerC))) 7 .varlen true) .nil))))))
theorem exP_codec : fieldsOf 1 exPFields = exPCodec := by
  have hm : (lookupProtobuf "").bind parseStructTag = none := modelTag_empty
  simp [exPFields, exInner, exPCodec, Lemmas.ProtoMap.Findings.exInnerC, codecOf, fieldsOf, hm, fieldCodecOf, isStructBase, embBase, baseTy,
    Codec.wire]
theorem exP_len : (marshal (.struct exPFields) (.struct exPVals)).length < 2 ^ 64 := by
  rw [marshal_struct, exP_codec]; decide
theorem exP_depth : Codec.nesting (codecOf (.struct exPFields)) ≤ Gen.c_proto_maxDepth := by
  have : codecOf (.struct exPFields) = .struct (fieldsOf 1 exPFields) := by simp [codecOf]
  rw [this, exP_codec]; decide

/-- the hypotheses of the `*_ptrs` theorems are satisfiable -/
theorem exP_hyps : tyOKM3 (.struct exPFields) = true
    ∧ ptrsOK3 (.struct exPFields) (.struct exPVals) = true
    ∧ hasTypeM3 (.struct exPFields) (.struct exPVals) = true
    ∧ valOKM3 (.struct exPFields) (.struct exPVals) = true
    ∧ (marshal (.struct exPFields) (.struct exPVals)).length < 2 ^ 64
    ∧ Codec.nesting (codecOf (.struct exPFields)) ≤ Gen.c_proto_maxDepth :=
  ⟨exP_ty, exP_ptrs, exP_val, exP_ok, exP_len, exP_depth⟩

/-- … so the round trip holds for it -/
example : ∃ v', unmarshal (.struct exPFields) (marshal (.struct exPFields) (.struct exPVals)) = .ok v'
    ∧ canonical (.struct exPFields) v' = canonical (.struct exPFields) (.struct exPVals) :=
  unmarshal_marshal_map_partial_ptrs exPFields _ exP_ty exP_ptrs exP_val exP_ok exP_len exP_depth

/-- … and the reference decoder reads the same value -/
example : (Spec.Protobuf.decode (.struct exPFields) (marshal (.struct exPFields) (.struct exPVals))).map
      (canonical (.struct exPFields)) = some (canonical (.struct exPFields) (.struct exPVals)) :=
  reference_decodes_marshal_maps_partial_ptrs exPFields _ exP_ty exP_ptrs exP_val exP_ok exP_len

/-- the bytes are those of the reduced value of the reduced type -/
example : marshal (.struct exPFields) (.struct exPVals) = marshal (.struct exRFields) (.struct exRVals) := by
  rw [marshal_struct, marshal_struct, exP_codec]
  have : fieldsOf 1 exRFields = reduceCF exPCodec := by
    rw [← exP_codec, ← exP_rfields, rfields, fieldsOf_reduce 1 _ (tyOKM3_struct exP_ty).2.1,
      Lemmas.ProtoNamed.fieldsOf_erase 1 _ (by simpa only [nameSafe] using exP_safe)]
  rw [this]; decide

/-! ### … and for the map-free theorems (`tyOK3`), with a non-canonical input for the liberal direction -/

/-- `struct{ L []*int32; P **int32 }` -/
def exQFields : Fields :=
  .cons "L" "" false (.slice (.ptr (.int .i32))) (.cons "P" "" false (.ptr (.ptr (.int .i32))) .nil)
def exQR : Fields := .cons "L" "" false (.slice (.int .i32)) (.cons "P" "" false (.ptr (.int .i32)) .nil)
/-- `{L: {&3, &0}, P: &&0}` -/
def exQVals : Vals := Vals.ofList [.list (Vals.ofList [.ptr (.int 3), .ptr (.int 0)]), .ptr (.ptr (.int 0))]
def exQRVals : Vals := Vals.ofList [.list (Vals.ofList [.int 3, .int 0]), .ptr (.int 0)]

theorem exQ_rfields : rfields exQFields = exQR := by
  simp [rfields, exQFields, exQR, eraseFields, erase, reduceFields, reduce, reduceS]
theorem exQ_rvals : rvals exQFields exQVals = exQRVals := by
  simp [rvals, exQFields, exQVals, exQRVals, eraseFields, erase, reduceVFields, reduceV, reduceVS, mapVals, Vals.ofList]
theorem exQR_ty : tyOK (.struct exQR) = true := by
  simp [tyOK, fieldsOK, exQR, tagAgree_empty, fieldNums, fieldOpt_empty, supportedKind, ptrTarget, elemTy,
    Lemmas.ProtoWire.isPtr, isSlice]
theorem exQ_ty : tyOK3 (.struct exQFields) = true := by
  have := exQR_ty
  rw [← exQ_rfields, ← rty_struct] at this
  simp only [tyOK3, Bool.and_eq_true]
  exact ⟨by simp [exQFields, nameSafe, nameSafeFields, Lemmas.ProtoNamed.isU8, erase], this⟩
theorem exQ_codec : fieldsOf 1 exQFields
    = .cons 1 false true false (.slice (.ptr .int32) 1 .varint false) (.cons 2 false false false (.ptr (.ptr .int32)) .nil) := by
  have hm : (lookupProtobuf "").bind parseStructTag = none := modelTag_empty
  simp [exQFields, codecOf, fieldsOf, hm, fieldCodecOf, isStructBase, embBase, baseTy, Codec.wire]
theorem exQ_depth : Codec.nesting (codecOf (.struct exQFields)) ≤ Gen.c_proto_maxDepth := by
  have : codecOf (.struct exQFields) = .struct (fieldsOf 1 exQFields) := by simp [codecOf]
  rw [this, exQ_codec]; decide

theorem exQ_hyps : tyOK3 (.struct exQFields) = true
    ∧ ptrsOK3 (.struct exQFields) (.struct exQVals) = true
    ∧ hasType3 (.struct exQFields) (.struct exQVals) = true
    ∧ noEmptyPtr3 (.struct exQFields) (.struct exQVals) = true
    ∧ (marshal (.struct exQFields) (.struct exQVals)).length < 2 ^ 64
    ∧ Codec.nesting (codecOf (.struct exQFields)) ≤ Gen.c_proto_maxDepth := by
  refine ⟨exQ_ty, ?_, ?_, ?_, ?_, exQ_depth⟩
  · simp [ptrsOK3, exQFields, exQVals, eraseFields, erase, ptrsOK, ptrsOKS, ptrsOKFields, allVals, Vals.ofList]
  · rw [hasType3, rty_struct, rval_struct, exQ_rfields, exQ_rvals]; decide
  · rw [noEmptyPtr3, rty_struct, rval_struct, exQ_rfields, exQ_rvals]
    simp [noEmptyPtr, noEmptyPtrs, noEmptyPtrList, exQR, exQRVals, Vals.ofList, payload]
  · rw [marshal_struct, exQ_codec]; decide

/-- the bytes: `10 00 08 03 08 00` (the optional field first, then the repeated one) — every element and the chain's
pointee are written, also when zero -/
example : marshal (.struct exQFields) (.struct exQVals) = [0x10, 0x00, 0x08, 0x03, 0x08, 0x00] := by
  rw [marshal_struct, exQ_codec]; decide

/-- an input the reference accepts: `10 85 00 08 03` — `P` first, with a non-minimal varint, then one element of `L` -/
theorem exQ_ref : Spec.Protobuf.decode (.struct exQFields) [0x10, 0x85, 0x00, 0x08, 0x03]
    = some (.struct (Vals.ofList [.list (Vals.ofList [.ptr (.int 3)]), .ptr (.ptr (.int 5))])) := by
  simp [Spec.Protobuf.decode, exQFields, Spec.Protobuf.deref, Spec.Protobuf.decodeMsg, Spec.Protobuf.parse,
    Spec.Protobuf.readVarint, Spec.Protobuf.readVarint.go, Spec.Protobuf.decodeRecs,
    Spec.Protobuf.findField, Spec.Protobuf.findField.go, fieldOpt_empty, Spec.Protobuf.isRepeated, Spec.Protobuf.unname,
    Spec.Protobuf.decodeOne, Spec.Protobuf.zeroFields, Spec.Protobuf.zeroOf, Spec.Protobuf.valsGet,
    Spec.Protobuf.valsSet, Spec.Protobuf.wrapPtr, Spec.Protobuf.unwrapPtr, Vals.ofList, Vals.toList,
    Spec.Protobuf.toInt64, IntKind.signed, IntKind.inRange, IntKind.bits]
/-- … hence `Unmarshal` returns literally that value: fresh pointers around each element, a complete chain for `P` -/
example : unmarshal (.struct exQFields) [0x10, 0x85, 0x00, 0x08, 0x03]
    = .ok (.struct (Vals.ofList [.list (Vals.ofList [.ptr (.int 3)]), .ptr (.ptr (.int 5))])) :=
  unmarshal_of_reference_decode_ptrs exQFields exQ_ty _ _ exQ_depth exQ_ref

/-! ### the value hypothesis `ptrsOK3` excludes exactly the two witnesses of `ProtoPtrChains` -/

open Enc.Lemmas.ProtoPtrChains in
/-- `[]*int32{nil}` (written as the bare tag `08`: `nil_elem_not_wire`) is not admissible … -/
theorem nil_elem_excluded : ptrsOK3 (.struct lpF) (.struct (.cons (.list (.cons .nil .nil)) .nil)) = false := by
  simp [ptrsOK3, lpF, erase, eraseFields, ptrsOK, ptrsOKS, ptrsOKFields, allVals]
open Enc.Lemmas.ProtoPtrChains in
/-- … nor is `**int32` pointing to a nil `*int32` (writes nothing, comes back nil: `ptr_to_nil_ptr_lost`) -/
theorem ptr_to_nil_excluded : ptrsOK3 (.struct ppF) (.struct (.cons (.ptr .nil) .nil)) = false := by
  simp [ptrsOK3, ppF, erase, eraseFields, ptrsOK, ptrsOKS, ptrsOKFields]

#print axioms struct_bytes_maps_ptrs
#print axioms reference_decodes_marshal_maps_partial_ptrs
#print axioms unmarshal_marshal_map_partial_ptrs
#print axioms unmarshal_of_reference_decode_maps_partial_ptrs
#print axioms unmarshal_iff_reference_decode_ptrs
#print axioms unmarshal_accepts_reference_decode_maps_ptrs
#print axioms marshal_red
#print axioms unmarshalU_red
#print axioms decode_reduce
#print axioms canonical_lift

end Enc.Lemmas.ProtoPtrs
