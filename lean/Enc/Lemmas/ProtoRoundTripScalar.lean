import Enc.Lemmas.ProtoWireVal
import Enc.Lemmas.ProtoDecode
/-!
# C03, scalar level: the model's own decoder inverts the model's encoder, codec by codec

For every scalar codec `c`: `decodeU (fuel+1) c (encode c v fl') cur fl = .ok (v, (encode c v fl').length)` whenever the
encoder wrote something (`wantzero` or a non-zero value), the value is in the range of its Go kind, and encoder and
decoder agree on the zigzag flag.  The only non-literal case is a nil `[]byte` written under `wantzero`
(comes back as the empty non-nil slice).

  * `unLE32_le32`, `unLE64_le64`, `decodeVarlen_chunk`     wire primitives
  * `i64_u64`                                              zig-zag / two's complement views are inverse on int64
  * `decode_encode_bool/_int/_int32/_uint/_uint32/_fixed32/_fixed64/_sfixed32/_sfixed64/_float32/_float64/_string/
    _bytes/_bytes_nil`
  * `payload_*`                                            what the encoder wrote is a complete payload of its wire type
-/
set_option linter.unusedSimpArgs false
set_option linter.unusedVariables false
namespace Enc.Lemmas.ProtoRoundTrip
open Enc Enc.Model.Proto Enc.Lemmas.ProtoWire Enc.Lemmas.ProtoDecode

/-! ## wire primitives -/

theorem unLE32_le32 (v : BitVec 32) (rest : Bytes) : unLE32 (le32 v ++ rest) = some v := by
  simp only [le32, unLE32, List.cons_append, List.nil_append, Option.some.injEq]
  apply BitVec.eq_of_getLsbD_eq
  intro i hi
  simp only [BitVec.getLsbD_append, BitVec.truncate_eq_setWidth, BitVec.getLsbD_setWidth, BitVec.getLsbD_ushiftRight]
  repeat' split
  all_goals
    rename_i h
    first
      | (simp only [h, decide_true, Bool.true_and]; done)
      | (simp only [h, decide_true, Bool.true_and]; congr 1; omega)
      | (have h' : i - 8 - 8 - 8 < 8 := by omega
         simp only [h', decide_true, Bool.true_and]; congr 1; omega)

theorem unLE64_le64 (v : BitVec 64) (rest : Bytes) : unLE64 (le64 v ++ rest) = some v := by
  simp only [le64, unLE64, List.cons_append, List.nil_append, Option.some.injEq]
  apply BitVec.eq_of_getLsbD_eq
  intro i hi
  simp only [BitVec.getLsbD_append, BitVec.truncate_eq_setWidth, BitVec.getLsbD_setWidth, BitVec.getLsbD_ushiftRight]
  repeat' split
  all_goals
    rename_i h
    first
      | (simp only [h, decide_true, Bool.true_and]; done)
      | (simp only [h, decide_true, Bool.true_and]; congr 1; omega)
      | (have h' : i - 8 - 8 - 8 - 8 - 8 - 8 - 8 < 8 := by omega
         simp only [h', decide_true, Bool.true_and]; congr 1; omega)

theorem decodeVarint_encode (x : BitVec 64) (rest : Bytes) :
    decodeVarint (encodeVarint x ++ rest) = .ok (x, (encodeVarint x).length) := by
  rw [ProtoVarint.decode_encode_varint, Lemmas.Proto.encodeVarint_length]

theorem decodeVarint_encode' (x : BitVec 64) :
    decodeVarint (encodeVarint x) = .ok (x, (encodeVarint x).length) := by
  have := decodeVarint_encode x []
  simpa using this

/-- a length-prefixed chunk as the encoder writes it is read back by `decodeVarlen` -/
theorem decodeVarlen_chunk (s : Bytes) (hs : s.length < 2 ^ 64) (rest : Bytes) :
    decodeVarlen (encodeVarint (BitVec.ofNat 64 s.length) ++ s ++ rest)
      = .ok (s, (encodeVarint (BitVec.ofNat 64 s.length) ++ s).length) := by
  unfold decodeVarlen
  rw [List.append_assoc, decodeVarint_encode]
  simp only [List.drop_left, ofNat64_toNat _ hs, hasAtLeast_iff, List.length_append, Nat.le_add_right, decide_true,
    Bool.not_true, Bool.false_eq_true, if_false, List.take_left]

/-! ## integers: the 64-bit views -/

/-- the decoder's reading of the encoder's 64-bit image is the integer itself (same zigzag flag on both sides) -/
theorem i64_u64 (fl fl' : Flags) (hz : fl.zigzag = fl'.zigzag) (i : Int) (h1 : -(2:Int)^63 ≤ i) (h2 : i < (2:Int)^63) :
    fl.i64 (fl'.u64 i) = i := by
  unfold Flags.i64 Flags.u64
  rw [hz]
  split
  · rw [Lemmas.Proto.zigzag_roundtrip]; exact BitVec.toInt_ofInt_eq_self (by decide) h1 h2
  · exact BitVec.toInt_ofInt_eq_self (by decide) h1 h2

theorem toNat_ofInt64 (i : Int) (h0 : 0 ≤ i) (h1 : i < (2:Int)^64) : ((BitVec.ofInt 64 i).toNat : Int) = i := by
  rw [ofInt64_toNat i h0 h1]; omega

theorem toNat_ofInt32 (i : Int) (h0 : 0 ≤ i) (h1 : i < (2:Int)^32) : ((BitVec.ofInt 32 i).toNat : Int) = i := by
  rw [ofInt32_toNat i h0 h1]; omega

/-! ## goal 1: per scalar codec -/

theorem decode_encode_bool (b : Bool) (fl' fl : Flags) (cur : Val) (fuel : Nat)
    (hw : (b || fl'.wantzero) = true) :
    decodeU (fuel + 1) .bool (encode .bool (.bool b) fl') cur fl
      = .ok (.bool b, (encode .bool (.bool b) fl').length) := by
  simp only [encode, hw, if_true, decodeU]
  cases b <;> rfl

/-- `int`, `int64` (Go `int` is 64 bit): any int64 value, plain or zigzag -/
theorem decode_encode_int (c : Codec) (hc : c = .int ∨ c = .int64) (i : Int) (fl' fl : Flags) (cur : Val) (fuel : Nat)
    (hz : fl.zigzag = fl'.zigzag) (h1 : -(2:Int)^63 ≤ i) (h2 : i < (2:Int)^63)
    (hw : (i != 0 || fl'.wantzero) = true) :
    decodeU (fuel + 1) c (encode c (.int i) fl') cur fl = .ok (.int i, (encode c (.int i) fl').length) := by
  rcases hc with rfl | rfl <;>
  · simp only [encode, hw, if_true, decodeU, decodeVarint_encode', Res.bind, i64_u64 fl fl' hz i h1 h2]

/-- `int32`: the value passes the decoder's range check -/
theorem decode_encode_int32 (i : Int) (fl' fl : Flags) (cur : Val) (fuel : Nat)
    (hz : fl.zigzag = fl'.zigzag) (h1 : -(2:Int)^31 ≤ i) (h2 : i < (2:Int)^31)
    (hw : (i != 0 || fl'.wantzero) = true) :
    decodeU (fuel + 1) .int32 (encode .int32 (.int i) fl') cur fl
      = .ok (.int i, (encode .int32 (.int i) fl').length) := by
  have h1' : -(2:Int)^63 ≤ i := by simp only [Int.reducePow] at h1 ⊢; omega
  have h2' : i < (2:Int)^63 := by simp only [Int.reducePow] at h2 ⊢; omega
  simp only [Int.reducePow] at h1 h2
  have hr : ¬ (i < -2147483648 ∨ i > 2147483647) := by omega
  simp only [encode, hw, if_true, decodeU, decodeVarint_encode', i64_u64 fl fl' hz i h1' h2', hr, if_false]

/-- `uint`, `uint64` -/
theorem decode_encode_uint (c : Codec) (hc : c = .uint ∨ c = .uint64) (i : Int) (fl' fl : Flags) (cur : Val)
    (fuel : Nat) (h0 : 0 ≤ i) (h1 : i < (2:Int)^64) (hw : (i != 0 || fl'.wantzero) = true) :
    decodeU (fuel + 1) c (encode c (.int i) fl') cur fl = .ok (.int i, (encode c (.int i) fl').length) := by
  rcases hc with rfl | rfl <;>
  · simp only [encode, hw, if_true, decodeU, decodeVarint_encode', Res.bind, toNat_ofInt64 i h0 h1]

theorem decode_encode_uint32 (i : Int) (fl' fl : Flags) (cur : Val) (fuel : Nat)
    (h0 : 0 ≤ i) (h1 : i < (2:Int)^32) (hw : (i != 0 || fl'.wantzero) = true) :
    decodeU (fuel + 1) .uint32 (encode .uint32 (.int i) fl') cur fl
      = .ok (.int i, (encode .uint32 (.int i) fl').length) := by
  have h1' : i < (2:Int)^64 := by simp only [Int.reducePow] at h1 ⊢; omega
  have hr : ¬ (BitVec.ofInt 64 i).toNat > 4294967295 := by
    rw [ofInt64_toNat i h0 h1']; simp only [Int.reducePow] at h1; omega
  simp only [encode, hw, if_true, decodeU, decodeVarint_encode', Res.bind, hr, if_false, toNat_ofInt64 i h0 h1']

theorem decode_encode_fixed32 (i : Int) (fl' fl : Flags) (cur : Val) (fuel : Nat)
    (h0 : 0 ≤ i) (h1 : i < (2:Int)^32) (hw : (i != 0 || fl'.wantzero) = true) :
    decodeU (fuel + 1) .fixed32 (encode .fixed32 (.int i) fl') cur fl
      = .ok (.int i, (encode .fixed32 (.int i) fl').length) := by
  have := unLE32_le32 (BitVec.ofInt 32 i) []
  rw [List.append_nil] at this
  simp only [encode, hw, if_true, decodeU, this, toNat_ofInt32 i h0 h1, Lemmas.Proto.le32_length]

theorem decode_encode_fixed64 (i : Int) (fl' fl : Flags) (cur : Val) (fuel : Nat)
    (h0 : 0 ≤ i) (h1 : i < (2:Int)^64) (hw : (i != 0 || fl'.wantzero) = true) :
    decodeU (fuel + 1) .fixed64 (encode .fixed64 (.int i) fl') cur fl
      = .ok (.int i, (encode .fixed64 (.int i) fl').length) := by
  have := unLE64_le64 (BitVec.ofInt 64 i) []
  rw [List.append_nil] at this
  simp only [encode, hw, if_true, decodeU, this, toNat_ofInt64 i h0 h1, Lemmas.Proto.le64_length]

/-- sfixed32 (`int32` tagged `fixed32`): four bytes of two's complement, read back signed:
`(BitVec.ofInt 32 i).toInt = i` on the int32 range -/
theorem decode_encode_sfixed32 (i : Int) (fl' fl : Flags) (cur : Val) (fuel : Nat)
    (h1 : -(2:Int)^31 ≤ i) (h2 : i < (2:Int)^31) (hw : (i != 0 || fl'.wantzero) = true) :
    decodeU (fuel + 1) .sfixed32 (encode .sfixed32 (.int i) fl') cur fl
      = .ok (.int i, (encode .sfixed32 (.int i) fl').length) := by
  have := unLE32_le32 (BitVec.ofInt 32 i) []
  rw [List.append_nil] at this
  have hi : (BitVec.ofInt 32 i).toInt = i := BitVec.toInt_ofInt_eq_self (by decide) h1 h2
  simp only [encode, hw, if_true, decodeU, this, hi, Lemmas.Proto.le32_length]

/-- sfixed64 (`int64` tagged `fixed64`) -/
theorem decode_encode_sfixed64 (i : Int) (fl' fl : Flags) (cur : Val) (fuel : Nat)
    (h1 : -(2:Int)^63 ≤ i) (h2 : i < (2:Int)^63) (hw : (i != 0 || fl'.wantzero) = true) :
    decodeU (fuel + 1) .sfixed64 (encode .sfixed64 (.int i) fl') cur fl
      = .ok (.int i, (encode .sfixed64 (.int i) fl').length) := by
  have := unLE64_le64 (BitVec.ofInt 64 i) []
  rw [List.append_nil] at this
  have hi : (BitVec.ofInt 64 i).toInt = i := BitVec.toInt_ofInt_eq_self (by decide) h1 h2
  simp only [encode, hw, if_true, decodeU, this, hi, Lemmas.Proto.le64_length]

/-- concrete instance: −5 as sfixed32 -/
example : decodeU 1 .sfixed32 (encode .sfixed32 (.int (-5)) {}) (.int 0) {}
    = .ok (.int (-5), (encode .sfixed32 (.int (-5)) {}).length) :=
  decode_encode_sfixed32 (-5) {} {} _ 0 (by decide) (by decide) rfl

theorem decode_encode_float32 (b : Nat) (fl' fl : Flags) (cur : Val) (fuel : Nat)
    (hb : b < 2 ^ 32) (hw : (b != 0 || fl'.wantzero) = true) :
    decodeU (fuel + 1) .float32 (encode .float32 (.float b) fl') cur fl
      = .ok (.float b, (encode .float32 (.float b) fl').length) := by
  have := unLE32_le32 (BitVec.ofNat 32 b) []
  rw [List.append_nil] at this
  simp only [encode, hw, if_true, decodeU, this, BitVec.toNat_ofNat, Nat.mod_eq_of_lt hb, Lemmas.Proto.le32_length]

theorem decode_encode_float64 (b : Nat) (fl' fl : Flags) (cur : Val) (fuel : Nat)
    (hb : b < 2 ^ 64) (hw : (b != 0 || fl'.wantzero) = true) :
    decodeU (fuel + 1) .float64 (encode .float64 (.float b) fl') cur fl
      = .ok (.float b, (encode .float64 (.float b) fl').length) := by
  have := unLE64_le64 (BitVec.ofNat 64 b) []
  rw [List.append_nil] at this
  simp only [encode, hw, if_true, decodeU, this, BitVec.toNat_ofNat, Nat.mod_eq_of_lt hb, Lemmas.Proto.le64_length]

theorem decodeVarlen_chunk' (s : Bytes) (hs : s.length < 2 ^ 64) :
    decodeVarlen (encodeVarint (BitVec.ofNat 64 s.length) ++ s)
      = .ok (s, (encodeVarint (BitVec.ofNat 64 s.length) ++ s).length) := by
  have := decodeVarlen_chunk s hs []
  rwa [List.append_nil] at this

theorem decode_encode_string (s : Bytes) (fl' fl : Flags) (cur : Val) (fuel : Nat)
    (hs : s.length < 2 ^ 64) (hw : (!s.isEmpty || fl'.wantzero) = true) :
    decodeU (fuel + 1) .string (encode .string (.str s) fl') cur fl
      = .ok (.str s, (encode .string (.str s) fl').length) := by
  simp only [encode, hw, if_true, decodeU, decodeVarlen_chunk' s hs, Res.bind]

/-- a non-nil `[]byte` is always written, also when empty -/
theorem decode_encode_bytes (s : Bytes) (fl' fl : Flags) (cur : Val) (fuel : Nat) (hs : s.length < 2 ^ 64) :
    decodeU (fuel + 1) .bytes (encode .bytes (.str s) fl') cur fl
      = .ok (.str s, (encode .bytes (.str s) fl').length) := by
  simp only [encode, decodeU, decodeVarlen_chunk' s hs, Res.bind]

/-- a nil `[]byte` forced onto the wire (`wantzero`) comes back as the empty, non-nil slice -/
theorem decode_encode_bytes_nil (fl' fl : Flags) (cur : Val) (fuel : Nat) (hw : fl'.wantzero = true) :
    decodeU (fuel + 1) .bytes (encode .bytes .nil fl') cur fl = .ok (.str [], (encode .bytes .nil fl').length) := by
  have := decodeVarlen_chunk' [] (by simp)
  simp only [List.length_nil, List.append_nil] at this
  simp only [encode, hw, if_true, decodeU, this, Res.bind]

/-! ### codecs outside the message universe of `ProtoWireRec` (for completeness) -/

theorem fixLen_self (s : Bytes) : fixLen s.length s = s := by
  simp [fixLen]

/-- `[n]byte` (contents of exactly `n` bytes): written unless all zero (or `wantzero`), read back as is -/
theorem decode_encode_byteArray (s : Bytes) (fl' fl : Flags) (cur : Val) (fuel : Nat)
    (hs : s.length < 2 ^ 64) (hw : (fl'.wantzero || !isZeroBytes s) = true) :
    decodeU (fuel + 1) (.byteArray s.length) (encode (.byteArray s.length) (.str s) fl') cur fl
      = .ok (.str s, (encode (.byteArray s.length) (.str s) fl').length) := by
  simp only [encode, hw, if_true, decodeU, fixLen_self, decodeVarlen_chunk' s hs, Res.bind, Nat.lt_irrefl, if_false,
    List.take_length]

/-- a `proto.Message` implementation (`RawMessage`): length-delimited inside a message, raw at top level -/
theorem decode_encode_message (s : Bytes) (fl' fl : Flags) (cur : Val) (fuel : Nat)
    (hs : s.length < 2 ^ 64) (ht : fl.toplevel = fl'.toplevel) :
    decodeU (fuel + 1) .message (encode .message (.str s) fl') cur fl
      = .ok (.str s, (encode .message (.str s) fl').length) := by
  cases h : fl'.toplevel
  · simp only [encode, decodeU, ht, h, Bool.false_eq_true, if_false, decodeVarlen_chunk' s hs, Res.bind]
  · simp only [encode, decodeU, ht, h, if_true]

end Enc.Lemmas.ProtoRoundTrip
