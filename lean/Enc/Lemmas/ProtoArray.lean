import Enc.Lemmas.ProtoMap
import Enc.Lemmas.ProtoLiberal
import Enc.Lemmas.ProtoLiberalMap
/-!
# proto: byte arrays `[N]byte` inside the round-trip / wire-format theorems — examples and the one exclusion

`[N]byte` fields are part of `tyOK` / `tyOKM` (`ProtoWireRec.tyOK (.arr _ e) = isByte e`): as plain fields, behind a
pointer (`*[N]byte`), as elements of a repeated field (`[][N]byte`) and as map values. Facts used by the proofs:

  * value predicate      `hasType (.arr n _) (.str s) = (s.length = n)`
  * records              `payload wz (.arr _ _) _ (.str s) = if !isZeroBytes s || wz then some (.len s) else none`: one LEN
                         record holding the N bytes; the all-zero array is the default value and is left out, except
                         where `wantzero` forces it (behind a set pointer, as an element, as a map value, first field of a
                         message written under `wantzero`)
  * decoding             the Go decoder takes the first N bytes of the chunk and fails on a shorter one (`copy(...) != N`);
                         the reference accepts a chunk of exactly N bytes. So everything the reference accepts is read alike
                         (`unmarshal_of_decode`, no new hypothesis), but the CONVERSE (`unmarshal_iff_decode`,
                         `decode_of_unmarshal`) needs `noArr`: `long_array_differs` below.

This file: non-vacuity of every main theorem on concrete message types with byte arrays, and the witness.
-/
set_option linter.unusedSimpArgs false
set_option linter.unusedVariables false
namespace Enc.Lemmas.ProtoArray
open Enc Enc.Model.Proto Enc.Lemmas.ProtoWire Enc.Lemmas.ProtoMap Enc.Lemmas.ProtoLiberal Enc.Lemmas.ProtoLiberalMap
open Enc.Lemmas.ProtoRoundTrip
open Enc.Spec.Protobuf (canonical decodeMsg decodeRecs decodeOne parse readVarint findField fieldOpt deref unname isRepeated
  valsGet valsSet wrapPtr unwrapPtr)

def byteArr (n : Nat) : Ty := .arr n (.int .u8)

/-! ## a plain message: `struct{ H [4]byte; N int32; Z [2]byte }` with `Z` all zero (elided on the wire) -/

def exPlain : Fields :=
  .cons "H" "" false (byteArr 4) (.cons "N" "" false (.int .i32) (.cons "Z" "" false (byteArr 2) .nil))
def exPlainV : Vals := .cons (.str [1, 2, 3, 4]) (.cons (.int 5) (.cons (.str [0, 0]) .nil))
def exPlainC : CFields :=
  .cons 1 false false false (.byteArray 4) (.cons 2 false false false .int32 (.cons 3 false false false (.byteArray 2) .nil))

theorem exPlain_ty : tyOK (.struct exPlain) = true := by
  simp [tyOK, fieldsOK, exPlain, byteArr, isByte, tagAgree_empty, fieldNums, fieldOpt_empty, supportedKind]
theorem exPlain_codec : fieldsOf 1 exPlain = exPlainC := by
  have hm : (lookupProtobuf "").bind parseStructTag = none := modelTag_empty
  simp [exPlain, byteArr, exPlainC, fieldsOf, hm, fieldCodecOf, codecOf, isStructBase, embBase, baseTy]
theorem exPlain_val : hasType (.struct exPlain) (.struct exPlainV) = true := by decide
theorem exPlain_len : (marshal (.struct exPlain) (.struct exPlainV)).length < 2 ^ 64 := by
  rw [marshal_struct, exPlain_codec]; decide

/-- the bytes: `0a 04 01 02 03 04 10 05` — one LEN record for `H`, nothing for the zero array `Z` -/
example : marshal (.struct exPlain) (.struct exPlainV) = [0x0a, 4, 1, 2, 3, 4, 0x10, 5] := by
  rw [marshal_struct, exPlain_codec]; decide

/-- `struct_bytes` applies -/
example : marshal (.struct exPlain) (.struct exPlainV) = encRecs (allRecords false exPlain exPlainV) := by
  rw [marshal_struct]
  exact struct_bytes exPlain exPlainV _ exPlain_ty (by simpa [hasType] using exPlain_val) rfl
    (by rw [← marshal_struct]; exact exPlain_len)

/-- literal round trips (reference decoder and model decoder): the elided zero array comes back as `[0, 0]` -/
example : Spec.Protobuf.decode (.struct exPlain) (marshal (.struct exPlain) (.struct exPlainV)) = some (.struct exPlainV) :=
  decode_marshal_scalar exPlain _ exPlain_ty (by decide) exPlain_val exPlain_len
example : unmarshalU (.struct exPlain) (marshal (.struct exPlain) (.struct exPlainV)) = .ok (.struct exPlainV) :=
  unmarshal_marshal_scalar exPlain _ exPlain_ty (by decide) exPlain_val exPlain_len

/-! ## arrays behind a pointer, as repeated elements, as map values -/

/-- `struct{ H [4]byte; P *[2]byte; L [][3]byte; Z [2]byte; M map[string][2]byte }` -/
def exArr : Fields :=
  .cons "H" "" false (byteArr 4) (.cons "P" "" false (.ptr (byteArr 2)) (.cons "L" "" false (.slice (byteArr 3))
    (.cons "Z" "" false (byteArr 2) (.cons "M" "" false (.map .str (byteArr 2)) .nil))))
/-- `{H: {1,2,3,4}, P: &{0,0}, L: {{0,0,0},{7,8,9}}, Z: {0,0}, M: {"a": {0,0}}}`: the zero arrays behind the pointer, in
the list and in the map ARE written, the zero field `Z` is not -/
def exArrV : Vals :=
  Vals.ofList [.str [1, 2, 3, 4], .ptr (.str [0, 0]), .list (Vals.ofList [.str [0, 0, 0], .str [7, 8, 9]]), .str [0, 0],
    .map (Vals.ofList [.str [97], .str [0, 0]])]
def exArrC : CFields :=
  .cons 1 false false false (.byteArray 4) (.cons 2 false false false (.ptr (.byteArray 2))
    (.cons 3 false true false (.slice (.byteArray 3) 3 .varlen false)
      (.cons 4 false false false (.byteArray 2)
        (.cons 5 true true false (.map 5 .string (.byteArray 2) false false
          (.struct (.cons 1 false false false .string (.cons 2 false false false (.byteArray 2) .nil)))) .nil))))

theorem exArr_ty : tyOKM (.struct exArr) = true := by
  simp [tyOKM, fieldsOKM, exArr, byteArr, isByte, tagAgreeM, tagAgreeMap, isMap, tagAgree_empty, fieldNums, fieldOpt_empty,
    modelTag_empty, supportedKind, ptrTarget, elemTy, isPtr, isSlice, keyTy]
theorem exArr_codec : fieldsOf 1 exArr = exArrC := by
  have hm : (lookupProtobuf "").bind parseStructTag = none := modelTag_empty
  simp [exArr, byteArr, exArrC, codecOf, fieldsOf, hm, fieldCodecOf, isStructBase, embBase, baseTy, Codec.wire]
theorem exArr_val : hasTypeM (.struct exArr) (.struct exArrV) = true := by decide
theorem exArr_ok : valOKM (.struct exArr) (.struct exArrV) = true := by
  simp [valOKM, valsOKM, valOKMapM, valOKListM, exArr, exArrV, byteArr, Vals.ofList, nonEmptyVals, payloadM, keysDistinct,
    keysDistinct.allFresh]
theorem exArr_len : (marshal (.struct exArr) (.struct exArrV)).length < 2 ^ 64 := by
  rw [marshal_struct, exArr_codec]; decide

example : marshal (.struct exArr) (.struct exArrV)
    = [0x0a, 4, 1, 2, 3, 4, 0x12, 2, 0, 0, 0x1a, 3, 0, 0, 0, 0x1a, 3, 7, 8, 9, 0x2a, 7, 0x0a, 1, 97, 0x12, 2, 0, 0] := by
  rw [marshal_struct, exArr_codec]; decide

/-- bytes = records -/
example : marshal (.struct exArr) (.struct exArrV) = encRecs (allRecordsM false exArr exArrV) := by
  rw [marshal_struct]
  exact struct_bytesM exArr exArrV _ exArr_ty (by simpa [hasTypeM] using exArr_val) rfl
    (by rw [← marshal_struct]; exact exArr_len)

/-- the reference decoder reads them back -/
example : (Spec.Protobuf.decode (.struct exArr) (marshal (.struct exArr) (.struct exArrV))).map
      (canonical (.struct exArr)) = some (canonical (.struct exArr) (.struct exArrV)) :=
  decode_marshal_map_partial exArr _ exArr_ty exArr_val exArr_ok exArr_len

/-- the model decoder reads them back -/
example : ∃ v', unmarshalU (.struct exArr) (marshal (.struct exArr) (.struct exArrV)) = .ok v'
    ∧ canonical (.struct exArr) v' = canonical (.struct exArr) (.struct exArrV) :=
  unmarshal_marshal_map_partial exArr _ exArr_ty exArr_val exArr_ok exArr_len

theorem exArr_depth : Codec.nesting (codecOf (.struct exArr)) ≤ Gen.c_proto_maxDepth := by
  have : codecOf (.struct exArr) = .struct (fieldsOf 1 exArr) := by simp [codecOf]
  rw [this, exArr_codec]; decide

/-! ## the liberal direction and its converse -/

def arr2 : Fields := .cons "H" "" false (byteArr 2) .nil
theorem arr2_ty : tyOK (.struct arr2) = true := by
  simp [tyOK, fieldsOK, arr2, byteArr, isByte, tagAgree_empty, fieldNums, fieldOpt_empty]
theorem arr2_codec : codecOf (.struct arr2) = .struct (.cons 1 false false false (.byteArray 2) .nil) := by
  have hm : (lookupProtobuf "").bind parseStructTag = none := modelTag_empty
  simp [arr2, byteArr, codecOf, fieldsOf, hm, fieldCodecOf, isStructBase, embBase, baseTy]

/-- a non-minimal length token in front of exactly two bytes: the reference accepts, hence so does `Unmarshal`, with the
same value (instance of `unmarshal_of_decode`) -/
theorem arr2_exact_ref : Spec.Protobuf.decode (.struct arr2) [0x0a, 0x82, 0x00, 1, 2] = some (.struct (.cons (.str [1, 2]) .nil)) := by
  simp [Spec.Protobuf.decode, arr2, byteArr, deref, decodeMsg, parse, readVarint, readVarint.go, decodeRecs,
    findField, findField.go, fieldOpt_empty, isRepeated, unname, decodeOne, Spec.Protobuf.zeroFields,
    Spec.Protobuf.zeroOf, valsGet, valsSet, wrapPtr, unwrapPtr]
example : unmarshalU (.struct arr2) [0x0a, 0x82, 0x00, 1, 2] = .ok (.struct (.cons (.str [1, 2]) .nil)) :=
  unmarshal_of_decode arr2 arr2_ty _ _ arr2_exact_ref

theorem long_model : unmarshalU (.struct arr2) [0x0a, 3, 1, 2, 3] = .ok (.struct (.cons (.str [1, 2]) .nil)) := by
  unfold unmarshalU; rw [arr2_codec]; rfl
theorem long_ref : Spec.Protobuf.decode (.struct arr2) [0x0a, 3, 1, 2, 3] = none := by
  simp [Spec.Protobuf.decode, arr2, byteArr, deref, decodeMsg, parse, readVarint, readVarint.go, decodeRecs,
    findField, findField.go, fieldOpt_empty, isRepeated, unname, decodeOne, Spec.Protobuf.zeroFields,
    Spec.Protobuf.zeroOf, valsGet, valsSet, wrapPtr, unwrapPtr]

open Enc.Lemmas.ProtoRewriteSpec (VTok wireNum) in
open Enc.Spec.Protobuf (WireVal) in
section
/-- a token that starts with a byte below 0x80 is that byte -/
theorem vtok_one (c : UInt8) (hc : c.toNat < 128) (ptag r rest : Bytes) (tag : Nat) (h : VTok ptag tag)
    (e : ptag ++ r = c :: rest) : ptag = [c] ∧ tag = c.toNat ∧ r = rest := by
  have h1 := h.rd r
  rw [e] at h1
  have h2 : readVarint (c :: rest) = some (c.toNat, rest) := by
    have h64 : c.toNat % 2 ^ 64 = c.toNat := Nat.mod_eq_of_lt (by omega)
    simp [readVarint, readVarint.go, hc, h64]
  rw [h2] at h1
  simp only [Option.some.injEq, Prod.mk.injEq] at h1
  obtain ⟨rfl, rfl⟩ := h1
  refine ⟨?_, rfl, rfl⟩
  have : ptag ++ rest = [c] ++ rest := by simpa using e
  exact List.append_cancel_right this

theorem zeroNum_nil (fs : Fields) (b : Bytes) (hb : b = []) (h : ZeroNum fs b) : False := by
  cases h with
  | here _ ptag rest tag ht _ =>
    have := ht.length_pos
    have := congrArg List.length hb; simp only [List.length_append, List.length_nil] at this; omega
  | skip _ ptag p m tag w ht _ _ _ _ =>
    have := ht.length_pos
    have := congrArg List.length hb; simp only [List.length_append, List.length_nil] at this; omega
  | inside _ fs' ptag pl body m tag i o t ht _ _ _ _ _ _ =>
    have := ht.length_pos
    have := congrArg List.length hb; simp only [List.length_append, List.length_nil] at this; omega

theorem long_not_zeroNum (b : Bytes) (hb : b = [0x0a, 3, 1, 2, 3]) : ¬ ZeroNum arr2 b := by
  intro h
  cases h with
  | here _ ptag rest tag ht h0 =>
    obtain ⟨_, rfl, _⟩ := vtok_one 0x0a (by decide) ptag rest _ tag ht hb
    exact absurd h0 (by decide)
  | skip _ ptag p m tag w ht hn h8 hp hz =>
    rw [List.append_assoc] at hb
    obtain ⟨_, rfl, hpm⟩ := vtok_one 0x0a (by decide) ptag (p ++ m) _ tag ht hb
    cases w <;> simp only [wireNum] at h8 <;> try (exact absurd h8 (by decide))
    rename_i body
    obtain ⟨pl, hl, rfl⟩ := hp
    rw [List.append_assoc] at hpm
    obtain ⟨rfl, hlen, hbm⟩ := vtok_one 3 (by decide) pl (body ++ m) _ _ hl hpm
    have hm : m = [] := by
      have := congrArg List.length hbm
      have h3 : (3 : UInt8).toNat = 3 := by decide
      simp only [List.length_append, List.length_cons, List.length_nil] at this
      exact List.eq_nil_of_length_eq_zero (by omega)
    exact zeroNum_nil arr2 m hm hz
  | inside _ fs' ptag pl body m tag i o t ht hn h8 hl hff hmsg hz =>
    rw [List.append_assoc] at hb
    obtain ⟨_, rfl, _⟩ := vtok_one 0x0a (by decide) ptag _ _ tag ht hb
    have hf : findField arr2 ((0x0a : UInt8).toNat / 8) = some (0, fieldOpt 1 "", byteArr 2) := by
      simp [findField, findField.go, arr2, fieldOpt_empty]
    rw [hf] at hff
    simp only [Option.some.injEq, Prod.mk.injEq] at hff
    obtain ⟨_, _, rfl⟩ := hff
    simp [msgOf, byteArr] at hmsg
end

/-- **`noArr` is necessary for the converse** (witness `0a 03 01 02 03` on `struct{H [2]byte}`): the type is in `tyOK`,
the input contains no record with field number 0, `Unmarshal` accepts it (keeping the first two bytes — `copy` into the
array, Go: byteArrayDecodeFuncOf) and the reference rejects it (three bytes are not a `[2]byte`). Not a listed known class;
harness op `proto.bytearr` records the behaviour. -/
theorem long_array_differs :
    tyOK (.struct arr2) = true ∧ noArr (.struct arr2) = false ∧
    (∃ v, unmarshalU (.struct arr2) [0x0a, 3, 1, 2, 3] = .ok v) ∧
    Spec.Protobuf.decode (.struct arr2) [0x0a, 3, 1, 2, 3] = none :=
  ⟨arr2_ty, by simp [noArr, noArrFields, arr2, byteArr], ⟨_, long_model⟩, long_ref⟩

/-- … so `unmarshal_iff_decode` stated without `noArr` would be false: the input is outside `ZeroNum` too -/
theorem iff_false_without_noArr :
    ¬ ∀ (fs : Fields), tyOK (.struct fs) = true → ∀ (b : Bytes) (v : Val), ¬ ZeroNum fs b →
      (unmarshalU (.struct fs) b = .ok v ↔ Spec.Protobuf.decode (.struct fs) b = some v) := by
  intro h
  have := (h arr2 arr2_ty _ _ (long_not_zeroNum _ rfl)).mp long_model
  rw [long_ref] at this
  cases this

#print axioms long_array_differs
#print axioms iff_false_without_noArr
end Enc.Lemmas.ProtoArray
