import Enc.Lemmas.JsonRtTypedInd
import Enc.Lemmas.JsonRtTypedUnsortedDefs
/-!
# Typed round trip without SortMapKeys: assigning the members of a map in ANY order gives the same map

* `insert_comm` — `JMs.insert` (Go's `m[k] = v` on the order-normalised representation) commutes for distinct keys;
* `insK_perm` — assigning `look k` to the keys `K` one after another: the result does not depend on the order of `K`;
* `members_any` — the specification decoder's member loop over members in any order;
* `insK_self` — assigning the entries of a map (distinct keys) to the empty map, in any order, gives that map.
-/
set_option linter.unusedSimpArgs false
namespace Enc.Lemmas.JsonRtTypedU
open Enc Enc.Model.Json Enc.Model.Json.Typed
open Enc.Spec.Json (valueS membersMp ws appendString validUTF8B norm normMs keyBelow)
open Enc.Lemmas.JsonRtTyped
open Enc.Lemmas.JsonDecAnyRtInt (noNumCont)
open Enc.Lemmas.JsonDecAnyRender (etail etail_length noNumCont_etail ws_of_head)
open Enc.Lemmas.JsonEncTyped (mKeys bytesLt_eq_strLT)
open Enc.Model.Json.MapKeyOrder (strLT)
open Enc.Lemmas.JsonMapKeyOrder

/-! ### the key order -/

theorem lt_irrefl (a : Bytes) : bytesLt a a = false := by rw [bytesLt_eq_strLT]; exact strLT_irrefl a

theorem lt_trans' {a b c : Bytes} (h1 : bytesLt a b = true) (h2 : bytesLt b c = true) : bytesLt a c = true := by
  rw [bytesLt_eq_strLT] at *; exact strLT_trans _ _ _ h1 h2

theorem tri (a b : Bytes) :
    (bytesLt a b = true ∧ bytesLt b a = false ∧ (a == b) = false ∧ (b == a) = false) ∨ a = b ∨
    (bytesLt a b = false ∧ bytesLt b a = true ∧ (a == b) = false ∧ (b == a) = false) := by
  have hne1 : ∀ x y : Bytes, bytesLt x y = true → (x == y) = false ∧ (y == x) = false := by
    intro x y h
    constructor <;> (rw [beq_eq_false_iff_ne]; intro e; subst e; rw [lt_irrefl] at h; cases h)
  rcases strLT_strictTotal.tri a b with h | h | h
  · left
    have h' : bytesLt a b = true := by rw [bytesLt_eq_strLT]; exact h
    exact ⟨h', by rw [bytesLt_eq_strLT]; exact strLT_asymm _ _ h, hne1 a b h'⟩
  · exact Or.inr (Or.inl h)
  · right; right
    have h' : bytesLt b a = true := by rw [bytesLt_eq_strLT]; exact h
    exact ⟨by rw [bytesLt_eq_strLT]; exact strLT_asymm _ _ h, h', (hne1 b a h').2, (hne1 b a h').1⟩

/-! ### `m[k1] = v1; m[k2] = v2` commute for distinct keys -/

theorem insert_comm (k1 k2 : Bytes) (v1 v2 : JV) (hne : k1 ≠ k2) : (m : JMs) →
    (m.insert k1 v1).insert k2 v2 = (m.insert k2 v2).insert k1 v1
  | .nil => by
    rcases tri k1 k2 with ⟨a, b, c, d⟩ | h | ⟨a, b, c, d⟩
    · simp [JMs.insert, a, b, c, d]
    · exact absurd h hne
    · simp [JMs.insert, a, b, c, d]
  | .cons k v r => by
    have ih := insert_comm k1 k2 v1 v2 hne r
    rcases tri k1 k2 with ⟨a, b, c, d⟩ | h | ⟨a, b, c, d⟩
    · rcases tri k1 k with ⟨a1, b1, c1, d1⟩ | h1 | ⟨a1, b1, c1, d1⟩
      · rcases tri k2 k with ⟨a2, b2, c2, d2⟩ | h2 | ⟨a2, b2, c2, d2⟩
        · simp [JMs.insert, a, b, c, d, a1, b1, c1, d1, a2, b2, c2, d2]
        · subst h2; simp [JMs.insert, a, b, c, d, lt_irrefl]
        · simp [JMs.insert, a, b, c, d, a1, b1, c1, d1, a2, b2, c2, d2]
      · subst h1
        rcases tri k2 k1 with ⟨a2, b2, c2, d2⟩ | h2 | ⟨a2, b2, c2, d2⟩
        · rw [a2] at b; cases b
        · exact absurd h2.symm hne
        · simp [JMs.insert, a, b, c, d, lt_irrefl]
      · rcases tri k2 k with ⟨a2, b2, c2, d2⟩ | h2 | ⟨a2, b2, c2, d2⟩
        · have := lt_trans' b1 a; rw [this] at b2; cases b2
        · subst h2; rw [a] at a1; cases a1
        · simp [JMs.insert, a, b, c, d, a1, b1, c1, d1, a2, b2, c2, d2, ih]
    · exact absurd h hne
    · rcases tri k1 k with ⟨a1, b1, c1, d1⟩ | h1 | ⟨a1, b1, c1, d1⟩
      · rcases tri k2 k with ⟨a2, b2, c2, d2⟩ | h2 | ⟨a2, b2, c2, d2⟩
        · simp [JMs.insert, a, b, c, d, a1, b1, c1, d1, a2, b2, c2, d2]
        · subst h2; rw [a1] at a; cases a
        · have := lt_trans' b2 b; rw [this] at b1; cases b1
      · subst h1
        rcases tri k2 k1 with ⟨a2, b2, c2, d2⟩ | h2 | ⟨a2, b2, c2, d2⟩
        · simp [JMs.insert, a, b, c, d, a2, b2, c2, d2, lt_irrefl]
        · exact absurd h2.symm hne
        · rw [b2] at a; cases a
      · rcases tri k2 k with ⟨a2, b2, c2, d2⟩ | h2 | ⟨a2, b2, c2, d2⟩
        · simp [JMs.insert, a, b, c, d, a1, b1, c1, d1, a2, b2, c2, d2]
        · subst h2; simp [JMs.insert, a, b, c, d, lt_irrefl]
        · simp [JMs.insert, a, b, c, d, a1, b1, c1, d1, a2, b2, c2, d2, ih]

/-! ### assigning a function of the key, in any order -/

def insK (look : Bytes → JV) (m : JMs) (K : List Bytes) : JMs := K.foldl (fun m k => m.insert k (look k)) m

theorem insK_perm (look : Bytes → JV) {K K' : List Bytes} (h : K.Perm K') : ∀ m, insK look m K = insK look m K' := by
  induction h with
  | nil => intro m; rfl
  | cons x _ ih => intro m; simp only [insK, List.foldl_cons]; exact ih _
  | swap x y l =>
    intro m
    simp only [insK, List.foldl_cons]
    by_cases hxy : x = y
    · subst hxy; rfl
    · rw [insert_comm y x _ _ (fun e => hxy e.symm) m]
  | trans _ _ ih1 ih2 => intro m; rw [ih1, ih2]

/-- the value at a key (first entry) -/
def lookN : JMs → Bytes → JV
  | .nil, _ => .nilptr
  | .cons k' v r, k => if k == k' then v else lookN r k

def Agree (look : Bytes → JV) : JMs → Prop
  | .nil => True
  | .cons k v r => look k = v ∧ Agree look r

theorem insAll_eq_insK (look : Bytes → JV) : (M m : JMs) → Agree look M → insAll m M = insK look m (mKeys M)
  | .nil, _, _ => rfl
  | .cons k v r, m, h => by
    simp only [insAll, mKeys, insK, List.foldl_cons, h.1]
    exact insAll_eq_insK look r _ h.2

theorem agree_ext (look look' : Bytes → JV) : (M : JMs) → (∀ k ∈ mKeys M, look' k = look k) → Agree look M → Agree look' M
  | .nil, _, _ => trivial
  | .cons k v r, he, h =>
    ⟨by rw [he k (by simp [mKeys])]; exact h.1,
     agree_ext look look' r (fun k' hk' => he k' (by simp [mKeys, hk'])) h.2⟩

theorem agree_self : (M : JMs) → (mKeys M).Pairwise (fun a b => strLT a b = true) → Agree (lookN M) M
  | .nil, _ => trivial
  | .cons k v r, hp => by
    have hp' := List.pairwise_cons.mp (by simpa only [mKeys] using hp)
    refine ⟨by simp [lookN], agree_ext (lookN r) _ r ?_ (agree_self r hp'.2)⟩
    intro k' hk'
    have hlt := hp'.1 k' hk'
    have : (k' == k) = false := by
      rw [beq_eq_false_iff_ne]; intro e; subst e; rw [strLT_irrefl] at hlt; cases hlt
    simp [lookN, this]

/-- assigning the entries of `M` (ascending, hence distinct keys) in the order `K` — any rearrangement of its keys — to the
empty map gives `M` -/
theorem insK_self (M : JMs) (hc : Chain M) (hp : (mKeys M).Pairwise (fun a b => strLT a b = true)) (K : List Bytes)
    (hK : K.Perm (mKeys M)) : insK (lookN M) .nil K = M := by
  rw [insK_perm _ hK, ← insAll_eq_insK _ M .nil (agree_self M hp)]
  exact insAll_nil M hc

theorem mKeys_normMs : (ms : JMs) → mKeys (normMs ms) = mKeys ms
  | .nil => rfl
  | .cons k v r => by simp only [normMs, mKeys, mKeys_normMs r]

/-! ### the member loop over members in any order -/

/-- the member `p` = (key, value text) is read as `nv` (at depth `d`, for every continuation and enough fuel) -/
def ElemT (c : TFlags) (e : JT) (d : Nat) (p : Bytes × Bytes) (nv : JV) : Prop :=
  validUTF8B p.1 = true ∧ (∃ n, Hd p.2 n) ∧
  ∀ (rest : Bytes) (f : Nat), noNumCont rest → 2 * (p.2.length + rest.length) + sizeT e ≤ f →
    valueS c f d e (zeroOf e) (p.2 ++ rest) = some (nv, false, rest)

theorem ElemT.mono {c : TFlags} {e : JT} {d : Nat} {p : Bytes × Bytes} {nv nv' : JV} (h : ElemT c e d p nv) (hn : nv = nv') :
    ElemT c e d p nv' := hn ▸ h

theorem members_any (c : TFlags) (html : Bool) (e : JT) (d : Nat) (look : Bytes → JV) :
    (l : List (Bytes × Bytes)) → (rest : Bytes) → (f : Nat) → (m : JMs) → (∀ p ∈ l, ElemT c e d p (look p.1)) →
    noNumCont rest → 2 * (etail 0x7d (mtexts (kq html l)) rest).length + sizeT e + 1 ≤ f →
    membersMp c f d e m (etail 0x7d (mtexts (kq html l)) rest) false = some (insK look m (l.map (·.1)), false, rest)
  | [], rest, f, m, _, _, hf => by
    obtain ⟨f0, rfl⟩ : ∃ f0, f = f0 + 1 := ⟨f - 1, by omega⟩
    exact mp_end c f0 d e m rest false
  | p :: l', rest, f, m, h, hn, hf => by
    obtain ⟨hk, ⟨n, hh⟩, hv⟩ := h p List.mem_cons_self
    have hpos := hh.pos
    have hlen := etail_length 0x7d (mtexts (kq html l')) rest
    simp only [kq, mtexts, List.map_cons, etail_cons_len, List.length_append, List.length_cons, List.length_nil] at hf
    obtain ⟨f0, rfl⟩ : ∃ f0, f = f0 + 1 := ⟨f - 1, by omega⟩
    have hv' := hv (etail 0x7d (mtexts (kq html l')) rest) f0 (noNumCont_etail _ (Or.inr rfl) _ _)
      (by simp only [kq, mtexts] at hlen ⊢; omega)
    have hr := members_any c html e d look l' rest f0 (m.insert p.1 (look p.1))
      (fun q hq => h q (List.mem_cons_of_mem _ hq)) hn (by simp only [kq, mtexts] at hlen ⊢; omega)
    have := (mp_elem c f0 d e m p.1 html p.2 _ rest _ _ _ hh hk hv' (ws_etail _ (Or.inr rfl) _ _) hr).2
    simp only [kq, mtexts, List.map_cons, etail, List.append_assoc, List.cons_append, List.nil_append, insK,
      List.foldl_cons] at this ⊢
    exact this

end Enc.Lemmas.JsonRtTypedU
