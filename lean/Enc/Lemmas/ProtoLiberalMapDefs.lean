import Enc.Lemmas.ProtoLiberal
import Enc.Lemmas.ProtoMap
/-!
# liberal decoding on the universe `tyOKM` (messages with map fields): definitions and preparations

  * `neOne / neMsg / neRecs`, `noEmptyEntry`
        the one class of inputs on which the Go decoder and the reference decoder give different VALUES: a
        ZERO-LENGTH entry of a map field (`<tag> 00`).  The protobuf encoding specification reads a map field as
        `repeated MapEntry { K key = 1; V value = 2 }` and an entry with neither part as `{default key : default value}`;
        the Go decoder (`mapDecodeFuncOf`: `if len(b) == 0 { return 0, nil }`) reads it as "empty non-nil map" — the marker its
        own encoder writes for an empty map — and inserts NOTHING.  `noEmptyEntry ty b` says that `b` has no such entry at
        any nesting depth (it follows the reference decoder's recursion, same fuel; out of fuel = `false`).
  * `descrM`, `lookup_findM`, `find_okM`, `lookupField_fieldsOfM`
        `fieldIndex[number]` of the codec tree = the reference's `findField`, on `tyOKM`
  * `entry_tyOKM`, `fieldsOf_entryF`, `zero_entry`
        the synthetic entry message `{1: key, 2: value}` is itself a message type of the universe, `structCodecOf` on it
        is the entry codec the map codec carries, and both sides start an entry from the same zero value
  * `mapAssign_eq_mapPut`   `MapAssign` of the model = `mapPut` of the reference (first position kept, last value wins)
  * `decodeRecs_len`        the reference decoder keeps the number of field values
-/
set_option linter.unusedSimpArgs false
set_option linter.unusedVariables false
namespace Enc.Lemmas.ProtoLiberalMap
open Enc Enc.Model.Proto Enc.Lemmas.ProtoWire Enc.Lemmas.ProtoDecode Enc.Lemmas.ProtoRoundTrip Enc.Lemmas.ProtoMap
open Enc.Lemmas.ProtoLiberal
open Enc.Spec.Protobuf (FieldOpt fieldOpt WireVal decodeOne decodeMsg decodeRecs parse findField valsGet valsSet deref
  unwrapPtr wrapPtr isRepeated unname mapPut)

/-! ## the excluded inputs: zero-length map entries -/

mutual
/-- no zero-length map entry inside one occurrence of a (dereferenced) field type -/
def neOne : Nat → Ty → WireVal → Bool
  | 0, _, _ => false
  | fuel + 1, .struct fs, .len b => neMsg fuel fs b
  | _ + 1, _, _ => true
/-- … inside a message body -/
def neMsg : Nat → Fields → Bytes → Bool
  | 0, _, _ => false
  | fuel + 1, fs, b =>
    match parse (b.length + 1) b with
    | some recs => neRecs fuel fs recs
    | none => false
/-- … inside the records of a message (same recursion as `Spec.Protobuf.decodeRecs`) -/
def neRecs : Nat → Fields → List (Nat × WireVal) → Bool
  | 0, _, _ => false
  | _ + 1, _, [] => true
  | fuel + 1, fs, (num, w) :: rest =>
    match findField fs num with
    | none => neRecs fuel fs rest
    | some (_, _, t) =>
      match isRepeated t with
      | some et => neOne fuel (deref et) w && neRecs fuel fs rest
      | none =>
        match unname t, w with
        | .map kt vt, .len eb =>
          !eb.isEmpty && neMsg fuel (entryF kt vt) eb && neRecs fuel fs rest
        | .map _ _, _ => false
        | _, _ => neOne fuel (deref t) w && neRecs fuel fs rest
end

/-- **the exclusion of the main theorem**: the input has no zero-length map entry, at any depth (the fuel is the
reference decoder's own; on inputs the reference accepts it never runs out) -/
def noEmptyEntry (ty : Ty) (b : Bytes) : Bool :=
  match deref ty with
  | .struct fs => neMsg (4 * b.length + 16) fs b
  | _ => false

theorem neRecs_unknown (F : Nat) (fs : Fields) (num : Nat) (w : WireVal) (tl : List (Nat × WireVal))
    (h : findField fs num = none) : neRecs (F + 1) fs ((num, w) :: tl) = neRecs F fs tl := by
  simp only [neRecs, h]

theorem neRecs_stepM (F : Nat) (fs : Fields) (num : Nat) (w : WireVal) (tl : List (Nat × WireVal))
    (i : Nat) (o : FieldOpt) (t : Ty) (hf : findField fs num = some (i, o, t)) (ht : tyOKM t = true)
    (hns : isSlice t = false) (hnm : isMap t = false) :
    neRecs (F + 1) fs ((num, w) :: tl) = (neOne F (deref t) w && neRecs F fs tl) := by
  simp only [neRecs, hf]
  cases t <;> simp only [tyOKM] at ht <;> try (exact absurd ht (by decide))
  case slice => exact absurd hns (by simp [isSlice])
  case map => exact absurd hnm (by simp [isMap])
  all_goals simp [isRepeated, unname]

theorem neRecs_step_repM (F : Nat) (fs : Fields) (num : Nat) (w : WireVal) (tl : List (Nat × WireVal))
    (i : Nat) (o : FieldOpt) (e : Ty) (hf : findField fs num = some (i, o, .slice e))
    (ht : tyOKM (.slice e) = true) :
    neRecs (F + 1) fs ((num, w) :: tl) = (neOne F e w && neRecs F fs tl) := by
  simp only [tyOKM, elemTy, Bool.and_eq_true, Bool.not_eq_true'] at ht
  obtain ⟨hd, hu, hw⟩ := base_plumbingM e ht.2 ht.1.1.1
  have hrep : isRepeated (.slice e) = some e := by
    cases e <;> simp_all [isRepeated, unname, tyOKM]
    rename_i k; cases k <;> simp_all [supportedKind]
  simp only [neRecs, hf, hrep, hd]

theorem neRecs_step_map (F : Nat) (fs : Fields) (num : Nat) (eb : Bytes) (tl : List (Nat × WireVal))
    (i : Nat) (o : FieldOpt) (kt vt : Ty) (hf : findField fs num = some (i, o, .map kt vt)) :
    neRecs (F + 1) fs ((num, .len eb) :: tl)
      = (!eb.isEmpty && neMsg F (entryF kt vt) eb && neRecs F fs tl) := by
  simp only [neRecs, hf, isRepeated, unname]

/-! ## `MapAssign` = `mapPut` -/

theorem mapAssign_eq_mapPut (k v : Val) : ∀ (n : Nat) (kvs : Vals), kvs.length ≤ n →
    mapAssign kvs k v valEqShow = mapPut kvs k v := by
  intro n
  induction n using Nat.strongRecOn with
  | _ n ih =>
    intro kvs hn
    cases kvs with
    | nil => simp only [mapAssign, mapPut]
    | cons a r =>
      cases r with
      | nil => simp only [mapAssign, mapPut]
      | cons b r2 =>
        simp only [Vals.length] at hn
        simp only [mapAssign, mapPut, valEqShow, ih (n - 2) (by omega) r2 (by omega)]

theorem mapAssign_mapPut (kvs : Vals) (k v : Val) : mapAssign kvs k v valEqShow = mapPut kvs k v :=
  mapAssign_eq_mapPut k v kvs.length kvs (Nat.le_refl _)

/-! ## the reference decoder keeps the number of field values -/

theorem valsSet_len : ∀ (vs : Vals) (i : Nat) (x : Val), (valsSet vs i x).length = vs.length
  | .nil, _, _ => rfl
  | .cons _ _, 0, _ => rfl
  | .cons _ r, i + 1, x => by simp only [valsSet, Vals.length, valsSet_len r i x]

theorem decodeRecs_len : ∀ (F : Nat) (fs : Fields) (recs : List (Nat × WireVal)) (vs vs' : Vals),
    decodeRecs F fs recs vs = some vs' → vs'.length = vs.length := by
  intro F
  induction F with
  | zero => intro fs recs vs vs' h; simp [decodeRecs] at h
  | succ F ih =>
    intro fs recs vs vs' h
    cases recs with
    | nil => simp only [decodeRecs, Option.some.injEq] at h; rw [← h]
    | cons r tl =>
      obtain ⟨num, w⟩ := r
      simp only [decodeRecs] at h
      split at h
      · exact ih _ _ _ _ h
      · split at h
        · simp only [Option.bind_eq_bind, Option.bind_eq_some_iff] at h
          obtain ⟨e, _, h⟩ := h
          rw [ih _ _ _ _ h, valsSet_len]
        · split at h
          · simp only [Option.bind_eq_bind, Option.bind_eq_some_iff] at h
            obtain ⟨e, _, h⟩ := h
            rw [ih _ _ _ _ h, valsSet_len]
          · cases h
          · simp only [Option.bind_eq_bind, Option.bind_eq_some_iff] at h
            obtain ⟨e, _, h⟩ := h
            rw [ih _ _ _ _ h, valsSet_len]

theorem vals_two (evs : Vals) (h : evs.length = 2) : evs = .cons (valsGet evs 0) (.cons (valsGet evs 1) .nil) := by
  cases evs with
  | nil => simp [Vals.length] at h
  | cons a r =>
    cases r with
    | nil => simp [Vals.length] at h
    | cons b r2 =>
      cases r2 with
      | nil => simp only [valsGet]
      | cons c r3 => simp [Vals.length] at h

/-! ## the synthetic entry message -/

theorem entry_tyOKM (kt vt : Ty) (ht : tyOKM (.map kt vt) = true) : tyOKM (.struct (entryF kt vt)) = true := by
  obtain ⟨hk, hvs, hvm, hv⟩ := mapTy_parts ht
  have h1 : tagAgreeM 1 "" kt = true := by
    rw [tagAgreeM_notMap _ _ _ (keyTy_notMap kt hk)]; exact tagAgree_empty 1 kt (by decide) (by decide)
  have h2 : tagAgreeM 2 "" vt = true := by
    rw [tagAgreeM_notMap _ _ _ hvm]; exact tagAgree_empty 2 vt (by decide) (by decide)
  simp only [tyOKM, entryF, fieldsOKM, h1, h2, keyTy_tyOKM kt hk, hv, fieldNums, fieldOpt_empty, Bool.and_self,
    Bool.true_and]
  decide

/-- `structCodecOf` on the entry message type = the entry codec that the map codec carries -/
theorem fieldsOf_entryF (kt vt : Ty) (ht : tyOKM (.map kt vt) = true) :
    Codec.struct (fieldsOf 1 (entryF kt vt)) = entryC kt vt := by
  obtain ⟨hk, hvs, hvm, hv⟩ := mapTy_parts ht
  have h1 : tagAgree 1 "" kt = true := tagAgree_empty 1 kt (by decide) (by decide)
  have h2 : tagAgree 2 "" vt = true := tagAgree_empty 2 vt (by decide) (by decide)
  simp only [entryF, entryC]
  rw [fieldsOf_cons_okM 1 _ _ _ kt _ h1 (keyTy_tyOKM kt hk) (keyTy_notSlice kt hk) (keyTy_notMap kt hk),
    fieldsOf_cons_okM 2 _ _ _ vt _ h2 hv hvs hvm]
  simp only [fieldOpt_empty, fieldsOf, codecFor_nofixed kt { number := 1 } rfl, codecFor_nofixed vt { number := 2 } rfl]

/-- both sides start an entry from the same zero value -/
theorem zero_entry (kt vt : Ty) (ht : tyOKM (.map kt vt) = true) :
    zeroOfCodec (entryC kt vt) = .struct (Spec.Protobuf.zeroFields (entryF kt vt)) := by
  have he := entry_tyOKM kt vt ht
  have h := zeroOfCodec_codecOfM (.struct (entryF kt vt)) he rfl
  simp only [codecOf] at h
  rw [fieldsOf_entryF kt vt ht] at h
  rw [h, zeroOf_eqM _ he]
  simp only [Spec.Protobuf.zeroOf]

/-! ## `fieldIndex[number]` = `findField` on `tyOKM` -/

/-- descriptor `(embedded, zigzag, codec)` that `structCodecOf` attaches to a field of type `t` with options `o`;
`zz` = the zigzag flag the model read from the tag of a map field (ignored by the map codec) -/
def descrM (zz : Bool) (t : Ty) (o : FieldOpt) : Bool × Bool × Codec :=
  match t with
  | .slice e => (isStructTy e, false, .slice (codecOf e) o.number (codecOf e).wire (isStructTy e))
  | .map kt vt => (true, zz, mapC o.number kt vt)
  | t => (isEmb t, o.zigzag, codecFor t o)

theorem descrM_plain (zz : Bool) (t : Ty) (o : FieldOpt) (h : isSlice t = false) (hm : isMap t = false) :
    descrM zz t o = (isEmb t, o.zigzag, codecFor t o) := by
  cases t <;> simp_all [descrM, isSlice, isMap]

theorem findField_go_cons' (num : Nat) (name tag : String) (emb : Bool) (t : Ty) (rest : Fields) (i : Nat) :
    findField.go num (.cons name tag emb t rest) i
      = if (fieldOpt (i + 1) tag).number = num then some (i, fieldOpt (i + 1) tag, t)
        else findField.go num rest (i + 1) := by
  rw [findField.go]

theorem lookup_findM (num : Nat) : ∀ (fs : Fields) (pos i : Nat) (acc : Option (Nat × Bool × Bool × Codec)),
    pos = i + 1 → fieldsOKM pos fs = true → (fieldNums pos fs).Nodup →
    ∃ zz, lookupField.go num (fieldsOf pos fs) i acc =
      match findField.go num fs i with
      | none => acc
      | some (j, o, t) => some (j, descrM zz t o)
  | .nil, pos, i, acc, _, _, _ => ⟨false, by simp [fieldsOf, lookupField.go, findField.go]⟩
  | .cons name tag emb t rest, pos, i, acc, hpos, hf, hnd => by
    subst hpos
    simp only [fieldsOKM, Bool.and_eq_true] at hf
    obtain ⟨⟨hta, hty⟩, hrest⟩ := hf
    simp only [fieldNums, List.nodup_cons] at hnd
    have ih := fun acc' => lookup_findM num rest (i + 1 + 1) (i + 1) acc' rfl hrest hnd.2
    have habs : (fieldOpt (i + 1) tag).number = num → ∀ acc',
        lookupField.go num (fieldsOf (i + 1 + 1) rest) (i + 1) acc' = acc' := by
      intro e acc'
      apply lookup_go_absent
      rw [cnums_fieldsOfM rest _ hrest, ← e]
      exact hnd.1
    rw [findField_go_cons']
    by_cases hmp : isMap t = true
    · cases t <;> simp only [isMap] at hmp <;> try (exact absurd hmp (by decide))
      rename_i kt vt
      simp only [tagAgreeM, isMap, if_true] at hta
      rw [fieldsOf_cons_map (i + 1) name tag emb kt vt rest hta hty, lookup_go_cons]
      by_cases hn : (fieldOpt (i + 1) tag).number = num
      · rw [if_pos hn, habs hn]
        exact ⟨mzz tag, by simp [hn, descrM]⟩
      · rw [if_neg hn]
        obtain ⟨zz, hzz⟩ := ih acc
        refine ⟨zz, ?_⟩
        rw [← hzz]
        have : ((fieldOpt (i + 1) tag).number == num) = false := by simpa using hn
        simp only [this, Bool.false_eq_true, if_false]
    have hnm : isMap t = false := by simpa using hmp
    rw [tagAgreeM_notMap _ _ _ hnm] at hta
    by_cases hsl : isSlice t = true
    · cases t <;> simp only [isSlice] at hsl <;> try (exact absurd hsl (by decide))
      rename_i e
      rw [fieldsOf_cons_sliceM (i + 1) name tag emb e rest hta hty, lookup_go_cons]
      by_cases hn : (fieldOpt (i + 1) tag).number = num
      · rw [if_pos hn, habs hn]
        exact ⟨false, by simp [hn, descrM]⟩
      · rw [if_neg hn]
        obtain ⟨zz, hzz⟩ := ih acc
        refine ⟨zz, ?_⟩
        rw [← hzz]
        have : ((fieldOpt (i + 1) tag).number == num) = false := by simpa using hn
        simp only [this, Bool.false_eq_true, if_false]
    · have hns : isSlice t = false := by simpa using hsl
      rw [fieldsOf_cons_okM (i + 1) name tag emb t rest hta hty hns hnm, lookup_go_cons]
      by_cases hn : (fieldOpt (i + 1) tag).number = num
      · rw [if_pos hn, habs hn]
        exact ⟨false, by simp [hn, descrM_plain false t _ hns hnm]⟩
      · rw [if_neg hn]
        obtain ⟨zz, hzz⟩ := ih acc
        refine ⟨zz, ?_⟩
        rw [← hzz]
        have : ((fieldOpt (i + 1) tag).number == num) = false := by simpa using hn
        simp only [this, Bool.false_eq_true, if_false]

/-- the field the reference finds is a well-formed field of the universe carrying that number -/
theorem find_okM (num : Nat) : ∀ (fs : Fields) (i j : Nat) (o : FieldOpt) (t : Ty),
    fieldsOKM (i + 1) fs = true → findField.go num fs i = some (j, o, t) →
    tyOKM t = true ∧ (isMap t = false → optOK t o = true) ∧ o.number = num ∧ 0 < num ∧ num < 65536
  | .nil, i, j, o, t, _, h => by simp [findField.go] at h
  | .cons name tag emb t0 rest, i, j, o, t, hf, h => by
    simp only [fieldsOKM, Bool.and_eq_true] at hf
    obtain ⟨⟨hta, hty⟩, hrest⟩ := hf
    rw [findField_go_cons'] at h
    by_cases hn : (fieldOpt (i + 1) tag).number = num
    · rw [if_pos hn] at h
      simp only [Option.some.injEq, Prod.mk.injEq] at h
      obtain ⟨_, rfl, rfl⟩ := h
      by_cases hmp : isMap t0 = true
      · simp only [tagAgreeM, hmp, if_true] at hta
        have := tagAgreeMap_num hta
        refine ⟨hty, ?_, hn, hn ▸ this.1, hn ▸ this.2⟩
        intro h; rw [hmp] at h; cases h
      · have hnm : isMap t0 = false := by simpa using hmp
        rw [tagAgreeM_notMap _ _ _ hnm] at hta
        have := tagAgree_num hta
        exact ⟨hty, fun _ => tagAgree_optOK hta, hn, hn ▸ this.1, hn ▸ this.2⟩
    · rw [if_neg hn] at h
      exact find_okM num rest (i + 1) j o t hrest h

/-- `lookupField` on the codec tree of a message type of the universe, in terms of the reference's `findField` -/
theorem lookupField_fieldsOfM (fs : Fields) (num : Nat) (hty : tyOKM (.struct fs) = true) :
    ∃ zz, lookupField (fieldsOf 1 fs) num =
      match findField fs num with
      | none => none
      | some (j, o, t) => some (j, descrM zz t o) := by
  simp only [tyOKM, Bool.and_eq_true, decide_eq_true_eq] at hty
  exact lookup_findM num fs 1 0 none rfl hty.1 hty.2

end Enc.Lemmas.ProtoLiberalMap
