import Enc.Lemmas.ProtoPtrsBridge
import Enc.Lemmas.ProtoNamed
/-!
# proto: opaque leaves (types encoded through their methods) — definitions of the relabelling

A user-defined message type (an implementer of `proto.Message` or of the gogo custom interface; `proto.RawMessage` is one)
is the opaque leaf `Ty.named "RawMessage" u`. It is written and read exactly like a NON-NIL `[]byte`. The theorems on the
universes `tyOK3` / `tyOKM3` (which exclude the name "RawMessage") are transported by the relabelling

  * `ob / obFields`         on types: every `.named "RawMessage" _` becomes `.bytes` (not below arrays: leaves of the universe)
  * `ov / ovF / ovFields`   on values (type-directed): at an opaque leaf `.nil ↦ .str []`, identity elsewhere. `ov` is the value
                            map in `codecOf` position (pointee, element, map value, message), `ovF` in field position (where
                            slices and maps have a codec) — the two functions mirror `codecOf` / `fieldCodecOf`.
  * `obC / obCF`, `ovC / ovCF`   the same on codec trees (`.message ↦ .bytes`)
  * `opaqueSafe`            side condition on the type: an opaque leaf (behind pointers / defined types) is not the type of a
                            field whose struct tag triggers the fixed32 / fixed64 override of `structCodecOf` (the override looks
                            at `baseTy`, which looks THROUGH the leaf's name), and map keys are `nameSafe` (no opaque leaf).
-/
set_option linter.unusedSimpArgs false
set_option linter.unusedVariables false
namespace Enc.Lemmas.ProtoOpaque
open Enc Enc.Model.Proto
open Enc.Lemmas.ProtoPtrs (mapVals mapVals2)
open Enc.Lemmas.ProtoPtrs.Bridge (ovr tagOf)
open Enc.Lemmas.ProtoNamed (nameSafe nameSafeFields)

/-- the value of an opaque leaf as the value of a `[]byte`: a nil leaf is written like an empty non-nil byte string -/
def leafV : Val → Val
  | .nil => .str []
  | v => v

/-! ## types -/

mutual
def ob : Ty → Ty
  | .named n t => if n = "RawMessage" then .bytes else .named n (ob t)
  | .ptr t => .ptr (ob t)
  | .slice t => .slice (ob t)
  | .map k v => .map (ob k) (ob v)
  | .struct fs => .struct (obFields fs)
  | .bool => .bool
  | .int k => .int k
  | .f32 => .f32
  | .f64 => .f64
  | .str => .str
  | .bytes => .bytes
  | .any => .any
  | .arr n t => .arr n t
def obFields : Fields → Fields
  | .nil => .nil
  | .cons n tag emb t rest => .cons n tag emb (ob t) (obFields rest)
end

/-! ## values -/

mutual
/-- value map in `codecOf` position -/
def ov : Ty → Val → Val
  | .named n t, v => if n = "RawMessage" then leafV v else ov t v
  | .ptr t, .ptr v => .ptr (ov t v)
  | .struct fs, .struct vs => .struct (ovFields fs vs)
  | _, v => v
/-- value map in field position (`fieldCodecOf`) -/
def ovF : Ty → Val → Val
  | .named n t, v => if n = "RawMessage" then leafV v else ovF t v
  | .slice t, .list vs => .list (mapVals (ov t) vs)
  | .map _ w, .map kvs => .map (mapVals2 (ov w) kvs)
  | .ptr t, .ptr v => .ptr (ov t v)
  | .struct fs, .struct vs => .struct (ovFields fs vs)
  | _, v => v
def ovFields : Fields → Vals → Vals
  | .cons _ _ _ t rest, .cons v vs => .cons (ovF t v) (ovFields rest vs)
  | _, vs => vs
end

/-! ## the side condition -/

/-- the type is an opaque leaf behind pointers / defined types (what `proto.embeddedStruct` stops at) -/
def chainMsg (t : Ty) : Bool := isMessage (embBase t)

mutual
def opaqueSafe : Ty → Bool
  | .named n t => if n = "RawMessage" then true else opaqueSafe t     -- the underlying type of a leaf is never looked at
  | .ptr t => opaqueSafe t
  | .slice t => opaqueSafe t
  | .map k v => nameSafe k && opaqueSafe v
  | .struct fs => opaqueSafeFields fs
  | _ => true
def opaqueSafeFields : Fields → Bool
  | .nil => true
  | .cons _ tag _ t rest =>
    (!chainMsg t || (ovr (tagOf tag) (baseTy t)).isNone) && opaqueSafe t && opaqueSafeFields rest
end

/-! ## codec trees -/

mutual
def obC : Codec → Codec
  | .message => .bytes
  | .ptr c => .ptr (obC c)
  | .slice e n w emb => .slice (obC e) n w emb
  | .map n k v ke ve entry => .map n k (obC v) ke ve (obC entry)     -- key codecs are left alone (`opaqueSafe`: no opaque key)
  | .struct fs => .struct (obCF fs)
  | .bool => .bool | .int => .int | .int32 => .int32 | .int64 => .int64 | .uint => .uint | .uint32 => .uint32
  | .uint64 => .uint64 | .fixed32 => .fixed32 | .fixed64 => .fixed64 | .sfixed32 => .sfixed32 | .sfixed64 => .sfixed64
  | .float32 => .float32 | .float64 => .float64 | .string => .string | .bytes => .bytes | .byteArray n => .byteArray n
  | .unsupported => .unsupported
def obCF : CFields → CFields
  | .nil => .nil
  | .cons n emb rep zz c rest => .cons n emb rep zz (obC c) (obCF rest)
end

mutual
def ovC : Codec → Val → Val
  | .message, v => leafV v
  | .ptr c, .ptr v => .ptr (ovC c v)
  | .slice e _ _ _, .list vs => .list (mapVals (ovC e) vs)
  | .map _ _ v _ _ _, .map kvs => .map (mapVals2 (ovC v) kvs)
  | .struct fs, .struct vs => .struct (ovCF fs vs)
  | _, v => v
def ovCF : CFields → Vals → Vals
  | .cons _ _ _ _ c rest, .cons v vs => .cons (ovC c v) (ovCF rest vs)
  | _, vs => vs
end

end Enc.Lemmas.ProtoOpaque
