import Enc.Lemmas.JsonRawEmitLoop
import Enc.Spec.Json.Compact
import Enc.Lemmas.JsonDecString
/-!
# RawMessage / MarshalJSON re-emission, part 2: the HTML escape map and string literals

* equations of `Spec.Json.escapeHTML`; `EscOK x y` — "`y` is the escape of `x`, in every right context";
* `inner_cases` — a well-formed string body (`Inner`) is a sequence of units: a plain byte, one of `<>&`, the three
  bytes of U+2028/9, a lone E2, a simple escape, a `\uXXXX` escape;
* over a string body followed by its closing quote: the scanner `K` stays inside the string and returns to the outside
  (`K_inner`), the escape map of the spec equals the scanner's output (`esc_inner`), the output is again a well-formed
  body (`inner_K`).
-/
namespace Enc.Lemmas.JsonRawEmitEsc
open Enc Enc.Model.Json Enc.Model.Json.RawEmit Enc.Lemmas.JsonRawEmitLoop
open Enc.Lemmas.TokConcat (Mode strip)
open Enc.Spec.Json (isWs escapeHTML u003c u003e u0026 u2028 u2029 hexdig)
open Enc.Lemmas.JsonDecString (Inner Plain isSimpleEsc)

abbrev esc := escapeHTML

theorem esc_nil : esc [] = [] := by unfold esc; rw [escapeHTML]

theorem esc_cons (c : UInt8) (r : Bytes) : esc (c :: r) =
    if c == 0x3c then u003c ++ esc r
    else if c == 0x3e then u003e ++ esc r
    else if c == 0x26 then u0026 ++ esc r
    else if c == 0xe2 && r.take 2 == [0x80, 0xa8] then u2028 ++ esc (r.drop 2)
    else if c == 0xe2 && r.take 2 == [0x80, 0xa9] then u2029 ++ esc (r.drop 2)
    else c :: esc r := by
  unfold esc; rw [escapeHTML]

/-- neither `<>&` nor the lead byte of U+2028/9 -/
def clean (c : UInt8) : Bool := !isHtml c && c != 0xe2

theorem esc_clean (c : UInt8) (X : Bytes) (h : clean c = true) : esc (c :: X) = c :: esc X := by
  simp only [clean, isHtml, Bool.and_eq_true, Bool.not_eq_true', Bool.or_eq_false_iff, bne_iff_ne, ne_eq] at h
  obtain ⟨⟨⟨h1, h2⟩, h3⟩, h4⟩ := h
  have h4' : (c == 0xe2) = false := by simpa using h4
  rw [esc_cons]
  simp only [h1, h2, h3, h4', Bool.false_and, Bool.false_eq_true, if_false]

theorem uEsc_3c : uEsc 0x3c = u003c := by decide +kernel
theorem uEsc_3e : uEsc 0x3e = u003e := by decide +kernel
theorem uEsc_26 : uEsc 0x26 = u0026 := by decide +kernel
theorem lsEsc_a8 : lsEsc 0xa8 = u2028 := by decide +kernel
theorem lsEsc_a9 : lsEsc 0xa9 = u2029 := by decide +kernel

theorem isHtml_cases {c : UInt8} (h : isHtml c = true) : c = 0x3c ∨ c = 0x3e ∨ c = 0x26 := by
  simp only [isHtml, Bool.or_eq_true, beq_iff_eq] at h
  rcases h with (h | h) | h
  · exact Or.inl h
  · exact Or.inr (Or.inl h)
  · exact Or.inr (Or.inr h)

theorem esc_html (c : UInt8) (X : Bytes) (h : isHtml c = true) : esc (c :: X) = uEsc c ++ esc X := by
  rcases isHtml_cases h with rfl | rfl | rfl
  · rw [esc_cons, uEsc_3c]; rfl
  · rw [esc_cons, uEsc_3e]; rfl
  · rw [esc_cons, uEsc_26]; rfl

theorem esc_ls (b2 : UInt8) (X : Bytes) (h : b2 = 0xa8 ∨ b2 = 0xa9) :
    esc (0xe2 :: 0x80 :: b2 :: X) = lsEsc b2 ++ esc X := by
  rcases h with rfl | rfl
  · rw [esc_cons, lsEsc_a8]; rfl
  · rw [esc_cons, lsEsc_a9]; rfl

theorem lineSep_some {c : UInt8} {r : Bytes} {b2 : UInt8} (h : lineSep c r = some b2) :
    c = 0xe2 ∧ ∃ r', r = 0x80 :: b2 :: r' ∧ (b2 = 0xa8 ∨ b2 = 0xa9) := by
  unfold lineSep at h
  split at h
  · rename_i hc
    refine ⟨by simpa using hc, ?_⟩
    match r, h with
    | b1 :: b2' :: r2, h =>
      simp only at h
      split at h
      · rename_i hb
        rw [mask_eq] at hb
        simp only [Bool.and_eq_true, Bool.or_eq_true, beq_iff_eq] at hb
        cases h
        obtain ⟨rfl, hb2⟩ := hb
        exact ⟨r2, rfl, hb2⟩
      · cases h
    | [], h => cases h
    | [_], h => cases h
  · cases h

theorem lineSep_ls (b2 : UInt8) (X : Bytes) (h : b2 = 0xa8 ∨ b2 = 0xa9) : lineSep 0xe2 (0x80 :: b2 :: X) = some b2 := by
  rcases h with rfl | rfl <;> rfl

theorem lineSep_ne {c : UInt8} (r : Bytes) (h : c ≠ 0xe2) : lineSep c r = none := by
  have : (c == 0xe2) = false := by simpa using h
  simp only [lineSep, this, Bool.false_eq_true, if_false]

theorem esc_e2_none (X : Bytes) (h : lineSep 0xe2 X = none) : esc (0xe2 :: X) = 0xe2 :: esc X := by
  rw [esc_cons]
  have h1 : ¬ (X.take 2 == [0x80, 0xa8]) = true := by
    intro ht
    match X, ht with
    | a :: b :: X', ht =>
      simp only [List.take_succ_cons, List.take_zero, beq_iff_eq, List.cons.injEq, and_true] at ht
      obtain ⟨rfl, rfl⟩ := ht
      cases h
    | [], ht => simp at ht
    | [_], ht => simp at ht
  have h2 : ¬ (X.take 2 == [0x80, 0xa9]) = true := by
    intro ht
    match X, ht with
    | a :: b :: X', ht =>
      simp only [List.take_succ_cons, List.take_zero, beq_iff_eq, List.cons.injEq, and_true] at ht
      obtain ⟨rfl, rfl⟩ := ht
      cases h
    | [], ht => simp at ht
    | [_], ht => simp at ht
  simp [h1, h2]

/-! ### the scanner inside a string -/

theorem K_str_cons (e : Bool) (c : UInt8) (r : Bytes) : K e .str 0 (c :: r) =
    if c == 0x22 then c :: K e .out 0 r
    else if c == 0x5c then c :: K e .esc 0 r
    else if !e then c :: K e .str 0 r
    else if isHtml c then uEsc c ++ K e .str 0 r
    else match lineSep c r with
      | some b2 => lsEsc b2 ++ K e .str 2 r
      | none => c :: K e .str 0 r := by
  rw [K]; cases lineSep c r <;> rfl
theorem K_skip (e : Bool) (m : Mode) (k : Nat) (c : UInt8) (r : Bytes) : K e m (k + 1) (c :: r) = K e m k r := by rw [K]

theorem K_str_quote (e : Bool) (X : Bytes) : K e .str 0 (0x22 :: X) = 0x22 :: K e .out 0 X := by
  simp [K]

theorem K_str_esc (e : Bool) (x : UInt8) (X : Bytes) : K e .str 0 (0x5c :: x :: X) = 0x5c :: x :: K e .str 0 X := by
  simp [K]

theorem K_str_copy (e : Bool) (c : UInt8) (X : Bytes) (h22 : c ≠ 0x22) (h5c : c ≠ 0x5c)
    (he : e = true → isHtml c = false ∧ lineSep c X = none) : K e .str 0 (c :: X) = c :: K e .str 0 X := by
  have h22' : (c == 0x22) = false := by simpa using h22
  have h5c' : (c == 0x5c) = false := by simpa using h5c
  cases e with
  | false => simp [K, h22', h5c']
  | true =>
    obtain ⟨h1, h2⟩ := he rfl
    simp [K, h22', h5c', h1, h2]

theorem K_str_html (c : UInt8) (X : Bytes) (h : isHtml c = true) : K true .str 0 (c :: X) = uEsc c ++ K true .str 0 X := by
  rcases isHtml_cases h with rfl | rfl | rfl <;> simp [K, isHtml]

theorem K_str_ls (b2 : UInt8) (X : Bytes) (h : b2 = 0xa8 ∨ b2 = 0xa9) :
    K true .str 0 (0xe2 :: 0x80 :: b2 :: X) = lsEsc b2 ++ K true .str 0 X := by
  have hl := lineSep_ls b2 X h
  have : K true .str 0 (0xe2 :: 0x80 :: b2 :: X) = lsEsc b2 ++ K true .str 2 (0x80 :: b2 :: X) := by
    rw [K_str_cons]; simp [isHtml, hl]
  rw [this, K_skip, K_skip]

/-! ### units of a string body -/

theorem inner_cases {s : Bytes} (h : Inner s) :
    s = [] ∨
    (∃ c s', s = c :: s' ∧ Plain c ∧ clean c = true ∧ Inner s') ∨
    (∃ c s', s = c :: s' ∧ isHtml c = true ∧ Inner s') ∨
    (∃ b2 s', s = 0xe2 :: 0x80 :: b2 :: s' ∧ (b2 = 0xa8 ∨ b2 = 0xa9) ∧ Inner s') ∨
    (∃ s', s = 0xe2 :: s' ∧ lineSep 0xe2 s' = none ∧ Inner s') ∨
    (∃ x s', s = 0x5c :: x :: s' ∧ isSimpleEsc x = true ∧ Inner s') ∨
    (∃ a b c d s', s = 0x5c :: 0x75 :: a :: b :: c :: d :: s' ∧ (hexdig a && hexdig b && hexdig c && hexdig d) = true ∧ Inner s') := by
  cases h with
  | nil => exact Or.inl rfl
  | simple x r hx hr => exact Or.inr (Or.inr (Or.inr (Or.inr (Or.inr (Or.inl ⟨x, r, rfl, hx, hr⟩)))))
  | uni a b c d r hh hr => exact Or.inr (Or.inr (Or.inr (Or.inr (Or.inr (Or.inr ⟨a, b, c, d, r, rfl, hh, hr⟩)))))
  | plain c r hc hr =>
    by_cases hh : isHtml c = true
    · exact Or.inr (Or.inr (Or.inl ⟨c, r, rfl, hh, hr⟩))
    · by_cases he : c = 0xe2
      · subst he
        cases hl : lineSep 0xe2 r with
        | none => exact Or.inr (Or.inr (Or.inr (Or.inr (Or.inl ⟨r, rfl, hl, hr⟩))))
        | some b2 =>
          obtain ⟨_, r', rfl, hb⟩ := lineSep_some hl
          refine Or.inr (Or.inr (Or.inr (Or.inl ⟨b2, r', rfl, hb, ?_⟩)))
          cases hr with
          | plain _ _ _ hr2 =>
            cases hr2 with
            | plain _ _ _ hr3 => exact hr3
            | simple => rcases hb with hb | hb <;> cases hb
            | uni => rcases hb with hb | hb <;> cases hb
      · refine Or.inr (Or.inl ⟨c, r, rfl, hc, ?_, hr⟩)
        have : isHtml c = false := by simpa using hh
        simp [clean, this, he]

/-- E2 in front of a body that is followed by the closing quote: the look-ahead never reaches beyond the quote -/
theorem lineSep_quote (s t : Bytes) : lineSep 0xe2 (s ++ 0x22 :: t) = lineSep 0xe2 s := by
  match s with
  | [] =>
    cases t with
    | nil => rfl
    | cons x t => simp [lineSep]
  | [a] => simp [lineSep, mask_eq]
  | a :: b :: s' => simp [lineSep]

theorem simple_clean {x : UInt8} (h : isSimpleEsc x = true) : clean x = true := by
  unfold isSimpleEsc at h
  simp only [Bool.or_eq_true, beq_iff_eq] at h
  rcases h with ((((((h | h) | h) | h) | h) | h) | h) | h <;> subst h <;> decide

theorem hexdig_facts {a : UInt8} (h : hexdig a = true) : clean a = true ∧ a ≠ 0x22 ∧ a ≠ 0x5c := by
  refine ⟨?_, ?_, ?_⟩
  · simp only [clean, isHtml, Bool.and_eq_true, Bool.not_eq_true', Bool.or_eq_false_iff, beq_eq_false_iff_ne, bne_iff_ne, ne_eq]
    refine ⟨⟨⟨?_, ?_⟩, ?_⟩, ?_⟩ <;> (intro e; subst e; revert h; decide)
  · intro e; subst e; revert h; decide
  · intro e; subst e; revert h; decide

theorem clean_copy {c : UInt8} (X : Bytes) (h : clean c = true) : isHtml c = false ∧ lineSep c X = none := by
  simp only [clean, Bool.and_eq_true, Bool.not_eq_true', bne_iff_ne, ne_eq] at h
  exact ⟨h.1, lineSep_ne X h.2⟩

theorem html_ne {c : UInt8} (h : isHtml c = true) : c ≠ 0x22 ∧ c ≠ 0x5c := by
  rcases isHtml_cases h with rfl | rfl | rfl <;> decide

/-- the scanner over a body and its closing quote -/
theorem K_inner (e : Bool) (n : Nat) : ∀ (s : Bytes), s.length ≤ n → Inner s → ∀ t,
    K e .str 0 (s ++ 0x22 :: t) = K e .str 0 s ++ 0x22 :: K e .out 0 t := by
  induction n with
  | zero =>
    intro s hs _ t
    have : s = [] := List.eq_nil_of_length_eq_zero (by omega)
    subst this
    rw [List.nil_append, K_str_quote]; simp [K]
  | succ n ih =>
    intro s hs hI t
    rcases inner_cases hI with rfl | ⟨c, s', rfl, hp, hc, hI'⟩ | ⟨c, s', rfl, hh, hI'⟩ | ⟨b2, s', rfl, hb, hI'⟩ |
      ⟨s', rfl, hl, hI'⟩ | ⟨x, s', rfl, hx, hI'⟩ | ⟨a, b, c, d, s', rfl, hh, hI'⟩
    · rw [List.nil_append, K_str_quote]; simp [K]
    · have hl : s'.length ≤ n := by simp at hs; omega
      rw [List.cons_append, K_str_copy e c _ hp.1 hp.2.1 (fun _ => clean_copy _ hc),
        K_str_copy e c _ hp.1 hp.2.1 (fun _ => clean_copy _ hc), ih s' hl hI' t]; rfl
    · have hl : s'.length ≤ n := by simp at hs; omega
      cases e with
      | true => rw [List.cons_append, K_str_html c _ hh, K_str_html c _ hh, ih s' hl hI' t]; simp
      | false =>
        rw [List.cons_append, K_str_copy false c _ (html_ne hh).1 (html_ne hh).2 (by simp),
          K_str_copy false c _ (html_ne hh).1 (html_ne hh).2 (by simp), ih s' hl hI' t]; rfl
    · have hl : s'.length ≤ n := by simp at hs; omega
      cases e with
      | true =>
        simp only [List.cons_append]
        rw [K_str_ls b2 _ hb, K_str_ls b2 _ hb, ih s' hl hI' t]; simp
      | false =>
        have hb2 : b2 ≠ 0x22 ∧ b2 ≠ 0x5c := by rcases hb with rfl | rfl <;> decide
        simp only [List.cons_append]
        rw [K_str_copy false 0xe2 _ (by decide) (by decide) (by simp), K_str_copy false 0x80 _ (by decide) (by decide) (by simp),
          K_str_copy false b2 _ hb2.1 hb2.2 (by simp), K_str_copy false 0xe2 _ (by decide) (by decide) (by simp),
          K_str_copy false 0x80 _ (by decide) (by decide) (by simp), K_str_copy false b2 _ hb2.1 hb2.2 (by simp), ih s' hl hI' t]
        rfl
    · have hl' : s'.length ≤ n := by simp at hs; omega
      have hq : lineSep 0xe2 (s' ++ 0x22 :: t) = none := by rw [lineSep_quote]; exact hl
      rw [List.cons_append, K_str_copy e 0xe2 _ (by decide) (by decide) (fun _ => ⟨by decide, hq⟩),
        K_str_copy e 0xe2 _ (by decide) (by decide) (fun _ => ⟨by decide, hl⟩), ih s' hl' hI' t]; rfl
    · have hl : s'.length ≤ n := by simp at hs; omega
      simp only [List.cons_append]
      rw [K_str_esc, K_str_esc, ih s' hl hI' t]; rfl
    · have hl : s'.length ≤ n := by simp at hs; omega
      simp only [Bool.and_eq_true] at hh
      obtain ⟨⟨⟨ha, hb⟩, hc⟩, hd⟩ := hh
      simp only [List.cons_append]
      rw [K_str_esc, K_str_esc,
        K_str_copy e a _ (hexdig_facts ha).2.1 (hexdig_facts ha).2.2 (fun _ => clean_copy _ (hexdig_facts ha).1),
        K_str_copy e b _ (hexdig_facts hb).2.1 (hexdig_facts hb).2.2 (fun _ => clean_copy _ (hexdig_facts hb).1),
        K_str_copy e c _ (hexdig_facts hc).2.1 (hexdig_facts hc).2.2 (fun _ => clean_copy _ (hexdig_facts hc).1),
        K_str_copy e d _ (hexdig_facts hd).2.1 (hexdig_facts hd).2.2 (fun _ => clean_copy _ (hexdig_facts hd).1),
        K_str_copy e a _ (hexdig_facts ha).2.1 (hexdig_facts ha).2.2 (fun _ => clean_copy _ (hexdig_facts ha).1),
        K_str_copy e b _ (hexdig_facts hb).2.1 (hexdig_facts hb).2.2 (fun _ => clean_copy _ (hexdig_facts hb).1),
        K_str_copy e c _ (hexdig_facts hc).2.1 (hexdig_facts hc).2.2 (fun _ => clean_copy _ (hexdig_facts hc).1),
        K_str_copy e d _ (hexdig_facts hd).2.1 (hexdig_facts hd).2.2 (fun _ => clean_copy _ (hexdig_facts hd).1),
        ih s' hl hI' t]
      rfl

/-- induction over the units of a string body -/
theorem inner_ind {P : Bytes → Prop} (hnil : P [])
    (hclean : ∀ c s', Plain c → clean c = true → Inner s' → P s' → P (c :: s'))
    (hhtml : ∀ c s', isHtml c = true → Inner s' → P s' → P (c :: s'))
    (hls : ∀ b2 s', (b2 = 0xa8 ∨ b2 = 0xa9) → Inner s' → P s' → P (0xe2 :: 0x80 :: b2 :: s'))
    (he2 : ∀ s', lineSep 0xe2 s' = none → Inner s' → P s' → P (0xe2 :: s'))
    (hsimple : ∀ x s', isSimpleEsc x = true → Inner s' → P s' → P (0x5c :: x :: s'))
    (huni : ∀ a b c d s', (hexdig a && hexdig b && hexdig c && hexdig d) = true → Inner s' → P s' →
      P (0x5c :: 0x75 :: a :: b :: c :: d :: s')) :
    ∀ s, Inner s → P s := by
  have : ∀ n, ∀ s : Bytes, s.length ≤ n → Inner s → P s := by
    intro n
    induction n with
    | zero =>
      intro s hs _
      have : s = [] := List.eq_nil_of_length_eq_zero (by omega)
      subst this; exact hnil
    | succ n ih =>
      intro s hs hI
      rcases inner_cases hI with rfl | ⟨c, s', rfl, hp, hc, hI'⟩ | ⟨c, s', rfl, hh, hI'⟩ | ⟨b2, s', rfl, hb, hI'⟩ |
        ⟨s', rfl, hl, hI'⟩ | ⟨x, s', rfl, hx, hI'⟩ | ⟨a, b, c, d, s', rfl, hh, hI'⟩
      · exact hnil
      · exact hclean c s' hp hc hI' (ih s' (by simp at hs; omega) hI')
      · exact hhtml c s' hh hI' (ih s' (by simp at hs; omega) hI')
      · exact hls b2 s' hb hI' (ih s' (by simp at hs; omega) hI')
      · exact he2 s' hl hI' (ih s' (by simp at hs; omega) hI')
      · exact hsimple x s' hx hI' (ih s' (by simp at hs; omega) hI')
      · exact huni a b c d s' hh hI' (ih s' (by simp at hs; omega) hI')
  intro s hI
  exact this s.length s (Nat.le_refl _) hI

/-- four hex digits are copied by the scanner and by the escape map -/
theorem K_hex4 (e : Bool) (a b c d : UInt8) (X : Bytes) (hh : (hexdig a && hexdig b && hexdig c && hexdig d) = true) :
    K e .str 0 (a :: b :: c :: d :: X) = a :: b :: c :: d :: K e .str 0 X := by
  simp only [Bool.and_eq_true] at hh
  obtain ⟨⟨⟨ha, hb⟩, hc⟩, hd⟩ := hh
  rw [K_str_copy e a _ (hexdig_facts ha).2.1 (hexdig_facts ha).2.2 (fun _ => clean_copy _ (hexdig_facts ha).1),
    K_str_copy e b _ (hexdig_facts hb).2.1 (hexdig_facts hb).2.2 (fun _ => clean_copy _ (hexdig_facts hb).1),
    K_str_copy e c _ (hexdig_facts hc).2.1 (hexdig_facts hc).2.2 (fun _ => clean_copy _ (hexdig_facts hc).1),
    K_str_copy e d _ (hexdig_facts hd).2.1 (hexdig_facts hd).2.2 (fun _ => clean_copy _ (hexdig_facts hd).1)]

theorem esc_hex4 (a b c d : UInt8) (X : Bytes) (hh : (hexdig a && hexdig b && hexdig c && hexdig d) = true) :
    esc (a :: b :: c :: d :: X) = a :: b :: c :: d :: esc X := by
  simp only [Bool.and_eq_true] at hh
  obtain ⟨⟨⟨ha, hb⟩, hc⟩, hd⟩ := hh
  rw [esc_clean a _ (hexdig_facts ha).1, esc_clean b _ (hexdig_facts hb).1, esc_clean c _ (hexdig_facts hc).1,
    esc_clean d _ (hexdig_facts hd).1]

/-- the escape map of the specification over a body and its closing quote = the scanner's output -/
theorem esc_inner (t : Bytes) : ∀ s, Inner s → esc (s ++ 0x22 :: t) = K true .str 0 s ++ 0x22 :: esc t := by
  apply inner_ind
  · rw [List.nil_append, esc_clean _ _ (by decide)]; simp [K]
  · intro c s' hp hc _ ih
    rw [List.cons_append, esc_clean c _ hc, ih, K_str_copy true c _ hp.1 hp.2.1 (fun _ => clean_copy _ hc)]; rfl
  · intro c s' hh _ ih
    rw [List.cons_append, esc_html c _ hh, ih, K_str_html c _ hh]; simp
  · intro b2 s' hb _ ih
    simp only [List.cons_append]
    rw [esc_ls b2 _ hb, ih, K_str_ls b2 _ hb]; simp
  · intro s' hl _ ih
    rw [List.cons_append, esc_e2_none _ (by rw [lineSep_quote]; exact hl), ih,
      K_str_copy true 0xe2 _ (by decide) (by decide) (fun _ => ⟨by decide, hl⟩)]; rfl
  · intro x s' hx _ ih
    simp only [List.cons_append]
    rw [esc_clean _ _ (by decide), esc_clean x _ (simple_clean hx), ih, K_str_esc]; rfl
  · intro a b c d s' hh _ ih
    simp only [List.cons_append]
    rw [esc_clean _ _ (by decide), esc_clean _ _ (by decide), esc_hex4 a b c d _ hh, ih, K_str_esc, K_hex4 true a b c d _ hh]
    rfl

/-- the scanner's output over a body is a body -/
theorem inner_K : ∀ s, Inner s → Inner (K true .str 0 s) := by
  apply inner_ind
  · simp only [K]; exact Inner.nil
  · intro c s' hp hc _ ih
    rw [K_str_copy true c _ hp.1 hp.2.1 (fun _ => clean_copy _ hc)]
    exact Inner.plain c _ hp ih
  · intro c s' hh _ ih
    rw [K_str_html c _ hh]
    rcases isHtml_cases hh with rfl | rfl | rfl
    · rw [uEsc_3c]; exact Inner.uni _ _ _ _ _ (by decide) ih
    · rw [uEsc_3e]; exact Inner.uni _ _ _ _ _ (by decide) ih
    · rw [uEsc_26]; exact Inner.uni _ _ _ _ _ (by decide) ih
  · intro b2 s' hb _ ih
    rw [K_str_ls b2 _ hb]
    rcases hb with rfl | rfl
    · rw [lsEsc_a8]; exact Inner.uni _ _ _ _ _ (by decide) ih
    · rw [lsEsc_a9]; exact Inner.uni _ _ _ _ _ (by decide) ih
  · intro s' hl _ ih
    rw [K_str_copy true 0xe2 _ (by decide) (by decide) (fun _ => ⟨by decide, hl⟩)]
    exact Inner.plain _ _ ⟨by decide, by decide, by decide⟩ ih
  · intro x s' hx _ ih
    rw [K_str_esc]; exact Inner.simple x _ hx ih
  · intro a b c d s' hh _ ih
    rw [K_str_esc, K_hex4 true a b c d _ hh]; exact Inner.uni a b c d _ hh ih

/-- without EscapeHTML a body is copied -/
theorem K_false_inner : ∀ s, Inner s → K false .str 0 s = s := by
  apply inner_ind
  · simp [K]
  · intro c s' hp _ _ ih
    rw [K_str_copy false c _ hp.1 hp.2.1 (by simp), ih]
  · intro c s' hh _ ih
    rw [K_str_copy false c _ (html_ne hh).1 (html_ne hh).2 (by simp), ih]
  · intro b2 s' hb _ ih
    have hb2 : b2 ≠ 0x22 ∧ b2 ≠ 0x5c := by rcases hb with rfl | rfl <;> decide
    rw [K_str_copy false 0xe2 _ (by decide) (by decide) (by simp), K_str_copy false 0x80 _ (by decide) (by decide) (by simp),
      K_str_copy false b2 _ hb2.1 hb2.2 (by simp), ih]
  · intro s' _ _ ih
    rw [K_str_copy false 0xe2 _ (by decide) (by decide) (by simp), ih]
  · intro x s' _ _ ih
    rw [K_str_esc, ih]
  · intro a b c d s' hh _ ih
    rw [K_str_esc, K_hex4 false a b c d _ hh, ih]

/-! ### `EscOK x y`: `y` is the escape of `x` whatever follows -/

def EscOK (x y : Bytes) : Prop := ∀ t, esc (x ++ t) = y ++ esc t

theorem EscOK.nil : EscOK [] [] := fun _ => rfl
theorem EscOK.append {x y x' y' : Bytes} (h : EscOK x y) (h' : EscOK x' y') : EscOK (x ++ x') (y ++ y') := by
  intro t; rw [List.append_assoc, h, h', List.append_assoc]
theorem EscOK.of_clean (v : Bytes) (h : ∀ c ∈ v, clean c = true) : EscOK v v := by
  intro t
  induction v with
  | nil => rfl
  | cons c v ih =>
    rw [List.cons_append, esc_clean c _ (h c (by simp)), ih (fun x hx => h x (by simp [hx]))]; rfl
theorem EscOK.one (c : UInt8) (h : clean c = true) : EscOK [c] [c] := EscOK.of_clean [c] (by simpa using h)
theorem EscOK.eq {x y : Bytes} (h : EscOK x y) : esc x = y := by
  have := h []; simpa [esc_nil] using this

/-- a whole string literal -/
theorem EscOK.string (s : Bytes) (h : Inner s) : EscOK (0x22 :: (s ++ [0x22])) (0x22 :: (K true .str 0 s ++ [0x22])) := by
  intro t
  have := esc_inner t s h
  simp only [List.cons_append, List.append_assoc, List.singleton_append, List.nil_append]
  rw [esc_clean _ _ (by decide), this]

end Enc.Lemmas.JsonRawEmitEsc
