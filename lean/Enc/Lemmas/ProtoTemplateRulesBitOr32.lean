import Enc.Lemmas.ProtoTemplateRulesBitOr
/-!
# The `BitOr` entry at value level: the plain 32-bit varint kinds (`int32` with `BitOr[int32]`, `uint32` with `BitOr[uint32]`)
-/
namespace Enc.Lemmas.ProtoTemplate

section model
open Enc Enc.Lemmas.ProtoRewriteSpec
open Enc.Model.Proto
open Enc.Model.Json (ITy)

theorem unmarshal_i32_tok (tok : Bytes) (x : Nat) (h : VTok tok x)
    (hr : -2147483648 ≤ (BitVec.ofNat 64 x).toInt ∧ (BitVec.ofNat 64 x).toInt ≤ 2147483647) :
    unmarshal (.int .i32) tok = .ok (.int (BitVec.ofNat 64 x).toInt) := by
  have hd := h.dec []
  rw [List.append_nil] at hd
  have hl := h.length_pos
  have hne : tok.isEmpty = false := by
    cases h' : tok with
    | nil => rw [h'] at hl; simp at hl
    | cons => rfl
  unfold unmarshal
  rw [hne]
  simp only [Bool.false_eq_true, if_false, codecOf]
  rw [show 2 * tok.length + 8 + Codec.height Codec.int32 = (2 * tok.length + 7 + Codec.height Codec.int32) + 1 by omega]
  simp only [decode, hd, Res.bind, Flags.i64, Bool.false_eq_true, if_false, Nat.lt_irrefl]
  have : ¬ ((BitVec.ofNat 64 x).toInt < -2147483648 ∨ (BitVec.ofNat 64 x).toInt > 2147483647) := by omega
  simp only [this, if_false, Nat.lt_irrefl]

theorem unmarshal_u32_tok (tok : Bytes) (x : Nat) (h : VTok tok x) (hr : x < 2 ^ 32) :
    unmarshal (.int .u32) tok = .ok (.int x) := by
  have hd := h.dec []
  rw [List.append_nil] at hd
  have hl := h.length_pos
  have hne : tok.isEmpty = false := by
    cases h' : tok with
    | nil => rw [h'] at hl; simp at hl
    | cons => rfl
  unfold unmarshal
  rw [hne]
  simp only [Bool.false_eq_true, if_false, codecOf]
  rw [show 2 * tok.length + 8 + Codec.height Codec.uint32 = (2 * tok.length + 7 + Codec.height Codec.uint32) + 1 by omega]
  have hx : (BitVec.ofNat 64 x).toNat = x := by simp [BitVec.toNat_ofNat]; omega
  simp only [decode, hd, Res.bind, hx]
  have : ¬ (x > 4294967295) := by omega
  simp only [this, if_false, Nat.lt_irrefl]


theorem bitor_int32_tok (mask : BitVec 64) (f : Nat) (tok : Bytes) (x : Nat) (h : VTok tok x)
    (hr : -2147483648 ≤ (BitVec.ofNat 64 x).toInt ∧ (BitVec.ofNat 64 x).toInt ≤ 2147483647) :
    bitOrRewrite .i32 mask .int32 f tok = .ok (fieldVarint f (asInt32 (BitVec.ofNat 64 x ||| mask))) := by
  simp only [bitOrRewrite, ityKind, unmarshal_i32_tok tok x h hr, BitVec.ofInt_toInt]

theorem bitor_uint32_tok (mask : BitVec 64) (f : Nat) (tok : Bytes) (x : Nat) (h : VTok tok x) (hr : x < 2 ^ 32) :
    bitOrRewrite .u32 mask .uint32 f tok = .ok (fieldVarint f (BitVec.ofNat 64 x ||| mask)) := by
  simp only [bitOrRewrite, ityKind, unmarshal_u32_tok tok x h hr, BitVec.ofInt_natCast]

theorem bitor_absent_i32 (mask : BitVec 64) (f : Nat) :
    bitOrRewrite .i32 mask .int32 f [] = .ok (fieldVarint f (asInt32 (BitVec.ofNat 64 0 ||| mask))) := by
  simp [bitOrRewrite, ityKind, unmarshal, Enc.Model.Proto.zeroOf]

theorem bitor_absent_u32 (mask : BitVec 64) (f : Nat) :
    bitOrRewrite .u32 mask .uint32 f [] = .ok (fieldVarint f (BitVec.ofNat 64 0 ||| mask)) := by
  simp [bitOrRewrite, ityKind, unmarshal, Enc.Model.Proto.zeroOf]

end model

open Enc Enc.Spec.Protobuf Enc.Lemmas.ProtoRewriteSpec Enc.Lemmas.ProtoSpecFuel
open Enc.Model.Proto (PKind RwT rewriteT bitOrRewrite fieldVarint mergeInputT asInt32)
open Enc.Model.Json (ITy)

theorem trunc_or32 (x : Nat) (v : Int) :
    (BitVec.ofNat 64 x ||| BitVec.ofInt 64 v).truncate 32 = BitVec.ofNat 32 x ||| BitVec.ofInt 32 v := by
  have hv : (v % 18446744073709551616).toNat % 4294967296 = (v % 4294967296).toNat := by omega
  apply BitVec.eq_of_toNat_eq
  simp [BitVec.toNat_ofInt, hv]

theorem ofInt32_toInt64 (x : Nat) (hx : x < 2 ^ 64) : BitVec.ofInt 32 (toInt64 x) = BitVec.ofNat 32 x := by
  apply BitVec.eq_of_toNat_eq
  simp only [BitVec.toNat_ofInt, BitVec.toNat_ofNat, toInt64]
  split <;> omega

theorem i32_out (x : Nat) (hx : x < 2 ^ 64) (v : Int) :
    toInt64 (asInt32 (BitVec.ofNat 64 x ||| BitVec.ofInt 64 v)).toNat = Spec.ProtoTemplate.orInt .i32 (toInt64 x) v ∧
    -(2 ^ 31 : Int) ≤ Spec.ProtoTemplate.orInt .i32 (toInt64 x) v ∧ Spec.ProtoTemplate.orInt .i32 (toInt64 x) v < 2 ^ 31 := by
  have h1 : Spec.ProtoTemplate.orInt .i32 (toInt64 x) v = (BitVec.ofNat 32 x ||| BitVec.ofInt 32 v).toInt := by
    simp only [Spec.ProtoTemplate.orInt, IntKind.bits, IntKind.signed, if_true, ofInt32_toInt64 x hx]
    rfl
  rw [h1, toInt64_toNat, asInt32, BitVec.toInt_signExtend_of_le (by omega), trunc_or32]
  have a := BitVec.toInt_lt (x := BitVec.ofNat 32 x ||| BitVec.ofInt 32 v)
  have b := BitVec.le_toInt (x := BitVec.ofNat 32 x ||| BitVec.ofInt 32 v)
  refine ⟨rfl, by omega, by omega⟩

theorem u32_out (x : Nat) (hx : x < 2 ^ 32) (v : Int) (hv0 : 0 ≤ v) (hv1 : v < 2 ^ 32) :
    (BitVec.ofNat 64 x ||| BitVec.ofInt 64 v).toNat < 2 ^ 32 ∧
    ((BitVec.ofNat 64 x ||| BitVec.ofInt 64 v).toNat : Int) = Spec.ProtoTemplate.orInt .u32 (x : Int) v := by
  have e1 : (BitVec.ofNat 64 x ||| BitVec.ofInt 64 v).toNat = x ||| v.toNat := by
    have a : x % 18446744073709551616 = x := by omega
    have b : (v % 18446744073709551616).toNat = v.toNat := by omega
    simp [BitVec.toNat_ofInt, a, b]
  have e2 : Spec.ProtoTemplate.orInt .u32 (x : Int) v = ((x ||| v.toNat : Nat) : Int) := by
    have a : x % 4294967296 = x := by omega
    have b : (v % 4294967296).toNat = v.toNat := by omega
    have e3 : (BitVec.ofNat 32 x ||| BitVec.ofInt 32 v).toNat = x ||| v.toNat := by simp [BitVec.toNat_ofInt, a, b]
    simp only [Spec.ProtoTemplate.orInt, IntKind.bits, IntKind.signed, Bool.false_eq_true, if_false, BitVec.ofInt_natCast]
    exact congrArg (fun n : Nat => (n : Int)) e3
  rw [e1, e2]
  exact ⟨Nat.or_lt_two_pow hx (by omega), rfl⟩

theorem ofNat_toInt64 (x : Nat) (hx : x < 2 ^ 64) : (BitVec.ofNat 64 x).toInt = toInt64 x := by
  have := toInt64_toNat (BitVec.ofNat 64 x)
  rw [← this]
  congr 1
  simp only [BitVec.toNat_ofNat]; omega

theorem inRange_i32_inv (z : Int) (h : IntKind.i32.inRange z = true) : -(2 ^ 31 : Int) ≤ z ∧ z < 2 ^ 31 := by
  unfold IntKind.inRange at h
  simp only [IntKind.signed, IntKind.bits, if_true, Bool.and_eq_true, Nat.reduceSub] at h
  exact ⟨of_decide_eq_true h.1, of_decide_eq_true h.2⟩

theorem inRange_u32_inv (z : Int) (h : IntKind.u32.inRange z = true) : 0 ≤ z ∧ z < 2 ^ 32 := by
  unfold IntKind.inRange at h
  simp only [IntKind.signed, IntKind.bits, Bool.false_eq_true, if_false, Bool.and_eq_true] at h
  exact ⟨of_decide_eq_true h.1, of_decide_eq_true h.2⟩

theorem sdec_i32 (o : FieldOpt) (hf : o.fixed = false) (hz : o.zigzag = false) (y : Nat) (h1 : -(2 ^ 31 : Int) ≤ toInt64 y)
    (h2 : toInt64 y < 2 ^ 31) : sdec (.int .i32) o (.varint y) = some (.int (toInt64 y)) := by
  have hr : IntKind.i32.inRange (toInt64 y) = true := inRange_i32 _ h1 (by omega)
  simp only [sdec, decodeOne, hf, hz, IntKind.signed, hr, Bool.false_eq_true, if_false, if_true]

theorem sdec_i32_inv (o : FieldOpt) (hf : o.fixed = false) (hz : o.zigzag = false) (y : Nat) (r : Val)
    (h : sdec (.int .i32) o (.varint y) = some r) : -(2 ^ 31 : Int) ≤ toInt64 y ∧ toInt64 y < 2 ^ 31 := by
  simp only [sdec, decodeOne, hf, hz, IntKind.signed, Bool.false_eq_true, if_false, if_true] at h
  by_cases hr : IntKind.i32.inRange (toInt64 y) = true
  · exact inRange_i32_inv _ hr
  · simp [hr] at h

theorem sdec_u32 (o : FieldOpt) (hf : o.fixed = false) (y : Nat) (h2 : y < 2 ^ 32) :
    sdec (.int .u32) o (.varint y) = some (.int y) := by
  have hr : IntKind.u32.inRange (y : Int) = true := inRange_u32 _ (by omega) (by omega)
  simp only [sdec, decodeOne, hf, IntKind.signed, hr, Bool.false_eq_true, if_false, if_true]

theorem sdec_u32_inv (o : FieldOpt) (hf : o.fixed = false) (y : Nat) (r : Val)
    (h : sdec (.int .u32) o (.varint y) = some r) : y < 2 ^ 32 := by
  simp only [sdec, decodeOne, hf, IntKind.signed, Bool.false_eq_true, if_false] at h
  by_cases hr : IntKind.u32.inRange (y : Int) = true
  · have := inRange_u32_inv _ hr; omega
  · simp [hr] at h

/-- **one entry: a `BitOr[T]` rule on a plain 32-bit varint field** (`int32` with `BitOr[int32]` on `int32`; `uint32` with
`BitOr[uint32]` on `uint32`); the mask is a value of `T` -/
theorem ent_bitor32 (fs : Fields) (n i : Nat) (o : FieldOpt) (k : IntKind) (T : ITy) (kind : PKind)
    (hcase : (kind = .int32 ∧ T = .i32 ∧ k = .i32) ∨ (kind = .uint32 ∧ T = .u32 ∧ k = .u32))
    (hfind : findField fs n = some (i, o, .int k)) (hkind : kindOf (.int k) o = some kind) (h0 : 0 < n) (h1 : n < 2 ^ 61)
    (v : Int) (hvr : T = .u32 → 0 ≤ v ∧ v < 2 ^ 32)
    (b : Bytes) (recs0 : List (Nat × WireVal)) (hv : Valid b recs0) (res : Vals)
    (hfold : foldG fieldD fs recs0 (zeroFields fs) = some res) (honce : Once n recs0) :
    ∃ (An : Bytes) (w : WireVal) (old : Int),
      (∀ G, 1 ≤ G → rewriteT G (.bitOr T (BitVec.ofInt 64 v) kind n)
        (payloadOf b.length (.bitOr T (BitVec.ofInt 64 v) kind n) n b) = .ok An) ∧
      Valid An [(n, w)] ∧ An.length ≤ 30 ∧ valsGet res i = .int old ∧
      sdec (.int k) o w = some (.int (Spec.ProtoTemplate.orInt k old v)) := by
  have hfz : o.fixed = false ∧ o.zigzag = false := by
    rcases hcase with ⟨rfl, _, rfl⟩ | ⟨rfl, _, rfl⟩ <;> simp only [kindOf] at hkind <;>
      cases hfx : o.fixed <;> cases hzz : o.zigzag <;> simp_all
  obtain ⟨hf, hz⟩ := hfz
  have hsc : scalarTy (.int k) = true := kindOf_scalar _ o kind hkind
  have hpay := payloadOf_first (.bitOr T (BitVec.ofInt 64 v) kind n) (fun _ _ _ _ => rfl) n b.length b recs0 hv (Nat.le_refl _)
  have hdec := foldG_once fs n i o (.int k) hfind hsc recs0 (zeroFields fs) res (zeroFields_length fs) honce hfold
  have hzero : valsGet (zeroFields fs) i = .int 0 := by rw [zero_at fs n i o _ hfind]; simp [zeroOf]
  rcases hcase with ⟨rfl, rfl, rfl⟩ | ⟨rfl, rfl, rfl⟩
  · -- int32
    have hx : ∃ x, x < 2 ^ 64 ∧
        bitOrRewrite .i32 (BitVec.ofInt 64 v) .int32 n (payloadOf b.length (.bitOr .i32 (BitVec.ofInt 64 v) .int32 n) n b)
          = .ok (fieldVarint n (asInt32 (BitVec.ofNat 64 x ||| BitVec.ofInt 64 v))) ∧
        sdec (.int .i32) o (.varint x) = some (valsGet res i) := by
      cases hfo : firstOf n recs0 with
      | none =>
        rw [hfo] at hpay hdec
        simp only at hpay hdec
        refine ⟨0, by omega, by rw [hpay, bitor_absent_i32], ?_⟩
        rw [hdec, hzero, sdec_i32 o hf hz 0 (by simp [toInt64]) (by simp [toInt64])]
        simp [toInt64]
      | some w =>
        rw [hfo] at hpay hdec
        simp only at hpay hdec
        cases w with
        | varint x =>
          have htok : VTok _ x := hpay
          obtain ⟨r1, r2⟩ := sdec_i32_inv o hf hz x _ hdec
          refine ⟨x, htok.lt, bitor_int32_tok _ n _ x htok (by rw [ofNat_toInt64 x htok.lt]; omega), hdec⟩
        | len p => simp [sdec, decodeOne] at hdec
        | i64 p => simp [sdec, decodeOne] at hdec
        | i32 p => simp [sdec, decodeOne, hf] at hdec
    obtain ⟨x, hxlt, hrun, hold⟩ := hx
    obtain ⟨r1, r2⟩ := sdec_i32_inv o hf hz x _ hold
    rw [sdec_i32 o hf hz x r1 r2] at hold
    obtain ⟨e1, e2, e3⟩ := i32_out x hxlt v
    refine ⟨_, .varint (asInt32 (BitVec.ofNat 64 x ||| BitVec.ofInt 64 v)).toNat, toInt64 x, fun G hG => ?_,
      valid_fieldVarint n _ h0 h1, fieldVarint_length n _, by simp only [Option.some.injEq] at hold; exact hold.symm, ?_⟩
    · obtain ⟨g, rfl⟩ : ∃ g, G = g + 1 := ⟨G - 1, by omega⟩
      simp only [rewriteT]; exact hrun
    · rw [sdec_i32 o hf hz _ (by rw [e1]; exact e2) (by rw [e1]; exact e3), e1]
  · -- uint32
    obtain ⟨hv0, hv1⟩ := hvr rfl
    have hx : ∃ x, x < 2 ^ 32 ∧
        bitOrRewrite .u32 (BitVec.ofInt 64 v) .uint32 n (payloadOf b.length (.bitOr .u32 (BitVec.ofInt 64 v) .uint32 n) n b)
          = .ok (fieldVarint n (BitVec.ofNat 64 x ||| BitVec.ofInt 64 v)) ∧
        sdec (.int .u32) o (.varint x) = some (valsGet res i) := by
      cases hfo : firstOf n recs0 with
      | none =>
        rw [hfo] at hpay hdec
        simp only at hpay hdec
        refine ⟨0, by omega, by rw [hpay, bitor_absent_u32], ?_⟩
        rw [hdec, hzero, sdec_u32 o hf 0 (by omega)]
        simp
      | some w =>
        rw [hfo] at hpay hdec
        simp only at hpay hdec
        cases w with
        | varint x =>
          have htok : VTok _ x := hpay
          have r2 := sdec_u32_inv o hf x _ hdec
          exact ⟨x, r2, bitor_uint32_tok _ n _ x htok r2, hdec⟩
        | len p => simp [sdec, decodeOne] at hdec
        | i64 p => simp [sdec, decodeOne] at hdec
        | i32 p => simp [sdec, decodeOne, hf] at hdec
    obtain ⟨x, hxlt, hrun, hold⟩ := hx
    rw [sdec_u32 o hf x hxlt] at hold
    obtain ⟨e1, e2⟩ := u32_out x hxlt v hv0 hv1
    refine ⟨_, .varint (BitVec.ofNat 64 x ||| BitVec.ofInt 64 v).toNat, (x : Int), fun G hG => ?_,
      valid_fieldVarint n _ h0 h1, fieldVarint_length n _, by simp only [Option.some.injEq] at hold; exact hold.symm, ?_⟩
    · obtain ⟨g, rfl⟩ : ∃ g, G = g + 1 := ⟨G - 1, by omega⟩
      simp only [rewriteT]; exact hrun
    · rw [sdec_u32 o hf _ e1, e2]

#print axioms ent_bitor32

end Enc.Lemmas.ProtoTemplate
