import Enc.Model.ProtoScan
import Enc.Lemmas.ProtoDecode
/-!
# Lemmas for C07 — the wire-level API of package proto (`Parse`, `Scan`): arithmetic-free normal form, totality, framing

`parse_eq` removes the Go integer arithmetic (wrap-around `int`, `uint64(·)`/`int(·)` conversions, slice-bounds checks)
from `Model.ProtoScan.parse` under the one hypothesis Go itself guarantees, `len(m) < 2^63`.
-/
namespace Enc.Lemmas.ProtoScan
open Enc Enc.Model.Proto Enc.Model.ProtoScan Enc.Lemmas.ProtoDecode

/-- lengths of Go slices are non-negative `int`s -/
abbrev GoLen (b : Bytes) : Prop := b.length < 2 ^ 63

/-! ## Go integers -/

theorem wrapInt_id (x : Int) (h1 : -2 ^ 63 ≤ x) (h2 : x < 2 ^ 63) : wrapInt x = x := by
  unfold wrapInt
  rw [BitVec.toInt_ofInt]
  apply Int.bmod_eq_of_le <;> omega

theorem u64OfInt_nat (x : Nat) (h : x < 2 ^ 64) : (u64OfInt (x : Int)).toNat = x := by
  unfold u64OfInt
  rw [BitVec.toNat_ofInt]
  omega

theorem intOfU64_small (l : BitVec 64) (h : l.toNat < 2 ^ 63) : intOfU64 l = (l.toNat : Int) := by
  unfold intOfU64
  exact BitVec.toInt_eq_toNat_of_lt (by omega)

/-! ## slices -/

theorem goSlice_ok (m : Bytes) (lo hi : Nat) (h1 : lo ≤ hi) (h2 : hi ≤ m.length) :
    goSlice m (lo : Int) (hi : Int) = .ok ((m.drop lo).take (hi - lo)) := by
  unfold goSlice
  have : (0 : Int) ≤ lo ∧ (lo : Int) ≤ hi ∧ (hi : Int) ≤ (m.length : Int) := by omega
  simp only [this, and_self, if_true, Int.toNat_natCast]

theorem goSlice_from (m : Bytes) (lo : Nat) (h : lo ≤ m.length) :
    goSlice m (lo : Int) (m.length : Int) = .ok (m.drop lo) := by
  rw [goSlice_ok m lo m.length h (Nat.le_refl _)]
  congr 1
  apply List.take_of_length_le
  simp

theorem goSlice_to (m : Bytes) (hi : Nat) (h : hi ≤ m.length) :
    goSlice m 0 (hi : Int) = .ok (m.take hi) := by
  have := goSlice_ok m 0 hi (Nat.zero_le _) h
  simpa using this

/-! ## `Parse` without the arithmetic -/

/-- value and remainder of a field body of wire type `t` at the front of `m` -/
def body (t : Nat) (m : Bytes) : Res (Bytes × Bytes) :=
  if t = 0 then
    match decodeVarint m with
    | .ok (_, k) => .ok (m.take k, m.drop k)
    | .err e => .err e
    | .panic e => .panic e
  else if t = 2 then
    match decodeVarint m with
    | .ok (l, k) =>
      if m.length - k < l.toNat then .err "unexpectedEof" else .ok ((m.drop k).take l.toNat, m.drop (k + l.toNat))
    | .err e => .err e
    | .panic e => .panic e
  else if t = 5 then (if m.length < 4 then .err "unexpectedEof" else .ok (m.take 4, m.drop 4))
  else if t = 1 then (if m.length < 8 then .err "unexpectedEof" else .ok (m.take 8, m.drop 8))
  else .err "invalidWireType"

def parseN (m0 : Bytes) : Res Field :=
  match decodeVarint m0 with
  | .ok (tag, n) =>
    (body (tag &&& 7#64).toNat (m0.drop n)).bind fun (v, rest) => .ok ((tag >>> 3).toNat, (tag &&& 7#64).toNat, v, rest)
  | .err e => .err e
  | .panic e => .panic e

theorem and7_lt (tag : BitVec 64) : (tag &&& 7#64).toNat < 8 := by
  rw [BitVec.toNat_and]; exact Nat.lt_succ_of_le Nat.and_le_right

/-- the value/remainder view of `parseBody` -/
def bodyOf (f t : Nat) (r : Res Parsed) : Res Field :=
  match r with
  | .panic e => .panic e
  | .err e => .err e
  | .ok p =>
    match p.err with
    | some e => .err e
    | none => .ok (p.f, p.t, p.v.getD [], p.m)

theorem parseBody_eq (f t : Nat) (m : Bytes) (hm : GoLen m) :
    bodyOf f t (parseBody f t m) = (body t m).bind fun (v, rest) => .ok (f, t, v, rest) := by
  unfold GoLen at hm
  simp only [parseBody, Gen.c_proto_Varint, Gen.c_proto_Varlen, Gen.c_proto_Fixed32, Gen.c_proto_Fixed64, body]
  by_cases h0 : t = 0
  · subst h0
    simp only [beq_self_eq_true, if_true]
    cases hd2 : decodeVarint m with
    | panic e => rfl
    | err e => rfl
    | ok p2 =>
      obtain ⟨u, k⟩ := p2
      have hk := decodeVarint_consumes m u k hd2
      have : ¬ ((m.length : Int) < (k : Int)) := by omega
      simp only [this, if_false, goSlice_to m k hk.2, goSlice_from m k hk.2, Res.bind, bodyOf, Option.getD_some]
  by_cases h2 : t = 2
  · subst h2
    simp only [show ((2 : Nat) == 0) = false from rfl, beq_self_eq_true, if_true, if_false, Bool.false_eq_true,
      show ¬ ((2 : Nat) = 0) by decide]
    cases hd2 : decodeVarint m with
    | panic e => rfl
    | err e => rfl
    | ok p2 =>
      obtain ⟨l, k⟩ := p2
      have hk := decodeVarint_consumes m l k hd2
      have hw : wrapInt ((m.length : Int) - (k : Int)) = ((m.length - k : Nat) : Int) := by
        rw [wrapInt_id] <;> omega
      simp only [hw]
      have hlt : (u64OfInt ((m.length - k : Nat) : Int) < l) ↔ (m.length - k < l.toNat) := by
        rw [BitVec.lt_def, u64OfInt_nat _ (by omega)]
      by_cases hc : m.length - k < l.toNat
      · simp only [hlt.mpr hc, hc, if_true, bodyOf, Res.bind]
      · have hc' : ¬ (u64OfInt ((m.length - k : Nat) : Int) < l) := fun h => hc (hlt.mp h)
        simp only [hc', hc, if_false]
        have hl : l.toNat < 2 ^ 63 := by omega
        have hhi : wrapInt ((k : Int) + intOfU64 l) = ((k + l.toNat : Nat) : Int) := by
          rw [intOfU64_small l hl, wrapInt_id] <;> omega
        simp only [hhi]
        rw [goSlice_ok m k (k + l.toNat) (by omega) (by omega), goSlice_from m (k + l.toNat) (by omega)]
        simp only [Res.bind, bodyOf, Option.getD_some, Nat.add_sub_cancel_left]
  by_cases h5 : t = 5
  · subst h5
    simp only [show ((5 : Nat) == 0) = false from rfl, show ((5 : Nat) == 2) = false from rfl, beq_self_eq_true, if_true,
      if_false, Bool.false_eq_true, show ¬ ((5 : Nat) = 0) by decide, show ¬ ((5 : Nat) = 2) by decide]
    by_cases hc : m.length < 4
    · simp only [hc, if_true, bodyOf, Res.bind]
    · simp only [hc, if_false]
      have : goSlice m 0 4 = .ok (m.take 4) := goSlice_to m 4 (by omega)
      have h4 : goSlice m 4 (m.length : Int) = .ok (m.drop 4) := goSlice_from m 4 (by omega)
      simp only [this, h4, Res.bind, bodyOf, Option.getD_some]
  by_cases h1 : t = 1
  · subst h1
    simp only [show ((1 : Nat) == 0) = false from rfl, show ((1 : Nat) == 2) = false from rfl,
      show ((1 : Nat) == 5) = false from rfl, beq_self_eq_true, if_true,
      if_false, Bool.false_eq_true, show ¬ ((1 : Nat) = 0) by decide, show ¬ ((1 : Nat) = 2) by decide,
      show ¬ ((1 : Nat) = 5) by decide]
    by_cases hc : m.length < 8
    · simp only [hc, if_true, bodyOf, Res.bind]
    · simp only [hc, if_false]
      have : goSlice m 0 8 = .ok (m.take 8) := goSlice_to m 8 (by omega)
      have h4 : goSlice m 8 (m.length : Int) = .ok (m.drop 8) := goSlice_from m 8 (by omega)
      simp only [this, h4, Res.bind, bodyOf, Option.getD_some]
  · have e0 : (t == 0) = false := by simp [h0]
    have e2 : (t == 2) = false := by simp [h2]
    have e5 : (t == 5) = false := by simp [h5]
    have e1 : (t == 1) = false := by simp [h1]
    simp only [e0, e2, e5, e1, h0, h2, h5, h1, if_false, Bool.false_eq_true, bodyOf, Res.bind]

/-- **normal form of `Parse`** for every message a Go program can hold (`len(m) < 2^63`) -/
theorem parse_eq (m0 : Bytes) (hlen : GoLen m0) : parse m0 = parseN m0 := by
  unfold parse parseX parseN
  cases hd : decodeVarint m0 with
  | panic e => rfl
  | err e => rfl
  | ok p =>
    obtain ⟨tag, n⟩ := p
    have hn := decodeVarint_consumes m0 tag n hd
    have hm : GoLen (m0.drop n) := by unfold GoLen at *; simp only [List.length_drop]; omega
    simp only [goSlice_from m0 n hn.2, Res.bind, decodeTag]
    exact parseBody_eq _ _ _ hm

/-! ## one complete field -/

theorem varintLoop_take (b : Bytes) (x : BitVec 64) (s i : Nat) (v : BitVec 64) (n : Nat)
    (h : decodeVarintLoop b x s i = .ok (v, n)) : decodeVarintLoop (b.take (n - i)) x s i = .ok (v, n) := by
  induction b generalizing x s i with
  | nil => simp [decodeVarintLoop] at h
  | cons c cs ih =>
    have hc := varintLoop_consumes _ _ _ _ _ _ h
    have e : n - i = (n - (i + 1)) + 1 := by omega
    rw [e, List.take_succ_cons]
    unfold decodeVarintLoop at h ⊢
    split
    · rename_i hc; simp only [hc, if_true] at h; exact h
    · rename_i hc; simp only [hc, if_false] at h; exact ih _ _ _ h

/-- the varint reader only looks at the bytes it consumes -/
theorem isVarint_take (b : Bytes) (v : BitVec 64) (n : Nat) (h : decodeVarint b = .ok (v, n)) :
    IsVarint (b.take n) v := by
  have h1 := varintLoop_take b _ _ _ v n h
  have hn := decodeVarint_consumes b v n h
  unfold IsVarint decodeVarint
  rw [Nat.sub_zero] at h1
  rw [h1, List.length_take, Nat.min_eq_left hn.2]

/-- `fld` is exactly one field with number `f`, wire type `t` and value bytes `v` (the value is the tail of the field) -/
structure IsField (f t : Nat) (v fld : Bytes) : Prop where
  split : ∃ tg hdr tag, fld = tg ++ hdr ++ v ∧ IsVarint tg tag ∧ f = (tag >>> 3).toNat ∧ t = (tag &&& 7#64).toNat ∧
    ((t = 0 ∧ hdr = [] ∧ ∃ u, IsVarint v u) ∨ (t = 2 ∧ ∃ l, IsVarint hdr l ∧ v.length = l.toNat) ∨
     (t = 5 ∧ hdr = [] ∧ v.length = 4) ∨ (t = 1 ∧ hdr = [] ∧ v.length = 8))

theorem body_ok (t : Nat) (m v rest : Bytes) (h : body t m = .ok (v, rest)) :
    ∃ hdr, m = hdr ++ v ++ rest ∧
    ((t = 0 ∧ hdr = [] ∧ ∃ u, IsVarint v u) ∨ (t = 2 ∧ ∃ l, IsVarint hdr l ∧ v.length = l.toNat) ∨
     (t = 5 ∧ hdr = [] ∧ v.length = 4) ∨ (t = 1 ∧ hdr = [] ∧ v.length = 8)) := by
  unfold body at h
  split at h
  · rename_i h0
    cases hd : decodeVarint m with
    | panic e => simp [hd] at h
    | err e => simp [hd] at h
    | ok p =>
      obtain ⟨u, k⟩ := p
      simp only [hd, Res.ok.injEq, Prod.mk.injEq] at h
      refine ⟨[], ?_, Or.inl ⟨h0, rfl, u, ?_⟩⟩
      · rw [← h.1, ← h.2]; simp
      · rw [← h.1]; exact isVarint_take m u k hd
  split at h
  · rename_i h0 h2
    cases hd : decodeVarint m with
    | panic e => simp [hd] at h
    | err e => simp [hd] at h
    | ok p =>
      obtain ⟨l, k⟩ := p
      simp only [hd] at h
      have hk := decodeVarint_consumes m l k hd
      split at h
      · simp at h
      · rename_i hc
        simp only [Res.ok.injEq, Prod.mk.injEq] at h
        refine ⟨m.take k, ?_, Or.inr (Or.inl ⟨h2, l, isVarint_take m l k hd, ?_⟩)⟩
        · rw [← h.1, ← h.2, List.append_assoc, ← List.drop_drop, List.take_append_drop, List.take_append_drop]
        · rw [← h.1, List.length_take, List.length_drop]; omega
  split at h
  · rename_i h0 h2 h5
    split at h
    · simp at h
    · rename_i hc
      simp only [Res.ok.injEq, Prod.mk.injEq] at h
      refine ⟨[], ?_, Or.inr (Or.inr (Or.inl ⟨h5, rfl, ?_⟩))⟩
      · rw [← h.1, ← h.2]; simp
      · rw [← h.1, List.length_take]; omega
  split at h
  · rename_i h0 h2 h5 h1
    split at h
    · simp at h
    · rename_i hc
      simp only [Res.ok.injEq, Prod.mk.injEq] at h
      refine ⟨[], ?_, Or.inr (Or.inr (Or.inr ⟨h1, rfl, ?_⟩))⟩
      · rw [← h.1, ← h.2]; simp
      · rw [← h.1, List.length_take]; omega
  · simp at h

theorem body_of (t : Nat) (hdr v rest : Bytes)
    (h : (t = 0 ∧ hdr = [] ∧ ∃ u, IsVarint v u) ∨ (t = 2 ∧ ∃ l, IsVarint hdr l ∧ v.length = l.toNat) ∨
     (t = 5 ∧ hdr = [] ∧ v.length = 4) ∨ (t = 1 ∧ hdr = [] ∧ v.length = 8)) :
    body t (hdr ++ v ++ rest) = .ok (v, rest) := by
  rcases h with ⟨rfl, rfl, u, hu⟩ | ⟨rfl, l, hl, hv⟩ | ⟨rfl, rfl, hv⟩ | ⟨rfl, rfl, hv⟩
  · have := hu.append rest
    simp only [body, if_true, List.nil_append, this, List.take_left, List.drop_left]
  · have := hl.append (v ++ rest)
    rw [List.append_assoc]
    have hc : ¬ ((hdr ++ (v ++ rest)).length - hdr.length < v.length) := by simp only [List.length_append]; omega
    simp only [body, show ¬ ((2 : Nat) = 0) by decide, if_true, if_false, this, List.drop_left, ← hv, hc, List.take_left]
    rw [← List.drop_drop, List.drop_left, List.drop_left]
  · have hc : ¬ (([] ++ v ++ rest).length < 4) := by simp only [List.length_append, List.nil_append]; omega
    simp only [body, show ¬ ((5 : Nat) = 0) by decide, show ¬ ((5 : Nat) = 2) by decide, if_true, if_false, hc]
    rw [← hv]; simp
  · have hc : ¬ (([] ++ v ++ rest).length < 8) := by simp only [List.length_append, List.nil_append]; omega
    simp only [body, show ¬ ((1 : Nat) = 0) by decide, show ¬ ((1 : Nat) = 2) by decide, show ¬ ((1 : Nat) = 5) by decide,
      if_true, if_false, hc]
    rw [← hv]; simp

/-- **`Parse` succeeds exactly on a complete field followed by anything**, and returns that field's number, wire type and
value and what follows it -/
theorem parseN_ok_iff (m : Bytes) (f t : Nat) (v rest : Bytes) :
    parseN m = .ok (f, t, v, rest) ↔ ∃ fld, m = fld ++ rest ∧ IsField f t v fld := by
  constructor
  · intro h
    unfold parseN at h
    cases hd : decodeVarint m with
    | panic e => simp [hd] at h
    | err e => simp [hd] at h
    | ok p =>
      obtain ⟨tag, n⟩ := p
      simp only [hd] at h
      cases hb : body (tag &&& 7#64).toNat (m.drop n) with
      | panic e => rw [hb] at h; simp [Res.bind] at h
      | err e => rw [hb] at h; simp [Res.bind] at h
      | ok q =>
        obtain ⟨v', rest'⟩ := q
        simp only [hb, Res.bind, Res.ok.injEq, Prod.mk.injEq] at h
        obtain ⟨rfl, rfl, rfl, rfl⟩ := h
        obtain ⟨hdr, e, hcase⟩ := body_ok _ _ _ _ hb
        refine ⟨m.take n ++ hdr ++ v', ?_, ⟨m.take n, hdr, tag, rfl, isVarint_take m tag n hd, rfl, rfl, hcase⟩⟩
        conv => lhs; rw [← List.take_append_drop n m, e]
        simp only [List.append_assoc]
  · rintro ⟨fld, rfl, ⟨tg, hdr, tag, rfl, htg, rfl, rfl, hcase⟩⟩
    unfold parseN
    have := htg.append (hdr ++ v ++ rest)
    simp only [List.append_assoc] at this ⊢
    simp only [this, List.drop_left]
    have hb := body_of _ hdr v rest hcase
    simp only [List.append_assoc] at hb
    simp only [hb, Res.bind]

theorem IsField.pos {f t : Nat} {v fld : Bytes} (h : IsField f t v fld) : 0 < fld.length := by
  obtain ⟨tg, hdr, tag, rfl, htg, _⟩ := h.split
  have := htg.pos
  simp only [List.length_append]; omega

/-- a field is a well-formed record in the sense of the unknown-field theorems (`unmarshal_skip_anywhere`) -/
theorem IsField.isRecord {f t : Nat} {v fld : Bytes} (h : IsField f t v fld) : IsRecord f fld := by
  obtain ⟨tg, hdr, tag, rfl, htg, rfl, rfl, hcase⟩ := h.split
  rw [List.append_assoc]
  refine IsRecord.mk tg (hdr ++ v) tag htg rfl ?_
  rcases hcase with ⟨h0, rfl, u, hu⟩ | ⟨h2, l, hl, hv⟩ | ⟨h5, rfl, hv⟩ | ⟨h1, rfl, hv⟩
  · rw [h0]; exact IsPayload.varint _ u hu
  · rw [h2]; exact IsPayload.varlen hdr v l hl hv
  · rw [h5]; exact IsPayload.fixed32 _ hv
  · rw [h1]; exact IsPayload.fixed64 _ hv

/-! ## error classes, totality -/

theorem body_ne_panic (t : Nat) (m : Bytes) (e : String) : body t m ≠ .panic e := by
  unfold body
  repeat' split
  all_goals first
    | (simp; done)
    | (rename_i h; exact fun _ => absurd h (decodeVarint_ne_panic m _))

theorem parseN_ne_panic (m : Bytes) (e : String) : parseN m ≠ .panic e := by
  unfold parseN
  split
  · apply bind_ne_panic
    · intro e; exact body_ne_panic _ _ e
    · intro a e; simp
  · simp
  · rename_i h; exact absurd h (decodeVarint_ne_panic m _)

/-- the three error classes of `Parse` -/
def ParseErr (e : String) : Prop := e = "unexpectedEof" ∨ e = "varintOverflow" ∨ e = "invalidWireType"

theorem decodeVarint_err (b : Bytes) (e : String) (h : decodeVarint b = .err e) :
    e = "unexpectedEof" ∨ e = "varintOverflow" := varintLoop_err b _ _ _ e h

theorem body_err (t : Nat) (m : Bytes) (e : String) (h : body t m = .err e) : ParseErr e := by
  unfold body at h
  repeat' split at h
  all_goals first
    | (simp only [Res.err.injEq] at h; subst h; first | exact Or.inl rfl | exact Or.inr (Or.inr rfl))
    | (simp at h; done)
    | skip
  all_goals
    rename_i hd
    simp only [Res.err.injEq] at h; subst h
    rcases decodeVarint_err m _ hd with h | h
    · exact Or.inl h
    · exact Or.inr (Or.inl h)

theorem parseN_err (m : Bytes) (e : String) (h : parseN m = .err e) : ParseErr e := by
  unfold parseN at h
  split at h
  · rename_i tag n hd
    cases hb : body (tag &&& 7#64).toNat (m.drop n) with
    | panic e' => rw [hb] at h; simp [Res.bind] at h
    | ok q => rw [hb] at h; simp [Res.bind] at h
    | err e' =>
      simp only [hb, Res.bind, Res.err.injEq] at h
      subst h; exact body_err _ _ _ hb
  · rename_i e' hd
    simp only [Res.err.injEq] at h; subst h
    rcases decodeVarint_err m _ hd with h | h
    · exact Or.inl h
    · exact Or.inr (Or.inl h)
  · simp at h

theorem ParseErr.ne_fuel {e : String} (h : ParseErr e) : e ≠ "fuel" := by
  rcases h with h | h | h <;> subst h <;> decide

end Enc.Lemmas.ProtoScan
