import Enc.Lemmas.ProtoTemplateValue
/-!
# Value level of message rewriting, generalized: an ARBITRARY positional fold

`ProtoTemplateTable.lean` works for flat message types, where a record OVERWRITES the position of its field
(`foldS`). Here the new value of a position is computed by a parameter `D t o w cur` from the CURRENT value `cur` of the
position (so nested messages that merge, repeated fields that append and maps that insert are covered); `D` may fail.
An entry's records are only required to set the position when decoded from a state in which the position still has its
INITIAL value (`EntSemG`), which is what holds at the first occurrence and in the appended tail.
-/
namespace Enc.Lemmas.ProtoTemplate
open Enc Enc.Spec.Protobuf Enc.Lemmas.ProtoRewriteSpec
open Enc.Model.Proto (Rw rewrite)

def stepG (D : Ty → FieldOpt → WireVal → Val → Option Val) (fs : Fields) (r : Nat × WireVal) (vs : Vals) : Option Vals :=
  match findField fs r.1 with
  | none => some vs
  | some (i, o, t) => (D t o r.2 (valsGet vs i)).map (valsSet vs i)

def foldG (D : Ty → FieldOpt → WireVal → Val → Option Val) (fs : Fields) : List (Nat × WireVal) → Vals → Option Vals
  | [], vs => some vs
  | r :: rest, vs => (stepG D fs r vs).bind (foldG D fs rest)

theorem foldG_append (D : Ty → FieldOpt → WireVal → Val → Option Val) (fs : Fields) :
    ∀ (a b : List (Nat × WireVal)) (vs : Vals), foldG D fs (a ++ b) vs = (foldG D fs a vs).bind (foldG D fs b)
  | [], b, vs => by simp [foldG]
  | r :: a, b, vs => by
    simp only [List.cons_append, foldG]
    cases stepG D fs r vs with
    | none => rfl
    | some x => simp only [Option.bind_some]; exact foldG_append D fs a b x

/-- the flat setting is the instance in which the current value is ignored -/
theorem foldS_is_foldG (fs : Fields) : foldS fs = foldG (fun t o w _ => sdec t o w) fs := by
  funext recs
  induction recs with
  | nil => funext vs; simp [foldS, foldG]
  | cons r rest ih =>
    funext vs
    simp only [foldS, foldG, stepS, stepG, ih]
    cases findField fs r.1 with
    | none => rfl
    | some p => rfl

/-- entry for field `n`: always emits the records `a`; decoding `a` FROM A STATE WHOSE POSITION `i` STILL HAS ITS INITIAL
VALUE sets position `i` to `x` (`eff = some x`) or — `a = []` — leaves the state alone (`eff = none`) -/
def EntSemG (D : Ty → FieldOpt → WireVal → Val → Option Val) (fs : Fields) (init : Vals) (n : Nat) (e : SRw) (i : Nat)
    (eff : Option Val) : Prop :=
  ∃ (a : List (Nat × WireVal)) (o : FieldOpt) (t : Ty),
    (∀ k p, specRw (k + 2) e p = some a) ∧ findField fs n = some (i, o, t) ∧
    (∀ vs, vs.length = fs.length → valsGet vs i = valsGet init i →
      foldG D fs a vs = some (match eff with | some x => valsSet vs i x | none => vs))

structure TabSemG (D : Ty → FieldOpt → WireVal → Val → Option Val) (fs : Fields) (init : Vals) (T : List (Nat × SRw))
    (I : Nat → Nat) (E : Nat → Option Val) : Prop where
  nodup : (T.map Prod.fst).Nodup
  ent : ∀ n e, (n, e) ∈ T → EntSemG D fs init n e (I n) (E n)

/-- same shape as `Rel` -/
abbrev RelG := Rel

/-- the unseen entries appended at the end -/
theorem absent_foldG (D : Ty → FieldOpt → WireVal → Val → Option Val) (fs : Fields) (T : List (Nat × SRw)) (I : Nat → Nat) (E : Nat → Option Val) (init : Vals)
    (hT : TabSemG D fs init T I E) :
    ∀ (L : List (Nat × SRw)) (s : Nat) (vs' : Vals), L.length + 3 ≤ s → (∀ p, p ∈ L → p ∈ T) → (L.map Prod.fst).Nodup →
      vs'.length = fs.length → (∀ p, p ∈ L → valsGet vs' (I p.1) = valsGet init (I p.1)) →
      ∃ out res', specAbsent s L = some out ∧ foldG D fs out vs' = some res' ∧ res'.length = fs.length ∧
        (∀ j, (∀ p, p ∈ L → I p.1 ≠ j) → valsGet res' j = valsGet vs' j) ∧
        (∀ p, p ∈ L → valsGet res' (I p.1) = (E p.1).getD (valsGet init (I p.1)))
  | [], s, vs', hs, _, _, hl, _ => by
    obtain ⟨k, rfl⟩ : ∃ k, s = k + 1 := ⟨s - 1, by simp at hs; omega⟩
    exact ⟨[], vs', by simp [specAbsent], by simp [foldG], hl, fun _ _ => rfl, fun p hp => by simp at hp⟩
  | (n, e) :: L, s, vs', hs, hsub, hnd, hl, hinit => by
    simp only [List.length_cons] at hs
    obtain ⟨k, rfl⟩ : ∃ k, s = k + 3 := ⟨s - 3, by omega⟩
    obtain ⟨a, o, t, hspec, hfind, hfold⟩ := hT.ent n e (hsub (n, e) (by simp))
    obtain ⟨hi, _, _⟩ := findField_spec fs n (I n) o t hfind
    simp only [List.map_cons, List.nodup_cons] at hnd
    -- state after the records of this entry
    let vs1 : Vals := match E n with | some x => valsSet vs' (I n) x | none => vs'
    have hvs1len : vs1.length = fs.length := by
      simp only [vs1]; split
      · rw [valsSet_length]; exact hl
      · exact hl
    have hother : ∀ (m : Nat) (e' : SRw), (m, e') ∈ L → I m ≠ I n := by
      intro m e' hm heq
      obtain ⟨_, o', t', _, hfind', _⟩ := hT.ent m e' (hsub (m, e') (by simp [hm]))
      rw [heq] at hfind'
      have := findField_inj fs m n (I n) o' o t' t hfind' hfind
      subst this
      exact hnd.1 (List.mem_map.mpr ⟨(m, e'), hm, rfl⟩)
    have hget1 : ∀ j, j ≠ I n → valsGet vs1 j = valsGet vs' j := by
      intro j hj; simp only [vs1]; split
      · exact valsGet_set_ne _ _ _ _ (fun h => hj h.symm)
      · rfl
    obtain ⟨out, res', h1, h2, h3, h4, h5⟩ := absent_foldG D fs T I E init hT L (k + 2) vs1 (by omega)
      (fun p hp => hsub p (by simp [hp])) hnd.2 hvs1len (fun p hp => by
        rw [hget1 _ (hother p.1 p.2 hp)]; exact hinit p (by simp [hp]))
    refine ⟨a ++ out, res', ?_, ?_, h3, ?_, ?_⟩
    · simp only [specAbsent, hspec k [], h1, Option.bind_eq_bind, Option.bind_some, Option.pure_def]
    · rw [foldG_append, hfold vs' hl (hinit (n, e) (by simp))]; simpa using h2
    · intro j hj
      have hjn : I n ≠ j := hj (n, e) (by simp)
      rw [h4 j (fun p hp => hj p (by simp [hp])), hget1 j (fun h => hjn h.symm)]
    · intro p hp
      simp only [List.mem_cons] at hp
      rcases hp with rfl | hp
      · simp only
        rw [h4 (I n) (fun p hp => hother p.1 p.2 hp)]
        simp only [vs1]
        cases hE : E n with
        | none => simp only [Option.getD_none]; exact hinit (n, e) (by simp)
        | some x => simp only [Option.getD_some]; exact valsGet_set_eq _ _ _ (by omega)
      · exact h5 p hp

/-- **record level → value level** for a table of input-independent entries -/
theorem specMsg_foldG (D : Ty → FieldOpt → WireVal → Val → Option Val) (fs : Fields) (T : List (Nat × SRw)) (I : Nat → Nat) (E : Nat → Option Val) (init : Vals)
    (hT : TabSemG D fs init T I E) :
    ∀ (recs : List (Nat × WireVal)) (sf : Nat) (seen : List Nat) (vs vs' res : Vals),
      recs.length + T.length + 4 ≤ sf → foldG D fs recs vs = some res → Rel fs T I E init seen vs vs' →
      ∃ out res', specMsg sf T recs seen = some out ∧ foldG D fs out vs' = some res' ∧ res'.length = fs.length ∧
        (∀ j, Untouched T I j → valsGet res' j = valsGet res j) ∧
        (∀ n e, (n, e) ∈ T → valsGet res' (I n) = (E n).getD (valsGet init (I n)))
  | [], sf, seen, vs, vs', res, hs, hfold, hrel => by
    simp only [List.length_nil, Nat.zero_add] at hs
    obtain ⟨k, rfl⟩ : ∃ k, sf = k + 1 := ⟨sf - 1, by omega⟩
    simp only [foldG, Option.some.injEq] at hfold
    subst hfold
    have hLsub : ∀ p, p ∈ T.filter (fun p => !seen.contains p.1) → p ∈ T := fun p hp => (List.mem_filter.mp hp).1
    have hLlen : (T.filter (fun p => !seen.contains p.1)).length ≤ T.length := List.length_filter_le _ _
    have hLnd : ((T.filter (fun p => !seen.contains p.1)).map Prod.fst).Nodup :=
      (List.filter_sublist.map Prod.fst).nodup hT.nodup
    obtain ⟨out, res', h1, h2, h3, h4, h5⟩ := absent_foldG D fs T I E init hT (T.filter (fun p => !seen.contains p.1)) k vs'
      (by omega) hLsub hLnd hrel.len (fun p hp => by
        have hm := List.mem_filter.mp hp
        have := hrel.templ p.1 p.2 hm.1
        simp only [Bool.not_eq_true'] at hm
        rw [this, hm.2]; simp)
    refine ⟨out, res', by simp only [specMsg, h1], h2, h3, ?_, ?_⟩
    · intro j hj
      rw [h4 j (fun p hp => hj p.1 p.2 (hLsub p hp)), hrel.same j hj]
    · intro n e hne
      by_cases hseen : seen.contains n = true
      · -- already rewritten: not in the filtered list, value untouched by the tail
        have hnot : ∀ p, p ∈ T.filter (fun p => !seen.contains p.1) → I p.1 ≠ I n := by
          intro p hp heq
          have hm := List.mem_filter.mp hp
          obtain ⟨_, o', t', _, hfind', _⟩ := hT.ent p.1 p.2 hm.1
          obtain ⟨_, o, t, _, hfind, _⟩ := hT.ent n e hne
          rw [heq] at hfind'
          have := findField_inj fs p.1 n (I n) o' o t' t hfind' hfind
          simp only [Bool.not_eq_true'] at hm
          rw [this, hseen] at hm
          exact absurd hm.2 (by simp)
        rw [h4 (I n) hnot, hrel.templ n e hne, hseen]; simp
      · have hmem : (n, e) ∈ T.filter (fun p => !seen.contains p.1) := by
          apply List.mem_filter.mpr
          exact ⟨hne, by simpa using hseen⟩
        exact h5 (n, e) hmem
  | (n, w) :: rest, sf, seen, vs, vs', res, hs, hfold, hrel => by
    simp only [List.length_cons] at hs
    obtain ⟨k, rfl⟩ : ∃ k, sf = k + 3 := ⟨sf - 3, by omega⟩
    simp only [foldG] at hfold
    cases hstep : stepG D fs (n, w) vs with
    | none => simp [hstep] at hfold
    | some vs1 =>
      simp only [hstep, Option.bind_some] at hfold
      cases hl : lookupRw T n with
      | none =>
        -- untemplated record: copied
        have hnotin := lookupRw_none T n hl
        -- the same step on the output side
        have hstep' : ∃ vs1', stepG D fs (n, w) vs' = some vs1' ∧ Rel fs T I E init seen vs1 vs1' := by
          simp only [stepG] at hstep ⊢
          cases hf : findField fs n with
          | none =>
            simp only [hf, Option.some.injEq] at hstep
            subst hstep
            exact ⟨vs', rfl, hrel⟩
          | some p =>
            obtain ⟨i, o, t⟩ := p
            simp only [hf] at hstep ⊢
            have hunt : Untouched T I i := by
              intro m e hm heq
              obtain ⟨_, o', t', _, hfind', _⟩ := hT.ent m e hm
              rw [heq] at hfind'
              have := findField_inj fs m n i o' o t' t hfind' hf
              subst this
              exact hnotin e hm
            rw [hrel.same i hunt]
            cases hd : D t o w (valsGet vs i) with
            | none => simp [hd] at hstep
            | some x =>
              simp only [hd, Option.map_some, Option.some.injEq] at hstep
              subst hstep
              refine ⟨valsSet vs' i x, rfl, ⟨by rw [valsSet_length]; exact hrel.len, by rw [valsSet_length]; exact hrel.len0, ?_, ?_⟩⟩
              · intro j hj
                by_cases hij : i = j
                · subst hij
                  obtain ⟨hi, _, _⟩ := findField_spec fs n i o t hf
                  have hsame := hrel.same i hj
                  rw [valsGet_set_eq _ _ _ (by rw [hrel.len]; exact hi), valsGet_set_eq _ _ _ (by rw [hrel.len0]; exact hi)]
                · rw [valsGet_set_ne _ _ _ _ hij, valsGet_set_ne _ _ _ _ hij]; exact hrel.same j hj
              · intro m e hm
                rw [valsGet_set_ne _ _ _ _ (fun h => hunt m e hm h.symm)]
                exact hrel.templ m e hm
        obtain ⟨vs1', hs1, hrel1⟩ := hstep'
        obtain ⟨out, res', h1, h2, h3, h4, h5⟩ := specMsg_foldG D fs T I E init hT rest (k + 2) seen vs1 vs1' res (by omega) hfold hrel1
        refine ⟨(n, w) :: out, res', ?_, ?_, h3, h4, h5⟩
        · simp only [specMsg, hl, h1, Option.bind_eq_bind, Option.bind_some, Option.pure_def]
        · simp only [foldG, hs1, Option.bind_some, h2]
      | some e =>
        have hne := lookupRw_mem T n e hl
        obtain ⟨a, o, t, hspec, hfind, hfoldA⟩ := hT.ent n e hne
        obtain ⟨hi, _, _⟩ := findField_spec fs n (I n) o t hfind
        -- the input-side step writes position I n only
        have hvs1 : ∃ x, vs1 = valsSet vs (I n) x := by
          simp only [stepG, hfind] at hstep
          cases hd : D t o w (valsGet vs (I n)) with
          | none => simp [hd] at hstep
          | some x => simp only [hd, Option.map_some, Option.some.injEq] at hstep; exact ⟨x, hstep.symm⟩
        obtain ⟨x0, rfl⟩ := hvs1
        have hinj : ∀ m e', (m, e') ∈ T → m ≠ n → I m ≠ I n := by
          intro m e' hm hmn heq
          obtain ⟨_, o', t', _, hfind', _⟩ := hT.ent m e' hm
          rw [heq] at hfind'
          exact hmn (findField_inj fs m n (I n) o' o t' t hfind' hfind)
        by_cases hseen : seen.contains n = true
        · -- later occurrence: dropped
          have hrel1 : Rel fs T I E init seen (valsSet vs (I n) x0) vs' :=
            ⟨hrel.len, by rw [valsSet_length]; exact hrel.len0, fun j hj => by
              rw [valsGet_set_ne _ _ _ _ (hj n e hne)]; exact hrel.same j hj, hrel.templ⟩
          obtain ⟨out, res', h1, h2, h3, h4, h5⟩ := specMsg_foldG D fs T I E init hT rest (k + 2) seen _ vs' res (by omega) hfold hrel1
          exact ⟨out, res', by simp only [specMsg, hl, hseen, if_true, h1], h2, h3, h4, h5⟩
        · -- first occurrence: replaced by the entry's records
          let vs1' : Vals := match E n with | some x => valsSet vs' (I n) x | none => vs'
          have hrel1 : Rel fs T I E init (n :: seen) (valsSet vs (I n) x0) vs1' := by
            refine ⟨?_, by rw [valsSet_length]; exact hrel.len0, ?_, ?_⟩
            · simp only [vs1']; split
              · rw [valsSet_length]; exact hrel.len
              · exact hrel.len
            · intro j hj
              have hjn : I n ≠ j := hj n e hne
              rw [valsGet_set_ne _ _ _ _ hjn]
              simp only [vs1']; split
              · rw [valsGet_set_ne _ _ _ _ hjn]; exact hrel.same j hj
              · exact hrel.same j hj
            · intro m e' hm
              by_cases hmn : m = n
              · subst hmn
                simp only [List.contains_cons, beq_self_eq_true, Bool.true_or, if_true, vs1']
                cases hE : E m with
                | none =>
                  simp only [Option.getD_none]
                  simp only [Bool.not_eq_true] at hseen
                  rw [hrel.templ m e' hm, hseen]; simp
                | some x => simp only [Option.getD_some]; exact valsGet_set_eq _ _ _ (by rw [hrel.len]; exact hi)
              · rw [contains_cons_ne' seen n m hmn]
                have hne' : I n ≠ I m := fun h => hinj m e' hm hmn h.symm
                simp only [vs1']; split
                · rw [valsGet_set_ne _ _ _ _ hne']; exact hrel.templ m e' hm
                · exact hrel.templ m e' hm
          obtain ⟨out, res', h1, h2, h3, h4, h5⟩ := specMsg_foldG D fs T I E init hT rest (k + 2) (n :: seen) _ vs1' res (by omega) hfold hrel1
          refine ⟨a ++ out, res', ?_, ?_, h3, h4, h5⟩
          · simp only [Bool.not_eq_true] at hseen
            simp only [specMsg, hl, hseen, Bool.false_eq_true, if_false, hspec, h1, Option.bind_eq_bind, Option.bind_some, Option.pure_def]
          · have hcur : valsGet vs' (I n) = valsGet init (I n) := by
              simp only [Bool.not_eq_true] at hseen
              rw [hrel.templ n e hne, hseen]; simp
            rw [foldG_append, hfoldA vs' hrel.len hcur]; simpa using h2

/-- **value level, table form, any message type** whose reference decoder is the positional fold `foldG D fs`. -/
theorem message_rewrite_valueG (D : Ty → FieldOpt → WireVal → Val → Option Val) (fs : Fields)
    (hD : ∀ b : Bytes, decode (.struct fs) b =
      (parse (b.length + 1) b).bind fun recs => (foldG D fs recs (zeroFields fs)).map Val.struct)
    (len : Nat) (ents : List (Nat × Rw))
    (I : Nat → Nat) (E : Nat → Option Val) (hok : entsOK len ents = true) (hne : hasEmbEnts ents = false)
    (hT : TabSemG D fs (zeroFields fs) (toSpecEnts ents) I E) (b : Bytes) (res : Vals)
    (hsz : (20 + sizeMEnts ents) * (b.length + 1) < 2 ^ 64)
    (hdec : decode (.struct fs) b = some (.struct res)) :
    ∃ out res', (∀ fuel, b.length + fuelD (.message len ents) ≤ fuel → rewrite fuel (.message len ents) b = .ok out) ∧
      decode (.struct fs) out = some (.struct res') ∧ res'.length = fs.length ∧
      (∀ j, Untouched (toSpecEnts ents) I j → valsGet res' j = valsGet res j) ∧
      (∀ n e, (n, e) ∈ toSpecEnts ents → valsGet res' (I n) = (E n).getD (valsGet (zeroFields fs) (I n))) := by
  rw [hD] at hdec
  cases hp : parse (b.length + 1) b with
  | none => simp [hp] at hdec
  | some recs =>
    simp only [hp, Option.bind_some, Option.map_eq_some_iff, Val.struct.injEq] at hdec
    obtain ⟨res0, hfold, rfl⟩ := hdec
    have hrel : RelG fs (toSpecEnts ents) I E (zeroFields fs) [] (zeroFields fs) (zeroFields fs) :=
      ⟨zeroFields_length fs, zeroFields_length fs, fun _ _ => rfl, fun n e _ => by simp⟩
    obtain ⟨outr, res', h1, h2, h3, h4, h5⟩ := specMsg_foldG D fs (toSpecEnts ents) I E (zeroFields fs) hT recs
      (recs.length + (toSpecEnts ents).length + 4) [] (zeroFields fs) (zeroFields fs) res0 (Nat.le_refl _) hfold hrel
    have hspec : specRw (recs.length + (toSpecEnts ents).length + 4 + 1) (toSpec (.message len ents)) b = some outr := by
      simp only [toSpec, specRw, hp, Option.bind_eq_bind, Option.bind_some, h1]
    obtain ⟨out, hrw, hparse⟩ := rewrite_spec_exact (.message len ents) b _ (by simpa [rwOK] using hok)
      (by simpa [hasEmb] using hne) (by simpa [sizeM] using hsz) (by rw [hspec]; rfl)
    rw [hspec] at hparse
    refine ⟨out, res', hrw, ?_, h3, h4, h5⟩
    rw [hD, hparse]
    simp [h2]

/-- the flat theorem is an instance: `TabSem` gives `TabSemG` for the overwrite fold -/
theorem TabSem_TabSemG (fs : Fields) (init : Vals) (T : List (Nat × SRw)) (I : Nat → Nat) (E : Nat → Option Val)
    (h : TabSem fs T I E) : TabSemG (fun t o w _ => sdec t o w) fs init T I E :=
  ⟨h.nodup, fun n e hne => by
    obtain ⟨a, o, t, h1, h2, h3⟩ := h.ent n e hne
    exact ⟨a, o, t, h1, h2, fun vs _ _ => by rw [← foldS_is_foldG]; exact h3 vs⟩⟩

#print axioms absent_foldG
#print axioms specMsg_foldG
#print axioms message_rewrite_valueG

end Enc.Lemmas.ProtoTemplate
