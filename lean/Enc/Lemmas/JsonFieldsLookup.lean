import Enc.Lemmas.JsonFieldsShadow
/-!
# Field resolution, part 6: decoding finds the same Go field for a JSON key (decodeStruct against encoding/json `object`)

With pairwise distinct member names the keyset (first match) and the `fieldsIndex` map (last match) find the same field,
and ASCII lower-casing (`appendToLower`) identifies the same names as ASCII upper-casing (`foldName`).
-/
namespace Enc.Lemmas.JsonFields
open Enc Enc.Model.Json.Fields Enc.Spec.Json.Fields List

/-! ### the two case foldings -/

def lowerB (c : UInt8) : UInt8 := if 0x41 ≤ c && c ≤ 0x5a then c + 0x20 else c
def upperB (c : UInt8) : UInt8 := if 0x61 ≤ c && c ≤ 0x7a then c - 0x20 else c

theorem lower_upper (c : UInt8) : lowerB (upperB c) = lowerB c := by
  have key : ∀ n, n < 256 → lowerB (upperB (UInt8.ofNat n)) = lowerB (UInt8.ofNat n) := by decide +kernel
  have := key c.toNat c.toNat_lt
  simpa using this

theorem upper_lower (c : UInt8) : upperB (lowerB c) = upperB c := by
  have key : ∀ n, n < 256 → upperB (lowerB (UInt8.ofNat n)) = upperB (UInt8.ofNat n) := by decide +kernel
  have := key c.toNat c.toNat_lt
  simpa using this

theorem asciiLower_eq (s : Bytes) : asciiLower s = s.map lowerB := rfl
theorem foldAscii_eq (s : Bytes) : foldAscii s = s.map upperB := rfl

theorem fold_iff (a b : Bytes) : asciiLower a = asciiLower b ↔ foldAscii a = foldAscii b := by
  rw [asciiLower_eq, asciiLower_eq, foldAscii_eq, foldAscii_eq]
  constructor
  · intro h
    have := congrArg (List.map upperB) h
    simpa [List.map_map, Function.comp_def, upper_lower] using this
  · intro h
    have := congrArg (List.map lowerB) h
    simpa [List.map_map, Function.comp_def, lower_upper] using this

theorem fold_beq (a b : Bytes) : (asciiLower a == asciiLower b) = (foldAscii a == foldAscii b) := by
  by_cases h : asciiLower a = asciiLower b
  · have h' := (fold_iff a b).mp h
    rw [h, h']; simp
  · have h' : ¬ foldAscii a = foldAscii b := fun e => h ((fold_iff a b).mpr e)
    have h1 : (asciiLower a == asciiLower b) = false := by simpa using h
    have h2 : (foldAscii a == foldAscii b) = false := by simpa using h'
    rw [h1, h2]

/-! ### first match = last match when the names are distinct -/

theorem find?_reverse_of_nodup {α} (f : α → Bytes) (key : Bytes) : ∀ (l : List α), (l.map f).Nodup →
    l.reverse.find? (fun r => f r == key) = l.find? (fun r => f r == key)
  | [], _ => rfl
  | a :: t, h => by
    rw [List.map_cons, List.nodup_cons] at h
    rw [List.reverse_cons, List.find?_append, find?_reverse_of_nodup f key t h.2]
    by_cases ha : f a = key
    · have hnone : t.find? (fun r => f r == key) = none := by
        rw [List.find?_eq_none]
        intro x hx hxk
        have : f x = key := by simpa using hxk
        exact h.1 (List.mem_map.mpr ⟨x, hx, by rw [this, ha]⟩)
      rw [hnone]
      simp [ha]
    · have : (f a == key) = false := by simpa using ha
      simp [this]

/-- C02 side of the sharper agreement: a JSON key is decoded into the same Go field by both libraries, whichever
lookup structure segmentio uses (keyset or map), including the case-insensitive fallback -/
theorem lookupKey_eq (fs : Fields) (hr : regular fs = true) (hs : shadowingOnly fs = true) (cpu : Bool) (key : Bytes) :
    (Model.Json.Fields.lookupKey cpu (segFields fs) key).map Resolved.obs
      = Spec.Json.Fields.lookupKey (stdFields fs) key := by
  have heq := segFields_eq_stdFields_of_shadowingOnly fs hr hs
  have hvis := segFields_eq_visible fs hr hs
  have hnd : ((segFields fs).map (·.name)).Nodup := by
    have : (segFields fs).map (·.name) = ((segFields fs).map Resolved.obs).map (·.name) := by
      rw [List.map_map]; rfl
    rw [this, hvis, map_field_name]
    exact (distinct_iff _).mp hs
  have hexact : (if keysetUsed cpu (segFields fs) then (segFields fs).find? fun r => r.name == key
      else (segFields fs).reverse.find? fun r => r.name == key) = (segFields fs).find? fun r => r.name == key := by
    split
    · rfl
    · exact find?_reverse_of_nodup (fun r : Resolved => r.name) key _ hnd
  unfold Model.Json.Fields.lookupKey Spec.Json.Fields.lookupKey
  simp only [hexact]
  rw [← heq, List.find?_map, List.find?_map]
  have e1 : ((fun f : Field => f.name == key) ∘ Resolved.obs) = fun r : Resolved => r.name == key := rfl
  have e2 : ((fun f : Field => foldAscii f.name == foldAscii key) ∘ Resolved.obs)
      = fun r : Resolved => asciiLower r.name == asciiLower key := by
    funext r; exact (fold_beq r.name key).symm
  rw [e1, e2]
  cases (segFields fs).find? fun r => r.name == key with
  | some r => rfl
  | none => rfl

#print axioms lookupKey_eq

end Enc.Lemmas.JsonFields
