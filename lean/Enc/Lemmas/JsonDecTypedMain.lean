import Enc.Lemmas.JsonDecTypedPlain
/-!
# C02, typed targets, part 5: the type-directed decoders against the specification — one induction on the model's fuel

`TOk g` (decodeInto), `ALOk g` (Typed.arrayLoop), `SLOk g` (sliceLoop), `MLOk g` (mapLoop), `STOk g` (structLoop): for fuels above
the bounds `NB` / `LB` (3 per input byte + 2 per type constructor; `SLOk / MLOk / STOk` and the loop steps are in
JsonDecTypedLoops.lean, the containers and the induction in JsonDecTypedAll.lean), flags sound before every quotation mark, a nesting depth
within the limit, a type without pointer-to-pointer and a target without interface-held pointers, the model and the
specification have the same success part (`RelE` / `RelL`).
-/
namespace Enc.Lemmas.JsonDecTypedMain
open Enc Enc.Model.Json Enc.Model.Json.Typed Enc.Lemmas.JsonDecTyped Enc.Lemmas.JsonDecTypedPlain
open Enc.Lemmas.JsonDecTypedSpecU Enc.Lemmas.JsonDecTypedScalar
open Enc.Lemmas.JsonString Enc.Lemmas.JsonGrammar Enc.Lemmas.JsonValue Enc.Lemmas.JsonDecAnyBase Enc.Lemmas.JsonDecAnyAux
open Enc.Lemmas.JsonWs (skipSpaces_eq_ws)
open Enc.Spec.Json (valueS elementsSl elementsAr membersMp membersSt lit ws value elements members number string consumed
  unquoteLit skipS fieldOf valueV)

/-! ### small facts -/

theorem value_close {f d : Nat} {b : Bytes} (h : isClose b = true) : value f d b = none := by
  cases b with
  | nil => cases h
  | cons x t =>
    have hx : x = 0x5d := by simpa [isClose] using h
    subst hx
    cases f with
    | zero => simp [value]
    | succ f =>
      rw [value_num f d 0x5d t (by decide) (by decide) (by decide) (by decide) (by decide) (by decide)]
      exact parseNumber_bad 0x5d t (by decide)

theorem valueS_close (c : TFlags) {f d : Nat} {t : JT} {cur : JV} {b : Bytes} (h : isClose b = true) :
    valueS c f d t cur b = none := by
  cases hs : valueS c f d t cur b with
  | none => rfl
  | some x => have := valueS_proj c hs; rw [value_close h] at this; cases this

theorem ws_dig {r : Bytes} (h : dig r = true) : ws r = r := by
  cases r with
  | nil => rfl
  | cons x t =>
    have hx : isDigit x = true := h
    have : Spec.Json.isWs x = false := Enc.Lemmas.JsonDecInt.digit_not_ws hx
    simp [ws, this]

theorem dig_cons {r : Bytes} (h : dig r = true) : ∃ x t, r = x :: t ∧ isDigit x = true := by
  cases r with
  | nil => cases h
  | cons x t => exact ⟨x, t, rfl, h⟩

theorem digit_ne_of {x k : UInt8} (h : isDigit x = true) (hk : isDigit k = false) : (x == k) = false := by
  cases hx : (x == k)
  · rfl
  · have : x = k := by simpa using hx
    subst this; rw [hk] at h; cases h

theorem digit_ne {x : UInt8} (h : isDigit x = true) : (x == 0x5d) = false ∧ (x == 0x2c) = false ∧ (x == 0x7d) = false :=
  ⟨digit_ne_of h (by decide), digit_ne_of h (by decide), digit_ne_of h (by decide)⟩

/-- what the model's loops do with the result of an element decoder -/
theorem okM_none_cases {α : Type} {m : TR α} (h : okM m = none) : (m = .syn) ∨ (∃ r, m = .ty r) ∨ (∃ r, m = .oth r) := by
  cases m with
  | ok v r => cases h
  | syn => exact Or.inl rfl
  | ty r => exact Or.inr (Or.inl ⟨r, rfl⟩)
  | oth r => exact Or.inr (Or.inr ⟨r, rfl⟩)

theorem okM_some {α : Type} {m : TR α} {v : α} {r : Bytes} (h : okM m = some (v, r)) : m = .ok v r := by
  cases m with
  | ok v' r' => simp only [okM, Option.some.injEq, Prod.mk.injEq] at h; rw [h.1, h.2]
  | syn => cases h
  | ty r => cases h
  | oth r => cases h

theorem okS_some {α : Type} {s : Spec.Json.SR α} {v : α} {r : Bytes} (h : okS s = some (v, r)) : s = some (v, false, r) := by
  cases s with
  | none => cases h
  | some x =>
    obtain ⟨v', bad, r'⟩ := x
    cases bad
    · simp only [okS, Option.some.injEq, Prod.mk.injEq] at h; rw [h.1, h.2]
    · cases h

theorem okS_none_cases {α : Type} {s : Spec.Json.SR α} (h : okS s = none) : s = none ∨ ∃ v r, s = some (v, true, r) := by
  cases s with
  | none => exact Or.inl rfl
  | some x =>
    obtain ⟨v', bad, r'⟩ := x
    cases bad
    · cases h
    · exact Or.inr ⟨v', r', rfl⟩

theorem okS_map_true {α β : Type} (o : Option (α × Bool × Bytes)) (g : α × Bool × Bytes → β) (h : α × Bool × Bytes → Bytes) :
    okS (o.map fun y => (g y, true || y.2.1, h y)) = none := by
  cases o <;> rfl

/-- the outcome of an element decoder, as the loops need it: either both sides fail whatever follows, or both have the
same value and remainder -/
inductive Elem (m : TR JV) (s : Spec.Json.SR JV) : Prop where
  | fail (hm : okM m = none) (hs : okS s = none ∨ ∃ v r, s = some (v, false, r) ∧ dig r = true)
  | good (v : JV) (r : Bytes) (hm : m = .ok v r) (hs : s = some (v, false, r)) (hp : plain v = true)

theorem elem_of_RelE {m : TR JV} {s : Spec.Json.SR JV} (h : RelE m s) : Elem m s := by
  obtain ⟨h1, hp⟩ := h
  rcases h1 with h1 | ⟨hm, v, r, hs, hd⟩
  · cases hs : okS s with
    | none => exact .fail (h1.trans hs) (Or.inl hs)
    | some x =>
      obtain ⟨v, r⟩ := x
      have hm := okM_some (h1.trans hs)
      exact .good v r hm (okS_some hs) (hp v r hm)
  · exact .fail hm (Or.inr ⟨v, r, okS_some hs, hd⟩)

theorem relL_fail {α : Type} {P : α → Bool} {m : TR α} {s : Spec.Json.SR α} (hm : okM m = none) (hs : okS s = none) :
    RelL P m s := ⟨hm.trans hs.symm, fun v r h => by rw [h] at hm; cases hm⟩

theorem relL_ok {α : Type} {P : α → Bool} {v : α} {r : Bytes} (hp : P v = true) :
    RelL P (.ok v r) (some (v, false, r)) :=
  ⟨rfl, fun v' r' h => by cases h; exact hp⟩

section
variable (fl : PFlags) (c : TFlags) (F : Nat)

abbrev maxD : Nat := Gen.c_json_maxNestingDepth

def TOk (g : Nat) : Prop :=
  ∀ dp f' t cur b, dp ≤ maxD → noPP t = true → plain cur = true → NB b t ≤ g → NB b t ≤ f' → 3 * b.length ≤ F →
    QSound fl b → RelE (decodeInto fl c F g dp t cur b) (valueS c f' (budget dp) t cur b)

/-! ### arrays -/

/-- the specification's array production from an element position on (after the separator) -/
def arStep (f d : Nat) (e : JT) (sl : JVs) (b2 : Bytes) : Spec.Json.SR JVs :=
  if isClose b2 then none
  else
    (match sl with
     | .cons slot rest =>
       (valueS c f d e slot b2).bind fun x =>
         (elementsAr c f d e rest (ws x.2.2) false).map fun y => (JVs.cons x.1 y.1, x.2.1 || y.2.1, y.2.2)
     | .nil => (value f d b2).bind fun r2 => elementsAr c f d e .nil (ws r2) false)

def ALOk (g : Nat) : Prop :=
  ∀ dp f' e input sl b, dp ≤ maxD → noPP e = true → plains sl = true → LB b (sizeT e) ≤ g → LB b (sizeT e) ≤ f' →
    3 * b.length ≤ F → QSound fl b →
    RelL plains (Typed.arrayLoop fl c F g dp e input sl b) (arStep c f' (budget dp) e sl b)

def consOpt (ov : Option JV) (vs : JVs) : JVs := match ov with | some v => .cons v vs | none => vs

/-- what Typed.arrayLoop does after an element -/
def arTailM (g dp : Nat) (e : JT) (input : Bytes) (sl : JVs) (ov : Option JV) (r : Bytes) : TR JVs :=
  match skipSpaces r with
  | [] => .syn
  | c0 :: rest =>
    if c0 == 0x5d then .ok (consOpt ov (match ov with | some _ => JVs.replicate (zeroOf e) sl.tail.length | none => .nil)) rest
    else if c0 != 0x2c then .syn
    else match Typed.arrayLoop fl c F g dp e input sl.tail (skipSpaces rest) with
      | .ok vs r' => .ok (consOpt ov vs) r'
      | e' => e'

theorem elementsAr_dig (f d : Nat) (e : JT) (sl : JVs) {r : Bytes} (h : dig r = true) :
    elementsAr c f d e sl (ws r) false = none := by
  rw [ws_dig h]
  obtain ⟨x, t, rfl, hx⟩ := dig_cons h
  cases f with
  | zero => exact elementsAr_zero c d e sl _ _
  | succ f =>
    rw [elementsAr_succ_cons]
    simp [(digit_ne hx).1, (digit_ne hx).2.1]

/-! ### pointers -/

theorem relE_map {m : TR JV} {s : Spec.Json.SR JV} (f : JV → JV) (hf : ∀ v, plain v = true → plain (f v) = true)
    (h : RelE m s) : RelE (mapOk f m) (s.map fun x => (f x.1, x.2)) := by
  obtain ⟨h1, hp⟩ := h
  refine ⟨?_, ?_⟩
  · rw [okM_mapOk, okS_map_fst]
    rcases h1 with h1 | ⟨hm, v, r, hs, hd⟩
    · left; rw [h1]
    · right; rw [hm, hs]; exact ⟨rfl, f v, r, rfl, hd⟩
  · intro v r hv
    cases m with
    | ok v' r' => simp only [mapOk, TR.ok.injEq] at hv; rw [← hv.1]; exact hf _ (hp v' r' rfl)
    | syn => cases hv
    | ty r' => cases hv
    | oth r' => cases hv

theorem decodePtr_other (g dp : Nat) (e : JT) (cur : JV) (b : Bytes) (hn : hasPrefix b nullLit = false)
    (hc : ∀ old v, cur ≠ .ptr old v) :
    decodeInto fl c F (g + 2) dp (.ptr e) cur b = mapOk (JV.ptr false) (decodeInto fl c F g dp e (zeroOf e) b) := by
  cases cur with
  | ptr old v => exact absurd rfl (hc old v)
  | _ =>
    simp only [decodeInto, decodePointer, hn, Bool.false_eq_true, if_false]
    cases decodeInto fl c F g dp e (zeroOf e) b <;> rfl

theorem decodePtr_null (g dp : Nat) (e : JT) (cur : JV) (b : Bytes) (hn : hasPrefix b nullLit = true)
    (he : e.isPtr = false) :
    decodeInto fl c F (g + 2) dp (.ptr e) cur b = .ok .nilptr (b.drop 4) := by
  cases cur <;> simp [decodeInto, decodePointer, hn, he]

/-- **pointers** (no pointer to pointer), under the induction hypothesis for the pointee type -/
theorem ptr_step {g : Nat} (dp f' : Nat) (e : JT) (cur : JV) (b : Bytes)
    (hT : ∀ cur', plain cur' = true → RelE (decodeInto fl c F g dp e cur' b) (valueS c f' (budget dp) e cur' b))
    (ht : (JT.ptr e).isPtr = true → e.isPtr = false) (hcur : plain cur = true) :
    RelE (decodeInto fl c F (g + 2) dp (.ptr e) cur b) (valueS c (f' + 1) (budget dp) (.ptr e) cur b) := by
  have he : e.isPtr = false := ht rfl
  rw [valueS.eq_def]
  simp only []
  by_cases hn : hasPrefix b nullLit = true
  · have hl : lit Spec.Json.nullLit b = some (b.drop 4) := by
      show (if hasPrefix b nullLit = true then some (b.drop 4) else none) = _
      rw [if_pos hn]
    rw [decodePtr_null fl c F g dp e cur b hn he, hl]
    exact ⟨Or.inl rfl, fun v r h => by cases h; rfl⟩
  · have hn' : hasPrefix b nullLit = false := by simpa using hn
    have hl : lit Spec.Json.nullLit b = none := by
      show (if hasPrefix b nullLit = true then some (b.drop 4) else none) = _
      rw [if_neg hn]
    simp only [hl, Option.isSome_none, Bool.false_eq_true, if_false]
    cases cur with
    | ptr old v =>
      rw [model_ptr_reused fl c F g dp e old v b hn']
      have hv : plain v = true := by simpa [plain] using hcur
      exact relE_map (JV.ptr old) (fun x hx => by simpa [plain] using hx) (hT v hv)
    | _ =>
      rw [decodePtr_other fl c F g dp e _ b hn' (by intro old v h; cases h)]
      exact relE_map (JV.ptr false) (fun x hx => by simpa [plain] using hx) (hT (zeroOf e) (plain_zero e))


/-! ### `any` holding nil or a non-pointer value: the generic decoder of DecAny.lean -/

theorem decodeIface_plain (g dp : Nat) (cur : JV) (b : Bytes) (hc : ∀ t o v, cur ≠ .anyp t o v) :
    decodeInto fl c F (g + 2) dp .any cur b =
      (match decodeInterface fl c.dyn F dp g b with
       | .ok g0 r => .ok (.anyv g0) r
       | .syntaxErr => .syn
       | .typeErr r => .ty r
       | .unrep => .syn) := by
  cases cur with
  | anyp t o v => exact absurd rfl (hc t o v)
  | _ =>
    simp only [decodeInto, decodeIface]
    cases decodeInterface fl c.dyn F dp g b <;> rfl

/-- **any** (an interface that holds no pointer is overwritten by the generic value), at any depth, any remainder -/
theorem any_stepX (g dp f' : Nat) (cur : JV) (b : Bytes) (hc : ∀ t o v, cur ≠ .anyp t o v)
    (hdp : dp ≤ maxD) (hg : 3 * b.length ≤ g) (hF : 3 * b.length ≤ F) (hf : 2 * b.length ≤ f' + 1) (hq : QSound fl b) :
    RelX (decodeInto fl c F (g + 2) dp .any cur b) (valueS c (f' + 1) (budget dp) .any cur b) := by
  have R := Enc.Lemmas.JsonDecAny.decodeInterface_spec fl c.dyn F g dp (f' + 1) b hdp hg hF hf hq
  obtain ⟨h1, _⟩ := Enc.Lemmas.JsonDecAny.okPart_of_RV R
  rw [decodeIface_plain fl c F g dp cur b hc]
  have hS : valueS c (f' + 1) (budget dp) .any cur b =
      (valueV c.dyn (f' + 1) (budget dp) b).map fun x => (JV.anyv x.1, x.2) := by
    rw [valueS.eq_def]
    cases cur with
    | anyp t o v => exact absurd rfl (hc t o v)
    | _ => rfl
  rw [hS]
  refine ⟨?_, ?_⟩
  · cases hm : decodeInterface fl c.dyn F dp g b <;>
      cases hs : valueV c.dyn (f' + 1) (budget dp) b <;>
      simp_all [okM, okS, Enc.Lemmas.JsonDecAny.okPart, Enc.Lemmas.JsonDecAny.okOf]
    all_goals
      rename_i x
      obtain ⟨v, o, r⟩ := x
      cases o <;> simp_all [okM, okS, Enc.Lemmas.JsonDecAny.okPart, Enc.Lemmas.JsonDecAny.okOf]
  · intro v r h
    cases hm : decodeInterface fl c.dyn F dp g b <;> rw [hm] at h <;> simp only [] at h <;> cases h
    rfl


theorem any_step (g dp f' : Nat) (cur : JV) (b : Bytes) (hc : ∀ t o v, cur ≠ .anyp t o v)
    (hdp : dp ≤ maxD) (hg : 3 * b.length ≤ g) (hF : 3 * b.length ≤ F) (hf : 2 * b.length ≤ f' + 1) (hq : QSound fl b) :
    RelE (decodeInto fl c F (g + 2) dp .any cur b) (valueS c (f' + 1) (budget dp) .any cur b) :=
  (any_stepX fl c F g dp f' cur b hc hdp hg hF hf hq).toE

/-! ### from values to whole documents -/

theorem fin_of_RelE {m : TR JV} {s : Spec.Json.SR JV} (h : RelE m s) :
    Enc.Lemmas.JsonDecTypedScalar.fin (okM m) = Enc.Lemmas.JsonDecTypedScalar.fin (okS s) := by
  rcases h.1 with h1 | ⟨hm, v, r, hs, hd⟩
  · rw [h1]
  · rw [hm, hs]
    obtain ⟨x, t, rfl, hx⟩ := dig_cons hd
    have : ws (x :: t) = x :: t := ws_dig hd
    simp [Enc.Lemmas.JsonDecTypedScalar.fin, this]

/-- **`any` at the top level** (an interface holding nil or any non-pointer value left by an earlier decode): whole
documents, both flags -/
theorem unmarshal_any (cur : JV) (hc : ∀ t o v, cur ≠ .anyp t o v) (doc : Bytes) :
    okU (unmarshalTyped c .any cur doc) = Spec.Json.unmarshalTyped c .any cur doc := by
  rw [model_top, spec_top]
  have hl := ws_length_le doc
  obtain ⟨g, hg⟩ : ∃ g, typedFuel .any cur (ws doc) = g + 2 := ⟨typedFuel .any cur (ws doc) - 2, by unfold typedFuel; omega⟩
  obtain ⟨f, hf⟩ := specFuel_succ .any cur doc
  have hq : QSound (internalParseFlags doc) (ws doc) := by
    rw [← skipSpaces_eq_ws]; exact Enc.Lemmas.JsonValid.internalParseFlags_qsound doc
  rw [hg, hf]
  have hb : budget 0 = 10000 := rfl
  rw [← hb]
  exact fin_of_RelE (any_step (internalParseFlags doc) c (anyFuel (ws doc)) g 0 f cur (ws doc) hc (Nat.zero_le _)
    (by unfold typedFuel at hg; omega) (by unfold anyFuel; omega) (by unfold Spec.Json.specFuel at hf; omega) hq)

/-- **pointer to `any` at the top level**: a non-nil pointer is reused, a nil pointer allocated, `null` makes it nil -/
theorem unmarshal_ptr_any (cur : JV) (hcur : plain cur = true) (doc : Bytes) :
    okU (unmarshalTyped c (.ptr .any) cur doc) = Spec.Json.unmarshalTyped c (.ptr .any) cur doc := by
  rw [model_top, spec_top]
  have hl := ws_length_le doc
  obtain ⟨g, hg⟩ : ∃ g, typedFuel (.ptr .any) cur (ws doc) = g + 4 :=
    ⟨typedFuel (.ptr .any) cur (ws doc) - 4, by unfold typedFuel; omega⟩
  obtain ⟨f, hf⟩ : ∃ f, Spec.Json.specFuel (.ptr .any) cur doc = f + 2 :=
    ⟨Spec.Json.specFuel (.ptr .any) cur doc - 2, by unfold Spec.Json.specFuel; omega⟩
  have hq : QSound (internalParseFlags doc) (ws doc) := by
    rw [← skipSpaces_eq_ws]; exact Enc.Lemmas.JsonValid.internalParseFlags_qsound doc
  rw [hg, hf]
  have hb : budget 0 = 10000 := rfl
  rw [← hb]
  refine fin_of_RelE (ptr_step (internalParseFlags doc) c (anyFuel (ws doc)) (g := g + 2) 0 (f + 1) .any cur (ws doc) ?_ ?_ hcur)
  · intro cur' hc'
    have hnp : ∀ t o v, cur' ≠ .anyp t o v := by
      intro t o v h; subst h; simp [plain] at hc'
    exact any_step (internalParseFlags doc) c (anyFuel (ws doc)) g 0 f cur' (ws doc) hnp (Nat.zero_le _)
      (by unfold typedFuel at hg; omega) (by unfold anyFuel; omega) (by unfold Spec.Json.specFuel at hf; omega) hq
  · intro _; rfl

#print axioms ptr_step
#print axioms any_step
#print axioms unmarshal_any
#print axioms unmarshal_ptr_any

end

end Enc.Lemmas.JsonDecTypedMain

