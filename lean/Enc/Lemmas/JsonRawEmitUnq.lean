import Enc.Lemmas.JsonRawEmitEsc
import Enc.Lemmas.JsonRTUtf8
import Enc.Lemmas.JsonDecAnyRtStr
/-!
# RawMessage / MarshalJSON re-emission, part 4: escaping a string body does not change what it unquotes to

`unq_K`: for a well-formed string body `s`, encoding/json's `unquote` gives the same bytes on `s` and on the body written
by appendCompactEscapeHTML with EscapeHTML (`<`, `>`, `&` → `\u00XX`, U+2028/9 → `\u202X`). The two delicate points:
invalid UTF-8 around the replaced bytes (both `E2` and `\` are non-continuation bytes, so `DecodeRune` fails in the same
way), and a `\uD8xx` escape directly in front of a replaced byte (a lone surrogate followed by `<` becomes a surrogate
followed by `<`: an invalid pair — U+FFFD either way).
-/
namespace Enc.Lemmas.JsonRawEmitUnq
open Enc Enc.Model.Json Enc.Model.Json.RawEmit Enc.Lemmas.JsonRawEmitLoop Enc.Lemmas.JsonRawEmitEsc
open Enc.Lemmas.TokConcat (Mode)
open Enc.Spec.Json (unquoteStd hexdig hexv isSurr utf16Pair simpleEscape)
open Enc.Utf8
open Enc.Lemmas.JsonDecString
open Enc.Lemmas.JsonRTUtf8 (cont_iff decodeRune_cases)
open Enc.Lemmas.JsonDecAnyRtStr (decode_2_ext decode_3_ext)

abbrev KT (s : Bytes) : Bytes := K true .str 0 s

/-! ### continuation bytes -/

theorem cont_facts {x : UInt8} (h : cont x = true) : x ≠ 0x22 ∧ x ≠ 0x5c ∧ clean x = true ∧ ¬ x < 0x20 := by
  have hb := (cont_iff x).mp h
  refine ⟨?_, ?_, ?_, ?_⟩
  · intro e; subst e; simp at hb
  · intro e; subst e; simp at hb
  · simp only [clean, isHtml, Bool.and_eq_true, Bool.not_eq_true', Bool.or_eq_false_iff, beq_eq_false_iff_ne, bne_iff_ne, ne_eq]
    refine ⟨⟨⟨?_, ?_⟩, ?_⟩, ?_⟩ <;> (intro e; subst e; simp at hb)
  · intro hlt; have := UInt8.lt_iff_toNat_lt.mp hlt; simp at this; omega

theorem KT_cont (x : UInt8) (s : Bytes) (h : cont x = true) : KT (x :: s) = x :: KT s := by
  obtain ⟨h1, h2, h3, _⟩ := cont_facts h
  exact K_str_copy true x s h1 h2 (fun _ => clean_copy _ h3)

theorem inner_tail_cont {x : UInt8} {s : Bytes} (h : cont x = true) (hI : Inner (x :: s)) : Inner s := by
  obtain ⟨_, h2, _, _⟩ := cont_facts h
  cases hI with
  | plain _ _ _ hr => exact hr
  | simple => exact absurd rfl h2
  | uni => exact absurd rfl h2

/-- the head of the scanner's output is a continuation byte only if it was copied -/
theorem KT_head_cont {s : Bytes} (hI : Inner s) {x : UInt8} {Y : Bytes} (hk : KT s = x :: Y) (hx : cont x = true) :
    ∃ s'', s = x :: s'' ∧ Y = KT s'' ∧ Inner s'' := by
  have h5c : cont 0x5c = false := by decide
  have he2 : cont 0xe2 = false := by decide
  rcases inner_cases hI with rfl | ⟨c, s', rfl, hp, hc, hI'⟩ | ⟨c, s', rfl, hh, hI'⟩ | ⟨b2, s', rfl, hb, hI'⟩ |
    ⟨s', rfl, hl, hI'⟩ | ⟨y, s', rfl, hy, hI'⟩ | ⟨a, b, c, d, s', rfl, hh, hI'⟩
  · simp [KT, K] at hk
  · rw [KT, K_str_copy true c _ hp.1 hp.2.1 (fun _ => clean_copy _ hc)] at hk
    simp only [List.cons.injEq] at hk
    obtain ⟨rfl, rfl⟩ := hk
    exact ⟨s', rfl, rfl, hI'⟩
  · rw [KT, K_str_html c _ hh] at hk
    simp only [uEsc, List.cons_append, List.cons.injEq] at hk
    rw [← hk.1, h5c] at hx; cases hx
  · rw [KT, K_str_ls b2 _ hb] at hk
    simp only [lsEsc, List.cons_append, List.cons.injEq] at hk
    rw [← hk.1, h5c] at hx; cases hx
  · rw [KT, K_str_copy true 0xe2 _ (by decide) (by decide) (fun _ => ⟨by decide, hl⟩)] at hk
    simp only [List.cons.injEq] at hk
    rw [← hk.1, he2] at hx; cases hx
  · rw [KT, K_str_esc] at hk
    simp only [List.cons.injEq] at hk
    rw [← hk.1, h5c] at hx; cases hx
  · rw [KT, K_str_esc] at hk
    simp only [List.cons.injEq] at hk
    rw [← hk.1, h5c] at hx; cases hx

theorem cont_of_bounds {c1 : UInt8} {lo hi : Nat} (h1 : lo ≤ c1.toNat) (h2 : c1.toNat ≤ hi) (hlo : 0x80 ≤ lo) (hhi : hi ≤ 0xBF) :
    cont c1 = true := (cont_iff c1).mpr ⟨by omega, by omega⟩

theorem lo3 (x : Nat) : 0x80 ≤ (if (x == 0xE0) = true then 0xA0 else 0x80) := by split <;> omega
theorem hi3 (x : Nat) : (if (x == 0xED) = true then 0x9F else 0xBF) ≤ 0xBF := by split <;> omega
theorem lo4 (x : Nat) : 0x80 ≤ (if (x == 0xF0) = true then 0x90 else 0x80) := by split <;> omega
theorem hi4 (x : Nat) : (if (x == 0xF4) = true then 0x8F else 0xBF) ≤ 0xBF := by split <;> omega

/-- the rune decoded at a high byte, and what follows it, in a body and in its escaped form -/
theorem decode_KT (c : UInt8) (s' : Bytes) (hc : 0x80 ≤ c.toNat) (hI : Inner s') :
    ∃ rr n s'', decodeRune (c :: s') = (rr, n) ∧ decodeRune (c :: KT s') = (rr, n) ∧
      (c :: s').drop n = s'' ∧ (c :: KT s').drop n = KT s'' ∧ Inner s'' ∧ s''.length ≤ s'.length := by
  rcases decodeRune_cases c s' with ⟨h, _⟩ | ⟨_, h⟩ | ⟨c1, r', rfl, _, _, hc1, h⟩ |
      ⟨c1, c2, r', rfl, _, _, hl, hh, hc2, h⟩ | ⟨c1, c2, c3, r', rfl, _, _, hl, hh, hc2, hc3, h⟩
  · omega
  · -- invalid in the body: invalid in the escaped form too
    refine ⟨runeError, 1, s', h, ?_, rfl, rfl, hI, Nat.le_refl _⟩
    rcases decodeRune_cases c (KT s') with ⟨h', _⟩ | ⟨_, h'⟩ | ⟨c1, r', hk, _, _, hc1, h'⟩ |
        ⟨c1, c2, r', hk, _, _, hl, hh, hc2, h'⟩ | ⟨c1, c2, c3, r', hk, _, _, hl, hh, hc2, hc3, h'⟩
    · omega
    · exact h'
    · exfalso
      obtain ⟨s1, rfl, _, _⟩ := KT_head_cont hI hk hc1
      have h2 : (decodeRune (c :: c1 :: r')).2 = 2 := by rw [← hk, h']
      have := decode_2_ext c c1 r' s1 h2
      rw [h, ← hk, h'] at this; have := congrArg Prod.snd this; simp at this
    · exfalso
      have hc1 := cont_of_bounds hl hh (lo3 _) (hi3 _)
      obtain ⟨s1, rfl, hY, hI1⟩ := KT_head_cont hI hk hc1
      obtain ⟨s2, rfl, _, _⟩ := KT_head_cont hI1 hY.symm hc2
      have h3 : (decodeRune (c :: c1 :: c2 :: r')).2 = 3 := by rw [← hk, h']
      have := decode_3_ext c c1 c2 r' s2 h3
      rw [h, ← hk, h'] at this; have := congrArg Prod.snd this; simp at this
    · exfalso
      have hc1 := cont_of_bounds hl hh (lo4 _) (hi4 _)
      obtain ⟨s1, rfl, hY, hI1⟩ := KT_head_cont hI hk hc1
      obtain ⟨s2, rfl, hY2, hI2⟩ := KT_head_cont hI1 hY.symm hc2
      obtain ⟨s3, rfl, _, _⟩ := KT_head_cont hI2 hY2.symm hc3
      have := decodeRune_4 c c1 c2 c3 r' s3
      rw [h, ← hk, h'] at this; have := congrArg Prod.snd this; simp at this
  · have hI1 := inner_tail_cont hc1 hI
    refine ⟨_, 2, r', h, ?_, rfl, ?_, hI1, by simp only [List.length_cons]; omega⟩
    · rw [KT_cont c1 r' hc1, decode_2_ext c c1 r' _ (by rw [h]), h]
    · rw [KT_cont c1 r' hc1]; rfl
  · have hc1 := cont_of_bounds hl hh (lo3 _) (hi3 _)
    have hI1 := inner_tail_cont hc1 hI
    have hI2 := inner_tail_cont hc2 hI1
    refine ⟨_, 3, r', h, ?_, rfl, ?_, hI2, by simp only [List.length_cons]; omega⟩
    · rw [KT_cont c1 _ hc1, KT_cont c2 _ hc2, decode_3_ext c c1 c2 r' _ (by rw [h]), h]
    · rw [KT_cont c1 _ hc1, KT_cont c2 _ hc2]; rfl
  · have hc1 := cont_of_bounds hl hh (lo4 _) (hi4 _)
    have hI1 := inner_tail_cont hc1 hI
    have hI2 := inner_tail_cont hc2 hI1
    have hI3 := inner_tail_cont hc3 hI2
    refine ⟨_, 4, r', h, ?_, rfl, ?_, hI3, by simp only [List.length_cons]; omega⟩
    · rw [KT_cont c1 _ hc1, KT_cont c2 _ hc2, KT_cont c3 _ hc3, decodeRune_4 c c1 c2 c3 _ r', h]
    · rw [KT_cont c1 _ hc1, KT_cont c2 _ hc2, KT_cont c3 _ hc3]; rfl


/-! ### escapes -/

theorem hv3c : ((hexv 0x30 * 16 + hexv 0x30) * 16 + hexv 0x33) * 16 + hexv 0x63 = 0x3c := by decide
theorem hv3e : ((hexv 0x30 * 16 + hexv 0x30) * 16 + hexv 0x33) * 16 + hexv 0x65 = 0x3e := by decide
theorem hv26 : ((hexv 0x30 * 16 + hexv 0x30) * 16 + hexv 0x32) * 16 + hexv 0x36 = 0x26 := by decide
theorem hv2028 : ((hexv 0x32 * 16 + hexv 0x30) * 16 + hexv 0x32) * 16 + hexv 0x38 = 0x2028 := by decide
theorem hv2029 : ((hexv 0x32 * 16 + hexv 0x30) * 16 + hexv 0x32) * 16 + hexv 0x39 = 0x2029 := by decide

/-- the escapes written by the scanner: four hex digits `a b c d` whose value `R` is not a low surrogate, standing for
the bytes `orig` -/
structure EscUnit (a b c d : UInt8) (R : Nat) : Prop where
  hex : (hexdig a && hexdig b && hexdig c && hexdig d) = true
  val : ((hexv a * 16 + hexv b) * 16 + hexv c) * 16 + hexv d = R
  low : R < 0xD800

theorem esc_3c : EscUnit 0x30 0x30 0x33 0x63 0x3c := ⟨by decide, hv3c, by decide⟩
theorem esc_3e : EscUnit 0x30 0x30 0x33 0x65 0x3e := ⟨by decide, hv3e, by decide⟩
theorem esc_26 : EscUnit 0x30 0x30 0x32 0x36 0x26 := ⟨by decide, hv26, by decide⟩
theorem esc_2028 : EscUnit 0x32 0x30 0x32 0x38 0x2028 := ⟨by decide, hv2028, by decide⟩
theorem esc_2029 : EscUnit 0x32 0x30 0x32 0x39 0x2029 := ⟨by decide, hv2029, by decide⟩

theorem EscUnit.notSurr {a b c d : UInt8} {R : Nat} (h : EscUnit a b c d R) :
    isSurr (((hexv a * 16 + hexv b) * 16 + hexv c) * 16 + hexv d) = false := by
  rw [h.val]; have := h.low; simp [isSurr]; omega

theorem EscUnit.noPair {a b c d : UInt8} {R : Nat} (h : EscUnit a b c d R) (hi : Nat) :
    utf16Pair hi (((hexv a * 16 + hexv b) * 16 + hexv c) * 16 + hexv d) = none := by
  rw [h.val]; have := h.low
  simp only [utf16Pair]
  split
  · rename_i hc; simp only [Bool.and_eq_true, decide_eq_true_eq] at hc; omega
  · rfl

/-- the scanner's output for a replaced unit: `\u` + four hex digits -/
theorem KT_html_cases {c : UInt8} (s' : Bytes) (hh : isHtml c = true) :
    ∃ a b c' d, EscUnit a b c' d c.toNat ∧ KT (c :: s') = 0x5c :: 0x75 :: a :: b :: c' :: d :: KT s' := by
  rcases isHtml_cases hh with rfl | rfl | rfl
  · exact ⟨_, _, _, _, esc_3c, by rw [KT, K_str_html _ _ hh, uEsc_3c]; rfl⟩
  · exact ⟨_, _, _, _, esc_3e, by rw [KT, K_str_html _ _ hh, uEsc_3e]; rfl⟩
  · exact ⟨_, _, _, _, esc_26, by rw [KT, K_str_html _ _ hh, uEsc_26]; rfl⟩

theorem KT_ls_cases {b2 : UInt8} (s' : Bytes) (hb : b2 = 0xa8 ∨ b2 = 0xa9) :
    ∃ a b c' d R, EscUnit a b c' d R ∧ KT (0xe2 :: 0x80 :: b2 :: s') = 0x5c :: 0x75 :: a :: b :: c' :: d :: KT s' ∧
      decodeRune (0xe2 :: 0x80 :: b2 :: s') = (R, 3) := by
  rcases hb with rfl | rfl
  · exact ⟨_, _, _, _, _, esc_2028, by rw [KT, K_str_ls _ _ (Or.inl rfl), lsEsc_a8]; rfl, by simp [decodeRune, cont]⟩
  · exact ⟨_, _, _, _, _, esc_2029, by rw [KT, K_str_ls _ _ (Or.inr rfl), lsEsc_a9]; rfl, by simp [decodeRune, cont]⟩

/-- a surrogate escape in front of the body `s'`: either a valid pair (in both forms), or U+FFFD followed by `s'` (in
both forms) -/
theorem surr_step (a b c d : UInt8) (s' : Bytes) (hI : Inner s')
    (hs : isSurr (((hexv a * 16 + hexv b) * 16 + hexv c) * 16 + hexv d) = true) (g g' : Nat) :
    (∃ a' b' c' d' s'' dec, s' = 0x5c :: 0x75 :: a' :: b' :: c' :: d' :: s'' ∧ Inner s'' ∧
        KT s' = 0x5c :: 0x75 :: a' :: b' :: c' :: d' :: KT s'' ∧
        unquoteStd (g+1) (0x5c :: 0x75 :: a :: b :: c :: d :: s') = encodeRune dec ++ unquoteStd g s'' ∧
        unquoteStd (g'+1) (0x5c :: 0x75 :: a :: b :: c :: d :: KT s') = encodeRune dec ++ unquoteStd g' (KT s'')) ∨
    (unquoteStd (g+1) (0x5c :: 0x75 :: a :: b :: c :: d :: s') = encodeRune runeError ++ unquoteStd g s' ∧
      unquoteStd (g'+1) (0x5c :: 0x75 :: a :: b :: c :: d :: KT s') = encodeRune runeError ++ unquoteStd g' (KT s')) := by
  rcases inner_cases hI with rfl | ⟨c0, s0, rfl, hp, hc, hI'⟩ | ⟨c0, s0, rfl, hh, hI'⟩ | ⟨b2, s0, rfl, hb, hI'⟩ |
    ⟨s0, rfl, hl, hI'⟩ | ⟨y, s0, rfl, hy, hI'⟩ | ⟨a', b', c', d', s0, rfl, hh, hI'⟩
  · right
    have : KT [] = [] := by simp [KT, K]
    rw [this]
    exact ⟨std_u_surr_lone g a b c d [] hs (by intros; simp), std_u_surr_lone g' a b c d [] hs (by intros; simp)⟩
  · right
    have hk : KT (c0 :: s0) = c0 :: KT s0 := K_str_copy true c0 _ hp.1 hp.2.1 (fun _ => clean_copy _ hc)
    rw [hk]
    have hne : ∀ X : Bytes, ∀ a' b' c' d' r3, c0 :: X ≠ 0x5c :: 0x75 :: a' :: b' :: c' :: d' :: r3 := by
      intro X a' b' c' d' r3 e; simp only [List.cons.injEq] at e; exact hp.2.1 e.1
    exact ⟨std_u_surr_lone g a b c d _ hs (hne _), std_u_surr_lone g' a b c d _ hs (hne _)⟩
  · right
    obtain ⟨x1, x2, x3, x4, hE, hk⟩ := KT_html_cases s0 hh
    rw [hk]
    have hne : ∀ a' b' c' d' r3, c0 :: s0 ≠ 0x5c :: 0x75 :: a' :: b' :: c' :: d' :: r3 := by
      intro a' b' c' d' r3 e; simp only [List.cons.injEq] at e; exact (html_ne hh).2 e.1
    exact ⟨std_u_surr_lone g a b c d _ hs hne, std_u_surr_none g' a b c d x1 x2 x3 x4 _ hs hE.hex (hE.noPair _)⟩
  · right
    obtain ⟨x1, x2, x3, x4, R, hE, hk, _⟩ := KT_ls_cases s0 hb
    rw [hk]
    have hne : ∀ a' b' c' d' r3, (0xe2 : UInt8) :: 0x80 :: b2 :: s0 ≠ 0x5c :: 0x75 :: a' :: b' :: c' :: d' :: r3 := by
      intro a' b' c' d' r3 e; simp at e
    exact ⟨std_u_surr_lone g a b c d _ hs hne, std_u_surr_none g' a b c d x1 x2 x3 x4 _ hs hE.hex (hE.noPair _)⟩
  · right
    have hk : KT (0xe2 :: s0) = 0xe2 :: KT s0 := K_str_copy true 0xe2 _ (by decide) (by decide) (fun _ => ⟨by decide, hl⟩)
    rw [hk]
    have hne : ∀ X : Bytes, ∀ a' b' c' d' r3, (0xe2 : UInt8) :: X ≠ 0x5c :: 0x75 :: a' :: b' :: c' :: d' :: r3 := by
      intro X a' b' c' d' r3 e; simp at e
    exact ⟨std_u_surr_lone g a b c d _ hs (hne _), std_u_surr_lone g' a b c d _ hs (hne _)⟩
  · right
    have hk : KT (0x5c :: y :: s0) = 0x5c :: y :: KT s0 := K_str_esc true y s0
    rw [hk]
    have hy75 := simple_ne_u hy
    have hne : ∀ X : Bytes, ∀ a' b' c' d' r3, (0x5c : UInt8) :: y :: X ≠ 0x5c :: 0x75 :: a' :: b' :: c' :: d' :: r3 := by
      intro X a' b' c' d' r3 e; simp only [List.cons.injEq, true_and] at e; exact hy75 e.1
    exact ⟨std_u_surr_lone g a b c d _ hs (hne _), std_u_surr_lone g' a b c d _ hs (hne _)⟩
  · have hk : KT (0x5c :: 0x75 :: a' :: b' :: c' :: d' :: s0) = 0x5c :: 0x75 :: a' :: b' :: c' :: d' :: KT s0 := by
      rw [KT, K_str_esc, K_hex4 true a' b' c' d' _ hh]
    cases hp : utf16Pair (((hexv a * 16 + hexv b) * 16 + hexv c) * 16 + hexv d)
        (((hexv a' * 16 + hexv b') * 16 + hexv c') * 16 + hexv d') with
    | some dec =>
      left
      refine ⟨a', b', c', d', s0, dec, rfl, hI', hk, std_u_surr_some g a b c d a' b' c' d' s0 dec hs hh hp, ?_⟩
      rw [hk]; exact std_u_surr_some g' a b c d a' b' c' d' _ dec hs hh hp
    | none =>
      right
      rw [hk]
      exact ⟨std_u_surr_none g a b c d a' b' c' d' s0 hs hh hp, std_u_surr_none g' a b c d a' b' c' d' _ hs hh hp⟩


theorem encodeRune_small {R : Nat} (c : UInt8) (h : R = c.toNat) (hlt : c < 0x80) : encodeRune R = [c] := by
  subst h; exact encodeRune_ascii c hlt

/-- a plain byte ≥ 0x80 that the scanner copies -/
theorem hi_step (n : Nat)
    (ih : ∀ s : Bytes, s.length ≤ n → Inner s → ∀ g g', s.length ≤ g → (KT s).length ≤ g' → unquoteStd g' (KT s) = unquoteStd g s)
    (c : UInt8) (s' : Bytes) (hI : Inner s') (hn : s'.length ≤ n) (h5c : c ≠ 0x5c) (h80 : ¬ c < 0x80)
    (hk : KT (c :: s') = c :: KT s') (g0 g0' : Nat) (hg : s'.length ≤ g0) (hg' : (KT s').length ≤ g0') :
    unquoteStd (g0' + 1) (KT (c :: s')) = unquoteStd (g0 + 1) (c :: s') := by
  have hc : 0x80 ≤ c.toNat := by
    have : ¬ c.toNat < 0x80 := fun h => h80 (UInt8.lt_iff_toNat_lt.mpr (by simpa using h))
    omega
  obtain ⟨rr, m, s'', h1, h2, h3, h4, hI'', hl⟩ := decode_KT c s' hc hI
  rw [hk, std_plain_hi g0' c _ h5c h80, std_plain_hi g0 c _ h5c h80, h1, h2]
  simp only
  rw [h3, h4]
  congr 1
  have hm : 1 ≤ m := by have := decodeRune_size_pos c s'; rw [h1] at this; exact this
  have hlen : (KT s'').length ≤ (KT s').length := by
    rw [← h4, List.length_drop, List.length_cons]; omega
  exact ih s'' (by omega) hI'' g0 g0' (by omega) (by omega)

/-- **escaping preserves the unquoted content**, for all sufficient fuels -/
theorem unq_gen : ∀ (n : Nat) (s : Bytes), s.length ≤ n → Inner s → ∀ g g', s.length ≤ g → (KT s).length ≤ g' →
    unquoteStd g' (KT s) = unquoteStd g s := by
  intro n
  induction n with
  | zero =>
    intro s hs _ g g' _ _
    have : s = [] := List.eq_nil_of_length_eq_zero (by omega)
    subst this
    have : KT [] = [] := by simp [KT, K]
    rw [this, std_nil, std_nil]
  | succ n ih =>
    intro s hs hI g g' hg hg'
    rcases inner_cases hI with rfl | ⟨c, s', rfl, hp, hc, hI'⟩ | ⟨c, s', rfl, hh, hI'⟩ | ⟨b2, s', rfl, hb, hI'⟩ |
      ⟨s', rfl, hl, hI'⟩ | ⟨y, s', rfl, hy, hI'⟩ | ⟨a, b, c, d, s', rfl, hh, hI'⟩
    · have : KT [] = [] := by simp [KT, K]
      rw [this, std_nil, std_nil]
    · -- a plain byte that is copied
      have hk : KT (c :: s') = c :: KT s' := K_str_copy true c _ hp.1 hp.2.1 (fun _ => clean_copy _ hc)
      have hn : s'.length ≤ n := by simp at hs; omega
      obtain ⟨g0, rfl⟩ : ∃ g0, g = g0 + 1 := ⟨g - 1, by simp at hg; omega⟩
      obtain ⟨g0', rfl⟩ : ∃ g0', g' = g0' + 1 := ⟨g' - 1, by rw [hk] at hg'; simp at hg'; omega⟩
      have hg0 : s'.length ≤ g0 := by simp at hg; omega
      have hg0' : (KT s').length ≤ g0' := by rw [hk] at hg'; simp at hg'; omega
      by_cases h80 : c < 0x80
      · rw [hk, std_plain_ascii g0' c _ hp.2.1 h80, std_plain_ascii g0 c _ hp.2.1 h80, ih s' hn hI' g0 g0' hg0 hg0']
      · exact hi_step n ih c s' hI' hn hp.2.1 h80 hk g0 g0' hg0 hg0'
    · -- `<`, `>`, `&`
      obtain ⟨x1, x2, x3, x4, hE, hk⟩ := KT_html_cases s' hh
      have hn : s'.length ≤ n := by simp at hs; omega
      obtain ⟨g0, rfl⟩ : ∃ g0, g = g0 + 1 := ⟨g - 1, by simp at hg; omega⟩
      obtain ⟨g0', rfl⟩ : ∃ g0', g' = g0' + 1 := ⟨g' - 1, by rw [hk] at hg'; simp at hg'; omega⟩
      have hg0 : s'.length ≤ g0 := by simp at hg; omega
      have hg0' : (KT s').length ≤ g0' := by rw [hk] at hg'; simp at hg'; omega
      have hlt : c < 0x80 := by rcases isHtml_cases hh with rfl | rfl | rfl <;> decide
      rw [hk, std_u_nonsurr g0' x1 x2 x3 x4 _ hE.notSurr, hE.val, encodeRune_ascii c hlt,
        std_plain_ascii g0 c _ (html_ne hh).2 hlt, ih s' hn hI' g0 g0' hg0 hg0']
      rfl
    · -- U+2028 / U+2029
      obtain ⟨x1, x2, x3, x4, R, hE, hk, hd⟩ := KT_ls_cases s' hb
      have hn : s'.length ≤ n := by simp at hs; omega
      obtain ⟨g0, rfl⟩ : ∃ g0, g = g0 + 1 := ⟨g - 1, by simp at hg; omega⟩
      obtain ⟨g0', rfl⟩ : ∃ g0', g' = g0' + 1 := ⟨g' - 1, by rw [hk] at hg'; simp at hg'; omega⟩
      have hg0 : s'.length ≤ g0 := by simp at hg; omega
      have hg0' : (KT s').length ≤ g0' := by rw [hk] at hg'; simp at hg'; omega
      rw [hk, std_u_nonsurr g0' x1 x2 x3 x4 _ hE.notSurr, hE.val,
        std_plain_hi g0 0xe2 _ (by decide) (by decide), hd]
      simp only [List.drop_succ_cons, List.drop_zero]
      rw [ih s' hn hI' g0 g0' hg0 hg0']
    · -- a lone E2
      have hk : KT (0xe2 :: s') = 0xe2 :: KT s' := K_str_copy true 0xe2 _ (by decide) (by decide) (fun _ => ⟨by decide, hl⟩)
      have hn : s'.length ≤ n := by simp at hs; omega
      obtain ⟨g0, rfl⟩ : ∃ g0, g = g0 + 1 := ⟨g - 1, by simp at hg; omega⟩
      obtain ⟨g0', rfl⟩ : ∃ g0', g' = g0' + 1 := ⟨g' - 1, by rw [hk] at hg'; simp at hg'; omega⟩
      have hg0 : s'.length ≤ g0 := by simp at hg; omega
      have hg0' : (KT s').length ≤ g0' := by rw [hk] at hg'; simp at hg'; omega
      exact hi_step n ih 0xe2 s' hI' hn (by decide) (by decide) hk g0 g0' hg0 hg0'
    · -- a simple escape
      have hk : KT (0x5c :: y :: s') = 0x5c :: y :: KT s' := K_str_esc true y s'
      have hn : s'.length ≤ n := by simp at hs; omega
      obtain ⟨g0, rfl⟩ : ∃ g0, g = g0 + 1 := ⟨g - 1, by simp at hg; omega⟩
      obtain ⟨g0', rfl⟩ : ∃ g0', g' = g0' + 1 := ⟨g' - 1, by rw [hk] at hg'; simp at hg'; omega⟩
      have hg0 : s'.length ≤ g0 := by simp at hg; omega
      have hg0' : (KT s').length ≤ g0' := by rw [hk] at hg'; simp at hg'; omega
      rw [hk, std_simple g0' y _ (simple_ne_u hy), std_simple g0 y _ (simple_ne_u hy), ih s' hn hI' g0 g0' hg0 hg0']
    · -- a `\uXXXX` escape
      have hk : KT (0x5c :: 0x75 :: a :: b :: c :: d :: s') = 0x5c :: 0x75 :: a :: b :: c :: d :: KT s' := by
        rw [KT, K_str_esc, K_hex4 true a b c d _ hh]
      have hn : s'.length ≤ n := by simp at hs; omega
      obtain ⟨g0, rfl⟩ : ∃ g0, g = g0 + 1 := ⟨g - 1, by simp at hg; omega⟩
      obtain ⟨g0', rfl⟩ : ∃ g0', g' = g0' + 1 := ⟨g' - 1, by rw [hk] at hg'; simp at hg'; omega⟩
      have hg0 : s'.length ≤ g0 := by simp at hg; omega
      have hg0' : (KT s').length ≤ g0' := by rw [hk] at hg'; simp at hg'; omega
      rw [hk]
      cases hs' : isSurr (((hexv a * 16 + hexv b) * 16 + hexv c) * 16 + hexv d) with
      | false =>
        rw [std_u_nonsurr g0' a b c d _ hs', std_u_nonsurr g0 a b c d _ hs', ih s' hn hI' g0 g0' hg0 hg0']
      | true =>
        rcases surr_step a b c d s' hI' hs' g0 g0' with
          ⟨a', b', c', d', s'', dec, rfl, hI'', hk', e1, e2⟩ | ⟨e1, e2⟩
        · rw [e1, e2]
          congr 1
          have hl'' : (KT s'').length ≤ g0' := by rw [hk'] at hg0'; simp at hg0'; omega
          exact ih s'' (by simp at hn; omega) hI'' g0 g0' (by simp at hg0; omega) hl''
        · rw [e1, e2, ih s' hn hI' g0 g0' hg0 hg0']

/-- escaping a string body does not change what it unquotes to -/
theorem unq_K (s : Bytes) (h : Inner s) :
    unquoteStd ((K true .str 0 s).length + 1) (K true .str 0 s) = unquoteStd (s.length + 1) s :=
  unq_gen s.length s (Nat.le_refl _) h (s.length + 1) ((KT s).length + 1) (by omega) (by omega)

#print axioms unq_K

end Enc.Lemmas.JsonRawEmitUnq
