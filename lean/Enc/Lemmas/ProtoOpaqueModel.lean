import Enc.Lemmas.ProtoOpaqueDefs
import Enc.Lemmas.ProtoPtrsModel
/-!
# proto: an opaque leaf is written and read like a non-nil `[]byte` — codec level

For ARBITRARY codec trees:
  * `encode_ob`, `size_ob`      `encode (obC c) (ovC c v) fl = encode c v fl` when `fl.toplevel = false` (a message codec at top
                                level writes its bytes without length prefix); for a struct codec at any flags (`encode_ob_struct`)
  * `mdecode_ob`                 `decode fuel d (obC c) b cur fl = decode fuel d c b cur fl` when `fl.toplevel = false`, for a struct
                                codec at any flags (`mdecode_ob_struct`): same fuel, same depth counter, every input
  * `height_obC`, `nesting_obC`, `wire_obC`, `zeroC_obC`
-/
set_option linter.unusedSimpArgs false
set_option linter.unusedVariables false
namespace Enc.Lemmas.ProtoOpaque
open Enc Enc.Model.Proto
open Enc.Lemmas.ProtoPtrs (mapVals mapVals2 encodeSlice_lift encodeMap_lift)

/-! ## bookkeeping -/

theorem wire_obC (c : Codec) : (obC c).wire = c.wire := by
  induction c using Codec.rec (motive_2 := fun _ => True) <;> simp_all [obC, Codec.wire]

mutual
theorem height_obC : ∀ c : Codec, Codec.height (obC c) = Codec.height c
  | .ptr c => by simp only [obC, Codec.height, height_obC c]
  | .slice e n w emb => by simp only [obC, Codec.height, height_obC e]
  | .map n k v ke ve entry => by simp only [obC, Codec.height, height_obC entry]
  | .struct fs => by simp only [obC, Codec.height, heightF_obCF fs]
  | .bool | .int | .int32 | .int64 | .uint | .uint32 | .uint64 | .fixed32 | .fixed64 | .sfixed32 | .sfixed64
  | .float32 | .float64 | .string | .bytes | .byteArray _ | .message | .unsupported => by simp only [obC, Codec.height]
theorem heightF_obCF : ∀ fs : CFields, CFields.height (obCF fs) = CFields.height fs
  | .nil => by simp only [obCF]
  | .cons n emb rep zz c rest => by simp only [obCF, CFields.height, height_obC c, heightF_obCF rest]
end

mutual
theorem nesting_obC : ∀ c : Codec, Codec.nesting (obC c) = Codec.nesting c
  | .ptr c => by simp only [obC, Codec.nesting, nesting_obC c]
  | .slice e n w emb => by simp only [obC, Codec.nesting, nesting_obC e]
  | .map n k v ke ve entry => by simp only [obC, Codec.nesting, nesting_obC entry]
  | .struct fs => by simp only [obC, Codec.nesting, nestingF_obCF fs]
  | .bool | .int | .int32 | .int64 | .uint | .uint32 | .uint64 | .fixed32 | .fixed64 | .sfixed32 | .sfixed64
  | .float32 | .float64 | .string | .bytes | .byteArray _ | .message | .unsupported => by simp only [obC, Codec.nesting]
theorem nestingF_obCF : ∀ fs : CFields, CFields.nesting (obCF fs) = CFields.nesting fs
  | .nil => by simp only [obCF]
  | .cons n emb rep zz c rest => by simp only [obCF, CFields.nesting, nesting_obC c, nestingF_obCF rest]
end

mutual
theorem inlinedC_obC : ∀ c : Codec, inlinedC (obC c) = inlinedC c
  | .ptr c => by simp only [obC, inlinedC]
  | .slice e n w emb => by simp only [obC, inlinedC]
  | .map n k v ke ve entry => by simp only [obC, inlinedC]
  | .struct fs => by simp only [obC, inlinedC, inlinedFields_obCF fs]
  | .bool | .int | .int32 | .int64 | .uint | .uint32 | .uint64 | .fixed32 | .fixed64 | .sfixed32 | .sfixed64
  | .float32 | .float64 | .string | .bytes | .byteArray _ | .message | .unsupported => by simp only [obC, inlinedC]
theorem inlinedFields_obCF : ∀ fs : CFields, inlinedFields (obCF fs) = inlinedFields fs
  | .nil => by simp only [obCF]
  | .cons n emb rep zz c .nil => by simp only [obCF, inlinedFields, inlinedC_obC c]
  | .cons n emb rep zz c (.cons n' emb' rep' zz' c' rest) => by simp only [obCF, inlinedFields]
end

mutual
theorem zeroC_obC : ∀ c : Codec, zeroOfCodec (obC c) = zeroOfCodec c
  | .ptr c => by simp only [obC, zeroOfCodec]
  | .slice e n w emb => by simp only [obC, zeroOfCodec]
  | .map n k v ke ve entry => by simp only [obC, zeroOfCodec]
  | .struct fs => by simp only [obC, zeroOfCodec, zeroCF_obCF fs]
  | .bool | .int | .int32 | .int64 | .uint | .uint32 | .uint64 | .fixed32 | .fixed64 | .sfixed32 | .sfixed64
  | .float32 | .float64 | .string | .bytes | .byteArray _ | .message | .unsupported => by simp only [obC, zeroOfCodec]
theorem zeroCF_obCF : ∀ fs : CFields, zeroOfCodec.zeroCFields (obCF fs) = zeroOfCodec.zeroCFields fs
  | .nil => by simp only [obCF]
  | .cons n emb rep zz c rest => by simp only [obCF, zeroOfCodec.zeroCFields, zeroC_obC c, zeroCF_obCF rest]
end

/-! ## the encoder -/

theorem encodeUnique_toplevel : ∀ (fs : CFields) (vs : Vals) (fl : Flags),
    (encodeUnique fs vs fl).2.toplevel = fl.toplevel
  | .nil, vs, fl => by simp only [encodeUnique]
  | .cons n emb rep zz c rest, .nil, fl => by cases rep <;> simp only [encodeUnique]
  | .cons n emb true zz c rest, .cons v vs, fl => by
    simp only [encodeUnique]; exact encodeUnique_toplevel rest vs fl
  | .cons n emb false zz c rest, .cons v vs, fl => by
    simp only [encodeUnique]
    split
    · exact encodeUnique_toplevel rest vs _
    · exact encodeUnique_toplevel rest vs fl

theorem encode_message_leaf (v : Val) (fl : Flags) (h : fl.toplevel = false) :
    encode .bytes (leafV v) fl = encode .message v fl := by
  cases v <;> simp [leafV, encode, h]

mutual
/-- **the encoder writes an opaque leaf like a non-nil byte string** -/
theorem encode_ob : ∀ (c : Codec) (v : Val) (fl : Flags), fl.toplevel = false →
    encode (obC c) (ovC c v) fl = encode c v fl
  | .message, v, fl, h => by
    simp only [obC, ovC]; exact encode_message_leaf v fl h
  | .ptr c, v, fl, h => by
    cases v <;> simp only [obC, ovC, encode]
    exact encode_ob c _ _ h
  | .slice e n w emb, v, fl, h => by
    cases v <;> simp only [obC, ovC, encode]
    exact encodeSlice_lift (obC e) e _ _ _ (fun v => encode_ob e v wz rfl) _
  | .map n k v ke ve entry, y, fl, h => by
    cases y <;> simp only [obC, ovC, encode]
    rw [encodeMap_lift k (obC v) v _ _ ke ve (fun x => encode_ob v x wz rfl) (wire_obC v).symm]
  | .struct fs, v, fl, _ => encode_ob_struct fs v fl
  | .bool, v, fl, _ | .int, v, fl, _ | .int32, v, fl, _ | .int64, v, fl, _ | .uint, v, fl, _ | .uint32, v, fl, _
  | .uint64, v, fl, _ | .fixed32, v, fl, _ | .fixed64, v, fl, _ | .sfixed32, v, fl, _ | .sfixed64, v, fl, _
  | .float32, v, fl, _ | .float64, v, fl, _ | .string, v, fl, _ | .bytes, v, fl, _ | .byteArray _, v, fl, _
  | .unsupported, v, fl, _ => by
    simp only [obC, ovC]
/-- a struct codec clears `toplevel` itself -/
theorem encode_ob_struct : ∀ (fs : CFields) (v : Val) (fl : Flags),
    encode (obC (.struct fs)) (ovC (.struct fs) v) fl = encode (.struct fs) v fl
  | fs, v, fl => by
    cases v <;> simp only [obC, ovC, encode]
    rename_i vs
    rw [inlinedFields_obCF, encodeUnique_ob fs vs _ rfl,
      encodeRepeated_ob fs vs _ (by rw [encodeUnique_toplevel])]
theorem encodeUnique_ob : ∀ (fs : CFields) (vs : Vals) (fl : Flags), fl.toplevel = false →
    encodeUnique (obCF fs) (ovCF fs vs) fl = encodeUnique fs vs fl
  | .nil, vs, fl, _ => by simp only [obCF, ovCF]
  | .cons n emb rep zz c rest, .nil, fl, _ => by cases rep <;> simp only [obCF, ovCF, encodeUnique]
  | .cons n emb true zz c rest, .cons v vs, fl, h => by
    simp only [obCF, ovCF, encodeUnique]; exact encodeUnique_ob rest vs fl h
  | .cons n emb false zz c rest, .cons v vs, fl, h => by
    simp only [obCF, ovCF, encodeUnique, ← Lemmas.Proto.size_eq,
      encode_ob c v { fl with zigzag := fl.zigzag || zz } h, wire_obC,
      encodeUnique_ob rest vs { fl with wantzero := false } h, encodeUnique_ob rest vs fl h]
theorem encodeRepeated_ob : ∀ (fs : CFields) (vs : Vals) (fl : Flags), fl.toplevel = false →
    encodeRepeated (obCF fs) (ovCF fs vs) fl = encodeRepeated fs vs fl
  | .nil, vs, fl, _ => by simp only [obCF, ovCF]
  | .cons n emb rep zz c rest, .nil, fl, _ => by cases rep <;> simp only [obCF, ovCF, encodeRepeated]
  | .cons n emb false zz c rest, .cons v vs, fl, h => by
    simp only [obCF, ovCF, encodeRepeated]; exact encodeRepeated_ob rest vs fl h
  | .cons n emb true zz c rest, .cons v vs, fl, h => by
    simp only [obCF, ovCF, encodeRepeated, encode_ob c v { fl with zigzag := fl.zigzag || zz } h]
    split
    · exact congrArg _ (encodeRepeated_ob rest vs { fl with wantzero := false } h)
    · exact congrArg _ (encodeRepeated_ob rest vs fl h)
end

/-- … and `Size` counts it like one -/
theorem size_ob (c : Codec) (v : Val) (fl : Flags) (h : fl.toplevel = false) :
    size (obC c) (ovC c v) fl = size c v fl := by
  rw [← Lemmas.Proto.size_eq, ← Lemmas.Proto.size_eq, encode_ob c v fl h]

/-! ## the decoder -/

/-- the lookup result with its codec relabelled -/
def R4 (r : Nat × Bool × Bool × Codec) : Nat × Bool × Bool × Codec := (r.1, r.2.1, r.2.2.1, obC r.2.2.2)

theorem lookup_go_ob (num : Nat) : ∀ (fs : CFields) (i : Nat) (acc : Option (Nat × Bool × Bool × Codec)),
    lookupField.go num (obCF fs) i (acc.map R4) = (lookupField.go num fs i acc).map R4
  | .nil, i, acc => by simp only [obCF, lookupField.go]
  | .cons n emb rep zz c rest, i, acc => by
    simp only [obCF, lookupField.go]
    rw [← lookup_go_ob num rest (i + 1)]
    congr 1
    split <;> simp [R4]

theorem lookup_ob (fs : CFields) (num : Nat) : lookupField (obCF fs) num = (lookupField fs num).map R4 := by
  have := lookup_go_ob num fs 0 none
  simpa only [lookupField, Option.map_none] using this

theorem mdecode_ob_aux (fuel : Nat) :
    (∀ d c b cur fl, fl.toplevel = false → decode fuel d (obC c) b cur fl = decode fuel d c b cur fl) ∧
    (∀ d fs b cur fl, decode fuel d (obC (.struct fs)) b cur fl = decode fuel d (.struct fs) b cur fl) ∧
    (∀ d fs b lenB vs fl off, fl.toplevel = false →
      decodeStruct fuel d (obCF fs) b lenB vs fl off = decodeStruct fuel d fs b lenB vs fl off) := by
  induction fuel with
  | zero =>
    exact ⟨fun _ _ _ _ _ _ => by simp [decode], fun _ _ _ _ _ => by simp [decode],
      fun _ _ _ _ _ _ _ _ => by simp [decodeStruct]⟩
  | succ fuel ih =>
    obtain ⟨ihd, _, ihs⟩ := ih
    have hstruct : ∀ d fs b cur fl,
        decode (fuel + 1) d (obC (.struct fs)) b cur fl = decode (fuel + 1) d (.struct fs) b cur fl := by
      intro d fs b cur fl
      simp only [obC, decode]
      split
      · rfl
      · cases cur <;> try rfl
        rename_i vs
        simp only []
        rw [ihs (d + 1) fs b _ vs _ 0 rfl]
    refine ⟨?_, hstruct, ?_⟩
    · intro d c b cur fl h
      cases c
      case struct fs => exact hstruct d fs b cur fl
      case message => simp only [obC, decode, h]; rfl
      case ptr c' =>
        simp only [obC, decode, zeroC_obC]
        rw [ihd d c' b _ fl h]
      case slice elem number wire emb =>
        simp only [obC, decode, zeroC_obC]
        rw [ihd d elem b _ _ rfl]
      case map number k v kEmb vEmb entry =>
        simp only [obC, decode, zeroC_obC]
        rw [ihd d entry b _ _ rfl]
      all_goals simp only [obC]
    · intro d fs b lenB vs fl off h
      simp only [decodeStruct]
      split
      · rfl
      · rcases hv : decodeVarint b with ⟨tag, n⟩ | e | e
        · dsimp only
          rw [lookup_ob]
          rcases hlk : lookupField fs (tag >>> 3).toNat with _ | ⟨i, emb, zz, c⟩
          · simp only [Option.map_none]
            refine congrArg _ ?_
            funext skip
            exact ihs _ _ _ _ _ _ _ h
          · simp only [Option.map_some, R4, wire_obC]
            split
            · rfl
            · refine congrArg _ ?_
              funext ⟨data, pre⟩
              dsimp only
              rw [ihd d c data _ { fl with zigzag := fl.zigzag || zz } h]
              refine congrArg _ ?_
              funext ⟨v, m⟩
              exact ihs _ _ _ _ _ _ _ h
        · rfl
        · rfl

/-- **the decoder reads an opaque leaf like a byte string** (not at top level, where a message codec takes the whole input) -/
theorem mdecode_ob (fuel d : Nat) (c : Codec) (b : Bytes) (cur : Val) (fl : Flags) (h : fl.toplevel = false) :
    decode fuel d (obC c) b cur fl = decode fuel d c b cur fl := (mdecode_ob_aux fuel).1 d c b cur fl h

theorem mdecode_ob_struct (fuel d : Nat) (fs : CFields) (b : Bytes) (cur : Val) (fl : Flags) :
    decode fuel d (.struct (obCF fs)) b cur fl = decode fuel d (.struct fs) b cur fl := by
  have := (mdecode_ob_aux fuel).2.1 d fs b cur fl
  simpa only [obC] using this

#print axioms encode_ob
#print axioms encode_ob_struct
#print axioms mdecode_ob
#print axioms mdecode_ob_struct

end Enc.Lemmas.ProtoOpaque
