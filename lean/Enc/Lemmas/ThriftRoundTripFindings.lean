import Enc.Lemmas.ThriftRoundTripDefs
/-!
C04, executable witnesses (`#guard` = evaluated at build time, no axioms involved): the deviations that `norm` absorbs,
the side conditions of `RTS` that are really needed, and regression checks for the former fuel artefact of `unmarshal`.
-/
namespace Enc.Lemmas.ThriftRoundTrip.Findings
open Enc Enc.Model.Thrift Enc.Lemmas.ThriftRoundTrip

def tg (s : String) : String := "thrift:\"" ++ s ++ "\""
def mk (l : List Val) : Vals := Vals.ofList l
def one (tag : String) (t : Ty) : Ty := .struct (.cons "A" (tg tag) false t .nil)
def rt (p : Proto) (ty : Ty) (v : Val) : String := (unmarshal p true ty (marshal p ty v)).show Val.show
def protos : List Proto := [.compact, .binary true, .binary false]
/-- on all three protocol settings: in the universe, and `unmarshal (marshal v)` prints as `expect` -/
def all (ty : Ty) (v : Val) (expect : String) : Bool := protos.all fun p => rt p ty v == expect
def agrees (ty : Ty) (v : Val) : Bool := protos.all fun p => rt p ty v == "ok:" ++ (norm ty v).show

/-! ### known deviations, inside `RTS`, absorbed by `norm` -/
-- `-0.0` in a non-required double field is elided and comes back `+0.0`
#guard RTS (one "1" .f64) (.struct (mk [.float (2 ^ 63)])) && all (one "1" .f64) (.struct (mk [.float (2 ^ 63)])) "ok:t 1 f 0"
-- … but survives in a required field
#guard all (one "1,required" .f64) (.struct (mk [.float (2 ^ 63)])) ("ok:t 1 f " ++ toString (2 ^ 63))
-- a nil pointer inside a list comes back as a pointer to the zero value
#guard RTS (one "1" (.slice (.ptr (.int .i32)))) (.struct (mk [.list (mk [.nil])])) &&
  all (one "1" (.slice (.ptr (.int .i32)))) (.struct (mk [.list (mk [.nil])])) "ok:t 1 l 1 p i 0"
-- the same mechanism on a `**T` FIELD whose inner pointer is nil (not a collection)
#guard RTS (one "1" (.ptr (.ptr (.int .i32)))) (.struct (mk [.ptr .nil])) &&
  all (one "1" (.ptr (.ptr (.int .i32)))) (.struct (mk [.ptr .nil])) "ok:t 1 p p i 0"
-- nil-versus-empty: a nil slice in a required field comes back empty, in an optional field it stays nil
#guard all (one "1,required" (.slice .str)) (.struct (mk [.nil])) "ok:t 1 l 0"
#guard all (one "1" (.slice .str)) (.struct (mk [.nil])) "ok:t 1 nil"
#guard all (one "1" (.slice .str)) (.struct (mk [.list .nil])) "ok:t 1 l 0"

/-! ### outside `RTS`: each side condition has a failing witness -/
-- enum tag on an int64 field: written with `wI32 (wrap32 i)`, the value is truncated
#guard !RTS (one "1,enum" (.int .i64)) (.struct (mk [.int (2 ^ 32 + 5)])) &&
  all (one "1,enum" (.int .i64)) (.struct (mk [.int (2 ^ 32 + 5)])) "ok:t 1 i 5"
-- enum tag on a NAMED int32 behind a pointer is fine (in the universe)
#guard RTS (one "1,enum" (.ptr (.named "Color" (.int .i32)))) (.struct (mk [.ptr (.int (-7))])) &&
  agrees (one "1,enum" (.ptr (.named "Color" (.int .i32)))) (.struct (mk [.ptr (.int (-7))]))
-- a required pointer field that is nil is not written: `missingField`
#guard !RTS (one "1,required" (.ptr .bool)) (.struct (mk [.nil])) &&
  all (one "1,required" (.ptr .bool)) (.struct (mk [.nil])) "err:missingField"
-- two map keys that `mapPut` identifies (same `Val.show`): one entry, the last value
#guard !RTS (one "1" (.map (.int .i32) .str)) (.struct (mk [.map (mk [.int 1, .str [1], .int 1, .str [2]])])) &&
  all (one "1" (.map (.int .i32) .str)) (.struct (mk [.map (mk [.int 1, .str [1], .int 1, .str [2]])])) "ok:t 1 m 1 i 1 s 02"
-- keys are compared AFTER decoding: a nil and a non-nil pointer key to 0 collapse
#guard !RTS (one "1" (.map (.ptr (.int .i32)) .bool)) (.struct (mk [.map (mk [.nil, .bool true, .ptr (.int 0), .bool false])])) &&
  all (one "1" (.map (.ptr (.int .i32)) .bool)) (.struct (mk [.map (mk [.nil, .bool true, .ptr (.int 0), .bool false])])) "ok:t 1 m 1 p i 0 b0"
-- two declared fields with the same id: the second value lands in the first field
def dup : Ty := .struct (.cons "A" (tg "1") false (.int .i32) (.cons "B" (tg "1") false (.int .i32) .nil))
#guard !RTS dup (.struct (mk [.int 0, .int 9])) && all dup (.struct (mk [.int 0, .int 9])) "ok:t 2 i 9 i 0"

/-! ### a larger value of the universe: the model gives exactly `norm` -/
def inner : Fields :=
  .cons "X" (tg "2,required") false (.ptr (.named "C" (.int .i32))) <|
  .cons "Y" (tg "1,enum") false (.named "Color" (.ptr (.int .i32))) <|
  .cons "Z" (tg "7") false .f64 .nil
def big : Ty := .struct <|
  .cons "A" (tg "1") false (.slice .bool) <|
  .cons "B" (tg "2,required") false (.slice (.struct inner)) <|
  .cons "C" (tg "3") false .f64 <|
  .cons "D" "" false .str <|
  .cons "E" (tg "5") false (.ptr (.ptr .bool)) <|
  .cons "F" (tg "4") false (.map .str (.ptr (.int .i64))) <|
  .cons "G" (tg "20,required") false (.map (.int .i16) (.struct .nil)) <|
  .cons "H" (tg "300") false (.struct inner) <|
  .cons "I" (tg "6,required") false .bytes <|
  .cons "J" (tg "8") false (.slice (.int .u8)) .nil
def in1 : Val := .struct (mk [.ptr (.int 5), .ptr (.int (-3)), .float (2 ^ 63)])
def in2 : Val := .struct (mk [.ptr (.int 0), .nil, .float 0])
def bigV : Val := .struct (mk [.list (mk [.bool true, .bool false]), .list (mk [in1, in2]), .float (2 ^ 63), .str [1],
  .ptr .nil, .map (mk [.str [1], .ptr (.int 5), .str [2], .nil]), .map (mk [.int 3, .nil, .int 4, .bool true]), in1, .nil,
  .str []])
#guard RTS big bigV && agrees big bigV && depth big == 9

/-! ### the fuel of `unmarshal` no longer depends on luck for very deep types
`unmarshal` used to run `decode` with fuel `4·len + 64`; every pointer / named-type level costs one unit without producing
a byte, so a struct with one field of type `*^90 bool` (7 bytes in the binary protocol, fuel 92, needed 93) answered
`err fuel` — a model artefact, Go recurses on the type without a budget. The budget is now `4·len + 64 + depth t`. -/
def ptrN : Nat → Ty | 0 => .bool | n + 1 => .ptr (ptrN n)
def valN : Nat → Val | 0 => .bool true | n + 1 => .ptr (valN n)
#guard RTS (one "1" (ptrN 89)) (.struct (mk [valN 89])) && depth (one "1" (ptrN 89)) == 92 &&
  agrees (one "1" (ptrN 89)) (.struct (mk [valN 89]))
#guard RTS (one "1" (ptrN 90)) (.struct (mk [valN 90])) && depth (one "1" (ptrN 90)) == 93 &&
  agrees (one "1" (ptrN 90)) (.struct (mk [valN 90]))
#guard RTS (one "1" (ptrN 400)) (.struct (mk [valN 400])) && agrees (one "1" (ptrN 400)) (.struct (mk [valN 400]))

/-! ### the depth hypothesis `d + nest ty ≤ maxDepth` of `decode_norm` is needed (and sharp)
Since the fix 9c8d6b4 the decoder refuses to enter a list / set / map / struct at depth ≥ maxDepth; the encoder has no
limit. Pointers and named types do not count. -/
def decAt (d : Nat) (ty : Ty) (v : Val) : String :=
  match decode .compact true d 64 ty (encode .compact ty v) (zeroOf ty) with
  | .ok (w, _) => "ok:" ++ w.show
  | .err e => "err:" ++ e
  | .panic e => "panic:" ++ e
def ll : Ty := .slice (.slice .bool)
def llV : Val := .list (mk [.list (mk [.bool true])])
#guard nest ll == 2 && RTS ll llV
#guard decAt (Gen.c_thrift_maxDepth - 2) ll llV == "ok:" ++ (norm ll llV).show
#guard decAt (Gen.c_thrift_maxDepth - 1) ll llV == "err:maxDepth"
#guard decAt Gen.c_thrift_maxDepth (one "1" .bool) (.struct (mk [.bool true])) == "err:maxDepth"
#guard decAt (Gen.c_thrift_maxDepth - 1) (one "1" (.ptr (.named "B" .bool))) (.struct (mk [.ptr (.bool true)])) ==
  "ok:" ++ (norm (one "1" (.ptr (.named "B" .bool))) (.struct (mk [.ptr (.bool true)]))).show
-- a `[]byte` is a binary, not a list: it does not count
#guard nest (.slice (.int .u8)) == 0 && decAt Gen.c_thrift_maxDepth (.slice (.int .u8)) (.str [1, 2]) == "ok:s 0102"

end Enc.Lemmas.ThriftRoundTrip.Findings
