import Enc.Model.AsciiAsm
import Enc.Model.AsciiAsmPins
import Enc.Spec.Ascii
import Enc.Lemmas.Ascii
import Std.Tactic.BVDecide
/-!
C20, assembly kernels — common lemmas and `valid_amd64.s`.

`allRange q s p k` = "`q` holds for the `k` bytes at indices `p … p+k-1`" (reading 0 past the end, like the model).
Every label of a kernel is characterised as `allRange` over the bytes it still has to look at; the AVX labels carry the
hypothesis that everything before the pointer already passed, which is what makes the OVERLAPPING tail load sound.
Word lemmas: `bv_decide` (this file's name starts with `Enc.Lemmas.Ascii`, the allow-listed prefix); lane lemmas are
lifted to vectors by induction on lists.
-/
namespace Enc.Lemmas.AsciiAsm
open Enc Enc.Gen Enc.Model.AsciiAsm
open Enc.Lemmas.Ascii (lt80 pr)


set_option linter.unusedSimpArgs false

/-- evaluate every `imm <list> i` of the model to its numeral (the lists are those of `Enc/Gen/AsmConsts.lean`) -/
syntax "asm_imm" (Lean.Parser.Tactic.location)? : tactic
macro_rules
  | `(tactic| asm_imm $[$loc]?) => `(tactic| simp only [imm, List.getD_cons_succ, List.getD_cons_zero, List.getD_nil,
      lits_asm_equal_fold_EqualFoldString,
      disp_asm_equal_fold_EqualFoldString,
      lits_asm_equal_fold_init_x86,
      disp_asm_equal_fold_init_x86,
      lits_asm_equal_fold_cmp8,
      disp_asm_equal_fold_cmp8,
      lits_asm_equal_fold_cmp7,
      disp_asm_equal_fold_cmp7,
      lits_asm_equal_fold_cmp6,
      disp_asm_equal_fold_cmp6,
      lits_asm_equal_fold_cmp5,
      disp_asm_equal_fold_cmp5,
      lits_asm_equal_fold_cmp4,
      disp_asm_equal_fold_cmp4,
      lits_asm_equal_fold_cmp3,
      disp_asm_equal_fold_cmp3,
      lits_asm_equal_fold_cmp2,
      disp_asm_equal_fold_cmp2,
      lits_asm_equal_fold_cmp1,
      disp_asm_equal_fold_cmp1,
      lits_asm_equal_fold_done,
      disp_asm_equal_fold_done,
      lits_asm_equal_fold_success,
      disp_asm_equal_fold_success,
      lits_asm_equal_fold_init_avx,
      disp_asm_equal_fold_init_avx,
      lits_asm_equal_fold_cmp128,
      disp_asm_equal_fold_cmp128,
      lits_asm_equal_fold_cmp64,
      disp_asm_equal_fold_cmp64,
      lits_asm_equal_fold_cmp32,
      disp_asm_equal_fold_cmp32,
      lits_asm_equal_fold_cmp16,
      disp_asm_equal_fold_cmp16,
      lits_asm_equal_fold_cmp_tail,
      disp_asm_equal_fold_cmp_tail,
      lits_asm_valid_ValidString,
      disp_asm_valid_ValidString,
      lits_asm_valid_cmp8,
      disp_asm_valid_cmp8,
      lits_asm_valid_cmp4,
      disp_asm_valid_cmp4,
      lits_asm_valid_cmp3,
      disp_asm_valid_cmp3,
      lits_asm_valid_cmp2,
      disp_asm_valid_cmp2,
      lits_asm_valid_cmp1,
      disp_asm_valid_cmp1,
      lits_asm_valid_done,
      disp_asm_valid_done,
      lits_asm_valid_invalid,
      disp_asm_valid_invalid,
      lits_asm_valid_init_avx,
      disp_asm_valid_init_avx,
      lits_asm_valid_cmp256,
      disp_asm_valid_cmp256,
      lits_asm_valid_cmp128,
      disp_asm_valid_cmp128,
      lits_asm_valid_cmp64,
      disp_asm_valid_cmp64,
      lits_asm_valid_cmp32,
      disp_asm_valid_cmp32,
      lits_asm_valid_cmp16,
      disp_asm_valid_cmp16,
      lits_asm_valid_cmp_tail,
      disp_asm_valid_cmp_tail,
      lits_asm_valid_print_ValidPrintString,
      disp_asm_valid_print_ValidPrintString,
      lits_asm_valid_print_init_x86,
      disp_asm_valid_print_init_x86,
      lits_asm_valid_print_cmp8,
      disp_asm_valid_print_cmp8,
      lits_asm_valid_print_cmp4,
      disp_asm_valid_print_cmp4,
      lits_asm_valid_print_cmp3,
      disp_asm_valid_print_cmp3,
      lits_asm_valid_print_cmp2,
      disp_asm_valid_print_cmp2,
      lits_asm_valid_print_cmp1,
      disp_asm_valid_print_cmp1,
      lits_asm_valid_print_final,
      disp_asm_valid_print_final,
      lits_asm_valid_print_done,
      disp_asm_valid_print_done,
      lits_asm_valid_print_init_avx,
      disp_asm_valid_print_init_avx,
      lits_asm_valid_print_cmp128,
      disp_asm_valid_print_cmp128,
      lits_asm_valid_print_cmp64,
      disp_asm_valid_print_cmp64,
      lits_asm_valid_print_cmp32,
      disp_asm_valid_print_cmp32,
      lits_asm_valid_print_cmp16,
      disp_asm_valid_print_cmp16,
      lits_asm_valid_print_cmp_tail,
      disp_asm_valid_print_cmp_tail] $[$loc]?)

def allRange (q : UInt8 → Bool) (s : Bytes) (p : Nat) : Nat → Bool
  | 0 => true
  | k + 1 => q (byteAt s p) && allRange q s (p + 1) k

theorem allRange_add (q : UInt8 → Bool) (s : Bytes) (p a b : Nat) :
    allRange q s p (a + b) = (allRange q s p a && allRange q s (p + a) b) := by
  induction a generalizing p with
  | zero => simp [allRange]
  | succ a ih =>
    have : a + 1 + b = (a + b) + 1 := by omega
    rw [this]
    simp only [allRange, ih, Bool.and_assoc]
    have : p + 1 + a = p + (a + 1) := by omega
    rw [this]

theorem byteAt_cons_succ (x : UInt8) (s : Bytes) (p : Nat) : byteAt (x :: s) (p + 1) = byteAt s p := by
  simp [byteAt]

theorem allRange_cons_succ (q : UInt8 → Bool) (x : UInt8) (s : Bytes) (p k : Nat) :
    allRange q (x :: s) (p + 1) k = allRange q s p k := by
  induction k generalizing p with
  | zero => rfl
  | succ k ih => simp only [allRange, byteAt_cons_succ, ih]

theorem allRange_full (q : UInt8 → Bool) (s : Bytes) : allRange q s 0 s.length = s.all q := by
  induction s with
  | nil => rfl
  | cons x s ih =>
    simp only [List.length_cons, allRange, List.all_cons, Nat.zero_add]
    rw [allRange_cons_succ, ih]
    simp [byteAt]

/-- everything before `p` passed ⇒ any window inside `[0, p)` passes -/
theorem allRange_sub (q : UInt8 → Bool) (s : Bytes) (p a k : Nat) (h : allRange q s 0 p = true) (hak : a + k ≤ p) :
    allRange q s a k = true := by
  have hp : p = a + (k + (p - a - k)) := by omega
  rw [hp, allRange_add, allRange_add] at h
  simp only [Nat.zero_add, Bool.and_eq_true] at h
  exact h.2.1

/-- the overlapping window `[p+n-w, p+n)` equals the remaining `[p, p+n)` once `[0, p)` passed -/
theorem allRange_overlap (q : UInt8 → Bool) (s : Bytes) (p n w : Nat) (h : allRange q s 0 p = true)
    (hn : n ≤ w) (hw : w ≤ p + n) : allRange q s (p + n - w) w = allRange q s p n := by
  have hw' : w = (w - n) + n := by omega
  rw [hw', allRange_add]
  have h1 : allRange q s (p + n - (w - n + n)) (w - n) = true := allRange_sub q s p _ _ h (by omega)
  rw [h1]
  have : p + n - (w - n + n) + (w - n) = p := by omega
  rw [this]; simp

theorem vload_all (q : UInt8 → Bool) (s : Bytes) (p k : Nat) : (vload s p k).all q = allRange q s p k := by
  induction k generalizing p with
  | zero => rfl
  | succ k ih => simp only [vload, allRange, List.all_cons, ih]

theorem vload_length (s : Bytes) (p k : Nat) : (vload s p k).length = k := by
  induction k generalizing p with
  | zero => rfl
  | succ k ih => simp only [vload, List.length_cons, ih]

/-! ### lane-wise lifting -/

/-- a binary lane operation `g` under which the lane predicate `q` is conjunctive -/
theorem all_zipWith_and (q : UInt8 → Bool) (g : UInt8 → UInt8 → UInt8) (hg : ∀ x y, q (g x y) = (q x && q y))
    (a b : Vec) (h : a.length = b.length) : (List.zipWith g a b).all q = (a.all q && b.all q) := by
  induction a generalizing b with
  | nil => cases b <;> simp_all
  | cons x a ih =>
    cases b with
    | nil => simp at h
    | cons y b =>
      simp only [List.length_cons, Nat.add_right_cancel_iff] at h
      simp only [List.zipWith_cons_cons, List.all_cons, hg, ih b h]
      cases q x <;> cases q y <;> simp

/-- `VPTEST` against a register holding the same byte `m` in every lane -/
theorem vptestZF_replicate (m : UInt8) (a : Vec) (k : Nat) (h : a.length ≤ k) :
    vptestZF a (List.replicate k m) = a.all (fun x => x &&& m == 0) := by
  unfold vptestZF
  induction a generalizing k with
  | nil => simp
  | cons x a ih =>
    cases k with
    | zero => simp at h
    | succ k =>
      simp only [List.length_cons, Nat.add_le_add_iff_right] at h
      simp only [List.replicate_succ, List.zipWith_cons_cons, List.all_cons, ih k h]

/-! ### valid_amd64.s -/

theorem lane_lt80 (x : UInt8) : (x &&& 0x80 == 0) = lt80 x := by
  unfold lt80; bv_decide
theorem lane_or_lt80 (x y : UInt8) : lt80 (x ||| y) = (lt80 x && lt80 y) := by
  unfold lt80; bv_decide

theorem b1_valid (a : UInt8) : ((a.toBitVec &&& 128#8) == 0#8) = lt80 a := by
  unfold lt80; bv_decide
theorem w2_valid (a b : UInt8) : (((b.toBitVec ++ a.toBitVec) &&& 32896#16) == 0#16) = (lt80 a && lt80 b) := by
  unfold lt80; bv_decide
/-- the 3-byte tail: 16-bit load | (8-bit load << 16) -/
theorem w3_valid (a b c : UInt8) :
    (((BitVec.zeroExtend 32 c.toBitVec <<< 16 ||| BitVec.zeroExtend 32 (b.toBitVec ++ a.toBitVec)) &&& 2155905152#32) == 0#32) =
      (lt80 a && (lt80 b && lt80 c)) := by
  unfold lt80; bv_decide

theorem valid_cmp1 (s : Bytes) (p n : Nat) (h : n < 2) : Valid.cmp1 s p n = allRange lt80 s p n := by
  simp only [Valid.cmp1, Valid.done, load8, imm, lits_asm_valid_cmp1, List.getD_cons_succ, List.getD_cons_zero]
  match n, h with
  | 0, _ => simp [allRange]
  | 1, _ => simp [allRange, b1_valid]

theorem valid_cmp2 (s : Bytes) (p n : Nat) (h : n < 3) : Valid.cmp2 s p n = allRange lt80 s p n := by
  simp only [Valid.cmp2, Valid.done, load16, imm, lits_asm_valid_cmp2, List.getD_cons_succ, List.getD_cons_zero]
  split
  · exact valid_cmp1 s p n (by omega)
  · have : n = 2 := by omega
    subst this
    simp [allRange, w2_valid]

theorem valid_cmp3 (s : Bytes) (p n : Nat) (h : n < 4) : Valid.cmp3 s p n = allRange lt80 s p n := by
  simp only [Valid.cmp3, Valid.done, load16, load8, imm, lits_asm_valid_cmp3, disp_asm_valid_cmp3, List.getD_cons_succ, List.getD_cons_zero]
  split
  · exact valid_cmp2 s p n (by omega)
  · have : n = 3 := by omega
    subst this
    simp [allRange, w3_valid]

theorem w4_valid (a b c d : UInt8) :
    ((Model.Ascii.le32 a b c d &&& 2155905152#32) != 0) = !(lt80 a && (lt80 b && (lt80 c && lt80 d))) := by
  unfold Model.Ascii.le32 lt80; bv_decide
theorem w8_valid (a b c d e f g h : UInt8) :
    ((Model.Ascii.le64 a b c d e f g h &&& 9259542123273814144#64) != 0) =
      !(lt80 a && (lt80 b && (lt80 c && (lt80 d && (lt80 e && (lt80 f && (lt80 g && lt80 h))))))) := by
  unfold Model.Ascii.le64 lt80; bv_decide

theorem valid_invalid : Valid.invalid = false := by decide

theorem valid_cmp4 (s : Bytes) (p n : Nat) (h : n < 8) : Valid.cmp4 s p n = allRange lt80 s p n := by
  simp only [Valid.cmp4, valid_invalid, load32, imm, lits_asm_valid_cmp4, List.getD_cons_succ, List.getD_cons_zero]
  split
  · exact valid_cmp3 s p n (by omega)
  · have hn : n = 4 + (n - 4) := by omega
    rw [w4_valid, valid_cmp3 s (p + 4) (n - 4) (by omega)]
    conv => rhs; rw [hn, allRange_add]
    simp only [allRange]
    generalize allRange lt80 s (p + 4) (n - 4) = X
    cases lt80 (byteAt s p) <;> cases lt80 (byteAt s (p + 1)) <;> cases lt80 (byteAt s (p + 2)) <;>
      cases lt80 (byteAt s (p + 3)) <;> simp

theorem valid_cmp8 (s : Bytes) (p n : Nat) :
    Valid.cmp8 9259542123273814144#64 s p n = allRange lt80 s p n := by
  fun_induction Valid.cmp8 9259542123273814144#64 s p n with
  | case1 p n h => 
    asm_imm at h
    exact valid_cmp4 s p n h
  | case2 p n h hw =>
    asm_imm at h
    have hn : n = 8 + (n - 8) := by omega
    rw [hn, allRange_add]
    simp only [load64, w8_valid] at hw
    simp only [allRange, valid_invalid]
    generalize allRange lt80 s (p + 8) (n - 8) = X
    revert hw
    cases lt80 (byteAt s p) <;> cases lt80 (byteAt s (p + 1)) <;> cases lt80 (byteAt s (p + 2)) <;>
      cases lt80 (byteAt s (p + 3)) <;> cases lt80 (byteAt s (p + 4)) <;> cases lt80 (byteAt s (p + 5)) <;>
      cases lt80 (byteAt s (p + 6)) <;> cases lt80 (byteAt s (p + 7)) <;> simp
  | case3 p n h hw ih =>
    asm_imm at h ih ⊢
    have hn : n = 8 + (n - 8) := by omega
    rw [ih]
    conv => rhs; rw [hn, allRange_add]
    simp only [load64, w8_valid] at hw
    simp only [allRange]
    generalize allRange lt80 s (p + 8) (n - 8) = X
    revert hw
    cases lt80 (byteAt s p) <;> cases lt80 (byteAt s (p + 1)) <;> cases lt80 (byteAt s (p + 2)) <;>
      cases lt80 (byteAt s (p + 3)) <;> cases lt80 (byteAt s (p + 4)) <;> cases lt80 (byteAt s (p + 5)) <;>
      cases lt80 (byteAt s (p + 6)) <;> cases lt80 (byteAt s (p + 7)) <;> simp

def Y4 : Vec := List.replicate 32 0x80

theorem valid_y4 : vpbroadcastq (pinsrq 0 9259542123273814144#64 zeroX) = Y4 := by decide

theorem vtY (v : Vec) (h : v.length ≤ 32) : vptestZF v Y4 = v.all lt80 := by
  rw [Y4, vptestZF_replicate _ _ _ h]
  congr 1; funext x; exact lane_lt80 x
theorem vtX (v : Vec) (h : v.length ≤ 16) : vptestZF v (xmm Y4) = v.all lt80 := by
  have : xmm Y4 = List.replicate 16 0x80 := by decide
  rw [this, vptestZF_replicate _ _ _ h]
  congr 1; funext x; exact lane_lt80 x

theorem vpor_length (a b : Vec) : (vpor a b).length = min a.length b.length := by simp [vpor]
theorem vpor_all (a b : Vec) (h : a.length = b.length) : (vpor a b).all lt80 = (a.all lt80 && b.all lt80) :=
  all_zipWith_and lt80 _ lane_or_lt80 a b h

theorem valid_cmp_tail (s : Bytes) (p n : Nat) (h0 : allRange lt80 s 0 p = true) (hn : n ≤ 16) (hw : 16 ≤ p + n) :
    Valid.cmp_tail Y4 s p n = allRange lt80 s p n := by
  simp only [Valid.cmp_tail, Valid.done]
  asm_imm
  rw [vtX _ (by simp [vload_length]), vload_all, allRange_overlap lt80 s p n 16 h0 hn hw]

theorem valid_cmp16 (s : Bytes) (p n : Nat) (h0 : allRange lt80 s 0 p = true) (hn : n < 32) (hw : 16 ≤ p + n) :
    Valid.cmp16 Y4 s p n = allRange lt80 s p n := by
  simp only [Valid.cmp16, valid_invalid]
  asm_imm
  split
  · exact valid_cmp_tail s p n h0 (by omega) hw
  · rw [vtX _ (by simp [vload_length]), vload_all]
    have hn' : n = 16 + (n - 16) := by omega
    conv => rhs; rw [hn', allRange_add]
    cases ht : allRange lt80 s p 16
    · simp
    · have h1 : allRange lt80 s 0 (p + 16) = true := by
        have := allRange_add lt80 s 0 p 16
        simp only [Nat.zero_add] at this
        rw [this, h0, ht]; rfl
      simp [valid_cmp_tail s (p + 16) (n - 16) h1 (by omega) (by omega)]
/-- one vector step: the block `[p, p+B)` is tested, then control continues at `p+B` with `n-B` -/
theorem avx_step (s : Bytes) (p n B : Nat) (rest : Bool) (hB : B ≤ n) (h0 : allRange lt80 s 0 p = true)
    (hrest : allRange lt80 s 0 (p + B) = true → rest = allRange lt80 s (p + B) (n - B)) :
    (if (!allRange lt80 s p B) = true then false else rest) = allRange lt80 s p n := by
  have hn' : n = B + (n - B) := by omega
  conv => rhs; rw [hn', allRange_add]
  cases ht : allRange lt80 s p B
  · simp
  · have h1 : allRange lt80 s 0 (p + B) = true := by
      have := allRange_add lt80 s 0 p B
      simp only [Nat.zero_add] at this
      rw [this, h0, ht]; rfl
    simp [hrest h1]

theorem valid_cmp32 (s : Bytes) (p n : Nat) (h0 : allRange lt80 s 0 p = true) (hn : n < 64) (hw : 16 ≤ p + n) :
    Valid.cmp32 Y4 s p n = allRange lt80 s p n := by
  simp only [Valid.cmp32, valid_invalid]
  asm_imm
  split
  · exact valid_cmp16 s p n h0 (by omega) hw
  · rw [vtY _ (by simp [vload_length]), vload_all]
    exact avx_step s p n 32 _ (by omega) h0 (fun h1 => valid_cmp16 s (p + 32) (n - 32) h1 (by omega) (by omega))

theorem block64 (q : UInt8 → Bool) (s : Bytes) (p : Nat) :
    ((vload s (p + 32) 32).all q && (vload s p 32).all q) = allRange q s p 64 := by
  rw [vload_all, vload_all, allRange_add q s p 32 32, Bool.and_comm]

theorem valid_cmp64 (s : Bytes) (p n : Nat) (h0 : allRange lt80 s 0 p = true) (hn : n < 128) (hw : 16 ≤ p + n) :
    Valid.cmp64 Y4 s p n = allRange lt80 s p n := by
  simp only [Valid.cmp64, valid_invalid]
  asm_imm
  split
  · exact valid_cmp32 s p n h0 (by omega) hw
  · rw [vtY _ (by simp [vpor_length, vload_length]), vpor_all _ _ (by simp [vpor_length, vload_length]), block64]
    exact avx_step s p n 64 _ (by omega) h0 (fun h1 => valid_cmp32 s (p + 64) (n - 64) h1 (by omega) (by omega))

theorem block128 (q : UInt8 → Bool) (s : Bytes) (p : Nat) :
    (((vload s (p + 96) 32).all q && (vload s (p + 64) 32).all q) &&
      ((vload s (p + 32) 32).all q && (vload s p 32).all q)) = allRange q s p 128 := by
  have := block64 q s (p + 64)
  rw [show p + 64 + 32 = p + 96 by omega] at this
  rw [this, block64, allRange_add q s p 64 64, Bool.and_comm]

theorem valid_cmp128 (s : Bytes) (p n : Nat) (h0 : allRange lt80 s 0 p = true) (hn : n < 256) (hw : 16 ≤ p + n) :
    Valid.cmp128 Y4 s p n = allRange lt80 s p n := by
  simp only [Valid.cmp128, valid_invalid]
  asm_imm
  split
  · exact valid_cmp64 s p n h0 (by omega) hw
  · rw [vtY _ (by simp [vpor_length, vload_length]), vpor_all _ _ (by simp [vpor_length, vload_length]),
      vpor_all _ _ (by simp [vpor_length, vload_length]), vpor_all _ _ (by simp [vpor_length, vload_length]), block128]
    exact avx_step s p n 128 _ (by omega) h0 (fun h1 => valid_cmp64 s (p + 128) (n - 128) h1 (by omega) (by omega))

theorem block256 (q : UInt8 → Bool) (s : Bytes) (p : Nat) :
    ((((vload s (p + 224) 32).all q && (vload s (p + 192) 32).all q) &&
       ((vload s (p + 160) 32).all q && (vload s (p + 128) 32).all q)) &&
      (((vload s (p + 96) 32).all q && (vload s (p + 64) 32).all q) &&
        ((vload s (p + 32) 32).all q && (vload s p 32).all q))) = allRange q s p 256 := by
  have := block128 q s (p + 128)
  rw [show p + 128 + 96 = p + 224 by omega, show p + 128 + 64 = p + 192 by omega,
    show p + 128 + 32 = p + 160 by omega] at this
  rw [this, block128, allRange_add q s p 128 128, Bool.and_comm]

theorem valid_cmp256 (s : Bytes) (p n : Nat) (h0 : allRange lt80 s 0 p = true) (hw : 16 ≤ p + n) :
    Valid.cmp256 Y4 s p n = allRange lt80 s p n := by
  induction n using Nat.strongRecOn generalizing p with
  | _ n ih =>
    rw [Valid.cmp256]
    simp only [valid_invalid]
    asm_imm
    split
    · exact valid_cmp128 s p n h0 (by omega) hw
    · rw [vtY _ (by simp [vpor_length, vload_length]),
        vpor_all _ _ (by simp [vpor_length, vload_length]), vpor_all _ _ (by simp [vpor_length, vload_length]),
        vpor_all _ _ (by simp [vpor_length, vload_length]),
        vpor_all _ _ (by simp [vpor_length, vload_length]), vpor_all _ _ (by simp [vpor_length, vload_length]),
        vpor_all _ _ (by simp [vpor_length, vload_length]), vpor_all _ _ (by simp [vpor_length, vload_length]), block256]
      exact avx_step s p n 256 _ (by omega) h0 (fun h1 => ih (n - 256) (by omega) (p + 256) h1 (by omega))

theorem valid_init_avx (s : Bytes) (hw : 16 ≤ s.length) :
    Valid.init_avx 9259542123273814144#64 s 0 s.length = s.all lt80 := by
  simp only [Valid.init_avx]
  asm_imm
  rw [valid_y4, valid_cmp256 s 0 s.length rfl (by omega), allRange_full]

theorem valid_entry (x86 : Nat) (s : Bytes) : Valid.entry x86 s = s.all lt80 := by
  simp only [Valid.entry]
  asm_imm
  split
  · rw [valid_cmp8, allRange_full]
  · split
    · exact valid_init_avx s (by omega)
    · rw [valid_cmp8, allRange_full]

theorem asmValidString_eq (hasAVX2 : Bool) (s : Bytes) : asmValidString hasAVX2 s = Spec.Ascii.valid s := by
  rw [asmValidString, valid_entry, Ascii.valid_all]

#print axioms asmValidString_eq

end Enc.Lemmas.AsciiAsm
