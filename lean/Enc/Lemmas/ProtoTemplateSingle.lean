import Enc.Lemmas.ProtoTemplateReject
/-!
# End to end for one-member templates on flat messages

`template_rewrite_value_single`: the whole chain — `parseTemplate` (model of `ParseRewriteTemplate`) builds a tree,
`rewriteT` (model of `Rewrite`) applies it to ANY input the reference decoder accepts, and the reference decoder reads the
output as the input's value with exactly the templated field replaced by the value the JSON member denotes.
-/
namespace Enc.Lemmas.ProtoTemplate
open Enc Enc.Spec.Protobuf Enc.Lemmas.ProtoRewriteSpec
open Enc.Model.Proto (PKind RwT Rw TFields TType parseLeaf parseTemplate parseStruct parseMembers parseElems parseOne
  lookupFieldByName rewriteT rewrite fieldVarint fieldVarlen appendField encodeVarint gvString gvObj findRule multiOfT
  insertEnt tableLen PF)
open Enc.Model.Json (GV GMs)

theorem stepS_length (fs : Fields) (r : Nat × WireVal) (vs vs1 : Vals) (h : stepS fs r vs = some vs1) :
    vs1.length = vs.length := by
  simp only [stepS] at h
  split at h
  · simp only [Option.some.injEq] at h; subst h; rfl
  · simp only [Option.map_eq_some_iff] at h
    obtain ⟨x, _, rfl⟩ := h
    exact valsSet_length _ _ _

theorem foldS_length (fs : Fields) : ∀ (recs : List (Nat × WireVal)) (vs res : Vals), foldS fs recs vs = some res →
    res.length = vs.length
  | [], vs, res, h => by simp only [foldS, Option.some.injEq] at h; subst h; rfl
  | r :: rest, vs, res, h => by
    simp only [foldS] at h
    cases hs : stepS fs r vs with
    | none => simp [hs] at h
    | some vs1 =>
      simp only [hs, Option.bind_some] at h
      rw [foldS_length fs rest vs1 res h, stepS_length fs r vs vs1 hs]

theorem valsGet_zeroFields : ∀ (fs : Fields) (i : Nat) (tag : String) (t : Ty), fieldAt fs i = some (tag, t) →
    valsGet (zeroFields fs) i = zeroOf t
  | .nil, _, _, _, h => by simp [fieldAt] at h
  | .cons _ _ _ t0 rest, 0, tag, t, h => by
    simp only [fieldAt, Option.some.injEq, Prod.mk.injEq] at h
    simp [zeroFields, valsGet, h.2]
  | .cons _ _ _ t0 rest, i + 1, tag, t, h => by
    simp only [fieldAt] at h
    simp [zeroFields, valsGet, valsGet_zeroFields rest i tag t h]

/-- the tree `parseTemplate` builds for a one-member template of a scalar field -/
theorem parseTemplate_single (pf : PF) (tfs : TFields) (k : Bytes) (jv : GV) (number : Nat) (kind : PKind)
    (hname : lookupFieldByName tfs k = some (number, false, .prim kind)) (fuel : Nat) (r : Option RwT) (m : RwT)
    (hp : parseLeaf pf kind number jv = .ok r)
    (hr : (r = none ∧ m = .multi []) ∨ ∃ rb, r = some (.raw rb) ∧ m = .raw rb) :
    parseTemplate pf (fuel + 4) (.msg tfs) (.obj (.cons k jv .nil)) [] = .ok (.message (number + 1) [(number, m)]) := by
  simp only [parseTemplate, parseStruct, gvObj, parseMembers, hname, Bool.false_eq_true, if_false, findRule,
    parseElems, parseOne, hp]
  rcases hr with ⟨rfl, rfl⟩ | ⟨rb, rfl, rfl⟩ <;> simp [Res.bind, multiOfT, insertEnt, tableLen]

/-- **END TO END, one scalar field.** -/
theorem template_rewrite_value_single (pf : PF) (hpf : PFok pf) (fs : Fields) (hfs : flat fs = true) (tfs : TFields) (k : Bytes) (jv : GV)
    (number i : Nat) (o : FieldOpt) (t : Ty) (kind : PKind)
    (hname : lookupFieldByName tfs k = some (number, false, .prim kind))
    (hfind : findField fs number = some (i, o, t)) (hkind : kindOf t o = some kind)
    (h0 : 0 < number) (h1 : number < 2 ^ 61) (hlen : ∀ s, gvString jv = some s → s.length < 2 ^ 32)
    (x : Val) (hx : leafVal pf kind jv = some x)
    (b : Bytes) (res : Vals) (hb : b.length < 2 ^ 24)
    (hdec : decode (.struct fs) b = some (.struct res)) (fuel : Nat) :
    ∃ tree out, parseTemplate pf (fuel + 4) (.msg tfs) (.obj (.cons k jv .nil)) [] = .ok tree ∧
      (∀ F, b.length + 8 ≤ F → rewriteT F tree b = .ok out) ∧
      decode (.struct fs) out = some (.struct (valsSet res i x)) := by
  have hleaf := leaf_sem pf hpf t o kind hkind number h0 h1 jv (fun s hs => by have := hlen s hs; omega)
  rw [hx] at hleaf
  simp only at hleaf
  obtain ⟨hi, _, tg, hat, _⟩ := findField_spec fs number i o t hfind
  -- the table, its specification, its semantics
  have key : ∀ (r : Rw) (rt : RwT) (eff : Option Val), RwT.toRw? rt = some r → rwOK r = true → hasEmb r = false →
      sizeM r ≤ 2 ^ 33 → fuelD r ≤ 4 →
      (∃ a, (∀ k p, specRw (k + 2) (toSpec r) p = some a) ∧
        ∀ vs, foldS fs a vs = some (match eff with | some y => valsSet vs i y | none => vs)) →
      eff.getD (valsGet (zeroFields fs) i) = x →
      ∃ out, (∀ F, b.length + 8 ≤ F → rewriteT F (.message (number + 1) [(number, rt)]) b = .ok out) ∧
        decode (.struct fs) out = some (.struct (valsSet res i x)) := by
    intro r rt eff hto hok hne hsz hfd hsem hval
    obtain ⟨a, hspec, hfold⟩ := hsem
    have hT : TabSem fs (toSpecEnts [(number, r)]) (fun _ => i) (fun _ => eff) := by
      refine ⟨by simp [toSpecEnts], ?_⟩
      intro n e hm
      simp only [toSpecEnts, List.mem_singleton, Prod.mk.injEq] at hm
      obtain ⟨rfl, rfl⟩ := hm
      exact ⟨a, o, t, hspec, hfind, hfold⟩
    obtain ⟨out, res', hrw, hd, hl', hsame, htempl⟩ := message_rewrite_value fs hfs (number + 1) [(number, r)]
      (fun _ => i) (fun _ => eff) (by simp [entsOK, hok]) (by simp [hasEmbEnts, hne]) hT b res
      (by
        simp only [sizeMEnts]
        have : (20 + (sizeM r + 0)) * (b.length + 1) ≤ (20 + 2 ^ 33) * 2 ^ 24 :=
          Nat.mul_le_mul (by omega) (by omega)
        omega) hdec
    refine ⟨out, ?_, ?_⟩
    · intro F hF
      have hto' : RwT.toRw? (.message (number + 1) [(number, rt)]) = some (.message (number + 1) [(number, r)]) := by
        simp [RwT.toRw?, RwT.entsToRw?, hto]
      rw [rewriteT_eq_rewrite F _ _ b hto']
      exact hrw F (by simp only [fuelD, fuelDEnts, List.length_singleton]; omega)
    · rw [hd]
      congr 2
      -- the decoded input has the right length
      have hreslen : res.length = fs.length := by
        rw [decode_flat fs hfs] at hdec
        cases hp : parse (b.length + 1) b with
        | none => simp [hp] at hdec
        | some recs =>
          simp only [hp, Option.bind_some, Option.map_eq_some_iff, Val.struct.injEq] at hdec
          obtain ⟨r0, hf0, rfl⟩ := hdec
          rw [foldS_length fs recs _ _ hf0, zeroFields_length]
      apply vals_ext
      · rw [valsSet_length, hl', hreslen]
      · intro j _
        by_cases hij : i = j
        · subst hij
          rw [valsGet_set_eq _ _ _ (by rw [hreslen]; exact hi)]
          have := htempl number (toSpec r) (by simp [toSpecEnts])
          rw [this, hval]
        · rw [valsGet_set_ne _ _ _ _ hij]
          exact hsame j (fun n e _ => hij)
  rcases hleaf with ⟨hp, hz⟩ | ⟨rb, w, hp, hrbl, hv, hs⟩
  · -- zero value: no rewriter, the field is deleted
    refine ⟨.message (number + 1) [(number, .multi [])], ?_⟩
    obtain ⟨out, h1', h2'⟩ := key (.multi []) (.multi []) none (by simp [RwT.toRw?, RwT.listToRw?]) (by simp [rwOK, listOK])
      (by simp [hasEmb, hasEmbList]) (by simp [sizeM, sizeMList]) (by simp [fuelD, fuelDList])
      ⟨[], fun k p => by simp [toSpec, toSpecList, specRw, specMulti], fun vs => by simp [foldS]⟩
      (by simp only [Option.getD_none]; rw [valsGet_zeroFields fs i tg t hat, hz])
    exact ⟨out, parseTemplate_single pf tfs k jv number kind hname fuel none _ hp (Or.inl ⟨rfl, rfl⟩), h1', h2'⟩
  · refine ⟨.message (number + 1) [(number, .raw rb)], ?_⟩
    have hrb : rb.length ≤ 2 ^ 33 := by
      have : strLen jv < 2 ^ 32 := by
        unfold strLen; split
        · rename_i s hs; exact hlen s hs
        · omega
      omega
    obtain ⟨out, h1', h2'⟩ := key (.raw rb) (.raw rb) (some x) (by simp [RwT.toRw?]) (by simp [rwOK])
      (by simp [hasEmb]) (by simpa [sizeM] using hrb) (by simp [fuelD])
      ⟨[(number, w)], fun k p => by simp only [toSpec, specRw]; exact hv, fun vs => by
        simp [foldS, stepS, hfind, hs]⟩
      (by simp)
    exact ⟨out, parseTemplate_single pf tfs k jv number kind hname fuel _ _ hp (Or.inr ⟨rb, rfl, rfl⟩), h1', h2'⟩

end Enc.Lemmas.ProtoTemplate
