import Enc.Lemmas.ThriftAcceptMain
/-!
C13, second half (compact protocol): the canonical encoding `Spec.Thrift.encode .compact ty v` is a member of the set
`Conf ty v` (so the set really EXTENDS the canonical encoding, and is non-empty on the universe).

  * `stream_emit`       `Spec.Thrift.emit .compact l last` is a field stream of `l` (canonical header choice)
  * `perm_sort`         the id-sorted record list is a permutation of the declaration-order list
  * `conf_canonical`    `U ty v → Conf ty v (Spec.Thrift.encode .compact ty v)`
-/
namespace Enc.Lemmas.ThriftAccept
open Enc Enc.Model.Thrift Enc.Lemmas.ThriftPrim Enc.Lemmas.ThriftSkip Enc.Lemmas.ThriftSpec
open Enc.Lemmas.ThriftRoundTrip

theorem All2.of_map {α β : Type} {R : α → β → Prop} (f : α → β) : ∀ (l : List α), (∀ a ∈ l, R a (f a)) →
    All2 R l (l.map f)
  | [], _ => .nil
  | a :: l, h => .cons (h a (List.mem_cons_self ..))
      (All2.of_map f l fun b hb => h b (List.mem_cons_of_mem _ hb))

/-- the specification's field emitter produces a field stream (it picks the short header form whenever it exists) -/
theorem stream_emit : ∀ (l : List Spec.Thrift.FRec) (last : Int),
    (∀ f ∈ l, -2 ^ 15 ≤ f.id ∧ f.id < 2 ^ 15) → Stream l last (Spec.Thrift.emit .compact l last)
  | [], last, _ => .stop last
  | f :: l, last, h => by
    rw [emit_cons_compact]
    exact .field f l last _ _ (FieldHdrB_canonical _ f.id last (h f (List.mem_cons_self ..)))
      (stream_emit l f.id fun g hg => h g (List.mem_cons_of_mem _ hg))

theorem perm_insRec (f : Spec.Thrift.FRec) : ∀ (l : List Spec.Thrift.FRec),
    (Spec.Thrift.insRec f l).Perm (f :: l)
  | [] => List.Perm.refl _
  | g :: l => by
    unfold Spec.Thrift.insRec
    split
    · exact List.Perm.refl _
    · exact ((perm_insRec f l).cons g).trans (List.Perm.swap f g l)

theorem perm_sort : ∀ (l : List Spec.Thrift.FRec), (l.foldr Spec.Thrift.insRec []).Perm l
  | [] => List.Perm.refl _
  | a :: l => by
    simp only [List.foldr_cons]
    exact (perm_insRec a _).trans ((perm_sort l).cons a)

theorem zigzag_lt64 (i : Int) (h : -2 ^ 63 ≤ i ∧ i < 2 ^ 63) : Spec.Thrift.zigzag i < 2 ^ 64 := by
  unfold Spec.Thrift.zigzag; simp only [Int.reducePow, Nat.reducePow] at *; split <;> omega

theorem spec_encode_int (k : IntKind) (i : Int) (hs : k.signed = true) :
    Spec.Thrift.encode .compact (.int k) (.int i) =
      if k.bits = 8 then [UInt8.ofNat (Spec.Thrift.twos i 8)] else Spec.Thrift.zz i := by
  cases k <;> simp [IntKind.signed] at hs <;> rfl

mutual
/-- **the canonical encoding is conformant** -/
theorem conf_canon : (ty : Ty) → (v : Val) → tyOK ty = true → valOK ty v = true → RTS ty v = true →
    Conf ty v (Spec.Thrift.encode .compact ty v)
  | .bool, v, _, hx, _ => by
    cases v with
    | bool b =>
      simp only [Conf]
      exact ⟨b, rfl, by cases b <;> rfl⟩
    | _ => simp [valOK] at hx
  | .int k, v, ht, _, hR => by
    cases v <;> simp only [RTS, intOK, Bool.false_eq_true] at hR
    rename_i i _
    obtain ⟨hs, h1, h2⟩ := inRange_signed k i hR
    simp only [Conf]
    refine ⟨i, rfl, ?_⟩
    rw [spec_encode_int k i hs]
    split
    · rfl
    · refine VarU_leb128 _ (zigzag_lt64 i ?_)
      have h63 : (2 : Int) ^ (k.bits - 1) ≤ 2 ^ 63 := by
        have : k.bits - 1 ≤ 63 := by cases k <;> simp [IntKind.bits]
        have := Nat.pow_le_pow_right (n := 2) (by omega) this
        exact_mod_cast this
      omega
  | .f32, _, ht, _, _ | .f64, _, ht, _, _ | .any, _, ht, _, _ | .arr _ _, _, ht, _, _ => by simp [tyOK] at ht
  | .str, v, _, _, hR => by
    cases v with
    | str s =>
      simp only [RTS, strOK, decide_eq_true_eq] at hR
      unfold maxLen at hR
      simp only [Conf]
      exact ⟨s, rfl, BytesC_canonical s (by omega)⟩
    | _ => simp [RTS, strOK] at hR
  | .bytes, v, _, _, hR => by
    simp only [Conf]
    cases v <;> simp only [RTS, bytesOK, decide_eq_true_eq, Bool.false_eq_true] at hR <;>
      (try unfold maxLen at hR) <;> simp only [payload, Spec.Thrift.encode]
    · exact BytesC_canonical _ (by omega)
    · exact BytesC_canonical [] (by simp)
  | .slice t, v, ht, hx, hR => by
    rw [RTS_slice] at hR
    simp only [Conf]
    rw [sencode_slice]
    by_cases hu : isU8 t = true
    · simp only [hu, if_true] at hR ⊢
      cases v <;> simp only [bytesOK, decide_eq_true_eq, Bool.false_eq_true] at hR <;> (try unfold maxLen at hR) <;>
        simp only [payload]
      · exact BytesC_canonical _ (by omega)
      · exact BytesC_canonical [] (by simp)
    · simp only [hu, Bool.false_eq_true, if_false, Bool.and_eq_true] at hR ⊢
      have hu' : isU8 t = false := by simpa using hu
      have htt : tyOK t = true := by simpa [tyOK, hu'] using ht
      have hvx := valOK_slice_elems t v hu' hx
      cases v <;> simp only [listOK, Bool.false_eq_true, and_false] at hR
      · exact ⟨_, [], ListHdr_canonical _ 0 (by omega), .nil, by simp⟩
      · rename_i vs
        simp only [Bool.and_eq_true, decide_eq_true_eq] at hR
        obtain ⟨_, hlen, hall⟩ := hR
        unfold maxLen at hlen
        have hall' := all_toList _ _ hall
        refine ⟨_, vs.toList.map (Spec.Thrift.encode .compact t), ?_, ?_, rfl⟩
        · simp only [elems, ← length_toList]
          exact ListHdr_canonical _ _ (by omega)
        · exact All2.of_map _ _ fun a ha => conf_canon t a htt (hvx a ha) (hall' a ha)
  | .map k v, x, ht, hx, hR => by
    rw [RTS_map] at hR
    simp only [Bool.and_eq_true, decide_eq_true_eq] at hR
    obtain ⟨⟨⟨⟨⟨_, _⟩, _⟩, hlen⟩, hall⟩, _⟩ := hR
    have hall' := all_toList _ _ hall
    simp only [tyOK, Bool.and_eq_true] at ht
    have hvx := valOK_map_pairs k v x hx
    simp only [Conf]
    rw [sencode_map]
    rw [pairsOfVal_eq] at hall' hvx hlen
    simp only [maxLen] at hlen
    generalize sPairsOfVal x = ps at *
    have hk : ∀ a ∈ ps, Conf k a.1 (Spec.Thrift.encode .compact k a.1) := by
      intro a ha
      have := hall' a ha
      simp only [Bool.and_eq_true] at this
      exact conf_canon k a.1 ht.1 (hvx a ha).1 this.1
    by_cases he : Spec.Thrift.isUnit v = true
    · simp only [he, if_true]
      exact ⟨_, _, ListHdr_canonical _ _ (by omega), All2.of_map _ _ hk, rfl⟩
    · simp only [he, Bool.false_eq_true, if_false]
      refine ⟨_, _, MapHdr_canonical _ _ _ (by omega), All2.of_map _ _ fun a ha => ?_, rfl⟩
      have := hall' a ha
      rw [isEmptyStruct_eq] at this
      simp only [Bool.and_eq_true, he, Bool.false_or] at this
      exact ⟨_, _, hk a ha, conf_canon v a.2 ht.2 (hvx a ha).2 this.2, rfl⟩
  | .struct fs, v, ht, hx, hR => by
    simp only [RTS, Bool.and_eq_true] at hR
    obtain ⟨hids, hR⟩ := hR
    cases v <;> simp only [structOK, Bool.false_eq_true] at hR
    rename_i vs
    simp only [valOK] at hx
    simp only [tyOK, Bool.and_eq_true] at ht
    simp only [Conf]
    refine ⟨vs, rfl, Spec.Thrift.recs .compact fs vs, _, confFields_canon fs vs ht.1.1 hx hR,
      perm_sort _, ?_⟩
    rw [sencode_struct]
    apply stream_emit
    intro f hf
    -- the record ids are declared ids, which `idsOK` bounds
    have hmem : f.id ∈ (Spec.Thrift.recs .compact fs vs).map (·.id) :=
      List.mem_map_of_mem ((perm_sort _).mem_iff.mp hf)
    have := (ids_sublist .compact fs vs).subset hmem
    rw [← fieldDescs_ids fs 0] at this
    obtain ⟨d, hd, hdid⟩ := List.mem_map.mp this
    unfold idsOK at hids
    simp only [Bool.and_eq_true, decide_eq_true_eq, List.all_eq_true] at hids
    have := hids.1 d hd
    rw [hdid] at this
    constructor <;> omega
  | .ptr t, v, ht, hx, hR => by
    simp only [RTS] at hR
    simp only [tyOK] at ht
    simp only [Conf]
    cases v <;> simp only [ptrOK, Bool.false_eq_true] at hR <;> simp only [valOK] at hx <;>
      simp only [Spec.Thrift.encode]
    · rw [← zeroOf_eq]; exact conf_canon t _ ht (valOK_zeroOf t ht) hR
    · exact conf_canon t _ ht hx hR
  | .named _ t, v, ht, hx, hR => by
    simp only [RTS] at hR
    simp only [tyOK] at ht
    simp only [valOK] at hx
    simp only [Conf, Spec.Thrift.encode]
    exact conf_canon t v ht hx hR
/-- the specification's record list is one of the conformant record lists (it omits every field that may be omitted) -/
theorem confFields_canon : (fs : Fields) → (vs : Vals) → fieldsOK fs = true → valsOK fs vs = true →
    RTSFields fs vs = true → ConfFields fs vs (Spec.Thrift.recs .compact fs vs)
  | .nil, .nil, _, _, _ => by simp [ConfFields, Spec.Thrift.recs]
  | .nil, .cons _ _, _, hv, _ => by simp [valsOK] at hv
  | .cons _ _ _ _ _, .nil, _, hv, _ => by simp [valsOK] at hv
  | .cons nm tag e t rest, .cons x vr, hok, hv, hR => by
    simp only [fieldsOK, Bool.and_eq_true] at hok
    simp only [valsOK, Bool.and_eq_true] at hv
    rw [RTSFields_cons] at hR
    simp only [Bool.and_eq_true] at hR
    obtain ⟨⟨hRrest, _⟩, hRfield⟩ := hR
    have ih := confFields_canon rest vr hok.2 hv.2 hRrest
    rw [recs_cons]
    simp only [ConfFields]
    cases hp : Spec.Thrift.tagOf tag with
    | none => exact ih
    | some y =>
      obtain ⟨id, req, en⟩ := y
      simp only
      have hp' : parseTag tag = some (id, req, en) := by rw [parseTag_eq_tagOf]; exact hp
      by_cases hn : isNilPtr t x = true
      · simp only [hn, if_true]
        exact Or.inl ⟨by simp [mayOmit, hn], ih⟩
      · simp only [hn, Bool.false_eq_true, if_false]
        have hn' : isNilPtr t x = false := by simpa using hn
        by_cases hz : (!req && Spec.Thrift.isDefaultAt t x) = true
        · simp only [hz, if_true]
          exact Or.inl ⟨by simp only [mayOmit, hz, Bool.or_true], ih⟩
        · simp only [hz, Bool.false_eq_true, if_false]
          have hw : mayWrite req t x = true := by
            simp only [mayWrite, hn', Bool.not_false, Bool.true_and]
            cases req <;> simp_all
          obtain ⟨hRx, -⟩ := field_target tag t x id req en hp' hok.1.1 hv.1 hw hRfield
          refine Or.inr ⟨hw, _, _, ?_, rfl, ih⟩
          cases en with
          | true =>
            have := enumOK_i32 tag t id req hp hok.1.2
            subst this
            have hx := hv.1
            cases x with
            | int i => ?_
            | _ => simp [valOK] at hx
            simp only [RTS, intOK] at hRx
            obtain ⟨_, h1, h2⟩ := inRange_signed .i32 i hRx
            simp only [IntKind.bits, Nat.reduceSub, Int.reducePow] at h1 h2
            simp only [if_true, Spec.Thrift.derefV, sBody]
            exact VarU_leb128 _ (zigzag_lt64 i ⟨by omega, by omega⟩)
          | false =>
            simp only [Bool.false_eq_true, if_false, sBody]
            exact conf_canon t x hok.1.1 hv.1 hRx
end

end Enc.Lemmas.ThriftAccept
