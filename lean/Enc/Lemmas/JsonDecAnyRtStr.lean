import Enc.Spec.Json.DecAnySpec
import Enc.Spec.Json.StdEnc
import Enc.Lemmas.JsonDecString
import Enc.Lemmas.JsonEncString
/-!
# C02 round trip, strings: what encoding/json writes for a string (`appendString`, Spec/Json/StdEnc.lean) is an RFC 8259
string literal, and unquoting it (`unquoteLit` = encoding/json's `unquote`) gives the string back with every invalid
UTF-8 byte replaced by U+FFFD (`coerceUTF8`, i.e. Go's `string([]rune(s))`)

* `Step` — what one source rune contributes: the quoted chunk `q` written by `appendChars`, which the grammar's `chars`
  skips and which `unquoteStd` turns into `encodeRune` of the source rune; `step_exists` builds it for every source.
* `chars_appendChars`, `unq_appendChars` — the two inductions (one step per source rune, all sufficient fuels).
-/
namespace Enc.Lemmas.JsonDecAnyRtStr
open Enc Enc.Spec.Json Enc.Utf8
open Enc.Lemmas.JsonString (chars_cons)
open Enc.Lemmas.JsonDecString (Plain plain_of_ge std_nil std_simple std_plain_ascii std_plain_hi std_u_nonsurr
  decodeRune_ascii encodeRune_ascii decodeRune_shape decodeRune_take_plain decodeRune_4 isSimpleEsc)
open Enc.Lemmas.JsonEncString (specEsc specEsc_not_c2 c2 appendChars_cons_safe)

/-! ### hex digits -/

theorem hex_fin : ∀ i : Fin 16, hexdig (hexLower i.val) = true ∧ hexv (hexLower i.val) = i.val := by
  decide +kernel

theorem hexdig_hexLower (n : Nat) (h : n < 16) : hexdig (hexLower n) = true := (hex_fin ⟨n, h⟩).1
theorem hexv_hexLower (n : Nat) (h : n < 16) : hexv (hexLower n) = n := (hex_fin ⟨n, h⟩).2

/-! ### `chars` over one chunk -/

theorem chars_simple (e : UInt8) (X : Bytes) (h : isSimpleEsc e = true) : chars (0x5c :: e :: X) = chars X := by
  rw [chars_cons]
  have h1 : ((0x5c : UInt8) == 0x22) = false := by decide
  unfold isSimpleEsc at h
  simp only [h1, beq_self_eq_true, if_true, Bool.false_eq_true, if_false, h]

theorem chars_u (a b c d : UInt8) (X : Bytes) (h : (hexdig a && hexdig b && hexdig c && hexdig d) = true) :
    chars (0x5c :: 0x75 :: a :: b :: c :: d :: X) = chars X := by
  rw [chars_cons]
  have h1 : ((0x5c : UInt8) == 0x22) = false := by decide
  have h2 : ((0x75 : UInt8) == 0x22 || (0x75 : UInt8) == 0x5c || (0x75 : UInt8) == 0x2f || (0x75 : UInt8) == 0x62 ||
      (0x75 : UInt8) == 0x66 || (0x75 : UInt8) == 0x6e || (0x75 : UInt8) == 0x72 || (0x75 : UInt8) == 0x74) = false := by
    decide
  simp only [h1, beq_self_eq_true, if_true, Bool.false_eq_true, if_false, h2, h]

theorem chars_plain_pre (p X : Bytes) (h : ∀ b ∈ p, Plain b) : chars (p ++ X) = chars X := by
  induction p with
  | nil => rfl
  | cons c r ih =>
    obtain ⟨h1, h2, h3⟩ := h c (by simp)
    have h1' : (c == 0x22) = false := by simpa using h1
    have h2' : (c == 0x5c) = false := by simpa using h2
    rw [List.cons_append, chars_cons]
    simp only [h1', h2', h3, Bool.false_eq_true, if_false]
    exact ih (fun b hb => h b (by simp [hb]))

/-! ### `appendChars` unfolded -/

theorem appendChars_lo (html : Bool) (f : Nat) (c : UInt8) (rest : Bytes) (h80 : c < 0x80) (hs : safe c html = false) :
    appendChars html (f+1) (c :: rest) = specEsc c ++ appendChars html f rest := by
  rw [appendChars]
  simp only [h80, hs, if_true, Bool.false_eq_true, if_false]
  rfl

theorem appendChars_hi (html : Bool) (f : Nat) (c : UInt8) (rest : Bytes) (h80 : ¬ c < 0x80) :
    appendChars html (f+1) (c :: rest) =
      if ((decodeRune (c :: rest)).1 == runeError && (decodeRune (c :: rest)).2 == 1) = true then
        [0x5c, 0x75, 0x66, 0x66, 0x66, 0x64] ++ appendChars html f rest
      else if ((decodeRune (c :: rest)).1 == 0x2028 || (decodeRune (c :: rest)).1 == 0x2029) = true then
        [0x5c, 0x75, 0x32, 0x30, 0x32, hexLower ((decodeRune (c :: rest)).1 % 16)] ++
          appendChars html f ((c :: rest).drop (decodeRune (c :: rest)).2)
      else (c :: rest).take (decodeRune (c :: rest)).2 ++
          appendChars html f ((c :: rest).drop (decodeRune (c :: rest)).2) := by
  rw [appendChars]
  simp only [h80, if_false]

/-! ### `decodeRune` only looks at the bytes of the sequence -/

theorem decode_lead (c : UInt8) (rest : Bytes) :
    ((decodeRune (c :: rest)).2 = 1 → ¬ c.toNat < 0x80 → (decodeRune (c :: rest)).1 = runeError) ∧
    ((decodeRune (c :: rest)).2 = 2 → ¬ c.toNat < 0x80 ∧ (0xC2 ≤ c.toNat ∧ c.toNat ≤ 0xDF)) ∧
    ((decodeRune (c :: rest)).2 = 3 → ¬ c.toNat < 0x80 ∧ ¬ (0xC2 ≤ c.toNat ∧ c.toNat ≤ 0xDF) ∧
      (0xE0 ≤ c.toNat ∧ c.toNat ≤ 0xEF)) := by
  unfold decodeRune
  simp only []
  repeat' split
  all_goals simp_all

theorem decode_2_ext (c c1 : UInt8) (r' X : Bytes) (h : (decodeRune (c :: c1 :: r')).2 = 2) :
    decodeRune (c :: c1 :: X) = decodeRune (c :: c1 :: r') := by
  obtain ⟨h1, h2⟩ := (decode_lead c (c1 :: r')).2.1 h
  simp only [decodeRune, h1, h2, if_false, if_true, and_self]

theorem decode_3_ext (c c1 c2 : UInt8) (r' X : Bytes) (h : (decodeRune (c :: c1 :: c2 :: r')).2 = 3) :
    decodeRune (c :: c1 :: c2 :: X) = decodeRune (c :: c1 :: c2 :: r') := by
  obtain ⟨h1, h2, h3⟩ := (decode_lead c (c1 :: c2 :: r')).2.2 h
  simp only [decodeRune, h1, h2, h3, if_false, if_true, and_self]

theorem decode_take_ext (c : UInt8) (rest X : Bytes) (h2 : (decodeRune (c :: rest)).2 ≠ 1) :
    decodeRune ((c :: rest).take (decodeRune (c :: rest)).2 ++ X) = decodeRune (c :: rest) := by
  rcases decodeRune_shape c rest with h | ⟨c1, r', rfl, h, _⟩ | ⟨c1, c2, r', rfl, h, _⟩ | ⟨c1, c2, c3, r', rfl, h, _⟩
  · exact absurd h h2
  · rw [h]; exact decode_2_ext c c1 r' _ h
  · rw [h]; exact decode_3_ext c c1 c2 r' _ h
  · rw [h]; exact decodeRune_4 ..

/-! ### one source rune -/

/-- the quoted chunk `q` that `appendChars` writes for the first rune of `c :: rest` -/
structure Step (html : Bool) (c : UInt8) (rest q : Bytes) : Prop where
  app : ∀ f, appendChars html (f+1) (c :: rest) = q ++ appendChars html f ((c :: rest).drop (decodeRune (c :: rest)).2)
  chr : ∀ X, chars (q ++ X) = chars X
  pos : 1 ≤ q.length
  unq : ∀ g X, unquoteStd (g+1) (q ++ X) = encodeRune (decodeRune (c :: rest)).1 ++ unquoteStd g X

theorem lt80 {c : UInt8} (h : c < 0x80) : c.toNat < 128 := by
  have := UInt8.lt_iff_toNat_lt.mp h
  simpa using this

theorem step_safe (html : Bool) (c : UInt8) (rest : Bytes) (h80 : c < 0x80) (hs : safe c html = true) :
    Step html c rest [c] := by
  have hd := decodeRune_ascii c rest h80
  have hs0 := hs
  simp only [safe, Bool.and_eq_true, decide_eq_true_eq, bne_iff_ne, ne_eq] at hs
  obtain ⟨⟨⟨⟨h20, _⟩, h22⟩, h5c⟩, _⟩ := hs
  refine ⟨?_, ?_, by simp, ?_⟩
  · intro f
    rw [hd]
    exact appendChars_cons_safe html c rest f h80 hs0
  · intro X
    exact chars_plain_pre [c] X (by
      intro b hb
      have : b = c := by simpa using hb
      subst this
      exact ⟨h22, h5c, UInt8.not_lt.mpr h20⟩)
  · intro g X
    rw [hd, List.singleton_append, std_plain_ascii g c X h5c h80, encodeRune_ascii c h80]
    rfl

theorem esc_c2 (c : UInt8) (h : c2 c = true) :
    ∃ e, specEsc c = [0x5c, e] ∧ isSimpleEsc e = true ∧ e ≠ 0x75 ∧ simpleEscape e = c := by
  simp only [c2, Bool.or_eq_true, beq_iff_eq] at h
  rcases h with (((((h | h) | h) | h) | h) | h) | h <;> subst h
  · exact ⟨0x5c, by decide, by decide, by decide, by decide⟩
  · exact ⟨0x22, by decide, by decide, by decide, by decide⟩
  · exact ⟨0x62, by decide, by decide, by decide, by decide⟩
  · exact ⟨0x66, by decide, by decide, by decide, by decide⟩
  · exact ⟨0x6e, by decide, by decide, by decide, by decide⟩
  · exact ⟨0x72, by decide, by decide, by decide, by decide⟩
  · exact ⟨0x74, by decide, by decide, by decide, by decide⟩

theorem step_esc (html : Bool) (c : UInt8) (rest : Bytes) (h80 : c < 0x80) (hs : safe c html = false) :
    Step html c rest (specEsc c) := by
  have hd := decodeRune_ascii c rest h80
  have hn := lt80 h80
  have happ : ∀ f, appendChars html (f+1) (c :: rest) =
      specEsc c ++ appendChars html f ((c :: rest).drop (decodeRune (c :: rest)).2) := by
    intro f; rw [hd]; exact appendChars_lo html f c rest h80 hs
  by_cases h2 : c2 c = true
  · obtain ⟨e, he, hse, hu, hv⟩ := esc_c2 c h2
    refine ⟨happ, ?_, by simp [he], ?_⟩
    · intro X; rw [he]; exact chars_simple e X hse
    · intro g X
      rw [he, hd]
      show unquoteStd (g+1) (0x5c :: e :: X) = _
      rw [std_simple g e X hu, hv, encodeRune_ascii c h80]
      rfl
  · have h2' : c2 c = false := by simpa using h2
    have he := specEsc_not_c2 c h2'
    have hhi : c.toNat / 16 < 16 := by omega
    have hlo : c.toNat % 16 < 16 := by omega
    have h0 : hexdig 0x30 = true := by decide
    have hv0 : hexv 0x30 = 0 := by decide
    refine ⟨happ, ?_, by simp [he], ?_⟩
    · intro X; rw [he]
      exact chars_u _ _ _ _ X (by simp only [h0, hexdig_hexLower _ hhi, hexdig_hexLower _ hlo, Bool.and_self])
    · intro g X
      rw [he, hd]
      show unquoteStd (g+1) (0x5c :: 0x75 :: 0x30 :: 0x30 :: _ :: _ :: X) = _
      have hval : ((hexv 0x30 * 16 + hexv 0x30) * 16 + hexv (hexLower (c.toNat / 16))) * 16 +
          hexv (hexLower (c.toNat % 16)) = c.toNat := by
        rw [hv0, hexv_hexLower _ hhi, hexv_hexLower _ hlo]; omega
      have hsur : isSurr (((hexv 0x30 * 16 + hexv 0x30) * 16 + hexv (hexLower (c.toNat / 16))) * 16 +
          hexv (hexLower (c.toNat % 16))) = false := by
        rw [hval]; simp only [isSurr, Bool.and_eq_false_iff, decide_eq_false_iff_not]; left; omega
      rw [std_u_nonsurr g _ _ _ _ X hsur, hval]

theorem step_hi (html : Bool) (c : UInt8) (rest : Bytes) (h80 : ¬ c < 0x80) : ∃ q, Step html c rest q := by
  have hn : ¬ c.toNat < 0x80 := by
    intro h; apply h80; apply UInt8.lt_iff_toNat_lt.mpr; simpa using h
  by_cases h1 : (decodeRune (c :: rest)).2 = 1
  · -- invalid byte: �
    have hr := (decode_lead c rest).1 h1 hn
    refine ⟨[0x5c, 0x75, 0x66, 0x66, 0x66, 0x64], ?_, ?_, by simp, ?_⟩
    · intro f
      rw [appendChars_hi html f c rest h80, hr, h1]
      rfl
    · intro X; exact chars_u _ _ _ _ X (by decide)
    · intro g X
      show unquoteStd (g+1) (0x5c :: 0x75 :: 0x66 :: 0x66 :: 0x66 :: 0x64 :: X) = _
      rw [std_u_nonsurr g _ _ _ _ X (by decide), hr]
      rfl
  · have hc1 : ((decodeRune (c :: rest)).1 == runeError && (decodeRune (c :: rest)).2 == 1) = false := by
      simp [h1]
    by_cases hls : (decodeRune (c :: rest)).1 = 0x2028 ∨ (decodeRune (c :: rest)).1 = 0x2029
    · have hc2 : ((decodeRune (c :: rest)).1 == 0x2028 || (decodeRune (c :: rest)).1 == 0x2029) = true := by
        simpa using hls
      refine ⟨[0x5c, 0x75, 0x32, 0x30, 0x32, hexLower ((decodeRune (c :: rest)).1 % 16)], ?_, ?_, by simp, ?_⟩
      · intro f
        rw [appendChars_hi html f c rest h80]
        simp only [hc1, hc2, Bool.false_eq_true, if_false, if_true]
      · intro X
        refine chars_u _ _ _ _ X ?_
        rcases hls with h | h <;> rw [h] <;> decide
      · intro g X
        show unquoteStd (g+1) (0x5c :: 0x75 :: 0x32 :: 0x30 :: 0x32 :: _ :: X) = _
        rcases hls with h | h
        · rw [h, std_u_nonsurr g _ _ _ _ X (by decide)]; rfl
        · rw [h, std_u_nonsurr g _ _ _ _ X (by decide)]; rfl
    · have hc2 : ((decodeRune (c :: rest)).1 == 0x2028 || (decodeRune (c :: rest)).1 == 0x2029) = false := by
        simpa using hls
      have hpl : Plain c := plain_of_ge (by omega)
      obtain ⟨_, hlen, hall⟩ := decodeRune_take_plain c rest hpl
      have htl : ((c :: rest).take (decodeRune (c :: rest)).2).length = (decodeRune (c :: rest)).2 := by
        rw [List.length_take]; omega
      refine ⟨(c :: rest).take (decodeRune (c :: rest)).2, ?_, ?_, ?_, ?_⟩
      · intro f
        rw [appendChars_hi html f c rest h80]
        simp only [hc1, hc2, Bool.false_eq_true, if_false]
      · intro X; exact chars_plain_pre _ X hall
      · rw [htl]; exact JsonDecString.decodeRune_size_pos c rest
      · intro g X
        have hext := decode_take_ext c rest X h1
        have hpos := JsonDecString.decodeRune_size_pos c rest
        obtain ⟨t, ht⟩ : ∃ t, (c :: rest).take (decodeRune (c :: rest)).2 = c :: t := by
          cases hk : (decodeRune (c :: rest)).2 with
          | zero => omega
          | succ k => exact ⟨rest.take k, rfl⟩
        have hdrop : ((c :: rest).take (decodeRune (c :: rest)).2 ++ X).drop (decodeRune (c :: rest)).2 = X :=
          List.drop_left' htl
        rw [ht] at hext hdrop ⊢
        rw [List.cons_append] at hext hdrop ⊢
        rw [std_plain_hi g c (t ++ X) hpl.2.1 h80, hext, hdrop]

theorem step_exists (html : Bool) (c : UInt8) (rest : Bytes) : ∃ q, Step html c rest q := by
  by_cases h80 : c < 0x80
  · cases hs : safe c html
    · exact ⟨_, step_esc html c rest h80 hs⟩
    · exact ⟨_, step_safe html c rest h80 hs⟩
  · exact step_hi html c rest h80

/-! ### the two inductions -/

theorem appendChars_nil (html : Bool) (f : Nat) : appendChars html f [] = [] := by
  cases f <;> rfl

theorem coerce_nil (f : Nat) : Model.Json.coerceUTF8 f [] = [] := by
  cases f <;> rfl

theorem chars_appendChars (html : Bool) (n : Nat) : ∀ (s : Bytes), s.length ≤ n → ∀ f, s.length < f → ∀ rest,
    chars (appendChars html f s ++ 0x22 :: rest) = some rest := by
  induction n with
  | zero =>
    intro s hs f _ rest
    have : s = [] := List.eq_nil_of_length_eq_zero (by omega)
    subst this
    rw [appendChars_nil, List.nil_append, chars_cons]; rfl
  | succ n ih =>
    intro s hs f hf rest
    match s, f, hs, hf with
    | [], f, _, _ => rw [appendChars_nil, List.nil_append, chars_cons]; rfl
    | c :: r, f + 1, hs, hf =>
      obtain ⟨q, st⟩ := step_exists html c r
      have hp := JsonDecString.decodeRune_size_pos c r
      simp only [List.length_cons] at hs hf
      rw [st.app, List.append_assoc, st.chr]
      apply ih
      · simp only [List.length_drop, List.length_cons]; omega
      · simp only [List.length_drop, List.length_cons]; omega

theorem unq_appendChars (html : Bool) (n : Nat) : ∀ (s : Bytes), s.length ≤ n → ∀ f g f', s.length < f → s.length ≤ f' →
    (appendChars html f s).length ≤ g → unquoteStd g (appendChars html f s) = Model.Json.coerceUTF8 f' s := by
  induction n with
  | zero =>
    intro s hs f g f' _ _ _
    have : s = [] := List.eq_nil_of_length_eq_zero (by omega)
    subst this
    rw [appendChars_nil, std_nil, coerce_nil]
  | succ n ih =>
    intro s hs f g f' hf hf' hg
    match s, f, f', hs, hf, hf' with
    | [], f, f', _, _, _ => rw [appendChars_nil, std_nil, coerce_nil]
    | c :: r, f + 1, f' + 1, hs, hf, hf' =>
      obtain ⟨q, st⟩ := step_exists html c r
      have hp := JsonDecString.decodeRune_size_pos c r
      have hq := st.pos
      simp only [List.length_cons] at hs hf hf'
      rw [st.app] at hg ⊢
      rw [List.length_append] at hg
      obtain ⟨g', rfl⟩ : ∃ g', g = g' + 1 := ⟨g - 1, by omega⟩
      have hmax : max (decodeRune (c :: r)).2 1 = (decodeRune (c :: r)).2 := by omega
      rw [st.unq]
      simp only [Model.Json.coerceUTF8, hmax]
      rw [ih _ (by simp only [List.length_drop, List.length_cons]; omega) f g' f'
        (by simp only [List.length_drop, List.length_cons]; omega)
        (by simp only [List.length_drop, List.length_cons]; omega) (by omega)]

/-! ### MAIN -/

theorem string_render (s : Bytes) (html : Bool) (rest : Bytes) :
    Spec.Json.string (appendString s html ++ rest) = some rest := by
  have e : appendString s html ++ rest = 0x22 :: (appendChars html (s.length + 1) s ++ 0x22 :: rest) := by
    simp [appendString]
  rw [e]
  show chars _ = _
  exact chars_appendChars html s.length s (Nat.le_refl _) _ (Nat.lt_succ_self _) rest

theorem unquote_render (s : Bytes) (html : Bool) :
    unquoteLit (appendString s html) = Model.Json.coerceUTF8 (s.length + 1) s := by
  have e : appendString s html = 0x22 :: (appendChars html (s.length + 1) s ++ [0x22]) := by
    simp [appendString]
  have hi : ((appendString s html).drop 1).take ((appendString s html).length - 2) =
      appendChars html (s.length + 1) s := by
    rw [e]
    simp only [List.drop_succ_cons, List.drop_zero, List.length_cons, List.length_append, List.length_nil]
    exact List.take_left' (by omega)
  unfold unquoteLit
  simp only [hi]
  exact unq_appendChars html s.length s (Nat.le_refl _) _ _ _ (Nat.lt_succ_self _) (Nat.le_succ _) (Nat.le_succ _)

/-- non-vacuity / sanity: a source with an escape, an invalid byte, U+2028 and a truncated sequence -/
example : Spec.Json.string (appendString [0x41, 0x22, 0xff, 0xe2, 0x80, 0xa8, 0xc3, 0xa9, 0x0a, 0xe2, 0x82] true ++ [1, 2])
    = some [1, 2] := string_render _ _ _
example : unquoteLit (appendString [0x41, 0x22, 0xff, 0xc3, 0xa9] true) = [0x41, 0x22, 0xef, 0xbf, 0xbd, 0xc3, 0xa9] := by
  rw [unquote_render]; decide +kernel

#print axioms string_render
#print axioms unquote_render

end Enc.Lemmas.JsonDecAnyRtStr
