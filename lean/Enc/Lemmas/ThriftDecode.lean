import Enc.Lemmas.ThriftSkip
/-!
Decoder round trip through `decode` for the scalar / byte-string / list fragment (any nesting of slices, pointers and
named types), both protocols, strict or not, any current target value:

  `decode_encode : RT ty v → fuelD ty v ≤ fuel → decode p strict d fuel ty (encode p ty v ++ rest) cur = ok (v, rest)`

Not covered: maps/sets (the decoder de-duplicates keys through `mapPut`/`Val.show`), structs, nil values (a nil
`[]byte`/slice/pointer is written as an empty/zero value and comes back as that, not as nil).
-/
namespace Enc.Lemmas.ThriftSkip
open Enc Enc.Model.Thrift Enc.Lemmas.ThriftPrim

/-! ### decoder round trip: scalars, byte strings, lists (any nesting), pointers, named types -/

/-- values of the scalar / list fragment that `decode` gives back exactly -/
def RT : Ty → Val → Bool
  | .bool, v => (match v with | .bool _ => true | _ => false)
  | .int k, v => (match v with | .int i => k.signed && k.inRange i | _ => false)
  | .f32, v | .f64, v => (match v with | .float b => decide (b < 2 ^ 64) | _ => false)
  | .str, v | .bytes, v => (match v with | .str s => decide (s.length ≤ maxLen) | _ => false)
  | .slice t, v =>
    if isU8 t then (match v with | .str s => decide (s.length ≤ maxLen) | _ => false)
    else isReal (typeOf t) &&
      (match v with
       | .list vs => decide (vs.length ≤ maxLen) && vs.toList.all (RT t)
       | _ => false)
  | .ptr t, v => (match v with | .ptr x => RT t x | _ => false)
  | .named _ t, v => RT t v
  | _, _ => false

def fuelD : Ty → Val → Nat
  | .slice t, v =>
    if isU8 t then 1 else
      (match v with
       | .list vs => 2 + (vs.toList.map fun e => 1 + fuelD t e).sum
       | _ => 2)
  | .ptr t, v => (match v with | .ptr x => 1 + fuelD t x | _ => 1)
  | .named _ t, v => 1 + fuelD t v
  | _, _ => 1

theorem RT_slice (t : Ty) (v : Val) : RT (.slice t) v =
    if isU8 t then (match v with | .str s => decide (s.length ≤ maxLen) | _ => false)
    else isReal (typeOf t) &&
      (match v with
       | .list vs => decide (vs.length ≤ maxLen) && vs.toList.all (RT t)
       | _ => false) := by
  cases v <;> rfl

theorem fuelD_slice (t : Ty) (v : Val) : fuelD (.slice t) v =
    if isU8 t then 1 else
      (match v with
       | .list vs => 2 + (vs.toList.map fun e => 1 + fuelD t e).sum
       | _ => 2) := by
  cases v <;> rfl

theorem decode_slice (p : Proto) (strict : Bool) (d fuel : Nat) (et : Ty) (b : Bytes) (cur : Val) :
    decode p strict d (fuel + 1) (.slice et) b cur =
      if isU8 et then (rBytes p b).bind fun (x, r) => .ok (.str x, r)
      else (rList p b).bind fun ((lt, n), r) =>
        let lt := if lt == .true_ then TType.bool else lt
        if typeOf et != lt then
          (if strict then .err "typeMismatch"
           else (skipN p (d + 1) fuel lt n r).bind fun (_, r) => .ok (cur, r))
        else if tooDeep d then .err "maxDepth"
        else decodeList p strict (d + 1) fuel et n r [] := by
  cases et with
  | int k => cases k <;> simp only [decode, isU8, if_true, if_false, Bool.false_eq_true]
  | _ => simp only [decode, isU8, if_false, Bool.false_eq_true]

theorem ofList_toList : (vs : Vals) → Vals.ofList vs.toList = vs
  | .nil => rfl
  | .cons v r => by simp [Vals.toList, Vals.ofList, ofList_toList r]

theorem decodeList_elems (p : Proto) (strict : Bool) (d : Nat) (et : Ty) (fu : Val → Nat) :
    ∀ (l : List Val),
      (∀ a ∈ l, ∀ fuel rest cur, fu a ≤ fuel → decode p strict d fuel et (encode p et a ++ rest) cur = .ok (a, rest)) →
      ∀ fuel rest acc, 1 + (l.map fun a => 1 + fu a).sum ≤ fuel →
        decodeList p strict d fuel et l.length ((l.map (encode p et)).flatten ++ rest) acc
          = .ok (.list (Vals.ofList (acc.reverse ++ l)), rest) := by
  intro l
  induction l with
  | nil =>
    intro _ fuel rest acc hf
    obtain ⟨f, rfl⟩ : ∃ f, fuel = f + 1 := ⟨fuel - 1, by simp at hf; omega⟩
    simp [decodeList]
  | cons a l ih =>
    intro h fuel rest acc hf
    simp only [List.map_cons, List.sum_cons] at hf
    obtain ⟨f, rfl⟩ : ∃ f, fuel = f + 1 := ⟨fuel - 1, by omega⟩
    simp only [List.length_cons, List.map_cons, List.flatten_cons, List.append_assoc, decodeList]
    rw [h a (List.mem_cons_self ..) f _ _ (by omega)]
    simp only [dontExpectEOF_ok, Res.bind]
    rw [ih (fun b hb => h b (List.mem_cons_of_mem _ hb)) f rest (a :: acc) (by omega)]
    simp

theorem decode_encode (p : Proto) (strict : Bool) : (ty : Ty) → (v : Val) → RT ty v = true →
    ∀ (d fuel : Nat) (rest : Bytes) (cur : Val), d + nest ty ≤ Gen.c_thrift_maxDepth → fuelD ty v ≤ fuel →
      decode p strict d fuel ty (encode p ty v ++ rest) cur = .ok (v, rest)
  | .bool, v, h => by
    intro d fuel rest cur hd hf
    cases v <;> simp [RT] at h
    simp only [fuelD] at hf
    obtain ⟨f, rfl⟩ : ∃ f, fuel = f + 1 := ⟨fuel - 1, by omega⟩
    simp only [decode, encode, rBool_wBool, Res.bind]
  | .int k, v, h => by
    intro d fuel rest cur hd hf
    cases v <;> simp only [RT, Bool.false_eq_true] at h
    rename_i i
    simp only [fuelD] at hf
    obtain ⟨f, rfl⟩ : ∃ f, fuel = f + 1 := ⟨fuel - 1, by omega⟩
    obtain ⟨hs, h1, h2⟩ := inRange_signed k i h
    cases k <;> simp [IntKind.signed] at hs <;> simp only [IntKind.bits, Nat.reduceSub, Int.reducePow] at h1 h2 <;>
      simp only [decode, encode]
    · rw [rI64_wI64 p i ⟨by omega, by omega⟩]; rfl
    · rw [rI8_wI8 p i ⟨by omega, by omega⟩]; rfl
    · rw [rI16_wI16 p i ⟨by omega, by omega⟩]; rfl
    · rw [rI32_wI32 p i ⟨by omega, by omega⟩]; rfl
    · rw [rI64_wI64 p i ⟨by omega, by omega⟩]; rfl
  | .f32, v, h | .f64, v, h => by
    intro d fuel rest cur hd hf
    cases v <;> simp [RT] at h
    simp only [fuelD] at hf
    obtain ⟨f, rfl⟩ : ∃ f, fuel = f + 1 := ⟨fuel - 1, by omega⟩
    simp only [decode, encode, rDouble_wDouble p _ h, Res.bind]
  | .str, v, h | .bytes, v, h => by
    intro d fuel rest cur hd hf
    cases v <;> simp [RT] at h
    simp only [fuelD] at hf
    obtain ⟨f, rfl⟩ : ∃ f, fuel = f + 1 := ⟨fuel - 1, by omega⟩
    simp only [decode, encode, rBytes_wBytes p _ h, Res.bind]
  | .slice t, v, h => by
    intro d fuel rest cur hd hf
    rw [RT_slice] at h
    rw [fuelD_slice] at hf
    rw [nest_slice] at hd
    obtain ⟨f, rfl⟩ : ∃ f, fuel = f + 1 := ⟨fuel - 1, by split at hf <;> (try split at hf) <;> omega⟩
    rw [decode_slice, encode_slice]
    by_cases hu : isU8 t = true
    · simp only [hu, if_true] at h hf ⊢
      cases v <;> simp at h
      simp only [rBytes_wBytes p _ h, Res.bind]
    · simp only [hu, Bool.false_eq_true, if_false, Bool.and_eq_true] at h hf hd ⊢
      obtain ⟨hreal, h⟩ := h
      have htd : tooDeep d = false := tooDeep_false d (by omega)
      cases v <;> simp only [Bool.false_eq_true] at h
      rename_i vs
      simp only [Bool.and_eq_true, decide_eq_true_eq] at h hf ⊢
      obtain ⟨hlen, hall⟩ := h
      rw [List.append_assoc, rList_wList p _ _ hreal hlen]
      have hnt : (typeOf t == TType.true_) = false := by simpa using typeOf_ne_true t
      simp only [Res.bind, hnt, Bool.false_eq_true, if_false, bne_self_eq_false, htd]
      rw [length_toList vs]
      rw [decodeList_elems p strict (d + 1) t (fuelD t) vs.toList
        (fun a ha fuel rest cur hfa =>
          decode_encode p strict t a (all_toList _ _ hall a ha) (d + 1) fuel rest cur (by omega) hfa)
        f rest [] (by omega)]
      simp [ofList_toList]
  | .ptr t, v, h => by
    intro d fuel rest cur hd hf
    cases v <;> simp only [RT, Bool.false_eq_true] at h
    rename_i x
    simp only [fuelD] at hf
    obtain ⟨f, rfl⟩ : ∃ f, fuel = f + 1 := ⟨fuel - 1, by omega⟩
    simp only [encode]
    simp only [nest] at hd
    cases cur <;> simp only [decode] <;> rw [decode_encode p strict t x h d f rest _ hd (by omega)] <;> rfl
  | .named _ t, v, h => by
    intro d fuel rest cur hd hf
    simp only [RT, fuelD] at h hf
    obtain ⟨f, rfl⟩ : ∃ f, fuel = f + 1 := ⟨fuel - 1, by omega⟩
    simp only [decode, encode]
    simp only [nest] at hd
    exact decode_encode p strict t v h d f rest cur hd (by omega)
  | .map _ _, _, h | .struct _, _, h | .arr _ _, _, h | .any, _, h => by simp [RT] at h

end Enc.Lemmas.ThriftSkip
