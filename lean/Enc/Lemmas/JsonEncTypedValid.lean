import Enc.Lemmas.JsonRtTypedUnsortedModel
import Enc.Lemmas.JsonRTValue
import Enc.Lemmas.JsonValid
import Enc.Lemmas.JsonRtTypedLeaf
import Enc.Lemmas.JsonRawEmitLeaf
/-!
# The typed encoder's output is valid JSON — for every well-typed value, sorted or unsorted map keys

`floatsNum sc v` — every float text that is written for `v` (strconv's digits after the ES6 clean-up, `floatText`) is a number
of the RFC 8259 grammar; this is the only thing about strconv the result depends on. All other leaves are valid by
construction.

* `encSpecU_valText` — the specification encoder with ANY rearrangement of the map members writes a complete value text of
  nesting depth at most `depthV v`;
* `encodeTyped_valid` — hence whatever the encoder model returns for a well-typed value nested at most 10000 deep is accepted
  by `Valid`.
-/
namespace Enc.Lemmas.JsonEncTypedValid
open Enc Enc.Model.Json Enc.Model.Json.Typed
open Enc.Spec.Json (floatText numberText arrText objText joinWith appendString intString nullT boolText bytesOf consOpt
  number digit depthV depthVs depthMs depthG depthGs depthGm)
open Enc.Lemmas.JsonRtTypedU
open Enc.Lemmas.JsonEncTyped (okE OrdPerm ScShape wt)
open Enc.Lemmas.JsonRTValue (ValText KeyText Term NumEnd valText_scalar valText_null valText_true valText_false valText_int
  valText_string valText_quoted b64_plain valText_arr valText_obj keyText_appendString digit_chain digit_startOK memText)
open Enc.Lemmas.JsonDecAnyRtInt (noNumCont)

/-! ### the hypothesis about strconv -/

/-- a written float text is a number of the grammar (an error writes nothing) -/
def floatOK (sc : Strconv) (lit : Bytes) : Bool :=
  match floatText sc lit with
  | some x => number x == some []
  | none => true

mutual
def floatsNumG (sc : Strconv) : GV → Bool
  | .num lit .f64 => floatOK sc lit
  | .arr vs => floatsNumGs sc vs
  | .obj ms => floatsNumGm sc ms
  | _ => true
def floatsNumGs (sc : Strconv) : GVs → Bool
  | .nil => true
  | .cons v r => floatsNumG sc v && floatsNumGs sc r
def floatsNumGm (sc : Strconv) : GMs → Bool
  | .nil => true
  | .cons _ v r => floatsNumG sc v && floatsNumGm sc r
end

mutual
def floatsNum (sc : Strconv) : JV → Bool
  | .float lit => floatOK sc lit
  | .slice _ vs _ => floatsNums sc vs
  | .array vs => floatsNums sc vs
  | .map _ ms => floatsNumMs sc ms
  | .ptr _ v => floatsNum sc v
  | .strct vs => floatsNums sc vs
  | .anyv g => floatsNumG sc g
  | .anyp _ _ v => floatsNum sc v
  | _ => true
def floatsNums (sc : Strconv) : JVs → Bool
  | .nil => true
  | .cons v r => floatsNum sc v && floatsNums sc r
def floatsNumMs (sc : Strconv) : JMs → Bool
  | .nil => true
  | .cons _ v r => floatsNum sc v && floatsNumMs sc r
end

/-! ### number literals -/

theorem noNumCont_of_numEnd {rest : Bytes} (h : NumEnd rest) : noNumCont rest := by
  cases rest with
  | nil => trivial
  | cons c t => exact h c t rfl

/-- a number of the grammar is a complete value text -/
theorem valText_numLit (l : Bytes) (h : number l = some []) : ValText 0 l := by
  obtain ⟨c, t, rfl, hc⟩ := Lemmas.JsonRtTyped.numLit_head h
  have hc' : digit c = true ∨ c = 0x2d := hc.symm
  obtain ⟨h1, h2, h3⟩ := digit_startOK hc'
  apply valText_scalar c t h2 h3 h1
  intro rest ht
  rw [digit_chain hc']
  have := Lemmas.JsonRawEmitLeaf.number_ext rest (noNumCont_of_numEnd ht.numEnd) h
  simpa using this

theorem valText_float (sc : Strconv) (lit x : Bytes) (hf : floatOK sc lit = true) (h : floatText sc lit = some x) :
    ValText 0 x := by
  simp only [floatOK, h, beq_iff_eq] at hf
  exact valText_numLit x hf

theorem valText_numberText (n y : Bytes) (h : numberText n = some y) : ValText 0 y := by
  unfold numberText at h
  dsimp only at h
  by_cases hn : (number (if n.isEmpty = true then [0x30] else n) == some []) = true
  · rw [if_pos hn] at h
    simp only [Option.some.injEq] at h; subst h
    exact valText_numLit _ (by simpa using hn)
  · rw [if_neg hn] at h; cases h

theorem valText_boolText (b : Bool) : ValText 0 (boolText b) := by
  cases b
  · exact valText_false
  · exact valText_true

/-! ### containers -/

theorem valText_arrText (D : Nat) (xs : List Bytes) (hx : ∀ x ∈ xs, ValText D x) : ValText (D + 1) (arrText xs) :=
  valText_arr D xs hx

theorem valText_objText (D : Nat) (ps : List (Bytes × Bytes)) (hp : ∀ p ∈ ps, KeyText p.1 ∧ ValText D p.2) :
    ValText (D + 1) (objText ps) :=
  valText_obj D ps hp

/-- a map node, members in any rearranged order -/
theorem valText_mapTextU (html : Bool) (so : MemOrd) (hso : SoPerm so) (D : Nat) (l : List (Bytes × Bytes))
    (hl : ∀ p ∈ l, ValText D p.2) : ValText (D + 1) (mapTextU html so l) := by
  unfold mapTextU
  apply valText_objText
  intro p hp
  obtain ⟨q, hq, rfl⟩ := List.mem_map.mp hp
  exact ⟨keyText_appendString q.1 html, hl q ((hso l).mem_iff.mp hq)⟩

/-! ### `consOpt` -/

theorem consOpt_some {α : Type} {a : Option α} {b : Option (List α)} {l : List α} (h : consOpt a b = some l) :
    ∃ x xs, a = some x ∧ b = some xs ∧ l = x :: xs := by
  cases a with
  | none => simp [consOpt] at h
  | some x =>
    cases b with
    | none => simp [consOpt] at h
    | some xs => simp only [consOpt, Option.some.injEq] at h; exact ⟨x, xs, rfl, rfl, h.symm⟩

theorem map_some' {α β : Type} {f : α → β} {a : Option α} {y : β} (h : a.map f = some y) : ∃ x, a = some x ∧ y = f x := by
  cases a with
  | none => cases h
  | some x => simp only [Option.map_some, Option.some.injEq] at h; exact ⟨x, rfl, h.symm⟩

/-! ### interface values -/

mutual
theorem genericTextU_valText (sc : Strconv) (html : Bool) (so : MemOrd) (hso : SoPerm so) : (g : GV) → (x : Bytes) →
    floatsNumG sc g = true → genericTextU sc html so g = some x → ValText (depthG g) x
  | .null, x, _, h => by
    simp only [genericTextU, Option.some.injEq] at h; subst h; exact valText_null
  | .bool b, x, _, h => by
    simp only [genericTextU, Option.some.injEq] at h; subst h; exact valText_boolText b
  | .num lit .f64, x, hf, h => by
    simp only [genericTextU] at h; simp only [floatsNumG] at hf
    exact valText_float sc lit x hf h
  | .num lit .num, x, _, h => by
    simp only [genericTextU] at h
    exact valText_numberText lit x h
  | .num _ .i64, x, _, h => by simp [genericTextU] at h
  | .num _ .u64, x, _, h => by simp [genericTextU] at h
  | .num _ .big, x, _, h => by simp [genericTextU] at h
  | .str s, x, _, h => by
    simp only [genericTextU, Option.some.injEq] at h; subst h; exact valText_string s html
  | .arr vs, x, hf, h => by
    simp only [genericTextU] at h; simp only [floatsNumG] at hf
    obtain ⟨xs, hxs, rfl⟩ := map_some' h
    simp only [depthG]
    exact valText_arrText _ xs (genericTextsU_valText sc html so hso vs xs hf hxs)
  | .obj ms, x, hf, h => by
    simp only [genericTextU] at h; simp only [floatsNumG] at hf
    obtain ⟨l, hl, rfl⟩ := map_some' h
    simp only [depthG]
    exact valText_mapTextU html so hso _ l (genericMembersU_valText sc html so hso ms l hf hl)
theorem genericTextsU_valText (sc : Strconv) (html : Bool) (so : MemOrd) (hso : SoPerm so) : (vs : GVs) → (xs : List Bytes) →
    floatsNumGs sc vs = true → genericTextsU sc html so vs = some xs → ∀ x ∈ xs, ValText (depthGs vs) x
  | .nil, xs, _, h => by
    simp only [genericTextsU, Option.some.injEq] at h; subst h; intro x hx; cases hx
  | .cons v r, xs, hf, h => by
    simp only [genericTextsU] at h
    simp only [floatsNumGs, Bool.and_eq_true] at hf
    obtain ⟨y, ys, h1, h2, rfl⟩ := consOpt_some h
    intro x hx
    simp only [depthGs]
    rcases List.mem_cons.mp hx with rfl | hx
    · exact (genericTextU_valText sc html so hso v x hf.1 h1).mono (Nat.le_max_left _ _)
    · exact (genericTextsU_valText sc html so hso r ys hf.2 h2 x hx).mono (Nat.le_max_right _ _)
theorem genericMembersU_valText (sc : Strconv) (html : Bool) (so : MemOrd) (hso : SoPerm so) : (ms : GMs) →
    (l : List (Bytes × Bytes)) → floatsNumGm sc ms = true → genericMembersU sc html so ms = some l →
    ∀ p ∈ l, ValText (depthGm ms) p.2
  | .nil, l, _, h => by
    simp only [genericMembersU, Option.some.injEq] at h; subst h; intro x hx; cases hx
  | .cons k v r, l, hf, h => by
    simp only [genericMembersU] at h
    simp only [floatsNumGm, Bool.and_eq_true] at hf
    obtain ⟨q, qs, h1, h2, rfl⟩ := consOpt_some h
    obtain ⟨y, hy, rfl⟩ := map_some' h1
    intro p hp
    simp only [depthGm]
    rcases List.mem_cons.mp hp with rfl | hp
    · exact (genericTextU_valText sc html so hso v y hf.1 hy).mono (Nat.le_max_left _ _)
    · exact (genericMembersU_valText sc html so hso r qs hf.2 h2 p hp).mono (Nat.le_max_right _ _)
end

/-! ### typed values -/

mutual
/-- the specification encoder, map members in any rearranged order, writes a complete value text of depth ≤ `depthV v` -/
theorem encSpecU_valText (sc : Strconv) (html : Bool) (so : MemOrd) (hso : SoPerm so) : (v : JV) → (t : JT) → (x : Bytes) →
    floatsNum sc v = true → encSpecU sc html so t v = some x → ValText (depthV v) x
  | .bool b, t, x, _, h => by
    cases t with
    | bool => simp only [encSpecU, Option.some.injEq] at h; subst h; exact valText_boolText b
    | _ => simp [encSpecU] at h
  | .int i, t, x, _, h => by
    cases t with
    | int w => simp only [encSpecU, Option.some.injEq] at h; subst h; exact valText_int i
    | _ => simp [encSpecU] at h
  | .float lit, t, x, hf, h => by
    cases t with
    | float =>
      simp only [encSpecU] at h; simp only [floatsNum] at hf
      exact valText_float sc lit x hf h
    | _ => simp [encSpecU] at h
  | .str s, t, x, _, h => by
    cases t with
    | str => simp only [encSpecU, Option.some.injEq] at h; subst h; exact valText_string s html
    | _ => simp [encSpecU] at h
  | .slice isNil vs stale, t, x, hf, h => by
    cases t with
    | slice e =>
      simp only [encSpecU] at h; simp only [floatsNum] at hf
      cases isNil with
      | true =>
        simp only [if_true, Option.some.injEq] at h; subst h
        exact valText_null.mono (Nat.zero_le _)
      | false =>
        simp only [Bool.false_eq_true, if_false] at h
        simp only [depthV, Bool.false_eq_true, if_false]
        split at h
        · simp only [Option.some.injEq] at h; subst h
          exact (valText_quoted _ (b64_plain _)).mono (Nat.zero_le _)
        · obtain ⟨xs, hxs, rfl⟩ := map_some' h
          exact valText_arrText _ xs (encSpecsU_valText sc html so hso vs e xs hf hxs)
    | _ => simp [encSpecU] at h
  | .array vs, t, x, hf, h => by
    cases t with
    | array n e =>
      simp only [encSpecU] at h; simp only [floatsNum] at hf
      obtain ⟨xs, hxs, rfl⟩ := map_some' h
      simp only [depthV]
      exact valText_arrText _ xs (encSpecsU_valText sc html so hso vs e xs hf hxs)
    | _ => simp [encSpecU] at h
  | .map isNil ms, t, x, hf, h => by
    cases t with
    | mapS e =>
      simp only [encSpecU] at h; simp only [floatsNum] at hf
      cases isNil with
      | true =>
        simp only [if_true, Option.some.injEq] at h; subst h
        exact valText_null.mono (Nat.zero_le _)
      | false =>
        simp only [Bool.false_eq_true, if_false] at h
        simp only [depthV, Bool.false_eq_true, if_false]
        obtain ⟨l, hl, rfl⟩ := map_some' h
        exact valText_mapTextU html so hso _ l (encSpecMsU_valText sc html so hso ms e l hf hl)
    | _ => simp [encSpecU] at h
  | .nilptr, t, x, _, h => by
    cases t with
    | ptr e => simp only [encSpecU, Option.some.injEq] at h; subst h; exact valText_null
    | _ => simp [encSpecU] at h
  | .ptr old v, t, x, hf, h => by
    cases t with
    | ptr e =>
      simp only [encSpecU] at h; simp only [floatsNum] at hf
      simp only [depthV]
      exact encSpecU_valText sc html so hso v e x hf h
    | _ => simp [encSpecU] at h
  | .strct vs, t, x, hf, h => by
    cases t with
    | strct fs =>
      simp only [encSpecU] at h; simp only [floatsNum] at hf
      obtain ⟨ps, hps, rfl⟩ := map_some' h
      simp only [depthV]
      exact valText_objText _ ps (encSpecFsU_valText sc html so hso vs fs ps hf hps)
    | _ => simp [encSpecU] at h
  | .anyv g, t, x, hf, h => by
    cases t with
    | any =>
      simp only [encSpecU] at h; simp only [floatsNum] at hf
      simp only [depthV]
      exact genericTextU_valText sc html so hso g x hf h
    | _ => simp [encSpecU] at h
  | .anyp t' old v, t, x, hf, h => by
    cases t with
    | any =>
      simp only [encSpecU] at h; simp only [floatsNum] at hf
      simp only [depthV]
      exact encSpecU_valText sc html so hso v t' x hf h
    | _ => simp [encSpecU] at h
theorem encSpecsU_valText (sc : Strconv) (html : Bool) (so : MemOrd) (hso : SoPerm so) : (vs : JVs) → (e : JT) →
    (xs : List Bytes) → floatsNums sc vs = true → encSpecsU sc html so e vs = some xs → ∀ x ∈ xs, ValText (depthVs vs) x
  | .nil, e, xs, _, h => by
    simp only [encSpecsU, Option.some.injEq] at h; subst h; intro x hx; cases hx
  | .cons v r, e, xs, hf, h => by
    simp only [encSpecsU] at h
    simp only [floatsNums, Bool.and_eq_true] at hf
    obtain ⟨y, ys, h1, h2, rfl⟩ := consOpt_some h
    intro x hx
    simp only [depthVs]
    rcases List.mem_cons.mp hx with rfl | hx
    · exact (encSpecU_valText sc html so hso v e x hf.1 h1).mono (Nat.le_max_left _ _)
    · exact (encSpecsU_valText sc html so hso r e ys hf.2 h2 x hx).mono (Nat.le_max_right _ _)
theorem encSpecMsU_valText (sc : Strconv) (html : Bool) (so : MemOrd) (hso : SoPerm so) : (ms : JMs) → (e : JT) →
    (l : List (Bytes × Bytes)) → floatsNumMs sc ms = true → encSpecMsU sc html so e ms = some l →
    ∀ p ∈ l, ValText (depthMs ms) p.2
  | .nil, e, l, _, h => by
    simp only [encSpecMsU, Option.some.injEq] at h; subst h; intro x hx; cases hx
  | .cons k v r, e, l, hf, h => by
    simp only [encSpecMsU] at h
    simp only [floatsNumMs, Bool.and_eq_true] at hf
    obtain ⟨q, qs, h1, h2, rfl⟩ := consOpt_some h
    obtain ⟨y, hy, rfl⟩ := map_some' h1
    intro p hp
    simp only [depthMs]
    rcases List.mem_cons.mp hp with rfl | hp
    · exact (encSpecU_valText sc html so hso v e y hf.1 hy).mono (Nat.le_max_left _ _)
    · exact (encSpecMsU_valText sc html so hso r e qs hf.2 h2 p hp).mono (Nat.le_max_right _ _)
theorem encSpecFsU_valText (sc : Strconv) (html : Bool) (so : MemOrd) (hso : SoPerm so) : (vs : JVs) → (fs : JFs) →
    (ps : List (Bytes × Bytes)) → floatsNums sc vs = true → encSpecFsU sc html so fs vs = some ps →
    ∀ p ∈ ps, KeyText p.1 ∧ ValText (depthVs vs) p.2
  | .nil, fs, ps, _, h => by
    cases fs with
    | nil => simp only [encSpecFsU, Option.some.injEq] at h; subst h; intro x hx; cases hx
    | cons n t fr => simp [encSpecFsU] at h
  | .cons v r, fs, ps, hf, h => by
    cases fs with
    | nil => simp [encSpecFsU] at h
    | cons n t fr =>
      simp only [encSpecFsU] at h
      simp only [floatsNums, Bool.and_eq_true] at hf
      obtain ⟨q, qs, h1, h2, rfl⟩ := consOpt_some h
      obtain ⟨y, hy, rfl⟩ := map_some' h1
      intro p hp
      simp only [depthVs]
      rcases List.mem_cons.mp hp with rfl | hp
      · exact ⟨keyText_appendString n html, (encSpecU_valText sc html so hso v t y hf.1 hy).mono (Nat.le_max_left _ _)⟩
      · exact ⟨(encSpecFsU_valText sc html so hso r fr qs hf.2 h2 p hp).1,
          (encSpecFsU_valText sc html so hso r fr qs hf.2 h2 p hp).2.mono (Nat.le_max_right _ _)⟩
end

/-! ### the top level -/

theorem validStd_of_valText {d : Nat} {x : Bytes} (hv : ValText d x) (hd : d ≤ 10000) : Spec.Json.validStd x = true := by
  unfold Spec.Json.validStd
  have hw := hv.head.ws []
  rw [List.append_nil] at hw
  have := hv.value (3 * x.length + 8) 10000 [] (by omega) hd Term.nil
  rw [List.append_nil] at this
  rw [hw, this]; rfl

/-- **the typed encoder's output is valid JSON**: whatever the encoder model (HTML escaping on or off, SortMapKeys on or off,
any iteration order of the runtime) returns for a well-typed value nested at most 10000 deep, all of whose written float
texts are numbers of the grammar, is accepted by `Valid` -/
theorem encodeTyped_valid (sc : Strconv) (hsc : ScShape sc) (html sortKeys : Bool) (ord : MapOrd) (hord : OrdPerm ord)
    (t : JT) (v : JV) (x : Bytes) (h : wt t v = true) (hfl : floatsNum sc v = true) (hd : Spec.Json.depthV v ≤ 10000)
    (hx : encodeTyped sc html sortKeys ord t v = .ok x) : Model.Json.valid x = true := by
  have he := encodeTyped_eq_specU sc hsc html sortKeys ord hord t v h
  rw [hx] at he
  have hv := encSpecU_valText sc html (soOf sortKeys ord) (soOf_perm sortKeys ord hord) v t x hfl he.symm
  rw [Enc.Lemmas.JsonValid.valid_eq_validStd]
  exact validStd_of_valText hv hd

/-! ### non-vacuity -/

/-- a strconv parameter of the trusted shape (every float is 0) -/
def scZero : Strconv := fun _ =>
  { cmp := ⟨false, false, false, true, false, true, false⟩, digitsF := [0x30], digitsE := [0x30, 0x65, 0x2b, 0x30, 0x30] }

theorem scZero_shape : ScShape scZero := by
  intro lit
  constructor
  · show StrconvShape .f [0x30]; decide
  · show StrconvShape .e [0x30, 0x65, 0x2b, 0x30, 0x30]; decide

/-- struct { A map[string]float64 (two members); B any = []any{0.0, json.Number("12"), map[string]any{"k": nil}}; C []byte } -/
def tEx : JT := .strct (.cons [0x41] (.mapS .float) (.cons [0x42] .any (.cons [0x43] (.slice (.int .u8)) .nil)))
def vEx : JV := .strct (.cons (.map false (.cons [0x61] (.float [0x30]) (.cons [0x62] (.float [0x30]) .nil)))
  (.cons (.anyv (.arr (.cons (.num [0x30] .f64) (.cons (.num [0x31, 0x32] .num) (.cons (.obj (.cons [0x6b] .null .nil)) .nil)))))
  (.cons (.slice false (.cons (.int 1) .nil) .nil) .nil)))

example : floatsNum scZero vEx = true := by decide
example : wt tEx vEx = true ∧ floatsNum scZero vEx = true ∧ depthV vEx ≤ 10000 := by decide +kernel
/-- SortMapKeys off, the runtime iterating in reverse: `b` is written before `a`; the theorem applies -/
example : encodeTyped scZero false false List.reverse tEx vEx = .ok
    [0x7b, 0x22, 0x41, 0x22, 0x3a, 0x7b, 0x22, 0x62, 0x22, 0x3a, 0x30, 0x2c, 0x22, 0x61, 0x22, 0x3a, 0x30, 0x7d, 0x2c,
     0x22, 0x42, 0x22, 0x3a, 0x5b, 0x30, 0x2c, 0x31, 0x32, 0x2c, 0x7b, 0x22, 0x6b, 0x22, 0x3a, 0x6e, 0x75, 0x6c, 0x6c, 0x7d, 0x5d, 0x2c,
     0x22, 0x43, 0x22, 0x3a, 0x22, 0x41, 0x51, 0x3d, 0x3d, 0x22, 0x7d] := by decide +kernel
example (x : Bytes) (hx : encodeTyped scZero false false List.reverse tEx vEx = .ok x) : Model.Json.valid x = true :=
  encodeTyped_valid scZero scZero_shape false false List.reverse (fun l => List.reverse_perm l) tEx vEx x
    (by decide +kernel) (by decide +kernel) (by decide +kernel) hx
/-- the hypothesis is needed: a strconv that delivers `x` as digits makes the encoder write an invalid text -/
example : floatsNum (fun _ => { cmp := ⟨false, false, false, true, false, true, false⟩, digitsF := [0x78], digitsE := [0x78] })
    (.float [0x30]) = false := by decide +kernel

#print axioms encSpecU_valText
#print axioms encodeTyped_valid

end Enc.Lemmas.JsonEncTypedValid
