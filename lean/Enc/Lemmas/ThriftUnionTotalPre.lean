import Enc.Lemmas.ThriftTotal
import Enc.Lemmas.ThriftUnionDec
/-!
C08 for the thrift model WITH UNIONS (`Enc.Model.ThriftUnion`), part 1: `decodeU`, `decodeListU`, `decodeSetU`,
`decodeMapU`, `decodeStructU` are prefix readers (framework `Pre` of `ThriftTotalBase`) for EVERY input, every type — unions
nested anywhere —, every fuel, strict or not, every current target value. The union branch only changes the VALUES handed to
the next iteration (`resetTo zero vs`, `lastF := some fd.pos`); what is read from the input is what the union-free decoder
reads, so the architecture of `ThriftTotalDecode` carries over unchanged.
-/
namespace Enc.Lemmas.ThriftUnionTotal
open Enc Enc.Model.Thrift Enc.Lemmas.ThriftPrim Enc.Lemmas.ThriftSkip Enc.Lemmas.ThriftTotal Enc.Lemmas.ThriftUnion

/-- one iteration of the struct loop, with `readStruct`'s error mapping spelled as `wrapE` -/
theorem decodeStructU_succ (p : Proto) (strict : Bool) (d fuel : Nat) (descs : List FieldDesc) (zero : Option Vals)
    (b : Bytes) (vs : Vals) (last : Int) (num : Nat) (seen : List Int) (lastF : Option Nat) :
    decodeStructU p strict d (fuel + 1) descs zero b vs last num seen lastF =
      (wrapE (decide (0 < num)) (rField p b)).bind fun ((h, r) : FieldHdr × Bytes) =>
        if h.t == .stop then (if h.delta then .err "deltaStop" else .ok ((vs, seen, lastF), r))
        else
          match findById descs (wrap16 (if h.delta then h.id + last else h.id)) with
          | none =>
            (dontExpectEOF (if (h.t == .true_ || h.t == .bool) && p.coalesce then (.ok ((), r) : R Unit)
              else skip p d fuel h.t r)).bind fun ((_, r) : Unit × Bytes) =>
                decodeStructU p strict d fuel descs zero r vs (wrap16 (if h.delta then h.id + last else h.id)) (num + 1)
                  seen lastF
          | some fd =>
            if h.t != typeOf fd.ty && !(h.t == .true_ && typeOf fd.ty == .bool) then
              if strict then .err "typeMismatch"
              else
                (dontExpectEOF (if (h.t == .true_ || h.t == .bool) && p.coalesce then (.ok ((), r) : R Unit)
                  else skip p d fuel h.t r)).bind fun ((_, r) : Unit × Bytes) =>
                    decodeStructU p strict d fuel descs zero r vs (wrap16 (if h.delta then h.id + last else h.id))
                      (num + 1) (wrap16 (if h.delta then h.id + last else h.id) :: seen) lastF
            else if p.coalesce && (h.t == .true_ || h.t == .bool) then
              decodeStructU p strict d fuel descs zero r
                (Vals.set (resetTo zero vs) fd.pos (wrapPtr fd.ty (.bool (h.t == .true_))))
                (wrap16 (if h.delta then h.id + last else h.id)) (num + 1)
                (wrap16 (if h.delta then h.id + last else h.id) :: seen) (some fd.pos)
            else
              (dontExpectEOF
                (if fd.enum then
                  (match baseOf fd.ty with
                   | .int k => (rI32 p r).bind fun ((x, r) : Int × Bytes) =>
                      (.ok (wrapPtr fd.ty (.int (wrapTo k.bits x)), r) : R Val)
                   | _ => decodeU p strict d fuel fd.ty r (Vals.get (resetTo zero vs) fd.pos))
                else decodeU p strict d fuel fd.ty r (Vals.get (resetTo zero vs) fd.pos))).bind
                  fun ((v, r) : Val × Bytes) =>
                  decodeStructU p strict d fuel descs zero r (Vals.set (resetTo zero vs) fd.pos v)
                    (wrap16 (if h.delta then h.id + last else h.id)) (num + 1)
                    (wrap16 (if h.delta then h.id + last else h.id) :: seen) (some fd.pos) := by
  rw [decodeStructU]
  cases hr : rField p b with
  | ok hr' => obtain ⟨h, r⟩ := hr'; simp only [wrapE_ok]; rfl
  | err e =>
    simp only [wrapE_err, Res.bind]; cases (decide (0 < num)) <;> simp [wrapE, dontExpectEOF_err] <;> split <;> rfl
  | panic e => simp only [wrapE_panic, Res.bind]

/-- the end of `structDecoder.decode` (required-fields check, `v.FieldByIndex(dec.union).Set(lastField.Addr())`) reads
nothing -/
theorem pure_structEnd (descs : List FieldDesc) (up : Option Nat) :
    Pure (fun (x : StructOut × Bytes) =>
      (if descs.any (fun fd => fd.required && !x.1.2.1.contains fd.id) then .err "missingField"
       else
         match up, x.1.2.2 with
         | some u, some k => .ok (.struct (Vals.set x.1.1 u (.ptr (.int k))), x.2)
         | _, _ => .ok (.struct x.1.1, x.2) : R Val)) := by
  intro a r w r2 h
  obtain ⟨vs', seen, lastF⟩ := a
  dsimp only at h ⊢
  split at h
  · cases h
  · rename_i hc
    simp only [hc]
    split at h <;> simp_all

theorem decodeU_all (p : Proto) (strict : Bool) : ∀ fuel,
    (∀ d ty cur, Pre true PS (fun b => decodeU p strict d fuel ty b cur)) ∧
    (∀ d et n acc, Pre false PU (fun b => decodeListU p strict d fuel et n b acc)) ∧
    (∀ d kt n acc, Pre false PU (fun b => decodeSetU p strict d fuel kt n b acc)) ∧
    (∀ d kt vt n acc, Pre false PU (fun b => decodeMapU p strict d fuel kt vt n b acc)) ∧
    (∀ d descs zero vs last num seen lastF,
      Pre true (PStruct num) (fun b => decodeStructU p strict d fuel descs zero b vs last num seen lastF)) := by
  intro fuel
  induction fuel with
  | zero =>
    refine ⟨fun d ty cur => ?_, fun d et n acc => ?_, fun d kt n acc => ?_, fun d kt vt n acc => ?_,
      fun d descs zero vs last num seen lastF => ?_⟩
    · simp only [decodeU]; exact Pre.err _
    · simp only [decodeListU]; exact Pre.err _
    · simp only [decodeSetU]; exact Pre.err _
    · simp only [decodeMapU]; exact Pre.err _
    · simp only [decodeStructU]; exact Pre.err _
  | succ fuel ih =>
    obtain ⟨ih1, ih2, ih3, ih4, ih5⟩ := ih
    have ih1W : ∀ d ty cur, Pre false PW (fun b => decodeU p strict d fuel ty b cur) :=
      fun d ty cur => (ih1 d ty cur).toPW.weaken
    have ih5U : ∀ d descs zero vs last num seen lastF,
        Pre false PU (fun b => decodeStructU p strict d fuel descs zero b vs last (num + 1) seen lastF) := by
      intro d descs zero vs last num seen lastF
      have := ih5 d descs zero vs last (num + 1) seen lastF
      rw [PStruct_succ] at this
      exact this.weaken
    refine ⟨fun d ty cur => ?_, fun d et n acc => ?_, fun d kt n acc => ?_, fun d kt vt n acc => ?_,
      fun d descs zero vs last num seen lastF => ?_⟩
    · -- decodeU
      cases ty with
      | bool | f32 | f64 | str | bytes | any =>
        simp only [decodeU]; exact pre_decode p strict d (fuel + 1) _ cur
      | int k => cases k <;> simp only [decodeU] <;> exact pre_decode p strict d (fuel + 1) _ cur
      | arr n t => simp only [decodeU]; exact pre_decode p strict d (fuel + 1) _ cur
      | slice et =>
        refine Pre.congr ?_ (fun b => decodeU_slice p strict d fuel et b cur)
        by_cases hu : isU8 et = true
        · simp only [hu, if_true]
          exact pre_decode p strict d (fuel + 1) _ cur
        · simp only [hu, Bool.false_eq_true, if_false]
          refine Pre.bind_first (pre_rList p) (fun a => ?_) PS_pos
          dsimp +instances only
          apply Pre.ite
          · intro _
            apply Pre.ite
            · exact fun _ => Pre.err _
            · exact fun _ => (pre_skipN p (d + 1) fuel _ a.2).thenConst _
          · intro _
            apply Pre.ite
            · exact fun _ => Pre.err _
            · exact fun _ => ih2 (d + 1) et a.2 []
      | map kt vt =>
        simp only [decodeU]
        apply Pre.ite
        · intro _
          refine Pre.bind_first (pre_rList p) (fun a => ?_) PS_pos
          dsimp +instances only
          apply Pre.ite
          · exact fun _ => Pre.pure _
          · intro _
            apply Pre.ite
            · intro _
              apply Pre.ite
              · exact fun _ => Pre.err _
              · exact fun _ => (pre_skipN p (d + 1) fuel _ a.2).thenConst _
            · intro _
              apply Pre.ite
              · exact fun _ => Pre.err _
              · exact fun _ => ih3 (d + 1) kt a.2 .nil
        · intro _
          refine Pre.bind_first (pre_rMap p) (fun a => ?_) PS_pos
          dsimp +instances only
          apply Pre.ite
          · exact fun _ => Pre.pure _
          · intro _
            apply Pre.ite
            · intro _
              apply Pre.ite
              · exact fun _ => Pre.err _
              · exact fun _ => (pre_skipPairs p (d + 1) fuel _ _ a.2.2).thenConst _
            · intro _
              apply Pre.ite
              · intro _
                apply Pre.ite
                · exact fun _ => Pre.err _
                · exact fun _ => (pre_skipPairs p (d + 1) fuel _ _ a.2.2).thenConst _
              · intro _
                apply Pre.ite
                · exact fun _ => Pre.err _
                · exact fun _ => ih4 (d + 1) kt vt a.2.2 .nil
      | struct fs =>
        cases cur with
        | struct vs =>
          refine Pre.congr ?_ (fun b => decodeU_struct p strict d fuel fs b vs)
          refine Pre.ite (fun _ => Pre.err _) (fun _ => ?_)
          have := ih5 (d + 1) (fieldDescs fs) ((unionPos fs 0).map fun _ => zeroFields fs) vs 0 0 [] none
          have e : PStruct 0 = PS := by unfold PStruct; simp
          rw [e] at this
          exact Pre.bind_post this (pure_structEnd (fieldDescs fs) (unionPos fs 0))
        | _ =>
          simp only [decodeU]
          exact Pre.ite (fun _ => Pre.err _) (fun _ => Pre.err _)
      | ptr et =>
        cases cur <;> simp only [decodeU] <;> exact Pre.bind_post (ih1 d et _) (by pure_tac)
      | named nm t' =>
        simp only [decodeU]
        exact ih1 d t' cur
    · -- decodeListU
      cases n with
      | zero => simp only [decodeListU]; exact Pre.pure _
      | succ n =>
        simp only [decodeListU]
        exact Pre.seqU (Pre.dontExpect (ih1W d et _)) (fun a => by dsimp +instances only; exact ih2 d et n _)
    · cases n with
      | zero => simp only [decodeSetU]; exact Pre.pure _
      | succ n =>
        simp only [decodeSetU]
        exact Pre.seqU (Pre.dontExpect (ih1W d kt _)) (fun a => by dsimp +instances only; exact ih3 d kt n _)
    · cases n with
      | zero => simp only [decodeMapU]; exact Pre.pure _
      | succ n =>
        simp only [decodeMapU]
        refine Pre.seqU (Pre.dontExpect (ih1W d kt _)) (fun k => ?_)
        dsimp +instances only
        exact Pre.seqU (Pre.dontExpect (ih1W d vt _)) (fun v => by dsimp +instances only; exact ih4 d kt vt n _)
    · -- decodeStructU
      refine Pre.congr ?_ (fun b => decodeStructU_succ p strict d fuel descs zero b vs last num seen lastF)
      refine Pre.bind_first (pre_wrapE_rField p num) (fun h => ?_) (PStruct_pos num)
      dsimp +instances only
      apply Pre.ite
      · intro _
        apply Pre.ite
        · exact fun _ => Pre.err _
        · exact fun _ => Pre.pure _
      · intro _
        generalize findById descs (wrap16 (if h.delta = true then h.id + last else h.id)) = od
        cases od with
        | none =>
          dsimp +instances only
          refine Pre.seqU (ne := false) (Pre.dontExpect ?_) (fun _ => ih5U d _ _ _ _ _ _ _)
          apply Pre.ite
          · exact fun _ => Pre.pure _
          · exact fun _ => (pre_skip p d fuel h.t).toPW.weaken
        | some fd =>
          dsimp +instances only
          apply Pre.ite
          · intro _
            apply Pre.ite
            · exact fun _ => Pre.err _
            · intro _
              refine Pre.seqU (ne := false) (Pre.dontExpect ?_) (fun _ => ih5U d _ _ _ _ _ _ _)
              apply Pre.ite
              · exact fun _ => Pre.pure _
              · exact fun _ => (pre_skip p d fuel h.t).toPW.weaken
          · intro _
            apply Pre.ite
            · exact fun _ => ih5U d _ _ _ _ _ _ _
            · intro _
              refine Pre.seqU (ne := false) (Pre.dontExpect ?_)
                (fun _ => by dsimp +instances only; exact ih5U d _ _ _ _ _ _ _)
              apply Pre.ite
              · intro _
                generalize baseOf fd.ty = bt
                cases bt <;> dsimp +instances only <;>
                  first
                    | exact ih1W d _ _
                    | exact (Pre.bind_post (pre_rI32 p) (by pure_tac)).toPW.weaken
              · exact fun _ => ih1W d _ _

variable (p : Proto) (strict : Bool) (d fuel : Nat)

theorem pre_decodeU (ty : Ty) (cur : Val) : Pre true PS (fun b => decodeU p strict d fuel ty b cur) :=
  (decodeU_all p strict fuel).1 d ty cur
theorem pre_decodeListU (et : Ty) (n : Nat) (acc : List Val) :
    Pre false PU (fun b => decodeListU p strict d fuel et n b acc) :=
  (decodeU_all p strict fuel).2.1 d et n acc
theorem pre_decodeSetU (kt : Ty) (n : Nat) (acc : Vals) :
    Pre false PU (fun b => decodeSetU p strict d fuel kt n b acc) :=
  (decodeU_all p strict fuel).2.2.1 d kt n acc
theorem pre_decodeMapU (kt vt : Ty) (n : Nat) (acc : Vals) :
    Pre false PU (fun b => decodeMapU p strict d fuel kt vt n b acc) :=
  (decodeU_all p strict fuel).2.2.2.1 d kt vt n acc
theorem pre_decodeStructU (descs : List FieldDesc) (zero : Option Vals) (vs : Vals) (last : Int) (num : Nat)
    (seen : List Int) (lastF : Option Nat) :
    Pre true (PStruct num) (fun b => decodeStructU p strict d fuel descs zero b vs last num seen lastF) :=
  (decodeU_all p strict fuel).2.2.2.2 d descs zero vs last num seen lastF

end Enc.Lemmas.ThriftUnionTotal
