import Enc.Lemmas.ProtoScan
/-!
# Lemmas for C07 — `Scan` as a loop over `Parse`: totality, fuel, the fuel-free unfolding, concatenation
-/
namespace Enc.Lemmas.ProtoScan
open Enc Enc.Model.Proto Enc.Model.ProtoScan Enc.Lemmas.ProtoDecode

theorem GoLen.drop {b : Bytes} (h : GoLen b) (n : Nat) : GoLen (b.drop n) := by
  unfold GoLen at *; simp only [List.length_drop]; omega

theorem GoLen.of_append_right {a b : Bytes} (h : GoLen (a ++ b)) : GoLen b := by
  unfold GoLen at *; simp only [List.length_append] at h; omega

theorem GoLen.of_append_left {a b : Bytes} (h : GoLen (a ++ b)) : GoLen a := by
  unfold GoLen at *; simp only [List.length_append] at h; omega

/-! ## Parse: totality, progress, framing -/

theorem parse_ne_panic (m : Bytes) (hm : GoLen m) (e : String) : parse m ≠ .panic e := by
  rw [parse_eq m hm]; exact parseN_ne_panic m e

theorem parse_err (m : Bytes) (hm : GoLen m) (e : String) (h : parse m = .err e) : ParseErr e := by
  rw [parse_eq m hm] at h; exact parseN_err m e h

theorem parse_ok_iff (m : Bytes) (hm : GoLen m) (f t : Nat) (v rest : Bytes) :
    parse m = .ok (f, t, v, rest) ↔ ∃ fld, m = fld ++ rest ∧ IsField f t v fld := by
  rw [parse_eq m hm]; exact parseN_ok_iff m f t v rest

theorem parse_shorter (m : Bytes) (hm : GoLen m) (f t : Nat) (v rest : Bytes) (h : parse m = .ok (f, t, v, rest)) :
    rest.length < m.length ∧ GoLen rest := by
  obtain ⟨fld, rfl, hf⟩ := (parse_ok_iff m hm f t v rest).mp h
  have := hf.pos
  exact ⟨by simp only [List.length_append]; omega, hm.of_append_right⟩

/-! ## the Parse loop -/

theorem parseList_fuel (f1 : Nat) : ∀ (f2 : Nat) (b : Bytes), GoLen b → b.length < f1 → b.length < f2 →
    parseList f1 b = parseList f2 b := by
  induction f1 with
  | zero => intro f2 b _ h; omega
  | succ f1 ih =>
    intro f2 b hb h1 h2
    cases f2 with
    | zero => omega
    | succ f2 =>
      unfold parseList
      split
      · rfl
      · cases hp : parse b with
        | panic e => rfl
        | err e => rfl
        | ok r =>
          obtain ⟨f, t, v, m⟩ := r
          have hs := parse_shorter b hb f t v m hp
          simp only []
          rw [ih f2 m hs.2 (by omega) (by omega)]

/-- the fields enumerated by a loop over `Parse`, without fuel -/
def fields (b : Bytes) : List (Nat × Nat × Bytes) × Res Unit := parseList (b.length + 1) b

theorem fields_nil : fields [] = ([], .ok ()) := by simp [fields, parseList]

theorem fields_unfold (b : Bytes) (hb : GoLen b) (hne : b ≠ []) :
    fields b = match parse b with
      | .panic e => ([], .panic e)
      | .err e => ([], .err e)
      | .ok (f, t, v, m) => ((f, t, v) :: (fields m).1, (fields m).2) := by
  have hl : (b.length == 0) = false := by
    cases b with
    | nil => exact absurd rfl hne
    | cons _ _ => simp
  unfold fields
  rw [parseList]
  simp only [hl, Bool.false_eq_true, if_false]
  cases hp : parse b with
  | panic e => rfl
  | err e => rfl
  | ok r =>
    obtain ⟨f, t, v, m⟩ := r
    have hs := parse_shorter b hb f t v m hp
    simp only []
    rw [parseList_fuel b.length (m.length + 1) m hs.2 hs.1 (by omega)]

theorem fields_ok_cons (f t : Nat) (v fld rest : Bytes) (hb : GoLen (fld ++ rest)) (hf : IsField f t v fld) :
    fields (fld ++ rest) = ((f, t, v) :: (fields rest).1, (fields rest).2) := by
  have hne : fld ++ rest ≠ [] := by
    intro h; have := congrArg List.length h; have := hf.pos; simp only [List.length_append, List.length_nil] at *; omega
  rw [fields_unfold _ hb hne, (parse_ok_iff _ hb f t v rest).mpr ⟨fld, rfl, hf⟩]

/-- `Scan` with the collecting callback is the loop over `Parse` -/
theorem scanLoop_collect (fuel : Nat) : ∀ (b : Bytes) (acc : List (Nat × Nat × Bytes)),
    scanLoop collect fuel b acc = (acc ++ (parseList fuel b).1, (parseList fuel b).2) := by
  induction fuel with
  | zero => intro b acc; simp [scanLoop, parseList]
  | succ fuel ih =>
    intro b acc
    unfold scanLoop parseList
    split
    · simp
    · cases hp : parse b with
      | panic e => simp
      | err e => simp
      | ok r =>
        obtain ⟨f, t, v, m⟩ := r
        simp only [collect, Bool.not_true, Bool.false_eq_true, if_false]
        rw [ih]
        simp

theorem scanList_eq_fields (b : Bytes) : scanList b = fields b := by
  unfold scanList scan fields
  rw [scanLoop_collect]; simp

/-! ## totality -/

theorem fields_total (n : Nat) : ∀ (b : Bytes), b.length ≤ n → GoLen b →
    (∀ e, (fields b).2 ≠ .panic e) ∧ ((fields b).2 = .ok () ∨ ∃ e, (fields b).2 = .err e ∧ ParseErr e) := by
  induction n with
  | zero =>
    intro b h _
    have : b = [] := List.eq_nil_of_length_eq_zero (by omega)
    subst this; rw [fields_nil]; simp
  | succ n ih =>
    intro b h hb
    by_cases hne : b = []
    · subst hne; rw [fields_nil]; simp
    · rw [fields_unfold b hb hne]
      cases hp : parse b with
      | panic e => exact absurd hp (parse_ne_panic b hb e)
      | err e => exact ⟨by simp, Or.inr ⟨e, rfl, parse_err b hb e hp⟩⟩
      | ok r =>
        obtain ⟨f, t, v, m⟩ := r
        have hs := parse_shorter b hb f t v m hp
        exact ih m (by omega) hs.2

/-- general callbacks: `Scan` itself never faults and never runs out of the model's fuel; an error is either one of
`Parse`'s or the callback's -/
theorem scanLoop_total {σ : Type} (fn : Callback σ) (fuel : Nat) : ∀ (b : Bytes) (s : σ), GoLen b → b.length < fuel →
    (∀ e, (scanLoop fn fuel b s).2 ≠ .panic e) ∧
    ((scanLoop fn fuel b s).2 = .ok () ∨ ∃ e, (scanLoop fn fuel b s).2 = .err e ∧
      (ParseErr e ∨ ∃ s' f t v s'', fn s' f t v = (s'', false, some e))) := by
  induction fuel with
  | zero => intro b s _ h; omega
  | succ fuel ih =>
    intro b s hb hf
    unfold scanLoop
    split
    · simp
    · cases hp : parse b with
      | panic e => exact absurd hp (parse_ne_panic b hb e)
      | err e => exact ⟨by simp, Or.inr ⟨e, rfl, Or.inl (parse_err b hb e hp)⟩⟩
      | ok r =>
        obtain ⟨f, t, v, m⟩ := r
        have hs := parse_shorter b hb f t v m hp
        simp only []
        rcases hfn : fn s f t v with ⟨s', ok, err⟩
        cases ok with
        | true =>
          simp only [Bool.not_true, Bool.false_eq_true, if_false]
          exact ih m s' hs.2 (by omega)
        | false =>
          simp only [Bool.not_false, if_true]
          cases err with
          | none => simp
          | some e => exact ⟨by simp, Or.inr ⟨e, rfl, Or.inr ⟨s, f, t, v, s', hfn⟩⟩⟩

/-! ## concatenation -/

/-- a well-formed message followed by anything: the enumeration of the concatenation is the concatenation of the
enumerations (so a prefix that ends at a field boundary enumerates a prefix of the fields) -/
theorem fields_append (n : Nat) : ∀ (x y : Bytes), x.length ≤ n → GoLen (x ++ y) → (fields x).2 = .ok () →
    fields (x ++ y) = ((fields x).1 ++ (fields y).1, (fields y).2) := by
  induction n with
  | zero =>
    intro x y h _ _
    have : x = [] := List.eq_nil_of_length_eq_zero (by omega)
    subst this; rw [fields_nil]; simp
  | succ n ih =>
    intro x y h hxy hok
    by_cases hne : x = []
    · subst hne; rw [fields_nil]; simp
    · have hx : GoLen x := hxy.of_append_left
      rw [fields_unfold x hx hne] at hok ⊢
      cases hp : parse x with
      | panic e => rw [hp] at hok; simp at hok
      | err e => rw [hp] at hok; simp at hok
      | ok r =>
        obtain ⟨f, t, v, m⟩ := r
        rw [hp] at hok
        simp only [] at hok ⊢
        obtain ⟨fld, rfl, hf⟩ := (parse_ok_iff x hx f t v m).mp hp
        have hl : m.length ≤ n := by
          have := hf.pos; simp only [List.length_append] at h; omega
        rw [List.append_assoc] at hxy ⊢
        rw [fields_ok_cons f t v fld (m ++ y) hxy hf, ih m y hl hxy.of_append_right hok]
        simp

/-! ## RawValue accessors on what `Parse` returns -/

theorem unLE32_of_length : ∀ (v : Bytes), v.length = 4 → ∃ x, unLE32 v = some x
  | [_, _, _, _], _ => ⟨_, rfl⟩
  | [], h | [_], h | [_, _], h | [_, _, _], h => by simp at h
  | _ :: _ :: _ :: _ :: _ :: _, h => by simp at h

theorem unLE64_of_length : ∀ (v : Bytes), v.length = 8 → ∃ x, unLE64 v = some x
  | [_, _, _, _, _, _, _, _], _ => ⟨_, rfl⟩
  | [], h | [_], h | [_, _], h | [_, _, _], h | [_, _, _, _], h | [_, _, _, _, _], h | [_, _, _, _, _, _], h
  | [_, _, _, _, _, _, _], h => by simp at h
  | _ :: _ :: _ :: _ :: _ :: _ :: _ :: _ :: _ :: _, h => by simp at h

/-- the documented contract of the accessors: on a value returned by `Parse` with the matching wire type, `Varint`
returns the decoded number (the value is one complete varint) and `Fixed32` / `Fixed64` do not fault -/
theorem accessors_defined (f t : Nat) (v fld : Bytes) (h : IsField f t v fld) :
    (t = 0 → ∃ u, decodeVarint v = .ok (u, v.length) ∧ rawVarint v = u) ∧
    (t = 5 → ∃ x, rawFixed32 v = .ok x) ∧ (t = 1 → ∃ x, rawFixed64 v = .ok x) := by
  obtain ⟨tg, hdr, tag, _, _, _, _, hcase⟩ := h.split
  refine ⟨fun h0 => ?_, fun h5 => ?_, fun h1 => ?_⟩
  · rcases hcase with ⟨_, _, u, hu⟩ | ⟨h2, _⟩ | ⟨h2, _⟩ | ⟨h2, _⟩
    · exact ⟨u, hu, by unfold rawVarint; rw [hu]⟩
    all_goals omega
  · rcases hcase with ⟨h2, _⟩ | ⟨h2, _⟩ | ⟨_, _, hv⟩ | ⟨h2, _⟩
    · omega
    · omega
    · obtain ⟨x, hx⟩ := unLE32_of_length v hv
      exact ⟨x, by unfold rawFixed32; rw [hx]⟩
    · omega
  · rcases hcase with ⟨h2, _⟩ | ⟨h2, _⟩ | ⟨h2, _⟩ | ⟨_, _, hv⟩
    · omega
    · omega
    · omega
    · obtain ⟨x, hx⟩ := unLE64_of_length v hv
      exact ⟨x, by unfold rawFixed64; rw [hx]⟩

end Enc.Lemmas.ProtoScan
