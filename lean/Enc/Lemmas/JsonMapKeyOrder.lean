import Enc.Model.Json.MapKeyOrder
import Enc.Spec.Json.MapKeys
import Enc.Lemmas.JsonEncInt
import Enc.Lemmas.JsonRTInt
/-!
# Map key order (C01): the comparators of json/codec.go = byte-wise order of the stdlib key texts

* `strLT_eq_lex`, `strLT_irrefl/trans/trichotomy` — Go's string `<` is core's lexicographic order on the bytes, a strict
  total order.
* `digitsLoop_eq`, `strconvAppendUint_eq`, `strconvAppendInt_eq` — the strconv model is `Spec.Json.decimal / intString`.
* `uintStringsAreSorted_eq`, `intStringsAreSorted_eq` — the comparators AS WRITTEN, for ALL pairs of 64-bit words.
* `decimal_inj`, `intString_inj` — distinct numbers have distinct texts, hence `intLess_trichotomy`.
* `sortBy_*` — on distinct keys the sorted order is unique (`sorted_unique`): whatever `sort.Slice` does, its result is
  `sortBy less`; independent of the iteration order.
* `encodeIntKeyMap_eq_std`, `encodeStrKeyMap_eq_std` — the object written = encoding/json's, for every iteration order.
-/
namespace Enc.Lemmas.JsonMapKeyOrder
open Enc Enc.Model.Json Enc.Model.Json.MapKeyOrder
open Enc.Spec.Json (decimal intString appendString)
open Enc.Spec.Json.MapKeys (lexLT stdSort stdMapObject joinWithComma intKs keyNameOf)
open Enc.Lemmas.JsonEncInt (dig decimal_eq_if decimal_lt10 decimal_ge10)

/-! ## Go string comparison -/

theorem strLT_nil_right (a : Bytes) : strLT a [] = false := by cases a <;> rfl

theorem strLT_cons (a b : UInt8) (as bs : Bytes) :
    strLT (a :: as) (b :: bs) = (decide (a < b) || (a == b && strLT as bs)) := rfl

theorem strLT_eq_lex (a b : Bytes) : strLT a b = lexLT a b := by
  unfold lexLT
  induction a generalizing b with
  | nil =>
    cases b with
    | nil => simp [strLT]
    | cons b bs => simp [strLT]
  | cons a as ih =>
    cases b with
    | nil => simp [strLT]
    | cons b bs =>
      rw [strLT_cons, ih bs]
      simp only [List.cons_lt_cons_iff]
      by_cases h1 : a < b <;> by_cases h2 : a = b <;> simp [h1, h2]

theorem strLT_irrefl (a : Bytes) : strLT a a = false := by
  induction a with
  | nil => rfl
  | cons a as ih =>
    rw [strLT_cons, ih]
    have : ¬ a < a := by simp
    simp [this]

theorem strLT_trans (a b c : Bytes) (h1 : strLT a b = true) (h2 : strLT b c = true) : strLT a c = true := by
  induction a generalizing b c with
  | nil =>
    cases c with
    | nil => rw [strLT_nil_right] at h2; exact absurd h2 (by simp)
    | cons c cs => rfl
  | cons a as ih =>
    cases b with
    | nil => rw [strLT_nil_right] at h1; exact absurd h1 (by simp)
    | cons b bs =>
      cases c with
      | nil => rw [strLT_nil_right] at h2; exact absurd h2 (by simp)
      | cons c cs =>
        rw [strLT_cons] at h1 h2 ⊢
        simp only [Bool.or_eq_true, decide_eq_true_eq, Bool.and_eq_true, beq_iff_eq] at h1 h2 ⊢
        rcases h1 with h1 | ⟨e1, h1⟩ <;> rcases h2 with h2 | ⟨e2, h2⟩
        · left; rw [UInt8.lt_iff_toNat_lt] at *; omega
        · left; subst e2; exact h1
        · left; subst e1; exact h2
        · right; exact ⟨e1.trans e2, ih bs cs h1 h2⟩

theorem strLT_trichotomy (a b : Bytes) : strLT a b = true ∨ a = b ∨ strLT b a = true := by
  induction a generalizing b with
  | nil =>
    cases b with
    | nil => right; left; rfl
    | cons b bs => left; rfl
  | cons a as ih =>
    cases b with
    | nil => right; right; rfl
    | cons b bs =>
      rw [strLT_cons, strLT_cons]
      simp only [Bool.or_eq_true, decide_eq_true_eq, Bool.and_eq_true, beq_iff_eq]
      by_cases h1 : a < b
      · left; left; exact h1
      · by_cases h2 : b < a
        · right; right; left; exact h2
        · have e : a = b := by
            rw [UInt8.lt_iff_toNat_lt] at h1 h2
            exact UInt8.toNat_inj.mp (by omega)
          subst e
          rcases ih bs with h | h | h
          · left; right; exact ⟨rfl, h⟩
          · right; left; rw [h]
          · right; right; right; exact ⟨rfl, h⟩

theorem strLT_asymm (a b : Bytes) (h : strLT a b = true) : strLT b a = false := by
  cases hb : strLT b a with
  | false => rfl
  | true => have := strLT_trans a b a h hb; rw [strLT_irrefl] at this; exact absurd this (by simp)

/-! ## strconv -/

theorem digitsLoop_eq (fuel n : Nat) (h : n < 10 ^ fuel) (hf : 0 < fuel) : digitsLoop fuel n = decimal n := by
  induction fuel generalizing n with
  | zero => omega
  | succ fuel ih =>
    unfold digitsLoop
    by_cases h10 : n < 10
    · rw [if_pos h10, decimal_lt10 n h10]; rfl
    · rw [if_neg h10, decimal_ge10 n (by omega)]
      have hf' : 0 < fuel := by
        rcases Nat.eq_zero_or_pos fuel with h0 | h0
        · subst h0; simp at h; omega
        · exact h0
      rw [ih (n / 10) (by rw [Nat.pow_succ] at h; omega) hf']; rfl

theorem strconvAppendUint_eq (u : BitVec 64) : strconvAppendUint u = decimal u.toNat := by
  unfold strconvAppendUint
  exact digitsLoop_eq 20 u.toNat (by have := u.isLt; omega) (by decide)

theorem strconvAppendInt_eq (i : BitVec 64) : strconvAppendInt i = intString i.toInt := by
  unfold strconvAppendInt intString
  rw [BitVec.slt_eq_decide, strconvAppendUint_eq, strconvAppendUint_eq]
  have hlt := i.isLt
  have h0 : (0 : BitVec 64).toInt = 0 := by decide
  rw [h0]
  have hi := BitVec.toInt_eq_toNat_cond i
  by_cases hneg : i.toInt < 0
  · simp only [hneg, decide_true, if_true]
    congr 2
    rw [BitVec.toNat_neg]
    split at hi <;> omega
  · simp only [hneg, decide_false, Bool.false_eq_true, if_false]
    congr 1
    split at hi <;> omega

/-! ## the comparators as written = byte-wise order of the decimal texts, for ALL pairs -/

theorem uintStringsAreSorted_eq (a b : BitVec 64) :
    uintStringsAreSorted a b = lexLT (decimal a.toNat) (decimal b.toNat) := by
  unfold uintStringsAreSorted
  rw [strLT_eq_lex, strconvAppendUint_eq, strconvAppendUint_eq]

theorem intStringsAreSorted_eq (a b : BitVec 64) :
    intStringsAreSorted a b = lexLT (intString a.toInt) (intString b.toInt) := by
  unfold intStringsAreSorted
  rw [strLT_eq_lex, strconvAppendInt_eq, strconvAppendInt_eq]

theorem intString_ofNat (n : Nat) : intString (n : Int) = decimal n := by
  unfold intString
  simp

theorem intLess_eq (signed : Bool) (a b : BitVec 64) :
    intLess signed a b = lexLT (intKs (keyInt signed a)) (intKs (keyInt signed b)) := by
  unfold intLess keyInt intKs
  cases signed
  · simp only [Bool.false_eq_true, if_false]
    rw [uintStringsAreSorted_eq, intString_ofNat, intString_ofNat]
  · simp only [if_true]
    exact intStringsAreSorted_eq a b

/-! ## distinct numbers have distinct texts -/

theorem decimal_inj (a b : Nat) (h : decimal a = decimal b) : a = b := by
  have ha := JsonRTInt.acc_decimal a
  have hb := JsonRTInt.acc_decimal b
  rw [h] at ha; omega

theorem intString_inj (i j : Int) (h : intString i = intString j) : i = j := by
  unfold intString at h
  have hm (n : Nat) : (decimal n).head? ≠ some 0x2d := by
    have := JsonRTInt.decimal_head_ne_minus n []
    simpa using this
  by_cases hi : i < 0 <;> by_cases hj : j < 0
  · rw [if_pos hi, if_pos hj] at h
    have := decimal_inj _ _ (List.cons.inj h).2; omega
  · rw [if_pos hi, if_neg hj] at h
    exact absurd (by rw [← h]; rfl) (hm j.natAbs)
  · rw [if_neg hi, if_pos hj] at h
    exact absurd (by rw [h]; rfl) (hm i.natAbs)
  · rw [if_neg hi, if_neg hj] at h
    have := decimal_inj _ _ h; omega

theorem keyInt_inj (signed : Bool) (a b : BitVec 64) (h : keyInt signed a = keyInt signed b) : a = b := by
  unfold keyInt at h
  cases signed
  · simp only [Bool.false_eq_true, if_false] at h
    exact BitVec.eq_of_toNat_eq (by omega)
  · simp only [if_true] at h
    exact BitVec.eq_of_toInt_eq h

theorem intKeyText_inj (signed : Bool) (a b : BitVec 64)
    (h : intKs (keyInt signed a) = intKs (keyInt signed b)) : a = b :=
  keyInt_inj signed a b (intString_inj _ _ h)

/-! ## strict total order of the integer comparator -/

theorem lexLT_irrefl (a : Bytes) : lexLT a a = false := by rw [← strLT_eq_lex]; exact strLT_irrefl a
theorem lexLT_trans (a b c : Bytes) (h1 : lexLT a b = true) (h2 : lexLT b c = true) : lexLT a c = true := by
  rw [← strLT_eq_lex] at *; exact strLT_trans a b c h1 h2
theorem lexLT_trichotomy (a b : Bytes) : lexLT a b = true ∨ a = b ∨ lexLT b a = true := by
  rw [← strLT_eq_lex, ← strLT_eq_lex]; exact strLT_trichotomy a b

theorem intLess_irrefl (signed : Bool) (a : BitVec 64) : intLess signed a a = false := by
  rw [intLess_eq]; exact lexLT_irrefl _

theorem intLess_trans (signed : Bool) (a b c : BitVec 64)
    (h1 : intLess signed a b = true) (h2 : intLess signed b c = true) : intLess signed a c = true := by
  rw [intLess_eq] at *; exact lexLT_trans _ _ _ h1 h2

theorem intLess_trichotomy (signed : Bool) (a b : BitVec 64) :
    intLess signed a b = true ∨ a = b ∨ intLess signed b a = true := by
  rw [intLess_eq, intLess_eq]
  rcases lexLT_trichotomy (intKs (keyInt signed a)) (intKs (keyInt signed b)) with h | h | h
  · left; exact h
  · right; left; exact intKeyText_inj signed a b h
  · right; right; exact h

/-! ## sorting distinct keys under a strict total order -/

/-- a strict total order on the keys -/
structure StrictTotal {K : Type} (less : K → K → Bool) : Prop where
  irrefl : ∀ a, less a a = false
  trans : ∀ a b c, less a b = true → less b c = true → less a c = true
  tri : ∀ a b, less a b = true ∨ a = b ∨ less b a = true

theorem StrictTotal.asymm {K} {less : K → K → Bool} (h : StrictTotal less) (a b : K) (hab : less a b = true) :
    less b a = false := by
  cases hb : less b a with
  | false => rfl
  | true => have := h.trans a b a hab hb; rw [h.irrefl] at this; exact absurd this (by simp)

theorem strLT_strictTotal : StrictTotal strLT := ⟨strLT_irrefl, strLT_trans, strLT_trichotomy⟩
theorem intLess_strictTotal (signed : Bool) : StrictTotal (intLess signed) :=
  ⟨intLess_irrefl signed, intLess_trans signed, intLess_trichotomy signed⟩

section Sorting
variable {K V : Type} {less : K → K → Bool} (hst : StrictTotal less)
include hst

/-- the non-strict companion used for the merge sort is transitive and total -/
theorem le_trans (a b c : K × V) (h1 : (!less b.1 a.1) = true) (h2 : (!less c.1 b.1) = true) : (!less c.1 a.1) = true := by
  simp only [Bool.not_eq_true'] at *
  cases hca : less c.1 a.1 with
  | false => rfl
  | true =>
    rcases hst.tri c.1 b.1 with h | h | h
    · rw [h] at h2; exact absurd h2 (by simp)
    · rw [← h, hca] at h1; exact absurd h1 (by simp)
    · have := hst.trans b.1 c.1 a.1 h hca; rw [this] at h1; exact absurd h1 (by simp)

theorem le_total (a b : K × V) : ((!less b.1 a.1) || (!less a.1 b.1)) = true := by
  cases hba : less b.1 a.1 with
  | false => rfl
  | true => rw [hst.asymm _ _ hba]; rfl

omit hst in
/-- what `sortBy` returns: a permutation of the input … -/
theorem sortBy_perm (l : List (K × V)) : (sortBy (fun p q => less p.1 q.1) l).Perm l :=
  List.mergeSort_perm _ _

/-- … whose keys strictly ascend when the keys are distinct (they are: keys of a map) -/
theorem sortBy_sorted (l : List (K × V)) (hnd : (l.map (·.1)).Nodup) :
    List.Pairwise (fun p q => less p.1 q.1 = true) (sortBy (fun p q => less p.1 q.1) l) := by
  have hle : List.Pairwise (fun p q : K × V => (!less q.1 p.1) = true) (sortBy (fun p q => less p.1 q.1) l) :=
    List.pairwise_mergeSort (le := fun p q : K × V => !less q.1 p.1)
      (fun a b c h1 h2 => le_trans hst a b c h1 h2) (fun a b => le_total hst a b) l
  have hnd' : (List.map (·.1) (sortBy (fun p q => less p.1 q.1) l)).Nodup :=
    ((sortBy_perm l).map _).nodup_iff.mpr hnd
  have hne : List.Pairwise (fun p q : K × V => p.1 ≠ q.1) (sortBy (fun p q => less p.1 q.1) l) := by
    rw [List.Nodup, List.pairwise_map] at hnd'
    exact hnd'
  refine (hle.and hne).imp ?_
  intro p q ⟨h1, h2⟩
  rcases hst.tri p.1 q.1 with h | h | h
  · exact h
  · exact absurd h h2
  · rw [h] at h1; exact absurd h1 (by simp)

/-- uniqueness: ANY arrangement of the entries with strictly ascending keys is the same list — so the result of Go's
`sort.Slice` (pdqsort, not stable) with this comparator is determined, and is what `sortBy` computes -/
theorem sorted_unique (l₁ l₂ : List (K × V)) (hp : l₁.Perm l₂)
    (h1 : List.Pairwise (fun p q => less p.1 q.1 = true) l₁)
    (h2 : List.Pairwise (fun p q => less p.1 q.1 = true) l₂) : l₁ = l₂ := by
  refine List.Perm.eq_of_pairwise (le := fun p q => less p.1 q.1 = true) ?_ h1 h2 hp
  intro a b _ _ hab hba
  rw [hst.asymm _ _ hab] at hba; exact absurd hba (by simp)

theorem sortBy_unique (l out : List (K × V)) (hp : out.Perm l) (hnd : (l.map (·.1)).Nodup)
    (hs : List.Pairwise (fun p q => less p.1 q.1 = true) out) : out = sortBy (fun p q => less p.1 q.1) l :=
  sorted_unique hst out _ (hp.trans (sortBy_perm l).symm) hs (sortBy_sorted hst l hnd)

/-- the result does not depend on the order in which the runtime iterates over the map -/
theorem sortBy_iteration_order (l l' : List (K × V)) (hp : l.Perm l') (hnd : (l.map (·.1)).Nodup) :
    sortBy (fun p q => less p.1 q.1) l = sortBy (fun p q => less p.1 q.1) l' :=
  sortBy_unique hst l' _ ((sortBy_perm l).trans hp) ((hp.map _).nodup_iff.mp hnd) (sortBy_sorted hst l hnd)

end Sorting

/-! ## the object that is written -/

theorem joinMembers_cons_true (k v : Bytes) (rest : List (Bytes × Bytes)) :
    joinMembers ((k, v) :: rest) true = k ++ [0x3a] ++ v ++ joinMembers rest false := by simp [joinMembers]
theorem joinMembers_cons_false (k v : Bytes) (rest : List (Bytes × Bytes)) :
    joinMembers ((k, v) :: rest) false = [0x2c] ++ k ++ [0x3a] ++ v ++ joinMembers rest false := by simp [joinMembers]

theorem joinMembers_eq (l : List (Bytes × Bytes)) :
    joinMembers l true = joinWithComma (l.map fun p => p.1 ++ [0x3a] ++ p.2) ∧
    (l ≠ [] → joinMembers l false = [0x2c] ++ joinWithComma (l.map fun p => p.1 ++ [0x3a] ++ p.2)) := by
  induction l with
  | nil => exact ⟨rfl, fun h => absurd rfl h⟩
  | cons p rest ih =>
    obtain ⟨k, v⟩ := p
    cases rest with
    | nil => constructor <;> simp [joinMembers, joinWithComma]
    | cons q rest' =>
      have ih2 := ih.2 (by simp)
      constructor
      · rw [joinMembers_cons_true, ih2]; simp [joinWithComma, List.append_assoc]
      · intro _
        rw [joinMembers_cons_false, ih2]; simp [joinWithComma, List.append_assoc]

/-- sorting with the model comparator, then taking the stdlib key names = taking the key names, then sorting them as texts -/
theorem sort_map_eq_stdSort {K : Type} (less : K → K → Bool) (text : K → Bytes)
    (hless : ∀ a b, less a b = lexLT (text a) (text b)) (es : List (K × Bytes)) :
    (sortBy (fun p q => less p.1 q.1) es).map (fun p => (text p.1, p.2)) = stdSort (es.map fun p => (text p.1, p.2)) := by
  unfold sortBy stdSort
  exact List.map_mergeSort (fun a _ b _ => by simp [hless])

theorem intKeyText_eq (signed html : Bool) (v : BitVec 64) :
    intKeyText signed v html = appendString (intKs (keyInt signed v)) html := by
  unfold intKeyText intKs
  rw [JsonEncString.encodeString_eq, JsonEncInt.appendInt_eq]
  unfold keyInt
  have := v.isLt
  cases signed
  · simp only [Bool.false_eq_true, if_false]; omega
  · simp only [if_true]
    have := BitVec.toInt_eq_toNat_cond v
    split at this <;> omega

/-- MAIN: integer-keyed maps — the object segmentio writes is the object encoding/json writes -/
theorem encodeIntKeyMap_eq_std (signed html : Bool) (es : List (BitVec 64 × Bytes)) :
    encodeIntKeyMap signed html es = stdMapObject html (es.map fun p => (intKs (keyInt signed p.1), p.2)) := by
  simp only [encodeIntKeyMap, stdMapObject]
  rw [(joinMembers_eq _).1, ← sort_map_eq_stdSort (intLess signed) (fun k => intKs (keyInt signed k)) (intLess_eq signed)]
  simp only [List.map_map]
  congr 3
  apply List.map_congr_left
  intro p _
  simp [intKeyText_eq]

/-- string kinds and MarshalText keys (key name = the string / the text) -/
theorem encodeStrKeyMap_eq_std (html : Bool) (es : List (Bytes × Bytes)) :
    encodeStrKeyMap html es = stdMapObject html es := by
  simp only [encodeStrKeyMap, stdMapObject]
  rw [(joinMembers_eq _).1]
  have := sort_map_eq_stdSort strLT id (fun a b => strLT_eq_lex a b) es
  have e : (fun p : Bytes × Bytes => (id p.1, p.2)) = id := by funext p; rfl
  rw [e, List.map_id, List.map_id] at this
  rw [← this]
  simp only [List.map_map]
  congr 3
  apply List.map_congr_left
  intro p _
  simp [JsonEncString.encodeString_eq]

/-! ## which comparator is installed -/

/-- encoding direction: the sort / key name chosen by constructMapCodec is encoding/json's resolveKeyName, for every
combination of key kind and text methods (after repair 0a9d40c; before it ⟨other, false, true⟩ was `.unsupportedKey`) -/
theorem sortKeysOf_eq_std (t : KeyType) : sortKeysOf t = keyNameOf t := by
  obtain ⟨k, m, u⟩ := t
  cases k <;> cases m <;> cases u <;> rfl

/-- decoding direction -/
theorem decodeKeysOf_eq_std (t : KeyType) : decodeKeysOf t = Spec.Json.MapKeys.keyDecoderOf t := by
  obtain ⟨k, m, u⟩ := t
  cases k <;> cases m <;> cases u <;> rfl

#print axioms intStringsAreSorted_eq
#print axioms uintStringsAreSorted_eq
#print axioms intLess_trichotomy
#print axioms sortBy_unique
#print axioms encodeIntKeyMap_eq_std

end Enc.Lemmas.JsonMapKeyOrder
