import Enc.Model.Json.CodecChoiceExpand
import Enc.Spec.Json.StdCodecChoice
import Enc.Lemmas.JsonCodecChoiceTerm
/-!
# The model's choice against encoding/json's rule: the local steps
-/
set_option linter.unusedSimpArgs false
namespace Enc.Lemmas.JsonCodecChoiceStd
open Enc.Model.Json.CodecChoice Enc.Spec.Json.StdCodecChoice Enc.Lemmas.JsonCodecChoiceTerm

theorem implPtr_ptrKind (env : Env) (m : Meth) (t : TD) (h : isPtrKind (under env t) = true) : implPtr env m t = false := by
  simp [implPtr, h]

/-- **Order of the marshaler checks.** constructCodec asks `T has MarshalJSON`, `addressable and *T has MarshalJSON`,
`T has MarshalText`, `addressable and *T has MarshalText`; encoding/json asks `addressable and *T has MarshalJSON`
first (then calls through the address, which runs T's own method when T has one). Same encoder in all 64 cases. -/
theorem override_eq_std (env : Env) (t : TD) (a : Bool) (c : Choice) (h : isOpaque t = false) :
    marshalerOverride env t a c = (stdMarshal env t a).getD c := by
  unfold marshalerOverride stdMarshal
  simp only [h]
  by_cases hp : isPtrKind (under env t) = true
  · rw [implPtr_ptrKind env .mj t hp, implPtr_ptrKind env .mt t hp]
    cases implT env .mj t <;> cases implT env .mt t <;> cases a <;> simp [hp]
  · have hp' : isPtrKind (under env t) = false := by simpa using hp
    cases implT env .mj t <;> cases implT env .mt t <;> cases implPtr env .mj t <;> cases implPtr env .mt t <;>
      cases a <;> simp [hp']

theorem firstSwitch_none_not_opaque (t : TD) (h : firstSwitch t = none) : isOpaque t = false := by
  unfold firstSwitch at h
  unfold isOpaque
  split at h <;> simp_all

/-! ## The fragment without struct kinds and without named slice/array/map/pointer types
(`seen` plays no role there: the construction is the plain recursion over the type) -/

def Simple (env : Env) : TD → Bool
  | .slice e | .array _ e | .ptr e => Simple env e
  | .map k v => Simple env k && Simple env v
  | .struct _ => false
  | .ref id =>
    (match under env (.ref id) with
      | .prim _ | .any _ | .iface .. => true
      | _ => false)
  | _ => true

/-- the key types of encoding/json: string or integer kind, or implementing TextMarshaler — a type that only has
UnmarshalText (on the pointer) makes segmentio accept the map type where encoding/json refuses it (finding) -/
def keyOK (env : Env) (k : TD) : Bool :=
  isStringKind (under env k) || isIntKind (under env k) || implT env .mt k || !implPtr env .ut k

def KeysOK (env : Env) : TD → Bool
  | .slice e | .array _ e | .ptr e => KeysOK env e
  | .map k v => keyOK env k && KeysOK env k && KeysOK env v
  | _ => true

/-- the leaves of a tree are their own unfolding -/
def isLeaf : Choice → Bool
  | .null | .prim _ | .special _ | .bytes | .mjDirect | .mjAddr | .mtDirect | .mtAddr | .iface | .unsupported
  | .quoted _ | .keyNilPtr _ | .cut => true
  | _ => false

theorem expandN_leaf (env : Env) (T : Seen) (d : Nat) (c : Choice) (h : isLeaf c = true) :
    expandN (d + 1) env T c = c := by
  cases c <;> simp [isLeaf] at h <;> simp [expandN, resolve]

theorem norm_leaf (c : Choice) (h : isLeaf c = true) (hq : ∀ x, c ≠ .quoted x) (hk : ∀ x, c ≠ .keyNilPtr x) : norm c = c := by
  cases c <;> simp [isLeaf] at h <;> simp [norm]
  · exact absurd rfl (hq _)
  · exact absurd rfl (hk _)

theorem stdD_zero (env : Env) (t : TD) (a : Bool) : stdD 0 env t a = .cut := by simp [stdD]
theorem expandN_zero (env : Env) (T : Seen) (c : Choice) : expandN 0 env T c = .cut := by simp [expandN]

theorem stdD_succ (env : Env) (d : Nat) (t : TD) (a : Bool) (h : isOpaque t = false) :
    stdD (d + 1) env t a =
      match stdMarshal env t a with
      | some m => m
      | none =>
        match under env t with
        | .prim .chan | .prim .complex => .unsupported
        | .prim k => .prim k
        | .any _ | .iface .. => .iface
        | .slice e =>
          if under env e == .prim .uint8 && !implPtr env .mj e && !implPtr env .mt e then .bytes
          else .slice (stdD d env e true)
        | .array n e => .array n (stdD d env e a)
        | .ptr (.special s) => .ptr (.special s)
        | .ptr e => .ptr (stdD d env e true)
        | .map k v =>
          (match stdKey env k with
            | none => .unsupported
            | some kc => .map kc (stdD d env v false))
        | .struct fs =>
          .struct (stdFieldsWith (stdD d env) (stdEmbedded (stdD d env) env (embedFuel env t) [t]) env a fs)
        | _ => .unsupported := by
  rw [stdD]; simp only [h]; rfl

/-- the five types of the first switch: the dedicated codec is what encoding/json's rule gives -/
theorem firstSwitch_sem (env : Env) (t : TD) (a : Bool) (c0 : Choice) (h : firstSwitch t = some c0) (d : Nat) (T : Seen) :
    expandN d env T (norm c0) = stdD d env t a := by
  cases d with
  | zero => simp [expandN, stdD]
  | succ d =>
    unfold firstSwitch at h
    split at h <;> simp at h <;> subst h
    · simp [norm, expandN, resolve, stdD, isOpaque, opaqueChoice]
    · simp [norm, expandN, resolve, stdD, isOpaque, opaqueChoice]
    · -- []byte
      rw [stdD_succ _ _ _ _ (by simp [isOpaque])]
      simp [norm, expandN, resolve, stdMarshal, isOpaque, implT, implPtr, declared, under, noMeths, Meths.get, isPtrKind, isIfaceKind]
    · -- interface{}
      rw [stdD_succ _ _ _ _ (by simp [isOpaque])]
      simp [norm, expandN, resolve, stdMarshal, isOpaque, implT, implPtr, declared, under, noMeths, Meths.get, isPtrKind, isIfaceKind]
    · simp [norm, expandN, resolve, stdD, isOpaque, opaqueChoice]

abbrev intLabel := intKindLabel

/-- a type of an integer kind: the construction does not touch `seen` -/
theorem intKind_seen (env : Env) (f : Nat) (k : TD) (a : Bool) (s s' : Seen) (c : Choice)
    (hi : isIntKind (under env k) = true) (h : codecF f env k a s = some (c, s')) : s' = s := by
  cases f with
  | zero => simp [codecF] at h
  | succ f =>
    rw [codecF] at h
    rcases under_int_cases env k hi with rfl | ⟨p, hu, hc1, hc2, hfs⟩
    · simp [firstSwitch] at h; exact h.2.symm
    · simp only [hfs, hu] at h
      have hn : (isRef k && isComposite (TD.prim p)) = false := by simp [isComposite]
      simp only [hn, Bool.false_and, Bool.false_eq_true, if_false] at h
      have hk : kindF (codecF f env) (structF f env) env k (.prim p) a s = some (.prim p, s) := by
        unfold kindF
        cases p <;> simp at hc1 hc2 <;> rfl
      simp only [hk] at h
      simp at h
      exact h.2.symm

/-- an integer kind without MarshalJSON / MarshalText on the value, not addressable: the plain integer encoder -/
theorem intCodec (env : Env) (f : Nat) (k : TD) (s s' : Seen) (c : Choice)
    (hi : isIntKind (under env k) = true) (hj : implT env .mj k = false) (ht : implT env .mt k = false)
    (h : codecF f env k false s = some (c, s')) : c = intLabel (under env k) := by
  cases f with
  | zero => simp [codecF] at h
  | succ f =>
    rw [codecF] at h
    rcases under_int_cases env k hi with rfl | ⟨p, hu, hc1, hc2, hfs⟩
    · simp [firstSwitch] at h; simp [under, intLabel, intKindLabel, h.1.symm]
    · simp only [hfs, hu] at h
      have hn : (isRef k && isComposite (TD.prim p)) = false := by simp [isComposite]
      simp only [hn, Bool.false_and, Bool.false_eq_true, if_false] at h
      have hk : kindF (codecF f env) (structF f env) env k (.prim p) false s = some (.prim p, s) := by
        unfold kindF
        cases p <;> simp at hc1 hc2 <;> rfl
      simp only [hk] at h
      simp at h
      rw [← h.1, hu]
      simp [marshalerOverride, hj, ht, intLabel, intKindLabel]

theorem stringCodec_seen (env : Env) (f : Nat) (k : TD) (s s' : Seen) (c : Choice)
    (hi : isIntKind (under env k) = true) (h : stringCodecF (codecF f env) env k s = some (c, s')) : s' = s := by
  unfold stringCodecF at h
  cases hc : codecF f env (if implT env .mj k || implPtr env .uj k then integerType (under env k) else k) false s with
  | none => simp only [hc] at h; simp at h
  | some r =>
    obtain ⟨c1, s1⟩ := r
    simp only [hc] at h
    simp at h
    rw [← h.2]
    refine intKind_seen env f _ false s s1 c1 ?_ hc
    split
    · have := integerType_int _ hi
      cases hu : integerType (under env k) <;> simp [hu, isIntKind] at this <;> simpa [under, hu, isIntKind] using this
    · exact hi

theorem stringCodec_sem (env : Env) (f : Nat) (k : TD) (s s' : Seen) (c : Choice)
    (hi : isIntKind (under env k) = true) (ht : implT env .mt k = false)
    (h : stringCodecF (codecF f env) env k s = some (c, s')) : c = .quoted (intLabel (under env k)) := by
  unfold stringCodecF at h
  cases hc : codecF f env (if implT env .mj k || implPtr env .uj k then integerType (under env k) else k) false s with
  | none => simp only [hc] at h; simp at h
  | some r =>
    obtain ⟨c1, s1⟩ := r
    simp only [hc] at h
    simp at h
    rw [← h.1]
    congr 1
    by_cases hcond : (implT env .mj k || implPtr env .uj k) = true
    · simp only [hcond, if_true] at hc
      rcases under_int_cases env k hi with rfl | ⟨p, hu, hc1, hc2, _⟩
      · simp [implT, implPtr, declared, specialMeths, noMeths, Meths.get, under, isPtrKind, isIfaceKind] at hcond
      · rw [hu] at hc ⊢
        have hi' : isIntKind (under env (.prim p)) = true := by rw [hu] at hi; simpa [under] using hi
        have := intCodec env f (.prim p) s s1 c1 hi'
          (by simp [implT, declared, noMeths, Meths.get]) (by simp [implT, declared, noMeths, Meths.get])
          (by simpa [integerType] using hc)
        simpa [under] using this
    · have hcond' : (implT env .mj k || implPtr env .uj k) = false := by simpa using hcond
      simp only [hcond', Bool.false_eq_true, if_false] at hc
      have hj : implT env .mj k = false := by
        cases hh : implT env .mj k <;> simp [hh] at hcond' ⊢
      exact intCodec env f k s s1 c1 hi hj ht hc

/-- the key encoder is the one `resolveKeyName` describes (`none` = the map type is unsupported), and `seen` is not
touched -/
theorem mapKey_sem (env : Env) (f : Nat) (k : TD) (s s' : Seen) (r : Option Choice)
    (h : mapKeyF (codecF f env) env k s = some (r, s')) : r = stdKey env k ∧ s' = s := by
  unfold mapKeyF at h
  unfold stdKey
  simp only at h ⊢
  by_cases hstr : isStringKind (under env k) = true
  · -- string kind: the string itself, whatever methods the type has
    simp only [hstr, if_true] at h ⊢
    by_cases h0 : (implT env .mt k || implPtr env .ut k) = true
    · simp only [h0, if_true] at h
      by_cases h1 : (!implT env .mt k || !implPtr env .ut k) = true
      · simp only [h1, if_true] at h
        simp at h
        exact ⟨h.1.symm, h.2.symm⟩
      · simp only [h1] at h; simp at h; exact ⟨h.1.symm, h.2.symm⟩
    · simp only [h0] at h; simp at h; exact ⟨h.1.symm, h.2.symm⟩
  · have hstr' : isStringKind (under env k) = false := by simpa using hstr
    simp only [hstr', Bool.false_eq_true, if_false] at h ⊢
    by_cases htm : implT env .mt k = true
    · -- TextMarshaler on the key type itself
      simp only [htm, Bool.true_or, if_true] at h ⊢
      by_cases htu : implPtr env .ut k = true
      · simp [htu] at h; exact ⟨h.1.symm, h.2.symm⟩
      · have htu' : implPtr env .ut k = false := by simpa using htu
        simp only [htu', Bool.not_true, Bool.not_false, Bool.or_true, if_true, Bool.false_eq_true, if_false] at h
        by_cases hi : isIntKind (under env k) = true
        · simp only [hi, if_true] at h
          cases hsc : stringCodecF (codecF f env) env k s with
          | none => simp [hsc] at h
          | some q =>
            obtain ⟨q1, q2⟩ := q
            have := stringCodec_seen env f k s q2 q1 hi hsc
            simp [hsc] at h; exact ⟨h.1.symm, by rw [← h.2, this]⟩
        · simp [hi] at h; exact ⟨h.1.symm, h.2.symm⟩
    · have htm' : implT env .mt k = false := by simpa using htm
      simp only [htm', Bool.false_or, Bool.false_eq_true, if_false] at h ⊢
      by_cases hi : isIntKind (under env k) = true
      · simp only [hi, if_true] at h ⊢
        by_cases htu : implPtr env .ut k = true
        · simp only [htu, if_true, Bool.not_false, Bool.true_or] at h
          cases hsc : stringCodecF (codecF f env) env k s with
          | none => simp [hsc] at h
          | some q =>
            obtain ⟨q1, q2⟩ := q
            have hsn := stringCodec_seen env f k s q2 q1 hi hsc
            simp [hsc] at h
            rw [← h.1, ← h.2, stringCodec_sem env f k s q2 q1 hi htm' hsc]
            exact ⟨rfl, hsn⟩
        · have htu' : implPtr env .ut k = false := by simpa using htu
          simp only [htu', Bool.false_eq_true, if_false] at h
          cases hsc : stringCodecF (codecF f env) env k s with
          | none => simp [hsc] at h
          | some q =>
            obtain ⟨q1, q2⟩ := q
            have hsn := stringCodec_seen env f k s q2 q1 hi hsc
            simp [hsc] at h
            rw [← h.1, ← h.2, stringCodec_sem env f k s q2 q1 hi htm' hsc]
            exact ⟨rfl, hsn⟩
      · have hi' : isIntKind (under env k) = false := by simpa using hi
        -- neither a string nor an integer kind and no MarshalText: unsupported, with or without UnmarshalText on *K
        by_cases htu : implPtr env .ut k = true
        · simp [hi', htu, hstr'] at h ⊢
          exact ⟨h.1.symm, h.2.symm⟩
        · have htu' : implPtr env .ut k = false := by simpa using htu
          simp [hi', htu'] at h ⊢
          exact ⟨h.1.symm, h.2.symm⟩

/-- method sets: what T has, *T has (T not of pointer or interface kind) -/
theorem implT_implPtr_prim (env : Env) (m : Meth) (e : TD) (p : Kind) (hu : under env e = .prim p)
    (h : implT env m e = true) : implPtr env m e = true := by
  cases e with
  | prim q => simp [implT, declared, noMeths, Meths.get] at h; cases m <;> simp at h
  | ref id =>
    simp only [implT] at h
    simp only [implPtr, hu, isPtrKind, isIfaceKind]
    cases hg : (declared env (.ref id)).get m <;> simp [hg] at h ⊢
  | _ => simp [under] at hu

theorem prim_not_opaque (env : Env) (e : TD) (p : Kind) (hu : under env e = .prim p) : isOpaque e = false := by
  cases e <;> simp [under] at hu <;> simp [isOpaque]

/-- `[]E` with `E.Kind() == Uint8`: base64 unless the pointer to the element has a marshaling method; then the
elements (addressable) are encoded with it, MarshalJSON first -/
theorem byteSlice_sem (env : Env) (e : TD) (hu : under env e = .prim .uint8) (d : Nat) (T : Seen) :
    expandN (d + 1) env T (norm (byteSliceChoice env e)) =
      if under env e == .prim .uint8 && !implPtr env .mj e && !implPtr env .mt e then .bytes
      else .slice (stdD d env e true) := by
  have h1 := implT_implPtr_prim env .mj e _ hu
  have h2 := implT_implPtr_prim env .mt e _ hu
  have hstd : ∀ d', stdD (d' + 1) env e true =
      (if implPtr env .mj e then (if implT env .mj e then Choice.mjDirect else .mjAddr)
       else if implPtr env .mt e then (if implT env .mt e then Choice.mtDirect else .mtAddr)
       else .prim .uint8) := by
    intro d'
    rw [stdD_succ _ _ _ _ (prim_not_opaque env e _ hu)]
    simp only [stdMarshal, prim_not_opaque env e _ hu, hu, isPtrKind]
    revert h1 h2
    cases implT env .mj e <;> cases implT env .mt e <;> cases implPtr env .mj e <;> cases implPtr env .mt e <;> simp
  unfold byteSliceChoice
  simp only [hu, beq_self_eq_true, Bool.true_and]
  cases d with
  | zero =>
    revert h1 h2
    cases implT env .mj e <;> cases implT env .mt e <;> cases implPtr env .mj e <;> cases implPtr env .mt e <;>
      simp [norm, expandN, resolve, stdD]
  | succ d' =>
    rw [hstd d']
    revert h1 h2
    cases implT env .mj e <;> cases implT env .mt e <;> cases implPtr env .mj e <;> cases implPtr env .mt e <;>
      simp [norm, expandN, resolve]

theorem stdMarshal_leaf (env : Env) (t : TD) (a : Bool) (m : Choice) (h : stdMarshal env t a = some m) :
    m = .mjDirect ∨ m = .mjAddr ∨ m = .mtDirect ∨ m = .mtAddr := by
  unfold stdMarshal at h
  split at h
  · cases h
  · simp only at h
    split at h
    · split at h <;> simp at h <;> simp [← h]
    · split at h
      · simp at h; simp [← h]
      · split at h
        · split at h <;> simp at h <;> simp [← h]
        · split at h
          · simp at h; simp [← h]
          · cases h

/-- only the special types themselves get the encoder of a special type -/
theorem stdD_one_not_special (env : Env) (e : TD) (a : Bool) (he : ∀ s, e ≠ .special s) :
    (∀ s, stdD 1 env e a ≠ .special s) ∧ (∀ y, stdD 1 env e a ≠ .quoted y) := by
  by_cases ho : isOpaque e = true
  · cases e <;> simp [isOpaque] at ho
    · simp [stdD, isOpaque, opaqueChoice]
    · exact absurd rfl (he _)
    · rename_i x; cases x <;> simp [isOpaque] at ho
      simp [stdD, isOpaque, opaqueChoice]
  · have ho' : isOpaque e = false := by simpa using ho
    rw [stdD_succ _ _ _ _ ho']
    cases hm : stdMarshal env e a with
    | some m => rcases stdMarshal_leaf env e a m hm with rfl | rfl | rfl | rfl <;> simp
    | none =>
      simp only
      split <;> (try split) <;> (try split) <;> simp

theorem expandN_ptr (env : Env) (T : Seen) (d : Nat) (x : Choice) (h1 : ∀ s, x ≠ .special s)
    (h2 : ∀ y, x ≠ .quoted y) : expandN (d + 1) env T (.ptr x) = .ptr (expandN d env T x) := by
  cases x <;> simp [expandN, resolve]
  · exact absurd rfl (h1 _)
  · exact absurd rfl (h2 _)

theorem expandN_one_special (env : Env) (T : Seen) (s : Special) : expandN 1 env T (.special s) = .special s := by
  simp [expandN, resolve]
theorem expandN_one_quoted (env : Env) (T : Seen) (y : Choice) : expandN 1 env T (.quoted y) = .quoted y := by
  simp [expandN, resolve]

abbrev IH (env : Env) (f : Nat) : Prop :=
  ∀ t a s c s', codecF f env t a s = some (c, s') → Simple env t = true → KeysOK env t = true →
    ∀ d T, expandN d env T (norm c) = stdD d env t a

theorem fast_sem (env : Env) (v : TD) (vc : Choice) (h : fastMapValue v = some vc) (d : Nat) (T : Seen) :
    expandN d env T (norm vc) = stdD d env v false := by
  unfold fastMapValue at h
  split at h <;> simp at h <;> subst h
  · exact firstSwitch_sem env _ false .iface (by simp [firstSwitch]) d T
  · exact firstSwitch_sem env _ false _ (by simp [firstSwitch]) d T
  · cases d with
    | zero => simp [expandN, stdD]
    | succ d =>
      rw [stdD_succ _ _ _ _ (by simp [isOpaque])]
      simp [norm, expandN, resolve, stdMarshal, isOpaque, implT, implPtr, declared, under, noMeths, Meths.get, isPtrKind, isIfaceKind]
  · cases d with
    | zero => simp [expandN, stdD]
    | succ d =>
      rw [stdD_succ _ _ _ _ (by simp [isOpaque])]
      have hin : expandN d env T (.prim .string) = stdD d env (.prim .string) true := by
        cases d with
        | zero => simp [expandN, stdD]
        | succ d =>
          rw [stdD_succ _ _ _ _ (by simp [isOpaque])]
          simp [expandN, resolve, stdMarshal, isOpaque, implT, implPtr, declared, under, noMeths, Meths.get, isPtrKind, isIfaceKind]
      simp [norm, expandN, resolve, stdMarshal, isOpaque, implT, implPtr, declared, under, noMeths, Meths.get, isPtrKind, isIfaceKind, hin]
  · cases d with
    | zero => simp [expandN, stdD]
    | succ d =>
      rw [stdD_succ _ _ _ _ (by simp [isOpaque])]
      simp [norm, expandN, resolve, stdMarshal, isOpaque, implT, implPtr, declared, under, noMeths, Meths.get, isPtrKind, isIfaceKind]

theorem norm_inline_if (b : Bool) (c : Choice) : norm (if b then .inlineValue c else c) = norm c := by
  cases b <;> simp [norm]

theorem not_special_of_firstSwitch_ptr (e : TD) (h : firstSwitch (.ptr e) = none) : ∀ s, e ≠ .special s := by
  intro s hs; subst hs; simp [firstSwitch] at h

/-- the kind switch of `constructCodec` against the kind switch of `newTypeEncoder`, children by induction -/
theorem kind_sem (env : Env) (f : Nat) (ih : IH env f) (t : TD) (a : Bool) (s s1 : Seen) (c1 : Choice)
    (hfs : firstSwitch t = none) (hs : Simple env t = true) (hk : KeysOK env t = true)
    (hm : stdMarshal env t a = none)
    (h : kindF (codecF f env) (structF f env) env t (under env t) a s = some (c1, s1)) (d : Nat) (T : Seen) :
    expandN (d + 1) env T (norm c1) = stdD (d + 1) env t a := by
  rw [stdD_succ _ _ _ _ (firstSwitch_none_not_opaque t hfs)]
  simp only [hm]
  rcases Enc.Lemmas.JsonCodecChoiceTerm.under_cases env t with hu | ⟨id, rfl⟩
  · -- an unnamed type
    cases t with
    | nil => simp [firstSwitch] at hfs
    | special _ => simp [firstSwitch] at hfs
    | any _ => simp [firstSwitch] at hfs
    | ref id => exact absurd hu (under_ref_ne env id id)
    | struct _ => simp [Simple] at hs
    | prim k =>
      rw [hu] at h; simp only [hu]
      cases k <;> simp [kindF] at h <;> rw [← h.1] <;> simp [norm, expandN, resolve]
    | iface _ _ _ =>
      rw [hu] at h; simp only [hu]
      simp [kindF] at h; rw [← h.1]; simp [norm, expandN, resolve]
    | array n e =>
      rw [hu] at h; simp only [hu]
      simp only [Simple, KeysOK] at hs hk
      simp only [kindF] at h
      cases hc : codecF f env e a s with
      | none => simp [hc] at h
      | some r =>
        obtain ⟨ce, s2⟩ := r
        simp [hc] at h; rw [← h.1]
        simp [norm, expandN, resolve, ih e a s ce s2 hc hs hk d T]
    | ptr e =>
      rw [hu] at h; simp only [hu]
      simp only [Simple, KeysOK] at hs hk
      simp only [kindF] at h
      have hne := not_special_of_firstSwitch_ptr e hfs
      cases hc : codecF f env e true s with
      | none => simp [hc] at h
      | some r =>
        obtain ⟨ce, s2⟩ := r
        simp [hc] at h; rw [← h.1]
        have h1 := ih e true s ce s2 hc hs hk 1 T
        have hns := stdD_one_not_special env e true hne
        have hx1 : ∀ s', norm ce ≠ .special s' := by
          intro s' hcs; rw [hcs, expandN_one_special] at h1; exact hns.1 s' h1.symm
        have hx2 : ∀ y, norm ce ≠ .quoted y := by
          intro y hcs; rw [hcs, expandN_one_quoted] at h1; exact hns.2 y h1.symm
        simp only [norm]
        rw [expandN_ptr env T d _ hx1 hx2, ih e true s ce s2 hc hs hk d T]
        try (cases e <;> first | rfl | exact absurd rfl (hne _))
    | slice e =>
      rw [hu] at h; simp only [hu]
      simp only [Simple, KeysOK] at hs hk
      simp only [kindF] at h
      by_cases hb : (under env e == .prim .uint8) = true
      · simp only [hb, if_true] at h
        simp at h; rw [← h.1]
        have hu8 : under env e = .prim .uint8 := by simpa using hb
        exact byteSlice_sem env e hu8 d T
      · have hb' : (under env e == .prim .uint8) = false := by simpa using hb
        simp only [hb', Bool.false_eq_true, if_false, Bool.false_and] at h ⊢
        cases hc : codecF f env e true s with
        | none => simp [hc] at h
        | some r =>
          obtain ⟨ce, s2⟩ := r
          simp [hc] at h; rw [← h.1]
          simp [norm, expandN, resolve, ih e true s ce s2 hc hs hk d T]
    | map k v =>
      rw [hu] at h; simp only [hu]
      simp only [Simple, KeysOK, Bool.and_eq_true] at hs hk
      simp only [kindF] at h
      cases hfast : (if k == .prim .string then fastMapValue v else none) with
      | some vc =>
        simp only [hfast] at h
        simp at h; rw [← h.1]
        have hkstr : k = .prim .string := by
          by_cases hk' : (k == .prim .string) = true
          · simpa using hk'
          · simp [hk'] at hfast
        subst hkstr
        have hfv : fastMapValue v = some vc := by simpa using hfast
        simp [norm, expandN, resolve, stdKey, under, isStringKind, fast_sem env v vc hfv d T]
      | none =>
        simp only [hfast] at h
        cases hc : codecF f env v false s with
        | none => simp [hc] at h
        | some r =>
          obtain ⟨vc, s2⟩ := r
          simp only [hc] at h
          cases hkey : mapKeyF (codecF f env) env k s2 with
          | none => simp [hkey] at h
          | some r2 =>
            obtain ⟨kr, s3⟩ := r2
            have hstd := (mapKey_sem env f k s2 s3 kr hkey).1
            simp only [hkey] at h
            cases kr with
            | none =>
              simp at h; rw [← h.1, ← hstd]
              simp [norm, expandN, resolve]
            | some kc =>
              simp at h; rw [← h.1, ← hstd]
              have hkc : norm kc = kc := by
                have hsk := hstd
                unfold stdKey at hsk
                simp only at hsk
                split at hsk
                · simp at hsk; subst hsk; simp [norm]
                · split at hsk
                  · simp at hsk; subst hsk; split <;> simp [norm]
                  · split at hsk
                    · simp at hsk; subst hsk
                      cases under env k <;> simp [norm, intKindLabel]
                    · cases hsk
              simp only [norm, norm_inline_if, hkc]
              simp [expandN, resolve, ih v false s vc s2 hc hs.2 hk.2 d T]
  · -- a defined type of a kind without structure
    simp only [Simple] at hs
    cases hu : under env (.ref id) <;> simp [hu] at hs <;> simp only [hu] at h ⊢
    · rename_i k
      cases k <;> simp [kindF] at h <;> rw [← h.1] <;> simp [norm, expandN, resolve]
    · simp [kindF] at h; rw [← h.1]; simp [norm, expandN, resolve]
    · simp [kindF] at h; rw [← h.1]; simp [norm, expandN, resolve]

theorem simple_not_named (env : Env) (t : TD) (hs : Simple env t = true) :
    (isRef t && isComposite (under env t)) = false := by
  cases t <;> simp [isRef]
  rename_i id
  simp only [Simple] at hs
  cases hu : under env (.ref id) <;> simp [hu] at hs <;> simp [isComposite]

theorem simple_sem (env : Env) : ∀ f, IH env f := by
  intro f
  induction f with
  | zero => intro t a s c s' h; simp [codecF] at h
  | succ f ih =>
    intro t a s c s' h hs hk d T
    rw [codecF] at h
    cases hfs : firstSwitch t with
    | some c0 =>
      simp [hfs] at h
      rw [← h.1]
      exact firstSwitch_sem env t a c0 hfs d T
    | none =>
      simp only [hfs, simple_not_named env t hs, Bool.false_and, Bool.false_eq_true, if_false] at h
      cases hkf : kindF (codecF f env) (structF f env) env t (under env t) a s with
      | none => simp [hkf] at h
      | some r =>
        obtain ⟨c1, s1⟩ := r
        simp [hkf] at h
        rw [← h.1, override_eq_std env t a c1 (firstSwitch_none_not_opaque t hfs)]
        cases d with
        | zero => simp [expandN, stdD]
        | succ d =>
          cases hm : stdMarshal env t a with
          | some m =>
            rw [stdD_succ _ _ _ _ (firstSwitch_none_not_opaque t hfs)]
            simp only [hm, Option.getD]
            rcases stdMarshal_leaf env t a m hm with rfl | rfl | rfl | rfl <;> simp [norm, expandN, resolve]
          | none =>
            simp only [Option.getD]
            exact kind_sem env f ih t a s s1 c1 hfs hs hk hm hkf d T

/-- **choose_eq_std on the fragment without struct kinds and named composite types**: every depth, both top-level
addressabilities, any table (the tree has no back references) -/
theorem choose_eq_std_simple (env : Env) (t : TD) (a : Bool) (hs : Simple env t = true) (hk : KeysOK env t = true)
    (d : Nat) : expandD d env (choose env t a).2 (choose env t a).1 = stdD d env t a := by
  unfold expandD
  exact simple_sem env _ t a [] _ _ (Enc.Lemmas.JsonCodecChoiceTerm.choose_eq env t a) hs hk d _

end Enc.Lemmas.JsonCodecChoiceStd

#print axioms Enc.Lemmas.JsonCodecChoiceStd.choose_eq_std_simple
#print axioms Enc.Lemmas.JsonCodecChoiceStd.override_eq_std
