import Enc.Lemmas.ThriftEmbedPaths
/-!
Embedded structs of /repo/thrift: the flattening in relative form (`flatten_cons0`), and what a well-shaped target value
(`LenOK`) gives: every index path is valid (`allValid_of_lenOK`), and the decoder's read of a promoted field is the
encoder's `FieldByIndex` read with zero values behind nil embedded pointers (`viewA_eq_flatVals`).
-/
namespace Enc.Lemmas.ThriftEmbed
open Enc Enc.Model.Thrift

/-- prepend a prefix to the index path -/
def pre (idx : List Nat) (ff : FlatField) : FlatField := { ff with index := idx ++ ff.index }
/-- the path one member further -/
def bump (ff : FlatField) : FlatField :=
  { ff with index := match ff.index with | j :: r => (j + 1) :: r | [] => [] }

theorem pre_pre (a b : List Nat) (l : List FlatField) : (l.map (pre b)).map (pre a) = l.map (pre (a ++ b)) := by
  simp [List.map_map, Function.comp_def, pre, List.append_assoc]
theorem pre_nil (l : List FlatField) : l.map (pre []) = l := by
  have : pre [] = id := by funext ff; cases ff; rfl
  simp [this]

mutual
theorem flattenEmb_pre : (t : Ty) → (idx : List Nat) → flattenEmb t idx = (flattenEmb t []).map (List.map (pre idx))
  | .ptr t, idx => by rw [flattenEmb, flattenEmb]; exact flattenEmb_pre t idx
  | .named _ t, idx => by rw [flattenEmb, flattenEmb]; exact flattenEmb_pre t idx
  | .struct fs, idx => by rw [flattenEmb, flattenEmb, flatten_pre fs idx 0]; rfl
  | .bool, _ | .int _, _ | .f32, _ | .f64, _ | .str, _ | .bytes, _ | .any, _
  | .arr _ _, _ | .slice _, _ | .map _ _, _ => by simp [flattenEmb]
theorem flatten_pre : (fs : Fields) → (idx : List Nat) → (i : Nat) → flatten fs idx i = (flatten fs [] i).map (pre idx)
  | .nil, _, _ => by simp [flatten]
  | .cons name tag emb t rest, idx, i => by
    have ih := flatten_pre rest idx (i + 1)
    rw [flatten, flatten]
    simp only [List.nil_append]
    split
    · exact ih
    · cases emb with
      | false =>
        simp only [Bool.false_eq_true, if_false]
        split
        · exact ih
        · simp only [List.map_cons, ih]; rfl
      | true =>
        simp only [if_true]
        rw [flattenEmb_pre t (idx ++ [i]), flattenEmb_pre t [i]]
        cases flattenEmb t [] with
        | none =>
          simp only [Option.map_none]
          split
          · exact ih
          · simp only [List.map_cons, ih]; rfl
        | some l => simp only [Option.map_some, List.map_append, ih, pre_pre]
end

theorem bump_pre (i : Nat) (l : List FlatField) : (l.map (pre [i])).map bump = l.map (pre [i + 1]) := by
  simp [List.map_map, Function.comp_def, pre, bump]

theorem flatten_shift : (fs : Fields) → (i : Nat) → flatten fs [] (i + 1) = (flatten fs [] i).map bump
  | .nil, _ => by simp [flatten]
  | .cons name tag emb t rest, i => by
    have ih := flatten_shift rest (i + 1)
    rw [flatten, flatten]
    simp only [List.nil_append]
    split
    · exact ih
    · cases emb with
      | false =>
        simp only [Bool.false_eq_true, if_false]
        split
        · exact ih
        · simp only [List.map_cons, ih]; rfl
      | true =>
        simp only [if_true]
        rw [flattenEmb_pre t [i + 1], flattenEmb_pre t [i]]
        cases flattenEmb t [] with
        | none =>
          simp only [Option.map_none]
          split
          · exact ih
          · simp only [List.map_cons, ih]; rfl
        | some l => simp only [Option.map_some, List.map_append, ih, bump_pre]

theorem flattenEmb_structOf : (t : Ty) → (idx : List Nat) → (l : List FlatField) → flattenEmb t idx = some l →
    l = flatten (structOf t) idx 0
  | .ptr t, idx, l, h => by rw [flattenEmb] at h; rw [structOf]; exact flattenEmb_structOf t idx l h
  | .named _ t, idx, l, h => by rw [flattenEmb] at h; rw [structOf]; exact flattenEmb_structOf t idx l h
  | .struct fs, idx, l, h => by rw [flattenEmb] at h; cases h; rfl
  | .bool, _, _, h | .int _, _, _, h | .f32, _, _, h | .f64, _, _, h | .str, _, _, h | .bytes, _, _, h | .any, _, _, h
  | .arr _ _, _, _, h | .slice _, _, _, h | .map _ _, _, _, h => by simp [flattenEmb] at h

/-- is the member flattened (an embedded struct, by value or through pointers)? -/
def isEmbStruct (emb : Bool) (t : Ty) : Bool := emb && (flattenEmb t []).isSome

/-- **the flattening in relative form**: what the first member contributes (nothing / the promoted fields of its struct
with `0` in front / itself at `[0]`), then the other members one position further -/
theorem flatten_cons0 (name tag : String) (emb : Bool) (t : Ty) (rest : Fields) :
    flatten (.cons name tag emb t rest) [] 0 =
      (if !isExported name && !emb then []
       else if isEmbStruct emb t then (flatten (structOf t) [] 0).map (pre [0])
       else match tagOf tag with
         | none => []
         | some (id, req, en) => [{ name := name, tag := tag, ty := t, index := [0], id := id, required := req, enum := en }])
      ++ (flatten rest [] 0).map bump := by
  rw [flatten, flatten_shift rest 0]
  simp only [List.nil_append, isEmbStruct]
  split
  · rfl
  · cases emb with
    | false =>
      simp only [Bool.false_eq_true, if_false, Bool.false_and]
      rcases tagOf tag with _ | ⟨id, req, en⟩ <;> rfl
    | true =>
      simp only [if_true, Bool.true_and]
      rw [flattenEmb_pre t [0]]
      cases h : flattenEmb t [] with
      | none =>
        simp only [Option.map_none, Option.isSome_none, Bool.false_eq_true, if_false]
        rcases tagOf tag with _ | ⟨id, req, en⟩ <;> rfl
      | some l =>
        simp only [Option.map_some, Option.isSome_some, if_true]
        rw [flattenEmb_structOf t [] l h]

/-! ## well-shaped targets -/
mutual
def LenOKT : Ty → Vals → Bool
  | .ptr t, ws => LenOKT t ws
  | .named _ t, ws => LenOKT t ws
  | .struct fs, ws => LenOK fs ws
  | _, _ => true
/-- the value has a member for every field, and so have the structs of its embedded members (a struct, a pointer to
one, or a nil pointer), recursively; nothing is asked of the other members -/
def LenOK : Fields → Vals → Bool
  | .nil, _ => true
  | .cons _ _ emb t r, .cons v vs =>
    (if isEmbStruct emb t then
      (match v with | .struct ws => LenOKT t ws | .ptr (.struct ws) => LenOKT t ws | .nil => true | _ => false)
     else true) && LenOK r vs
  | .cons _ _ _ _ _, .nil => false
end

theorem lenOKT_structOf : (t : Ty) → (ws : Vals) → LenOKT t ws = LenOK (structOf t) ws
  | .ptr t, ws => by rw [LenOKT, structOf]; exact lenOKT_structOf t ws
  | .named _ t, ws => by rw [LenOKT, structOf]; exact lenOKT_structOf t ws
  | .struct fs, ws => by rw [LenOKT, structOf]
  | .bool, _ | .int _, _ | .f32, _ | .f64, _ | .str, _ | .bytes, _ | .any, _
  | .arr _ _, _ | .slice _, _ | .map _ _, _ => by simp [LenOKT, structOf, LenOK]

/-- the struct behind an embedded member whose value is the zero value -/
theorem inner_zero : (t : Ty) →
    (match zeroOf t with | .struct ws => ws | .ptr (.struct ws) => ws | _ => zeroFields (structOf t)) = zeroFields (structOf t)
  | .struct fs => by simp [zeroOf, structOf]
  | .named _ t => by rw [zeroOf, structOf]; exact inner_zero t
  | .ptr _ | .bool | .int _ | .f32 | .f64 | .str | .bytes | .any | .slice _ | .map _ _ => by simp [zeroOf]
  | .arr _ _ => by simp [zeroOf]

mutual
theorem embZeroOK : (t : Ty) →
    (match zeroOf t with | .struct ws => LenOKT t ws | .ptr (.struct ws) => LenOKT t ws | .nil => true | _ => false) = true ∨
      flattenEmb t [] = none
  | .struct fs => by left; simp only [zeroOf, LenOKT]; exact lenOK_zero fs
  | .named _ t => by
    rcases embZeroOK t with h | h
    · left; rw [zeroOf]; simpa only [LenOKT] using h
    · right; rw [flattenEmb]; exact h
  | .ptr _ => by left; simp [zeroOf]
  | .bool | .int _ | .f32 | .f64 | .str | .bytes | .any | .slice _ | .map _ _ | .arr _ _ => by right; simp [flattenEmb]
theorem lenOK_zero : (fs : Fields) → LenOK fs (zeroFields fs) = true
  | .nil => by simp [LenOK]
  | .cons _ _ emb t r => by
    simp only [zeroFields, LenOK, Bool.and_eq_true]
    refine ⟨?_, lenOK_zero r⟩
    by_cases h : isEmbStruct emb t = true
    · rw [if_pos h]
      rcases embZeroOK t with h' | h'
      · exact h'
      · simp [isEmbStruct, h'] at h
    · rw [if_neg h]
end

/-! ## shifting a path by one member, entering an embedded member -/
theorem valid_shift (n tg : String) (e : Bool) (t : Ty) (rest : Fields) (v : Val) (vs : Vals) (j : Nat) (r : List Nat) :
    Valid (.cons n tg e t rest) (.cons v vs) ((j + 1) :: r) = Valid rest vs (j :: r) := by
  cases r with
  | nil => simp [Valid, Vals.length]
  | cons k r => rw [valid_cons2, valid_cons2]; simp [Vals.length, tyAtF, inner, Vals.get]
theorem getPathA_shift (n tg : String) (e : Bool) (t : Ty) (rest : Fields) (v : Val) (vs : Vals) (j : Nat) (r : List Nat) :
    getPathA (.cons n tg e t rest) (.cons v vs) ((j + 1) :: r) = getPathA rest vs (j :: r) := by
  cases r with
  | nil => simp [getPathA, Vals.get]
  | cons k r => rw [getPathA_cons2, getPathA_cons2]; simp [tyAtF, inner, Vals.get]
theorem walk_shift (v : Val) (vs : Vals) (j : Nat) (r : List Nat) :
    walk (.struct (.cons v vs)) ((j + 1) :: r) = walk (.struct vs) (j :: r) := by
  cases r with
  | nil => simp [walk, stepField, Vals.get]
  | cons k r => rw [walk, walk] <;> simp [stepField, Vals.get]

/-- the struct of the first member as the decoder sees it -/
def inner0 (t : Ty) (v : Val) : Vals :=
  match v with | .struct ws => ws | .ptr (.struct ws) => ws | _ => zeroFields (structOf t)
theorem inner_inner0 (n tg : String) (e : Bool) (t : Ty) (rest : Fields) (v : Val) (vs : Vals) :
    inner (.cons n tg e t rest) (.cons v vs) 0 = inner0 t v := by
  cases v with
  | ptr z => cases z <;> rfl
  | _ => rfl
theorem valid_enter (n tg : String) (e : Bool) (t : Ty) (rest : Fields) (v : Val) (vs : Vals) (j : Nat) (r : List Nat) :
    Valid (.cons n tg e t rest) (.cons v vs) (0 :: j :: r) = Valid (structOf t) (inner0 t v) (j :: r) := by
  rw [valid_cons2, inner_inner0]; simp [Vals.length, tyAtF]
theorem getPathA_enter (n tg : String) (e : Bool) (t : Ty) (rest : Fields) (v : Val) (vs : Vals) (j : Nat) (r : List Nat) :
    getPathA (.cons n tg e t rest) (.cons v vs) (0 :: j :: r) = getPathA (structOf t) (inner0 t v) (j :: r) := by
  rw [getPathA_cons2, inner_inner0]; simp [tyAtF]
theorem walk_enter (v : Val) (vs : Vals) (j : Nat) (r : List Nat) :
    walk (.struct (.cons v vs)) (0 :: j :: r) = match v with | .nil => none | y => walk y (j :: r) := by
  cases v <;> (rw [walk] <;> simp [stepField, Vals.get])
theorem walk_ptr_struct (ws : Vals) (j : Nat) (r : List Nat) :
    walk (.ptr (.struct ws)) (j :: r) = walk (.struct ws) (j :: r) := by
  cases r with
  | nil => simp [walk, stepField]
  | cons k r => rw [walk, walk] <;> simp [stepField]

theorem mem_flatten_index (fs : Fields) (ff : FlatField) (h : ff ∈ flatten fs [] 0) : ∃ j r, ff.index = j :: r := by
  obtain ⟨j, r, _, h⟩ := flatten_index fs [] 0 ff h
  exact ⟨j, r, by simpa using h⟩

theorem inner0_named (n : String) (t : Ty) (v : Val) : inner0 (.named n t) v = inner0 t v := by
  cases v with
  | ptr z => cases z <;> rfl
  | _ => rfl
theorem inner0_zero : (t : Ty) → inner0 t (zeroOf t) = zeroFields (structOf t)
  | .struct fs => by simp [zeroOf, structOf, inner0]
  | .named n t => by rw [zeroOf, inner0_named, structOf]; exact inner0_zero t
  | .ptr _ | .bool | .int _ | .f32 | .f64 | .str | .bytes | .any | .slice _ | .map _ _ => by simp [zeroOf, inner0]
  | .arr _ _ => by simp [zeroOf, inner0]

/-- where a flattened field of `cons f rest` comes from -/
theorem flatten_cons0_mem (name tag : String) (emb : Bool) (t : Ty) (rest : Fields) (ff : FlatField)
    (h : ff ∈ flatten (.cons name tag emb t rest) [] 0) :
    (∃ g ∈ flatten rest [] 0, ∃ j r, g.index = j :: r ∧ ff.index = (j + 1) :: r ∧ ff.ty = g.ty) ∨
    (isEmbStruct emb t = true ∧ ∃ g ∈ flatten (structOf t) [] 0, ∃ j r, g.index = j :: r ∧ ff.index = 0 :: j :: r ∧ ff.ty = g.ty) ∨
    (ff.index = [0] ∧ ff.ty = t ∧ isEmbStruct emb t = false) := by
  rw [flatten_cons0] at h
  rcases List.mem_append.mp h with h | h
  · right
    by_cases h1 : (!isExported name && !emb) = true
    · simp [h1] at h
    · rw [if_neg h1] at h
      by_cases h2 : isEmbStruct emb t = true
      · rw [if_pos h2] at h
        obtain ⟨g, hg, rfl⟩ := List.mem_map.mp h
        obtain ⟨j, r, hj⟩ := mem_flatten_index _ g hg
        exact Or.inl ⟨h2, g, hg, j, r, hj, by simp [pre, hj], rfl⟩
      · rw [if_neg h2] at h
        cases ht : tagOf tag with
        | none => simp [ht] at h
        | some x =>
          obtain ⟨id, req, en⟩ := x
          simp only [ht, List.mem_singleton] at h; subst h; exact Or.inr ⟨rfl, rfl, by simpa using h2⟩
  · left
    obtain ⟨g, hg, rfl⟩ := List.mem_map.mp h
    obtain ⟨j, r, hj⟩ := mem_flatten_index _ g hg
    exact ⟨g, hg, j, r, hj, by simp [bump, hj], rfl⟩

/-! ## behind a freshly allocated embedded pointer every promoted field is zero -/
mutual
theorem zeroT : (t : Ty) → ∀ ff ∈ flatten (structOf t) [] 0,
    getPathA (structOf t) (zeroFields (structOf t)) ff.index = zeroOf ff.ty
  | .ptr t => by rw [structOf]; exact zeroT t
  | .named _ t => by rw [structOf]; exact zeroT t
  | .struct fs => by rw [structOf]; exact zeroF fs
  | .bool | .int _ | .f32 | .f64 | .str | .bytes | .any | .slice _ | .map _ _ | .arr _ _ => by simp [structOf, flatten]
theorem zeroF : (fs : Fields) → ∀ ff ∈ flatten fs [] 0, getPathA fs (zeroFields fs) ff.index = zeroOf ff.ty
  | .nil => by simp [flatten]
  | .cons name tag emb t rest => by
    intro ff hff
    rw [zeroFields]
    rcases flatten_cons0_mem name tag emb t rest ff hff with ⟨g, hg, j, r, hj, hi, ht⟩ | ⟨_, g, hg, j, r, hj, hi, ht⟩ | ⟨hi, ht, _⟩
    · rw [hi, ht, getPathA_shift, ← hj]; exact zeroF rest g hg
    · rw [hi, ht, getPathA_enter, inner0_zero, ← hj]; exact zeroT t g hg
    · rw [hi, ht]; rfl
end

/-! ## on a well-shaped target every path is valid, and the decoder's read is the encoder's -/
mutual
theorem vwT : (t : Ty) → ∀ ws, LenOK (structOf t) ws = true → ∀ ff ∈ flatten (structOf t) [] 0,
    Valid (structOf t) ws ff.index = true ∧
      getPathA (structOf t) ws ff.index = (walk (.struct ws) ff.index).getD (zeroOf ff.ty)
  | .ptr t => by rw [structOf]; exact vwT t
  | .named _ t => by rw [structOf]; exact vwT t
  | .struct fs => by rw [structOf]; exact vwF fs
  | .bool | .int _ | .f32 | .f64 | .str | .bytes | .any | .slice _ | .map _ _ | .arr _ _ => by simp [structOf, flatten]
theorem vwF : (fs : Fields) → ∀ vs, LenOK fs vs = true → ∀ ff ∈ flatten fs [] 0,
    Valid fs vs ff.index = true ∧ getPathA fs vs ff.index = (walk (.struct vs) ff.index).getD (zeroOf ff.ty)
  | .nil => by simp [flatten]
  | .cons name tag emb t rest => by
    intro vs hl ff hff
    cases vs with
    | nil => simp [LenOK] at hl
    | cons v vs =>
      simp only [LenOK, Bool.and_eq_true] at hl
      obtain ⟨hemb, hrest⟩ := hl
      rcases flatten_cons0_mem name tag emb t rest ff hff with ⟨g, hg, j, r, hj, hi, ht⟩ | ⟨he, g, hg, j, r, hj, hi, ht⟩ | ⟨hi, ht, _⟩
      · rw [hi, ht, valid_shift, getPathA_shift, walk_shift, ← hj]; exact vwF rest vs hrest g hg
      · rw [if_pos he] at hemb
        rw [hi, ht, valid_enter, getPathA_enter, walk_enter, ← hj]
        cases v with
        | struct ws =>
          simp only [lenOKT_structOf] at hemb
          exact vwT t ws hemb g hg
        | ptr z =>
          cases z with
          | struct ws =>
            simp only [lenOKT_structOf] at hemb
            simp only [hj, walk_ptr_struct]; rw [← hj]
            exact vwT t ws hemb g hg
          | _ => simp at hemb
        | nil =>
          refine ⟨(vwT t _ (lenOK_zero _) g hg).1, ?_⟩
          simp only [inner0, Option.getD_none]
          exact zeroT t g hg
        | _ => simp at hemb
      · rw [hi, ht]
        simp [Valid, Vals.length, getPathA, Vals.get, walk, stepField]
end

/-! ## the decoder keeps the target well-shaped -/
/-- how the first member is stored back -/
def rewrap0 (v : Val) (ws : Vals) : Val := match v with | .struct _ => .struct ws | _ => .ptr (.struct ws)
theorem setPathA_shift (n tg : String) (e : Bool) (t : Ty) (rest : Fields) (v0 : Val) (vs : Vals) (j : Nat) (r : List Nat)
    (v : Val) :
    setPathA (.cons n tg e t rest) (.cons v0 vs) ((j + 1) :: r) v = .cons v0 (setPathA rest vs (j :: r) v) := by
  cases r with
  | nil => simp [setPathA, Vals.set]
  | cons k r =>
    rw [setPathA_cons2, setPathA_cons2]
    have h1 : inner (.cons n tg e t rest) (.cons v0 vs) (j + 1) = inner rest vs j := by simp [inner, tyAtF, Vals.get]
    have h2 : ∀ ws, rewrap (.cons v0 vs) (j + 1) ws = rewrap vs j ws := by intro ws; simp [rewrap, Vals.get]
    rw [h1, h2]; simp [Vals.set, tyAtF]
theorem setPathA_enter (n tg : String) (e : Bool) (t : Ty) (rest : Fields) (v0 : Val) (vs : Vals) (j : Nat) (r : List Nat)
    (v : Val) :
    setPathA (.cons n tg e t rest) (.cons v0 vs) (0 :: j :: r) v =
      .cons (rewrap0 v0 (setPathA (structOf t) (inner0 t v0) (j :: r) v)) vs := by
  rw [setPathA_cons2, inner_inner0]
  have h2 : ∀ ws, rewrap (.cons v0 vs) 0 ws = rewrap0 v0 ws := by
    intro ws; cases v0 <;> rfl
  rw [h2]; simp [Vals.set, tyAtF]

mutual
theorem lenOK_setT : (t : Ty) → ∀ ws, LenOK (structOf t) ws = true → ∀ ff ∈ flatten (structOf t) [] 0, ∀ v,
    LenOK (structOf t) (setPathA (structOf t) ws ff.index v) = true
  | .ptr t => by rw [structOf]; exact lenOK_setT t
  | .named _ t => by rw [structOf]; exact lenOK_setT t
  | .struct fs => by rw [structOf]; exact lenOK_setF fs
  | .bool | .int _ | .f32 | .f64 | .str | .bytes | .any | .slice _ | .map _ _ | .arr _ _ => by simp [structOf, flatten]
theorem lenOK_setF : (fs : Fields) → ∀ vs, LenOK fs vs = true → ∀ ff ∈ flatten fs [] 0, ∀ v,
    LenOK fs (setPathA fs vs ff.index v) = true
  | .nil => by simp [flatten]
  | .cons name tag emb t rest => by
    intro vs hl ff hff v
    cases vs with
    | nil => simp [LenOK] at hl
    | cons v0 vs =>
      simp only [LenOK, Bool.and_eq_true] at hl
      obtain ⟨hemb, hrest⟩ := hl
      rcases flatten_cons0_mem name tag emb t rest ff hff with ⟨g, hg, j, r, hj, hi, _⟩ | ⟨he, g, hg, j, r, hj, hi, _⟩ | ⟨hi, _, hne⟩
      · rw [hi, setPathA_shift]
        simp only [LenOK, Bool.and_eq_true]
        refine ⟨hemb, ?_⟩
        rw [← hj]; exact lenOK_setF rest vs hrest g hg v
      · rw [hi, setPathA_enter]
        rw [if_pos he] at hemb
        simp only [LenOK, Bool.and_eq_true, if_pos he]
        refine ⟨?_, hrest⟩
        have key : ∀ ws, LenOK (structOf t) ws = true →
            LenOK (structOf t) (setPathA (structOf t) ws (j :: r) v) = true := by
          intro ws hws; rw [← hj]; exact lenOK_setT t ws hws g hg v
        cases v0 with
        | struct ws =>
          simp only [lenOKT_structOf] at hemb
          simp only [rewrap0, inner0, lenOKT_structOf]; exact key ws hemb
        | ptr z =>
          cases z with
          | struct ws =>
            simp only [lenOKT_structOf] at hemb
            simp only [rewrap0, inner0, lenOKT_structOf]; exact key ws hemb
          | _ => simp at hemb
        | nil => simp only [rewrap0, inner0, lenOKT_structOf]; exact key _ (lenOK_zero _)
        | _ => simp at hemb
      · rw [hi]
        simp only [setPathA, Vals.set, LenOK, hne, Bool.false_eq_true, if_false, Bool.true_and]
        exact hrest
end

/-- every index path of the descriptor is valid in a well-shaped target -/
theorem allValid_of_lenOK (fs : Fields) (vs : Vals) (h : LenOK fs vs = true) : AllValid fs (fieldDescsE fs) vs :=
  fun ff hff => (vwF fs vs h ff hff).1

/-- on a well-shaped target the flat view the decoder works on IS the flat value of the encoder side (`flatVals`) -/
theorem viewA_eq_flatVals (fs : Fields) (vs : Vals) (h : LenOK fs vs = true) :
    viewA fs (fieldDescsE fs) vs = flatVals fs vs := by
  unfold viewA flatVals flatValsOf fieldDescsE
  congr 1
  apply List.map_congr_left
  intro ff hff
  exact (vwF fs vs h ff hff).2

/-- the zero value (the target `Unmarshal` starts from) is well-shaped -/
theorem lenOK_zeroFields (fs : Fields) : LenOK fs (zeroFields fs) = true := lenOK_zero fs

theorem mem_of_findByIdE (ffs : List FlatField) (id : Int) (ff : FlatField) (h : findByIdE ffs id = some ff) : ff ∈ ffs :=
  List.mem_of_find?_eq_some h

theorem bind_ok {α β} (x : R α) (g : α × Bytes → R β) (y : β × Bytes) (h : x.bind g = .ok y) :
    ∃ a, x = .ok a ∧ g a = .ok y := by
  cases x with
  | ok a => exact ⟨a, rfl, h⟩
  | err e => simp [Res.bind] at h
  | panic e => simp [Res.bind] at h

/-- the struct loop keeps a well-shaped target well-shaped -/
theorem decodeStructE_lenOK (p : Proto) (strict : Bool) (d : Nat) (fs : Fields) :
    ∀ (fuel : Nat) (b : Bytes) (vs : Vals) (last : Int) (num : Nat) (seen : List Int) (out : (Vals × List Int) × Bytes),
      LenOK fs vs = true → decodeStructE p strict d fs (fieldDescsE fs) fuel b vs last num seen = .ok out →
      LenOK fs out.1.1 = true
  | 0, _, _, _, _, _, _, _, h => by simp [decodeStructE] at h
  | fuel + 1, b, vs, last, num, seen, out, hl, h => by
    have ih := decodeStructE_lenOK p strict d fs fuel
    rw [decodeStructE] at h
    cases hr : rField p b with
    | err e => rw [hr] at h; simp only [] at h; split at h <;> simp at h
    | panic e => rw [hr] at h; simp at h
    | ok x =>
      obtain ⟨hd, r⟩ := x
      rw [hr] at h
      simp only [] at h
      by_cases hs : (hd.t == TType.stop) = true
      · simp only [hs, if_true] at h
        split at h
        · simp at h
        · cases h; exact hl
      · simp only [hs, Bool.false_eq_true, if_false] at h
        cases hf : findByIdE (fieldDescsE fs) (wrap16 (if hd.delta then hd.id + last else hd.id)) with
        | none =>
          simp only [hf] at h
          obtain ⟨a, _, ha⟩ := bind_ok _ _ _ h
          exact ih _ _ _ _ _ _ hl ha
        | some ff =>
          have hmem : ff ∈ flatten fs [] 0 := mem_of_findByIdE _ _ _ hf
          simp only [hf] at h
          split at h
          · split at h
            · simp at h
            · obtain ⟨a, _, ha⟩ := bind_ok _ _ _ h
              exact ih _ _ _ _ _ _ hl ha
          · split at h
            · simp at h
            · split at h
              · exact ih _ _ _ _ _ _ (lenOK_setF fs vs hl ff hmem _) h
              · obtain ⟨a, _, ha⟩ := bind_ok _ _ _ h
                exact ih _ _ _ _ _ _ (lenOK_setF fs vs hl ff hmem _) ha

/-! ## the `CanSet` test: nothing is blocked when every name on the way is exported -/
def pathExported : Fields → List Nat → Bool
  | _, [] => true
  | fs, i :: rest => isExported (nameAtF fs i) && pathExported (structOf (tyAtF fs i)) rest
/-- every member on the index path of every promoted field is exported (embedded types with exported names) -/
def PathsExported (fs : Fields) : Bool := (fieldDescsE fs).all fun ff => pathExported fs ff.index

theorem blocked_cons2 (fs : Fields) (vs : Vals) (i j : Nat) (r : List Nat) :
    blocked fs vs (i :: j :: r) =
      (((match Vals.get vs i with | .nil => true | _ => false) && !isExported (nameAtF fs i)) ||
        blocked (structOf (tyAtF fs i))
          (match Vals.get vs i with | .struct ws => ws | .ptr (.struct ws) => ws | _ => zeroFields (structOf (tyAtF fs i)))
          (j :: r)) := by
  rw [blocked]
  · cases Vals.get vs i with
    | ptr z => cases z <;> rfl
    | _ => rfl
  · simp

theorem blocked_false : ∀ (p : List Nat) (fs : Fields) (vs : Vals), pathExported fs p = true → blocked fs vs p = false
  | [], _, _, _ => rfl
  | [i], fs, vs, h => by
    simp only [pathExported, Bool.and_true] at h
    simp [blocked, h]
  | i :: j :: r, fs, vs, h => by
    simp only [pathExported, Bool.and_eq_true] at h
    rw [blocked_cons2, blocked_false (j :: r) _ _ (by simpa [pathExported] using h.2)]
    simp [h.1]

theorem noBlock_of_exported (fs : Fields) (h : PathsExported fs = true) :
    ∀ ff ∈ fieldDescsE fs, ∀ vs, blocked fs vs ff.index = false :=
  fun ff hff vs => blocked_false _ _ vs ((List.all_eq_true.mp h) ff hff)

/-- an embedded pointer to a struct type with an UNEXPORTED name: while it is nil the decoder cannot store a promoted
field (Go: "cannot set embedded field of unexported type"); the flat struct has no such obstacle — embedding is not
transparent there -/
theorem unexported_embedded_pointer_blocked (nm n t : String) (ty : Ty) (rest : Fields) (vs : Vals)
    (hn : isExported nm = false) :
    blocked (.cons nm "" true (.ptr (.struct (.cons n t false ty .nil))) rest) (.cons .nil vs) [0, 0] = true := by
  rw [blocked_cons2]; simp [Vals.get, nameAtF, hn]

/-- **Embedding is transparent for the decoder**: decoding into the flat struct type, started on the flat value of the
target (`flatVals`: the promoted fields gathered along their index paths, zero values behind nil embedded pointers), gives
the flat value of what decoding into the struct with embedded fields gives — the same error otherwise, the same rest of
the input — for every descriptor, every well-shaped target (`LenOK`; the zero value `Unmarshal` starts from is one), every
input, protocol, strictness, depth and fuel; `PathsExported`: the embedded types on the way to a promoted field have
exported names (otherwise `unexported_embedded_pointer_blocked`). -/
theorem embedded_decode_eq_flat (p : Proto) (strict : Bool) (d : Nat) (fs : Fields) (fuel : Nat) (b : Bytes) (vs : Vals)
    (h : LenOK fs vs = true) (hx : PathsExported fs = true) :
    decode p strict d fuel (.struct (flatFields fs)) b (.struct (flatVals fs vs)) =
      mapS (flatVals fs) (decodeE p strict d fuel (.struct fs) b (.struct vs)) := by
  rw [← viewA_eq_flatVals fs vs h,
    decodeE_flat p strict d fs (pathsIndep_flatten fs) (noBlock_of_exported fs hx) fuel b vs (allValid_of_lenOK fs vs h)]
  cases fuel with
  | zero => rw [decodeE]; rfl
  | succ fuel =>
    rw [decodeE]
    simp only []
    by_cases hd : tooDeep d = true
    · simp only [hd, if_true]; rfl
    · simp only [hd, Bool.false_eq_true, if_false]
      cases hx : decodeStructE p strict (d + 1) fs (fieldDescsE fs) fuel b vs 0 0 [] with
      | err e => rfl
      | panic e => rfl
      | ok x =>
        have hok := decodeStructE_lenOK p strict (d + 1) fs fuel b vs 0 0 [] x h hx
        obtain ⟨⟨vs', seen⟩, r⟩ := x
        simp only [Res.bind]
        split
        · rfl
        · simp only [mapS, viewA_eq_flatVals fs vs' hok]

/-! ## scatter after gather: `unflatVals` is a right inverse of `flatVals` -/
theorem scatter_spec (fs : Fields) (ffs : List FlatField) (hI : PathsIndep ffs) (ws : Vals) :
    ∀ (r : List FlatField) (k : Nat) (vs : Vals), (∀ j, r[j]? = ffs[k + j]?) → AllValid fs ffs vs →
      AllValid fs ffs (scatter fs r k ws vs) ∧
      ∀ j ff, ffs[j]? = some ff →
        getPathA fs (scatter fs r k ws vs) ff.index = if k ≤ j then Vals.get ws j else getPathA fs vs ff.index
  | [], k, vs, hr, hv => by
    refine ⟨hv, ?_⟩
    intro j ff hj
    rw [scatter]
    have : ¬ k ≤ j := by
      intro hk
      have := hr (j - k)
      rw [show k + (j - k) = j by omega, hj] at this
      simp at this
    rw [if_neg this]
  | f :: r, k, vs, hr, hv => by
    have hk : ffs[k]? = some f := by have := hr 0; simpa using this.symm
    have hv' := allValid_set fs ffs hI vs hv k f hk (Vals.get ws k)
    obtain ⟨ihv, ih⟩ := scatter_spec fs ffs hI ws r (k + 1) _
      (fun j => by have := hr (j + 1); simpa [Nat.add_assoc, Nat.add_comm 1 j] using this) hv'
    rw [scatter]
    refine ⟨ihv, ?_⟩
    intro j ff hj
    rw [ih j ff hj]
    by_cases h1 : k + 1 ≤ j
    · rw [if_pos h1, if_pos (by omega)]
    · rw [if_neg h1]
      by_cases h2 : k = j
      · subst h2
        rw [hk] at hj; cases hj
        rw [if_pos (Nat.le_refl _)]
        exact get_set_same _ _ _ _ (hv f (List.mem_of_getElem? hk))
      · rw [if_neg (by omega)]
        exact get_set_indep _ _ _ _ _ (hI k j f ff hk hj h2)

theorem scatter_lenOK (fs : Fields) (ws : Vals) : ∀ (r : List FlatField) (k : Nat) (vs : Vals),
    (∀ ff ∈ r, ff ∈ flatten fs [] 0) → LenOK fs vs = true → LenOK fs (scatter fs r k ws vs) = true
  | [], _, _, _, h => by rw [scatter]; exact h
  | f :: r, k, vs, hm, h => by
    rw [scatter]
    exact scatter_lenOK fs ws r (k + 1) _ (fun ff hff => hm ff (List.mem_cons_of_mem _ hff))
      (lenOK_setF fs vs h f (hm f (List.mem_cons_self ..)) _)

/-- **`unflatVals` inverts `flatVals`**: scatter the flat values `ws` over a well-shaped target along the index paths
(allocating embedded pointers as the decoder does), gather again: every promoted field holds its value of `ws`, and the
result is well-shaped. -/
theorem flat_unflat (fs : Fields) (vs ws : Vals) (h : LenOK fs vs = true) :
    LenOK fs (unflatVals fs vs ws) = true ∧
    ∀ j ff, (fieldDescsE fs)[j]? = some ff → Vals.get (flatVals fs (unflatVals fs vs ws)) j = Vals.get ws j := by
  have hl : LenOK fs (unflatVals fs vs ws) = true :=
    scatter_lenOK fs ws (fieldDescsE fs) 0 vs (fun ff hff => hff) h
  refine ⟨hl, ?_⟩
  intro j ff hj
  rw [← viewA_eq_flatVals fs _ hl, viewA, get_ofList_map _ _ j ff hj]
  have := (scatter_spec fs (fieldDescsE fs) (pathsIndep_flatten fs) ws (fieldDescsE fs) 0 vs (fun j => by simp)
    (allValid_of_lenOK fs vs h)).2 j ff hj
  simpa [unflatVals] using this

#print axioms flat_unflat

/-! ## the index paths address the right values: `flatVals` without paths -/
mutual
def gatherT : Ty → Vals → List Val
  | .ptr t, ws => gatherT t ws
  | .named _ t, ws => gatherT t ws
  | .struct fs, ws => gatherF fs ws
  | _, _ => []
/-- the promoted fields' values read off the nested value by recursion on the type, no index paths: the members in
order; an embedded struct member contributes its own gathered values (through one pointer), a nil embedded pointer the zero
values of its promoted fields; unexported non-embedded and untagged members nothing -/
def gatherF : Fields → Vals → List Val
  | .nil, _ => []
  | .cons _ _ _ _ _, .nil => []
  | .cons name tag emb t rest, .cons v vs =>
    (if !isExported name && !emb then []
     else if isEmbStruct emb t then
       (match v with
        | .struct ws => gatherT t ws
        | .ptr (.struct ws) => gatherT t ws
        | _ => (flatten (structOf t) [] 0).map fun ff => zeroOf ff.ty)
     else match tagOf tag with
       | none => []
       | some _ => [v])
    ++ gatherF rest vs
end

theorem gatherF_cons (name tag : String) (emb : Bool) (t : Ty) (rest : Fields) (v : Val) (vs : Vals) :
    gatherF (.cons name tag emb t rest) (.cons v vs) =
    (if !isExported name && !emb then []
     else if isEmbStruct emb t then
       (match v with
        | .struct ws => gatherT t ws
        | .ptr (.struct ws) => gatherT t ws
        | _ => (flatten (structOf t) [] 0).map fun ff => zeroOf ff.ty)
     else match tagOf tag with
       | none => []
       | some _ => [v])
    ++ gatherF rest vs := by
  simp only [gatherF]

def rd (vs : Vals) (ff : FlatField) : Val := (walk (.struct vs) ff.index).getD (zeroOf ff.ty)

theorem map_congr_mem {α β} (l : List α) (f g : α → β) (h : ∀ a ∈ l, f a = g a) : l.map f = l.map g :=
  List.map_congr_left h

mutual
theorem gatherT_eq : (t : Ty) → ∀ ws, LenOK (structOf t) ws = true →
    (flatten (structOf t) [] 0).map (rd ws) = gatherT t ws
  | .ptr t => by intro ws h; rw [structOf] at h ⊢; rw [gatherT]; exact gatherT_eq t ws h
  | .named _ t => by intro ws h; rw [structOf] at h ⊢; rw [gatherT]; exact gatherT_eq t ws h
  | .struct fs => by intro ws h; rw [structOf] at h ⊢; rw [gatherT]; exact gatherF_eq fs ws h
  | .bool | .int _ | .f32 | .f64 | .str | .bytes | .any | .slice _ | .map _ _ | .arr _ _ => by
    intro ws _; simp [structOf, flatten, gatherT]
theorem gatherF_eq : (fs : Fields) → ∀ vs, LenOK fs vs = true → (flatten fs [] 0).map (rd vs) = gatherF fs vs
  | .nil => by intro vs _; simp [flatten, gatherF]
  | .cons name tag emb t rest => by
    intro vs hl
    cases vs with
    | nil => simp [LenOK] at hl
    | cons v vs =>
      simp only [LenOK, Bool.and_eq_true] at hl
      obtain ⟨hemb, hrest⟩ := hl
      rw [flatten_cons0, gatherF_cons, List.map_append]
      congr 1
      · by_cases h1 : (!isExported name && !emb) = true
        · simp only [h1, if_true, List.map_nil]
        · simp only [h1, Bool.false_eq_true, if_false]
          by_cases h2 : isEmbStruct emb t = true
          · rw [if_pos h2] at hemb
            simp only [h2, if_true, List.map_map]
            have hw : ∀ g ∈ flatten (structOf t) [] 0,
                (rd (.cons v vs) ∘ pre [0]) g = (match v with | .nil => none | y => walk y g.index).getD (zeroOf g.ty) := by
              intro g hg
              obtain ⟨j, r, hj⟩ := mem_flatten_index _ g hg
              simp only [Function.comp, rd, pre, hj, List.singleton_append, walk_enter]
            rw [map_congr_mem _ _ _ hw]
            cases v with
            | struct ws =>
              simp only [lenOKT_structOf] at hemb
              exact gatherT_eq t ws hemb
            | ptr z =>
              cases z with
              | struct ws =>
                simp only [lenOKT_structOf] at hemb
                show List.map _ _ = gatherT t ws
                rw [← gatherT_eq t ws hemb]
                apply map_congr_mem
                intro g hg
                obtain ⟨j, r, hj⟩ := mem_flatten_index _ g hg
                simp only [hj, walk_ptr_struct, rd]
              | _ => simp at hemb
            | nil => simp
            | _ => simp at hemb
          · simp only [h2, Bool.false_eq_true, if_false]
            rcases tagOf tag with _ | ⟨id, req, en⟩
            · rfl
            · simp [rd, walk, stepField, Vals.get]
      · rw [← gatherF_eq rest vs hrest, List.map_map]
        apply map_congr_mem
        intro g hg
        obtain ⟨j, r, hj⟩ := mem_flatten_index _ g hg
        simp only [Function.comp, rd, bump, hj, walk_shift]
end

/-- **The index paths address the right values**: the flat values gathered along the index paths (`FieldByIndex`, what
`embedded_eq_flat` encodes) are the values read off the nested value by plain recursion on the type (`gatherF`, no paths). -/
theorem flatVals_eq_gather (fs : Fields) (vs : Vals) (h : LenOK fs vs = true) :
    (flatVals fs vs).toList = gatherF fs vs := by
  rw [← gatherF_eq fs vs h]
  unfold flatVals flatValsOf
  have : ∀ l : List Val, (Vals.ofList l).toList = l := by
    intro l; induction l with
    | nil => rfl
    | cons a r ih => simp [Vals.ofList, Vals.toList, ih]
  rw [this]
  rfl

#print axioms flatVals_eq_gather

/-! ## non-vacuity (shapes of harness/thriftemb.go, `Witness` of ThriftEmbed.lean) -/
namespace Witness
def showR (r : R Val) : String :=
  match r with | .ok (v, rest) => "ok:" ++ v.show ++ "/" ++ toHex rest | .err e => "err:" ++ e | .panic e => "panic:" ++ e
-- the hypothesis of `embedded_decode_eq_flat`: the values of the encoder witnesses, nil embedded pointers, the zero target
#guard [TE1, TP1, TS1, TW1].all PathsExported
#guard LenOK TE1 vE1 && LenOK TP1 vP1 && LenOK TP1 vP1nil && LenOK TP1 vP1nil2 && LenOK TP1 (zeroFields TP1)
#guard !LenOK TP1 (mk [.str [], .int 3, .int 9])        -- an embedded member that is not a struct / pointer / nil
-- both sides on concrete inputs: the bytes of vP1 decoded into the zero target and into a target with nil pointers;
-- a truncated input (same error on both sides); an input with an unknown field and trailing bytes
#guard protos.all fun p => [zeroFields TP1, vP1nil, vP1nil2, vP1].all fun tgt =>
  [encodeE p (.struct TP1) (.struct vP1), (encodeE p (.struct TP1) (.struct vP1)).take 9,
   encodeE p (.struct TP1) (.struct vP1nil) ++ [1, 2]].all fun b =>
    showR (decode p true 0 100 (.struct (flatFields TP1)) b (.struct (flatVals TP1 tgt))) ==
      showR (mapS (flatVals TP1) (decodeE p true 0 100 (.struct TP1) b (.struct tgt)))
#guard showR (decodeE .compact true 0 100 (.struct TP1) (encodeE .compact (.struct TP1) (.struct vP1nil)) (.struct (zeroFields TP1)))
  == "ok:t 3 s 68 p t 3 t 2 nil i -3 nil b1 i 9/-"
-- the paths of the four shapes are pairwise independent and valid in the zero target (instances of the general theorems)
#guard [TE1, TP1, TS1, TW1].all fun fs => (fieldDescsE fs).all fun a => (fieldDescsE fs).all fun b =>
  a.index == b.index || Indep a.index b.index
#guard [TE1, TP1, TS1, TW1].all fun fs => (fieldDescsE fs).all fun a => Valid fs (zeroFields fs) a.index
#guard (gatherF TE1 vE1).map Val.show == (flatVals TE1 vE1).toList.map Val.show && (gatherF TP1 vP1nil).length == 8
-- `flat_unflat`: the flat values of vP1 scattered over the zero target and over a target with nil pointers give vP1 back
#guard (unflatVals TP1 (zeroFields TP1) (flatVals TP1 vP1)).show == vP1.show && (unflatVals TP1 vP1nil2 (flatVals TE1 vE1)).show == vP1.show
#guard (flatVals TP1 (unflatVals TP1 vP1nil (flatVals TE1 vE1))).show == (flatVals TE1 vE1).show
-- unexported embedded types (harness shape TU1 = struct{ *tu2; tv2; D bool }): a field of the nil *tu2 cannot be stored,
-- a field of the value tv2 can
def TU1 : Fields := .cons "tu2" "" true (.ptr (.named "tu2" (.struct (.cons "A" (tg "1") false (.int .i32) <|
  .cons "B" (tg "2") false .str .nil)))) <| .cons "tv2" "" true (.named "tv2" (.struct (.cons "C" (tg "3") false (.int .i64) .nil))) <|
  .cons "D" (tg "4") false .bool .nil
#guard !PathsExported TU1 && !isExported "tu2"
#guard showR (decodeE .compact false 0 100 (.struct TU1) [0x15, 0x02, 0x00] (.struct (zeroFields TU1))) == "err:cannotSet"
#guard showR (decodeE .compact false 0 100 (.struct TU1) [0x36, 0x02, 0x11, 0x00] (.struct (zeroFields TU1))) == "ok:t 3 nil t 1 i 1 b1/-"
end Witness

#print axioms embedded_decode_eq_flat
#print axioms pathsIndep_flatten
#print axioms viewA_eq_flatVals

end Enc.Lemmas.ThriftEmbed
