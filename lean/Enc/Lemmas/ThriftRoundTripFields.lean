import Enc.Lemmas.ThriftRoundTripStruct
/-!
C04, from the per-field round trips to the struct: the field table `fieldDescs fs` (positions, ids), the records
`fieldRecs p fs vs`, lookup by id, required-field bookkeeping, and `decodeStruct_fields`: the struct decoder started on
the zero value consumes `emitFields p (sortRecs (fieldRecs p fs vs)) 0 ++ stop` and yields `normFields fs vs`.
-/
namespace Enc.Lemmas.ThriftRoundTrip
open Enc Enc.Model.Thrift Enc.Lemmas.ThriftPrim Enc.Lemmas.ThriftSkip

/-! ### the field table -/
theorem go_cons (n tag : String) (e : Bool) (t : Ty) (rest : Fields) (k : Nat) :
    fieldDescs.go (.cons n tag e t rest) k =
      match parseTag tag with
      | none => fieldDescs.go rest (k + 1)
      | some (id, req, en) => { pos := k, id := id, required := req, enum := en, ty := t } :: fieldDescs.go rest (k + 1) := by
  rw [fieldDescs.go.eq_def]
  simp only
  unfold parseTag
  cases tagValue tag with
  | none => rfl
  | some v =>
    simp only
    by_cases hv : (v == "") = true
    · simp only [hv, if_true]
    · simp only [hv, Bool.false_eq_true, if_false]
      cases ((v.splitOn ",").headD "").toInt? <;> rfl

theorem go_nil (k : Nat) : fieldDescs.go .nil k = [] := by rw [fieldDescs.go.eq_def]

theorem go_pos : ∀ (fs : Fields) (k : Nat),
    (fieldDescs.go fs k).Pairwise (fun a b => a.pos < b.pos) ∧ ∀ d ∈ fieldDescs.go fs k, k ≤ d.pos
  | .nil, k => by simp [go_nil]
  | .cons n tag e t rest, k => by
    obtain ⟨ih1, ih2⟩ := go_pos rest (k + 1)
    rw [go_cons]
    cases parseTag tag with
    | none => exact ⟨ih1, fun d hd => by have := ih2 d hd; omega⟩
    | some x =>
      obtain ⟨id, req, en⟩ := x
      simp only
      refine ⟨List.pairwise_cons.mpr ⟨fun d hd => ?_, ih1⟩, fun d hd => ?_⟩
      · have := ih2 d hd; simp only; omega
      · rcases List.mem_cons.mp hd with rfl | hd
        · simp
        · have := ih2 d hd; omega

theorem eq_of_pos_eq : ∀ (l : List FieldDesc), l.Pairwise (fun a b => a.pos < b.pos) →
    ∀ a ∈ l, ∀ b ∈ l, a.pos = b.pos → a = b := by
  intro l
  induction l with
  | nil => intro _ a ha; cases ha
  | cons x l ih =>
    intro hp a ha b hb e
    rw [List.pairwise_cons] at hp
    rcases List.mem_cons.mp ha with hax | ha
    · rcases List.mem_cons.mp hb with hbx | hb
      · rw [hax, hbx]
      · have := hp.1 b hb; rw [hax] at e; omega
    · rcases List.mem_cons.mp hb with hbx | hb
      · have := hp.1 a ha; rw [hbx] at e; omega
      · exact ih hp.2 a ha b hb e

theorem findById_of_mem : ∀ (descs : List FieldDesc), (descs.map (·.id)).Nodup →
    ∀ d ∈ descs, findById descs d.id = some d := by
  intro descs
  induction descs with
  | nil => intro _ d hd; cases hd
  | cons a l ih =>
    intro hnd d hd
    rw [List.map_cons, List.nodup_cons] at hnd
    unfold findById at ih ⊢
    rw [List.find?_cons]
    by_cases ha : (a.id == d.id) = true
    · simp only [ha]
      rcases List.mem_cons.mp hd with rfl | hd
      · rfl
      · exfalso; apply hnd.1
        rw [beq_iff_eq] at ha
        rw [ha]; exact List.mem_map_of_mem hd
    · simp only [ha]
      rcases List.mem_cons.mp hd with rfl | hd
      · simp at ha
      · exact ih hnd.2 d hd

theorem emitted_parseTag (tag : String) (t : Ty) (x : Val) (id : Int) (en : Bool)
    (h : emitted tag t x = some (id, en)) : ∃ req, parseTag tag = some (id, req, en) := by
  unfold emitted at h
  cases hp : parseTag tag with
  | none => simp [hp] at h
  | some y =>
    obtain ⟨id', req, en'⟩ := y
    simp only [hp] at h
    split at h
    · cases h
    · split at h
      · cases h
      · cases h; exact ⟨req, rfl⟩

theorem emitted_none_of_parseTag (tag : String) (t : Ty) (x : Val) (h : parseTag tag = none) :
    emitted tag t x = none := by
  unfold emitted; rw [h]

/-- the emitted ids are a sublist of the declared ids -/
theorem emittedIds_sublist : ∀ (fs : Fields) (vs : Vals) (k : Nat),
    (emittedIds fs vs).Sublist ((fieldDescs.go fs k).map (·.id))
  | .nil, _, _ => by simp [emittedIds]
  | .cons _ _ _ _ _, .nil, _ => by simp [emittedIds]
  | .cons n tag e t rest, .cons x vs, k => by
    have ih := emittedIds_sublist rest vs (k + 1)
    rw [emittedIds, go_cons]
    cases hem : emitted tag t x with
    | none =>
      simp only
      cases parseTag tag with
      | none => exact ih
      | some y => obtain ⟨id, req, en⟩ := y; simp only [List.map_cons]; exact List.Sublist.cons _ ih
    | some y =>
      obtain ⟨id, en⟩ := y
      obtain ⟨req, hp⟩ := emitted_parseTag tag t x id en hem
      simp only [hp, List.map_cons]
      exact List.Sublist.cons_cons _ ih

/-- a required declared field is always emitted when it is set -/
theorem required_emitted : ∀ (fs : Fields) (vs : Vals) (k : Nat), RTSFields fs vs = true →
    ∀ d ∈ fieldDescs.go fs k, d.required = true → d.id ∈ emittedIds fs vs
  | .nil, _, k, _ => by simp [go_nil]
  | .cons _ _ _ _ _, .nil, _, h => by simp [RTSFields] at h
  | .cons n tag e t rest, .cons x vs, k, h => by
    rw [RTSFields_cons] at h
    simp only [Bool.and_eq_true] at h
    have ih := required_emitted rest vs (k + 1) h.1.1
    have hreq := h.1.2
    intro d hd hr
    rw [go_cons] at hd
    rw [emittedIds]
    cases hp : parseTag tag with
    | none =>
      rw [hp] at hd
      rw [emitted_none_of_parseTag tag t x hp]
      exact ih d hd hr
    | some y =>
      obtain ⟨id, req, en⟩ := y
      rw [hp] at hd
      rcases List.mem_cons.mp hd with rfl | hd
      · simp only at hr
        subst hr
        have hnil : isNilPtr t x = false := by simpa [requiredSet, hp] using hreq
        have : emitted tag t x = some (id, en) := by simp [emitted, hp, hnil]
        simp [this]
      · have := ih d hd hr
        cases emitted tag t x with
        | none => exact this
        | some y => exact List.mem_cons_of_mem _ this

/-! ### per-field steps -/

/-- the round trip of one emitted field of type `t` (tag flag `en`) holding `x`, as the struct decoder performs it
(`d` = nesting depth of the struct's fields = the struct's own depth + 1) -/
def FieldStep (p : Proto) (strict : Bool) (d : Nat) (t : Ty) (en : Bool) (x : Val) : Prop :=
  (∀ k, en = true → baseOf t = .int k →
    ∃ i, (∀ rest, rI32 p (fieldBody p en t x ++ rest) = .ok (i, rest)) ∧
      wrapPtr t (.int (wrapTo k.bits i)) = norm t x) ∧
  (¬ (en = true ∧ ∃ k, baseOf t = .int k) →
    ∀ fuel rest, (fieldBody p en t x).length + depth t ≤ fuel →
      decode p strict d fuel t (fieldBody p en t x ++ rest) (zeroOf t) = .ok (norm t x, rest)) ∧
  (typeOf t = .bool → wrapPtr t (.bool (fieldIsTrue x)) = norm t x)

def AllSteps (p : Proto) (strict : Bool) (d : Nat) : Fields → Vals → Prop
  | .cons _ tag _ t rest, .cons x vs =>
    (match emitted tag t x with
     | none => True
     | some (_, en) => FieldStep p strict d t en x) ∧ AllSteps p strict d rest vs
  | _, _ => True

theorem ValStep_mono (p : Proto) (strict : Bool) (d : Nat) (fd : FieldDesc) (body : Bytes) (B B' : Nat) (z w : Val)
    (h : ValStep p strict d fd body B z w) (hB : B ≤ B') : ValStep p strict d fd body B' z w :=
  ⟨h.1, fun hn fuel rest hf => h.2 hn fuel rest (by omega)⟩

theorem normFields_length : ∀ (fs : Fields) (vs : Vals), RTSFields fs vs = true →
    (normFields fs vs).length = (zeroFields fs).length
  | .nil, .nil, _ => rfl
  | .nil, .cons _ _, h => by simp [RTSFields] at h
  | .cons _ _ _ _ _, .nil, h => by simp [RTSFields] at h
  | .cons n tag e t rest, .cons x vs, h => by
    rw [RTSFields_cons] at h
    simp only [Bool.and_eq_true] at h
    simp only [normFields, zeroFields, Vals.length, normFields_length rest vs h.1.1]

/-- every emitted record is declared: descriptor, position (relative to the offset `k`), value step -/
theorem recs_declared (p : Proto) (strict : Bool) (d : Nat) : ∀ (fs : Fields) (vs : Vals) (k : Nat),
    RTSFields fs vs = true → AllSteps p strict d fs vs →
    ∀ f ∈ fieldRecs p fs vs, isReal f.t = true ∧ f.t ≠ .true_ ∧
      ∃ fd ∈ fieldDescs.go fs k, ∃ n, fd.pos = k + n ∧ fd.id = f.id ∧ typeOf fd.ty = f.t ∧
        n < (normFields fs vs).length ∧
        (f.t = .bool → wrapPtr fd.ty (.bool f.isTrue) = Vals.get (normFields fs vs) n) ∧
        ValStep p strict d fd f.body (depthFields fs) (Vals.get (zeroFields fs) n) (Vals.get (normFields fs vs) n)
  | .nil, _, _, _, _ => by simp [fieldRecs]
  | .cons _ _ _ _ _, .nil, _, _, _ => by simp [fieldRecs]
  | .cons nm tag e t rest, .cons x vs, k, h, hs => by
    rw [RTSFields_cons] at h
    simp only [Bool.and_eq_true] at h
    obtain ⟨⟨hrest, _⟩, hfield⟩ := h
    obtain ⟨hstep, hsrest⟩ := hs
    have ih := recs_declared p strict d rest vs (k + 1) hrest hsrest
    -- a record of the tail
    have tail : ∀ f ∈ fieldRecs p rest vs, isReal f.t = true ∧ f.t ≠ .true_ ∧
      ∃ fd ∈ fieldDescs.go (.cons nm tag e t rest) k, ∃ n, fd.pos = k + n ∧ fd.id = f.id ∧ typeOf fd.ty = f.t ∧
        n < (normFields (.cons nm tag e t rest) (.cons x vs)).length ∧
        (f.t = .bool → wrapPtr fd.ty (.bool f.isTrue) = Vals.get (normFields (.cons nm tag e t rest) (.cons x vs)) n) ∧
        ValStep p strict d fd f.body (depthFields (.cons nm tag e t rest))
          (Vals.get (zeroFields (.cons nm tag e t rest)) n) (Vals.get (normFields (.cons nm tag e t rest) (.cons x vs)) n) := by
      intro f hf
      obtain ⟨a, b, fd, hd, n, h1, h2, h3, h4, h5, h6⟩ := ih f hf
      refine ⟨a, b, fd, ?_, n + 1, by omega, h2, h3, ?_, ?_, ?_⟩
      · rw [go_cons]
        cases parseTag tag with
        | none => exact hd
        | some y => exact List.mem_cons_of_mem _ hd
      · rw [normFields_cons]; simp only [Vals.length]; omega
      · rw [normFields_cons]; simpa only [Vals.get] using h5
      · rw [normFields_cons, depthFields_cons]
        simp only [zeroFields, Vals.get]
        exact ValStep_mono _ _ _ _ _ _ _ _ _ h6 (Nat.le_max_right ..)
    intro f hf
    rw [fieldRecs_cons] at hf
    cases hem : emitted tag t x with
    | none => rw [hem] at hf; exact tail f hf
    | some y =>
      obtain ⟨id, en⟩ := y
      rw [hem] at hf hfield hstep
      simp only at hf hfield hstep
      rcases List.mem_cons.mp hf with rfl | hf
      · simp only [Bool.and_eq_true] at hfield
        obtain ⟨req, hp⟩ := emitted_parseTag tag t x id en hem
        refine ⟨hfield.1.1, typeOf_ne_true t, ⟨k, id, req, en, t⟩, ?_, 0, rfl, rfl, rfl, ?_, ?_, ?_⟩
        · rw [go_cons, hp]; exact List.mem_cons_self ..
        · rw [normFields_cons]; simp [Vals.length]
        · rw [normFields_cons, hem]; simp only [Vals.get]; exact hstep.2.2
        · rw [normFields_cons, hem, depthFields_cons]
          simp only [zeroFields, Vals.get]
          refine ⟨hstep.1, fun hn fuel rs hfu => hstep.2.1 hn fuel rs ?_⟩
          have := Nat.le_max_left (depth t) (depthFields rest)
          omega
      · exact tail f hf

/-- a position either keeps its zero value or belongs to an emitted record -/
theorem pos_cases (p : Proto) : ∀ (fs : Fields) (vs : Vals) (k n : Nat), RTSFields fs vs = true →
    Vals.get (normFields fs vs) n = Vals.get (zeroFields fs) n ∨
      ∃ f ∈ fieldRecs p fs vs, ∃ d ∈ fieldDescs.go fs k, d.id = f.id ∧ d.pos = k + n
  | .nil, .nil, _, _, _ => Or.inl rfl
  | .nil, .cons _ _, _, _, h => by simp [RTSFields] at h
  | .cons _ _ _ _ _, .nil, _, _, h => by simp [RTSFields] at h
  | .cons nm tag e t rest, .cons x vs, k, n, h => by
    rw [RTSFields_cons] at h
    simp only [Bool.and_eq_true] at h
    rw [normFields_cons, fieldRecs_cons, go_cons]
    simp only [zeroFields]
    cases n with
    | zero =>
      simp only [Vals.get]
      cases hem : emitted tag t x with
      | none => exact Or.inl rfl
      | some y =>
        obtain ⟨id, en⟩ := y
        obtain ⟨req, hp⟩ := emitted_parseTag tag t x id en hem
        right
        simp only [hp]
        exact ⟨_, List.mem_cons_self .., _, List.mem_cons_self .., rfl, rfl⟩
    | succ n =>
      simp only [Vals.get]
      rcases pos_cases p rest vs (k + 1) n h.1.1 with hz | ⟨f, hf, d, hd, hid, hpos⟩
      · exact Or.inl hz
      · right
        refine ⟨f, ?_, d, ?_, hid, by omega⟩
        · cases emitted tag t x with
          | none => exact hf
          | some y => exact List.mem_cons_of_mem _ hf
        · cases parseTag tag with
          | none => exact hd
          | some y => exact List.mem_cons_of_mem _ hd

/-- **struct level.** Started on the zero value, the struct decoder consumes the emitted records (sorted by id) and the
stop field, yields `normFields fs vs`, and has seen every required id. -/
theorem decodeStruct_fields (p : Proto) (strict : Bool) (d : Nat) (fs : Fields) (vs : Vals) (hids : idsOK fs = true)
    (h : RTSFields fs vs = true) (hs : AllSteps p strict d fs vs) (fuel : Nat) (rest : Bytes)
    (hf : (emitFields p (sortRecs (fieldRecs p fs vs)) 0).length + 1 + depthFields fs ≤ fuel) :
    ∃ seen, decodeStruct p strict d fuel (fieldDescs fs)
        (emitFields p (sortRecs (fieldRecs p fs vs)) 0 ++ (wStopField p ++ rest)) (zeroFields fs) 0 0 []
          = .ok ((normFields fs vs, seen), rest) ∧
      (fieldDescs fs).any (fun fd => fd.required && !seen.contains fd.id) = false := by
  have hdescs : fieldDescs fs = fieldDescs.go fs 0 := rfl
  unfold idsOK at hids
  simp only [Bool.and_eq_true, decide_eq_true_eq, List.all_eq_true] at hids
  obtain ⟨hrange, hnd⟩ := hids
  have hfind : ∀ fd ∈ fieldDescs fs, findById (fieldDescs fs) fd.id = some fd := findById_of_mem _ hnd
  have hposinj := eq_of_pos_eq _ (hdescs ▸ (go_pos fs 0).1)
  have hdecl := recs_declared p strict d fs vs 0 h hs
  have hmem := fun g => mem_sortRecs g (fieldRecs p fs vs)
  -- every sorted record is declared
  have hdec : ∀ f ∈ sortRecs (fieldRecs p fs vs),
      DecRec p strict d (fieldDescs fs) (zeroFields fs) (normFields fs vs) (depthFields fs) f := by
    intro f hfm
    obtain ⟨a, b, fd, hd, n, h1, h2, h3, h4, h5, h6⟩ := hdecl f ((hmem f).mp hfm)
    rw [← hdescs] at hd
    have hr := hrange fd hd
    have hpn : fd.pos = n := by omega
    rw [h2] at hr
    refine ⟨hr.1, hr.2, a, b, fd, ?_, h3, hpn ▸ h4, ?_, ?_⟩
    · rw [← h2]; exact hfind fd hd
    · rw [hpn]; exact h5
    · rw [hpn]; exact h6
  have hnodup : ((fieldRecs p fs vs).map (·.id)).Nodup := by
    rw [emittedIds_eq]
    exact (emittedIds_sublist fs vs 0).nodup (hdescs ▸ hnd)
  have hsorted := pairwise_sortRecs _ hnodup
  have hposOf : ∀ f ∈ sortRecs (fieldRecs p fs vs), ∃ fd ∈ fieldDescs fs, fd.id = f.id ∧
      posOf (fieldDescs fs) f.id = fd.pos := by
    intro f hfm
    obtain ⟨_, _, fd, hd, n, _, h2, _⟩ := hdecl f ((hmem f).mp hfm)
    rw [← hdescs] at hd
    refine ⟨fd, hd, h2, ?_⟩
    rw [← h2]; simp [posOf, hfind fd hd]
  have hpp : (sortRecs (fieldRecs p fs vs)).Pairwise
      (fun a b => posOf (fieldDescs fs) a.id ≠ posOf (fieldDescs fs) b.id) := by
    apply List.Pairwise.imp_of_mem _ hsorted
    intro a b ha hb hlt heq
    obtain ⟨da, hda, hia, hpa⟩ := hposOf a ha
    obtain ⟨db, hdb, hib, hpb⟩ := hposOf b hb
    have : da = db := hposinj da hda db hdb (by omega)
    rw [this] at hia
    omega
  have hloop := decodeStruct_loop p strict d (fieldDescs fs) (zeroFields fs) (normFields fs vs) (depthFields fs)
    (sortRecs (fieldRecs p fs vs)) 0 0 fuel (zeroFields fs) [] rest (by omega)
    (fun f hfm => by have := (hdec f hfm).1; omega) hsorted hdec hpp (normFields_length fs vs h).symm
    (fun _ _ => rfl)
    (fun n hn => by
      rcases pos_cases p fs vs 0 n h with hz | ⟨f, hfm, fd, hd, hid, hpos⟩
      · exact hz.symm
      · exfalso
        rw [← hdescs] at hd
        apply hn f ((hmem f).mpr hfm)
        rw [← hid]; simp [posOf, hfind fd hd]; omega)
    hf
  refine ⟨_, hloop, ?_⟩
  rw [List.any_eq_false]
  intro fd hd
  simp only [Bool.and_eq_true, Bool.not_eq_true', not_and, Bool.not_eq_false]
  intro hreq
  have := required_emitted fs vs 0 h fd (hdescs ▸ hd) hreq
  rw [← emittedIds_eq p, List.mem_map] at this
  obtain ⟨f, hfm, hfid⟩ := this
  simp only [List.append_nil, List.contains_eq_mem, List.mem_reverse, List.mem_map, decide_eq_true_eq]
  exact ⟨f, (hmem f).mpr hfm, hfid⟩

end Enc.Lemmas.ThriftRoundTrip
