import Enc.Lemmas.ProtoLiberalLoop
/-!
# C12, second half: `Unmarshal` agrees with the reference decoder on EVERY input the reference accepts

"every encoding of the message produced by the reference implementation, and every legal re-encoding of it (fields in
any order, non-minimal varints, a later occurrence of a scalar field overriding an earlier one, embedded messages split
into several occurrences), is decoded by Unmarshal to the same values"

is stated as agreement of the two decoders on all inputs: `Spec.Protobuf.decode` is the liberal reference decoder
(fields in any order, varints of up to 10 bytes, last scalar wins, repeated fields accumulate, embedded messages merge,
unknown fields skipped); whatever byte string it accepts, `Model.Proto.unmarshalU` accepts and returns LITERALLY the same
value (hence also the same `canonical` form).

Universe: `tyOK (.struct fs)` (`ProtoWireRec`): fields `bool`, `int int32 int64 uint uint32 uint64` (plain, zigzag32/64
on the signed kinds, fixed32/64 on `uint32/uint64`, sfixed32/64 on `int32/int64`), `float32 float64`, `string`,
`[]byte`, nested messages of the same shape, optional `*T` (`T` scalar other than `[]byte`, or a message), repeated
`[]T` (`T` scalar, `[]byte` or a message; no zigzag/fixed tag on a repeated field = known class
`protoRepeatedZigzagOrFixed`); field numbers distinct and in 1 … 65535 (above: known class `protoFieldNumberUint16`);
both sides read the struct tag alike (`tagAgree`).  Not in the universe: maps, arrays, named types, `RawMessage`,
`[]*T`, `**T`.

  * `unmarshal_of_decode`        `Spec.decode (.struct fs) b = some v → unmarshalU (.struct fs) b = .ok v`   (any `b`)
  * `unmarshal_decode_canonical` the form asked for: `∃ v', unmarshalU … = .ok v' ∧ canonical … v' = canonical … v`
  * `unmarshal_reencoding`       two inputs the reference maps to the same value are unmarshalled to the same value
  * `unmarshal_reject`           contrapositive: if `unmarshalU` fails, the reference rejects the input as well
  * `unmarshal_of_decode_ptrmsg_partial`  the message passed by pointer-to-pointer (`Unmarshal(b, &p)`, `p *Msg`),
                                 NON-EMPTY input only (on the empty input the Go decoder leaves `p` nil, see
                                 `ProtoLiberalFindings` L2)

The converse direction and the exact class of inputs on which the Go decoder is more liberal (records with field
number 0) are in `ProtoLiberalIff` (`decode_of_unmarshal`, `unmarshal_iff_decode`, `disagree_iff`) / `ProtoLiberalFindings`.
-/
set_option linter.unusedSimpArgs false
set_option linter.unusedVariables false
namespace Enc.Lemmas.ProtoLiberal
open Enc Enc.Model.Proto Enc.Lemmas.ProtoWire Enc.Lemmas.ProtoDecode Enc.Lemmas.ProtoRoundTrip
open Enc.Spec.Protobuf (canonical decodeMsg decodeRecs parse)

/-- the reference entry point on a struct type, unfolded -/
theorem spec_decode_struct (fs : Fields) (b : Bytes) (v : Val) (h : Spec.Protobuf.decode (.struct fs) b = some v) :
    ∃ recs vs, parse (b.length + 1) b = some recs
      ∧ decodeRecs (4 * b.length + 15) fs recs (Spec.Protobuf.zeroFields fs) = some vs ∧ v = .struct vs := by
  simp only [Spec.Protobuf.decode, Spec.Protobuf.deref, Option.bind_eq_bind, Option.pure_def] at h
  cases hm : decodeMsg (4 * b.length + 16) fs b (Spec.Protobuf.zeroFields fs) with
  | none => simp [hm] at h
  | some vs =>
    simp only [hm, Option.bind_some, Option.some.injEq, Spec.Protobuf.wrapPtr] at h
    simp only [decodeMsg, Option.bind_eq_bind] at hm
    cases hp : parse (b.length + 1) b with
    | none => simp [hp] at hm
    | some recs =>
      simp only [hp, Option.bind_some] at hm
      exact ⟨recs, vs, rfl, hm, h.symm⟩

/-- the struct loop on a whole top-level buffer, from the zero message -/
theorem decode_toplevel_of_spec (fs : Fields) (hty : tyOK (.struct fs) = true) (b : Bytes) (v : Val) (fl : Flags)
    (hfl : fl.zigzag = false) (h : Spec.Protobuf.decode (.struct fs) b = some v) :
    ∃ vs, v = .struct vs ∧
      ∃ f, decodeU f (codecOf (.struct fs)) b (zeroOf (.struct fs)) fl = .ok (.struct vs, b.length) := by
  obtain ⟨recs, vs, hp, hd, rfl⟩ := spec_decode_struct fs b v h
  have hseg := loop_agree _ fs { fl with toplevel := false } b recs _ vs hty hfl hp hd
  obtain ⟨f, hf⟩ := hseg.run
  have hty' := hty
  simp only [tyOK, Bool.and_eq_true, decide_eq_true_eq] at hty'
  refine ⟨vs, rfl, f + 1, ?_⟩
  simp only [codecOf, zeroOf, zeroFields_eq fs 1 hty'.1]
  rw [decode_struct_succ, hf]; rfl

/-- **C12, liberal decoding (main theorem).**  For a message type of the universe and EVERY byte string `b`: if the
reference decoder accepts `b` as the value `v`, then `Unmarshal` accepts `b` and returns exactly `v`.  This covers the
canonical encoding and every legal re-encoding: any field order, non-minimal (over-long, ≤ 10 byte) varints in tags,
lengths and values, repeated occurrences of a scalar (last wins), occurrences of a repeated field anywhere in the
input (appended in input order), embedded messages split into several occurrences (merged), optional fields, unknown
fields of the four wire types, and the empty input. -/
theorem unmarshal_of_decode (fs : Fields) (hty : tyOK (.struct fs) = true) (b : Bytes) (v : Val)
    (h : Spec.Protobuf.decode (.struct fs) b = some v) : unmarshalU (.struct fs) b = .ok v := by
  by_cases hb : b = []
  · subst hb
    obtain ⟨recs, vs, hp, hd, rfl⟩ := spec_decode_struct fs [] v h
    simp only [List.length_nil, parse, Option.some.injEq] at hp
    subst hp
    simp only [decodeRecs, Option.some.injEq] at hd
    subst hd
    have hty' := hty
    simp only [tyOK, Bool.and_eq_true, decide_eq_true_eq] at hty'
    simp only [unmarshalU, List.isEmpty_nil, if_true, zeroOf, zeroFields_eq fs 1 hty'.1]
  · obtain ⟨vs, rfl, hf⟩ := decode_toplevel_of_spec fs hty b v { toplevel := true } rfl h
    exact unmarshal_ok (.struct fs) b (.struct vs) hb hf

/-- the statement in the form of the task: agreement up to the harness's normal form -/
theorem unmarshal_decode_canonical (fs : Fields) (hty : tyOK (.struct fs) = true) (b : Bytes) (v : Val)
    (h : Spec.Protobuf.decode (.struct fs) b = some v) :
    ∃ v', unmarshalU (.struct fs) b = .ok v' ∧ canonical (.struct fs) v' = canonical (.struct fs) v :=
  ⟨v, unmarshal_of_decode fs hty b v h, rfl⟩

/-- any two inputs that the reference reads as the same message (e.g. the canonical encoding and a re-encoding of it)
are unmarshalled to the same value -/
theorem unmarshal_reencoding (fs : Fields) (hty : tyOK (.struct fs) = true) (b b' : Bytes) (v : Val)
    (h : Spec.Protobuf.decode (.struct fs) b = some v) (h' : Spec.Protobuf.decode (.struct fs) b' = some v) :
    unmarshalU (.struct fs) b = unmarshalU (.struct fs) b' := by
  rw [unmarshal_of_decode fs hty b v h, unmarshal_of_decode fs hty b' v h']

/-- the Go decoder is at least as liberal as the reference: an input it rejects is rejected by the reference too -/
theorem unmarshal_reject (fs : Fields) (hty : tyOK (.struct fs) = true) (b : Bytes) (e : String)
    (h : unmarshalU (.struct fs) b = .err e) : Spec.Protobuf.decode (.struct fs) b = none := by
  cases hd : Spec.Protobuf.decode (.struct fs) b with
  | none => rfl
  | some v => rw [unmarshal_of_decode fs hty b v hd] at h; cases h

/-- … and it never panics on the universe: (from C07) the codec tree of a universe type has no unsupported kind.  Stated
here only through the main theorem: on accepted inputs the result is `ok`. -/
theorem unmarshal_ne_panic_of_decode (fs : Fields) (hty : tyOK (.struct fs) = true) (b : Bytes) (v : Val) (e : String)
    (h : Spec.Protobuf.decode (.struct fs) b = some v) : unmarshalU (.struct fs) b ≠ .panic e := by
  rw [unmarshal_of_decode fs hty b v h]; simp

/-- the message passed by pointer (`var p *Msg; Unmarshal(b, &p)`): same agreement on every NON-EMPTY input.
Exclusion (`_partial`): `b = []`, where `Unmarshal` returns before touching `p` (it stays nil) while the reference
yields a pointer to the zero message — `ProtoLiberalFindings` L2. -/
theorem unmarshal_of_decode_ptrmsg_partial (fs : Fields) (hty : tyOK (.struct fs) = true) (b : Bytes) (v : Val)
    (hb : b ≠ []) (h : Spec.Protobuf.decode (.ptr (.struct fs)) b = some v) :
    unmarshalU (.ptr (.struct fs)) b = .ok v := by
  have h' : Spec.Protobuf.decode (.struct fs) b = (Spec.Protobuf.decode (.ptr (.struct fs)) b).bind fun x =>
      match x with | .ptr y => some y | _ => none := by
    simp only [Spec.Protobuf.decode, Spec.Protobuf.deref, Option.bind_eq_bind, Option.pure_def]
    cases decodeMsg (4 * b.length + 16) fs b (Spec.Protobuf.zeroFields fs) <;>
      simp [Spec.Protobuf.wrapPtr]
  have hv : ∃ vs, v = .ptr (.struct vs) := by
    simp only [Spec.Protobuf.decode, Spec.Protobuf.deref, Option.bind_eq_bind, Option.pure_def] at h
    cases hm : decodeMsg (4 * b.length + 16) fs b (Spec.Protobuf.zeroFields fs) with
    | none => simp [hm] at h
    | some vs => simp [hm, Spec.Protobuf.wrapPtr] at h; exact ⟨vs, h.symm⟩
  obtain ⟨vs, rfl⟩ := hv
  rw [h] at h'
  simp only [Option.bind_some] at h'
  obtain ⟨vs', e, f, hf⟩ := decode_toplevel_of_spec fs hty b _ { toplevel := true } rfl h'
  simp only [Val.struct.injEq] at e
  subst e
  apply unmarshal_ok (.ptr (.struct fs)) b _ hb
  refine ⟨f + 1, ?_⟩
  have hz : zeroOfCodec (codecOf (.struct fs)) = zeroOf (.struct fs) := by
    have := zeroOfCodec_codecFor (.struct fs) { number := 0 } hty
    simpa only [codecFor] using this
  simp only [codecOf, zeroOf] at hf hz ⊢
  rw [decode_ptr]
  simp only [ptrTgt, hz, hf, Res.bind]

end Enc.Lemmas.ProtoLiberal
