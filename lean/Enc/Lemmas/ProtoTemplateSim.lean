import Enc.Model.ProtoTemplate
/-!
# `rewriteT` on `bitOr`-free trees is `rewrite` (Model/ProtoRewrite.lean)

`RwT` = `Rw` + the `bitOr` leaf; `RwT.toRw?` embeds the trees without that leaf. The two interpreters are the same
function on them, so every C19 theorem about `rewrite` (`rewrite_spec`, `untemplated_fields_kept`, …) speaks about the
trees that `parseTemplate` builds when no `BitOr` rule is used.
-/
namespace Enc.Lemmas.ProtoTemplate
open Enc Enc.Model.Proto

theorem getRwT_toRw : ∀ (rs : List (Nat × RwT)) (rs' : List (Nat × Rw)) (f : Nat), RwT.entsToRw? rs = some rs' →
    (getRwT rs f = none ∧ getRw rs' f = none) ∨ (∃ r r', getRwT rs f = some r ∧ getRw rs' f = some r' ∧ RwT.toRw? r = some r')
  | [], rs', f, h => by
    simp only [RwT.entsToRw?, Option.some.injEq] at h
    subst h
    exact Or.inl ⟨rfl, rfl⟩
  | (i, r) :: rs, rs', f, h => by
    simp only [RwT.entsToRw?] at h
    cases hr : RwT.toRw? r with
    | none => simp [hr] at h
    | some a =>
      cases hrs : RwT.entsToRw? rs with
      | none => simp [hr, hrs] at h
      | some b =>
        simp only [hr, hrs, Option.some.injEq] at h
        subst h
        by_cases hi : (i == f) = true
        · exact Or.inr ⟨r, a, by simp [getRwT, List.find?, hi], by simp [getRw, List.find?, hi], hr⟩
        · have hi' : (i == f) = false := by simpa using hi
          rcases getRwT_toRw rs b f hrs with ⟨h1, h2⟩ | ⟨r1, r2, h1, h2, h3⟩
          · refine Or.inl ⟨?_, ?_⟩
            · simpa [getRwT, List.find?, hi'] using h1
            · simpa [getRw, List.find?, hi'] using h2
          · refine Or.inr ⟨r1, r2, ?_, ?_, h3⟩
            · simpa [getRwT, List.find?, hi'] using h1
            · simpa [getRw, List.find?, hi'] using h2

theorem mergeInputT_eq (r : RwT) (r' : Rw) (h : RwT.toRw? r = some r') (f t : Nat) (v m : Bytes) :
    mergeInputT r f t v m = mergeInput r' f t v m := by
  cases r with
  | raw b => simp only [RwT.toRw?, Option.some.injEq] at h; subst h; rfl
  | multi rs =>
    simp only [RwT.toRw?, Option.map_eq_some_iff] at h
    obtain ⟨a, _, rfl⟩ := h; rfl
  | message len rs =>
    simp only [RwT.toRw?, Option.map_eq_some_iff] at h
    obtain ⟨a, _, rfl⟩ := h; rfl
  | embedded n len rs =>
    simp only [RwT.toRw?, Option.map_eq_some_iff] at h
    obtain ⟨a, _, rfl⟩ := h; rfl
  | embeddedMerge n len rs =>
    simp only [RwT.toRw?, Option.map_eq_some_iff] at h
    obtain ⟨a, _, rfl⟩ := h; rfl
  | replacement r =>
    simp only [RwT.toRw?, Option.map_eq_some_iff] at h
    obtain ⟨a, _, rfl⟩ := h; rfl
  | bitOr => simp [RwT.toRw?] at h

/-- the four mutually recursive interpreters agree, by induction on the fuel -/
theorem sim (fuel : Nat) :
    (∀ (r : RwT) (r' : Rw) (inp : Bytes), RwT.toRw? r = some r' → rewriteT fuel r inp = rewrite fuel r' inp) ∧
    (∀ (rs : List RwT) (rs' : List Rw) (inp : Bytes), RwT.listToRw? rs = some rs' →
      rewriteMultiT fuel rs inp = rewriteMulti fuel rs' inp) ∧
    (∀ (len : Nat) (rs : List (Nat × RwT)) (rs' : List (Nat × Rw)) (inp : Bytes) (seen : List Nat),
      RwT.entsToRw? rs = some rs' → rewriteLoopT fuel len rs inp seen = rewriteLoop fuel len rs' inp seen) ∧
    (∀ (rs : List (Nat × RwT)) (rs' : List (Nat × Rw)) (seen : List Nat), RwT.entsToRw? rs = some rs' →
      rewriteAbsentT fuel rs seen = rewriteAbsent fuel rs' seen) := by
  induction fuel with
  | zero =>
    refine ⟨?_, ?_, ?_, ?_⟩
    · intro r r' inp _; simp [rewriteT, rewrite]
    · intro rs rs' inp _; simp [rewriteMultiT, rewriteMulti]
    · intro len rs rs' inp seen _; simp [rewriteLoopT, rewriteLoop]
    · intro rs rs' seen _; simp [rewriteAbsentT, rewriteAbsent]
  | succ n ih =>
    obtain ⟨ih1, ih2, ih3, ih4⟩ := ih
    refine ⟨?_, ?_, ?_, ?_⟩
    · intro r r' inp h
      cases r with
      | raw b => simp only [RwT.toRw?, Option.some.injEq] at h; subst h; simp [rewriteT, rewrite]
      | multi rs =>
        simp only [RwT.toRw?, Option.map_eq_some_iff] at h
        obtain ⟨a, ha, rfl⟩ := h
        simp only [rewriteT, rewrite]; exact ih2 rs a inp ha
      | message len rs =>
        simp only [RwT.toRw?, Option.map_eq_some_iff] at h
        obtain ⟨a, ha, rfl⟩ := h
        simp only [rewriteT, rewrite, ih3 len rs a inp [] ha]
        split
        · rfl
        · congr 1; funext p; rw [ih4 rs a p.2 ha]
      | embedded num len rs =>
        have h' := h
        simp only [RwT.toRw?, Option.map_eq_some_iff] at h
        obtain ⟨a, ha, rfl⟩ := h
        have hm : RwT.toRw? (.message len rs) = some (.message len a) := by simp [RwT.toRw?, ha]
        simp only [rewriteT, rewrite, ih1 _ _ inp hm]
      | embeddedMerge num len rs =>
        simp only [RwT.toRw?, Option.map_eq_some_iff] at h
        obtain ⟨a, ha, rfl⟩ := h
        have hm : RwT.toRw? (.message len rs) = some (.message len a) := by simp [RwT.toRw?, ha]
        simp only [rewriteT, rewrite, ih1 _ _ inp hm]
      | replacement r =>
        simp only [RwT.toRw?, Option.map_eq_some_iff] at h
        obtain ⟨a, ha, rfl⟩ := h
        simp only [rewriteT, rewrite]; exact ih1 r a [] ha
      | bitOr => simp [RwT.toRw?] at h
    · intro rs rs' inp h
      cases rs with
      | nil => simp only [RwT.listToRw?, Option.some.injEq] at h; subst h; simp [rewriteMultiT, rewriteMulti]
      | cons r rs =>
        simp only [RwT.listToRw?] at h
        cases hr : RwT.toRw? r with
        | none => simp [hr] at h
        | some a =>
          cases hrs : RwT.listToRw? rs with
          | none => simp [hr, hrs] at h
          | some b =>
            simp only [hr, hrs, Option.some.injEq] at h
            subst h
            simp only [rewriteMultiT, rewriteMulti, ih1 r a inp hr, ih2 rs b inp hrs]
    · intro len rs rs' inp seen h
      simp only [rewriteLoopT, rewriteLoop]
      split
      · rfl
      · congr 1; funext q
        obtain ⟨f, t, v, m⟩ := q
        simp only
        by_cases hf : f < len
        · simp only [hf, if_true]
          rcases getRwT_toRw rs rs' f h with ⟨h1, h2⟩ | ⟨r1, r2, h1, h2, h3⟩
          · simp only [h1, h2, ih3 len rs rs' m seen h]
          · simp only [h1, h2, ih3 len rs rs' m _ h, mergeInputT_eq r1 r2 h3, ih1 r1 r2 _ h3]
        · simp only [hf, if_false, ih3 len rs rs' m seen h]
    · intro rs rs' seen h
      cases rs with
      | nil => simp only [RwT.entsToRw?, Option.some.injEq] at h; subst h; simp [rewriteAbsentT, rewriteAbsent]
      | cons p rs =>
        obtain ⟨i, r⟩ := p
        simp only [RwT.entsToRw?] at h
        cases hr : RwT.toRw? r with
        | none => simp [hr] at h
        | some a =>
          cases hrs : RwT.entsToRw? rs with
          | none => simp [hr, hrs] at h
          | some b =>
            simp only [hr, hrs, Option.some.injEq] at h
            subst h
            simp only [rewriteAbsentT, rewriteAbsent, ih1 r a [] hr, ih4 rs b seen hrs]

/-- **`rewriteT` = `rewrite`** on the trees without a `bitOr` leaf -/
theorem rewriteT_eq_rewrite (fuel : Nat) (r : RwT) (r' : Rw) (inp : Bytes) (h : RwT.toRw? r = some r') :
    rewriteT fuel r inp = rewrite fuel r' inp := (sim fuel).1 r r' inp h

end Enc.Lemmas.ProtoTemplate
