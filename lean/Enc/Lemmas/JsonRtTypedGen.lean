import Enc.Lemmas.JsonRtTypedAll
/-!
# Typed round trip, the content of an interface: the generic decoder (`valueV`) reads back what the encoder writes for a
canonical generic value (nil, bool, float64 / json.Number, string, []any, map[string]any)
-/
set_option linter.unusedSectionVars false
namespace Enc.Lemmas.JsonRtTyped
open Enc Enc.Model.Json Enc.Model.Json.Typed
open Enc.Spec.Json (ws isWs lit number digit consumed unquoteLit appendString floatOverflows boolText nullT floatText
  canonFloat coerceUTF8 genericText genericTexts genericMembers arrText objText mapText canonG canonGs canonGm normG normGs
  normGm consOpt validUTF8B joinWith depthG depthGs depthGm valueV elementsV membersV mapOf keyBelowG dynKindOf dynSpec
  numberText)
open Enc.Lemmas.JsonDecAnyRtInt (noNumCont)
open Enc.Lemmas.JsonDecAnyRender (etail joinWith_etail etail_length noNumCont_etail ws_of_head)
open Enc.Lemmas.JsonDecAnyRtStr (string_render unquote_render)
open Enc.Lemmas.JsonDecAnyBase (valueV_succ_cons elementsV_succ_cons membersV_succ_cons numLeaf colonThenV)
open Enc.Lemmas.JsonGrammar (isClose)
open Enc.Lemmas.JsonEncTyped (gKeys bytesLt_eq_strLT)
open Enc.Model.Json.MapKeyOrder (strLT)

/-! ### assigning strictly ascending keys to a Go map appends them (generic maps) -/

def gList : GMs → List (Bytes × GV)
  | .nil => []
  | .cons k v r => (k, v) :: gList r

def GMs.app : GMs → GMs → GMs
  | .nil, y => y
  | .cons k v r, y => .cons k v (GMs.app r y)

def GBelow : GMs → Bytes → Prop
  | .nil, _ => True
  | .cons k' _ r, k => bytesLt k' k = true ∧ GBelow r k

theorem ginsert_below : (m : GMs) → (k : Bytes) → (v : GV) → GBelow m k → m.insert k v = GMs.app m (.cons k v .nil)
  | .nil, _, _, _ => rfl
  | .cons k' v' r, k, v, h => by
    have h1 : strLT k' k = true := by rw [← bytesLt_eq_strLT]; exact h.1
    have hne : (k == k') = false := by
      rw [beq_eq_false_iff_ne]; intro e; subst e
      rw [Lemmas.JsonMapKeyOrder.strLT_irrefl] at h1; cases h1
    have hlt : bytesLt k k' = false := by
      rw [bytesLt_eq_strLT]; exact Lemmas.JsonMapKeyOrder.strLT_asymm _ _ h1
    simp only [GMs.insert, hne, hlt, Bool.false_eq_true, if_false, GMs.app]
    rw [ginsert_below r k v h.2]

theorem gbelow_app : (m : GMs) → (k k2 : Bytes) → (v : GV) → GBelow m k → bytesLt k k2 = true →
    GBelow (GMs.app m (.cons k v .nil)) k2
  | .nil, _, _, _, _, h => ⟨h, trivial⟩
  | .cons k' v' r, k, k2, v, hb, h => by
    refine ⟨?_, gbelow_app r k k2 v hb.2 h⟩
    have h1 := hb.1
    rw [bytesLt_eq_strLT] at h1 h ⊢
    exact Lemmas.JsonMapKeyOrder.strLT_trans _ _ _ h1 h

theorem gapp_nil : (m : GMs) → GMs.app m .nil = m
  | .nil => rfl
  | .cons k v r => by simp only [GMs.app, gapp_nil r]

theorem gapp_assoc : (a b c : GMs) → GMs.app (GMs.app a b) c = GMs.app a (GMs.app b c)
  | .nil, _, _ => rfl
  | .cons k v r, b, c => by simp only [GMs.app, gapp_assoc r b c]

def GChain : GMs → Prop
  | .nil => True
  | .cons k _ r => keyBelowG k r = true ∧ GChain r

theorem gins_chain : (ms m : GMs) → GChain ms → (∀ k v r, ms = .cons k v r → GBelow m k) →
    (gList ms).foldl (fun m kv => m.insert kv.1 kv.2) m = GMs.app m ms
  | .nil, m, _, _ => by simp only [gList, List.foldl_nil]; exact (gapp_nil m).symm
  | .cons k v r, m, hc, hb => by
    have hbk := hb k v r rfl
    simp only [gList, List.foldl_cons]
    rw [ginsert_below m k v hbk, gins_chain r _ hc.2 ?_, gapp_assoc]
    · rfl
    · intro k2 v2 r2 e
      subst e
      have : bytesLt k k2 = true := by simpa only [keyBelowG] using hc.1
      exact gbelow_app m k k2 v hbk this

theorem mapOf_gList (ms : GMs) (h : GChain ms) : mapOf (gList ms) = ms := by
  unfold mapOf
  rw [gins_chain ms .nil h (fun _ _ _ _ => trivial)]; rfl

theorem keyBelowG_norm (k : Bytes) : (r : GMs) → keyBelowG k (normGm r) = keyBelowG k r
  | .nil => rfl
  | .cons _ _ _ => rfl

theorem gchain_norm (sc : Strconv) (c : TFlags) : (ms : GMs) → canonGm sc c ms = true → GChain (normGm ms)
  | .nil, _ => trivial
  | .cons k v r, h => by
    simp only [canonGm, Bool.and_eq_true] at h
    exact ⟨by rw [keyBelowG_norm]; exact h.1.1.2, gchain_norm sc c r h.2⟩

/-! ### leaves -/

theorem gv_lit (fl : DynFlags) (f d : Nat) (rest : Bytes) :
    valueV fl (f + 1) d (nullT ++ rest) = some (.null, false, rest) ∧
    valueV fl (f + 1) d (boolText true ++ rest) = some (.bool true, false, rest) ∧
    valueV fl (f + 1) d (boolText false ++ rest) = some (.bool false, false, rest) := by
  refine ⟨?_, ?_, ?_⟩
  · show valueV fl (f + 1) d (0x6e :: ([0x75, 0x6c, 0x6c] ++ rest)) = _
    rw [valueV_succ_cons]
    simp only [show ((0x6e : UInt8) == 0x7b) = false by decide, show ((0x6e : UInt8) == 0x5b) = false by decide,
      show ((0x6e : UInt8) == 0x22) = false by decide, Bool.false_eq_true, if_false, beq_self_eq_true, if_true]
    rw [show (0x6e : UInt8) :: ([0x75, 0x6c, 0x6c] ++ rest) = [0x6e, 0x75, 0x6c, 0x6c] ++ rest from rfl,
      Lemmas.JsonDecAnyRender.lit_self]
    rfl
  · show valueV fl (f + 1) d (0x74 :: ([0x72, 0x75, 0x65] ++ rest)) = _
    rw [valueV_succ_cons]
    simp only [show ((0x74 : UInt8) == 0x7b) = false by decide, show ((0x74 : UInt8) == 0x5b) = false by decide,
      show ((0x74 : UInt8) == 0x22) = false by decide, show ((0x74 : UInt8) == 0x6e) = false by decide,
      Bool.false_eq_true, if_false, beq_self_eq_true, if_true]
    rw [show (0x74 : UInt8) :: ([0x72, 0x75, 0x65] ++ rest) = [0x74, 0x72, 0x75, 0x65] ++ rest from rfl,
      Lemmas.JsonDecAnyRender.lit_self]
    rfl
  · show valueV fl (f + 1) d (0x66 :: ([0x61, 0x6c, 0x73, 0x65] ++ rest)) = _
    rw [valueV_succ_cons]
    simp only [show ((0x66 : UInt8) == 0x7b) = false by decide, show ((0x66 : UInt8) == 0x5b) = false by decide,
      show ((0x66 : UInt8) == 0x22) = false by decide, show ((0x66 : UInt8) == 0x6e) = false by decide,
      show ((0x66 : UInt8) == 0x74) = false by decide, Bool.false_eq_true, if_false, beq_self_eq_true, if_true]
    rw [show (0x66 : UInt8) :: ([0x61, 0x6c, 0x73, 0x65] ++ rest) = [0x66, 0x61, 0x6c, 0x73, 0x65] ++ rest from rfl,
      Lemmas.JsonDecAnyRender.lit_self]
    rfl

theorem gv_str (fl : DynFlags) (f d : Nat) (s : Bytes) (html : Bool) (rest : Bytes) :
    valueV fl (f + 1) d (appendString s html ++ rest) = some (.str (coerceUTF8 s), false, rest) := by
  have hs := string_render s html rest
  have hu := unquote_render s html
  obtain ⟨body, hq⟩ := Lemmas.JsonDecAnyRender.appendString_head s html
  rw [hq] at hs hu ⊢
  show valueV fl (f + 1) d (0x22 :: (body ++ rest)) = _
  rw [valueV_succ_cons]
  simp only [show ((0x22 : UInt8) == 0x7b) = false by decide, show ((0x22 : UInt8) == 0x5b) = false by decide,
    Bool.false_eq_true, if_false, beq_self_eq_true, if_true]
  rw [show (0x22 : UInt8) :: (body ++ rest) = (0x22 :: body) ++ rest from rfl, hs]
  simp only [Option.map_some, consumed_append, hu, coerce_eq]

theorem dynKind_flags (c : TFlags) (l : Bytes) (h : number l = some []) :
    dynKindOf c.dyn l = if c.useNumber then .num else .f64 := by
  obtain ⟨un, du⟩ := c
  unfold dynKindOf dynSpec
  simp only [h, bne_self_eq_false, Bool.false_eq_true, if_false, TFlags.dyn, Bool.and_false, Bool.false_and]
  cases un <;> rfl

theorem gv_num (c : TFlags) (f d : Nat) (l : Bytes) (hnum : number l = some []) (rest : Bytes) (hn : noNumCont rest)
    (hov : c.useNumber = false → floatOverflows l = false) :
    valueV c.dyn (f + 1) d (l ++ rest) =
      some (.num l (if c.useNumber then .num else .f64), false, rest) := by
  obtain ⟨c0, t, e, hc⟩ := numLit_head hnum
  have hx := Lemmas.JsonRawEmitLeaf.number_ext rest hn hnum
  have hk := dynKind_flags c l hnum
  subst e
  show valueV c.dyn (f + 1) d (c0 :: (t ++ rest)) = _
  rw [valueV_succ_cons]
  obtain ⟨e1, e2, e3, e4, e5, e6⟩ := Lemmas.JsonDecAnyRender.num_head_ne hc
  simp only [e1, e2, e3, e4, e5, e6, Bool.false_eq_true, if_false]
  rw [show c0 :: (t ++ rest) = (c0 :: t) ++ rest from rfl, hx]
  simp only [Option.map_some, List.nil_append, numLeaf, consumed_append, hk]
  cases hu : c.useNumber with
  | true => rfl
  | false => simp [hov hu]

/-! ### one element / member, then the rest -/

theorem isClose_head {c : UInt8} (t : Bytes) (h : c ≠ 0x5d) : isClose (c :: t) = false := by
  simpa [isClose] using h

theorem ev_elem (fl : DynFlags) (f d : Nat) (x tl rest : Bytes) (nv : GV) (nvs : GVs) (n : Bool) (hx : Hd x n)
    (hv : valueV fl f d (x ++ tl) = some (nv, false, tl)) (hws : ws tl = tl)
    (hr : elementsV fl f d tl false = some (nvs, false, rest)) :
    elementsV fl (f + 1) d (x ++ tl) true = some (.cons nv nvs, false, rest) ∧
    elementsV fl (f + 1) d (0x2c :: (x ++ tl)) false = some (.cons nv nvs, false, rest) := by
  obtain ⟨c0, t, rfl, hw, h5d, _, _⟩ := hx.ne
  have h5d' : (c0 == 0x5d) = false := by simpa using h5d
  have hwsx : ws (c0 :: t ++ tl) = c0 :: t ++ tl := ws_of_head hw
  have hcl : isClose (c0 :: t ++ tl) = false := isClose_head _ h5d
  constructor
  · show elementsV fl (f + 1) d (c0 :: (t ++ tl)) true = _
    rw [elementsV_succ_cons]
    simp only [h5d', Bool.false_eq_true, if_false, if_true, Option.bind_some]
    rw [show c0 :: (t ++ tl) = c0 :: t ++ tl from rfl, hcl]
    simp only [Bool.false_eq_true, if_false, hv, Option.bind_some, hws, hr, Option.map_some, Bool.or_self]
  · rw [elementsV_succ_cons]
    simp only [show ((0x2c : UInt8) == 0x5d) = false by decide, Bool.false_eq_true, if_false, beq_self_eq_true, if_true,
      Option.bind_some, hwsx, hcl, hv, hws, hr, Option.map_some, Bool.or_self]

theorem ev_end (fl : DynFlags) (f d : Nat) (rest : Bytes) (first : Bool) :
    elementsV fl (f + 1) d (0x5d :: rest) first = some (.nil, false, rest) := by
  rw [elementsV_succ_cons]; simp

theorem mv_elem (fl : DynFlags) (f d : Nat) (key : Bytes) (html : Bool) (x tl rest : Bytes) (nv : GV)
    (res : List (Bytes × GV)) (n : Bool) (hx : Hd x n) (hk : validUTF8B key = true)
    (hv : valueV fl f d (x ++ tl) = some (nv, false, tl)) (hws : ws tl = tl)
    (hr : membersV fl f d tl false = some (res, false, rest)) :
    membersV fl (f + 1) d (appendString key html ++ 0x3a :: (x ++ tl)) true = some ((key, nv) :: res, false, rest) ∧
    membersV fl (f + 1) d (0x2c :: (appendString key html ++ 0x3a :: (x ++ tl))) false =
      some ((key, nv) :: res, false, rest) := by
  have hs := string_render key html (0x3a :: (x ++ tl))
  have hu : unquoteLit (appendString key html) = key := by
    rw [unquote_render, coerce_eq]; exact Lemmas.JsonRTUtf8.coerce_of_valid key hk
  obtain ⟨body, hq⟩ := Lemmas.JsonDecAnyRender.appendString_head key html
  have hwx : ws (x ++ tl) = x ++ tl := hx.ws tl
  have hcon : consumed (appendString key html ++ 0x3a :: (x ++ tl)) (0x3a :: (x ++ tl)) = appendString key html :=
    consumed_append _ _
  have hw3 : ws (0x3a :: (x ++ tl)) = 0x3a :: (x ++ tl) := ws_of_head (by decide)
  have hwk : ws (appendString key html ++ 0x3a :: (x ++ tl)) = appendString key html ++ 0x3a :: (x ++ tl) := by
    rw [hq]; exact ws_of_head (by decide)
  generalize hB : appendString key html ++ 0x3a :: (x ++ tl) = B at hs hcon hwk ⊢
  obtain ⟨B', rfl⟩ : ∃ B', B = 0x22 :: B' := by rw [← hB, hq]; exact ⟨_, rfl⟩
  constructor
  · rw [membersV_succ_cons]
    simp only [show ((0x22 : UInt8) == 0x7d) = false by decide, Bool.false_eq_true, if_false, if_true, Option.bind_some, hs,
      hw3, colonThenV, beq_self_eq_true, hwx, hv, hcon, hu, hws, hr, Option.map_some, Bool.or_self]
  · rw [membersV_succ_cons]
    simp only [show ((0x2c : UInt8) == 0x7d) = false by decide, Bool.false_eq_true, if_false, beq_self_eq_true, if_true,
      Option.bind_some, hwk, hs, hw3, colonThenV, hwx, hv, hcon, hu, hws, hr, Option.map_some, Bool.or_self]

theorem mv_end (fl : DynFlags) (f d : Nat) (rest : Bytes) (first : Bool) :
    membersV fl (f + 1) d (0x7d :: rest) first = some ([], false, rest) := by
  rw [membersV_succ_cons]; simp

end Enc.Lemmas.JsonRtTyped
