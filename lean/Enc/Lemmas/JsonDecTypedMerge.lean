import Enc.Lemmas.JsonDecTyped
/-!
# C02, typed targets: an existing map is MERGED into (general theorem about the code's member loop)
-/
namespace Enc.Lemmas.JsonDecTypedMerge
open Enc Enc.Model.Json Enc.Model.Json.Typed Enc.Lemmas.JsonDecTyped

/-- successive assignments `m[k] = v` -/
def ins (kvs : List (Bytes × JV)) (m : JMs) : JMs := kvs.foldl (fun a kv => a.insert kv.1 kv.2) m

/-- **merge.** If the member loop of decodeMap succeeds on a map `m`, there is a list of (key, value) pairs — the members
of the document, in order, each value decoded from the zero value — such that the result is `m` with these pairs assigned
in order, and the loop run on ANY other initial map `m0` succeeds with the same pairs assigned to `m0` (same remainder): the
entries of the existing map that the document does not mention are kept, the others replaced. -/
theorem mapLoop_merge (fl : PFlags) (c : TFlags) (F : Nat) :
    ∀ (g dp : Nat) (e : JT) (input : Bytes) (m : JMs) (b : Bytes) (i : Nat) (m' : JMs) (r : Bytes),
      Typed.mapLoop fl c F g dp e input m b i = .ok m' r →
      ∃ kvs, m' = ins kvs m ∧ ∀ m0, Typed.mapLoop fl c F g dp e input m0 b i = .ok (ins kvs m0) r
  | 0, dp, e, input, m, b, i, m', r, h => by rw [Typed.mapLoop] at h; cases h
  | g + 1, dp, e, input, m, b, i, m', r, h => by
    rw [Typed.mapLoop] at h
    cases hsb : skipSpaces b with
    | nil => rw [hsb] at h; cases h
    | cons c0 rest =>
      rw [hsb] at h
      simp only [] at h
      by_cases hc : (c0 == 125) = true
      · rw [if_pos hc] at h
        cases h
        refine ⟨[], rfl, fun m0 => ?_⟩
        rw [Typed.mapLoop, hsb]
        simp only [hc, if_true]
        rfl
      · rw [if_neg hc] at h
        generalize hb2 : (if (i != 0) = true then if (c0 != 44) = true then none else some (skipSpaces rest)
          else some (c0 :: rest)) = b2 at h
        cases b2 with
        | none => cases h
        | some b3 =>
          simp only [] at h
          by_cases hnull : hasPrefix b3 nullLit = true
          · rw [if_pos hnull] at h; cases h
          · rw [if_neg hnull] at h
            cases hps : parseStringUnquote fl b3 with
            | none => rw [hps] at h; cases h
            | some kr =>
              obtain ⟨key, r1⟩ := kr
              rw [hps] at h
              simp only [] at h
              cases hsr : skipSpaces r1 with
              | nil => rw [hsr] at h; cases h
              | cons x r2 =>
                rw [hsr] at h
                simp only [] at h
                by_cases hx : (x != 58) = true
                · rw [if_pos hx] at h; cases h
                · rw [if_neg hx] at h
                  cases hdec : decodeInto fl c F g dp e (zeroOf e) (skipSpaces r2) with
                  | ok v r3 =>
                    rw [hdec] at h
                    simp only [] at h
                    obtain ⟨kvs, hm', hall⟩ := mapLoop_merge fl c F g dp e input (m.insert key v) r3 (i + 1) m' r h
                    refine ⟨(key, v) :: kvs, hm', fun m0 => ?_⟩
                    rw [Typed.mapLoop, hsb]
                    simp only [hc, hb2, hnull, hps, hsr, hx, hdec, if_false, Bool.false_eq_true]
                    exact hall (m0.insert key v)
                  | syn =>
                    rw [hdec] at h
                    have := okM_elemError (β := JMs) fl F dp input (TR.syn : TR JV)
                    simp only [] at h
                    rw [h] at this; cases this
                  | ty r0 =>
                    rw [hdec] at h
                    have := okM_elemError (β := JMs) fl F dp input (TR.ty r0 : TR JV)
                    simp only [] at h
                    rw [h] at this; cases this
                  | oth r0 =>
                    rw [hdec] at h
                    have := okM_elemError (β := JMs) fl F dp input (TR.oth r0 : TR JV)
                    simp only [] at h
                    rw [h] at this; cases this

#print axioms mapLoop_merge

end Enc.Lemmas.JsonDecTypedMerge
