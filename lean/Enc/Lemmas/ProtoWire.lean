import Enc.Model.Proto
import Enc.Spec.Protobuf
import Enc.Lemmas.Proto
import Enc.Lemmas.ProtoVarint
/-!
# C12, wire level: what the model's encoder writes is read back by the reference wire parser

Everything here relates `Enc.Model.Proto` (the Go encoder as coded) to `Enc.Spec.Protobuf` (the independent reference
written from the wire specification).

  * `readVarint_leb128`, `readVarint_encodeVarint`, `readVarint_encodeTag`
  * `natLE` / `leNat` (reference little-endian) versus `le32` / `le64` (model)
  * `parse_encRec_cons`, `parse_encRecs`    the reference parser inverts the reference record encoder `encRec`
  * `parse_tag_*`                           one record written by the model = one reference record
  * `parse_scalar_*`                        per scalar codec: tag ++ `encode c v fl` parses as one `WireVal`
                                            (incl. `parse_scalar_sfixed32/64` + `decodeOne_sfixed32/64`: `int32/int64`
                                            tagged `fixed32/fixed64` = little-endian two's complement, read back signed)
-/
namespace Enc.Lemmas.ProtoWire
open Enc Enc.Model.Proto Enc.Spec.Protobuf

/-! ## varints -/

theorem pow7_succ (i : Nat) : 2 ^ (7 * (i + 1)) = 2 ^ (7 * i) * 128 := by
  rw [Nat.mul_add, Nat.pow_add]

theorem go_leb128 (rest : Bytes) : ∀ (n i acc : Nat), i ≤ 9 → n < 2 ^ (64 - 7 * i) →
    readVarint.go (leb128 n ++ rest) i acc = some ((acc + n * 2 ^ (7 * i)) % 2 ^ 64, rest) := by
  intro n
  induction n using leb128.induct with
  | case1 n h =>
    intro i acc hi hn
    rw [leb128]
    simp only [h, dite_true, List.cons_append, List.nil_append, readVarint.go]
    have hc : (UInt8.ofNat n).toNat = n := by
      rw [UInt8.toNat_ofNat']; exact Nat.mod_eq_of_lt (by omega)
    rw [hc]
    simp only [h, if_true]
    have hov : ¬ (i > 9 ∨ (i = 9 ∧ n > 1)) := by
      intro hh
      rcases hh with hh | ⟨e, hc⟩
      · omega
      · subst e
        simp only [Nat.reduceMul, Nat.reduceSub, Nat.reducePow] at hn
        omega
    simp only [hov, if_false]
  | case2 n h ih =>
    intro i acc hi hn
    rw [leb128]
    simp only [h, dite_false, List.cons_append, readVarint.go]
    have hc : (UInt8.ofNat (n % 128 + 128)).toNat = n % 128 + 128 := by
      rw [UInt8.toNat_ofNat']; exact Nat.mod_eq_of_lt (by omega)
    rw [hc]
    have h1 : ¬ (n % 128 + 128 < 128) := by omega
    have hi9 : ¬ i ≥ 9 := by
      intro h9
      have e : i = 9 := by omega
      subst e
      simp only [Nat.reduceMul, Nat.reduceSub, Nat.reducePow] at hn
      omega
    simp only [h1, if_false, hi9]
    have hsplit : 2 ^ (64 - 7 * i) = 128 * 2 ^ (64 - 7 * (i + 1)) := by
      have : 64 - 7 * i = 7 + (64 - 7 * (i + 1)) := by omega
      rw [this, Nat.pow_add]
    have hn' : n / 128 < 2 ^ (64 - 7 * (i + 1)) := by
      apply Nat.div_lt_of_lt_mul
      rw [← hsplit]; exact hn
    rw [ih (i + 1) _ (by omega) hn']
    have e1 : n % 128 + 128 - 128 = n % 128 := by omega
    rw [e1, pow7_succ]
    have e : n * 2 ^ (7 * i) = n % 128 * 2 ^ (7 * i) + n / 128 * (2 ^ (7 * i) * 128) := by
      have hd := Nat.div_add_mod n 128
      generalize 2 ^ (7 * i) = P
      calc n * P = (128 * (n / 128) + n % 128) * P := by rw [hd]
        _ = 128 * (n / 128) * P + n % 128 * P := Nat.add_mul ..
        _ = n % 128 * P + n / 128 * (P * 128) := by
          rw [Nat.add_comm, Nat.mul_comm 128 (n / 128), Nat.mul_assoc, Nat.mul_comm 128 P]
    rw [e, Nat.add_assoc]

/-- the reference varint reader inverts the reference varint writer on 64-bit values -/
theorem readVarint_leb128 (n : Nat) (h : n < 2 ^ 64) (rest : Bytes) :
    readVarint (leb128 n ++ rest) = some (n, rest) := by
  unfold readVarint
  have h' : n < 2 ^ (64 - 7 * 0) := by rw [Nat.mul_zero, Nat.sub_zero]; exact h
  rw [go_leb128 rest n 0 0 (Nat.zero_le _) h']
  rw [Nat.mul_zero, Nat.pow_zero, Nat.mul_one, Nat.zero_add, Nat.mod_eq_of_lt h]

/-- **wire level, varints**: whatever varint the Go encoder writes, the reference reader reads the same number back
and stops exactly behind it -/
theorem readVarint_encodeVarint (v : BitVec 64) (rest : Bytes) :
    readVarint (encodeVarint v ++ rest) = some (v.toNat, rest) := by
  rw [ProtoVarint.encodeVarint_eq_leb128]
  exact readVarint_leb128 _ v.isLt rest

theorem Wire.num_lt (w : Wire) : w.num < 8 := by cases w <;> decide

theorem tagWord_toNat (n : Nat) (w : Wire) (h : n < 2 ^ 29) : (tagWord n w).toNat = n * 8 + w.num := by
  have hw := Wire.num_lt w
  have : n * 8 + w.num < 2 ^ 64 := by omega
  simp only [tagWord, BitVec.toNat_ofNat, Nat.mod_eq_of_lt this]

/-- the tag the Go encoder writes is the reference encoding of `field_number << 3 | wire_type` -/
theorem encodeTag_eq_leb128 (n : Nat) (w : Wire) (h : n < 2 ^ 29) : encodeTag n w = leb128 (n * 8 + w.num) := by
  rw [encodeTag, ProtoVarint.encodeVarint_eq_leb128, tagWord_toNat n w h]

/-- **wire level, tags** -/
theorem readVarint_encodeTag (n : Nat) (w : Wire) (h : n < 2 ^ 29) (rest : Bytes) :
    readVarint (encodeTag n w ++ rest) = some (n * 8 + w.num, rest) := by
  rw [encodeTag, readVarint_encodeVarint, tagWord_toNat n w h]

theorem leb128_ne_nil (n : Nat) : leb128 n ≠ [] := by
  rw [leb128]; split <;> simp

theorem leb128_length_pos (n : Nat) : 1 ≤ (leb128 n).length := by
  have := leb128_ne_nil n
  cases h : leb128 n with
  | nil => exact absurd h this
  | cons => simp

theorem ofNat64_toNat (n : Nat) (h : n < 2 ^ 64) : (BitVec.ofNat 64 n).toNat = n := by
  simp only [BitVec.toNat_ofNat]; exact Nat.mod_eq_of_lt h

theorem encodeVarint_ofNat (n : Nat) (h : n < 2 ^ 64) : encodeVarint (BitVec.ofNat 64 n) = leb128 n := by
  rw [ProtoVarint.encodeVarint_eq_leb128, ofNat64_toNat n h]

/-! ## little-endian fixed width -/

theorem natLE_four (n : Nat) :
    natLE n 4 = [UInt8.ofNat (n % 256), UInt8.ofNat (n / 256 % 256), UInt8.ofNat (n / 65536 % 256),
      UInt8.ofNat (n / 16777216 % 256)] := by
  simp [natLE, List.range, List.range.loop]

theorem natLE_eight (n : Nat) :
    natLE n 8 = [UInt8.ofNat (n % 256), UInt8.ofNat (n / 256 % 256), UInt8.ofNat (n / 65536 % 256),
      UInt8.ofNat (n / 16777216 % 256), UInt8.ofNat (n / 4294967296 % 256), UInt8.ofNat (n / 1099511627776 % 256),
      UInt8.ofNat (n / 281474976710656 % 256), UInt8.ofNat (n / 72057594037927936 % 256)] := by
  simp [natLE, List.range, List.range.loop]

theorem natLE_length (n k : Nat) : (natLE n k).length = k := by simp [natLE]

theorem byte_toNat (m : Nat) : (UInt8.ofNat (m % 256)).toNat = m % 256 := by
  rw [UInt8.toNat_ofNat']; exact Nat.mod_eq_of_lt (Nat.mod_lt _ (by omega))

/-- reference little-endian reader inverts the reference writer (32 bit) -/
theorem leNat_natLE_four (n : Nat) (h : n < 2 ^ 32) : leNat (natLE n 4) = n := by
  rw [natLE_four]
  simp only [leNat, byte_toNat]
  omega

theorem leNat_natLE_eight (n : Nat) (h : n < 2 ^ 64) : leNat (natLE n 8) = n := by
  rw [natLE_eight]
  simp only [leNat, byte_toNat]
  omega

theorem trunc8 (v : BitVec 32) (k : Nat) :
    (⟨(v >>> k).truncate 8⟩ : UInt8) = UInt8.ofNat (v.toNat / 2 ^ k % 256) := by
  show (⟨(v >>> k).truncate 8⟩ : UInt8) = ⟨BitVec.ofNat 8 (v.toNat / 2 ^ k % 256)⟩
  congr 1
  apply BitVec.eq_of_toNat_eq
  simp [BitVec.toNat_ushiftRight, Nat.shiftRight_eq_div_pow]

theorem trunc8' (v : BitVec 64) (k : Nat) :
    (⟨(v >>> k).truncate 8⟩ : UInt8) = UInt8.ofNat (v.toNat / 2 ^ k % 256) := by
  show (⟨(v >>> k).truncate 8⟩ : UInt8) = ⟨BitVec.ofNat 8 (v.toNat / 2 ^ k % 256)⟩
  congr 1
  apply BitVec.eq_of_toNat_eq
  simp [BitVec.toNat_ushiftRight, Nat.shiftRight_eq_div_pow]

/-- the model's 4-byte little-endian writer is the reference one -/
theorem le32_eq_natLE (v : BitVec 32) : le32 v = natLE v.toNat 4 := by
  have h0 := trunc8 v 0
  simp only [BitVec.ushiftRight_zero, Nat.pow_zero, Nat.div_one] at h0
  rw [natLE_four, le32, h0, trunc8 v 8, trunc8 v 16, trunc8 v 24]

theorem le64_eq_natLE (v : BitVec 64) : le64 v = natLE v.toNat 8 := by
  have h0 := trunc8' v 0
  simp only [BitVec.ushiftRight_zero, Nat.pow_zero, Nat.div_one] at h0
  rw [natLE_eight, le64, h0, trunc8' v 8, trunc8' v 16, trunc8' v 24, trunc8' v 32, trunc8' v 40, trunc8' v 48,
    trunc8' v 56]

theorem leNat_le32 (v : BitVec 32) : leNat (le32 v) = v.toNat := by
  rw [le32_eq_natLE]; exact leNat_natLE_four _ v.isLt
theorem leNat_le64 (v : BitVec 64) : leNat (le64 v) = v.toNat := by
  rw [le64_eq_natLE]; exact leNat_natLE_eight _ v.isLt

/-! ## records: the reference parser inverts the reference record writer -/

/-- a record that the wire format can carry: field number 1 … 2^29-1, 64-bit varints, 8/4 byte fixed payloads,
chunk lengths that fit a varint -/
def RecOK : Nat × WireVal → Prop
  | (n, .varint v) => 0 < n ∧ n < 2 ^ 29 ∧ v < 2 ^ 64
  | (n, .i64 b) => 0 < n ∧ n < 2 ^ 29 ∧ b.length = 8
  | (n, .len b) => 0 < n ∧ n < 2 ^ 29 ∧ b.length < 2 ^ 64
  | (n, .i32 b) => 0 < n ∧ n < 2 ^ 29 ∧ b.length = 4

theorem parse_succ_of_tag (fuel : Nat) (b rest : Bytes) (tag : Nat) (hb : b ≠ [])
    (h : readVarint b = some (tag, rest)) (hnum : tag / 8 ≠ 0) :
    parse (fuel + 1) b =
      (match tag % 8 with
      | 0 => do
        let (v, rest) ← readVarint rest
        let tl ← parse fuel rest
        pure ((tag / 8, .varint v) :: tl)
      | 1 =>
        if rest.length < 8 then none else do
        let tl ← parse fuel (rest.drop 8)
        pure ((tag / 8, .i64 (rest.take 8)) :: tl)
      | 2 => do
        let (l, rest) ← readVarint rest
        if rest.length < l then none else do
        let tl ← parse fuel (rest.drop l)
        pure ((tag / 8, .len (rest.take l)) :: tl)
      | 5 =>
        if rest.length < 4 then none else do
        let tl ← parse fuel (rest.drop 4)
        pure ((tag / 8, .i32 (rest.take 4)) :: tl)
      | _ => none) := by
  cases b with
  | nil => exact absurd rfl hb
  | cons c cs =>
    simp only [parse, h, Option.bind_eq_bind, Option.bind_some, Option.pure_def, hnum, if_false]
    rfl

theorem tag_div (n k : Nat) (hk : k < 8) : (n * 8 + k) / 8 = n ∧ (n * 8 + k) % 8 = k := by omega

/-- one reference record in front of arbitrary bytes: the parser returns it and continues behind it -/
theorem parse_encRec_cons (fuel : Nat) (r : Nat × WireVal) (hr : RecOK r) (rest : Bytes) :
    parse (fuel + 1) (encRec r ++ rest) = (parse fuel rest).map (r :: ·) := by
  obtain ⟨n, w⟩ := r
  cases w with
  | varint v =>
    obtain ⟨h0, hn, hv⟩ := hr
    have hne : encRec (n, .varint v) ++ rest ≠ [] := by
      simp [encRec, leb128_ne_nil]
    have hrd : readVarint (encRec (n, .varint v) ++ rest) = some (n * 8 + 0, leb128 v ++ rest) := by
      simp only [encRec, List.append_assoc, Nat.add_zero]
      exact readVarint_leb128 _ (by omega) _
    rw [parse_succ_of_tag fuel _ _ _ hne hrd (by omega)]
    obtain ⟨e1, e2⟩ := tag_div n 0 (by omega)
    rw [e1, e2]
    simp only [readVarint_leb128 v hv, Option.bind_eq_bind, Option.bind_some, Option.pure_def]
    cases parse fuel rest <;> rfl
  | i64 b =>
    obtain ⟨h0, hn, hb⟩ := hr
    have hne : encRec (n, .i64 b) ++ rest ≠ [] := by
      simp [encRec, leb128_ne_nil]
    have hrd : readVarint (encRec (n, .i64 b) ++ rest) = some (n * 8 + 1, b ++ rest) := by
      simp only [encRec, List.append_assoc]
      exact readVarint_leb128 _ (by omega) _
    rw [parse_succ_of_tag fuel _ _ _ hne hrd (by omega)]
    obtain ⟨e1, e2⟩ := tag_div n 1 (by omega)
    rw [e1, e2]
    have hl : ¬ (b ++ rest).length < 8 := by simp [hb]
    have hd : (b ++ rest).drop 8 = rest := by rw [← hb]; simp
    have ht : (b ++ rest).take 8 = b := by rw [← hb]; simp
    simp only [hl, if_false, hd, ht, Option.bind_eq_bind, Option.pure_def]
    cases parse fuel rest <;> rfl
  | len b =>
    obtain ⟨h0, hn, hb⟩ := hr
    have hne : encRec (n, .len b) ++ rest ≠ [] := by
      simp [encRec, leb128_ne_nil]
    have hrd : readVarint (encRec (n, .len b) ++ rest) = some (n * 8 + 2, leb128 b.length ++ (b ++ rest)) := by
      simp only [encRec, List.append_assoc]
      exact readVarint_leb128 _ (by omega) _
    rw [parse_succ_of_tag fuel _ _ _ hne hrd (by omega)]
    obtain ⟨e1, e2⟩ := tag_div n 2 (by omega)
    rw [e1, e2]
    have hl : ¬ (b ++ rest).length < b.length := by simp
    have hd : (b ++ rest).drop b.length = rest := by simp
    have ht : (b ++ rest).take b.length = b := by simp
    simp only [readVarint_leb128 _ hb, hl, if_false, hd, ht, Option.bind_eq_bind, Option.bind_some, Option.pure_def]
    cases parse fuel rest <;> rfl
  | i32 b =>
    obtain ⟨h0, hn, hb⟩ := hr
    have hne : encRec (n, .i32 b) ++ rest ≠ [] := by
      simp [encRec, leb128_ne_nil]
    have hrd : readVarint (encRec (n, .i32 b) ++ rest) = some (n * 8 + 5, b ++ rest) := by
      simp only [encRec, List.append_assoc]
      exact readVarint_leb128 _ (by omega) _
    rw [parse_succ_of_tag fuel _ _ _ hne hrd (by omega)]
    obtain ⟨e1, e2⟩ := tag_div n 5 (by omega)
    rw [e1, e2]
    have hl : ¬ (b ++ rest).length < 4 := by simp [hb]
    have hd : (b ++ rest).drop 4 = rest := by rw [← hb]; simp
    have ht : (b ++ rest).take 4 = b := by rw [← hb]; simp
    simp only [hl, if_false, hd, ht, Option.bind_eq_bind, Option.pure_def]
    cases parse fuel rest <;> rfl

/-- bytes of a list of records (reference encoder) -/
def encRecs (rs : List (Nat × WireVal)) : Bytes := rs.flatMap encRec

@[simp] theorem encRecs_nil : encRecs [] = [] := rfl
@[simp] theorem encRecs_cons (r : Nat × WireVal) (rs : List (Nat × WireVal)) :
    encRecs (r :: rs) = encRec r ++ encRecs rs := by simp [encRecs]
theorem encRecs_append (a b : List (Nat × WireVal)) : encRecs (a ++ b) = encRecs a ++ encRecs b := by
  simp [encRecs]

theorem encRec_length_ge (r : Nat × WireVal) : 2 ≤ (encRec r).length ∨ (∃ n b, r = (n, .i64 b) ∨ r = (n, .i32 b)) := by
  obtain ⟨n, w⟩ := r
  cases w with
  | varint v =>
    left; simp only [encRec, List.length_append]
    have := leb128_length_pos (n * 8); have := leb128_length_pos v; omega
  | len b =>
    left; simp only [encRec, List.length_append]
    have := leb128_length_pos (n * 8 + 2); have := leb128_length_pos b.length; omega
  | i64 b => right; exact ⟨n, b, .inl rfl⟩
  | i32 b => right; exact ⟨n, b, .inr rfl⟩

theorem encRec_length_pos (r : Nat × WireVal) : 1 ≤ (encRec r).length := by
  obtain ⟨n, w⟩ := r
  cases w <;> simp only [encRec, List.length_append] <;>
    first
      | (have := leb128_length_pos (n * 8); omega)
      | (have := leb128_length_pos (n * 8 + 1); omega)
      | (have := leb128_length_pos (n * 8 + 2); omega)
      | (have := leb128_length_pos (n * 8 + 5); omega)

theorem encRec_length_ge_two (r : Nat × WireVal) (hr : RecOK r) : 2 ≤ (encRec r).length := by
  obtain ⟨n, w⟩ := r
  cases w with
  | varint v =>
    simp only [encRec, List.length_append]
    have := leb128_length_pos (n * 8); have := leb128_length_pos v; omega
  | len b =>
    simp only [encRec, List.length_append]
    have := leb128_length_pos (n * 8 + 2); have := leb128_length_pos b.length; omega
  | i64 b =>
    simp only [encRec, List.length_append, hr.2.2]
    have := leb128_length_pos (n * 8 + 1); omega
  | i32 b =>
    simp only [encRec, List.length_append, hr.2.2]
    have := leb128_length_pos (n * 8 + 5); omega

theorem length_le_encRecs (rs : List (Nat × WireVal)) : rs.length ≤ (encRecs rs).length := by
  induction rs with
  | nil => simp
  | cons r rs ih =>
    have := encRec_length_pos r
    simp only [encRecs_cons, List.length_cons, List.length_append]; omega

/-- **the reference parser inverts the reference record encoder** (any fuel above the number of records) -/
theorem parse_encRecs (rs : List (Nat × WireVal)) (h : ∀ r ∈ rs, RecOK r) :
    ∀ fuel, rs.length < fuel → parse fuel (encRecs rs) = some rs := by
  induction rs with
  | nil =>
    intro fuel hf
    cases fuel with
    | zero => omega
    | succ f => simp [parse]
  | cons r rs ih =>
    intro fuel hf
    cases fuel with
    | zero => omega
    | succ f =>
      have := parse_encRec_cons f r (h r (by simp)) (encRecs rs)
      rw [encRecs_cons, this, ih (fun x hx => h x (by simp [hx])) f (by simpa using hf)]
      rfl

/-- fuel used by `decodeMsg` -/
theorem parse_encRecs_len (rs : List (Nat × WireVal)) (h : ∀ r ∈ rs, RecOK r) :
    parse ((encRecs rs).length + 1) (encRecs rs) = some rs :=
  parse_encRecs rs h _ (by have := length_le_encRecs rs; omega)

/-! ## one record as the Go encoder writes it = one reference record -/

theorem num_varint : Wire.varint.num = 0 := rfl
theorem num_fixed64 : Wire.fixed64.num = 1 := rfl
theorem num_varlen : Wire.varlen.num = 2 := rfl
theorem num_fixed32 : Wire.fixed32.num = 5 := rfl

theorem rec_varint (n : Nat) (hn : n < 2 ^ 29) (v : BitVec 64) :
    encodeTag n .varint ++ encodeVarint v = encRec (n, .varint v.toNat) := by
  rw [encodeTag_eq_leb128 n _ hn, ProtoVarint.encodeVarint_eq_leb128]; rfl

theorem rec_fixed32 (n : Nat) (hn : n < 2 ^ 29) (v : BitVec 32) :
    encodeTag n .fixed32 ++ le32 v = encRec (n, .i32 (natLE v.toNat 4)) := by
  rw [encodeTag_eq_leb128 n _ hn, le32_eq_natLE]; rfl

theorem rec_fixed64 (n : Nat) (hn : n < 2 ^ 29) (v : BitVec 64) :
    encodeTag n .fixed64 ++ le64 v = encRec (n, .i64 (natLE v.toNat 8)) := by
  rw [encodeTag_eq_leb128 n _ hn, le64_eq_natLE]; rfl

theorem rec_varlen (n : Nat) (hn : n < 2 ^ 29) (b : Bytes) (hb : b.length < 2 ^ 64) :
    encodeTag n .varlen ++ encodeVarint (BitVec.ofNat 64 b.length) ++ b = encRec (n, .len b) := by
  rw [encodeTag_eq_leb128 n _ hn, encodeVarint_ofNat _ hb]; rfl

/-- **wire level, varint records**: tag + varint written by the Go encoder is parsed as one VARINT record -/
theorem parse_tag_varint (fuel n : Nat) (h0 : 0 < n) (hn : n < 2 ^ 29) (v : BitVec 64) (rest : Bytes) :
    parse (fuel + 1) (encodeTag n .varint ++ encodeVarint v ++ rest)
      = (parse fuel rest).map ((n, .varint v.toNat) :: ·) := by
  rw [rec_varint n hn]
  exact parse_encRec_cons fuel (n, .varint v.toNat) ⟨h0, hn, v.isLt⟩ rest

/-- **wire level, I32 records** -/
theorem parse_tag_fixed32 (fuel n : Nat) (h0 : 0 < n) (hn : n < 2 ^ 29) (v : BitVec 32) (rest : Bytes) :
    parse (fuel + 1) (encodeTag n .fixed32 ++ le32 v ++ rest)
      = (parse fuel rest).map ((n, .i32 (le32 v)) :: ·) := by
  rw [rec_fixed32 n hn, ← le32_eq_natLE]
  exact parse_encRec_cons fuel (n, .i32 (le32 v)) ⟨h0, hn, rfl⟩ rest

/-- **wire level, I64 records** -/
theorem parse_tag_fixed64 (fuel n : Nat) (h0 : 0 < n) (hn : n < 2 ^ 29) (v : BitVec 64) (rest : Bytes) :
    parse (fuel + 1) (encodeTag n .fixed64 ++ le64 v ++ rest)
      = (parse fuel rest).map ((n, .i64 (le64 v)) :: ·) := by
  rw [rec_fixed64 n hn, ← le64_eq_natLE]
  exact parse_encRec_cons fuel (n, .i64 (le64 v)) ⟨h0, hn, rfl⟩ rest

/-- **wire level, LEN records** -/
theorem parse_tag_varlen (fuel n : Nat) (h0 : 0 < n) (hn : n < 2 ^ 29) (b : Bytes) (hb : b.length < 2 ^ 64)
    (rest : Bytes) :
    parse (fuel + 1) (encodeTag n .varlen ++ encodeVarint (BitVec.ofNat 64 b.length) ++ b ++ rest)
      = (parse fuel rest).map ((n, .len b) :: ·) := by
  rw [rec_varlen n hn b hb]
  exact parse_encRec_cons fuel (n, .len b) ⟨h0, hn, hb⟩ rest

/-! ## per scalar codec: tag ++ `encode c v fl` is one record with the right payload

`wz` is the flag set `{ wantzero := true }` under which the encoder writes zero values too; the lemmas are stated
for the case "the value is written" (`wantzero` or non-zero). -/

theorem parse_scalar_bool (fuel n : Nat) (h0 : 0 < n) (hn : n < 2 ^ 29) (b : Bool) (fl : Flags)
    (hw : (b || fl.wantzero) = true) (rest : Bytes) :
    parse (fuel + 1) (encodeTag n Codec.bool.wire ++ encode .bool (.bool b) fl ++ rest)
      = (parse fuel rest).map ((n, .varint (if b then 1 else 0)) :: ·) := by
  have e : encode .bool (.bool b) fl = encodeVarint (if b then 1#64 else 0#64) := by
    simp only [encode, hw, if_true]
    cases b <;> decide
  rw [e, show Codec.bool.wire = Wire.varint from rfl, parse_tag_varint fuel n h0 hn]
  cases b <;> rfl

/-- signed kinds (`int`, `int32`, `int64`): the payload is the two's complement image, or the zig-zag image when the
field is tagged zigzag32/zigzag64 -/
theorem parse_scalar_int (fuel n : Nat) (h0 : 0 < n) (hn : n < 2 ^ 29) (c : Codec)
    (hc : c = .int ∨ c = .int32 ∨ c = .int64) (i : Int) (fl : Flags)
    (hw : (i != 0 || fl.wantzero) = true) (rest : Bytes) :
    parse (fuel + 1) (encodeTag n c.wire ++ encode c (.int i) fl ++ rest)
      = (parse fuel rest).map ((n, .varint (fl.u64 i).toNat) :: ·) := by
  rcases hc with rfl | rfl | rfl <;>
  · simp only [encode, hw, if_true]
    exact parse_tag_varint fuel n h0 hn _ rest

theorem parse_scalar_uint (fuel n : Nat) (h0 : 0 < n) (hn : n < 2 ^ 29) (c : Codec)
    (hc : c = .uint ∨ c = .uint32 ∨ c = .uint64) (i : Int) (fl : Flags)
    (hw : (i != 0 || fl.wantzero) = true) (rest : Bytes) :
    parse (fuel + 1) (encodeTag n c.wire ++ encode c (.int i) fl ++ rest)
      = (parse fuel rest).map ((n, .varint (BitVec.ofInt 64 i).toNat) :: ·) := by
  rcases hc with rfl | rfl | rfl <;>
  · simp only [encode, hw, if_true]
    exact parse_tag_varint fuel n h0 hn _ rest

theorem parse_scalar_fixed32 (fuel n : Nat) (h0 : 0 < n) (hn : n < 2 ^ 29) (i : Int) (fl : Flags)
    (hw : (i != 0 || fl.wantzero) = true) (rest : Bytes) :
    parse (fuel + 1) (encodeTag n Codec.fixed32.wire ++ encode .fixed32 (.int i) fl ++ rest)
      = (parse fuel rest).map ((n, .i32 (natLE (BitVec.ofInt 32 i).toNat 4)) :: ·) := by
  simp only [encode, hw, if_true]
  rw [le32_eq_natLE, ← le32_eq_natLE]
  rw [show Codec.fixed32.wire = Wire.fixed32 from rfl, parse_tag_fixed32 fuel n h0 hn, le32_eq_natLE]

theorem parse_scalar_fixed64 (fuel n : Nat) (h0 : 0 < n) (hn : n < 2 ^ 29) (i : Int) (fl : Flags)
    (hw : (i != 0 || fl.wantzero) = true) (rest : Bytes) :
    parse (fuel + 1) (encodeTag n Codec.fixed64.wire ++ encode .fixed64 (.int i) fl ++ rest)
      = (parse fuel rest).map ((n, .i64 (natLE (BitVec.ofInt 64 i).toNat 8)) :: ·) := by
  simp only [encode, hw, if_true]
  rw [show Codec.fixed64.wire = Wire.fixed64 from rfl, parse_tag_fixed64 fuel n h0 hn, le64_eq_natLE]

/-! ### sfixed32 / sfixed64 (`int32` / `int64` tagged `fixed32` / `fixed64`): two's complement in 4 / 8 bytes -/

/-- two's complement image of an integer in 32 bits (reference side; the 64-bit one is `Spec.Protobuf.ofInt64`) -/
def ofInt32 (i : Int) : Nat := (i % 2 ^ 32).toNat

theorem ofInt32_lt (i : Int) : ofInt32 i < 2 ^ 32 := by
  unfold ofInt32; omega

theorem toNat_ofInt_32 (i : Int) : (BitVec.ofInt 32 i).toNat = ofInt32 i := by
  rw [BitVec.toNat_ofInt]; rfl

theorem toNat_ofInt_64 (i : Int) : (BitVec.ofInt 64 i).toNat = ofInt64 i := by
  rw [BitVec.toNat_ofInt]; rfl

theorem ofInt32_nonneg (i : Int) (h0 : 0 ≤ i) (h1 : i < (2:Int)^32) : ofInt32 i = i.toNat := by
  simp only [Int.reducePow] at h1
  unfold ofInt32; omega

theorem ofInt64_nonneg (i : Int) (h0 : 0 ≤ i) (h1 : i < (2:Int)^64) : ofInt64 i = i.toNat := by
  simp only [Int.reducePow] at h1
  unfold ofInt64; omega

/-- **wire level, sfixed32**: an `int32` tagged `fixed32` is written as one I32 record whose four bytes are the
little-endian two's complement of the value -/
theorem parse_scalar_sfixed32 (fuel n : Nat) (h0 : 0 < n) (hn : n < 2 ^ 29) (i : Int) (fl : Flags)
    (hw : (i != 0 || fl.wantzero) = true) (rest : Bytes) :
    parse (fuel + 1) (encodeTag n Codec.sfixed32.wire ++ encode .sfixed32 (.int i) fl ++ rest)
      = (parse fuel rest).map ((n, .i32 (natLE (ofInt32 i) 4)) :: ·) := by
  simp only [encode, hw, if_true]
  rw [show Codec.sfixed32.wire = Wire.fixed32 from rfl, parse_tag_fixed32 fuel n h0 hn, le32_eq_natLE, toNat_ofInt_32]

/-- **wire level, sfixed64** -/
theorem parse_scalar_sfixed64 (fuel n : Nat) (h0 : 0 < n) (hn : n < 2 ^ 29) (i : Int) (fl : Flags)
    (hw : (i != 0 || fl.wantzero) = true) (rest : Bytes) :
    parse (fuel + 1) (encodeTag n Codec.sfixed64.wire ++ encode .sfixed64 (.int i) fl ++ rest)
      = (parse fuel rest).map ((n, .i64 (natLE (ofInt64 i) 8)) :: ·) := by
  simp only [encode, hw, if_true]
  rw [show Codec.sfixed64.wire = Wire.fixed64 from rfl, parse_tag_fixed64 fuel n h0 hn, le64_eq_natLE, toNat_ofInt_64]

/-- the reference decoder reads an sfixed32 payload back as the signed value -/
theorem decodeOne_sfixed32 (fuel : Nat) (o : FieldOpt) (ho : o.fixed = true) (i : Int)
    (h1 : -(2:Int)^31 ≤ i) (h2 : i < (2:Int)^31) (cur : Val) :
    decodeOne (fuel + 1) (.int .i32) o (.i32 (natLE (ofInt32 i) 4)) cur = some (.int i) := by
  simp only [decodeOne, ho, if_true]
  rw [leNat_natLE_four _ (ofInt32_lt i)]
  simp only [Int.reducePow] at h1 h2
  have : (if ofInt32 i < 2 ^ 31 then (ofInt32 i : Int) else (ofInt32 i : Int) - 2 ^ 32) = i := by
    unfold ofInt32; split <;> omega
  rw [this]

/-- the reference decoder reads an sfixed64 payload back as the signed value -/
theorem decodeOne_sfixed64 (fuel : Nat) (o : FieldOpt) (ho : o.fixed = true) (i : Int)
    (h1 : -(2:Int)^63 ≤ i) (h2 : i < (2:Int)^63) (cur : Val) :
    decodeOne (fuel + 1) (.int .i64) o (.i64 (natLE (ofInt64 i) 8)) cur = some (.int i) := by
  simp only [decodeOne, ho, if_true]
  have hlt : ofInt64 i < 2 ^ 64 := by unfold ofInt64; omega
  rw [leNat_natLE_eight _ hlt]
  simp only [Int.reducePow] at h1 h2
  have : toInt64 (ofInt64 i) = i := by
    unfold toInt64 ofInt64; split <;> omega
  rw [this]

/-- concrete instance: `int32` tagged `fixed32`, field 1, value −5: the record `0d fb ff ff ff`, read back as −5 -/
example : encodeTag 1 Codec.sfixed32.wire ++ encode .sfixed32 (.int (-5)) {} = [0x0d, 0xfb, 0xff, 0xff, 0xff]
    ∧ natLE (ofInt32 (-5)) 4 = [0xfb, 0xff, 0xff, 0xff]
    ∧ decodeOne 1 (.int .i32) { number := 1, fixed := true } (.i32 (natLE (ofInt32 (-5)) 4)) .nil = some (.int (-5)) :=
  ⟨by decide, by decide, decodeOne_sfixed32 0 _ rfl (-5) (by decide) (by decide) _⟩

theorem parse_scalar_float32 (fuel n : Nat) (h0 : 0 < n) (hn : n < 2 ^ 29) (bits : Nat) (fl : Flags)
    (hw : (bits != 0 || fl.wantzero) = true) (rest : Bytes) :
    parse (fuel + 1) (encodeTag n Codec.float32.wire ++ encode .float32 (.float bits) fl ++ rest)
      = (parse fuel rest).map ((n, .i32 (natLE (bits % 2 ^ 32) 4)) :: ·) := by
  simp only [encode, hw, if_true]
  rw [show Codec.float32.wire = Wire.fixed32 from rfl, parse_tag_fixed32 fuel n h0 hn, le32_eq_natLE,
    BitVec.toNat_ofNat]

theorem parse_scalar_float64 (fuel n : Nat) (h0 : 0 < n) (hn : n < 2 ^ 29) (bits : Nat) (fl : Flags)
    (hw : (bits != 0 || fl.wantzero) = true) (rest : Bytes) :
    parse (fuel + 1) (encodeTag n Codec.float64.wire ++ encode .float64 (.float bits) fl ++ rest)
      = (parse fuel rest).map ((n, .i64 (natLE (bits % 2 ^ 64) 8)) :: ·) := by
  simp only [encode, hw, if_true]
  rw [show Codec.float64.wire = Wire.fixed64 from rfl, parse_tag_fixed64 fuel n h0 hn, le64_eq_natLE,
    BitVec.toNat_ofNat]

theorem parse_scalar_string (fuel n : Nat) (h0 : 0 < n) (hn : n < 2 ^ 29) (s : Bytes) (hs : s.length < 2 ^ 64)
    (fl : Flags) (hw : (!s.isEmpty || fl.wantzero) = true) (rest : Bytes) :
    parse (fuel + 1) (encodeTag n Codec.string.wire ++ encode .string (.str s) fl ++ rest)
      = (parse fuel rest).map ((n, .len s) :: ·) := by
  simp only [encode, hw, if_true]
  rw [show Codec.string.wire = Wire.varlen from rfl, ← List.append_assoc (encodeTag n Wire.varlen)]
  exact parse_tag_varlen fuel n h0 hn s hs rest

/-- `[]byte`, non-nil: always written, also when empty -/
theorem parse_scalar_bytes (fuel n : Nat) (h0 : 0 < n) (hn : n < 2 ^ 29) (s : Bytes) (hs : s.length < 2 ^ 64)
    (fl : Flags) (rest : Bytes) :
    parse (fuel + 1) (encodeTag n Codec.bytes.wire ++ encode .bytes (.str s) fl ++ rest)
      = (parse fuel rest).map ((n, .len s) :: ·) := by
  simp only [encode]
  rw [show Codec.bytes.wire = Wire.varlen from rfl, ← List.append_assoc (encodeTag n Wire.varlen)]
  exact parse_tag_varlen fuel n h0 hn s hs rest

/-- an embedded message (or any other length-delimited chunk): tag, length, body -/
theorem parse_embedded (fuel n : Nat) (h0 : 0 < n) (hn : n < 2 ^ 29) (c : Codec) (v : Val) (fl : Flags)
    (hs : size c v fl < 2 ^ 64) (rest : Bytes) :
    parse (fuel + 1) (encodeTag n .varlen ++ encodeVarint (BitVec.ofNat 64 (size c v fl)) ++ encode c v fl ++ rest)
      = (parse fuel rest).map ((n, .len (encode c v fl)) :: ·) := by
  have hl := Lemmas.Proto.size_eq c v fl
  rw [← hl] at hs ⊢
  exact parse_tag_varlen fuel n h0 hn _ hs rest

end Enc.Lemmas.ProtoWire
