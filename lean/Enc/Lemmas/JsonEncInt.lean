import Enc.Model.Json.EncString
import Enc.Spec.Json.StdEnc
/-!
# JSON (C01), integers: `formatInteger` / `appendInt` write the decimal representation

`decimal_eq_if` characterises `Spec.Json.decimal` (built on `Nat.toDigits 10`) by recursion on `n / 10`;
`pairs_spec`: the two-digits-at-a-time loop writes the decimal digits padded with at most one leading zero;
`formatInteger_eq`, `appendInt_eq`: MAIN.
-/
namespace Enc.Lemmas.JsonEncInt
open Enc Enc.Model.Json

/-- the regenerated two-digit table: entry j is the two ASCII digits of j -/
theorem two_digits_table : ∀ j : Fin 100, Enc.Model.Json.twoDigits j.val = [UInt8.ofNat (0x30 + j.val / 10), UInt8.ofNat (0x30 + j.val % 10)] := by
  decide +kernel

/-- one decimal digit as an ASCII byte -/
def dig (d : Nat) : UInt8 := UInt8.ofNat (0x30 + d)

theorem digitChar_byte (d : Nat) (h : d < 10) : UInt8.ofNat (Nat.digitChar d).toNat = dig d := by
  have : d = 0 ∨ d = 1 ∨ d = 2 ∨ d = 3 ∨ d = 4 ∨ d = 5 ∨ d = 6 ∨ d = 7 ∨ d = 8 ∨ d = 9 := by omega
  rcases this with h | h | h | h | h | h | h | h | h | h <;> subst h <;> decide

theorem decimal_eq_if (n : Nat) :
    Spec.Json.decimal n = if n < 10 then [dig n] else Spec.Json.decimal (n / 10) ++ [dig (n % 10)] := by
  unfold Spec.Json.decimal
  rw [Nat.toDigits_eq_if (by decide)]
  split
  · rename_i h; simp [digitChar_byte n h]
  · simp [digitChar_byte (n % 10) (Nat.mod_lt _ (by decide))]

theorem decimal_lt10 (n : Nat) (h : n < 10) : Spec.Json.decimal n = [dig n] := by
  rw [decimal_eq_if, if_pos h]

theorem decimal_ge10 (n : Nat) (h : 10 ≤ n) :
    Spec.Json.decimal n = Spec.Json.decimal (n / 10) ++ [dig (n % 10)] := by
  rw [decimal_eq_if, if_neg (by omega)]

theorem decimal_ge100 (n : Nat) (h : 100 ≤ n) :
    Spec.Json.decimal n = Spec.Json.decimal (n / 100) ++ [dig (n % 100 / 10), dig (n % 100 % 10)] := by
  rw [decimal_ge10 n (by omega), decimal_ge10 (n / 10) (by omega)]
  have h1 : n / 10 / 10 = n / 100 := by omega
  have h2 : n / 10 % 10 = n % 100 / 10 := by omega
  have h3 : n % 100 % 10 = n % 10 := by omega
  rw [h1, h2, h3]; simp

theorem twoDigits_eq (j : Nat) (h : j < 100) : twoDigits j = [dig (j / 10), dig (j % 10)] :=
  two_digits_table ⟨j, h⟩

/-- the first digit of a positive number is not `'0'` -/
theorem decimal_head (n : Nat) (h : 0 < n) : ∃ d r, Spec.Json.decimal n = d :: r ∧ d ≠ 0x30 := by
  induction n using Nat.strongRecOn with
  | _ n ih =>
    by_cases h10 : n < 10
    · refine ⟨dig n, [], decimal_lt10 n h10, ?_⟩
      have : n = 1 ∨ n = 2 ∨ n = 3 ∨ n = 4 ∨ n = 5 ∨ n = 6 ∨ n = 7 ∨ n = 8 ∨ n = 9 := by omega
      rcases this with h | h | h | h | h | h | h | h | h <;> subst h <;> decide
    · obtain ⟨d, r, hr, hd⟩ := ih (n / 10) (by omega) (by omega)
      exact ⟨d, r ++ [dig (n % 10)], by rw [decimal_ge10 n (by omega), hr]; rfl, hd⟩

/-- the digit-pair loop writes the decimal digits, padded to an even count with one leading zero -/
theorem pairs_spec (fuel n : Nat) (hf : 0 < fuel) (h : n < 100 ^ fuel) :
    pairs fuel n = 0x30 :: Spec.Json.decimal n ∨ (pairs fuel n = Spec.Json.decimal n ∧ 10 ≤ n) := by
  induction fuel generalizing n with
  | zero => omega
  | succ fuel ih =>
    unfold pairs
    by_cases h100 : 100 ≤ n
    · have hq : n / 100 < 100 ^ fuel := by
        rw [Nat.pow_succ] at h; omega
      have hf' : 0 < fuel := by
        rcases Nat.eq_zero_or_pos fuel with h0 | h0
        · subst h0; simp at hq; omega
        · exact h0
      rw [if_pos h100, twoDigits_eq _ (Nat.mod_lt _ (by decide)), decimal_ge100 n h100]
      rcases ih (n / 100) hf' hq with h1 | ⟨h1, _⟩
      · left; rw [h1]; rfl
      · right; rw [h1]; exact ⟨rfl, by omega⟩
    · rw [if_neg h100, twoDigits_eq _ (by omega)]
      by_cases h10 : n < 10
      · left; rw [decimal_lt10 n h10]
        have h1 : n / 10 = 0 := by omega
        have h2 : n % 10 = n := by omega
        rw [h1, h2]; rfl
      · right
        refine ⟨?_, by omega⟩
        rw [decimal_ge10 n (by omega), decimal_lt10 (n / 10) (by omega)]; rfl

/-- `if n < 10 { i++ }` of the Go code -/
def strip (ds : Bytes) : Bytes := match ds with | 0x30 :: rest => rest | d => d

theorem strip_zero (r : Bytes) : strip (0x30 :: r) = r := rfl
theorem strip_ne (d : UInt8) (r : Bytes) (h : d ≠ 0x30) : strip (d :: r) = d :: r := by
  unfold strip
  split
  · rename_i heq; injection heq with h1 h2; exact absurd h1 h
  · rfl

theorem strip_pairs (n : Nat) (h : n < 2 ^ 64) : strip (pairs 11 n) = Spec.Json.decimal n := by
  rcases pairs_spec 11 n (by decide) (by omega) with h1 | ⟨h1, h10⟩
  · rw [h1, strip_zero]
  · obtain ⟨d, r, hr, hd⟩ := decimal_head n (by omega)
    rw [h1, hr, strip_ne d r hd]

theorem formatInteger_eq' (n : Nat) (h : n < 2 ^ 64) (neg : Bool) :
    formatInteger n neg = (if neg then [0x2d] else []) ++ Spec.Json.decimal n := by
  unfold formatInteger
  cases neg
  · by_cases h10 : n < 10
    · simp [h10, decimal_lt10 n h10, dig, Nat.add_comm]
    · by_cases h100 : n < 100
      · simp only [Bool.not_false, Bool.true_and, h10, h100, decide_true, decide_false, if_true]
        rw [twoDigits_eq n h100, decimal_ge10 n (by omega), decimal_lt10 (n / 10) (by omega)]; simp
      · simp only [Bool.not_false, Bool.true_and, h10, h100, decide_false]
        exact strip_pairs n h
  · simp only [Bool.not_true, Bool.false_and]
    exact congrArg (0x2d :: ·) (strip_pairs n h)

theorem formatInteger_eq (n : Nat) (h : n < 2 ^ 64) (neg : Bool) (_hz : neg = true → n ≠ 0) :
    formatInteger n neg = (if neg then [0x2d] else []) ++ Spec.Json.decimal n :=
  formatInteger_eq' n h neg

theorem appendInt_eq (i : Int) (h : -2 ^ 63 ≤ i ∧ i < 2 ^ 64) : appendInt i = Spec.Json.intString i := by
  unfold appendInt Spec.Json.intString
  rw [formatInteger_eq' _ (by omega)]
  by_cases hi : i < 0 <;> simp [hi]

end Enc.Lemmas.JsonEncInt
